"""U group helpers: build in-process drivers from /repo sources "like unit test X" (a tiny automake reader so that the
driver links exactly the sources, stubs and convenience libraries the repository's own test links, compiled by us
from the working tree with sanitizers), and function-conformance through TLC (T3)."""
import json
import os
import re
import subprocess

import vlib
from vlib import REPO, VERIF, MachineryError

HARN = os.path.join(VERIF, 'harness')

SYSLIBS = ['-lgnutls', '-lnettle', '-lcrypt', '-lcap', '-lxml2', '-lexpat', '-lm', '-lnsl', '-lresolv', '-ldl', '-lpthread',
           '-lltdl', '-lsystemd', '-L/usr/lib/x86_64-linux-gnu/mit-krb5', '-lkrb5', '-lk5crypto', '-lcom_err', '-lgssapi_krb5']


class Mk:
    """Reader for a generated automake Makefile: variables with continuation lines and $(VAR) expansion."""
    _cache = {}

    def __init__(self, path):
        self.path = path
        self.dir = os.path.dirname(path)
        self.vars = {}
        cur = None
        for raw in open(path, errors='replace'):
            line = raw.rstrip('\n')
            if cur is not None:
                self.vars[cur] += ' ' + line.rstrip('\\')
                if not line.endswith('\\'):
                    cur = None
                continue
            m = re.match(r'^([A-Za-z_][A-Za-z0-9_]*)\s*(\+?=)\s*(.*)$', line)
            if m:
                name, op, val = m.group(1), m.group(2), m.group(3)
                v = val.rstrip('\\')
                if op == '+=' and name in self.vars:
                    self.vars[name] += ' ' + v
                else:
                    self.vars[name] = v
                if val.endswith('\\'):
                    cur = name

    @classmethod
    def get(cls, path):
        key = (path, os.path.getmtime(path))
        if key not in cls._cache:
            cls._cache[key] = Mk(path)
        return cls._cache[key]

    def expand(self, text, depth=0):
        if depth > 20:
            return text

        def rep(m):
            return self.expand(self.vars.get(m.group(1), ''), depth + 1)
        return re.sub(r'\$\((\w+)\)', rep, text)

    def words(self, var):
        return self.expand(self.vars.get(var, '')).split()


def lib_sources(la_path, seen=None):
    """la_path: path (relative to REPO) of a libtool convenience library, e.g. src/sbuf/libsbuf.la.
    Returns list of source paths (absolute) of the library including nested LIBADD .la libraries."""
    seen = seen if seen is not None else set()
    la_path = os.path.normpath(la_path)
    if la_path in seen:
        return []
    seen.add(la_path)
    d = os.path.join(REPO, os.path.dirname(la_path))
    mkp = os.path.join(d, 'Makefile')
    if not os.path.exists(mkp):
        raise MachineryError('no Makefile for ' + la_path)
    mk = Mk.get(mkp)
    base = os.path.basename(la_path)
    var = re.sub(r'[^A-Za-z0-9_]', '_', base)
    srcs = []
    for w in mk.words(var + '_SOURCES') + mk.words('nodist_' + var + '_SOURCES'):
        if w.endswith(('.cc', '.c', '.cpp')):
            srcs.append(os.path.normpath(os.path.join(d, w)))
    for w in mk.words(var + '_LIBADD'):
        if w.endswith('.la'):
            srcs += lib_sources(os.path.relpath(os.path.normpath(os.path.join(d, w)), REPO), seen)
    return srcs


def test_closure(test):
    """Sources and convenience libraries of src/tests/<test> as listed by src/Makefile."""
    mk = Mk.get(os.path.join(REPO, 'src', 'Makefile'))
    var = 'tests_' + test
    srcd = os.path.join(REPO, 'src')
    srcs = []
    for w in mk.words(var + '_SOURCES') + mk.words('nodist_' + var + '_SOURCES'):
        if w.endswith(('.cc', '.c')):
            srcs.append(os.path.normpath(os.path.join(srcd, w)))
    libs = []
    syslibs = []
    for w in mk.words(var + '_LDADD'):
        if w.endswith('.la') or (w.endswith('.a') and not w.startswith('-')):
            libs.append(os.path.relpath(os.path.normpath(os.path.join(srcd, w)), REPO))
        elif w.startswith('-l') and w != '-lcppunit':
            syslibs.append(w)
    if not srcs:
        raise MachineryError('unknown test program ' + test)
    return srcs, libs, syslibs


def a_sources(a_path):
    """plain static library built by automake (e.g. src/repl/liblru.a)"""
    d = os.path.join(REPO, os.path.dirname(a_path))
    mk = Mk.get(os.path.join(d, 'Makefile'))
    var = re.sub(r'[^A-Za-z0-9_]', '_', os.path.basename(a_path))
    return [os.path.normpath(os.path.join(d, w)) for w in mk.words(var + '_SOURCES') if w.endswith(('.cc', '.c'))]


def build_like_test(ctx, name, test, driver, drop=(), add=(), add_libs=(), san=True, defines=(), extra_inc=(),
                    replace=None):
    """Build harness/<driver> linked like src/tests/<test>.
    drop: basenames (or relative paths under src/) of listed sources to leave out (the test's own main is always dropped);
    add: extra sources relative to REPO (compiled as objects); add_libs: extra convenience libs relative to REPO;
    replace: dict {listed source rel to src -> replacement rel to src} (e.g. a stub replaced by the real file)."""
    srcs, libs, syslibs = test_closure(test)
    srcd = os.path.join(REPO, 'src')
    replace = replace or {}
    out = []
    for s in srcs:
        rel = os.path.relpath(s, srcd)
        if rel.startswith('tests/test') and 'Support' not in rel or rel in drop or os.path.basename(rel) in drop:
            continue
        if rel in replace:
            s = os.path.join(srcd, replace[rel])
        out.append(s)
    out += [os.path.join(REPO, a) for a in add]
    flags = vlib.BASE_FLAGS + (vlib.SAN_FLAGS if san else vlib.OPT_FLAGS) + list(defines) + [
        '-DDEFAULT_CONFIG_FILE="/usr/local/squid/etc/squid.conf"', '-DDEFAULT_SQUID_DATA_DIR="/usr/local/squid/share"',
        '-DDEFAULT_SQUID_CONFIG_DIR="/usr/local/squid/etc"', '-DDEFAULT_STATEDIR="/usr/local/squid/var/run/squid"']
    inc = list(extra_inc) + ['-I', HARN] + vlib.repo_includes()
    dsrc = [os.path.join(HARN, d) for d in ([driver] if isinstance(driver, str) else driver)]
    objs = vlib.compile_many(dsrc + out, flags, inc)
    archives = []
    for la in list(libs) + list(add_libs):
        ls = lib_sources(la) if la.endswith('.la') else a_sources(la)
        if not ls:
            continue
        lobjs = vlib.compile_many(ls, flags, inc)
        archives.append(vlib.archive(re.sub(r'\W', '_', la), lobjs))
    lflags = (['-fsanitize=address,undefined'] if san else []) + ['-rdynamic']
    sl = [l for l in SYSLIBS]
    return vlib.link('u_' + name, objs, archives, lflags, sl)


# ---------------------------------------------------------------------------------------------
# T3: function conformance through TLC.  Cases are ndjson lines; the Conf_* module defines CaseOk(c) (P-layer: the
# property) and optionally ImplOk(c) (I-layer: today's exact behaviour).  One TLC state per case.
# ---------------------------------------------------------------------------------------------
def conformance(ctx, module, cfg, cases, label, chunk=20000, timeout=1500, workers=None):
    """Returns (p_rejected_indices, i_rejected_indices). Uses TLC -continue so that every rejected case is reported."""
    import concurrent.futures
    prej, irej = [], []
    chunks = [cases[i:i + chunk] for i in range(0, len(cases), chunk)]
    nw = workers or max(1, min(8, vlib.NCPU // max(1, min(len(chunks), 4))))

    def one(ci):
        d = vlib.mkdirs(os.path.join(ctx.work, 'traces'))
        path = os.path.join(d, '%s-%d.ndjson' % (label, ci))
        with open(path, 'w') as f:
            for c in chunks[ci]:
                f.write(json.dumps(c, separators=(',', ':')) + '\n')
        res = vlib.tlc(ctx, module, cfg, workers=nw, env={'TRACE': path}, timeout=timeout, args=['-continue'],
                       label='%s-%d' % (label, ci), kind='conf')
        pr, ir = [], []
        # every violation prints "Error: Invariant X is violated." followed by a 2-state trace; the last 'i = n' is the case
        for m in re.finditer(r'Invariant (\w+) is violated\.(.*?)(?=Error: Invariant|\Z)', res.out, re.S):
            nums = re.findall(r'\bi = (\d+)', m.group(2))
            if not nums:
                continue
            n = int(nums[-1])
            (pr if m.group(1) == 'CaseOk' else ir).append(ci * chunk + n - 1)
        if not pr and not ir and not res.clean and 'Invariant' not in res.out:
            raise MachineryError('conformance run failed (%s):\n%s' % (label, res.tail(40)))
        if res.distinct < len(chunks[ci]):
            raise MachineryError('conformance run evaluated %d of %d cases (%s):\n%s' % (res.distinct, len(chunks[ci]), label, res.tail(30)))
        return pr, ir

    with concurrent.futures.ThreadPoolExecutor(max_workers=min(4, max(1, len(chunks)))) as ex:
        for pr, ir in ex.map(one, range(len(chunks))):
            prej += pr
            irej += ir
    ctx.add('impl_traces', len(cases))
    ctx.add('tlc_checked_cases', len(cases))
    prej, irej = sorted(set(prej)), sorted(set(irej))
    # TLC reports only the first violated invariant of a state: a case rejected by the P-layer says nothing about the
    # I-layer.  Evaluate those cases once more with ImplOk as the only invariant (drift bookkeeping only).
    cfg_txt = open(cfg).read()
    if prej and re.search(r'\bImplOk\b', cfg_txt) and re.search(r'\bCaseOk\b', cfg_txt) and not label.endswith('-ionly'):
        icfg = os.path.join(vlib.mkdirs(os.path.join(ctx.work, 'traces')), os.path.basename(cfg)[:-4] + '_ionly.cfg')
        with open(icfg, 'w') as f:
            f.write(re.sub(r'\bCaseOk\b', '', cfg_txt))
        prej_eval = prej[:300]        # bounded: this is bookkeeping, not a verdict
        sub = [cases[i] for i in prej_eval]
        try:
            _, ir2 = conformance(ctx, module, icfg, sub, label + '-ionly', chunk=chunk, timeout=timeout, workers=workers)
            ctx.cov['impl_traces'] -= len(sub)
            ctx.cov['tlc_checked_cases'] -= len(sub)
            irej = sorted(set(irej) | {prej_eval[j] for j in ir2})
        except MachineryError:
            pass
    return prej, irej


def run_cases(exe, inputs, timeout=900, env=None, args=()):
    """Feed ndjson inputs to a driver that answers one ndjson line per input. Returns list of parsed outputs."""
    txt = ''.join(json.dumps(i, separators=(',', ':')) + '\n' for i in inputs)
    r = vlib.run_driver(exe, txt, timeout=timeout, env=env, args=args)
    outs = []
    for l in r.stdout.splitlines():
        if l.startswith('{'):
            try:
                outs.append(json.loads(l))
            except ValueError:
                raise MachineryError('bad driver line: ' + l[:300])
    if len(outs) != len(inputs):
        raise MachineryError('driver answered %d of %d inputs (rc=%s)\nstderr tail: %s\nstdout tail: %s' % (
            len(outs), len(inputs), r.returncode, r.stderr[-1500:], r.stdout[-300:]))
    return outs, r.stderr
