"""Shared code for the S group (C53-C56): build a schedule-player driver from copies of the ipc sources,
replay TLC's edge dump (T1), explore schedules exhaustively in a bound on the real code, and have TLC
validate the recorded call/return histories against the P-layer (linearizability + property guards)."""
import collections
import json
import os
import re

import vlib
from vlib import REPO, VERIF, MachineryError

HARN = os.path.join(VERIF, 'harness')


def build_sdriver(ctx, name, copied, driver_src, extra_subst=(), extra_srcs=(), defines=()):
    """copied: files relative to REPO/src that are put under the schedule player."""
    subst = vlib.atomics_subst() + list(extra_subst)
    root = vlib.gen_copy(copied, subst, 'sched-' + name)
    inc = ['-I', root, '-I', HARN, '-I', os.path.join(HARN, 'sched')] + vlib.repo_includes()
    flags = vlib.BASE_FLAGS + vlib.OPT_FLAGS + list(defines)
    srcs = [os.path.join(root, f) for f in copied if f.endswith('.cc')]
    srcs += [os.path.join(HARN, 'sched', 'vsched.cc'), os.path.join(HARN, 'sched', 'sdriver.cc'),
             os.path.join(HARN, driver_src)] + [os.path.join(HARN, s) for s in extra_srcs]
    objs = vlib.compile_many(srcs, flags, inc)
    return vlib.link('s_' + name, objs)


# ---------------------------------------------------------------------------------------------
# T1: edge replay
# ---------------------------------------------------------------------------------------------
def parse_edges(out):
    edges = []
    for line in out.splitlines():
        if line.startswith('<<"EDGE"'):
            m = re.match(r'<<"EDGE", "(.*)">>\s*$', line)
            js = m.group(1).encode().decode('unicode_escape')
            edges.append(json.loads(js))
    return edges


def replay_edges(ctx, exe, edges, nfib, mover, shared_keys, cfg='', ret_of=None, max_edges=None):
    """edges: list of {'s':state,'t':state}. mover(s,t) -> ('B', fiber, op) | ('S', fiber) describing the
    driver command for that transition. Compares the driver's projected shared state with t after every edge."""
    def key(st):
        return json.dumps(st, sort_keys=True)
    succ = collections.defaultdict(list)
    states = {}
    uniq = {}
    for e in edges:
        ks, kt = key(e['s']), key(e['t'])
        states[ks] = e['s']
        states[kt] = e['t']
        if (ks, kt) not in uniq:
            uniq[(ks, kt)] = e
            succ[ks].append(kt)
    if not edges:
        raise MachineryError('no edges dumped by TLC')
    init = key(edges[0]['s'])
    pred = {init: None}
    q = collections.deque([init])
    while q:
        u = q.popleft()
        for v in succ[u]:
            if v not in pred:
                pred[v] = u
                q.append(v)

    def cmds(s, t):
        m = mover(s, t)
        if m[0] == 'B':
            return 'B %d %s\n' % (m[1], m[2])
        return 'S %d\n' % m[1]

    script = []
    expect = []
    todo = list(uniq.items())
    if max_edges and len(todo) > max_edges:
        import random
        random.Random(ctx.seed).shuffle(todo)
        todo = todo[:max_edges]
    for (ks, kt), e in todo:
        if ks not in pred:
            continue
        script.append('R %d %s\n' % (nfib, cfg))
        path = []
        k = ks
        while pred[k] is not None:
            path.append((pred[k], k))
            k = pred[k]
        for a, b in reversed(path):
            script.append(cmds(states[a], states[b]))
        script.append(cmds(e['s'], e['t']))
        script.append('P\n')
        expect.append(e)
    r = vlib.run_driver(exe, ''.join(script), timeout=1200)
    res = [json.loads(l) for l in r.stdout.splitlines() if l.startswith('{"st"')]
    if len(res) != len(expect):
        raise MachineryError('edge replay: driver printed %d states for %d edges; stderr: %s' % (
            len(res), len(expect), r.stderr[-500:]))
    mism = 0
    for got, e in zip(res, expect):
        want = {k: e['t'][k] for k in shared_keys}
        have = {k: got['st'].get(k) for k in shared_keys}
        bad = want != have
        if not bad and ret_of:
            bad = not ret_of(e['s'], e['t'], got)
        if bad or 'abort' in got:
            mism += 1
            if len(ctx.drift) < 5:
                ctx.drift.append('edge replay: spec %s impl %s%s' % (json.dumps(want, sort_keys=True),
                                                                      json.dumps(have, sort_keys=True),
                                                                      ' abort=' + got['abort'] if 'abort' in got else ''))
    ctx.add('edges_replayed', len(expect))
    ctx.add('edge_mismatches', mism)
    ctx.add('spec_states_covered', len(states))
    return len(expect), mism


# ---------------------------------------------------------------------------------------------
# exhaustive exploration of the real code + P-layer validation of its histories by TLC
# ---------------------------------------------------------------------------------------------
def run_explorer(ctx, exe, commands, timeout=3000):
    """commands: list of 'X ...' / 'W ...' lines. Returns (stats list, histories list, violations list)."""
    r = vlib.run_driver(exe, ''.join(c + '\n' for c in commands), timeout=timeout)
    stats, hists, viols = [], [], []
    for l in r.stdout.splitlines():
        if not l.startswith('{"x"'):
            continue
        try:
            o = json.loads(l)
        except ValueError:
            raise MachineryError('bad driver output: ' + l[:200])
        if o['x'] == 'stats':
            stats.append(o)
        elif o['x'] == 'hist':
            hists.append(o['ev'])
        elif o['x'] == 'viol':
            viols.append(o)
    if r.returncode != 0 or len(stats) != len(commands):
        raise MachineryError('explorer failed rc=%s stats=%d/%d stderr=%s stdout-tail=%s' % (
            r.returncode, len(stats), len(commands), r.stderr[-800:], r.stdout[-300:]))
    return stats, hists, viols


def hist_to_line(ev, extra=None):
    """driver event ['c',p,op] / ['r',p,op,res] / ['a',p,op,msg] -> record list with uniform fields"""
    out = []
    for e in ev:
        out.append({'e': e[0], 'p': int(e[1]), 'op': e[2], 'res': e[3] if len(e) > 3 else ''})
    d = {'ev': out}
    if extra:
        d.update(extra)
    return d


def validate_histories(ctx, module, cfg, hist_lines, label, chunk=4000, timeout=1500):
    """Runs the P-layer trace spec over the histories (one TLC run per chunk, chunks in parallel).
    Returns list of indices of rejected histories."""
    import concurrent.futures
    rejected = []
    chunks = [hist_lines[i:i + chunk] for i in range(0, len(hist_lines), chunk)]

    def one(ci):
        d = vlib.mkdirs(os.path.join(ctx.work, 'traces'))
        path = os.path.join(d, '%s-%d.ndjson' % (label, ci))
        with open(path, 'w') as f:
            for ln in chunks[ci]:
                f.write(json.dumps(ln, separators=(',', ':')) + '\n')
        res = vlib.tlc(ctx, module, cfg, workers=1, env={'TRACE': path}, timeout=timeout, label='%s-%d' % (label, ci), kind='trace')
        if res.clean:
            return ci, [], res
        m = re.search(r'<<\s*"REJECTED",\s*\{(.*?)\}\s*>>', res.out, re.S)
        if m:
            idx = [int(x) for x in m.group(1).split(',') if x.strip()]
            return ci, idx, res
        if res.invariant:
            return ci, ['inv:' + res.invariant], res
        raise MachineryError('trace validation failed to run (%s):\n%s' % (label, res.tail(40)))

    with concurrent.futures.ThreadPoolExecutor(max_workers=min(8, max(1, len(chunks)))) as ex:
        for ci, idx, res in ex.map(one, range(len(chunks))):
            for i in idx:
                if isinstance(i, int):
                    rejected.append(ci * chunk + i - 1)
                else:
                    rejected.append(i)
    ctx.add('impl_traces', len(hist_lines))
    return rejected
