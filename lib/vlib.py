"""Shared machinery for /verif checks: paths, TLC runner, C++ mini build, evidence, verdicts.

Exit codes (DESIGN section 2): 0 property held on everything explored; 1 VIOLATION; 2 machinery error.
"""
import concurrent.futures
import hashlib
import json
import os
import re
import shlex
import shutil
import subprocess
import sys
import time

VERIF = os.path.dirname(os.path.dirname(os.path.abspath(__file__)))
REPO = os.environ.get('VERIF_REPO', '/repo')
CACHE = os.environ.get('VERIF_CACHE', '/var/tmp/verif-cache')
GUARD = 'SQUID_VERIF_HOOKS'
NCPU = int(os.environ.get('VERIF_JOBS', '6'))   # the box is shared by many checks/agents: stay well below the 16 cores
TLA_CP = '/opt/veriftools/tla/tla2tools.jar:/opt/veriftools/tla/CommunityModules-deps.jar'


class MachineryError(Exception):
    pass


def sh(cmd, **kw):
    kw.setdefault('stdout', subprocess.PIPE)
    kw.setdefault('stderr', subprocess.STDOUT)
    kw.setdefault('text', True)
    return subprocess.run(cmd, **kw)


def mkdirs(p):
    os.makedirs(p, exist_ok=True)
    return p


def sha(s):
    return hashlib.sha1(s.encode()).hexdigest()[:16]


# ---------------------------------------------------------------------------------------------
# check context, evidence, verdict
# ---------------------------------------------------------------------------------------------
class Ctx:
    def __init__(self, prop, tier='quick', seed=0, replay=None):
        self.prop = prop
        self.tier = tier
        self.seed = int(seed)
        self.replay = replay
        self.t0 = time.time()
        self.work = mkdirs(os.path.join(CACHE, 'work', prop + ('' if REPO == '/repo' else '-' + sha(REPO)) + ('' if VERIF == '/verif' else '-s' + sha(VERIF)[:6])))
        self.violations = []      # list of dicts (what, replay path)
        self.known = []           # matched known findings
        self.drift = []           # I-layer mismatches (never alarms)
        self.notes = []
        self.cov = {}             # accumulates coverage keys
        self.samples = []
        self.assumptions = []
        self.tlc_runs = []        # per TLC run stats
        self.level = 'model_checking'

    @property
    def thorough(self):
        return self.tier == 'thorough'

    def log(self, *a):
        print('[%s %6.1fs]' % (self.prop, time.time() - self.t0), *a, flush=True)

    def add(self, key, n=1):
        self.cov[key] = self.cov.get(key, 0) + n

    def sample(self, obj, limit=6):
        if len(self.samples) < limit:
            self.samples.append(obj)

    def fresh_dir(self, name):
        d = os.path.join(self.work, name)
        shutil.rmtree(d, ignore_errors=True)
        return mkdirs(d)

    # -- verdicts ---------------------------------------------------------------------------
    def violation(self, what, witness):
        """Record a P-layer rejection; matched against known_findings.json before it alarms."""
        kf = match_known(self.prop, witness)
        if kf is not None:
            if kf['id'] not in [k['id'] for k in self.known]:
                self.known.append(kf)
            return False
        d = mkdirs(os.path.join(VERIF, 'evidence', 'replay') if REPO == '/repo' else os.path.join(self.work, 'replay'))
        path = os.path.join(d, '%s-%d.json' % (self.prop, len(self.violations) + 1))
        with open(path, 'w') as f:
            json.dump({'property': self.prop, 'what': what, 'witness': witness, 'seed': self.seed,
                       'tier': self.tier}, f, indent=1, default=str)
        self.violations.append({'what': what, 'replay': path})
        return True

    def finish(self, rule=None, explanation=None):
        """Write evidence and exit with the verdict."""
        for k in self.known:
            print('KNOWN-FINDING: property=%s %s' % (self.prop, k['what']), flush=True)
        for d in self.drift[:5]:
            print('DRIFT: property=%s %s' % (self.prop, d), flush=True)
        cov = dict(self.cov)
        st = sum(r.get('distinct', 0) for r in self.tlc_runs if r.get('kind') in ('mc', 'conf'))
        tr = sum(r.get('generated', 0) for r in self.tlc_runs if r.get('kind') in ('mc', 'conf'))
        cov['trace_validation_states'] = sum(r.get('distinct', 0) for r in self.tlc_runs if r.get('kind') == 'trace')
        cov.setdefault('states', st)
        cov.setdefault('transitions', tr)
        cov.setdefault('traces_validated_against_impl', cov.get('impl_traces', 0))
        cov['samples'] = self.samples if self.samples else ['(none recorded)']
        cov['tlc_runs'] = self.tlc_runs
        cov['drift'] = len(self.drift)
        if self.drift:
            cov['drift_first'] = self.drift[:3]
        if rule:
            cov['rule'] = rule
        if explanation:
            cov['explanation'] = explanation
        cov.setdefault('evaluations', cov.get('impl_steps', 0) or cov.get('impl_traces', 0) or tr)
        cov.setdefault('distinct_nontrivial', cov.get('impl_distinct', 0) or st)
        cov['known_findings_matched'] = [k['id'] for k in self.known]
        if self.notes:
            cov['notes'] = self.notes
        ev = {'property_id': self.prop, 'tier': self.tier, 'seed': self.seed, 'level': self.level,
              'coverage': cov, 'assumptions': self.assumptions, 'wall_s': round(time.time() - self.t0, 2),
              'violations': len(self.violations)}
        if REPO == '/repo' and not self.replay:
            mkdirs(os.path.join(VERIF, 'evidence'))
            with open(os.path.join(VERIF, 'evidence', self.prop + '.json'), 'w') as f:
                json.dump(ev, f, indent=1, default=str)
        else:
            with open(os.path.join(self.work, 'evidence.json'), 'w') as f:
                json.dump(ev, f, indent=1, default=str)
        for v in self.violations:
            print('VIOLATION property=%s replay=%s' % (self.prop, v['replay']), flush=True)
            print('  what: %s' % v['what'], flush=True)
        self.log('done: violations=%d known=%d drift=%d wall=%.1fs' % (
            len(self.violations), len(self.known), len(self.drift), time.time() - self.t0))
        sys.exit(1 if self.violations else 0)


_known_cache = None


def known_findings():
    global _known_cache
    if _known_cache is None:
        p = os.path.join(VERIF, 'known_findings.json')
        _known_cache = json.load(open(p)) if os.path.exists(p) else {'open': [], 'fixed': []}
    return _known_cache


def match_known(prop, witness):
    """An open finding matches when every key of its 'match' dict equals the witness' key (witness must be a dict)."""
    if not isinstance(witness, dict):
        return None
    cls = witness.get('class', {})
    for k in known_findings().get('open', []):
        if k['property'] != prop:
            continue
        m = k.get('match', {})
        if m and all(cls.get(a) == b for a, b in m.items()):
            return k
    return None


# ---------------------------------------------------------------------------------------------
# TLC
# ---------------------------------------------------------------------------------------------
class TlcResult:
    def __init__(self, out, rc):
        self.out = out
        self.rc = rc
        m = re.search(r'(\d+) states generated, (\d+) distinct states found, (\d+) states left', out)
        self.generated = int(m.group(1)) if m else 0
        self.distinct = int(m.group(2)) if m else 0
        m = re.search(r'The depth of the complete state graph search is (\d+)', out)
        self.depth = int(m.group(1)) if m else 0
        self.invariant = None
        m = re.search(r'Invariant (\S+) is violated', out)
        if m:
            self.invariant = m.group(1)
        self.prop_violated = 'Temporal properties were violated' in out or 'Action property' in out and 'violated' in out
        self.finished = 'Model checking completed' in out or 'Finished in' in out
        self.clean = (rc == 0 and 'No error has been found' in out)
        self.postcondition_failed = 'Postcondition' in out and 'violated' in out or 'POSTCONDITION' in out and 'violated' in out

    def tail(self, n=30):
        return '\n'.join(self.out.splitlines()[-n:])


def tlc(ctx, module, cfg, workers=None, env=None, timeout=900, args=(), deque=False, heap=None, cwd=None,
        record=True, label=None, kind='mc'):
    """Run TLC on spec file `module` (path to .tla) with config `cfg`. Returns TlcResult."""
    cwd = cwd or os.path.dirname(module)
    meta = ctx.fresh_dir('tlc-' + (label or os.path.basename(cfg)))
    jopts = ['-XX:+UseParallelGC', '-Xss64m',   # deep recursion of per-byte operators on long inputs
             '-Djava.io.tmpdir=' + meta]        # TLC leaves an empty tlc-<n> directory per run in the JVM's temp dir
    if heap:
        jopts.append('-Xmx' + heap)
    if deque:
        jopts.append('-Dtlc2.tool.queue.IStateQueue=StateDeque')
    libdirs = [os.path.join(VERIF, 'spec', d) for d in os.listdir(os.path.join(VERIF, 'spec'))
               if os.path.isdir(os.path.join(VERIF, 'spec', d))]
    jopts.append('-DTLA-Library=' + ':'.join(libdirs))
    cmd = ['timeout', str(timeout), 'java'] + jopts + ['-cp', TLA_CP, 'tlc2.TLC',
           '-workers', str(workers or NCPU), '-metadir', meta, '-noGenerateSpecTE', '-config', cfg] + list(args) + [module]
    e = dict(os.environ)
    e.pop('JAVA_TOOL_OPTIONS', None)
    if env:
        e.update(env)
    t = time.time()
    r = subprocess.run(cmd, cwd=cwd, env=e, stdout=subprocess.PIPE, stderr=subprocess.STDOUT, text=True)
    res = TlcResult(r.stdout, r.returncode)
    res.wall = time.time() - t
    if record:
        ctx.tlc_runs.append({'kind': kind, 'module': os.path.basename(module), 'cfg': os.path.basename(cfg),
                             'generated': res.generated, 'distinct': res.distinct, 'depth': res.depth,
                             'rc': r.returncode, 'wall_s': round(res.wall, 1)})
    shutil.rmtree(meta, ignore_errors=True)
    if r.returncode == 124:
        raise MachineryError('TLC timed out after %ds on %s' % (timeout, cfg))
    return res


def tlc_must_pass(ctx, module, cfg, **kw):
    """Model-check the unchanged spec; failure here is a machinery error (exit 2), never a VIOLATION."""
    res = tlc(ctx, module, cfg, **kw)
    if not res.clean:
        raise MachineryError('TLC model check failed for %s/%s:\n%s' % (module, cfg, res.tail(40)))
    return res


def coverage_counts(out):
    """Parse -coverage output: {action: (taken, generated)} (vacuity guard)."""
    cov = {}
    for m in re.finditer(r'<(\w+) line \d+, col \d+ to line \d+, col \d+ of module (\w+)>: (\d+):(\d+)', out):
        cov[m.group(1)] = (int(m.group(3)), int(m.group(4)))
    return cov


# ---------------------------------------------------------------------------------------------
# trace validation helper: write ndjson, run a Trace_*.tla spec whose acceptance is `l = Len(Tr)+1`
# ---------------------------------------------------------------------------------------------
def validate_trace(ctx, module, cfg, lines, label='trace', timeout=600, deque=False, workers=1, extra_env=None):
    """Trace specs read ndjson from env TRACE. Convention: spec defines invariant NotAccepted (l <= Len(Tr));
    violated = accepted. Returns (accepted: bool, TlcResult)."""
    d = mkdirs(os.path.join(ctx.work, 'traces'))
    path = os.path.join(d, label + '.ndjson')
    with open(path, 'w') as f:
        for ln in lines:
            f.write(ln if isinstance(ln, str) else json.dumps(ln, separators=(',', ':')))
            f.write('\n')
    env = {'TRACE': path}
    if extra_env:
        env.update(extra_env)
    res = tlc(ctx, module, cfg, workers=workers, env=env, timeout=timeout, deque=deque, label=label)
    accepted = res.invariant == 'NotAccepted'
    if not accepted and not res.clean:
        # neither accepted nor a clean exhaustion of behaviours: evaluation error in the spec
        if 'Error:' in res.out and 'NotAccepted' not in res.out:
            raise MachineryError('trace spec error (%s):\n%s' % (label, res.tail(40)))
    return accepted, res, path


def longest_prefix(res):
    """Highest trace position reached, printed by trace specs via PrintT(<<"L", l>>) ... or parsed from the final state."""
    best = 0
    for m in re.finditer(r'^/\\ l = (\d+)', res.out, re.M):
        best = max(best, int(m.group(1)))
    return best


# ---------------------------------------------------------------------------------------------
# C++ mini build (dependency tracked, parallel, cached outside /verif and /repo)
# ---------------------------------------------------------------------------------------------
CXX = os.environ.get('VERIF_CXX', 'g++')
BASE_FLAGS = ['-std=c++17', '-DHAVE_CONFIG_H', '-D%s=1' % GUARD, '-pipe', '-w']
SAN_FLAGS = ['-fsanitize=address,undefined', '-fno-sanitize=vptr', '-fno-omit-frame-pointer', '-O1', '-g1']
OPT_FLAGS = ['-O1', '-g1']


def repo_includes(extra=()):
    inc = list(extra) + [REPO, REPO + '/include', REPO + '/lib', REPO + '/src']
    out = []
    for i in inc:
        out += ['-I', i]
    out += ['-isystem', '/usr/include/mit-krb5', '-I/usr/include/p11-kit-1']
    return out


def _deps_stale(obj, dep):
    if not os.path.exists(obj) or not os.path.exists(dep):
        return True
    mt = os.path.getmtime(obj)
    try:
        txt = open(dep).read().replace('\\\n', ' ')
    except OSError:
        return True
    parts = txt.split(':', 1)
    if len(parts) < 2:
        return True
    for f in parts[1].split():
        try:
            if os.path.getmtime(f) > mt:
                return True
        except OSError:
            return True
    return False


def compile_one(src, flags, includes):
    key = sha(os.path.abspath(src) + '|' + ' '.join(flags) + '|' + ' '.join(includes))
    objdir = mkdirs(os.path.join(CACHE, 'obj'))
    obj = os.path.join(objdir, os.path.basename(src).rsplit('.', 1)[0] + '-' + key + '.o')
    dep = obj[:-2] + '.d'
    if not _deps_stale(obj, dep):
        return obj, None
    cc = CXX if not src.endswith('.c') else 'gcc'
    fl = [f for f in flags if not (src.endswith('.c') and f.startswith('-std=c++'))]
    import threading
    uniq = '.%d.%d' % (os.getpid(), threading.get_ident())
    cmd = [cc] + fl + includes + ['-MMD', '-MF', dep + uniq, '-c', src, '-o', obj + uniq]
    r = subprocess.run(cmd, stdout=subprocess.PIPE, stderr=subprocess.STDOUT, text=True)
    if r.returncode != 0:
        for f in (obj + uniq, dep + uniq):
            if os.path.exists(f):
                os.unlink(f)
        return obj, 'compile failed: %s\n%s' % (' '.join(shlex.quote(c) for c in cmd), r.stdout[-4000:])
    txt = open(dep + uniq).read().replace(obj + uniq, obj)
    with open(dep + uniq, 'w') as f:
        f.write(txt)
    os.replace(dep + uniq, dep)
    os.replace(obj + uniq, obj)
    return obj, None


def compile_many(srcs, flags, includes):
    """srcs: list of paths. Returns list of objects in the same order. Raises MachineryError on failure."""
    objs = [None] * len(srcs)
    errs = []
    with concurrent.futures.ThreadPoolExecutor(max_workers=NCPU) as ex:
        futs = {ex.submit(compile_one, s, flags, includes): i for i, s in enumerate(srcs)}
        for f in concurrent.futures.as_completed(futs):
            obj, err = f.result()
            objs[futs[f]] = obj
            if err:
                errs.append(err)
    if errs:
        raise MachineryError(errs[0])
    return objs


def archive(name, objs):
    libdir = mkdirs(os.path.join(CACHE, 'lib'))
    key = sha(' '.join(objs))
    lib = os.path.join(libdir, 'lib%s-%s.a' % (name, key))
    if os.path.exists(lib) and all(os.path.getmtime(o) <= os.path.getmtime(lib) for o in objs):
        return lib
    tmp = lib + '.tmp%d' % os.getpid()
    if os.path.exists(tmp):
        os.unlink(tmp)
    r = sh(['ar', 'rcs', tmp] + objs)
    if r.returncode != 0:
        raise MachineryError('ar failed: ' + r.stdout)
    os.replace(tmp, lib)
    return lib


def link(name, objs, libs=(), flags=(), syslibs=()):
    bindir = mkdirs(os.path.join(CACHE, 'bin'))
    key = sha(' '.join(objs) + '|' + ' '.join(libs) + '|' + ' '.join(flags) + '|' + ' '.join(syslibs))
    exe = os.path.join(bindir, '%s-%s' % (name, key))
    ins = list(objs) + [l for l in libs if os.path.isabs(l)]
    if os.path.exists(exe) and all(os.path.getmtime(o) <= os.path.getmtime(exe) for o in ins):
        return exe
    tmpx = exe + '.tmp%d' % os.getpid()
    cmd = [CXX] + list(flags) + ['-o', tmpx] + list(objs) + ['-Wl,--start-group'] + list(libs) + \
          ['-Wl,--end-group'] + list(syslibs)
    r = sh(cmd)
    if r.returncode != 0:
        raise MachineryError('link failed: %s\n%s' % (' '.join(cmd), r.stdout[-6000:]))
    os.replace(tmpx, exe)
    return exe


def gen_copy(rel_files, subst, tag):
    """Copy files (relative to REPO/src) into a generated include root applying textual substitutions.
    Returns the root (to be put first on the include path). Files are rewritten only when content changes."""
    root = mkdirs(os.path.join(CACHE, 'gen', tag + '-' + sha(REPO)))
    for rel in rel_files:
        src = os.path.join(REPO, 'src', rel)
        txt = open(src).read()
        for sb in subst:
            if callable(sb):
                txt = sb(rel, txt)
                continue
            a, b = sb
            txt = re.sub(a, b, txt) if isinstance(a, re.Pattern) else txt.replace(a, b)
        dst = os.path.join(root, rel)
        mkdirs(os.path.dirname(dst))
        old = open(dst).read() if os.path.exists(dst) else None
        if old != txt:
            with open(dst, 'w') as f:
                f.write(txt)
    return root


def atomics_subst():
    """Textual substitutions that put the copied ipc sources under the schedule player."""
    def add_assert(rel, txt):
        if not rel.endswith('.cc'):
            return txt
        idx = [m.end() for m in re.finditer(r'^#include [^\n]*\n', txt, re.M)]
        if not idx:
            return txt
        return txt[:idx[-1]] + '#include "verif_assert.h"\n' + txt[idx[-1]:]
    def add_hdr(rel, txt):
        if rel.endswith('.h') and 'Verif::Atomic' in txt:
            txt = txt.replace('#include <atomic>', '#include <atomic>\n#include "vsched.h"', 1) if '#include <atomic>' in txt \
                else re.sub(r'(#define SQUID_\w+_H\n)', r'\1#include "vsched.h"\n', txt, count=1)
        return txt
    return [('std::atomic_flag', 'Verif::AtomicFlag'), (re.compile(r'std::atomic\s*<'), 'Verif::Atomic<'),
            ('ATOMIC_FLAG_INIT', 'false'), add_hdr, add_assert]


def run_driver(exe, stdin_text, timeout=600, env=None, args=()):
    e = dict(os.environ)
    e.setdefault('ASAN_OPTIONS', 'detect_leaks=0:abort_on_error=0:exitcode=66')
    e.setdefault('UBSAN_OPTIONS', 'halt_on_error=0:print_stacktrace=0')
    if env:
        e.update(env)
    try:
        r = subprocess.run([exe] + list(args), input=stdin_text, stdout=subprocess.PIPE, stderr=subprocess.PIPE,
                           text=True, timeout=timeout, env=e, errors='replace')
    except subprocess.TimeoutExpired as ex:
        raise MachineryError('driver %s timed out after %ds' % (exe, timeout))
    return r


def main_wrapper(fn):
    """Run a check body; convert machinery problems into exit 2."""
    try:
        fn()
    except MachineryError as e:
        print('MACHINERY-ERROR: %s' % e, flush=True)
        sys.exit(2)
