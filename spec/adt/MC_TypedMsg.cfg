CONSTANT MaxSize = 7
INIT Init
NEXT Next
INVARIANTS RoundTrip Bounded Refines
CHECK_DEADLOCK FALSE
