CONSTANT MaxSize = 7
INIT Init
NEXT Next
INVARIANTS RoundTrip Bounded
CHECK_DEADLOCK FALSE
