---- MODULE MC_SBuf ----
(* Bounded exploration of SBufModel: K values over Alpha up to MaxLen bytes, the whole action alphabet with every small
   argument (in range, one past the end, npos, huge).  Used (a) to model-check laws of the reference semantics that are
   formulated independently of the definitions in SBufModel (Laws, checked in every reachable state for every operation),
   (b) to dump every edge of the state graph for replay on real SBufs (T1). *)
EXTENDS SBufModel, TLC, Json, FiniteSets
CONSTANTS K, Alpha, MaxLen, DumpEdges
Idx == 1..K
Args == (0..(MaxLen + 1)) \cup {-1, -2}
Strs == UNION {[1..n -> Alpha] : n \in 0..MaxLen}
Chars == Alpha \cup {0}
O(a, i, j, pos, n, c, lit, f1, f2) == [a |-> a, i |-> i, j |-> j, pos |-> pos, n |-> n, c |-> c, lit |-> lit, f1 |-> f1, f2 |-> f2]
AnyC == CHOOSE c \in Alpha : TRUE
I1(a) == {O(a, i, i, 0, 0, AnyC, <<>>, FALSE, FALSE) : i \in Idx}
IJ(a) == {O(a, i, j, 0, 0, AnyC, <<>>, FALSE, FALSE) : i \in Idx, j \in Idx}
IJPN(a) == {O(a, i, j, p, n, AnyC, <<>>, FALSE, FALSE) : i \in Idx, j \in Idx, p \in Args, n \in Args}
IJP(a) == {O(a, i, j, p, 0, AnyC, <<>>, FALSE, FALSE) : i \in Idx, j \in Idx, p \in Args}
IJN(a) == {O(a, i, j, 0, n, AnyC, <<>>, FALSE, FALSE) : i \in Idx, j \in Idx, n \in Args}
IN_(a, ns) == {O(a, i, i, 0, n, AnyC, <<>>, FALSE, FALSE) : i \in Idx, n \in ns}
ILit(a) == {O(a, i, i, 0, 0, AnyC, lit, FALSE, FALSE) : i \in Idx, lit \in Strs}
ICP(a, cs) == {O(a, i, i, p, 0, c, <<>>, FALSE, FALSE) : i \in Idx, c \in cs, p \in Args}
Ops(v) ==
  IJ("assign") \cup ILit("assignLit") \cup IJPN("assignSub") \cup I1("clear") \cup IJ("append") \cup IJPN("appendSub")
  \cup ILit("appendLit") \cup {O("pushBack", i, i, 0, 0, c, <<>>, FALSE, FALSE) : i \in Idx, c \in Alpha}
  \cup {O("rawAppend", i, i, 0, n, AnyC, lit, FALSE, FALSE) : i \in Idx, lit \in Strs, n \in {0, 3}}
  \cup IJ("appendf") \cup IJ("printf") \cup IJN("consume")
  \cup {O("chop", i, i, p, n, AnyC, <<>>, FALSE, FALSE) : i \in Idx, p \in Args, n \in Args}
  \cup {O("trim", i, j, 0, 0, AnyC, <<>>, f1, f2) : i \in Idx, j \in Idx, f1 \in BOOLEAN, f2 \in BOOLEAN}
  \cup I1("toLower") \cup I1("toUpper") \cup ICP("setAt", Alpha)
  \cup IN_("reserveSpace", {0, 1, 7, 268435456, -1, -2}) \cup IN_("reserveCapacity", {0, 1, 7, 268435456, -1, -2})
  \cup I1("cstr") \cup IJN("cmp") \cup IJN("caseCmp")
  \cup {O("startsWith", i, j, 0, 0, AnyC, <<>>, f1, FALSE) : i \in Idx, j \in Idx, f1 \in BOOLEAN}
  \cup IJ("eq") \cup ICP("findChar", Chars) \cup ICP("rfindChar", Chars) \cup IJP("findStr") \cup IJP("rfindStr")
  \cup IJP("findFirstOf") \cup IJP("findFirstNotOf") \cup IJP("findLastOf") \cup IJP("findLastNotOf")
  \cup ICP("at", {AnyC}) \cup {O("index", i, i, p, 0, AnyC, <<>>, FALSE, FALSE) : i \in Idx, p \in 0..(MaxLen - 1)}
  \cup IN_("copy", Args) \cup I1("length")
Enabled(v, o) == o.a = "index" => o.pos < Len(v[o.i])
Fits(v) == \A x \in Idx : Len(v[x]) <= MaxLen

MCInit == Init(K)
Dump(o, t) == DumpEdges => PrintT(<<"EDGE", ToJson([s |-> val, o |-> o, t |-> t])>>)
MCNext == \E o \in Ops(val) : /\ Enabled(val, o)
                              /\ LET e == Eff(val, o) IN Fits(e.val) /\ val' = e.val /\ Dump(o, e.val)

\* ---- laws ---------------------------------------------------------------------------------------------------------------
Inf(a, L) == IF a < 0 THEN L ELSE MinN(a, L)            \* an unbounded argument, capped at L
Piece(t, pos, n) == LET p == Inf(pos, Len(t))
                        m == Inf(n, Len(t) - p) IN [k \in 1..m |-> t[p + k]]
Targets(o) == IF o.a = "consume" THEN {o.i, o.j} ELSE {o.i}
AllIn(q, S) == \A k \in 1..Len(q) : q[k] \in S
Matches(s, t) == {k \in 0..Len(s) : k + Len(t) <= Len(s) /\ \A q \in 1..Len(t) : s[k + q] = t[q]}
MinOr(S) == IF S = {} THEN -1 ELSE CHOOSE x \in S : \A y \in S : x <= y
MaxOr(S) == IF S = {} THEN -1 ELSE CHOOSE x \in S : \A y \in S : x >= y
From(pos, L) == IF pos < 0 THEN L + 1 ELSE pos        \* a start position: npos/huge is past everything
UpTo(pos, L) == IF pos < 0 THEN L ELSE pos            \* an end position: npos/huge means everything
Where(s, P(_)) == {k \in 0..(Len(s) - 1) : P(s[k + 1])}
LawOf(v, o) == LET e == Eff(v, o)
                   s == v[o.i]
                   t == v[o.j]
                   r == e.r
                   n == e.val[o.i] IN
  /\ \A x \in Idx \ Targets(o) : e.val[x] = v[x]                        \* independence: nobody else changes
  /\ (~e.ok => e.val = v)
  /\ CASE o.a \in {"assignSub"} -> n = Piece(t, o.pos, o.n)
       [] o.a = "chop" -> n = Piece(s, o.pos, o.n)
       [] o.a = "appendSub" -> n = s \o Piece(t, o.pos, o.n)
       [] o.a = "consume" -> /\ r = Piece(s, 0, o.n) /\ e.val[o.j] = r
                             /\ (o.i # o.j => r \o n = s)
       [] o.a = "copy" -> r = Piece(s, 0, o.n)
       [] o.a = "trim" -> \E a \in 0..Len(s), b \in 0..Len(s) :
                            /\ a + b <= Len(s) /\ n = SubSeq(s, a + 1, Len(s) - b)
                            /\ AllIn(Take(s, a), ToSet(t)) /\ AllIn(SubSeq(s, Len(s) - b + 1, Len(s)), ToSet(t))
                            /\ (~o.f1 => a = 0) /\ (~o.f2 => b = 0)
                            /\ (o.f1 /\ n # <<>> => n[1] \notin ToSet(t)) /\ (o.f2 /\ n # <<>> => n[Len(n)] \notin ToSet(t))
       [] o.a \in {"toLower", "toUpper"} -> /\ Len(n) = Len(s) /\ Lower(Lower(s)) = Lower(s) /\ Upper(Lower(s)) = Upper(s)
                                            /\ \A k \in 1..Len(s) : n[k] = s[k] \/ {n[k], s[k]} \in {{c, c + 32} : c \in 65..90}
       [] o.a = "cmp" -> LET a == Piece(s, 0, o.n)
                             b == Piece(t, 0, o.n) IN
                         /\ r = -Cmp(b, a) /\ (r = 0) = (a = b)
                         /\ (r < 0) = (\E k \in 0..Len(b) : k <= Len(a) /\ Take(a, k) = Take(b, k) /\ k < Len(b) /\ (k = Len(a) \/ a[k + 1] < b[k + 1]))
       [] o.a = "caseCmp" -> LET a == Piece(s, 0, o.n)
                                 b == Piece(t, 0, o.n) IN
                             /\ r \in CaseCmpAllowed(a, b) /\ (r = 0) = (Lower(a) = Lower(b))
                             /\ CaseCmpAllowed(a, b) \in {{-1}, {0}, {1}, {-1, 1}}
       [] o.a = "startsWith" -> (r = 1) = (\E u \in Strs : (IF o.f1 THEN Lower(s) = Lower(t \o u) ELSE s = t \o u))
       [] o.a = "eq" -> (r = 1) = (Cmp(s, t) = 0)
       [] o.a = "findChar" -> r = MinOr({k \in Where(s, LAMBDA x : x = o.c) : k >= From(o.pos, Len(s))})
       [] o.a = "rfindChar" -> r = MaxOr({k \in Where(s, LAMBDA x : x = o.c) : k <= UpTo(o.pos, Len(s))})
       [] o.a = "findFirstOf" -> r = MinOr({k \in Where(s, LAMBDA x : x \in ToSet(t)) : k >= From(o.pos, Len(s))})
       [] o.a = "findFirstNotOf" -> r = MinOr({k \in Where(s, LAMBDA x : x \notin ToSet(t)) : k >= From(o.pos, Len(s))})
       [] o.a = "findLastOf" -> r = MaxOr({k \in Where(s, LAMBDA x : x \in ToSet(t)) : k <= UpTo(o.pos, Len(s))})
       [] o.a = "findLastNotOf" -> r = MaxOr({k \in Where(s, LAMBDA x : x \notin ToSet(t)) : k <= UpTo(o.pos, Len(s))})
       [] o.a = "findStr" -> r = MinOr({k \in Matches(s, t) : k >= From(o.pos, Len(s))})
       [] o.a = "rfindStr" -> r = MaxOr({k \in Matches(s, t) : k <= UpTo(o.pos, Len(s))})
       [] o.a \in {"at", "setAt"} -> e.ok = (o.pos >= 0 /\ o.pos < Len(s))
       [] OTHER -> TRUE
Laws == \A o \in Ops(val) : Enabled(val, o) => LawOf(val, o)
TypeOK == val \in [Idx -> Strs]
====
