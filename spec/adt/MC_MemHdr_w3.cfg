SPECIFICATION MCSpec
CONSTANTS Page = 4  MaxOff = 6  MaxWrites = 3  CopyLens = {2, 6}  ContigGaps = {1, 3}  DumpEdges = FALSE
INVARIANTS TypeOK NodesOK LawCopy LawContig LawSameCover
PROPERTY Refines
CHECK_DEADLOCK FALSE
