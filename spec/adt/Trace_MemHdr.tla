---- MODULE Trace_MemHdr ----
(* C49: validates recorded histories of the real mem_hdr (driver harness/u_memhdr.cc) against the P-layer MemHdr.
   A rejected history is a VIOLATION.  Event: Write(off,len,w,skip,ret) | Free(t,ret) | Copy(off,len,skip,ret,runs) |
   Contig(a,b,ret), plus nodes = <<<<start,end>>,...>> (getNodes()), lo, hi.  P looks at the copied tags, the
   contiguity answers, the skips, and at which bytes are in memory (union of the node ranges). *)
EXTENDS MemHdr, TracePos
VARIABLES h, l
TInit == PInit /\ h \in 1..NHist /\ l = 1
Ev == Events(h)[l]
More == l <= Len(Events(h))
Step == l' = l + 1 /\ h' = h
NodeRanges == {[s |-> Ev.nodes[i][1], e |-> Ev.nodes[i][2]] : i \in DOMAIN Ev.nodes}
(* after Write/Free: the bytes in memory (union of the node ranges) are exactly the model's; after a query (the model
   does not change) only the amount is compared *)
Obs == /\ Ev.ub = FALSE
       /\ TotalLen(NodeRanges) = TotalLen(segs')
       /\ Ev.e \in {"Write", "Free"} => /\ Disjoint(NodeRanges) /\ Cardinality(NodeRanges) = Len(Ev.nodes)
                                        /\ \A g \in segs' : FullyIn(NodeRanges, g.s, g.e)
Act == \/ Ev.e = "Write" /\ Ev.w = nextW /\ Write(Ev.off, Ev.len, Ev.skip, Ev.ret)
       \/ Ev.e = "Free" /\ FreeUpTo(Ev.t, NodeRanges)
       \/ Ev.e = "Copy" /\ Copy(Ev.off, Ev.len, Ev.skip, Ev.ret, Ev.runs)
       \/ Ev.e = "Contig" /\ Contig(Ev.a, Ev.b, Ev.ret)
TNext == More /\ Act /\ Obs /\ Step
Mark == MarkPos(h, l)
====
