---- MODULE MC_SafeMath ----
(* Standalone model check of SafeMath.tla: on values small enough for TLC's own integers the wide-integer definitions
   coincide with ordinary arithmetic (a in -R..R, b in BSet, result types i8 and u8, whose limits lie inside the range), sums are
   associative/commutative where defined, and the limits of the eight types are the powers of two they should be. *)
EXTENDS SafeMath, TLC
R == 300
VARIABLES a, part
Init == a = 0 /\ part \in 0..15
Next == part' = part /\ a = 0 /\ part < 16 /\ a' \in {x \in (0 - R)..R : x % 16 = part /\ x # 0}
Lim(S) == IF S = "i8" THEN 127 ELSE 255
NativeSum(S, x, y) == IF x < 0 \/ y < 0 \/ x + y > Lim(S) THEN Nothing ELSE Some(FromNat(x + y))
BSet == ((0 - 20)..20) \cup (100..135) \cup (240..270) \cup {0 - R, R}
Agrees == \A b \in BSet :
            /\ Less(FromInt(a), FromInt(b)) = (a < b)
            /\ \A S \in {"i8", "u8"} :
                 /\ Sum(S, <<FromInt(a), FromInt(b)>>) = NativeSum(S, a, b)
                 /\ Sum(S, <<FromInt(b), FromInt(a)>>) = NativeSum(S, a, b)
                 /\ SumOrMax(S, <<FromInt(a), FromInt(b)>>) = (IF NativeSum(S, a, b).h THEN FromNat(a + b) ELSE FromNat(Lim(S)))
                 /\ Sum(S, <<Zero, FromInt(a), FromInt(b)>>) = NativeSum(S, a, b)
            /\ (b \in 0..40 /\ a \in 0..120 => Sum("i8", <<FromInt(a), FromInt(b), FromInt(7)>>) = NativeSum("i8", a + b, 7))
RECURSIVE Pow2W(_)
Pow2W(n) == IF n = 0 THEN <<1>> ELSE MulAdd(Pow2W(n - 1), 2, 0)
Bits(T) == CASE T \in {"i8", "u8"} -> 8 [] T \in {"i16", "u16"} -> 16 [] T \in {"i32", "u32"} -> 32 [] OTHER -> 64
ASSUME \A T \in Types : Add(MaxOf(T), <<1>>) = Pow2W(IF Signed(T) THEN Bits(T) - 1 ELSE Bits(T))
ASSUME \A T \in Types : InType(T, [neg |-> FALSE, mag |-> MaxOf(T)]) /\ ~InType(T, [neg |-> FALSE, mag |-> Add(MaxOf(T), <<1>>)])
ASSUME InType("i64", [neg |-> TRUE, mag |-> Pow63]) /\ ~InType("u64", [neg |-> TRUE, mag |-> <<1>>])
\* wide boundary facts
ASSUME Sum("u64", <<[neg |-> FALSE, mag |-> Max63], [neg |-> FALSE, mag |-> Max63], FromInt(1)>>) = Some(Max64)
ASSUME Sum("u64", <<[neg |-> FALSE, mag |-> Max64], FromInt(1)>>) = Nothing
ASSUME Sum("i64", <<[neg |-> FALSE, mag |-> Max63], Zero>>) = Some(Max63) /\ Sum("i64", <<[neg |-> FALSE, mag |-> Max63], FromInt(1)>>) = Nothing
ASSUME Sum("u64", <<[neg |-> TRUE, mag |-> Pow63], [neg |-> FALSE, mag |-> Pow63]>>) = Nothing
ASSUME Less([neg |-> TRUE, mag |-> Pow63], [neg |-> FALSE, mag |-> Max64]) /\ ~Less([neg |-> FALSE, mag |-> Max64], [neg |-> FALSE, mag |-> Max64])
ASSUME Less([neg |-> TRUE, mag |-> Pow63], [neg |-> TRUE, mag |-> Max63]) /\ Less([neg |-> FALSE, mag |-> Max63], [neg |-> FALSE, mag |-> Pow63])
====
