---- MODULE MC_SafeMath ----
(* Standalone model check of SafeMath.tla: on values small enough for TLC's own integers the wide-integer definitions
   coincide with ordinary arithmetic (a in -R..R, b in BSet, result types i8 and u8, whose limits lie inside the range), sums are
   associative/commutative where defined, and the limits of the eight types are the powers of two they should be. *)
EXTENDS SafeMath, TLC
R == 300
VARIABLES a, part
Init == a = 0 /\ part \in 0..15
Next == part' = part /\ a = 0 /\ part < 16 /\ a' \in {x \in (0 - R)..R : x % 16 = part /\ x # 0}
Lim(S) == IF S = "i8" THEN 127 ELSE 255
NativeSum(S, x, y) == IF x < 0 \/ y < 0 \/ x + y > Lim(S) THEN Nothing ELSE Some(FromNat(x + y))
BSet == ((0 - 3)..3) \cup (120..135) \cup (250..260) \cup {0 - R, 0 - 128, 0 - 129, R}
Agrees == \A b \in BSet :
            /\ Less(FromInt(a), FromInt(b)) = (a < b)
            /\ \A S \in {"i8", "u8"} :
                 /\ Sum(S, <<FromInt(a), FromInt(b)>>) = NativeSum(S, a, b)
                 /\ Sum(S, <<FromInt(b), FromInt(a)>>) = NativeSum(S, a, b)
                 /\ SumOrMax(S, <<FromInt(a), FromInt(b)>>) = (IF NativeSum(S, a, b).h THEN FromNat(a + b) ELSE FromNat(Lim(S)))
                 /\ Sum(S, <<Zero, FromInt(a), FromInt(b)>>) = NativeSum(S, a, b)
            /\ \A S \in {"i8", "u8", "i16"} :
                 /\ (IF SmallSum(S, <<a, b>>) < 0 THEN Nothing ELSE Some(FromNat(SmallSum(S, <<a, b>>)))) = Sum(S, <<FromInt(a), FromInt(b)>>)
                 /\ FromNat(SmallSumOrMax(S, <<a, b>>)) = SumOrMax(S, <<FromInt(a), FromInt(b)>>)
                 /\ (IF SmallSum(S, <<a, b, 3>>) < 0 THEN Nothing ELSE Some(FromNat(SmallSum(S, <<a, b, 3>>)))) = Sum(S, <<FromInt(a), FromInt(b), FromInt(3)>>)
            /\ SmallIn("i8", a) = InType("i8", FromInt(a)) /\ SmallIn("u8", a) = InType("u8", FromInt(a))
            /\ (b \in 0..40 /\ a \in 0..120 => Sum("i8", <<FromInt(a), FromInt(b), FromInt(7)>>) = NativeSum("i8", a + b, 7))
RECURSIVE Pow256(_)
Pow256(n) == IF n = 0 THEN <<1>> ELSE MulAdd(Pow256(n - 1), 256, 0)
Bytes(T) == CASE T \in {"i8", "u8"} -> 1 [] T \in {"i16", "u16"} -> 2 [] T \in {"i32", "u32"} -> 4 [] OTHER -> 8
ASSUME \A T \in Types : Add(MaxOf(T), <<1>>) = (IF Signed(T) THEN MulAdd(Pow256(Bytes(T) - 1), 128, 0) ELSE Pow256(Bytes(T)))
ASSUME \A T \in Types : InType(T, [neg |-> FALSE, mag |-> MaxOf(T)]) /\ ~InType(T, [neg |-> FALSE, mag |-> Add(MaxOf(T), <<1>>)])
ASSUME InType("i64", [neg |-> TRUE, mag |-> Pow63]) /\ ~InType("u64", [neg |-> TRUE, mag |-> <<1>>])
\* wide boundary facts
ASSUME Sum("u64", <<[neg |-> FALSE, mag |-> Max63], [neg |-> FALSE, mag |-> Max63], FromInt(1)>>) = Some(Max64)
ASSUME Sum("u64", <<[neg |-> FALSE, mag |-> Max64], FromInt(1)>>) = Nothing
ASSUME Sum("i64", <<[neg |-> FALSE, mag |-> Max63], Zero>>) = Some(Max63) /\ Sum("i64", <<[neg |-> FALSE, mag |-> Max63], FromInt(1)>>) = Nothing
ASSUME Sum("u64", <<[neg |-> TRUE, mag |-> Pow63], [neg |-> FALSE, mag |-> Pow63]>>) = Nothing
ASSUME Less([neg |-> TRUE, mag |-> Pow63], [neg |-> FALSE, mag |-> Max64]) /\ ~Less([neg |-> FALSE, mag |-> Max64], [neg |-> FALSE, mag |-> Max64])
ASSUME Less([neg |-> TRUE, mag |-> Pow63], [neg |-> TRUE, mag |-> Max63]) /\ Less([neg |-> FALSE, mag |-> Max63], [neg |-> FALSE, mag |-> Pow63])
====
