---- MODULE TracePos ----
(* TraceLib plus: for every rejected history the furthest position reached (= number of the first event that no
   action of the trace specification explains).  Registers NHist+1..2*NHist hold the positions.  -workers 1. *)
EXTENDS TraceLib
ASSUME \A i \in 1..NHist : TLCSet(NHist + i, 1)
MarkPos(h, l) == MarkAccepted(h, l) /\ (IF l > TLCGet(NHist + h) THEN TLCSet(NHist + h, l) ELSE TRUE)
AllAcceptedPos == IF Rejected = {} THEN TRUE
                  ELSE PrintT(<<"REJECTED", Rejected>>) /\ PrintT(<<"REACHED", {<<i, TLCGet(NHist + i)>> : i \in Rejected}>>) /\ FALSE
====
