---- MODULE ClpMapImpl ----
(* C51, I-layer: ClpMap as it is today (src/base/ClpMap.h).  It resolves the freedom the P-layer leaves:
   * an expired entry disappears only when find() touches it: get(k)/del(k)/add(k) on its own key, or trim()
     reaching it at the LRU end (where it is purged like a fresh entry); no other expired entry is dropped;
   * a rejected add(k) has already done del(k), except that with limit = 0 add() returns before anything;
   * setMemLimit() and add() purge from the LRU end until the request fits. *)
EXTENDS ClpMapModel
TouchD(k) == {i \in ExpIdx(entries, now) : entries[i].k = k}
IGet(k, ret) == GetWith(TouchD(k), k, ret)
IDel(k) == DelWith({}, k)
IAdd(k, kl, v, vm, ttl, ret) == AddWith({}, limit = 0, k, kl, v, vm, ttl, ret)
ISetLimit(n) == SetLimitWith({}, n)
IGetRet(k) == GetRetF(Without(entries, TouchD(k)), k, now)
IAddRet(kl, vm, ttl) == AddOk(limit, kl, vm, ttl)
====
