---- MODULE TypedMsg ----
(* C58: Ipc::TypedMsgHdr - the typed put/get primitives over one fixed-size data buffer.
   A message buffer is [type, size, raw] : raw is a byte sequence (bytes past its end are zero), size is the length field
   that travels with the message (a received - possibly corrupt - buffer may carry any size), MaxSize is the capacity of raw.
   A reader additionally has a cursor off (bytes consumed so far).
   P-layer (the statement):
     * Get* after the same Put* sequence return the same values (RoundTrip, stated on the values only);
     * on any buffer, a get that needs more than size - off bytes, a string whose length prefix is negative or larger than
       MaxSize, or a checkType with another type raises; nothing is ever read beyond the buffer: a get whose bytes would lie
       beyond min(size, MaxSize) raises (GetFixed);
     * a get that succeeds returns exactly the bytes at the cursor.
   I-layer: the wire format of the put side (native little-endian 32-bit int, 4-byte length prefix before string bytes,
   put refused when capacity would be exceeded), hasMoreData, and the reader as it is today (ImplDoGet): any get of one or
   more bytes from a buffer whose size field exceeds MaxSize, or with the cursor beyond size, raises - also when the
   requested bytes themselves would lie inside raw (stricter than the statement needs; MC_TypedMsg: ImplDoGet refines DoGet). *)
EXTENDS Integers, Sequences
CONSTANT MaxSize
Raise == [ok |-> FALSE]
MinN(a, b) == IF a < b THEN a ELSE b

\* ---- 32-bit little-endian two's complement ----
Int32Bytes(n) == LET u == IF n >= 0 THEN n ELSE (n + 2147483647) + 1        \* n + 2^31 for negatives (low 31 bits)
                 IN <<u % 256, (u \div 256) % 256, (u \div 65536) % 256, ((u \div 16777216) % 128) + (IF n < 0 THEN 128 ELSE 0)>>
Int32Of(b) == LET low == b[1] + 256 * b[2] + 65536 * b[3] + 16777216 * (b[4] % 128)
              IN IF b[4] >= 128 THEN (low - 2147483647) - 1 ELSE low

\* ---- reading ----
Byte(buf, k) == IF k <= Len(buf.raw) THEN buf.raw[k] ELSE 0
\* the n bytes at cursor off: [ok, v, off'] or Raise.  n = 0 reads nothing and always succeeds.
GetFixed(buf, off, n) ==
  IF n = 0 THEN [ok |-> TRUE, v |-> <<>>, off |-> off]
  ELSE IF off > buf.size \/ n > buf.size - off \/ off + n > MaxSize THEN Raise
  ELSE [ok |-> TRUE, v |-> [k \in 1..n |-> Byte(buf, off + k)], off |-> off + n]
GetInt(buf, off) == LET r == GetFixed(buf, off, 4) IN IF r.ok THEN [ok |-> TRUE, v |-> Int32Of(r.v), off |-> r.off] ELSE Raise
GetString(buf, off) ==
  LET l == GetInt(buf, off) IN
  IF ~l.ok \/ l.v < 0 \/ l.v > MaxSize THEN Raise
  ELSE GetFixed(buf, l.off, l.v)
CheckType(buf, t) == buf.type = t
HasMore(buf, off) == off < buf.size

\* one get operation g = [op, a] at cursor off: [ok, v, off]
\*   "check" a = expected type;  "int";  "str";  "fixed" a = byte count;  "pod" a = sizeof (like fixed)
DoGet(buf, off, g) ==
  CASE g.op = "check" -> (IF CheckType(buf, g.a) THEN [ok |-> TRUE, v |-> <<>>, off |-> off] ELSE Raise)
    [] g.op = "int" -> GetInt(buf, off)
    [] g.op = "str" -> GetString(buf, off)
    [] g.op \in {"fixed", "pod"} -> GetFixed(buf, off, g.a)
    [] g.op = "more" -> [ok |-> TRUE, v |-> HasMore(buf, off), off |-> off]

\* ---- I-layer: today's reader (getRaw: Must(size <= sizeof(raw)); Must(offset <= size); Must(n <= size - offset)) ----
ImplGetFixed(buf, off, n) ==
  IF n = 0 THEN [ok |-> TRUE, v |-> <<>>, off |-> off]
  ELSE IF buf.size > MaxSize \/ off > buf.size \/ n > buf.size - off THEN Raise
  ELSE [ok |-> TRUE, v |-> [k \in 1..n |-> Byte(buf, off + k)], off |-> off + n]
ImplGetInt(buf, off) == LET r == ImplGetFixed(buf, off, 4) IN IF r.ok THEN [ok |-> TRUE, v |-> Int32Of(r.v), off |-> r.off] ELSE Raise
ImplGetString(buf, off) ==
  LET l == ImplGetInt(buf, off) IN
  IF ~l.ok \/ l.v < 0 \/ l.v > MaxSize THEN Raise
  ELSE ImplGetFixed(buf, l.off, l.v)
ImplDoGet(buf, off, g) ==
  CASE g.op = "int" -> ImplGetInt(buf, off)
    [] g.op = "str" -> ImplGetString(buf, off)
    [] g.op \in {"fixed", "pod"} -> ImplGetFixed(buf, off, g.a)
    [] OTHER -> DoGet(buf, off, g)

\* ---- writing (I-layer wire format) ----
Empty(t) == [type |-> t, size |-> 0, raw |-> <<>>]
PutFixed(buf, bytes) ==
  IF Len(bytes) = 0 THEN [ok |-> TRUE, buf |-> buf]
  ELSE IF Len(bytes) > MaxSize - buf.size THEN [ok |-> FALSE, buf |-> buf]
  ELSE [ok |-> TRUE, buf |-> [buf EXCEPT !.raw = @ \o bytes, !.size = @ + Len(bytes)]]
PutInt(buf, n) == PutFixed(buf, Int32Bytes(n))
\* a string that does not fit may leave its length prefix behind (the code stores the prefix first)
PutString(buf, s) ==
  IF Len(s) > MaxSize THEN [ok |-> FALSE, buf |-> buf]
  ELSE LET a == PutInt(buf, Len(s)) IN IF ~a.ok THEN a ELSE PutFixed(a.buf, s)
DoPut(buf, p) ==
  CASE p.op = "int" -> PutInt(buf, p.v)
    [] p.op = "str" -> PutString(buf, p.v)
    [] p.op \in {"fixed", "pod"} -> PutFixed(buf, p.v)
\* the get that reads back what put p stored
MirrorOf(p) == CASE p.op = "int" -> [op |-> "int", a |-> 0]
                 [] p.op = "str" -> [op |-> "str", a |-> 0]
                 [] p.op \in {"fixed", "pod"} -> [op |-> p.op, a |-> Len(p.v)]
====
