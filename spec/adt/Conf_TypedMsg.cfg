CONSTANT MaxSize = 4096
INIT ConfInit
NEXT ConfNext
INVARIANTS CaseOk ImplOk
CHECK_DEADLOCK FALSE
