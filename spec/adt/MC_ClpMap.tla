---- MODULE MC_ClpMap ----
(* Model-checking harness for C51: explores ClpMapImpl over tiny constants, checks the P invariants, that every
   I-step is a P-step (PROPERTY Refines), and algebraic laws of the reference functions.  With DumpEdges = TRUE every
   generated transition is printed as <<"EDGE", json>> (s, action with arguments and return value, t) for T1. *)
EXTENDS ClpMapImpl, TLC, Json
CONSTANTS Keys,      \* key ids; key k has length k
          Vals,      \* set of <<value id, weight>>
          Ttls, Limits, Dts, MaxNow, DumpEdges
KLenOf(k) == k
(* constant sets for the configurations (cfg files cannot write tuples); sizes are expressed in C0 so that the
   same boundaries are hit whatever sizeof() is: an entry for key k with weight 0 costs C0 + k. *)
Max == 2147483647
ValsSmall == {<<7, 0>>}
ValsCap == {<<7, 0>>, <<8, C0 + 2>>}                    \* the heavy value costs 2*C0 + 2 + k
ValsAll == {<<7, 0>>, <<8, C0 + 2>>, <<9, Huge>>}       \* Huge: the cost overflows 64 bits
TtlsMax == {Max}
TtlsAll == {-1, 0, 1, Max}
LimitsCap == {0, C0 + 3, 2 * C0 + 5, 3 * C0 + 6}        \* nothing / any one / any two / all three light entries
LimitsAll == LimitsCap \cup {Huge}
LimitsTtl == {0, C0 + 2, 2 * C0 + 3}
NoDts == {}
Dts1 == {1}
St(es, l, t) == [entries |-> es, limit |-> l, now |-> t]
Edge(a) == DumpEdges => PrintT(<<"EDGE", ToJson([s |-> St(entries, limit, now), a |-> a, t |-> St(entries', limit', now')])>>)

MCInit == entries = <<>> /\ limit \in Limits /\ now = 0
MCNext ==
    \/ \E k \in Keys : LET r == IGetRet(k) IN IGet(k, r) /\ Edge([op |-> "G", k |-> k, kl |-> KLenOf(k), ret |-> r])
    \/ \E k \in Keys : IDel(k) /\ Edge([op |-> "D", k |-> k, kl |-> KLenOf(k)])
    \/ \E k \in Keys, vv \in Vals, ttl \in Ttls :
          LET r == IAddRet(KLenOf(k), vv[2], ttl)
          IN IAdd(k, KLenOf(k), vv[1], vv[2], ttl, r) /\ Edge([op |-> "A", k |-> k, kl |-> KLenOf(k), v |-> vv[1], vm |-> vv[2], ttl |-> ttl, ret |-> r])
    \/ \E n \in Limits : ISetLimit(n) /\ Edge([op |-> "L", n |-> n])
    \/ \E dt \in Dts : now + dt <= MaxNow /\ Tick(dt) /\ Edge([op |-> "T", dt |-> dt])
MCSpec == MCInit /\ [][MCNext]_vars

(* every implementation step is allowed by the property layer *)
PNext == \/ \E k \in Keys, ret \in {Nil} \cup Vals : PGet(k, ret)
         \/ \E k \in Keys : PDel(k)
         \/ \E k \in Keys, vv \in Vals, ttl \in Ttls, ret \in BOOLEAN : PAdd(k, KLenOf(k), vv[1], vv[2], ttl, ret)
         \/ \E n \in Limits : PSetLimit(n)
         \/ \E dt \in Dts : Tick(dt)
Refines == [][PNext]_vars

TypeOK == /\ limit \in Limits /\ now \in 0..MaxNow
          /\ \A i \in DOMAIN entries : entries[i].k \in Keys /\ <<entries[i].v, entries[i].vm>> \in Vals /\ entries[i].kl = KLenOf(entries[i].k)

(* laws of the reference functions, evaluated in every reachable state *)
LawAddThenGet == \A k \in Keys, vv \in Vals, ttl \in Ttls, kf \in BOOLEAN :
    LET es2 == AddF(entries, limit, now, kf, k, KLenOf(k), vv[1], vv[2], ttl)
    IN IF AddOk(limit, KLenOf(k), vv[2], ttl) THEN GetRetF(es2, k, now) = vv /\ es2[1].k = k
       ELSE es2 \in {entries, DelKey(entries, k)}
LawDelThenGet == \A k \in Keys : GetRetF(DelKey(entries, k), k, now) = Nil
LawGetKeepsSet == \A k \in Keys : KeySet(GetF(entries, k, now)) = KeySet(entries) /\ Used(GetF(entries, k, now)) = Used(entries)
(* purging takes a suffix of the LRU order, and not more than needed *)
SuffixMinimal(before, after, c, lim) ==
    /\ \E n \in 0..Len(before) : after = SubSeq(before, 1, n)
    /\ Room(Used(after), c, lim) \/ (after = <<>> /\ c = 0)
    /\ Len(after) < Len(before) => ~Room(Used(after) + before[Len(after) + 1].mem, c, lim)
LawAddPurge == \A k \in Keys, vv \in Vals, ttl \in Ttls :
    AddOk(limit, KLenOf(k), vv[2], ttl) =>
       SuffixMinimal(DelKey(entries, k), Tail(AddF(entries, limit, now, FALSE, k, KLenOf(k), vv[1], vv[2], ttl)), Cost(KLenOf(k), vv[2]), limit)
LawLimitPurge == \A n \in Limits : SuffixMinimal(entries, SetLimitF(entries, n), 0, n)
====
