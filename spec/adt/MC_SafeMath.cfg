INIT Init
NEXT Next
INVARIANTS Agrees
CHECK_DEADLOCK FALSE
