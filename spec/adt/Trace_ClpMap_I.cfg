INIT TInit
NEXT TNextI
CONSTANT C0 <- TraceC0
CONSTRAINT Mark
POSTCONDITION AllAcceptedPos
CHECK_DEADLOCK FALSE
