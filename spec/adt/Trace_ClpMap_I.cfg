INIT TInit
NEXT TNextI
CONSTANT C0 <- TraceC0
CONSTRAINT Mark
POSTCONDITION AllAccepted
CHECK_DEADLOCK FALSE
