---- MODULE EventQueue ----
(* C59, P-layer: timed events fire in order and never after cancellation.

   pending = the events that are scheduled: neither fired nor cancelled.  An event remembers its scheduling number id
   (scheduling order), handler f, argument a (0 = none), weight w and its due time = scheduling time + delay.
   Events scheduled with a delay <= 0 are "immediate": they are due at once.  The code sorts them as if due at time
   zero (event.cc: "Use zero timestamp for when=0 events"), another implementation may sort them by their scheduling
   time; the statement does not choose, so P accepts both: an immediate event has the due interval [0, scheduling time].

   What the property demands:
     * Fire: only a pending event fires, never before its due time, and not while another pending event must precede
       it: x must precede e when x is due strictly earlier under every reading, or both are timed with equal due time
       and x was scheduled first, or both are immediate and x was scheduled first;
     * Cancel(f, a) removes exactly one pending event matching (f, a) (nothing if there is none) and leaves the rest;
       Cancel(f, none) removes every pending event of handler f (event.cc: "this method may now delete multiple
       events (when arg is NULL)");
     * Find(f, a) tells whether such an event is scheduled;
     * every event that is still pending fires once the clock has passed every due time (Drain).
   What it leaves open: when a due event fires (the API "does not guarantee exact timing"), how many fire per check,
   which of several identical (f, a) events a Cancel removes, the value checkEvents() returns. *)
EXTENDS Integers, Sequences, FiniteSets
VARIABLES pending, now, nextId
pvars == <<pending, now, nextId>>

NewEvent(id, f, a, d, w, t) == [id |-> id, f |-> f, a |-> a, w |-> w, imm |-> d <= 0, due |-> IF d > 0 THEN t + d ELSE t]
Lo(e) == IF e.imm THEN 0 ELSE e.due
Hi(e) == e.due
MustPrecede(x, e) == \/ Hi(x) < Lo(e)
                     \/ ~x.imm /\ ~e.imm /\ x.due = e.due /\ x.id < e.id
                     \/ x.imm /\ e.imm /\ x.id < e.id
Fireable(P, e, t) == e.due <= t /\ \A x \in P \ {e} : ~MustPrecede(x, e)
Matching(P, f, a) == {e \in P : e.f = f /\ e.a = a}
(* all sets of pending events that can remain after the handlers were called in the order fs = <<<<f, a>>, ...>> *)
RECURSIVE FireAll(_, _, _)
FireAll(P, fs, t) == IF fs = <<>> THEN {P}
                     ELSE UNION {FireAll(P \ {e}, Tail(fs), t) : e \in {x \in Matching(P, Head(fs)[1], Head(fs)[2]) : Fireable(P, x, t)}}
Ids(P) == {e.id : e \in P}

PInit == pending = {} /\ now = 0 /\ nextId = 1
Schedule(f, a, d, w) == /\ pending' = pending \cup {NewEvent(nextId, f, a, d, w, now)}
                        /\ nextId' = nextId + 1 /\ UNCHANGED now
Cancel(f, a) == /\ a # 0
                /\ IF Matching(pending, f, a) = {} THEN pending' = pending
                   ELSE \E e \in Matching(pending, f, a) : pending' = pending \ {e}
                /\ UNCHANGED <<now, nextId>>
CancelAll(f) == pending' = {e \in pending : e.f # f} /\ UNCHANGED <<now, nextId>>
Advance(dt) == dt >= 0 /\ now' = now + dt /\ UNCHANGED <<pending, nextId>>
Fires(fs) == pending' \in FireAll(pending, fs, now) /\ UNCHANGED <<now, nextId>>
Find(f, a, ret) == ret = (Matching(pending, f, a) # {}) /\ UNCHANGED pvars
DrainStep == 1000000
Drain(fs) == /\ {} \in FireAll(pending, fs, now + DrainStep)
             /\ pending' = {} /\ now' = now + DrainStep /\ UNCHANGED nextId
====
