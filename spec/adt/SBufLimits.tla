---- MODULE SBufLimits ----
(* C48, last sentence: operations beyond the size limit raise instead of corrupting memory.  Values near maxSize (2^28-1 bytes)
   cannot be held as sequences; here a value is a canonical run-length encoding: a sequence of <<byte, count>> with count > 0 and
   different bytes in adjacent runs.  The operations are the same independent-value semantics as SBufModel, on this encoding. *)
EXTENDS SBufModel
RECURSIVE RLen(_)
RLen(r) == IF r = <<>> THEN 0 ELSE r[1][2] + RLen(Tail(r))
RCat(a, b) == IF a = <<>> THEN b ELSE IF b = <<>> THEN a
              ELSE IF a[Len(a)][1] = b[1][1] THEN SubSeq(a, 1, Len(a) - 1) \o <<<<b[1][1], a[Len(a)][2] + b[1][2]>>>> \o Tail(b)
              ELSE a \o b
RECURSIVE RDrop(_, _)
RDrop(r, p) == IF p = 0 \/ r = <<>> THEN r
               ELSE IF r[1][2] <= p THEN RDrop(Tail(r), p - r[1][2]) ELSE <<<<r[1][1], r[1][2] - p>>>> \o Tail(r)
RECURSIVE RTake(_, _)
RTake(r, m) == IF m = 0 \/ r = <<>> THEN <<>>
               ELSE IF r[1][2] <= m THEN <<r[1]>> \o RTake(Tail(r), m - r[1][2]) ELSE <<<<r[1][1], m>>>>
\* chop/substr conventions of SBufModel (SubPos/SubLen) on lengths
RSub(r, pos, n) == LET L == RLen(r)
                       p == IF pos = -1 \/ V(pos) > L THEN L ELSE V(pos)
                       m == IF n = -1 \/ V(n) > L - p THEN L - p ELSE V(n) IN RTake(RDrop(r, p), m)
LApp(v, i, x) == IF RLen(v[i]) + RLen(x) > MaxSize THEN Raise(v) ELSE Ok([v EXCEPT ![i] = RCat(v[i], x)], 0)
LEff(v, o) ==
  CASE o.a = "zfill" -> IF o.n < 0 THEN Raise(v) ELSE LApp(v, o.i, IF o.n = 0 THEN <<>> ELSE <<<<o.c, o.n>>>>)
    [] o.a = "zappend" -> LApp(v, o.i, v[o.j])
    [] o.a = "zassign" -> Set(v, o.i, v[o.j])
    [] o.a = "zchop" -> Set(v, o.i, RSub(v[o.i], o.pos, o.n))
    [] o.a = "zreserve" -> IF o.n < 0 \/ o.n > MaxSize \/ RLen(v[o.i]) > MaxSize - o.n THEN Raise(v) ELSE Ok(v, 0)
    [] o.a = "zcapacity" -> IF o.n < 0 \/ o.n > MaxSize THEN Raise(v) ELSE Ok(v, 0)
    [] o.a = "zclear" -> Set(v, o.i, <<>>)
====
