INIT TInit
NEXT TNextP
CONSTANT C0 <- TraceC0
CONSTRAINT Mark
POSTCONDITION AllAccepted
CHECK_DEADLOCK FALSE
