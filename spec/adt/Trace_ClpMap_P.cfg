INIT TInit
NEXT TNextP
CONSTANT C0 <- TraceC0
CONSTRAINT Mark
POSTCONDITION AllAcceptedPos
CHECK_DEADLOCK FALSE
