---- MODULE MemHdrImpl ----
(* C49, I-layer: mem_hdr as it is today (src/stmem.cc, src/mem_node.cc).  nodes = the splay of mem_nodes in offset
   order, each [s, e) with e - s <= Page; a node starts where a write found no node to append to, so nodes are not
   page aligned.  write(): append to the node that ends exactly at the write position and is not full, else start a
   new node there; repeat until the data is stored.  freeDataUpto(t): unlink leading nodes that end at or before t, but
   never the last node.  lowestOffset()/endOffset(): start of the first / end of the last node, 0 when empty. *)
EXTENDS MemHdr, SequencesExt
CONSTANT Page
VARIABLES nodes
ivars == <<nodes, segs, nextW>>

InsertNode(ns, n) == LET k == Cardinality({i \in DOMAIN ns : ns[i].s < n.s}) IN SubSeq(ns, 1, k) \o <<n>> \o SubSeq(ns, k + 1, Len(ns))
RECURSIVE Store(_, _, _)
Store(ns, cur, rem) ==
    IF rem = 0 THEN ns
    ELSE LET cand == {i \in DOMAIN ns : cur > 0 /\ ns[i].e = cur /\ ns[i].e - ns[i].s < Page}
         IN IF cand # {}
            THEN LET i == CHOOSE x \in cand : TRUE
                     n == Min2(rem, Page - (ns[i].e - ns[i].s))
                 IN Store([ns EXCEPT ![i].e = cur + n], cur + n, rem - n)
            ELSE LET n == Min2(rem, Page) IN Store(InsertNode(ns, [s |-> cur, e |-> cur + n]), cur + n, rem - n)
(* drop leading nodes that end at or before t, stop at the first that does not, never drop the last one *)
Unlink(ns, t) == LET lead == {i \in DOMAIN ns : \A j \in 1..i : ns[j].e <= t}
                     k == Min2(Len(ns) - 1, Cardinality(lead))
                 IN IF ns = <<>> THEN ns ELSE SubSeq(ns, k + 1, Len(ns))
Lo(ns) == IF ns = <<>> THEN 0 ELSE ns[1].s
Hi(ns) == IF ns = <<>> THEN 0 ELSE ns[Len(ns)].e
NodeSet(ns) == {ns[i] : i \in DOMAIN ns}
(* the tagged pieces of the (gap-free) range [o, end) in offset order *)
RunsF(S, o, end) == LET srt == SetToSortSeq({g \in S : g.s < end /\ g.e > o}, LAMBDA x, y : x.s < y.s)
                    IN [i \in DOMAIN srt |-> <<srt[i].w, Max2(o, srt[i].s), Min2(end, srt[i].e)>>]

IInit == nodes = <<>> /\ PInit
IWriteSkip(off, len) == Overlaps(NodeSet(nodes), off, off + len)
IWrite(off, len) == /\ nodes' = IF IWriteSkip(off, len) THEN nodes ELSE Store(nodes, off, len)
                    /\ Write(off, len, IWriteSkip(off, len), TRUE)
IFree(t) == /\ nodes' = Unlink(nodes, t)
            /\ segs' = {[s |-> Max2(g.s, Lo(Unlink(nodes, t))), e |-> g.e, w |-> g.w] : g \in {x \in segs : x.e > Lo(Unlink(nodes, t))}}
            /\ UNCHANGED nextW
IFreeRet(t) == Lo(Unlink(nodes, t))
ICopySkip(off) == ~Covered(NodeSet(nodes), off)
ICopyRet(off, len) == CopyLen(segs, off, len)
ICopyRuns(off, len) == RunsF(segs, off, off + CopyLen(segs, off, len))
IContigRet(a, b) == ContigF(NodeSet(nodes), a, b)

(* the nodes hold exactly the written data *)
NodesOK == /\ \A i \in DOMAIN nodes : nodes[i].s < nodes[i].e /\ nodes[i].e - nodes[i].s <= Page
           /\ \A i \in 1..(Len(nodes) - 1) : nodes[i].e <= nodes[i + 1].s
           /\ Disjoint(segs)
           /\ TotalLen(segs) = TotalLen(NodeSet(nodes))
           /\ \A g \in segs : FullyIn(NodeSet(nodes), g.s, g.e)
====
