SPECIFICATION MCSpec
CONSTANTS Funcs = {0}  SArgs = {1, 2}  CArgs = {1}
  Delays = {0, 1, 2}  Weights = {0, 1}  MaxEvents = 3  MaxNow = 2  Dts = {1}  Den = 8  DumpEdges = FALSE
INVARIANTS TypeOK Sorted LawDrainOrder LawDue LawFind
PROPERTY Refines
CHECK_DEADLOCK FALSE
