---- MODULE SafeMath ----
(* C52: overflow-safe arithmetic helpers (src/SquidMath.h).  Integers are [neg: BOOLEAN, mag: Wide] with Wide the
   little-endian decimal digit sequences of spec/lib/Wide.tla (TLC integers are 32 bit; the helpers go up to 2^64 - 1).
   Zero is [neg |-> FALSE, mag |-> <<>>].  Integer types are named "i8" "u8" "i16" "u16" "i32" "u32" "i64" "u64".
   P-layer = the statement: Less is the mathematical comparison; a safe sum is the exact sum when every argument is
   non-negative and the sum fits the result type S, and nothing otherwise; the clamping variant stores the exact sum or max(S).
   The code has no behaviour beyond that, so the I-layer coincides with the P-layer. *)
EXTENDS Integers, Sequences, Wide
Types == {"i8", "u8", "i16", "u16", "i32", "u32", "i64", "u64"}
Signed(T) == T \in {"i8", "i16", "i32", "i64"}
\* (zero-argument definitions: TLC evaluates each once)
MaxI8 == FromNat(127)
MaxU8 == FromNat(255)
MaxI16 == FromNat(32767)
MaxU16 == FromNat(65535)
MaxU32 == FromBE(<<4, 2, 9, 4, 9, 6, 7, 2, 9, 5>>)
MaxOf(T) == CASE T = "i8" -> MaxI8 [] T = "u8" -> MaxU8 [] T = "i16" -> MaxI16 [] T = "u16" -> MaxU16
              [] T = "i32" -> Max31 [] T = "u32" -> MaxU32 [] T = "i64" -> Max63 [] T = "u64" -> Max64
\* magnitude of the most negative value of a signed type
MinMagOf(T) == Add(MaxOf(T), <<1>>)
Zero == [neg |-> FALSE, mag |-> <<>>]
\* a TLC integer as a value
FromInt(n) == IF n < 0 THEN [neg |-> TRUE, mag |-> FromNat(0 - n)] ELSE [neg |-> FALSE, mag |-> FromNat(n)]
\* well-formed value (normal form, no negative zero) that type T can hold
InType(T, v) == /\ v.mag = Norm(v.mag) /\ (v.neg => v.mag # <<>>)
                /\ IF v.neg THEN Signed(T) /\ Leq(v.mag, MinMagOf(T)) ELSE Leq(v.mag, MaxOf(T))

\* ---- Less(a, b): a < b over the integers ----
Less(a, b) == IF a.neg /\ ~b.neg THEN TRUE
              ELSE IF ~a.neg /\ b.neg THEN FALSE
              ELSE IF ~a.neg THEN Cmp(a.mag, b.mag) < 0
              ELSE Cmp(a.mag, b.mag) > 0

\* ---- sums ----
Nothing == [h |-> FALSE, m |-> <<>>]
Some(m) == [h |-> TRUE, m |-> m]
RECURSIVE Total(_, _)
Total(args, k) == IF k = 0 THEN <<>> ELSE Add(Total(args, k - 1), args[k].mag)
\* IncreaseSum<S>(s, t...), NaturalSum<S>(args...): args is the sequence of all arguments
Sum(S, args) == IF \E k \in 1..Len(args) : args[k].neg THEN Nothing
                ELSE LET t == Total(args, Len(args)) IN IF Leq(t, MaxOf(S)) THEN Some(t) ELSE Nothing
\* SetToNaturalSumOrMax(var, args...): the value stored (and returned)
SumOrMax(S, args) == LET r == Sum(S, args) IN IF r.h THEN r.m ELSE MaxOf(S)

\* ---- the same functions on TLC's own integers, for arguments of the 8- and 16-bit types (|x| <= 65535, at most 3 arguments).
\* MC_SafeMath shows that they coincide with the wide definitions above.  -1 stands for "nothing".
SmallMax(S) == CASE S = "i8" -> 127 [] S = "u8" -> 255 [] S = "i16" -> 32767 [] S = "u16" -> 65535
                 [] OTHER -> 2147483647       \* 32- and 64-bit result types: no sum of three small arguments reaches their limit
SmallIn(T, x) == CASE T = "i8" -> x >= 0 - 128 /\ x <= 127 [] T = "u8" -> x >= 0 /\ x <= 255
                   [] T = "i16" -> x >= 0 - 32768 /\ x <= 32767 [] T = "u16" -> x >= 0 /\ x <= 65535
                   [] OTHER -> T \in Types /\ (Signed(T) \/ x >= 0) /\ x >= 0 - 65535 /\ x <= 65535
RECURSIVE SmallTotal(_, _)
SmallTotal(args, k) == IF k = 0 THEN 0 ELSE SmallTotal(args, k - 1) + args[k]
SmallSum(S, args) == IF \E k \in 1..Len(args) : args[k] < 0 THEN 0 - 1
                     ELSE LET t == SmallTotal(args, Len(args)) IN IF t <= SmallMax(S) THEN t ELSE 0 - 1
SmallSumOrMax(S, args) == LET r == SmallSum(S, args) IN IF r >= 0 THEN r ELSE SmallMax(S)
====
