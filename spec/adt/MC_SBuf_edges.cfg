INIT MCInit
NEXT MCNext
CONSTANTS
  K = 2
  Alpha = {97, 65}
  MaxLen = 2
  DumpEdges = TRUE
INVARIANTS TypeOK
CHECK_DEADLOCK FALSE
