---- MODULE Trace_EventQueue ----
(* C59: validates recorded histories of the real EventScheduler / EventLoop (driver harness/u_event.cc) against the
   P-layer EventQueue.  A rejected history is a VIOLATION.
   Event: e in Sched(id,f,a,d,w) | Cancel(f,a,trap) | Find(f,a,ret) | Adv(dt) | Check(ret,fired) | Loop(fired) | Drain(ret,fired);
   fired = <<<<f,a>>,...>> handler calls in order; now; q = ids of the scheduled events (EventScheduler::dump()).
   P looks at: which handlers were called and in which order, Find's answer, and the SET of scheduled events. *)
EXTENDS EventQueue, TracePos
VARIABLES h, l
TInit == PInit /\ h \in 1..NHist /\ l = 1
Ev == Events(h)[l]
More == l <= Len(Events(h))
Step == l' = l + 1 /\ h' = h
Obs == /\ Ev.ub = FALSE /\ now' = Ev.now
       /\ Ids(pending') = {Ev.q[i] : i \in DOMAIN Ev.q} /\ Len(Ev.q) = Cardinality(pending')
Act == \/ Ev.e = "Sched" /\ Ev.id = nextId /\ Schedule(Ev.f, Ev.a, Ev.d, Ev.w)
       \/ Ev.e = "Cancel" /\ (IF Ev.a = 0 THEN CancelAll(Ev.f) ELSE Cancel(Ev.f, Ev.a))
       \/ Ev.e = "Find" /\ Find(Ev.f, Ev.a, Ev.ret)
       \/ Ev.e = "Adv" /\ Advance(Ev.dt)
       \/ Ev.e \in {"Check", "Loop"} /\ Fires(Ev.fired)
       \/ Ev.e = "Drain" /\ Drain(Ev.fired)
TNext == More /\ Act /\ Obs /\ Step
Mark == MarkPos(h, l)
====
