SPECIFICATION MCSpec
CONSTANTS Page = 4  MaxOff = 8  MaxWrites = 3  CopyLens = {1, 3, 8}  ContigGaps = {0, 1, 2, 3, 4, 5, 6, 7, 8}  DumpEdges = FALSE
INVARIANTS TypeOK NodesOK LawCopy LawContig LawSameCover
PROPERTY Refines
CHECK_DEADLOCK FALSE
