SPECIFICATION MCSpec
CONSTANTS C0 = 104
  Keys = {1, 2}
  Vals <- ValsSmall
  Ttls <- TtlsAll
  Limits <- LimitsTtl
  Dts <- Dts1
  MaxNow = 3
  DumpEdges = FALSE
INVARIANTS TypeOK CapacityOK KeysDistinct MemOK LawAddThenGet LawDelThenGet LawGetKeepsSet LawAddPurge LawLimitPurge
PROPERTY Refines
CHECK_DEADLOCK FALSE
