---- MODULE Conf_TypedMsg ----
(* one TLC state = one batch {"b": [case, ...]} of harness/u_typedmsg.cc cases:
   puts (with ok flags), all_put, mut (the mutations applied to the wire image), wire = [type, size, raw] as delivered,
   gets (op, a, v, ok; the sequence ends at the first raise). *)
EXTENDS TypedMsg, ConfLib, SequencesExt
Case == Cases[i]
Buf(k) == [type |-> k.wire.type, size |-> k.wire.size, raw |-> k.wire.raw]
Clean(k) == k.mut = <<>> /\ k.all_put
\* ---- reading: the observed gets against the model, along the cursor the model computes ----
\* st = [off, p (P-layer verdict so far), i (I-layer verdict so far), live (no raise seen yet)]
GetStep(buf, clean, st, g) ==
  IF ~st.live THEN [st EXCEPT !.p = FALSE]                    \* something was read after an error
  ELSE LET r == DoGet(buf, st.off, g)                         \* the statement's reader
           ri == ImplDoGet(buf, st.off, g)                    \* today's reader
       IN
       IF g.op = "more" THEN [st EXCEPT !.i = @ /\ g.ok /\ g.v = r.v]
       ELSE IF g.ok
            THEN \* a get may succeed only where the statement allows it, and then returns exactly the bytes at the cursor
                 [off |-> IF r.ok THEN r.off ELSE st.off, p |-> st.p /\ r.ok /\ g.v = r.v, i |-> st.i /\ ri.ok /\ g.v = ri.v, live |-> TRUE]
            ELSE \* a refusal is always safe; on an intact buffer the round trip requires success (P), on a corrupted one
                 \* refusing more than necessary is only a deviation from today's behaviour (I)
                 [off |-> st.off, p |-> st.p /\ (clean => ~r.ok), i |-> st.i /\ ~ri.ok, live |-> FALSE]
Replay(k) == FoldLeft(LAMBDA st, g : GetStep(Buf(k), Clean(k), st, g), [off |-> 0, p |-> TRUE, i |-> TRUE, live |-> TRUE], k.gets)
\* ---- round trip on values: puts all accepted, nothing mutated, gets mirror the puts ----
DataPuts(k) == SelectSeq(k.puts, LAMBDA p : p.op # "type")
DataGets(k) == SelectSeq(k.gets, LAMBDA g : g.op \notin {"check", "more"})
Mirrored(k) == LET ps == DataPuts(k)
                   gs == DataGets(k)
               IN Len(ps) = Len(gs) /\ \A j \in 1..Len(ps) : LET m == MirrorOf(ps[j]) IN gs[j].op = m.op /\ (m.op \in {"fixed", "pod"} => gs[j].a = m.a)
RoundTrip(k) == (Clean(k) /\ Mirrored(k)) =>
                  /\ \A j \in 1..Len(k.gets) : k.gets[j].ok \/ (k.gets[j].op = "check" /\ k.gets[j].a # k.wire.type)
                  /\ (\A j \in 1..Len(k.gets) : k.gets[j].ok) =>
                        LET ps == DataPuts(k)
                            gs == DataGets(k)
                        IN \A j \in 1..Len(ps) : gs[j].v = ps[j].v
POk(k) == ~k.ub /\ Replay(k).p /\ RoundTrip(k)
\* ---- I-layer: wire format of the put side, capacity check, hasMoreData, no refusal beyond the necessary ones ----
PutStep(st, p) ==
  IF p.op = "type" THEN [buf |-> [st.buf EXCEPT !.type = IF @ = 0 THEN p.v ELSE @], good |-> st.good /\ p.ok = (st.buf.type \in {0, p.v})]
  ELSE LET r == DoPut(st.buf, p) IN [buf |-> r.buf, good |-> st.good /\ p.ok = r.ok]
PutModel(k) == FoldLeft(PutStep, [buf |-> Empty(0), good |-> TRUE], k.puts)
RawEq(a, b) == LET n == IF Len(a) > Len(b) THEN Len(a) ELSE Len(b) IN \A j \in 1..n : (IF j <= Len(a) THEN a[j] ELSE 0) = (IF j <= Len(b) THEN b[j] ELSE 0)
IOk(k) == /\ Replay(k).i
          /\ PutModel(k).good
          /\ (k.mut = <<>> => LET m == PutModel(k).buf IN m.type = k.wire.type /\ m.size = k.wire.size /\ RawEq(m.raw, k.wire.raw))
CaseOk == i > 0 => \A j \in 1..Len(Case.b) : POk(Case.b[j])
ImplOk == i > 0 => \A j \in 1..Len(Case.b) : IOk(Case.b[j])
====
