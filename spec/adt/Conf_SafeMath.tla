---- MODULE Conf_SafeMath ----
(* one TLC state = one case of harness/u_math.cc: an operation, its types, the leading argument values and a list (or a
   complete 8-bit range lo..lo+n-1) of values for the last argument, with one result per value of the last argument. *)
EXTENDS SafeMath, ConfLib
Case == Cases[i]
HasLo(k) == "lo" \in DOMAIN k
NLast(k) == IF HasLo(k) THEN k.n ELSE Len(k.last)
LastVal(k, j) == IF HasLo(k) THEN FromInt(k.lo + j - 1) ELSE k.last[j]
Args(k, j) == k.pre \o <<LastVal(k, j)>>
\* the driver evaluated values of the declared argument types (it echoes each value after converting it to the type; the
\* cheap part of the check is made on every case: a negative value needs a signed type)
TypesOk(k, j) == Len(k.T) = Len(k.pre) + 1 /\ \A p \in 1..Len(k.T) : k.T[p] \in Types /\ (Args(k, j)[p].neg => Signed(k.T[p]))
Expected(k, j) ==
  CASE k.op = "less" -> (IF Less(k.pre[1], LastVal(k, j)) THEN 1 ELSE 0)
    [] k.op \in {"inc", "nat1", "nat2", "nat3"} -> Sum(k.S, Args(k, j))
    [] k.op = "set2" -> [m |-> SumOrMax(k.S, Args(k, j)), same |-> TRUE]
\* complete 8-bit ranges travel as plain integers and are evaluated on TLC's integers (MC_SafeMath: same functions)
SmallArgs(k, j) == k.pre \o <<k.lo + j - 1>>
SmallExpected(k, j) ==
  CASE k.op = "less" -> (IF k.pre[1] < k.lo + j - 1 THEN 1 ELSE 0)
    [] k.op \in {"inc", "nat1", "nat2", "nat3"} -> SmallSum(k.S, SmallArgs(k, j))
    [] k.op = "set2" -> SmallSumOrMax(k.S, SmallArgs(k, j))
SmallOk(k) == /\ k.n \in {256} /\ Len(k.T) = Len(k.pre) + 1
              /\ (k.op = "set2" => k.S \in {"i8", "u8", "i16", "u16"})
              /\ \A j \in 1..k.n : /\ \A p \in 1..Len(k.T) : SmallIn(k.T[p], SmallArgs(k, j)[p])
                                   /\ k.out[j] = SmallExpected(k, j)
WideOk(k) == \A j \in 1..NLast(k) : TypesOk(k, j) /\ k.out[j] = Expected(k, j)
POk(k) == /\ ~k.ub
          /\ k.op \in {"less", "inc", "nat1", "nat2", "nat3", "set2"}
          /\ Len(k.out) = NLast(k)
          /\ (k.op = "inc" => k.S = k.T[1])
          /\ IF HasLo(k) THEN SmallOk(k) ELSE WideOk(k)
CaseOk == i > 0 => POk(Case)
\* the code has no behaviour beyond the statement: no separate I-layer
ImplOk == TRUE
====
