---- MODULE Trace_SBufLimits ----
(* Validates size-limit scenarios run on real SBufs: every event reports all values run-length encoded. *)
EXTENDS SBufLimits, TraceLib
VARIABLES h, l
TInit == h \in 1..NHist /\ l = 1 /\ val = [x \in 1..Tr[h].k |-> <<>>]
TStep == /\ l <= Len(Events(h))
         /\ "o" \in DOMAIN Events(h)[l]
         /\ LET ev == Events(h)[l]
                e == LEff(val, ev.o) IN
            /\ ev.res.ok = e.ok
            /\ \A x \in 1..Tr[h].k : \E q \in 1..Len(ev.ch) : ev.ch[q].i = x /\ ev.ch[q].p = e.val[x]
            /\ val' = e.val
         /\ l' = l + 1 /\ h' = h
TNext == TStep
ASSUME \A x \in 1..NHist : TLCSet(NHist + x, 0)
Mark == MarkAccepted(h, l) /\ TLCSet(NHist + h, l)
Post == /\ (Rejected = {} \/ PrintT(<<"PROGRESS", {<<x, TLCGet(NHist + x)>> : x \in Rejected}>>))
        /\ AllAccepted
====
