---- MODULE Trace_MemHdrImpl ----
(* C49: validates recorded histories against the I-layer MemHdrImpl (exact node structure, lowestOffset(), endOffset(),
   freeDataUpto() return value, exact tag runs).  A rejected history is DRIFT. *)
EXTENDS MemHdrImpl, TracePos
VARIABLES h, l
TracePage == Tr[1].page
TInit == IInit /\ h \in 1..NHist /\ l = 1
Ev == Events(h)[l]
More == l <= Len(Events(h))
Step == l' = l + 1 /\ h' = h
Obs == /\ Ev.ub = FALSE
       /\ [i \in DOMAIN nodes' |-> <<nodes'[i].s, nodes'[i].e>>] = Ev.nodes /\ Ev.lo = Lo(nodes') /\ Ev.hi = Hi(nodes')
Act == \/ Ev.e = "Write" /\ Ev.w = nextW /\ Ev.skip = IWriteSkip(Ev.off, Ev.len) /\ Ev.ret = ~Ev.skip /\ IWrite(Ev.off, Ev.len)
       \/ Ev.e = "Free" /\ Ev.ret = IFreeRet(Ev.t) /\ IFree(Ev.t)
       \/ Ev.e = "Copy" /\ Ev.skip = ICopySkip(Ev.off)
                        /\ (~Ev.skip => Ev.ret = ICopyRet(Ev.off, Ev.len) /\ Ev.runs = ICopyRuns(Ev.off, Ev.len))
                        /\ UNCHANGED ivars
       \/ Ev.e = "Contig" /\ Ev.ret = IContigRet(Ev.a, Ev.b) /\ UNCHANGED ivars
TNext == More /\ Act /\ Obs /\ Step
Mark == MarkPos(h, l)
====
