---- MODULE ClpMapModel ----
(* C51, P-layer: the reference LRU/TTL/capacity map the statement talks about.

   State: entries = the stored entries, most recently used first (an entry is "used" when it is added or
   returned by Get); limit = the capacity; now = the clock (seconds, relative to the driver's epoch).
   An entry is fresh while exp >= now ("get() stops returning the entry after this time").

   What the property demands, and nothing else:
     * Get(k) returns the value of the last successful Add(k) that was neither deleted, purged nor expired;
     * Add fails exactly when limit = 0, ttl < 0 or the entry alone cannot fit the capacity;
     * the accounted memory is the sum of the entry costs and never exceeds the capacity;
     * to make room, exactly the shortest sufficient run of least-recently-used entries is purged.
   What it leaves open (parameters of the ...With actions; ClpMapImpl fixes them to today's behaviour):
     * D: stored entries that have expired are hidden, and any of them may disappear at any operation
          (today: only when touched; the code's TODO "purge expired entries first" is also a P-behaviour);
     * keepOnFail: whether a rejected Add(k) keeps or drops the previous entry for k.

   Numbers: Huge stands for 2^64-1 (a capacity or a value weight), Inf for an expiry that is never reached.
   Everything else stays below 2^31 (TLC integers). *)
EXTENDS Integers, Sequences, FiniteSets
CONSTANT C0   \* per-entry overhead: sizeof(Entry) + sizeof(Index::value_type); reported by the driver
VARIABLES entries, limit, now
vars == <<entries, limit, now>>

Huge == -1
Inf == 2147483647
Nil == <<>>

Cost(kl, vm) == IF vm = Huge THEN Huge ELSE C0 + kl + vm          \* Huge: the 64-bit sum overflows
SatAdd(a, b) == IF b >= Inf - a THEN Inf ELSE a + b
RECURSIVE Used(_)
Used(es) == IF es = <<>> THEN 0 ELSE Head(es).mem + Used(Tail(es))
FreshAt(e, t) == e.exp >= t
ExpIdx(es, t) == {i \in DOMAIN es : ~FreshAt(es[i], t)}
KeySet(es) == {es[i].k : i \in DOMAIN es}
Without(es, D) == LET F[i \in 0..Len(es)] == IF i = 0 THEN <<>> ELSE IF i \in D THEN F[i-1] ELSE Append(F[i-1], es[i])
                  IN F[Len(es)]
DelKey(es, k) == SelectSeq(es, LAMBDA e : e.k # k)
Has(es, k) == \E i \in DOMAIN es : es[i].k = k
Idx(es, k) == CHOOSE i \in DOMAIN es : es[i].k = k
Room(u, c, lim) == lim = Huge \/ u + c <= lim
(* how many of the most recently used entries stay when c more bytes must fit under lim: all but the shortest
   sufficient LRU suffix.  Used(prefix) grows with the prefix, so the largest fitting prefix is that. *)
KeepN(es, c, lim) == LET ok == {n \in 0..Len(es) : Room(Used(SubSeq(es, 1, n)), c, lim)}
                     IN IF ok = {} THEN 0 ELSE CHOOSE n \in ok : \A m \in ok : m <= n

(* ---- pure transition functions (es: entries, lim, t: now) ------------------------------------------------ *)
GetHit(es, k, t) == Has(es, k) /\ FreshAt(es[Idx(es, k)], t)
GetRetF(es, k, t) == IF GetHit(es, k, t) THEN <<es[Idx(es, k)].v, es[Idx(es, k)].vm>> ELSE Nil
GetF(es, k, t) == IF GetHit(es, k, t) THEN <<es[Idx(es, k)]>> \o DelKey(es, k) ELSE es
AddOk(lim, kl, vm, ttl) == lim # 0 /\ ttl >= 0 /\ Cost(kl, vm) # Huge /\ (lim = Huge \/ Cost(kl, vm) <= lim)
NewEntry(k, kl, v, vm, ttl, t) == [k |-> k, kl |-> kl, v |-> v, vm |-> vm, exp |-> SatAdd(t, ttl), mem |-> Cost(kl, vm)]
AddF(es, lim, t, keepOnFail, k, kl, v, vm, ttl) ==
    IF AddOk(lim, kl, vm, ttl)
    THEN LET rest == DelKey(es, k) IN <<NewEntry(k, kl, v, vm, ttl, t)>> \o SubSeq(rest, 1, KeepN(rest, Cost(kl, vm), lim))
    ELSE IF keepOnFail THEN es ELSE DelKey(es, k)
SetLimitF(es, n) == SubSeq(es, 1, KeepN(es, 0, n))

(* ---- actions, parameterised by the freedom P leaves ------------------------------------------------------ *)
Init == entries = <<>> /\ limit \in Nat \cup {Huge} /\ now = 0
GetWith(D, k, ret) == /\ D \subseteq ExpIdx(entries, now)
                      /\ ret = GetRetF(Without(entries, D), k, now)
                      /\ entries' = GetF(Without(entries, D), k, now)
                      /\ UNCHANGED <<limit, now>>
DelWith(D, k) == /\ D \subseteq ExpIdx(entries, now)
                 /\ entries' = DelKey(Without(entries, D), k)
                 /\ UNCHANGED <<limit, now>>
AddWith(D, keepOnFail, k, kl, v, vm, ttl, ret) ==
                 /\ D \subseteq ExpIdx(entries, now)
                 /\ ret = AddOk(limit, kl, vm, ttl)
                 /\ entries' = AddF(Without(entries, D), limit, now, keepOnFail, k, kl, v, vm, ttl)
                 /\ UNCHANGED <<limit, now>>
SetLimitWith(D, n) == /\ D \subseteq ExpIdx(entries, now)
                      /\ entries' = SetLimitF(Without(entries, D), n)
                      /\ limit' = n
                      /\ UNCHANGED now
Tick(dt) == dt >= 0 /\ now' = now + dt /\ UNCHANGED <<entries, limit>>

(* ---- the P-layer proper: any expired entries may vanish ---------------------------------------------------- *)
PGet(k, ret) == \E D \in SUBSET ExpIdx(entries, now) : GetWith(D, k, ret)
PDel(k) == \E D \in SUBSET ExpIdx(entries, now) : DelWith(D, k)
PAdd(k, kl, v, vm, ttl, ret) == \E D \in SUBSET ExpIdx(entries, now), kf \in BOOLEAN : AddWith(D, kf, k, kl, v, vm, ttl, ret)
PSetLimit(n) == \E D \in SUBSET ExpIdx(entries, now) : SetLimitWith(D, n)

(* ---- invariants of the P-layer ------------------------------------------------------------------------------ *)
CapacityOK == limit = Huge \/ Used(entries) <= limit
KeysDistinct == \A i, j \in DOMAIN entries : entries[i].k = entries[j].k => i = j
MemOK == \A i \in DOMAIN entries : entries[i].mem = Cost(entries[i].kl, entries[i].vm) /\ entries[i].mem # Huge
====
