---- MODULE Conf_CharSetTok ----
(* C50 function conformance: every line of the ndjson file is one evaluated case of the real CharacterSet / Tokenizer.
   fn = "set":    a, b (member lists used to build A and B), how; union, diff, compl, pluseq, minuseq, removed, a_after, b_after
                  (member lists obtained through operator[] for all 256 byte values), eq, empty
   fn = "ranges": rs (list of <<lo,hi>>), members
   fn = "tok":    buf, sets (table of member lists), ops (list of operations [op, si = index into sets, limit, str]), outs (per operation: ret, tok, rem, parsed, atEnd), applied in sequence to
                  one Tokenizer (fresh = TRUE: the tokenizer is reset(buf) before every operation); tok0 is the value the returned-token variable had before every call *)
EXTENDS CharSetTok, ConfLib
Case == Cases[i]
NoDup(q) == \A x \in 1..(Len(q) - 1) : q[x] < q[x + 1]
IsSet(q, S) == NoDup(q) /\ ToSet(q) = S

\* ---- P-layer ---------------------------------------------------------------------------------------------------
SetOk(k) == LET A == ToSet(k.a)
                B == ToSet(k.b) IN
  /\ IsSet(k.a_after, A) /\ IsSet(k.b_after, B)             \* membership; operands of + - complement are not modified
  /\ IsSet(k.union, Union(A, B)) /\ IsSet(k.pluseq, Union(A, B))
  /\ IsSet(k.diff, Diff(A, B)) /\ IsSet(k.minuseq, Diff(A, B))
  /\ IsSet(k.compl, Compl(A))
RangesOrdered(k) == \A r \in 1..Len(k.rs) : k.rs[r][1] <= k.rs[r][2]
RangesOk(k) == RangesOrdered(k) => IsSet(k.members, FromRanges(k.rs))

PrevRem(k, n) == IF n = 1 \/ k.fresh THEN k.buf ELSE k.outs[n - 1].rem
PrevParsed(k, n) == IF n = 1 \/ k.fresh THEN 0 ELSE k.outs[n - 1].parsed
StepOk(k, n) == LET o == k.ops[n]
                    r == Ref(PrevRem(k, n), o, ToSet(k.sets[o.si]))
                    out == k.outs[n] IN
  /\ out.rem = r.rem                                  \* exactly the run is consumed, the rest is unchanged
  /\ out.parsed = PrevParsed(k, n) + r.n              \* and accounted for
  /\ (out.ret = r.ret \/ (RetFree(o) /\ out.ret \in {0, 1}))
  /\ (r.hasTok => out.tok = r.tok)
TokOk(k) == Len(k.outs) = Len(k.ops) /\ \A n \in 1..Len(k.ops) : StepOk(k, n)

POk(k) == CASE k.fn = "set" -> SetOk(k)
            [] k.fn = "ranges" -> RangesOk(k)
            [] k.fn = "tok" -> TokOk(k)

\* ---- I-layer: today's exact behaviour where the statement leaves freedom ------------------------------------------
ISet(k) == /\ k.eq = (ToSet(k.a) = ToSet(k.b))
           /\ IsSet(k.removed, Diff(ToSet(k.a), ToSet(k.b)))            \* remove(c) for every c of b
           /\ k.empty = FALSE                                           \* CharacterSet::isEmpty() looks at the 256-slot vector: never empty
\* addRange(lo, hi) with lo > hi adds just hi
IRanges(k) == IsSet(k.members, UNION {IF k.rs[r][1] <= k.rs[r][2] THEN k.rs[r][1]..k.rs[r][2] ELSE {k.rs[r][2]} : r \in 1..Len(k.rs)})
IStep(k, n) == LET o == k.ops[n]
                   r == Ref(PrevRem(k, n), o, ToSet(k.sets[o.si]))
                   out == k.outs[n] IN
  /\ out.ret = r.ret * (IF RetFree(o) THEN 0 ELSE 1)                    \* skip("") reports FALSE today
  /\ (~r.hasTok => out.tok = k.tok0)                                    \* a failed call does not touch the token variable
  /\ out.atEnd = (out.rem = <<>>)
ITok(k) == \A n \in 1..Len(k.ops) : IStep(k, n)
IOk(k) == CASE k.fn = "set" -> ISet(k)
            [] k.fn = "ranges" -> IRanges(k)
            [] k.fn = "tok" -> ITok(k)
CaseOk == i > 0 => POk(Case)
ImplOk == i > 0 => IOk(Case)
====
