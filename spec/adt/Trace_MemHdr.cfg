INIT TInit
NEXT TNext
CONSTRAINT Mark
POSTCONDITION AllAcceptedPos
CHECK_DEADLOCK FALSE
