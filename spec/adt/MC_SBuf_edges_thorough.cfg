INIT MCInit
NEXT MCNext
CONSTANTS
  K = 2
  Alpha = {97, 65, 32}
  MaxLen = 2
  DumpEdges = TRUE
INVARIANTS TypeOK Laws
CHECK_DEADLOCK FALSE
