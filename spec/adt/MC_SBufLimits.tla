---- MODULE MC_SBufLimits ----
(* The run-length encoded operations agree with the sequence semantics of SBufModel (checked on all small encodings). *)
EXTENDS SBufLimits, TLC
VARIABLES a, b, pos, n
Runs == {<<c, k>> : c \in {1, 2}, k \in 1..2}
Canon(r) == \A x \in 1..(Len(r) - 1) : r[x][1] # r[x + 1][1]
Encs == {r \in UNION {[1..m -> Runs] : m \in 0..2} : Canon(r)}
RECURSIVE Expand(_)
Expand(r) == IF r = <<>> THEN <<>> ELSE [k \in 1..r[1][2] |-> r[1][1]] \o Expand(Tail(r))
LInit == val = <<>> /\ a \in Encs /\ b \in Encs /\ pos \in {0, 1, 2, 3, 5, 7, -1, -2} /\ n \in {0, 1, 2, 4, 7, -1, -2}
LNext == UNCHANGED <<val, a, b, pos, n>>
RleLaws == /\ RLen(a) = Len(Expand(a))
           /\ Canon(RCat(a, b)) /\ Expand(RCat(a, b)) = Expand(a) \o Expand(b)
           /\ Canon(RSub(a, pos, n)) /\ Expand(RSub(a, pos, n)) = Sub(Expand(a), pos, n)
           /\ \A r \in {RCat(a, b), RSub(a, pos, n)} : \A x \in 1..Len(r) : r[x][2] > 0
\* the size rule itself: an append result never exceeds maxSize, and raising leaves everything as it was
LimitLaws == LET big == <<<<120, MaxSize - 3>>>>
                 v == <<RCat(big, a), b>>
                 e == LEff(v, [a |-> "zappend", i |-> 1, j |-> 2, pos |-> 0, n |-> 0, c |-> 0])
                 f == LEff(v, [a |-> "zfill", i |-> 1, j |-> 1, pos |-> 0, n |-> RLen(b), c |-> 9]) IN
             /\ e.ok = (RLen(a) + RLen(b) <= 3) /\ (~e.ok => e.val = v) /\ (e.ok => RLen(e.val[1]) <= MaxSize)
             /\ f.ok = e.ok /\ (~f.ok => f.val = v)
====
