SPECIFICATION MCSpec
CONSTANTS Page = 4  MaxOff = 8  MaxWrites = 2  CopyLens = {1, 8}  ContigGaps = {0, 1, 5}  DumpEdges = FALSE
INVARIANTS TypeOK NodesOK LawCopy LawContig LawSameCover
PROPERTY Refines
CHECK_DEADLOCK FALSE
