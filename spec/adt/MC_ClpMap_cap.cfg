SPECIFICATION MCSpec
CONSTANTS C0 = 104
  Keys = {1, 2, 3}
  Vals <- ValsCap
  Ttls <- TtlsMax
  Limits <- LimitsCap
  Dts <- NoDts
  MaxNow = 0
  DumpEdges = FALSE
INVARIANTS TypeOK CapacityOK KeysDistinct MemOK LawAddThenGet LawDelThenGet LawGetKeepsSet LawAddPurge LawLimitPurge
PROPERTY Refines
CHECK_DEADLOCK FALSE
