SPECIFICATION MCSpec
CONSTANTS Funcs = {0, 1}  SArgs = {0, 1}  CArgs = {0, 1}
  Delays = {0, 1}  Weights = {0}  MaxEvents = 4  MaxNow = 1  Dts = {1}  Den = 8  DumpEdges = FALSE
INVARIANTS TypeOK Sorted LawDrainOrder LawDue LawFind
PROPERTY Refines
CHECK_DEADLOCK FALSE
