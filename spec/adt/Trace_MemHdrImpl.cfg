INIT TInit
NEXT TNext
CONSTANT Page <- TracePage
CONSTRAINT Mark
POSTCONDITION AllAcceptedPos
CHECK_DEADLOCK FALSE
