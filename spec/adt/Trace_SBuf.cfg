INIT TInit
NEXT TNext
CONSTANT Layer = "P"
CONSTRAINT Mark
POSTCONDITION Post
CHECK_DEADLOCK FALSE
