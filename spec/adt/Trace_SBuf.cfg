INIT TInit
NEXT TNext
CONSTANT Layer = "P"
CONSTRAINT Mark
POSTCONDITION AllAccepted
CHECK_DEADLOCK FALSE
