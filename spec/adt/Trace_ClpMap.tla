---- MODULE Trace_ClpMap ----
(* C51: validates recorded histories of the real ClpMap (driver harness/u_clpmap.cc) against the P-layer
   (NEXT TNextP: the property; a rejected history is a VIOLATION) and against the I-layer (NEXT TNextI: today's exact
   behaviour incl. LRU order, expiry and accounted size of every entry; a rejected history is DRIFT).
   Header: c0 (per-entry overhead), lim0.  Event: e, arguments, ret, and the state observed through the public API
   after the operation: used, n, lim, now, st = <<k, kl, v, vm, exp, mem>> per entry in iteration order.

   P compares what the statement talks about: return values, accounted memory (used, <= lim), the number and the SET
   of stored keys (which entries were purged).  The freedom of the P-layer is resolved from the observation: an
   expired entry the implementation no longer shows was dropped (D), a rejected add kept the old entry iff it still shows. *)
EXTENDS ClpMapImpl, TracePos
VARIABLES h, l
TraceC0 == Tr[1].c0
TInit == entries = <<>> /\ now = 0 /\ h \in 1..NHist /\ limit = Tr[h].lim0 /\ l = 1
Ev == Events(h)[l]
More == l <= Len(Events(h))
Step == l' = l + 1 /\ h' = h
ObsKeys == {Ev.st[i][1] : i \in DOMAIN Ev.st}
DCand == {i \in ExpIdx(entries, now) : entries[i].k \notin ObsKeys}   \* expired entries that are no longer shown
ObsP == /\ Ev.ub = FALSE
        /\ Used(entries') = Ev.used /\ Len(entries') = Ev.n /\ KeySet(entries') = ObsKeys /\ Len(Ev.st) = Ev.n
        /\ limit' = Ev.lim /\ now' = Ev.now
        /\ (limit' = Huge \/ Ev.used <= limit')
        /\ CapacityOK' /\ KeysDistinct' /\ MemOK'
Proj(es) == [i \in DOMAIN es |-> <<es[i].k, es[i].kl, es[i].v, es[i].vm, es[i].exp, es[i].mem>>]
ObsI == ObsP /\ Proj(entries') = Ev.st

(* P: each vanished expired entry either was dropped as expired (in D) or was purged as part of the LRU suffix *)
ActP == Ev.e \in {"Get", "Del", "Add", "SetLimit"} /\ \E D \in SUBSET DCand :
          \/ Ev.e = "Get" /\ GetWith(D, Ev.k, Ev.ret)
          \/ Ev.e = "Del" /\ DelWith(D, Ev.k)
          \/ Ev.e = "Add" /\ AddWith(D, Ev.k \in ObsKeys, Ev.k, Ev.kl, Ev.v, Ev.vm, Ev.ttl, Ev.ret)
          \/ Ev.e = "SetLimit" /\ SetLimitWith(D, Ev.arg)
ActI == \/ Ev.e = "Get" /\ IGet(Ev.k, Ev.ret)
        \/ Ev.e = "Del" /\ IDel(Ev.k)
        \/ Ev.e = "Add" /\ IAdd(Ev.k, Ev.kl, Ev.v, Ev.vm, Ev.ttl, Ev.ret)
        \/ Ev.e = "SetLimit" /\ ISetLimit(Ev.arg)
TTick == Ev.e = "Tick" /\ Tick(Ev.dt)
TNextP == More /\ (ActP \/ TTick) /\ ObsP /\ Step
TNextI == More /\ (ActI \/ TTick) /\ ObsI /\ Step
Mark == MarkPos(h, l)
====
