---- MODULE EventQueueImpl ----
(* C59, I-layer: EventScheduler as it is today (src/event.cc) and EventLoop::runOnce (src/EventLoop.cc).
   tasks = the singly linked list, sorted by `when`; when = 0 for a delay <= 0, else clock + delay; schedule() inserts
   behind the last entry with when <= the new one; cancel(f, a) unlinks the first match; cancel(f, none) walks the
   list and unlinks every match, re-examining the slot after each unlink (CancelAllWalk; before the repair of 253d745 the
   walk stepped over the entry following an unlinked one, which stayed scheduled - CancelAllDeviates is now never true);
   checkEvents() pops due entries from the head until one with a non-zero weight was popped; timeRemaining() is the
   head's distance in milliseconds, rounded up, at least 1, EVENT_IDLE (-1) when empty (den = clock ticks per second). *)
EXTENDS Integers, Sequences, FiniteSets
VARIABLES tasks, now, nextId
ivars == <<tasks, now, nextId>>

Abs(e) == [id |-> e.id, f |-> e.f, a |-> e.a, w |-> e.w, imm |-> e.imm, due |-> e.due]
P == INSTANCE EventQueue WITH pending <- {Abs(tasks[i]) : i \in DOMAIN tasks}

NewTask(id, f, a, d, w, t) == [id |-> id, f |-> f, a |-> a, w |-> w, imm |-> d <= 0, due |-> IF d > 0 THEN t + d ELSE t,
                               when |-> IF d > 0 THEN t + d ELSE 0]
Remove(ts, i) == SubSeq(ts, 1, i - 1) \o SubSeq(ts, i + 1, Len(ts))
InsertPos(ts, wh) == LET later == {i \in DOMAIN ts : ts[i].when > wh} IN IF later = {} THEN Len(ts) + 1 ELSE CHOOSE i \in later : \A j \in later : i <= j
Insert(ts, e) == LET p == InsertPos(ts, e.when) IN SubSeq(ts, 1, p - 1) \o <<e>> \o SubSeq(ts, p, Len(ts))
FirstMatch(ts, f, a) == LET m == {i \in DOMAIN ts : ts[i].f = f /\ ts[i].a = a} IN IF m = {} THEN 0 ELSE CHOOSE i \in m : \A j \in m : i <= j
RECURSIVE CancelAllWalk(_, _, _)
CancelAllWalk(ts, i, f) == IF i > Len(ts) THEN ts
                           ELSE IF ts[i].f = f THEN CancelAllWalk(Remove(ts, i), i, f)
                           ELSE CancelAllWalk(ts, i + 1, f)
CeilDiv(x, y) == (x + y - 1) \div y
TimeRemaining(ts, t, den) == IF ts = <<>> THEN -1 ELSE IF ts[1].when <= t THEN 0
                        ELSE LET ms == CeilDiv(1000 * (ts[1].when - t), den) IN IF ms < 1 THEN 1 ELSE ms
RECURSIVE CheckF(_, _)
CheckF(ts, t) == IF ts = <<>> \/ ts[1].when > t THEN [fired |-> <<>>, rest |-> ts]
                 ELSE IF ts[1].w # 0 THEN [fired |-> <<ts[1]>>, rest |-> Tail(ts)]
                 ELSE LET r == CheckF(Tail(ts), t) IN [fired |-> <<ts[1]>> \o r.fired, rest |-> r.rest]
RECURSIVE LoopF(_, _)
LoopF(ts, t) == LET r == CheckF(ts, t) IN IF r.fired = <<>> THEN r
                ELSE LET r2 == LoopF(r.rest, t) IN [fired |-> r.fired \o r2.fired, rest |-> r2.rest]
FA(es) == [i \in DOMAIN es |-> <<es[i].f, es[i].a>>]
QIds(ts) == [i \in DOMAIN ts |-> ts[i].id]

IInit == tasks = <<>> /\ now = 0 /\ nextId = 1
ISchedule(f, a, d, w) == tasks' = Insert(tasks, NewTask(nextId, f, a, d, w, now)) /\ nextId' = nextId + 1 /\ UNCHANGED now
ICancelTrap(f, a) == a # 0 /\ FirstMatch(tasks, f, a) = 0
ICancel(f, a) == /\ tasks' = IF a = 0 THEN CancelAllWalk(tasks, 1, f)
                             ELSE IF FirstMatch(tasks, f, a) = 0 THEN tasks ELSE Remove(tasks, FirstMatch(tasks, f, a))
                 /\ UNCHANGED <<now, nextId>>
IAdvance(dt) == dt >= 0 /\ now' = now + dt /\ UNCHANGED <<tasks, nextId>>
ICheckFired == FA(CheckF(tasks, now).fired)
ICheckRet(den) == TimeRemaining(CheckF(tasks, now).rest, now, den)
ICheck == tasks' = CheckF(tasks, now).rest /\ UNCHANGED <<now, nextId>>
ILoopFired == FA(LoopF(tasks, now).fired)
ILoop == tasks' = LoopF(tasks, now).rest /\ UNCHANGED <<now, nextId>>
IFindRet(f, a) == FirstMatch(tasks, f, a) # 0
IDrainFired == FA(tasks)
IDrain == tasks' = <<>> /\ now' = now + P!DrainStep /\ UNCHANGED nextId

(* the one place where today's code leaves the property layer: cancel(f, none) that leaves an event of f behind *)
CancelAllDeviates(f) == \E i \in DOMAIN CancelAllWalk(tasks, 1, f) : CancelAllWalk(tasks, 1, f)[i].f = f
Sorted == \A i, j \in DOMAIN tasks : i < j => tasks[i].when <= tasks[j].when
====
