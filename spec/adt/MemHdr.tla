---- MODULE MemHdr ----
(* C49, P-layer: in-memory object data returns exactly what was written.

   segs = what is in memory: a set of pairwise disjoint byte ranges [s, e), each tagged with the number w of the write
   that stored it (the driver fills a write with bytes that encode (w, offset) and projects copied bytes back to tags).
   What the property demands:
     * Write(off, len) of a range that touches nothing in memory stores exactly that range (overlapping writes are
       outside the API: the code calls fatal_dump; the driver does not issue them and records a skip, which must agree
       with the model);
     * Copy(off, len) from an offset that is in memory (the other case is outside the API, too) returns the bytes of
       [off, first missing byte) truncated to len, each byte being the one its write stored;
     * Contig(a, b) <=> no byte of [a, b) is missing;
     * FreeUpTo(t) removes no byte at or after t and invents none; which bytes below t go is left open (Keep).
   Reading lowestOffset()/endOffset() and the node structure belong to the I-layer. *)
EXTENDS Integers, Sequences, FiniteSets, FiniteSetsExt
VARIABLES segs, nextW
pvars == <<segs, nextW>>

Min2(a, b) == IF a < b THEN a ELSE b
Max2(a, b) == IF a > b THEN a ELSE b
Overlaps(S, a, b) == \E g \in S : g.s < b /\ a < g.e
Covered(S, o) == \E g \in S : g.s <= o /\ o < g.e
SegAt(S, o) == CHOOSE g \in S : g.s <= o /\ o < g.e
(* first missing byte at or after o: o itself, or the end of a range behind which nothing follows *)
Reach(S, o) == LET cand == {c \in {o} \cup {g.e : g \in {x \in S : x.e > o}} : ~Covered(S, c)}
               IN CHOOSE c \in cand : \A d \in cand : c <= d
OverlapLen(g, a, b) == Max2(0, Min2(g.e, b) - Max2(g.s, a))
SumOverlap(S, a, b) == FoldSet(LAMBDA g, acc : acc + OverlapLen(g, a, b), 0, S)
FullyIn(S, a, b) == SumOverlap(S, a, b) = b - a                              \* S disjoint: [a, b) lies inside S
TaggedIn(S, w, a, b) == FullyIn({g \in S : g.w = w}, a, b)
TotalLen(S) == SumOverlap(S, 0, 2147483647)
Merged(K) == {[s |-> k.s, e |-> Reach(K, k.s)] : k \in {x \in K : ~\E j \in K : j.e = x.s}}   \* adjacent ranges joined
ClipRaw(S, K) == {[s |-> Max2(g.s, k.s), e |-> Min2(g.e, k.e), w |-> g.w] : <<g, k>> \in {p \in S \X K : OverlapLen(p[1], p[2].s, p[2].e) > 0}}
Clip(S, K) == ClipRaw(S, Merged(K))
Disjoint(S) == \A g, x \in S : g # x => ~(g.s < x.e /\ x.s < g.e)

CopyLen(S, off, len) == Min2(len, Reach(S, off) - off)
RunsOK(S, off, n, runs) == /\ (n = 0) = (runs = <<>>)
                           /\ n > 0 => runs[1][2] = off /\ runs[Len(runs)][3] = off + n
                           /\ \A i \in DOMAIN runs : runs[i][2] < runs[i][3] /\ TaggedIn(S, runs[i][1], runs[i][2], runs[i][3])
                           /\ \A i \in 1..(Len(runs) - 1) : runs[i][3] = runs[i + 1][2]
ContigF(S, a, b) == a = b \/ Reach(S, a) >= b

PInit == segs = {} /\ nextW = 1
Write(off, len, skip, ret) == /\ off >= 0 /\ len >= 1
                              /\ skip = Overlaps(segs, off, off + len)
                              /\ ~skip => ret = TRUE
                              /\ segs' = IF skip THEN segs ELSE segs \cup {[s |-> off, e |-> off + len, w |-> nextW]}
                              /\ nextW' = nextW + 1
(* Keep: disjoint ranges (records with fields s, e) that remain in memory *)
FreeUpTo(t, Keep) == /\ segs' = Clip(segs, Keep)
                     /\ \A g \in segs : g.e > t => FullyIn(Keep, Max2(g.s, t), g.e)       \* nothing at or after t is lost
                     /\ TotalLen(Keep) = TotalLen(segs')                                  \* nothing is invented
                     /\ UNCHANGED nextW
Copy(off, len, skip, ret, runs) == /\ len >= 1 /\ skip = ~Covered(segs, off)
                                   /\ ~skip => ret = CopyLen(segs, off, len) /\ RunsOK(segs, off, ret, runs)
                                   /\ UNCHANGED pvars
Contig(a, b, ret) == a <= b /\ ret = ContigF(segs, a, b) /\ UNCHANGED pvars
====
