INIT TInit
NEXT TNext
CONSTANT Layer = "I"
CONSTRAINT Mark
POSTCONDITION AllAccepted
CHECK_DEADLOCK FALSE
