INIT TInit
NEXT TNext
CONSTANT Layer = "I"
CONSTRAINT Mark
POSTCONDITION Post
CHECK_DEADLOCK FALSE
