---- MODULE MC_MemHdr ----
(* Model-checking harness for C49: explores MemHdrImpl over a tiny address space (unit = 1 KiB when replayed on the
   real mem_hdr, Page = 4 units), checks NodesOK, that every step is a P-step (Refines) and laws; prints every edge. *)
EXTENDS MemHdrImpl, TLC, Json
CONSTANTS MaxOff, MaxWrites, CopyLens, ContigGaps, DumpEdges
St(ns, S, n) == [nodes |-> [i \in DOMAIN ns |-> <<ns[i].s, ns[i].e>>], lo |-> Lo(ns), hi |-> Hi(ns), nextW |-> n, segs |-> S]
Edge(a) == DumpEdges => PrintT(<<"EDGE", ToJson([s |-> St(nodes, segs, nextW), a |-> a, t |-> St(nodes', segs', nextW')])>>)
MCNext ==
    \/ \E off \in 0..(MaxOff - 1) : \E len \in 1..(MaxOff - off) :
          nextW <= MaxWrites /\ ~IWriteSkip(off, len) /\ IWrite(off, len) /\ Edge([op |-> "W", off |-> off, len |-> len])
    \/ \E t \in 0..MaxOff : IFree(t) /\ Edge([op |-> "F", t |-> t, ret |-> IFreeRet(t)])
    \/ \E off \in 0..(MaxOff - 1), len \in CopyLens :
          ~ICopySkip(off) /\ UNCHANGED ivars /\ Edge([op |-> "C", off |-> off, len |-> len, ret |-> ICopyRet(off, len), runs |-> ICopyRuns(off, len)])
    \/ \E a \in 0..MaxOff : \E b \in {a + g : g \in ContigGaps} : b <= MaxOff /\ UNCHANGED ivars /\ Edge([op |-> "G", a |-> a, b |-> b, ret |-> IContigRet(a, b)])
MCSpec == IInit /\ [][MCNext]_ivars

PNext == \/ \E off \in 0..(MaxOff - 1) : \E len \in 1..(MaxOff - off) : Write(off, len, FALSE, TRUE)
         \/ \E t \in 0..MaxOff : FreeUpTo(t, NodeSet(nodes'))
Refines == [][PNext]_pvars
TypeOK == nextW \in 1..(MaxWrites + 1) /\ \A g \in segs : g.s \in 0..MaxOff /\ g.e \in 0..MaxOff /\ g.s < g.e
(* laws *)
LawCopy == \A off \in 0..(MaxOff - 1), len \in CopyLens :
             Covered(segs, off) => /\ RunsOK(segs, off, ICopyRet(off, len), ICopyRuns(off, len))
                                   /\ ICopyRet(off, len) >= 1 /\ ICopyRet(off, len) <= len
                                   /\ (ICopyRet(off, len) < len => ~Covered(segs, off + ICopyRet(off, len)))
                                   /\ \A o \in off..(off + ICopyRet(off, len) - 1) : Covered(segs, o)
LawContig == \A a \in 0..MaxOff : \A b \in a..MaxOff : ContigF(segs, a, b) = (\A o \in a..(b - 1) : Covered(segs, o))
LawSameCover == \A o \in 0..MaxOff : Covered(segs, o) = Covered(NodeSet(nodes), o)
====
