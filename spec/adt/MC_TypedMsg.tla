---- MODULE MC_TypedMsg ----
(* Standalone model check of TypedMsg.tla as a small state machine (MaxSize = 7, bytes {0, 255}):
   a writer performs up to MaxPuts puts, then the size field may be corrupted to any value 0..MaxSize+2 and the type changed,
   then a reader performs up to MaxGets gets.
     RoundTrip:  with an uncorrupted buffer, reading with the mirrored gets returns exactly the values put, in order;
     Bounded:    whatever the buffer and the gets, a successful get consumed only bytes inside min(size, MaxSize), the cursor
                 never passes size, and every refused get is one of the cases the statement names;
     Refines:    in every reachable state, today's reader (ImplDoGet) succeeds only where DoGet does, with the same result. *)
EXTENDS TypedMsg, TLC
MaxPuts == 2
MaxGets == 2
B == {0, 255}
Strs == UNION {[1..k -> B] : k \in 0..2}
PutOps == {[op |-> "int", v |-> n] : n \in {0, 0 - 1, 258, 0 - 2147483647 - 1, 2147483647}}
          \cup {[op |-> "str", v |-> s] : s \in Strs} \cup {[op |-> "fixed", v |-> s] : s \in Strs \ {<<>>}}
GetOps == {[op |-> "int", a |-> 0], [op |-> "str", a |-> 0], [op |-> "check", a |-> 1], [op |-> "check", a |-> 2]}
          \cup {[op |-> "fixed", a |-> n] : n \in {0, 1, 2, 5}}
VARIABLES buf, puts, phase, off, gets, results, clean
vars == <<buf, puts, phase, off, gets, results, clean>>
Init == buf = Empty(1) /\ puts = <<>> /\ phase = "put" /\ off = 0 /\ gets = <<>> /\ results = <<>> /\ clean = TRUE
Put == /\ phase = "put" /\ Len(puts) < MaxPuts
       /\ \E p \in PutOps : LET r == DoPut(buf, p) IN r.ok /\ buf' = r.buf /\ puts' = Append(puts, p)
       /\ UNCHANGED <<phase, off, gets, results, clean>>
Corrupt == /\ phase = "put" /\ phase' = "get"
           /\ \E sz \in 0..(MaxSize + 2), t \in {1, 2} :
                /\ buf' = [buf EXCEPT !.size = sz, !.type = t]
                /\ clean' = (sz = buf.size /\ t = buf.type)
           /\ UNCHANGED <<puts, off, gets, results>>
Get == /\ phase = "get" /\ Len(gets) < MaxGets /\ (IF results = <<>> THEN TRUE ELSE results[Len(results)].ok)
       /\ \E g \in GetOps : LET r == DoGet(buf, off, g) IN
            /\ gets' = Append(gets, g) /\ results' = Append(results, r)
            /\ off' = IF r.ok THEN r.off ELSE off
       /\ UNCHANGED <<buf, puts, phase, clean>>
Next == Put \/ Corrupt \/ Get
\* values read by the mirrored gets from the clean buffer
RECURSIVE ReadAll(_, _, _)
ReadAll(b, o, gs) == IF gs = <<>> THEN <<>> ELSE LET r == DoGet(b, o, Head(gs)) IN
                     IF r.ok THEN <<r.v>> \o ReadAll(b, r.off, Tail(gs)) ELSE <<"raised">>
RoundTrip == phase = "put" => ReadAll(buf, 0, [k \in 1..Len(puts) |-> MirrorOf(puts[k])]) = [k \in 1..Len(puts) |-> puts[k].v]
Bounded == /\ off <= MinN(buf.size, MaxSize) \/ results = <<>>
           /\ \A k \in 1..Len(results) :
                LET g == gets[k]
                    before == IF k = 1 THEN 0 ELSE results[k - 1].off IN
                IF results[k].ok THEN results[k].off <= MinN(buf.size, MaxSize) /\ results[k].off >= before
                ELSE \/ g.op = "check" /\ buf.type # g.a
                     \/ g.op = "fixed" /\ g.a > 0 /\ (g.a > buf.size - before \/ before + g.a > MaxSize)
                     \/ g.op = "int" /\ (4 > buf.size - before \/ before + 4 > MaxSize)
                     \/ g.op = "str" /\ LET l == GetInt(buf, before) IN
                                        ~l.ok \/ l.v < 0 \/ l.v > MaxSize \/ l.v > buf.size - l.off \/ l.off + l.v > MaxSize
\* the reader as implemented (I-layer) never succeeds where the statement's reader (P-layer) raises, and returns the same
Refines == \A g \in GetOps : LET im == ImplDoGet(buf, off, g) IN im.ok => DoGet(buf, off, g) = im
ASSUME Int32Of(Int32Bytes(0 - 1)) = 0 - 1 /\ Int32Bytes(0 - 1) = <<255, 255, 255, 255>> /\ Int32Bytes(258) = <<2, 1, 0, 0>>
ASSUME Int32Of(Int32Bytes(0 - 2147483647 - 1)) = 0 - 2147483647 - 1 /\ Int32Of(<<255, 255, 255, 127>>) = 2147483647
====
