SPECIFICATION MCSpec
CONSTANTS C0 = 104
  Keys = {1, 2, 3}
  Vals <- ValsAll
  Ttls <- TtlsAll
  Limits <- LimitsAll
  Dts <- Dts1
  MaxNow = 2
  DumpEdges = FALSE
INVARIANTS TypeOK CapacityOK KeysDistinct MemOK LawAddThenGet LawDelThenGet LawGetKeepsSet LawAddPurge LawLimitPurge
PROPERTY Refines
CHECK_DEADLOCK FALSE
