---- MODULE CharSetTok ----
(* C50: character sets are sets of byte values; Parser::Tokenizer operations consume exactly the maximal
   (or length-limited) runs that the sets define and leave the rest of the buffer unchanged.
   P-layer reference: pure functions over Seq(0..255) and SUBSET 0..255.  A limit < 0 stands for npos.
   The tokenizer state the statement talks about is the remaining buffer (and the number of bytes consumed). *)
EXTENDS Naturals, Sequences
Byte == 0..255
ToSet(q) == {q[k] : k \in 1..Len(q)}

\* ---- character sets: the operations of the statement ARE the set operations -------------------------------------
Union(A, B) == A \cup B
Diff(A, B) == A \ B
Compl(A) == Byte \ A
Member(c, A) == c \in A
\* a list of inclusive ranges <<lo, hi>>, lo <= hi
FromRanges(rs) == UNION {rs[k][1]..rs[k][2] : k \in 1..Len(rs)}

\* ---- runs --------------------------------------------------------------------------------------------------------
MinN(a, b) == IF a < b THEN a ELSE b
\* length of the maximal run of members of S in s starting at position k, going forward: the run ends before the first
\* position that is past the end or holds a non-member (written without recursion: inputs may be hundreds of bytes long)
Run(s, k, S) == (CHOOSE j \in k..(Len(s) + 1) : (j = Len(s) + 1 \/ s[j] \notin S) /\ \A m \in k..(j - 1) : s[m] \in S) - k
\* length of the maximal run of members of S in s ending at position k, going backward
RunBack(s, k, S) == k - (CHOOSE j \in 0..k : (j = 0 \/ s[j] \notin S) /\ \A m \in (j + 1)..k : s[m] \in S)
Lim(n, limit) == IF limit < 0 THEN n ELSE MinN(n, limit)
Take(s, n) == SubSeq(s, 1, n)
Drop(s, n) == SubSeq(s, n + 1, Len(s))
TakeBack(s, n) == SubSeq(s, Len(s) - n + 1, Len(s))
DropBack(s, n) == SubSeq(s, 1, Len(s) - n)
IsPrefix(t, s) == Len(t) <= Len(s) /\ Take(s, Len(t)) = t
IsSuffix(t, s) == Len(t) <= Len(s) /\ TakeBack(s, Len(t)) = t

\* ---- tokenizer operations ----------------------------------------------------------------------------------------
\* An operation is a record [op, limit, str (byte sequence; skipChar uses str[1])] together with a set S of byte values.
\* Result: [ret (number: 0/1 for the boolean methods, the count for skipAll*), hasTok, tok, rem, n (bytes consumed)].
Res(ret, hasTok, tok, rem, n) == [ret |-> ret, hasTok |-> hasTok, tok |-> tok, rem |-> rem, n |-> n]
Nothing(s) == Res(0, FALSE, <<>>, s, 0)

Prefix(s, S, limit) == LET n == Lim(Run(s, 1, S), limit) IN
                       IF n = 0 THEN Nothing(s) ELSE Res(1, TRUE, Take(s, n), Drop(s, n), n)
Suffix(s, S, limit) == LET n == Lim(RunBack(s, Len(s), S), limit) IN
                       IF n = 0 THEN Nothing(s) ELSE Res(1, TRUE, TakeBack(s, n), DropBack(s, n), n)
SkipAll(s, S) == LET n == Run(s, 1, S) IN Res(n, FALSE, <<>>, Drop(s, n), n)
SkipOne(s, S) == IF Len(s) > 0 /\ s[1] \in S THEN Res(1, FALSE, <<>>, Drop(s, 1), 1) ELSE Nothing(s)
SkipAllTrailing(s, S) == LET n == RunBack(s, Len(s), S) IN Res(n, FALSE, <<>>, DropBack(s, n), n)
SkipOneTrailing(s, S) == IF Len(s) > 0 /\ s[Len(s)] \in S THEN Res(1, FALSE, <<>>, DropBack(s, 1), 1) ELSE Nothing(s)
SkipStr(s, t) == IF IsPrefix(t, s) THEN Res(1, FALSE, <<>>, Drop(s, Len(t)), Len(t)) ELSE Nothing(s)
SkipSuffix(s, t) == IF IsSuffix(t, s) THEN Res(1, FALSE, <<>>, DropBack(s, Len(t)), Len(t)) ELSE Nothing(s)
\* strtok: leading delimiters, a non-empty token, at least one trailing delimiter (all of them are skipped)
Token(s, D) == LET d1 == Run(s, 1, D)
                   t == Run(s, d1 + 1, Byte \ D)
                   d2 == Run(s, d1 + t + 1, D) IN
               IF t = 0 \/ d2 = 0 THEN Nothing(s)
               ELSE Res(1, TRUE, SubSeq(s, d1 + 1, d1 + t), Drop(s, d1 + t + d2), d1 + t + d2)

Ref(s, o, S) ==
  CASE o.op = "prefix" -> Prefix(s, S, o.limit)
    [] o.op = "suffix" -> Suffix(s, S, o.limit)
    [] o.op = "skipAll" -> SkipAll(s, S)
    [] o.op = "skipOne" -> SkipOne(s, S)
    [] o.op = "skipAllTrailing" -> SkipAllTrailing(s, S)
    [] o.op = "skipOneTrailing" -> SkipOneTrailing(s, S)
    [] o.op = "skipStr" -> SkipStr(s, o.str)
    [] o.op = "skipChar" -> SkipStr(s, Take(o.str, 1))
    [] o.op = "skipSuffix" -> SkipSuffix(s, o.str)
    [] o.op = "token" -> Token(s, S)

\* skipping the empty string: "found and skipped" may be reported either way, nothing is consumed in both cases
RetFree(o) == o.op \in {"skipStr", "skipSuffix"} /\ o.str = <<>>
====
