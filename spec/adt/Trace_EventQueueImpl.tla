---- MODULE Trace_EventQueueImpl ----
(* C59: validates recorded histories against the I-layer EventQueueImpl (exact queue order, exact fired lists per
   check, exact checkEvents() return values, debug_trap on a cancel without match).  A rejected history is DRIFT. *)
EXTENDS EventQueueImpl, TracePos
VARIABLES h, l
TInit == IInit /\ h \in 1..NHist /\ l = 1
Ev == Events(h)[l]
More == l <= Len(Events(h))
Step == l' = l + 1 /\ h' = h
Obs == Ev.ub = FALSE /\ now' = Ev.now /\ QIds(tasks') = Ev.q
Act == \/ Ev.e = "Sched" /\ Ev.id = nextId /\ ISchedule(Ev.f, Ev.a, Ev.d, Ev.w)
       \/ Ev.e = "Cancel" /\ Ev.trap = ICancelTrap(Ev.f, Ev.a) /\ ICancel(Ev.f, Ev.a)
       \/ Ev.e = "Find" /\ Ev.ret = IFindRet(Ev.f, Ev.a) /\ UNCHANGED ivars
       \/ Ev.e = "Adv" /\ IAdvance(Ev.dt)
       \/ Ev.e = "Check" /\ Ev.fired = ICheckFired /\ Ev.ret = ICheckRet(Tr[h].den) /\ ICheck
       \/ Ev.e = "Loop" /\ Ev.fired = ILoopFired /\ ILoop
       \/ Ev.e = "Drain" /\ Ev.fired = IDrainFired /\ Ev.ret = -1 /\ IDrain
TNext == More /\ Act /\ Obs /\ Step
Mark == MarkPos(h, l)
====
