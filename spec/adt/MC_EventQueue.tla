---- MODULE MC_EventQueue ----
(* Model-checking harness for C59: explores EventQueueImpl over tiny constants; checks that every step is a step of
   the P-layer EventQueue (Refines) except the named deviation (cancel-all leaving an event of the handler behind),
   plus laws.  With DumpEdges = TRUE every transition is printed as <<"EDGE", json>> for T1. *)
EXTENDS EventQueueImpl, TLC, Json
CONSTANTS Funcs, SArgs, CArgs, Delays, Weights, MaxEvents, MaxNow, Dts, Den, DumpEdges
St(ts, t, n) == [q |-> QIds(ts), now |-> t, nextId |-> n, tasks |-> ts]
Edge(a) == DumpEdges => PrintT(<<"EDGE", ToJson([s |-> St(tasks, now, nextId), a |-> a, t |-> St(tasks', now', nextId')])>>)
MCNext ==
    \/ \E f \in Funcs, a \in SArgs, d \in Delays, w \in Weights :
          nextId <= MaxEvents /\ ISchedule(f, a, d, w) /\ Edge([op |-> "S", f |-> f, a |-> a, d |-> d, w |-> w])
    \/ \E f \in Funcs, a \in CArgs :
          ICancel(f, a) /\ Edge([op |-> "X", f |-> f, a |-> a, trap |-> ICancelTrap(f, a), dev |-> (a = 0 /\ CancelAllDeviates(f))])
    \/ \E f \in Funcs, a \in SArgs : UNCHANGED ivars /\ Edge([op |-> "F", f |-> f, a |-> a, ret |-> IFindRet(f, a)])
    \/ \E dt \in Dts : now + dt <= MaxNow /\ IAdvance(dt) /\ Edge([op |-> "A", dt |-> dt])
    \/ ICheck /\ Edge([op |-> "C", ret |-> ICheckRet(Den), fired |-> ICheckFired])
    \/ ILoop /\ Edge([op |-> "O", fired |-> ILoopFired])
MCSpec == IInit /\ [][MCNext]_ivars

PNext == \/ \E f \in Funcs, a \in SArgs, d \in Delays, w \in Weights : P!Schedule(f, a, d, w)
         \/ \E f \in Funcs, a \in CArgs : P!Cancel(f, a)
         \/ \E f \in Funcs : P!CancelAll(f)
         \/ \E dt \in Dts : P!Advance(dt)
         \/ P!Fires(ICheckFired) \/ P!Fires(ILoopFired)
Deviation == \E f \in Funcs : CancelAllDeviates(f) /\ ICancel(f, 0)
Refines == [][PNext \/ Deviation]_ivars

TypeOK == now \in 0..MaxNow /\ nextId \in 1..(MaxEvents + 1) /\ Len(tasks) <= MaxEvents
(* the code's order is one the property accepts: the whole queue can fire front to back once everything is due *)
LawDrainOrder == {} \in P!FireAll({Abs(tasks[i]) : i \in DOMAIN tasks}, FA(tasks), now + P!DrainStep)
(* a check never fires an event that is not due, and reports 0 only if the head is due *)
LawDue == \A i \in DOMAIN CheckF(tasks, now).fired : CheckF(tasks, now).fired[i].due <= now
LawFind == \A f \in Funcs, a \in SArgs : IFindRet(f, a) = (P!Matching({Abs(tasks[i]) : i \in DOMAIN tasks}, f, a) # {})
====
