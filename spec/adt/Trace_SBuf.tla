---- MODULE Trace_SBuf ----
(* Validates recorded executions of real SBufs against SBufModel.  One history = one sequence of API calls on K SBufs
   that start empty.  Event: [o |-> operation, res |-> [ok, r], ch |-> list of [i, p]] where ch lists the values whose
   contents the driver saw change in this step (and every value of at most Full bytes) with their projection p;
   a value that is not listed is reported as unchanged.  An {"e":"Abort"} event (driver died) matches no action.
   Layer "P": the property (contents and results as for independent values; raise exactly when required).
   Layer "I": additionally today's choices where the statement leaves freedom (sign of caseCmp on bytes >= 128,
   the space guarantee of reserveSpace). *)
EXTENDS SBufModel, TraceLib
SX == INSTANCE SequencesExt
CONSTANT Layer
VARIABLES h, l
Full == 64
Sum1(s) == SX!FoldLeftDomain(LAMBDA acc, k : (acc + s[k]) % 65521, 0, s)
Sum2(s) == SX!FoldLeftDomain(LAMBDA acc, k : (acc + ((k % 251) + 1) * s[k]) % 65521, 0, s)
\* what the driver reports about a byte string: everything when short, else length, both ends and two position-weighted checksums
Proj(s) == IF Len(s) <= Full THEN [len |-> Len(s), b |-> s]
           ELSE [len |-> Len(s), hd |-> Take(s, 8), tl |-> SubSeq(s, Len(s) - 7, Len(s)), h1 |-> Sum1(s), h2 |-> Sum2(s)]
StrRes == {"consume", "cstr", "copy"}
NK == Tr[h].k
TInit == h \in 1..NHist /\ l = 1 /\ val = [x \in 1..Tr[h].k |-> <<>>]
ResultOk(ev, e) ==
  /\ ev.res.ok = e.ok
  /\ e.ok => CASE ev.o.a = "caseCmp" -> IF Layer = "I" THEN ev.res.r = e.r
                                        ELSE ev.res.r \in CaseCmpAllowed(HeadN(val[ev.o.i], ev.o.n), HeadN(val[ev.o.j], ev.o.n))
               [] ev.o.a \in StrRes -> ev.res.r = Proj(e.r)
               [] ev.o.a = "reserveSpace" -> Layer = "I" => ev.res.r = 1
               [] OTHER -> ev.res.r = e.r
ContentsOk(ev, e) == \A x \in 1..NK :
  LET c == {q \in 1..Len(ev.ch) : ev.ch[q].i = x} IN
  IF c = {} THEN e.val[x] = val[x] ELSE \A q \in c : ev.ch[q].p = Proj(e.val[x])
TStep == /\ l <= Len(Events(h))
         /\ "o" \in DOMAIN Events(h)[l]
         /\ LET ev == Events(h)[l]
                e == Eff(val, ev.o) IN
            /\ ResultOk(ev, e)
            /\ ContentsOk(ev, e)
            /\ val' = e.val
         /\ l' = l + 1 /\ h' = h
TNext == TStep
\* registers NHist+1 .. 2*NHist hold how far each history got (a history is one linear behaviour), so that a rejection
\* comes with the position of the event that no action explains
ASSUME \A x \in 1..NHist : TLCSet(NHist + x, 0)
Mark == MarkAccepted(h, l) /\ TLCSet(NHist + h, l)
Post == /\ (Rejected = {} \/ PrintT(<<"PROGRESS", {<<x, TLCGet(NHist + x)>> : x \in Rejected}>>))
        /\ AllAccepted
====
