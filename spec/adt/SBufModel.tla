---- MODULE SBufModel ----
(* C48: K byte-string values that behave as INDEPENDENT values (the model has no sharing: that is the property).
   Every action of the public SBuf API is a pure function of the values:  Eff(v, o) = [val, ok, r]
     val  the K values after the operation (only the target(s) named by the operation may differ),
     ok   FALSE when the operation must raise (bounds, size limit) - then val = v,
     r    the result (a number, -1 for npos, 0/1 for booleans; a byte sequence for operations returning strings; 0 if none).
   Semantics are those of std::string / the documented SBuf conventions:
     an argument -1 stands for npos, any other negative argument for "some huge value below npos" (>= 2^30).
   An operation is a record [a, i, j, pos, n, c, lit, f1, f2]; i is the target, j the other operand (i = j allowed). *)
EXTENDS Integers, Sequences

Byte == 0..255
MaxSize == 268435455          \* SBuf::maxSize
Huge == 1073741824
V(a) == IF a < -1 THEN Huge ELSE a
MinN(a, b) == IF a < b THEN a ELSE b
ToSet(s) == {s[k] : k \in 1..Len(s)}
Take(s, n) == SubSeq(s, 1, n)
Drop(s, n) == SubSeq(s, n + 1, Len(s))

\* ---- slicing (chop/substr conventions): pos npos or beyond the end -> empty; n npos or overflowing -> to the end
SubPos(s, pos) == IF pos = -1 \/ V(pos) > Len(s) THEN Len(s) ELSE V(pos)
SubLen(s, pos, n) == LET p == SubPos(s, pos) IN IF n = -1 \/ V(n) > Len(s) - p THEN Len(s) - p ELSE V(n)
Sub(s, pos, n) == LET p == SubPos(s, pos) IN SubSeq(s, p + 1, p + SubLen(s, pos, n))
\* first min(n, length) bytes
HeadN(s, n) == IF n = -1 \/ V(n) > Len(s) THEN s ELSE Take(s, V(n))

\* ---- case
Low(b) == IF b >= 65 /\ b <= 90 THEN b + 32 ELSE b
Up(b) == IF b >= 97 /\ b <= 122 THEN b - 32 ELSE b
Lower(s) == [k \in 1..Len(s) |-> Low(s[k])]
Upper(s) == [k \in 1..Len(s) |-> Up(s[k])]

\* ---- comparison: position of the first difference within the common length, then lengths
FirstDiff(a, b) == LET m == MinN(Len(a), Len(b)) IN
                   CHOOSE k \in 1..(m + 1) : (k = m + 1 \/ a[k] # b[k]) /\ \A q \in 1..(k - 1) : a[q] = b[q]
Cmp(a, b) == LET d == FirstDiff(a, b) IN
             IF d <= MinN(Len(a), Len(b)) THEN (IF a[d] < b[d] THEN -1 ELSE 1)
             ELSE IF Len(a) = Len(b) THEN 0 ELSE IF Len(a) < Len(b) THEN -1 ELSE 1
\* case-insensitive comparison: equality is exact; the ORDER of two strings that first differ in a byte >= 128 is not defined by
\* std::string semantics (there is no std::string caseCmp; bytes may be compared as signed or unsigned chars): either sign
CaseCmpAllowed(a, b) == LET la == Lower(a)
                            lb == Lower(b)
                            d == FirstDiff(la, lb) IN
                        IF d <= MinN(Len(a), Len(b)) /\ (la[d] >= 128 \/ lb[d] >= 128) THEN {-1, 1} ELSE {Cmp(la, lb)}
\* today's implementation compares tolower((int)(signed char)b) values; glibc's table maps -128..-2 to 128..254 and -1 (EOF) to -1,
\* so only byte 255 sorts below everything else
SChar(b) == IF b = 255 THEN -1 ELSE b
CaseCmpImpl(a, b) == LET la == Lower(a)
                         lb == Lower(b)
                         d == FirstDiff(la, lb) IN
                     IF d <= MinN(Len(a), Len(b)) THEN (IF SChar(la[d]) < SChar(lb[d]) THEN -1 ELSE 1) ELSE Cmp(la, lb)

\* ---- searching.  Positions are 0-based in the API, sequences are 1-based here.
\* first index k in lo..hi satisfying P, or hi+1
FirstIn(lo, hi, P(_)) == CHOOSE k \in lo..(hi + 1) : (k = hi + 1 \/ P(k)) /\ \A q \in lo..(k - 1) : ~P(q)
\* last index k in lo..hi satisfying P, or lo-1
LastIn(lo, hi, P(_)) == CHOOSE k \in (lo - 1)..hi : (k = lo - 1 \/ P(k)) /\ \A q \in (k + 1)..hi : ~P(q)
\* t occurs in s at position k (the first byte is compared first: most candidate positions fail there)
MatchAt(s, t, k) == (Len(t) = 0 \/ s[k] = t[1]) /\ SubSeq(s, k, k + Len(t) - 1) = t
\* find(char / set member) from startPos: npos if startPos is npos or beyond the end
FindFirst(s, pos, P(_)) == IF pos = -1 \/ V(pos) >= Len(s) THEN -1
                           ELSE LET k == FirstIn(V(pos) + 1, Len(s), P) IN IF k > Len(s) THEN -1 ELSE k - 1
\* rfind(char / set member) up to and including endPos (npos or beyond the end: whole string)
FindLast(s, pos, P(_)) == IF Len(s) = 0 THEN -1
                          ELSE LET e == IF pos = -1 \/ V(pos) >= Len(s) THEN Len(s) ELSE V(pos) + 1
                                   k == LastIn(1, e, P) IN IF k < 1 THEN -1 ELSE k - 1
FindStr(s, t, pos) == IF pos = -1 \/ V(pos) > Len(s) THEN -1
                      ELSE IF Len(t) = 0 THEN V(pos)
                      ELSE IF Len(t) > Len(s) THEN -1
                      ELSE LET hi == Len(s) - Len(t) + 1 IN
                           IF V(pos) + 1 > hi THEN -1
                           ELSE LET k == FirstIn(V(pos) + 1, hi, LAMBDA q : MatchAt(s, t, q)) IN IF k > hi THEN -1 ELSE k - 1
RFindStr(s, t, pos) == IF Len(t) > Len(s) THEN -1
                       ELSE LET last == Len(s) - Len(t)
                                e == IF pos = -1 \/ V(pos) > last THEN last ELSE V(pos)
                                k == LastIn(1, e + 1, LAMBDA q : MatchAt(s, t, q)) IN IF k < 1 THEN -1 ELSE k - 1

\* ---- trim: strip members of the set at the chosen ends
TrimFront(s, S) == Drop(s, FirstIn(1, Len(s), LAMBDA q : s[q] \notin S) - 1)
TrimBack(s, S) == Take(s, LastIn(1, Len(s), LAMBDA q : s[q] \notin S))
Trim(s, S, atBeginning, atEnd) == LET a == IF atEnd THEN TrimBack(s, S) ELSE s IN IF atBeginning THEN TrimFront(a, S) ELSE a

\* ---- C strings and printf
CStr(s) == Take(s, FirstIn(1, Len(s), LAMBDA q : s[q] = 0) - 1)
RECURSIVE Dec(_)
Dec(x) == IF x < 10 THEN <<48 + x>> ELSE Dec(x \div 10) \o <<48 + (x % 10)>>
Formatted(t, num, withNum) == IF withNum THEN CStr(t) \o <<124>> \o Dec(num) ELSE CStr(t)      \* "%s|%d" or "%s"

\* ---- the transition function -------------------------------------------------------------------------------------------
Ok(v, r) == [val |-> v, ok |-> TRUE, r |-> r]
Raise(v) == [val |-> v, ok |-> FALSE, r |-> 0]
B(x) == IF x THEN 1 ELSE 0
\* appending x to value i: beyond maxSize the operation raises and nothing changes
App(v, i, x) == IF Len(v[i]) + Len(x) > MaxSize THEN Raise(v) ELSE Ok([v EXCEPT ![i] = v[i] \o x], 0)
Set(v, i, x) == Ok([v EXCEPT ![i] = x], 0)

Eff(v, o) == LET s == v[o.i]
                 t == v[o.j]
                 T == ToSet(t) IN
  CASE o.a = "assign" -> Set(v, o.i, t)
    [] o.a = "assignLit" -> Set(v, o.i, o.lit)
    [] o.a = "assignSub" -> Set(v, o.i, Sub(t, o.pos, o.n))                      \* v[i] = v[j].substr(pos, n)
    [] o.a = "clear" -> Set(v, o.i, <<>>)
    [] o.a = "append" -> App(v, o.i, t)
    [] o.a = "appendSub" -> App(v, o.i, Sub(t, o.pos, o.n))                      \* v[i].append(v[j].substr(pos, n))
    [] o.a = "appendLit" -> App(v, o.i, o.lit)
    [] o.a = "pushBack" -> App(v, o.i, <<o.c>>)
    \* rawAppendStart(|lit| + n), copy lit, rawAppendFinish(|lit|): reserving beyond maxSize raises
    [] o.a = "rawAppend" -> IF o.n < 0 \/ Len(s) + Len(o.lit) + o.n > MaxSize THEN Raise(v) ELSE App(v, o.i, o.lit)
    [] o.a = "appendf" -> App(v, o.i, Formatted(t, o.n, o.f1))                   \* v[i].appendf(f1 ? "%s|%d" : "%s", v[j].c_str(), n)
    [] o.a = "printf" -> Set(v, o.i, Formatted(t, o.n, o.f1))                    \* v[i].Printf(...)
    [] o.a = "consume" -> LET h == HeadN(s, o.n) IN                               \* v[j] = v[i].consume(n)
                          [val |-> [[v EXCEPT ![o.i] = Drop(s, Len(h))] EXCEPT ![o.j] = h], ok |-> TRUE, r |-> h]
    [] o.a = "chop" -> Set(v, o.i, Sub(s, o.pos, o.n))
    [] o.a = "trim" -> Set(v, o.i, Trim(s, T, o.f1, o.f2))
    [] o.a = "toLower" -> Set(v, o.i, Lower(s))
    [] o.a = "toUpper" -> Set(v, o.i, Upper(s))
    [] o.a = "setAt" -> IF o.pos < 0 \/ o.pos >= Len(s) THEN Raise(v) ELSE Set(v, o.i, [s EXCEPT ![o.pos + 1] = o.c])
    [] o.a = "reserveSpace" -> IF o.n < 0 \/ o.n > MaxSize \/ Len(s) > MaxSize - o.n THEN Raise(v) ELSE Ok(v, 0)
    [] o.a = "reserveCapacity" -> IF o.n < 0 \/ o.n > MaxSize THEN Raise(v) ELSE Ok(v, 0)
    [] o.a = "cstr" -> Ok(v, CStr(s))                                            \* c_str() may reallocate but not change contents
    \* queries
    [] o.a = "cmp" -> Ok(v, Cmp(HeadN(s, o.n), HeadN(t, o.n)))
    [] o.a = "caseCmp" -> Ok(v, CaseCmpImpl(HeadN(s, o.n), HeadN(t, o.n)))          \* P-layer acceptance: CaseCmpAllowed, see ResOk
    [] o.a = "startsWith" -> Ok(v, B(Len(t) <= Len(s) /\ (IF o.f1 THEN Lower(Take(s, Len(t))) = Lower(t) ELSE Take(s, Len(t)) = t)))
    [] o.a = "eq" -> Ok(v, B(s = t))
    [] o.a = "findChar" -> Ok(v, FindFirst(s, o.pos, LAMBDA q : s[q] = o.c))
    [] o.a = "rfindChar" -> Ok(v, FindLast(s, o.pos, LAMBDA q : s[q] = o.c))
    [] o.a = "findStr" -> Ok(v, FindStr(s, t, o.pos))
    [] o.a = "rfindStr" -> Ok(v, RFindStr(s, t, o.pos))
    [] o.a = "findFirstOf" -> Ok(v, FindFirst(s, o.pos, LAMBDA q : s[q] \in T))
    [] o.a = "findFirstNotOf" -> Ok(v, FindFirst(s, o.pos, LAMBDA q : s[q] \notin T))
    [] o.a = "findLastOf" -> Ok(v, FindLast(s, o.pos, LAMBDA q : s[q] \in T))
    [] o.a = "findLastNotOf" -> Ok(v, FindLast(s, o.pos, LAMBDA q : s[q] \notin T))
    [] o.a = "at" -> IF o.pos < 0 \/ o.pos >= Len(s) THEN Raise(v) ELSE Ok(v, s[o.pos + 1])
    [] o.a = "index" -> Ok(v, s[o.pos + 1])                                      \* operator[]: only used within bounds
    [] o.a = "copy" -> Ok(v, HeadN(s, o.n))
    [] o.a = "length" -> Ok(v, Len(s))

\* P-layer acceptance of a reported result (ok flag and value) for operation o applied to v
ResOk(v, o, ok, r) == LET e == Eff(v, o) IN
  /\ ok = e.ok
  /\ (e.ok => IF o.a = "caseCmp" THEN r \in CaseCmpAllowed(HeadN(v[o.i], o.n), HeadN(v[o.j], o.n)) ELSE r = e.r)

VARIABLE val
Init(k) == val = [x \in 1..k |-> <<>>]
====
