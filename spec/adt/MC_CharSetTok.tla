---- MODULE MC_CharSetTok ----
(* Laws of the C50 reference functions, model-checked on a bounded domain: every string over Alpha up to MaxLen, every
   subset of Alpha (and its complement in 0..255), every limit in Limits.  The laws characterise the results by
   quantified formulas that do not use the recursive definitions of CharSetTok (independent formulation). *)
EXTENDS CharSetTok, FiniteSets, Integers
CONSTANTS Alpha, MaxLen
Limits == {-1, 0, 1, 2, 3, 5}
VARIABLES grp, s, A, B, lim
Strs == UNION {[1..n -> Alpha] : n \in 0..MaxLen}
\* three groups of laws, each quantified over the variables it talks about only
Init == \/ grp = "set" /\ A \in SUBSET Alpha /\ B \in SUBSET Alpha /\ s = <<>> /\ lim = 0
        \/ grp = "str" /\ s \in Strs /\ A = {} /\ B = {} /\ lim = 0
        \/ grp = "tok" /\ s \in Strs /\ A \in SUBSET Alpha /\ B = {} /\ lim \in Limits
Next == UNCHANGED <<grp, s, A, B, lim>>
Rev(q) == [k \in 1..Len(q) |-> q[Len(q) + 1 - k]]
AllIn(q, S) == \A k \in 1..Len(q) : q[k] \in S
Sets == {A, Compl(A)}

\* --- the run functions agree with their textbook recursive definitions
RECURSIVE RunRec(_, _, _)
RunRec(q, k, S) == IF k <= Len(q) /\ q[k] \in S THEN 1 + RunRec(q, k + 1, S) ELSE 0
RECURSIVE RunBackRec(_, _, _)
RunBackRec(q, k, S) == IF k >= 1 /\ q[k] \in S THEN 1 + RunBackRec(q, k - 1, S) ELSE 0
RunLaws == grp = "tok" => \A S \in Sets : /\ \A k \in 1..(Len(s) + 1) : Run(s, k, S) = RunRec(s, k, S)
                                         /\ \A k \in 0..Len(s) : RunBack(s, k, S) = RunBackRec(s, k, S)
\* --- sets
SetLaws == grp = "set" =>
           /\ Compl(Union(A, B)) = Diff(Compl(A), B)
           /\ Diff(A, B) = A \cap Compl(B)
           /\ Compl(Compl(A)) = A
           /\ Union(Diff(A, B), B) = Union(A, B)
           /\ Diff(Union(A, B), B) = Diff(A, B)
           /\ \A c \in Byte : /\ Member(c, Union(A, B)) <=> (Member(c, A) \/ Member(c, B))
                              /\ Member(c, Diff(A, B)) <=> (Member(c, A) /\ ~Member(c, B))
                              /\ Member(c, Compl(A)) <=> ~Member(c, A)
           /\ Cardinality(Compl(A)) = 256 - Cardinality(A)
           /\ \A lo \in Alpha, hi \in Alpha : \A c \in Byte : Member(c, FromRanges(<<<<lo, hi>>>>)) <=> (lo <= c /\ c <= hi)

\* --- prefix: token . rest = input, token within the set and within the limit, maximal unless the limit stopped it
PrefixLawFor(S) == LET r == Prefix(s, S, lim) IN
  /\ r.n = Len(r.tok) /\ r.tok \o r.rem = s /\ AllIn(r.tok, S)
  /\ (lim >= 0 => r.n <= lim)
  /\ (r.ret = 1) = (r.n > 0) /\ r.hasTok = (r.n > 0)
  /\ ((lim < 0 \/ r.n < lim) => (r.rem = <<>> \/ r.rem[1] \notin S))
SuffixLawFor(S) == LET r == Suffix(s, S, lim)
                       m == Prefix(Rev(s), S, lim) IN
  /\ r.ret = m.ret /\ r.n = m.n /\ r.tok = Rev(m.tok) /\ r.rem = Rev(m.rem) /\ r.hasTok = m.hasTok
  /\ r.rem \o r.tok = s
SkipLawsFor(S) ==
  /\ SkipAll(s, S).rem = Prefix(s, S, -1).rem /\ SkipAll(s, S).ret = Len(Prefix(s, S, -1).tok) /\ SkipAll(s, S).n = SkipAll(s, S).ret
  /\ SkipOne(s, S).rem = Prefix(s, S, 1).rem /\ SkipOne(s, S).ret = Prefix(s, S, 1).ret /\ SkipOne(s, S).n = SkipOne(s, S).ret
  /\ SkipAllTrailing(s, S).rem = Suffix(s, S, -1).rem /\ SkipAllTrailing(s, S).ret = Len(Suffix(s, S, -1).tok)
  /\ SkipOneTrailing(s, S).rem = Suffix(s, S, 1).rem /\ SkipOneTrailing(s, S).ret = Suffix(s, S, 1).ret
\* strtok: exists a split  d1 . tok . d2 . rest  with d1, d2 delimiters only, d2 and tok non-empty, tok without delimiters,
\* rest not starting with a delimiter; the split is unique, and Token fails exactly when there is none
Splits(D) == {<<i, j, k>> \in (0..Len(s)) \X (0..Len(s)) \X (0..Len(s)) :
               /\ i < j /\ j < k
               /\ AllIn(SubSeq(s, 1, i), D) /\ AllIn(SubSeq(s, i + 1, j), Byte \ D) /\ AllIn(SubSeq(s, j + 1, k), D)
               /\ (k = Len(s) \/ s[k + 1] \notin D)}
TokenLawFor(D) == LET r == Token(s, D) IN
  /\ Cardinality(Splits(D)) <= 1
  /\ (r.ret = 1) = (Splits(D) # {})
  /\ r.ret = 0 => r = Nothing(s)
  /\ r.ret = 1 => \E sp \in Splits(D) : r.tok = SubSeq(s, sp[1] + 1, sp[2]) /\ r.rem = Drop(s, sp[3]) /\ r.n = sp[3] /\ r.hasTok
\* exact-string skips
StrLaws == grp = "str" => \A t \in {Take(s, n) : n \in 0..Len(s)} \cup {TakeBack(s, n) : n \in 0..Len(s)} \cup {<<c>> : c \in Alpha} :
  /\ SkipStr(s, t).ret = 1 <=> (\E u \in Strs : s = t \o u)
  /\ SkipStr(s, t).ret = 1 => t \o SkipStr(s, t).rem = s
  /\ SkipStr(s, t).ret = 0 => SkipStr(s, t).rem = s
  /\ SkipSuffix(s, t).ret = 1 <=> (\E u \in Strs : s = u \o t)
  /\ SkipSuffix(s, t).ret = 1 => SkipSuffix(s, t).rem \o t = s
  /\ SkipSuffix(s, t).ret = 0 => SkipSuffix(s, t).rem = s
TokLaws == grp = "tok" => \A S \in Sets : PrefixLawFor(S) /\ SuffixLawFor(S) /\ SkipLawsFor(S) /\ TokenLawFor(S)
====
