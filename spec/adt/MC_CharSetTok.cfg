INIT Init
NEXT Next
CONSTANTS
  Alpha = {0, 97, 255}
  MaxLen = 4
INVARIANTS RunLaws SetLaws TokLaws StrLaws
CHECK_DEADLOCK FALSE
