INIT LInit
NEXT LNext
INVARIANTS RleLaws LimitLaws
CHECK_DEADLOCK FALSE
