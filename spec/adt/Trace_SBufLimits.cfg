INIT TInit
NEXT TNext
CONSTRAINT Mark
POSTCONDITION Post
CHECK_DEADLOCK FALSE
