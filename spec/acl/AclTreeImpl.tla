---- MODULE AclTreeImpl ----
(* C44, I-layer: the walker.  What src/acl/{Checklist,Tree,BoolOps,InnerNode,AllOf,AnyOf}.cc do today.

   Node tree built by the parsers (Shape): Acl::Tree = OrNode over one AndNode per rule; a literal is the named ACL node,
   wrapped in a NotNode when negated; any-of = OrNode over the literals of all its lines; all-of = AllOf node with one
   child: the AndNode of its only line, or an OrNode over one AndNode per line.

   The code runs to completion between pauses, so one model step is one run segment:
     Start:  nonBlockingCheck() -> matchAndFinish() ... until goAsync() pauses the check or the callback is called
     Resume: resumeNonBlockingCheck() -> matchAndFinish() along the matchPath breadcrumbs ... until the next pause or the callback
     Fast:   fastCheck()
   matchPath is modelled as the sequence of child positions from the root (outermost first); ACLChecklist::matchChild pushes
   a breadcrumb while the stack unwinds with asyncInProgress(), InnerNode::resumeMatchingAt restarts doMatch at that child.

   Leaves (the driver's SyntheticLeaf): mode "s" tells the value at once; "a" calls goAsync() and pauses until the lookup
   completes; "n" calls goAsync() with a starter that completes synchronously (resumeNonBlockingCheck() inside goAsync():
   asyncStarting -> asyncFailed, goAsync() returns false) and then tells the value.  Every consultation is logged. *)
EXTENDS AclTree, Integers, TLC
Inner(op, kids) == [op |-> op, kids |-> kids, name |-> "", leaf |-> ""]
RECURSIVE ShapeLit(_), ShapeLine(_), Flat(_)
Flat(ss) == IF ss = <<>> THEN <<>> ELSE Head(ss) \o Flat(Tail(ss))
ShapeLine(line) == Inner("and", [b \in 1..Len(line) |-> ShapeLit(line[b])])
ShapeLit(l) ==
  LET base == CASE l.t = "leaf" -> [op |-> "leaf", kids |-> <<>>, name |-> l.name, leaf |-> l.leaf]
                [] l.t = "anyof" -> Inner("or", [b \in 1..Len(Flat(l.lines)) |-> ShapeLit(Flat(l.lines)[b])])
                [] l.t = "allof" -> Inner("allof", <<IF Len(l.lines) = 1 THEN ShapeLine(l.lines[1])
                                                      ELSE Inner("or", [a \in 1..Len(l.lines) |-> ShapeLine(l.lines[a])])>>)
  IN IF l.neg THEN Inner("not", <<base>>) ELSE base
Shape(rules) == Inner("or", [k \in 1..Len(rules) |-> ShapeLine(rules[k].lits)])

\* per-check walker memory: answered lookups, the pending lookup, the consultation log
W0 == [answered |-> {}, pending |-> "", log |-> <<>>]
Ev(e, n) == [e |-> e, n |-> n]
\* result of a (partial) match: r = "T" match, "F" mismatch, "P" paused by goAsync(); crumbs = breadcrumbs pushed while unwinding
Res(r, crumbs, w, hit) == [r |-> r, crumbs |-> crumbs, w |-> w, hit |-> hit]

\* SyntheticLeaf::match
LeafEval(node, w, env) ==
  LET md == env.mode[node.leaf]
      w1 == [w EXCEPT !.log = Append(@, Ev("eval", node.name))]
      tell(wx) == Res(IF env.truth[node.leaf] THEN "T" ELSE "F", <<>>, wx, 0)
  IN IF md = "s" \/ node.name \in w.answered THEN tell(w1)
     ELSE IF ~env.slow THEN Res("F", <<>>, w1, 0)                    \* goAsync() refuses: a fast directive uses a slow ACL
     ELSE IF md = "a" THEN Res("P", <<>>, [w1 EXCEPT !.pending = node.name, !.log = Append(@, Ev("async", node.name))], 0)
     ELSE tell([w1 EXCEPT !.answered = @ \cup {node.name}, !.log = Append(@, Ev("nostart", node.name))])

RECURSIVE Matches(_, _, _), DoMatch(_, _, _, _, _), Child(_, _, _, _, _), AndLoop(_, _, _, _, _), OrLoop(_, _, _, _, _)
\* Acl::Node::matches -> match(); InnerNode::match = doMatch(nodes.begin())
Matches(node, w, env) == IF node.op = "leaf" THEN LeafEval(node, w, env) ELSE DoMatch(node, 1, <<>>, w, env)
\* ACLChecklist::matchChild(node, i): follow the breadcrumbs (rest) if any, else match the child afresh; push a breadcrumb when paused
Child(node, i, rest, w, env) ==
  LET ch == node.kids[i]
      res == IF rest = <<>> THEN Matches(ch, w, env) ELSE DoMatch(ch, Head(rest), Tail(rest), w, env)
  IN IF res.r = "P" THEN [res EXCEPT !.crumbs = <<i>> \o @, !.hit = 0] ELSE [res EXCEPT !.hit = 0]
\* AndNode::doMatch: the first child that does not match decides
AndLoop(node, i, rest, w, env) ==
  IF i > Len(node.kids) THEN Res("T", <<>>, w, 0)
  ELSE LET cr == Child(node, i, rest, w, env) IN IF cr.r = "T" THEN AndLoop(node, i + 1, <<>>, cr.w, env) ELSE cr
\* OrNode::doMatch: the first child that matches decides (lastMatch_ = hit)
OrLoop(node, i, rest, w, env) ==
  IF i > Len(node.kids) THEN Res("F", <<>>, w, 0)
  ELSE LET cr == Child(node, i, rest, w, env) IN
       IF cr.r = "T" THEN [cr EXCEPT !.hit = i] ELSE IF cr.r = "P" THEN cr ELSE OrLoop(node, i + 1, <<>>, cr.w, env)
DoMatch(node, start, rest, w, env) ==
  CASE node.op = "and" -> AndLoop(node, start, rest, w, env)
    [] node.op = "or" -> OrLoop(node, start, rest, w, env)
    [] node.op = "not" -> LET cr == Child(node, 1, rest, w, env) IN
                          IF cr.r = "T" THEN [cr EXCEPT !.r = "F"] ELSE IF cr.r = "F" THEN [cr EXCEPT !.r = "T"] ELSE cr
    [] node.op = "allof" -> IF Len(node.kids) = 0 THEN Res("T", <<>>, w, 0) ELSE Child(node, 1, rest, w, env)

\* one check: [truth, mode, slow, phase, path, w, answers]
NewCheck(truth, mode) == [truth |-> truth, mode |-> mode, slow |-> TRUE, phase |-> "idle", path |-> <<>>, w |-> W0, answers |-> <<>>]
Env(ck) == [truth |-> ck.truth, mode |-> ck.mode, slow |-> ck.slow]
\* matchAndFinish + completeNonBlocking / the tail of fastCheck()
Settle(rules, ck, res) ==
  IF res.r = "P" THEN [ck EXCEPT !.phase = "paused", !.path = res.crumbs, !.w = res.w]
  ELSE [ck EXCEPT !.phase = "done", !.path = <<>>, !.w = res.w,
                  !.answers = Append(@, IF res.r = "T" THEN rules[res.hit].action                      \* Tree::winningAction
                                        ELSE Opposite(rules[Len(rules)].action))]                       \* calcImplicitAnswer
StartCheck(rules, ck, slow) ==
  LET c1 == [ck EXCEPT !.slow = slow] IN
  IF Len(rules) = 0 THEN [c1 EXCEPT !.phase = "done", !.answers = Append(@, "dunno")]                    \* no access list at all
  ELSE Settle(rules, c1, DoMatch(Shape(rules), 1, <<>>, c1.w, Env(c1)))
ResumeCheck(rules, ck) ==
  LET w1 == [ck.w EXCEPT !.answered = @ \cup {ck.w.pending}, !.pending = ""] IN
  Settle(rules, ck, DoMatch(Shape(rules), Head(ck.path), Tail(ck.path), w1, Env(ck)))
RECURSIVE Drain(_, _, _)
Drain(rules, ck, fuel) == IF ck.phase # "paused" \/ fuel = 0 THEN ck ELSE Drain(rules, ResumeCheck(rules, ck), fuel - 1)
Noop(ck) == [ck EXCEPT !.w.log = Append(@, Ev("noop", ""))]
\* one driver operation [op: "s" | "f" | "r" | "d", c: check number] applied to the vector of checks
Apply(rules, cks, o) ==
  LET ck == cks[o.c] IN
  [cks EXCEPT ![o.c] = CASE o.op = "s" -> StartCheck(rules, ck, TRUE)
                         [] o.op = "f" -> StartCheck(rules, ck, FALSE)
                         [] o.op = "r" -> IF ck.phase = "paused" THEN ResumeCheck(rules, ck) ELSE Noop(ck)
                         [] o.op = "d" -> Drain(rules, ck, 100)]
RECURSIVE Replay(_, _, _)
Replay(rules, cks, ops) == IF ops = <<>> THEN cks ELSE Replay(rules, Apply(rules, cks, Head(ops)), Tail(ops))
====
