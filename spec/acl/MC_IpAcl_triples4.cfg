SPECIFICATION SSpec
CONSTANTS
  BlockSet <- OnlyV4
  HostBits = 2
  SMaxLen = 3
  Cmp <- ICompare
  IsSub <- IIsSubset
  Combine <- ICombine
  LCmp <- ILookupCmp
  SValues <- IValues
  Probes <- IProbes
  PMatch <- IMatchRef
  Prep <- IPrep
INVARIANTS MergeEnds Ordered LookupIsMatch
CHECK_DEADLOCK FALSE
