INIT Init
NEXT Next
CONSTANTS Top = 5 MaxLen = 3
INVARIANTS ImplIsRef RefIsUnion RefOrderFree
CHECK_DEADLOCK FALSE
