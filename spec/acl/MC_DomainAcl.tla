---- MODULE MC_DomainAcl ----
(* Design step for C41: AclSplay instantiated with the domain comparators; I => P over every ordered list of <= MaxLen
   values built from labels Labels with <= ValLabels labels (with and without leading dot), every prefix, every tree
   shape, every host name of <= ProbeLabels labels over the same labels (and one upper-case spelling of each). *)
EXTENDS DomainAcl, AclSplayMC
CONSTANTS LabelSet, ValLabels, ProbeLabels
LA == <<97>>             \* a
LB == <<98>>             \* b
LAmB == <<97, 45, 98>>   \* a-b   ('-' sorts below '.': the documented special case of the comparator)
LAB == <<97, 98>>        \* ab    (suffix without a label boundary)
L4 == {LA, LB, LAmB, LAB}
L3 == {LA, LB, LAmB}
L2 == {LB, LAmB}
RECURSIVE NamesOf(_, _)
NamesOf(L, n) == IF n = 1 THEN L ELSE {l \o <<Dot>> \o r : l \in L, r \in NamesOf(L, n - 1)}
Names(L, n) == UNION {NamesOf(L, k) : k \in 1..n}
Upper(s) == [k \in 1..Len(s) |-> IF s[k] >= 97 /\ s[k] <= 122 THEN s[k] - 32 ELSE s[k]]
DValues == Names(LabelSet, ValLabels) \cup {<<Dot>> \o n : n \in Names(LabelSet, ValLabels)}
DProbes == Names(LabelSet, ProbeLabels) \cup {Upper(n) : n \in Names(LabelSet, 2)}
DMatch(list, h) == Match(list, h)
\* laws of the reference itself
RefLaws == \A h \in Names(LabelSet, 2), v \in DValues :
             /\ Covers(v, h) = Covers(Upper(v), h) /\ Covers(v, h) = Covers(v, Upper(h))
             /\ (v[1] # Dot => (Covers(v, h) <=> h = v))
             /\ (v[1] = Dot => Covers(v, Tail(v)) /\ Covers(v, LA \o v) /\ ~Covers(v, LA \o Tail(v)))
ASSUME RefLaws
\* matchDomainName self tests of src/anyp/Uri.cc (urlInitialize)
S(str) == str
ASSUME MDN(<<102,111,111>>, <<102,111,111>>) = 0 /\ MDN(<<Dot,102>>, <<102>>) = 0 /\ MDN(<<102>>, <<Dot,102>>) = 0
ASSUME MDN(<<120,Dot,102>>, <<Dot,102>>) = 0 /\ MDN(<<120,Dot,102>>, <<102>>) # 0 /\ MDN(<<102>>, <<120,Dot,102>>) # 0
ASSUME MDN(<<120,45,102>>, <<Dot,102>>) > 0 /\ MDN(<<122>>, <<102>>) > 0 /\ MDN(<<97>>, <<102>>) < 0
====
