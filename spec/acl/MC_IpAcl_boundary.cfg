SPECIFICATION SSpec
CONSTANTS
  BlockSet <- Boundary
  HostBits = 1
  SMaxLen = 2
  Cmp <- ICompare
  IsSub <- IIsSubset
  Combine <- ICombine
  LCmp <- ILookupCmp
  SValues <- IValues
  Probes <- IProbes
  PMatch <- IMatchRef
  Prep <- IPrep
CONSTRAINTS Report ReportStuck
CHECK_DEADLOCK FALSE
