SPECIFICATION SSpec
CONSTANTS
  BlockSet <- Boundary
  HostBits = 1
  SMaxLen = 2
  Cmp <- ICompare
  IsSub <- IIsSubset
  Combine <- ICombine
  LCmp <- ILookupCmp
  SValues <- IValues
  Probes <- IProbes
  PMatch <- IMatchRef
  Prep <- IPrep
INVARIANTS MergeEnds Ordered LookupAnswerOk
CHECK_DEADLOCK FALSE
