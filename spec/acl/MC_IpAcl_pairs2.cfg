SPECIFICATION SSpec
CONSTANTS
  BlockSet <- Plain
  HostBits = 2
  SMaxLen = 2
  Cmp <- ICompare
  IsSub <- IIsSubset
  Combine <- ICombine
  LCmp <- ILookupCmp
  SValues <- IValues
  Probes <- IProbes
  PMatch <- IMatchRef
  Prep <- IPrep
INVARIANTS MergeEnds Ordered LookupIsMatch
CHECK_DEADLOCK FALSE
