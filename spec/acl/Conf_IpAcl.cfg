INIT ConfInit
NEXT ConfNext
CONSTANTS
  Cmp <- ICompare
  IsSub <- IIsSubset
  Combine <- ICombine
  LCmp <- ILookupCmp
INVARIANTS CaseOk ImplOk
CHECK_DEADLOCK FALSE
