INIT ConfInit
NEXT ConfNext
CONSTANTS
  Cmp <- DCompare
  IsSub <- DIsSubset
  Combine <- DCombine
  LCmp <- DLookupCmp
INVARIANTS CaseOk ImplOk
CHECK_DEADLOCK FALSE
