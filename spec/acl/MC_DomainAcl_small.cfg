SPECIFICATION SSpec
CONSTANTS
  LabelSet <- L2
  ValLabels = 2
  ProbeLabels = 3
  SMaxLen = 3
  Cmp <- DCompare
  IsSub <- DIsSubset
  Combine <- DCombine
  LCmp <- DLookupCmp
  SValues <- DValues
  Probes <- DProbes
  PMatch <- DMatch
  Prep <- DPrep
INVARIANTS MergeEnds Ordered LookupIsMatch
CHECK_DEADLOCK FALSE
