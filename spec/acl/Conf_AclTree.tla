---- MODULE Conf_AclTree ----
(* Binding for C44: one case = one scenario executed on the real ACLChecklist/Acl::Tree code by harness/u_acltree.cc:
     rules, checks[c] = [truth, mode], ops = the operations the driver performed in order,
     obs[c] = [answers: what the check's callback (or fastCheck) delivered, in order; log: leaf consultations; paused]
   P (CaseOk): every slow check that is not left paused delivered exactly one answer, the first-match decision for its
   valuation, whatever the lookup behaviour of the leaves and the order of the operations; a fast check over leaves that
   need no lookup delivers the same decision.
   I (ImplOk): answers and the exact consultation log equal what the walker model (AclTreeImpl) does along the same ops. *)
EXTENDS AclTreeImpl, ConfLib
Case == Cases[i]
Started(k, q, how) == \E j \in 1..Len(k.ops) : k.ops[j].c = q /\ k.ops[j].op = how
AllSync(k, q) == \A l \in DOMAIN k.checks[q].mode : k.checks[q].mode[l] = "s"
POk(k) == /\ ~k.ub /\ k.errors = <<>>
          /\ \A q \in 1..Len(k.checks) :
               LET want == Decision(k.rules, k.checks[q].truth) IN
               /\ Len(k.obs[q].answers) <= 1
               /\ (k.obs[q].paused => k.obs[q].answers = <<>>)
               /\ (Started(k, q, "s") /\ ~k.obs[q].paused => k.obs[q].answers = <<want>>)
               /\ (Started(k, q, "f") /\ AllSync(k, q) => k.obs[q].answers = <<want>>)
IOk(k) == LET fin == Replay(k.rules, [q \in 1..Len(k.checks) |-> NewCheck(k.checks[q].truth, k.checks[q].mode)], k.ops) IN
          \A q \in 1..Len(k.checks) :
            /\ fin[q].answers = k.obs[q].answers
            /\ fin[q].w.log = k.obs[q].log
            /\ (fin[q].phase = "paused") = k.obs[q].paused
CaseOk == i > 0 => POk(Case)
ImplOk == i > 0 => IOk(Case)
====
