---- MODULE DomainAcl ----
(* C41: domain-name ACLs (ACLDomainData: dstdomain, srcdomain, ...).  Names and values are byte sequences.
   P-layer: the statement.  I-layer: matchDomainName() (src/anyp/Uri.cc, no flags) and the
   Acl::SplayInserter<char*> specialisations of src/acl/DomainData.cc, to be plugged into AclSplay. *)
EXTENDS Naturals, Integers, Sequences, TLC
Dot == 46
Lower(b) == IF b >= 65 /\ b <= 90 THEN b + 32 ELSE b
LowerS(s) == [k \in 1..Len(s) |-> Lower(s[k])]
EndsWith(h, s) == Len(h) >= Len(s) /\ SubSeq(h, Len(h) - Len(s) + 1, Len(h)) = s

\* ---------------- P-layer: the property ----------------
\* "A value beginning with a dot matches that domain and all its subdomains, and any other value matches only itself"
\* (case-insensitively).  h is a host name: it does not begin with a dot.
Covers(v, h) == LET lv == LowerS(v) lh == LowerS(h) IN
  IF Len(lv) > 0 /\ lv[1] = Dot THEN lh = Tail(lv) \/ EndsWith(lh, lv)
  ELSE lh = lv
Match(values, h) == \E k \in 1..Len(values) : Covers(values[k], h)

\* ---------------- I-layer: the code ----------------
RECURSIVE StripDots(_)
StripDots(h) == IF Len(h) > 0 /\ h[1] = Dot THEN StripDots(Tail(h)) ELSE h
RECURSIVE Walk(_, _, _, _)
\* the backwards loop of matchDomainName: hl, dl are the (1-based) positions being compared
Walk(h, d, hl, dl) ==
  IF Lower(h[hl]) = Lower(d[dl]) THEN
    IF hl = 1 /\ dl = 1 THEN 0
    ELSE IF hl = 1 THEN (IF dl = 2 /\ d[1] = Dot THEN 0 ELSE 0 - 1)      \* host shorter: match only if domain = "." host
    ELSE IF dl = 1 THEN (IF d[1] = Dot THEN 0 ELSE 1)                    \* domain shorter: match only if it starts with "."
    ELSE Walk(h, d, hl - 1, dl - 1)
  ELSE IF d[dl] = Dot THEN 1                \* '.' sorts below every other character, so that x-foo.com > .foo.com
  ELSE IF h[hl] = Dot THEN 0 - 1
  ELSE Lower(h[hl]) - Lower(d[dl])
\* matchDomainName(h, d, mdnNone)
MDN(h0, d) == LET h == StripDots(h0) IN
  IF Len(h) = 0 THEN 0 - 1 ELSE IF Len(d) = 0 THEN 1 ELSE Walk(h, d, Len(h), Len(d))
\* Acl::SplayInserter<char*>::Compare / IsSubset / MakeCombinedValue
DCompare(a, b) == IF MDN(b, a) # 0 THEN MDN(a, b) ELSE 0
DIsSubset(a, b) == IF a[1] = Dot /\ b[1] = Dot THEN Len(a) >= Len(b)
                   ELSE IF a[1] # Dot /\ b[1] # Dot THEN TRUE
                   ELSE b[1] = Dot
DCombine(a, b) == Assert(FALSE, <<"Assure: domain name sets cannot partially overlap", a, b>>)
\* aclHostDomainCompare
DLookupCmp(h, d) == MDN(h, d)
\* ACLDomainData::parse: Tolower(t) before Merge
DPrep(v) == LowerS(v)
====
