---- MODULE MC_IpAcl ----
(* Design step for C42: AclSplay instantiated with the IP comparators; I => P over every ordered list of <= SMaxLen
   values over small address blocks (host space = the low HostBits bits of the last limb), every tree shape, every
   address of the blocks and their outside neighbours.
   Plain blocks (inside 10.1.2.0/24 and 2001:db8::/120): LookupIsMatch must hold.
   Boundary blocks (around ::, 0.0.0.0, 255.255.255.255, ffff:..:ffff, plus ::/0): LookupAnswerOk must hold (::/0 also
   contains the IPv4-mapped form of IPv4 probes, so the answer is judged by IpAcl!AnswerOk).  Before the repairs
   01d1a63 (/0 mask) and 251cbd8 (Ip::Address order) TLC found 130 lists of this universe leaving the reference. *)
EXTENDS IpAcl, AclSplayMC, TLC, Json
CONSTANTS BlockSet, HostBits
V4(hi, lo) == <<0, 0, 0, 0, 0, 65535, hi, lo>>
PlainV4 == [fam |-> 4, base |-> V4(2561, 528)]                                   \* 10.1.2.16
PlainV6 == [fam |-> 6, base |-> <<8193, 3512, 0, 0, 0, 0, 0, 16>>]               \* 2001:db8::10
LowV6 == [fam |-> 6, base |-> Zero8]                                             \* ::
LowV4 == [fam |-> 4, base |-> V4Any]                                             \* 0.0.0.0
HighV4 == [fam |-> 4, base |-> V4(65535, 65536 - P2(HostBits))]                  \* 255.255.255.25x
HighV6 == [fam |-> 6, base |-> [Ones8 EXCEPT ![8] = 65536 - P2(HostBits)]]       \* ffff:...:fffx
Plain == {PlainV4, PlainV6}
OnlyV4 == {PlainV4}
OnlyV6 == {PlainV6}
Boundary == {LowV6, LowV4, HighV4, HighV6}
Full(f) == IF f = 4 THEN 32 ELSE 128
N == P2(HostBits)
Addr(blk, n) == [blk.base EXCEPT ![8] = @ + n]
Mult(h) == {n \in 0..(N - 1) : n % P2(h) = 0}
ValuesOf(blk) ==
  {[k |-> "single", fam |-> blk.fam, a |-> Addr(blk, n), b |-> Addr(blk, n), len |-> Full(blk.fam)] : n \in 0..(N - 1)}
  \cup UNION {{[k |-> "cidr", fam |-> blk.fam, a |-> Addr(blk, n), b |-> Addr(blk, n), len |-> Full(blk.fam) - h] : n \in Mult(h)} : h \in 0..HostBits}
  \cup {[k |-> "range", fam |-> blk.fam, a |-> Addr(blk, n1), b |-> Addr(blk, n2), len |-> Full(blk.fam)] : n1 \in 0..(N - 1), n2 \in 0..(N - 1)}
  \cup UNION {{[k |-> "rangecidr", fam |-> blk.fam, a |-> Addr(blk, n1), b |-> Addr(blk, n2), len |-> Full(blk.fam) - h] : n1 \in Mult(h), n2 \in Mult(h)} : h \in 1..(HostBits - 1)}
AllV6 == [k |-> "cidr", fam |-> 6, a |-> Zero8, b |-> Zero8, len |-> 0]           \* ::/0
IValues == {v \in UNION {ValuesOf(blk) : blk \in BlockSet} : WellFormed(v) /\ (v.k \in {"range", "rangecidr"} => v.a # v.b)}
           \cup (IF LowV6 \in BlockSet THEN {AllV6} ELSE {})
ProbesOf(blk) == {Addr(blk, n) : n \in 0..(N - 1)}
                 \cup (IF blk.base[8] > 0 THEN {[blk.base EXCEPT ![8] = @ - 1]} ELSE {})
                 \cup (IF blk.base[8] + N <= 65535 THEN {Addr(blk, N)} ELSE {})
IProbes == UNION {ProbesOf(blk) : blk \in BlockSet}
IMatchRef(list, p) == Match(list, p)
\* reference laws on this universe: union of the listed sets, family-separated; the two readings agree here unless ::/0 is listed
RefLaws == \A v \in IValues, p \in IProbes :
             /\ (Covers(v, p) => Fam(p) = v.fam /\ NumLeq(v.a, p))
             /\ (v.k = "single" => (Covers(v, p) <=> p = v.a))
             /\ (v.k = "cidr" => (Covers(v, p) <=> Fam(p) = v.fam /\ AndMask(p, PLen(v)) = v.a))
             /\ (v # AllV6 => Covers(v, p) = CoversLoose(v, p))
ASSUME RefLaws
\* boundary universe: in every tree shape every answer is acceptable to the reference
Mismatch == {p \in IProbes : \E o \in Lookup(tree, p) : ~AnswerOk(done, p, o)}
LookupAnswerOk == ~stuck => Mismatch = {}
\* diagnostics (kept as CONSTRAINTs for manual runs): print the lists that leave the reference
Report == (~stuck /\ Mismatch # {}) =>
            PrintT(<<"DESIGN", ToJson([list |-> done, tree |-> tree, probes |-> Mismatch, ordered |-> Ordered])>>)
ReportStuck == stuck => PrintT(<<"STUCK", ToJson([list |-> done])>>)
====
