---- MODULE IpAcl ----
(* C42: IP-address ACLs (ACLIP: src, dst, localip ...).
   An address is what Ip::Address stores: 128 bits as 8 big-endian 16-bit limbs; IPv4 a.b.c.d is ::ffff:a.b.c.d.
   A configured value is a record [k, fam, a, b, len]:
     k = "single"     a                      k = "cidr"       a/len       (a has no bits below the mask)
     k = "range"      a-b  (a <= b)          k = "rangecidr"  a-b/len     (a and b have no bits below the mask)
     k = "all" | "ipv4" | "ipv6"             (fam, a, b, len are ignored)
   fam is 4 or 6; len counts bits of the family (0..32 or 0..128).
   P-layer: the reference set semantics.  I-layer: acl_ip_data::FactoryParse/DecodeMask, firstAddress/lastAddress, the
   Acl::SplayInserter<acl_ip_data*> specialisations, aclIpAddrNetworkCompare and the Ip::Address comparison operators of
   src/ip/Address.cc (one order: matchIPAddr), to be plugged into AclSplay. *)
EXTENDS Naturals, Integers, Sequences
Pow2 == <<1, 2, 4, 8, 16, 32, 64, 128, 256, 512, 1024, 2048, 4096, 8192, 16384, 32768, 65536>>
P2(k) == Pow2[k + 1]
Zero8 == <<0, 0, 0, 0, 0, 0, 0, 0>>
Ones8 == <<65535, 65535, 65535, 65535, 65535, 65535, 65535, 65535>>
V4Any == <<0, 0, 0, 0, 0, 65535, 0, 0>>
V4No == <<0, 0, 0, 0, 0, 65535, 65535, 65535>>
IsV4(a) == a[1] = 0 /\ a[2] = 0 /\ a[3] = 0 /\ a[4] = 0 /\ a[5] = 0 /\ a[6] = 65535
Fam(a) == IF IsV4(a) THEN 4 ELSE 6
RECURSIVE LexCmp(_, _, _)
LexCmp(a, b, k) == IF k > 8 THEN 0 ELSE IF a[k] < b[k] THEN 0 - 1 ELSE IF a[k] > b[k] THEN 1 ELSE LexCmp(a, b, k + 1)
NumLeq(a, b) == LexCmp(a, b, 1) <= 0
\* bits of limb i (1..8) that lie inside a prefix of m bits
Keep(m, i) == LET r == m - 16 * (i - 1) IN IF r <= 0 THEN 0 ELSE IF r >= 16 THEN 16 ELSE r
AndMask(a, m) == [i \in 1..8 |-> LET q == P2(16 - Keep(m, i)) IN (a[i] \div q) * q]
OrHost(a, m) == [i \in 1..8 |-> LET q == P2(16 - Keep(m, i)) IN (a[i] \div q) * q + q - 1]
\* prefix length in the 128-bit space
PLen(v) == IF v.fam = 4 THEN v.len + 96 ELSE v.len

\* ---------------- P-layer: the property ----------------
Global(v) == v.k \in {"all", "ipv4", "ipv6"}
\* "given without host bits below the mask"; ranges ascend; endpoints are of the stated family
WellFormed(v) == \/ Global(v)
                 \/ /\ v.fam \in {4, 6} /\ Fam(v.a) = v.fam /\ Fam(v.b) = v.fam
                    /\ v.len <= (IF v.fam = 4 THEN 32 ELSE 128)
                    /\ (v.k = "single" => v.b = v.a)
                    /\ (v.k = "cidr" => v.b = v.a /\ AndMask(v.a, PLen(v)) = v.a)
                    /\ (v.k = "range" => NumLeq(v.a, v.b))
                    /\ (v.k = "rangecidr" => NumLeq(v.a, v.b) /\ AndMask(v.a, PLen(v)) = v.a /\ AndMask(v.b, PLen(v)) = v.b)
Low(v) == v.a
High(v) == IF v.k \in {"cidr", "rangecidr"} THEN OrHost(v.b, PLen(v)) ELSE v.b
InSet(v, p) == NumLeq(Low(v), p) /\ NumLeq(p, High(v))
\* strict reading: an address belongs to a listed set of its own family only
Covers(v, p) == CASE v.k = "all" -> TRUE
                  [] v.k = "ipv4" -> Fam(p) = 4
                  [] v.k = "ipv6" -> Fam(p) = 6
                  [] OTHER -> Fam(p) = v.fam /\ InSet(v, p)
\* loose reading: an IPv4 address also belongs to an IPv6 network that contains its IPv4-mapped form (e.g. ::/0)
CoversLoose(v, p) == Covers(v, p) \/ (~Global(v) /\ InSet(v, p))
Match(values, p) == \E k \in 1..Len(values) : Covers(values[k], p)
MatchLoose(values, p) == \E k \in 1..Len(values) : CoversLoose(values[k], p)
\* the statement does not say which reading is meant: an answer is accepted iff it is right under one of them
AnswerOk(values, p, out) == (Match(values, p) => out) /\ (out => MatchLoose(values, p))

\* ---------------- I-layer: the code ----------------
\* Ip::Address: isAnyAddr (acl_ip_data uses an any-address addr2 for "no second address"), matchIPAddr and the relational
\* operators, which compare by matchIPAddr() only
IsAny(a) == a = Zero8 \/ a = V4Any
MatchIP(a, b) == LexCmp(a, b, 1)
Lt(a, b) == MatchIP(a, b) < 0
Le(a, b) == MatchIP(a, b) <= 0
Gt(a, b) == MatchIP(a, b) > 0
Ge(a, b) == MatchIP(a, b) >= 0
\* acl_ip_data as [a1, a2, m]: m is the prefix length of the contiguous mask (128 = Ip::Address::NoAddr = "no mask")
\* DecodeMask: Ip::Address::applyMask(cidr, family) clears the low (family width - cidr) bits of the all-ones mask
MaskLen(v) == PLen(v)
\* acl_ip_data::FactoryParse
IPrep(v) == CASE v.k = "single" -> [a1 |-> v.a, a2 |-> Zero8, m |-> 128]
              [] v.k = "cidr" -> [a1 |-> AndMask(v.a, MaskLen(v)), a2 |-> Zero8, m |-> MaskLen(v)]
              [] v.k = "range" -> [a1 |-> v.a, a2 |-> v.b, m |-> 128]
              [] v.k = "rangecidr" -> [a1 |-> AndMask(v.a, MaskLen(v)), a2 |-> AndMask(v.b, MaskLen(v)), m |-> MaskLen(v)]
First(q) == IF q.m # 128 THEN AndMask(q.a1, q.m) ELSE q.a1
Last(q) == LET ip == IF IsAny(q.a2) THEN q.a1 ELSE q.a2 IN IF q.m # 128 THEN OrHost(ip, q.m) ELSE ip
\* Acl::SplayInserter<acl_ip_data*>::Compare / IsSubset / MakeCombinedValue
ICompare(a, b) == IF Lt(Last(a), First(b)) THEN 0 - 1 ELSE IF Gt(First(a), Last(b)) THEN 1 ELSE 0
IIsSubset(a, b) == Le(First(b), First(a)) /\ Le(Last(a), Last(b))
StdMin(x, y) == IF Lt(y, x) THEN y ELSE x
StdMax(x, y) == IF Lt(x, y) THEN y ELSE x
ICombine(a, b) == [a1 |-> StdMin(First(a), First(b)), a2 |-> StdMax(Last(a), Last(b)), m |-> 128]
\* aclIpAddrNetworkCompare(probe, q)
ILookupCmp(p, q) == LET A == AndMask(p, q.m) IN
  IF IsAny(q.a2) THEN MatchIP(A, q.a1)
  ELSE IF Ge(A, q.a1) /\ Le(A, q.a2) THEN 0 ELSE MatchIP(A, q.a1)
\* ACLIP::parseGlobal / the head of ACLIP::match
AnyV4(values) == \E k \in 1..Len(values) : values[k].k \in {"all", "ipv4"}
AnyV6(values) == \E k \in 1..Len(values) : values[k].k \in {"all", "ipv6"}
GlobalHit(values, p) == (AnyV4(values) /\ AnyV6(values)) \/ (AnyV4(values) /\ IsV4(p)) \/ (AnyV6(values) /\ ~IsV4(p))
RECURSIVE Stored(_)
\* the values that reach the tree, in configuration order
Stored(values) == IF values = <<>> THEN <<>>
                  ELSE IF Global(Head(values)) THEN Stored(Tail(values)) ELSE <<IPrep(Head(values))>> \o Stored(Tail(values))
====
