INIT Init
NEXT Next
CONSTANTS Top = 15 MaxLen = 2
INVARIANTS ImplIsRef RefIsUnion RefOrderFree
CHECK_DEADLOCK FALSE
