---- MODULE Conf_DomainAcl ----
(* Binding for C41 (function conformance): one case = one configured value list (in order), the host names probed and
   what ACLDomainData::match answered; dump = the in-order contents of the splay tree after parsing (drift information). *)
EXTENDS DomainAcl, AclSplay, ConfLib
Case == Cases[i]
\* reference on pre-lowered sequences (same as DomainAcl!Match; avoids re-lowering every value for every probe)
CoversL(lv, lh) == IF Len(lv) > 0 /\ lv[1] = Dot THEN lh = Tail(lv) \/ EndsWith(lh, lv) ELSE lh = lv
POk(k) == LET lvs == [j \in 1..Len(k.vals) |-> LowerS(k.vals[j])] IN
          /\ ~k.ub
          /\ \A j \in 1..Len(k.probes) :
               LET lh == LowerS(k.probes[j]) IN k.out[j] = (\E v \in 1..Len(lvs) : CoversL(lvs[v], lh))
\* today's exact behaviour: small lists against every tree shape, big lists against the middle-pivot shape
IOk(k) == LET lvs == [j \in 1..Len(k.vals) |-> LowerS(k.vals[j])] IN
          IF Len(lvs) <= 4
          THEN /\ [t |-> k.dump, stuck |-> FALSE] \in Finals(<<>>, lvs)
               /\ \A j \in 1..Len(k.probes) : Lookup(k.dump, k.probes[j]) = {k.out[j]}
          ELSE /\ k.dump = MidBuild(<<>>, lvs)
               /\ \A j \in 1..Len(k.probes) : MidLookup(k.dump, k.probes[j]) = k.out[j]
CaseOk == i > 0 => POk(Case)
ImplOk == i > 0 => IOk(Case)
\* the optimised reference is the reference
ASSUME \A v \in {<<46,97>>, <<97>>, <<65,46,98>>}, h \in {<<97>>, <<120,46,97>>, <<98>>, <<97,46,66>>} :
          Covers(v, h) = CoversL(LowerS(v), LowerS(h))
====
