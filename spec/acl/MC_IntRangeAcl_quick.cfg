INIT Init
NEXT Next
CONSTANTS Top = 4 MaxLen = 3
INVARIANTS ImplIsRef RefIsUnion RefOrderFree
CHECK_DEADLOCK FALSE
