---- MODULE AclTree ----
(* C44, P-layer: access lists decide by first match.
   rules   sequence of [action: "allow" | "deny", lits: sequence of literals]
   literal [neg: BOOLEAN, t: "leaf" | "allof" | "anyof", leaf: base ACL name, name: name of this occurrence,
            lines: sequence of sequences of literals]
           t = "leaf":  the ACL leaf            (lines = <<>>)
           t = "anyof": matches iff some literal of some line matches
           t = "allof": matches iff all literals of some line match (the lines of one all-of ACL are alternatives)
   truth   [base ACL name -> BOOLEAN]
   The decision does not depend on how, when or in which order the leaves obtain their values. *)
EXTENDS Naturals, Sequences
RECURSIVE LitTrue(_, _)
LitTrue(l, truth) ==
  LET v == CASE l.t = "leaf" -> truth[l.leaf]
             [] l.t = "anyof" -> \E a \in 1..Len(l.lines) : \E b \in 1..Len(l.lines[a]) : LitTrue(l.lines[a][b], truth)
             [] l.t = "allof" -> \E a \in 1..Len(l.lines) : \A b \in 1..Len(l.lines[a]) : LitTrue(l.lines[a][b], truth)
  IN IF l.neg THEN ~v ELSE v
\* a rule matches when all its ACLs match, with negations applied (a rule without ACLs matches)
RuleMatches(r, truth) == \A b \in 1..Len(r.lits) : LitTrue(r.lits[b], truth)
Opposite(a) == IF a = "allow" THEN "deny" ELSE "allow"
Matching(rules, truth) == {k \in 1..Len(rules) : RuleMatches(rules[k], truth)}
First(S) == CHOOSE k \in S : \A m \in S : k <= m
\* the action of the first matching rule; else the opposite of the last rule's action; neither for an empty list
Decision(rules, truth) ==
  IF Len(rules) = 0 THEN "dunno"
  ELSE IF Matching(rules, truth) = {} THEN Opposite(rules[Len(rules)].action)
  ELSE rules[First(Matching(rules, truth))].action
====
