---- MODULE Conf_IntRangeAcl ----
(* Binding for C43 (function conformance): one case = one configured token list (in order) with the probes evaluated
   against it and what ACLIntRange::match answered for each. *)
EXTENDS IntRangeAcl, ConfLib
Case == Cases[i]
Values(k) == [j \in 1..Len(k.vals) |-> ParseVal(k.vals[j])]
ProbeVal(p) == Dec(p, Len(p))
POk(k) == /\ ~k.ub
          /\ \A j \in 1..Len(k.vals) : WellFormed(k.vals[j]) /\ ParseVal(k.vals[j]).lo <= ParseVal(k.vals[j]).hi
          /\ \A j \in 1..Len(k.probes) : k.out[j] = Match(Values(k), ProbeVal(k.probes[j]))
\* today's exact behaviour: the stored list is the configured list (no merging), scan with half-open ranges
IOk(k) == /\ Len(k.dump) = Len(k.vals)
          /\ \A j \in 1..Len(k.dump) : ParseVal(k.dump[j]) = ParseVal(k.vals[j])
          /\ \A j \in 1..Len(k.probes) : k.out[j] = IMatch(Build(Values(k)), ProbeVal(k.probes[j]))
CaseOk == i > 0 => POk(Case)
ImplOk == i > 0 => IOk(Case)
====
