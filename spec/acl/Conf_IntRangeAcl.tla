---- MODULE Conf_IntRangeAcl ----
(* Binding for C43 (function conformance): one case = one configured token list (in order) with the probes evaluated
   against it and what ACLIntRange::match answered for each. *)
EXTENDS IntRangeAcl, ConfLib
Case == Cases[i]
Values(k) == [j \in 1..Len(k.vals) |-> ParseVal(k.vals[j])]
ProbeVal(p) == Dec(p, Len(p))
POk(k) == LET vs == Values(k) IN
          /\ ~k.ub
          /\ \A j \in 1..Len(k.vals) : WellFormed(k.vals[j]) /\ vs[j].lo <= vs[j].hi
          /\ \A j \in 1..Len(k.probes) : k.out[j] = Match(vs, ProbeVal(k.probes[j]))
\* today's exact behaviour: the stored list is the configured list (no merging), scan with half-open ranges
IOk(k) == LET vs == Values(k) rs == Build(vs) IN
          /\ Len(k.dump) = Len(k.vals)
          /\ \A j \in 1..Len(k.dump) : ParseVal(k.dump[j]) = vs[j]
          /\ \A j \in 1..Len(k.probes) : k.out[j] = IMatch(rs, ProbeVal(k.probes[j]))
CaseOk == i > 0 => POk(Case)
ImplOk == i > 0 => IOk(Case)
====
