---- MODULE AclSplay ----
(* I-layer shared by DomainAcl and IpAcl: what Acl::SplayInserter<V>::Merge() builds in a Splay<V> and what
   Splay::find() answers at match time.

   The tree is modelled by its in-order sequence of values.  Every operation of include/splay.h (insert, remove, find)
   first splays, i.e. performs a binary search under the caller's comparator; which nodes the search meets depends on the
   shape of the tree, and the shape depends on the whole history of inserts AND lookups (find() splays too).  The model
   therefore lets every search pick any pivot of the current interval: the set of outcomes below covers every shape of a
   binary search tree with this in-order sequence.  With a consistent comparator (the stored values are pairwise ordered
   and every probe is ordered against them) all shapes agree and every set below is a singleton; an inconsistent comparator
   shows up as a lookup that misses a covering value, finds a non-covering one, or as a tree that is not ordered.

   The comparators are operator constants, bound in the MC_/Conf_ .cfg files:
     Cmp(a, b)      SplayInserter<V>::Compare          (insert/remove: value against value)
     IsSub(a, b)    SplayInserter<V>::IsSubset
     Combine(a, b)  SplayInserter<V>::MakeCombinedValue
     LCmp(p, v)     the SPLAYCMP used by match()       (probe against value)                                        *)
EXTENDS Naturals, Integers, Sequences, FiniteSets
CONSTANTS Cmp(_, _), IsSub(_, _), Combine(_, _), LCmp(_, _)

RemoveAt(t, k) == SubSeq(t, 1, k - 1) \o SubSeq(t, k + 1, Len(t))
InsertAt(t, k, x) == SubSeq(t, 1, k - 1) \o <<x>> \o SubSeq(t, k, Len(t))

RECURSIVE SearchI(_, _, _, _)
\* outcomes of splaying for value x in t[lo..hi]: found at position `at`, or absent with in-order insertion point `at`
SearchI(t, x, lo, hi) ==
  IF lo > hi THEN {[found |-> FALSE, at |-> lo]}
  ELSE UNION {LET c == Cmp(x, t[m]) IN
              IF c = 0 THEN {[found |-> TRUE, at |-> m]}
              ELSE IF c < 0 THEN SearchI(t, x, lo, m - 1) ELSE SearchI(t, x, m + 1, hi) : m \in lo..hi}

\* Splay::remove(old): removes whatever node the comparator reports as equal to old; no-op when none is found
RemoveOut(t, old) == {IF r.found THEN RemoveAt(t, r.at) ELSE t : r \in SearchI(t, old, 1, Len(t))}

RECURSIVE MergeOut(_, _, _)
\* the while loop of SplayInserter::Merge(storage, newItem): set of [t: resulting in-order sequence, stuck: loop did not end].
\* fuel bounds the iterations (every iteration but the last removes one stored value, so Len(t) + 1 suffice unless
\* remove() fails to find the value insert() just reported, in which case the real loop never ends)
MergeOut(t, x, fuel) ==
  IF fuel = 0 THEN {[t |-> t, stuck |-> TRUE]}
  ELSE UNION {IF ~r.found THEN {[t |-> InsertAt(t, r.at, x), stuck |-> FALSE]}
              ELSE LET old == t[r.at] IN
                   IF IsSub(x, old) THEN {[t |-> t, stuck |-> FALSE]}                                  \* new value ignored
                   ELSE IF IsSub(old, x) THEN UNION {MergeOut(t2, x, fuel - 1) : t2 \in RemoveOut(t, old)}   \* old value dropped
                   ELSE UNION {MergeOut(t2, Combine(old, x), fuel - 1) : t2 \in RemoveOut(t, old)}   \* partial overlap: merged
              : r \in SearchI(t, x, 1, Len(t))}
Merge(t, x) == MergeOut(t, x, Len(t) + 2)

RECURSIVE Finals(_, _)
\* every tree the configured list (in order) can produce, starting from tree t
Finals(t, list) == IF list = <<>> THEN {[t |-> t, stuck |-> FALSE]}
                   ELSE UNION {IF r.stuck THEN {r} ELSE Finals(r.t, Tail(list)) : r \in Merge(t, Head(list))}

RECURSIVE SearchL(_, _, _, _)
\* Splay::find(probe, LCmp) != nullptr, over every tree shape
SearchL(t, p, lo, hi) ==
  IF lo > hi THEN {FALSE}
  ELSE UNION {LET c == LCmp(p, t[m]) IN
              IF c = 0 THEN {TRUE} ELSE IF c < 0 THEN SearchL(t, p, lo, m - 1) ELSE SearchL(t, p, m + 1, hi) : m \in lo..hi}
Lookup(t, p) == SearchL(t, p, 1, Len(t))

\* --- one fixed shape (always the middle pivot): cheap deterministic variant used on big recorded lists ---
RECURSIVE MidI(_, _, _, _)
MidI(t, x, lo, hi) == IF lo > hi THEN [found |-> FALSE, at |-> lo]
                      ELSE LET m == (lo + hi) \div 2 c == Cmp(x, t[m]) IN
                           IF c = 0 THEN [found |-> TRUE, at |-> m] ELSE IF c < 0 THEN MidI(t, x, lo, m - 1) ELSE MidI(t, x, m + 1, hi)
RECURSIVE MidMerge(_, _, _)
MidMerge(t, x, fuel) ==
  IF fuel = 0 THEN t
  ELSE LET r == MidI(t, x, 1, Len(t)) IN
       IF ~r.found THEN InsertAt(t, r.at, x)
       ELSE LET old == t[r.at] IN
            IF IsSub(x, old) THEN t
            ELSE IF IsSub(old, x) THEN MidMerge(RemoveAt(t, r.at), x, fuel - 1)
            ELSE MidMerge(RemoveAt(t, r.at), Combine(old, x), fuel - 1)
RECURSIVE MidBuild(_, _)
MidBuild(t, list) == IF list = <<>> THEN t ELSE MidBuild(MidMerge(t, Head(list), Len(t) + 2), Tail(list))
RECURSIVE MidL(_, _, _, _)
MidL(t, p, lo, hi) == IF lo > hi THEN FALSE
                      ELSE LET m == (lo + hi) \div 2 c == LCmp(p, t[m]) IN
                           IF c = 0 THEN TRUE ELSE IF c < 0 THEN MidL(t, p, lo, m - 1) ELSE MidL(t, p, m + 1, hi)
MidLookup(t, p) == MidL(t, p, 1, Len(t))
====
