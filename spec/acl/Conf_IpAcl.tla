---- MODULE Conf_IpAcl ----
(* Binding for C42 (function conformance): one case = one configured value list (in order; `vals` is the structured form
   of the squid.conf tokens echoed in `text`), the probe addresses as ACLIP::match() received them (`seen`: the 16 bytes of
   the Ip::Address the driver parsed from the probe text) and what ACLIP::match answered for each. *)
EXTENDS IpAcl, AclSplay, ConfLib
Case == Cases[i]
ToLimbs(b) == [j \in 1..8 |-> b[2 * j - 1] * 256 + b[2 * j]]
POk(k) == /\ ~k.ub
          /\ \A j \in 1..Len(k.vals) : WellFormed(k.vals[j])
          /\ \A j \in 1..Len(k.seen) : Len(k.seen[j]) = 16 /\ AnswerOk(k.vals, ToLimbs(k.seen[j]), k.out[j])
\* today's exact behaviour: small lists against every tree shape, big lists against the middle-pivot shape
IOk(k) == LET st == Stored(k.vals)
              small == Len(st) <= 4
              fin == IF small THEN Finals(<<>>, st) ELSE {}
              mid == IF small THEN <<>> ELSE MidBuild(<<>>, st) IN
          /\ \A r \in fin : ~r.stuck
          /\ \A j \in 1..Len(k.seen) :
               LET p == ToLimbs(k.seen[j]) IN
               IF GlobalHit(k.vals, p) THEN k.out[j]
               ELSE IF small THEN \A r \in fin : Lookup(r.t, p) = {k.out[j]}
               ELSE k.out[j] = MidLookup(mid, p)
CaseOk == i > 0 => POk(Case)
ImplOk == i > 0 => IOk(Case)
====
