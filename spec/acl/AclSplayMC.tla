---- MODULE AclSplayMC ----
(* Design step for the splay-backed ACL data classes: the AclSplay I-layer as a state machine, checked against the
   P-layer reference PMatch after every configured value (I => P). *)
EXTENDS AclSplay
\* --- the design step as a state machine: one configured value is merged per step ---
CONSTANTS SValues,         \* configured values to explore (lists are ordered, repetition allowed)
          SMaxLen,         \* longest configuration list
          Probes,          \* probes evaluated after every step
          PMatch(_, _),    \* P-layer reference: PMatch(list, probe)
          Prep(_)          \* what parse() stores for a configured value (e.g. lower-casing, mask application)
VARIABLES done,            \* the configuration list merged so far (in order)
          tree, stuck
svars == <<done, tree, stuck>>
SInit == done = <<>> /\ tree = <<>> /\ stuck = FALSE
SInsert == /\ Len(done) < SMaxLen /\ ~stuck
           /\ \E v \in SValues : /\ done' = Append(done, v)
                                 /\ \E r \in Merge(tree, Prep(v)) : tree' = r.t /\ stuck' = r.stuck
SNext == SInsert
SSpec == SInit /\ [][SNext]_svars
\* I-layer invariants (what the code relies on)
MergeEnds == ~stuck
Ordered == \A a, b \in 1..Len(tree) : a < b => Cmp(tree[a], tree[b]) < 0 /\ Cmp(tree[b], tree[a]) > 0
\* I => P: after every configuration list, in every tree shape, the lookup is the reference set semantics
LookupIsMatch == ~stuck => \A p \in Probes : Lookup(tree, p) = {PMatch(done, p)}
====
