---- MODULE MC_AclTree ----
(* Design step for C44 and scenario source (T4).  The rule lists come from the ndjson file named by env CFG, one
   configuration per line ({"rules": [...], "leaves": [...], "base": {occurrence -> base leaf}, "two": bool}), written by
   checks/C44.py.  For every configuration every check gets every valuation and every lookup behaviour of every base leaf
   (Modes); the checks are started and their lookups completed in every interleaving.
   I => P: whenever a check is done, its only answer is Decision(rules, truth).  Terminal states are printed as scenarios. *)
EXTENDS AclTreeImpl, FiniteSets, Json, IOUtils
CONSTANTS NChecks, Modes, Twin
Cfgs == ndJsonDeserialize(IOEnv.CFG)
Rules(k) == Cfgs[k].rules
Leaves(k) == {Cfgs[k].leaves[j] : j \in 1..Len(Cfgs[k].leaves)}
VARIABLES g,       \* which configuration
          cks, hist
vars == <<g, cks, hist>>
Flip(t) == [l \in DOMAIN t |-> ~t[l]]
\* Twin: the second check has the complementary valuation and the same lookup behaviour (keeps the 2-check space small);
\* two concurrent checks are explored on the configurations marked "two"
Init == /\ hist = <<>>
        /\ g \in {k \in 1..Len(Cfgs) : NChecks = 1 \/ Cfgs[k].two}
        /\ \E t1 \in [Leaves(g) -> BOOLEAN], m1 \in [Leaves(g) -> Modes] :
             IF NChecks = 1 THEN cks = <<NewCheck(t1, m1)>>
             ELSE IF Twin THEN cks = <<NewCheck(t1, m1), NewCheck(Flip(t1), m1)>>
             ELSE \E t2 \in [Leaves(g) -> BOOLEAN], m2 \in [Leaves(g) -> Modes] : cks = <<NewCheck(t1, m1), NewCheck(t2, m2)>>
Start(c) == cks[c].phase = "idle" /\ cks' = Apply(Rules(g), cks, [op |-> "s", c |-> c]) /\ hist' = Append(hist, [op |-> "s", c |-> c]) /\ UNCHANGED g
Resume(c) == cks[c].phase = "paused" /\ cks' = Apply(Rules(g), cks, [op |-> "r", c |-> c]) /\ hist' = Append(hist, [op |-> "r", c |-> c]) /\ UNCHANGED g
Next == \E c \in 1..NChecks : Start(c) \/ Resume(c)
Spec == Init /\ [][Next]_vars
\* P: the decision of a finished check is the first-match decision; the callback is called once
FirstMatchDecides == \A c \in 1..NChecks : cks[c].phase = "done" => cks[c].answers = <<Decision(Rules(g), cks[c].truth)>>
AnswersOnce == \A c \in 1..NChecks : Len(cks[c].answers) <= 1 /\ (cks[c].phase # "done" => cks[c].answers = <<>>)
\* I: a leaf occurrence is consulted once, or twice when its lookup went asynchronous (no re-evaluation on resume);
\* breadcrumbs exist only while paused
NoReevaluation == \A c \in 1..NChecks : \A n \in DOMAIN Cfgs[g].base :
                     Cardinality({k \in 1..Len(cks[c].w.log) : cks[c].w.log[k] = Ev("eval", n)}) <= (IF n \in cks[c].w.answered /\ cks[c].mode[Cfgs[g].base[n]] = "a" THEN 2 ELSE 1)
CrumbsOnlyWhilePaused == \A c \in 1..NChecks : (cks[c].phase = "paused") = (cks[c].path # <<>>)
Terminal == \A c \in 1..NChecks : cks[c].phase = "done"
DumpScenario == Terminal => PrintT(<<"SCEN", ToJson([g |-> g, ops |-> hist,
                   checks |-> [c \in 1..NChecks |-> [truth |-> cks[c].truth, mode |-> cks[c].mode, answers |-> cks[c].answers, log |-> cks[c].w.log]]])>>)
====
