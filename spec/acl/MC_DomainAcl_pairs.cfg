SPECIFICATION SSpec
CONSTANTS
  LabelSet <- L4
  ValLabels = 2
  ProbeLabels = 2
  SMaxLen = 2
  Cmp <- DCompare
  IsSub <- DIsSubset
  Combine <- DCombine
  LCmp <- DLookupCmp
  SValues <- DValues
  Probes <- DProbes
  PMatch <- DMatch
  Prep <- DPrep
INVARIANTS MergeEnds Ordered LookupIsMatch
CHECK_DEADLOCK FALSE
