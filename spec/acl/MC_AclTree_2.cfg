SPECIFICATION Spec
CONSTANTS
  NChecks = 2
  Modes = {"s", "a"}
  Twin = TRUE
INVARIANTS FirstMatchDecides AnswersOnce NoReevaluation CrumbsOnlyWhilePaused
CONSTRAINT DumpScenario
CHECK_DEADLOCK FALSE
