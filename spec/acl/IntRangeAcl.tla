---- MODULE IntRangeAcl ----
(* C43: integer-range ACLs (ACLIntRange: port, localport, ... ACL data).
   A configured value is the byte string of one squid.conf token: DIGITS or DIGITS "-" DIGITS (first <= second,
   both in 0..65535).  P-layer: the reference set semantics.  I-layer: what ACLIntRange::parse builds (a list of
   half-open Range<int> [start, end) in configuration order) and how ACLIntRange::match scans it. *)
EXTENDS Naturals, Integers, Sequences

Dash == 45
IsDigit(b) == b >= 48 /\ b <= 57
RECURSIVE Dec(_, _)
\* value of the decimal digit string s[1..n]
Dec(s, n) == IF n = 0 THEN 0 ELSE Dec(s, n - 1) * 10 + (s[n] - 48)
RECURSIVE DashPos(_, _)
DashPos(s, k) == IF k > Len(s) THEN 0 ELSE IF s[k] = Dash THEN k ELSE DashPos(s, k + 1)
AllDigits(s) == Len(s) > 0 /\ Len(s) <= 9 /\ \A k \in 1..Len(s) : IsDigit(s[k])
\* token -> [lo, hi]; only well-formed tokens are ever configured by the check (squid refuses the others at startup)
WellFormed(tok) == LET d == DashPos(tok, 1) IN
  IF d = 0 THEN AllDigits(tok) ELSE AllDigits(SubSeq(tok, 1, d - 1)) /\ AllDigits(SubSeq(tok, d + 1, Len(tok)))
ParseVal(tok) == LET d == DashPos(tok, 1) IN
  IF d = 0 THEN [lo |-> Dec(tok, Len(tok)), hi |-> Dec(tok, Len(tok))]
  ELSE [lo |-> Dec(SubSeq(tok, 1, d - 1), d - 1), hi |-> Dec(SubSeq(tok, d + 1, Len(tok)), Len(tok) - d)]

\* ---------------- P-layer: the property ----------------
Covers(v, n) == v.lo <= n /\ n <= v.hi
\* values: sequence of [lo, hi] in configuration order (order and duplicates are irrelevant to the reference)
Match(values, n) == \E k \in 1..Len(values) : Covers(values[k], n)

\* ---------------- I-layer: the code ----------------
Max2(a, b) == IF a > b THEN a ELSE b
Min2(a, b) == IF a < b THEN a ELSE b
\* ACLIntRange::parse: RangeType temp(port1, port2 + 1); ranges.push_back(temp)
Build(values) == [k \in 1..Len(values) |-> [start |-> values[k].lo, end |-> values[k].hi + 1]]
\* Range::intersection + Range::size
InterSize(r, s) == LET st == Max2(r.start, s.start) en == Min2(r.end, s.end) IN IF en > st THEN en - st ELSE 0
\* ACLIntRange::match(i): scan in order, stop at the first element whose intersection with [i, i+1) is not empty
IMatch(ranges, n) == \E k \in 1..Len(ranges) : InterSize(ranges[k], [start |-> n, end |-> n + 1]) > 0
====
