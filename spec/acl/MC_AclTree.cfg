SPECIFICATION Spec
CONSTANTS
  NChecks = 1
  Modes = {"s", "a", "n"}
  Twin = FALSE
INVARIANTS FirstMatchDecides AnswersOnce NoReevaluation CrumbsOnlyWhilePaused
CONSTRAINT DumpScenario
CHECK_DEADLOCK FALSE
