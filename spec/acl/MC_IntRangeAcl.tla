---- MODULE MC_IntRangeAcl ----
(* Design step for C43: I => P.  For every list of at most MaxLen ranges over 0..Top, in every order (lists are ordered and
   may repeat), and every probe in 0..Top+1, the code-shaped scan answers exactly the reference set semantics; plus the
   algebraic laws of the reference (order/duplicate independence, union). *)
EXTENDS IntRangeAcl, TLC
CONSTANTS Top, MaxLen
Vals == {[lo |-> a, hi |-> b] : a \in 0..Top, b \in 0..Top} \ {v \in [lo : 0..Top, hi : 0..Top] : v.lo > v.hi}
Lists == UNION {[1..n -> Vals] : n \in 0..MaxLen}
VARIABLE list
Init == list \in Lists
Next == UNCHANGED list
Probes == 0..(Top + 1)
ImplIsRef == \A n \in Probes : IMatch(Build(list), n) = Match(list, n)
\* reference laws: membership in the union of the ranges; independent of order and repetition
RefIsUnion == \A n \in Probes : Match(list, n) = (n \in UNION {v.lo..v.hi : v \in {list[k] : k \in 1..Len(list)}})
Rev(s) == [k \in 1..Len(s) |-> s[Len(s) + 1 - k]]
RefOrderFree == \A n \in Probes : Match(list, n) = Match(Rev(list), n) /\ Match(list \o list, n) = Match(list, n)
\* token syntax round trip on a few shapes
ASSUME ParseVal(<<56, 48>>) = [lo |-> 80, hi |-> 80]
ASSUME ParseVal(<<48, 48, 55, 45, 54, 53, 53, 51, 53>>) = [lo |-> 7, hi |-> 65535]
ASSUME WellFormed(<<49, 45, 50>>) /\ ~WellFormed(<<49, 45>>) /\ ~WellFormed(<<45, 49>>) /\ ~WellFormed(<<49, 120>>)
====
