SPECIFICATION Spec
INVARIANT BypassEarlyIsVirgin
CONSTRAINT Dump
CHECK_DEADLOCK FALSE
