---- MODULE HopScen ----
(* Scenario generator for C04: shape of the Connection header(s) that nominate extension fields. *)
EXTENDS Naturals, FiniteSets, TLC, Json
VARIABLES par, done
vars == <<par, done>>
Init == /\ par \in [dir : {"req", "resp"}, nominated : {s \in SUBSET {"A", "B", "C"} : TRUE}, case : {"lower", "upper", "mixed"},
                    ows : {"none", "sp", "tab"}, empties : BOOLEAN, split : BOOLEAN, before : BOOLEAN, dup : BOOLEAN]
        /\ done = FALSE
Next == ~done /\ done' = TRUE /\ UNCHANGED par
Spec == Init /\ [][Next]_vars
Dump == done => PrintT(<<"SCEN", ToJson([par |-> par])>>)
====
