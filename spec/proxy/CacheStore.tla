---- MODULE CacheStore ----
(* P-layer for C11: responses forbidden to be stored are never served from cache.
   A response version v is produced by the origin in answer to a forwarded request id; serving v to a later request
   without contacting the origin is allowed only if v was sent without no-store/private, did not answer a request
   with no-store, and - if the request carried Authorization - allows shared caching (public, must-revalidate, s-maxage). *)
EXTENDS Naturals, Integers, FiniteSets
VARIABLES vers, contacted, reqs
svars == <<vers, contacted, reqs>>
NoVal == 0 - 1
SInit == vers = <<>> /\ contacted = {} /\ reqs = <<>>
Ext(f, k, v) == [x \in DOMAIN f \cup {k} |-> IF x = k THEN v ELSE f[x]]
Req(id, rnostore, auth) == reqs' = Ext(reqs, id, [nostore |-> rnostore, auth |-> auth]) /\ UNCHANGED <<vers, contacted>>
Fwd(id) == contacted' = contacted \cup {id} /\ UNCHANGED <<vers, reqs>>
OResp(id, v, nostore, private, shared) ==
  /\ vers' = Ext(vers, v, [nostore |-> nostore, private |-> private, shared |-> shared,
                           reqNoStore |-> reqs[id].nostore, reqAuth |-> reqs[id].auth])
  /\ UNCHANGED <<contacted, reqs>>
Storable(m) == ~m.nostore /\ ~m.private /\ ~m.reqNoStore /\ (m.reqAuth => m.shared)
CResp(id, hv) ==
  /\ (IF id \in contacted \/ hv = NoVal \/ hv \notin DOMAIN vers THEN TRUE ELSE Storable(vers[hv]))
  /\ UNCHANGED svars
====
