---- MODULE Trace_Pipeline ----
EXTENDS Pipeline, TraceLib
VARIABLES h, l
TInit == PInit /\ h \in 1..NHist /\ l = 1
Ev == Events(h)[l]
Adv == l' = l + 1 /\ h' = h
More == l <= Len(Events(h))
TSent == More /\ Ev.e = "Sent" /\ Sent(Ev.keys) /\ Adv
TResp == More /\ Ev.e = "Resp" /\ Resp(Ev.tag, Ev.bodyOk) /\ Adv
TEnd == More /\ Ev.e = "End" /\ End(Ev.openIdle) /\ Adv
TNext == TSent \/ TResp \/ TEnd
Mark == MarkAccepted(h, l)
====
