---- MODULE MgrScen ----
(* Scenario generator for C61: per-action password settings and the http_access choice; TLC also checks on the
   reference that "disable" beats any supplied password and that an empty supplied password never satisfies a secret. *)
EXTENDS Mgr, TLC, Json
Settings == {"absent", "none", "disable", "secret", "viaAll"}
VARIABLES par, done
vars == <<par, done>>
Init == par \in [access : BOOLEAN, info : Settings, config : Settings, counters : Settings] /\ done = FALSE
Next == ~done /\ done' = TRUE /\ UNCHANGED par
Spec == Init /\ [][Next]_vars
Entry(a, s) == IF s = "none" THEN <<[pw |-> "none", actions |-> {a}]>> ELSE IF s = "disable" THEN <<[pw |-> "disable", actions |-> {a}]>>
               ELSE IF s = "secret" THEN <<[pw |-> "s3cret-" \o a, actions |-> {a}]>> ELSE <<>>
CfgOf == Entry("info", par.info) \o Entry("config", par.config) \o Entry("counters", par.counters)
         \o (IF "viaAll" \in {par.info, par.config, par.counters} THEN <<[pw |-> "allpw", actions |-> {"all"}]>> ELSE <<>>)
DisableWins == \A a \in {"info", "config", "counters"} : \A sup \in {"", "allpw", "s3cret-" \o a, "disable"} :
                 Lookup(CfgOf, a, 1) = "disable" => ~PasswordOk(CfgOf, a, sup)
EmptyNeverMatches == \A a \in {"info", "config", "counters"} : Lookup(CfgOf, a, 1) \notin {"<null>", "none", "disable"} => ~PasswordOk(CfgOf, a, "")
Dump == done => PrintT(<<"SCEN", ToJson([par |-> par])>>)
====
