---- MODULE Hits ----
(* P-layer for C10 (also used by C19): every response Squid delivers that carries an origin version marker has the
   status, the end-to-end header marker and the body bytes of exactly ONE response the origin previously sent for that
   cache key; a body presented as complete has that version's full length; two versions are never mixed; and an answer
   taken from the cache (a hit, or a stored response confirmed by a 304) whose version the origin had sent completely is
   delivered completely. *)
EXTENDS Naturals, Integers, FiniteSets
VARIABLES vers
hvars == <<vers>>
NoVal == 0 - 1
HInit == vers = <<>>
Ext(f, k, v) == [x \in DOMAIN f \cup {k} |-> IF x = k THEN v ELSE f[x]]
\* the origin starts sending version v for key: status, full body length; whole = it finished sending it
\* whole: the origin sends all len bytes (FALSE: it drops the connection in the middle)
OResp(v, key, status, len, whole) == vers' = Ext(vers, v, [key |-> key, status |-> status, len |-> len, whole |-> whole])
\* hv: version named by the response headers (NoVal: Squid-generated reply); bv: version of the body bytes (NoVal: no body)
\* canary: value of the end-to-end marker header (must equal hv)
OneVersion(key, status, hv, bv, canary, blen, intact, complete) ==
  hv # NoVal =>
    /\ hv \in DOMAIN vers
    /\ vers[hv].key = key
    /\ status = vers[hv].status
    /\ canary = hv
    /\ bv \in {hv, NoVal}
    /\ intact
    /\ blen <= vers[hv].len
    /\ (complete => blen = vers[hv].len)
\* fromCache: Squid says it answered from the cache (Cache-Status hit, or a revalidation answered 304)
CResp(key, status, hv, bv, canary, blen, intact, complete, fromCache) ==
  /\ OneVersion(key, status, hv, bv, canary, blen, intact, complete)
  /\ (fromCache /\ hv # NoVal /\ hv \in DOMAIN vers /\ vers[hv].whole) => complete
  /\ UNCHANGED vers
====
