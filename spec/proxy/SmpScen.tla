---- MODULE SmpScen ----
(* I-layer / scenario generator for C19: one URL, W workers; operations go through a chosen worker.  The shared index
   holds at most one complete version; a reload replaces it; an invalidation (successful POST) through any worker removes
   it for all.  TLC explores all operation sequences up to MaxOps, checks that after an invalidation no worker's view
   still holds the old version, and dumps the sequences. *)
EXTENDS Naturals, Sequences, TLC, Json
CONSTANTS W, MaxOps
\* slowabort: like getslow (a reader on another worker attaches while the body arrives), but the origin drops the
\* connection in the middle of the body: that version is never complete, nobody may present it as complete
\* reval: a forced revalidation through worker w answered 304 with a larger header block (the shared entry's headers are
\* rewritten), then a get through the other worker
\* purgeslow: PURGE through worker w while a slow client of the OTHER worker is still receiving the cached entry
Ops == {"get", "getslow", "reload", "post", "pair", "slowabort", "reval", "purgeslow"}
VARIABLES shared, nextv, lastInval, hist
vars == <<shared, nextv, lastInval, hist>>
Init == shared = 0 /\ nextv = 1 /\ lastInval = 0 /\ hist = <<>>
Do(op, w) ==
  /\ Len(hist) < MaxOps /\ hist' = Append(hist, <<op, w>>)
  /\ CASE op \in {"get", "getslow", "pair", "reval"} -> IF shared = 0 THEN shared' = nextv /\ nextv' = nextv + 1 /\ UNCHANGED lastInval ELSE UNCHANGED <<shared, nextv, lastInval>>
       [] op = "slowabort" -> IF shared = 0 THEN nextv' = nextv + 1 /\ UNCHANGED <<shared, lastInval>> ELSE UNCHANGED <<shared, nextv, lastInval>>
       [] op = "reload" -> shared' = nextv /\ nextv' = nextv + 1 /\ UNCHANGED lastInval
       [] op \in {"post", "purgeslow"} -> shared' = 0 /\ lastInval' = nextv /\ nextv' = nextv + 1
Next == \E op \in Ops, w \in 1..W : Do(op, w)
Spec == Init /\ [][Next]_vars
NoStaleAfterInval == shared = 0 \/ shared >= lastInval
View == <<shared, nextv, lastInval, Len(hist), IF Len(hist) > 0 THEN hist[Len(hist)] ELSE <<>>>>
Dump == Len(hist) = MaxOps => PrintT(<<"SCEN", ToJson([ops |-> hist])>>)
====
