---- MODULE Auth ----
(* P-layer for C46: with proxy_auth required, a request is forwarded only if it carries credentials the helper accepts
   (pw = "good" in every scenario), anything else gets 407 and is not forwarded, and a request is never logged under
   an identity other than that of its own credentials. *)
EXTENDS Naturals, FiniteSets
VARIABLES reqs, fwd
avars == <<reqs, fwd>>
AInit == reqs = <<>> /\ fwd = {}
Ext(f, k, v) == [x \in DOMAIN f \cup {k} |-> IF x = k THEN v ELSE f[x]]
\* user = "" when the request names no user (absent/garbled credentials, unknown scheme); pw = "" when no usable password
Req(id, user, pw) == reqs' = Ext(reqs, id, [user |-> user, pw |-> pw]) /\ UNCHANGED fwd
Valid(r) == r.user # "" /\ r.pw = "good"
Fwd(id) == Valid(reqs[id]) /\ fwd' = fwd \cup {id} /\ UNCHANGED reqs
\* un: the user name Squid logged for the transaction ("-" none)
CResp(id, status, un) ==
  /\ (status = 407 => id \notin fwd)
  /\ (~Valid(reqs[id]) => status = 407 \/ status = 0)          \* 0: no response (connection closed)
  /\ un \in {"-", reqs[id].user}
  /\ UNCHANGED avars
====
