---- MODULE AccessScen ----
(* Exhaustive small family for C45: every http_access section of one or two rules with one literal each over the ACL
   library (TLC enumerates them and checks two laws of the reference: an explicit final "deny all"/"allow all" makes the
   implicit default unreachable; decisions are total). *)
EXTENDS Access, TLC, Json
CONSTANTS Acls
Rule1 == [action : {"allow", "deny"}, lits : {<<[acl |-> a, neg |-> n]>> : a \in Acls, n \in BOOLEAN}]
Reqs == [src : {"127.0.0.1", "127.0.0.2"}, dstip : {"127.0.0.1", "127.0.0.2", "127.0.0.3"}, host : {"h1.a.test", "h2.b.test", "h3.b.test"},
         port : 1..3, method : {"GET", "POST", "PUT", "FOO"}]
VARIABLES cfg, done
vars == <<cfg, done>>
Init == cfg \in ({<<r>> : r \in Rule1} \cup {<<r, s>> : r \in Rule1, s \in Rule1}) /\ done = FALSE
Next == ~done /\ done' = TRUE /\ UNCHANGED cfg
Spec == Init /\ [][Next]_vars
Total == \A r \in Reqs : Decision(cfg, r) \in {"allow", "deny"}
FinalAllDecides == (cfg[Len(cfg)].lits[1].acl = "all" /\ ~cfg[Len(cfg)].lits[1].neg) =>
                   \A r \in Reqs : (\A k \in 1..(Len(cfg) - 1) : ~RuleMatches(cfg[k], r)) => Decision(cfg, r) = cfg[Len(cfg)].action
Dump == done => PrintT(<<"SCEN", ToJson([rules |-> cfg])>>)
====
