---- MODULE Tunnel ----
(* P-layer for C06: a CONNECT tunnel after Squid's 200.  Per direction d in {"c2s", "s2c"}: sent[d] bytes were written by
   the sending peer; the receiving peer's bytes must always be an intact prefix of them (nothing inserted, altered or
   reordered).  When a side closes after writing n bytes, the other side receives all n before it sees EOF. *)
EXTENDS Naturals, Integers
VARIABLES sent, closedFirst
tvars == <<sent, closedFirst>>
TInit0 == sent = [c2s |-> 0, s2c |-> 0] /\ closedFirst = "none"
Wrote(d, n) == sent' = [sent EXCEPT ![d] = @ + n] /\ UNCHANGED closedFirst
\* side "c" or "s" closes its connection (first closer is remembered)
Closed(side) == closedFirst' = (IF closedFirst = "none" THEN side ELSE closedFirst) /\ UNCHANGED sent
\* final observation of the receiver of direction d: len bytes received, all equal to the sender's bytes at the same
\* offsets (intact), sawEof
Received(d, len, intact, sawEof) ==
  /\ intact /\ len <= sent[d]
  /\ LET sender == IF d = "c2s" THEN "c" ELSE "s" IN
     (closedFirst = sender /\ sawEof) => len = sent[d]      \* everything the closing side wrote is delivered before EOF
  /\ UNCHANGED tvars
====
