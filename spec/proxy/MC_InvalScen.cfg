SPECIFICATION Spec
INVARIANT ImplRefinesP
CONSTRAINT Dump
CHECK_DEADLOCK FALSE
