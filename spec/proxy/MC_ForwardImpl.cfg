SPECIFICATION Spec
INVARIANT AtMostOnce
CONSTRAINT Dump
CHECK_DEADLOCK FALSE
