SPECIFICATION Spec
CONSTANTS Acls = {"src1", "src23", "dst2", "dst13", "domB", "domH1", "port1", "port23", "methPP", "methG", "all"}
INVARIANTS Total FinalAllDecides
CONSTRAINT Dump
CHECK_DEADLOCK FALSE
