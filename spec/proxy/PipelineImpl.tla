---- MODULE PipelineImpl ----
(* I-layer / scenario generator for C05 (Pipeline.cc, ConnStateData): a per-connection FIFO of streams; Squid parses ahead
   up to the prefetch limit; upstream transactions complete in any order; only the front stream may write; when it
   finishes the next one is kicked.  TLC explores all completion orders for N requests, checks that the written order is
   the request order, and dumps (kinds, completion order) as scenario classes. *)
EXTENDS Naturals, Sequences, FiniteSets, TLC, Json
CONSTANTS N, Prefetch
Kinds == {"miss", "hit", "head", "post"}
VARIABLES kinds, parsed, completed, written, order
vars == <<kinds, parsed, completed, written, order>>
Init == kinds \in [1..N -> Kinds] /\ parsed = 0 /\ completed = {} /\ written = <<>> /\ order = <<>>
\* parse the next request when the number of unfinished parsed streams is within the prefetch limit
Parse == parsed < N /\ (parsed - Len(written)) <= Prefetch /\ parsed' = parsed + 1 /\ UNCHANGED <<kinds, completed, written, order>>
Complete(i) == i <= parsed /\ i \notin completed /\ completed' = completed \cup {i} /\ order' = Append(order, i) /\ UNCHANGED <<kinds, parsed, written>>
\* only the front of the pipeline writes
Write == LET i == Len(written) + 1 IN i <= N /\ i \in completed /\ written' = Append(written, i) /\ UNCHANGED <<kinds, parsed, completed, order>>
Next == Parse \/ (\E i \in 1..N : Complete(i)) \/ Write
Spec == Init /\ [][Next]_vars
InOrder == \A k \in 1..Len(written) : written[k] = k
Dump == Len(written) = N => PrintT(<<"SCEN", ToJson([kinds |-> kinds, order |-> order])>>)
====
