---- MODULE Robust ----
(* P-layer for C09 / C39 (behavioural part): Squid never exits or aborts, every adversarial connection ends with an HTTP
   response or a close (after Squid's own timeouts have been allowed to expire), and ordinary transactions keep being
   served.  Memory errors are made observable as an exit by the sanitizer build (thorough tier). *)
EXTENDS Naturals
VARIABLES alive, served
rvars == <<alive, served>>
RInit == alive = TRUE /\ served = 0
\* outcome of one adversarial connection or datagram burst: "response" | "close" | "hang"
Adversarial(outcome) == alive /\ outcome \in {"response", "close", "none"} /\ UNCHANGED rvars
\* an ordinary probe transaction issued afterwards
Probe(ok, stillAlive) == stillAlive /\ ok /\ alive' = stillAlive /\ served' = served + 1
====
