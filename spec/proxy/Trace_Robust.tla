---- MODULE Trace_Robust ----
EXTENDS Robust, TraceLib
VARIABLES h, l
TInit == RInit /\ h \in 1..NHist /\ l = 1
Ev == Events(h)[l]
Adv == l' = l + 1 /\ h' = h
More == l <= Len(Events(h))
TA == More /\ Ev.e = "Adversarial" /\ Adversarial(Ev.outcome) /\ Adv
TP == More /\ Ev.e = "Probe" /\ Probe(Ev.ok, Ev.alive) /\ Adv
TNext == TA \/ TP
Mark == MarkAccepted(h, l)
====
