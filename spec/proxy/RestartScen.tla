---- MODULE RestartScen ----
(* I-layer / scenario generator for C17/C16: histories of store / overwrite / purge over two keys before the stop. *)
EXTENDS Naturals, Sequences, TLC, Json
CONSTANTS MaxOps
Ops == {"store", "overwrite", "purge"}
VARIABLES have, hist
vars == <<have, hist>>
Init == have = [a |-> 0, b |-> 0] /\ hist = <<>>
Do(op, k) == /\ Len(hist) < MaxOps /\ hist' = Append(hist, <<op, k>>)
             /\ have' = [have EXCEPT ![k] = IF op = "purge" THEN 0 ELSE Len(hist) + 1]
Next == \E op \in Ops, k \in {"a", "b"} : Do(op, k)
Spec == Init /\ [][Next]_vars
TypeOK == have.a <= MaxOps /\ have.b <= MaxOps
View == <<have, Len(hist), IF Len(hist) > 0 THEN hist[Len(hist)] ELSE <<>>>>
Dump == Len(hist) = MaxOps => PrintT(<<"SCEN", ToJson([ops |-> hist, have |-> have])>>)
====
