SPECIFICATION Spec
CONSTANTS MaxUnits = 3
INVARIANTS Prefix CompleteIsWhole AbortVisible
CONSTRAINT Dump
CHECK_DEADLOCK FALSE
