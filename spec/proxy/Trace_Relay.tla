---- MODULE Trace_Relay ----
(* One history = one transaction: [e |-> "Produce", ...] then [e |-> "Consume", ...]. *)
EXTENDS Relay, TraceLib
VARIABLES h, l
TInit == RInit /\ h \in 1..NHist /\ l = 1
Ev == Events(h)[l]
TProduce == /\ l <= Len(Events(h)) /\ Ev.e = "Produce"
            /\ Produce(Ev.status, Ev.framing, Ev.full, Ev.len, Ev.fin) /\ l' = l + 1 /\ h' = h
TConsume == /\ l <= Len(Events(h)) /\ Ev.e = "Consume"
            /\ Consume(Ev.status, Ev.framing, Ev.declared, Ev.len, Ev.intact, Ev.complete, Ev.squidError, Ev.cver) /\ l' = l + 1 /\ h' = h
TNext == TProduce \/ TConsume
Mark == MarkAccepted(h, l)
====
