---- MODULE Access ----
(* P-layer for C45: reference first-match evaluation of http_access over src, dst, dstdomain, port and method ACLs.
   A rule is [action, lits] with lits a sequence of [acl, neg]; a rule matches when all its literals hold; the first
   matching rule decides; when none matches the decision is the opposite of the last rule's action (deny for an empty
   list).  The ACL library is fixed (the driver writes the same definitions into squid.conf). *)
EXTENDS Naturals, Sequences
\* request: [src, dstip, host, port (1..3), method]
IsSuffix(h, d) == \* d is ".b.test" style: host equals the domain or ends with it (hosts are from a tiny universe)
  CASE d = ".b.test" -> h \in {"h2.b.test", "h3.b.test"}
    [] d = ".a.test" -> h \in {"h1.a.test"}
    [] OTHER -> FALSE
AclHolds(a, r) ==
  CASE a = "src1"   -> r.src = "127.0.0.1"
    [] a = "src23"  -> r.src \in {"127.0.0.2", "127.0.0.3"}
    [] a = "dst2"   -> r.dstip = "127.0.0.2"
    [] a = "dst13"  -> r.dstip \in {"127.0.0.1", "127.0.0.3"}
    [] a = "domB"   -> IsSuffix(r.host, ".b.test")
    [] a = "domH1"  -> r.host = "h1.a.test"
    [] a = "port1"  -> r.port = 1
    [] a = "port23" -> r.port \in {2, 3}
    [] a = "methPP" -> r.method \in {"POST", "PUT"}
    [] a = "methG"  -> r.method = "GET"
    [] a = "all"    -> TRUE
LitHolds(l, r) == IF l.neg THEN ~AclHolds(l.acl, r) ELSE AclHolds(l.acl, r)
RuleMatches(rule, r) == \A i \in 1..Len(rule.lits) : LitHolds(rule.lits[i], r)
Opposite(a) == IF a = "allow" THEN "deny" ELSE "allow"
RECURSIVE FirstMatch(_, _, _)
FirstMatch(rules, r, i) ==
  IF i > Len(rules) THEN (IF Len(rules) = 0 THEN "deny" ELSE Opposite(rules[Len(rules)].action))
  ELSE IF RuleMatches(rules[i], r) THEN rules[i].action ELSE FirstMatch(rules, r, i + 1)
Decision(rules, r) == FirstMatch(rules, r, 1)
\* the property: forwarded exactly when allowed; denied => 403 and never at the origin
AccessOk(rules, r, forwarded, status) ==
  IF Decision(rules, r) = "allow" THEN forwarded /\ status = 200
  ELSE ~forwarded /\ status = 403
====
