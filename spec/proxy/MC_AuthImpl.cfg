SPECIFICATION Spec
CONSTANTS Reqs = {1, 2, 3, 4}  Pw = {"good", "bad", "worse"}  Good = "good"  OwnLookup = TRUE
INVARIANTS OnlyValidForwarded ValidNotDenied
CONSTRAINT Dump
VIEW View
CHECK_DEADLOCK FALSE
