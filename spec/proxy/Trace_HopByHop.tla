---- MODULE Trace_HopByHop ----
EXTENDS HopByHop, TraceLib, Sequences
VARIABLES h, l
TInit == HInit /\ h \in 1..NHist /\ l = 1
Ev == Events(h)[l]
ToSet(s) == {s[i] : i \in 1..Len(s)}
TSent == l <= Len(Events(h)) /\ Ev.e = "Sent" /\ Sent(Ev.fields) /\ l' = l + 1 /\ h' = h
TSeen == l <= Len(Events(h)) /\ Ev.e = "Seen" /\ Seen(ToSet(Ev.canaries), Ev.teOk) /\ l' = l + 1 /\ h' = h
TNext == TSent \/ TSeen
Mark == MarkAccepted(h, l)
====
