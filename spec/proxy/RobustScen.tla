---- MODULE RobustScen ----
(* Scenario generator for C09: where in an HTTP/1 message the damage is done (the stages of the request / response /
   chunked-body parsers) and which class of offending bytes is used there; one input stream per (side, stage, class).
   This is the error-transition table of the syntax modules turned into inputs. *)
EXTENDS Naturals, TLC, Json
Stages == {"method", "sp1", "target", "sp2", "version", "eol", "fieldname", "colon", "fieldvalue", "fieldeol", "endofhead", "chunksize", "chunkext", "chunkdata", "chunkeol", "lastchunk", "trailer",
           "statusline", "statuscode", "reason", "clvalue", "tevalue"}
Classes == {"nul", "ctl", "highbit", "space", "tab", "cr", "lf", "colon", "digitoverflow", "negative", "huge", "empty", "truncate", "duplicate", "longtoken", "percent", "quote"}
VARIABLES par, done
vars == <<par, done>>
Init == par \in [side : {"client", "origin"}, stage : Stages, cls : Classes] /\ done = FALSE
        /\ (par.side = "client" => par.stage \notin {"statusline", "statuscode", "reason"})
        /\ (par.side = "origin" => par.stage \notin {"method", "sp1", "target", "sp2"})
Next == ~done /\ done' = TRUE /\ UNCHANGED par
Spec == Init /\ [][Next]_vars
Dump == done => PrintT(<<"SCEN", ToJson([par |-> par])>>)
====
