---- MODULE RobustScen ----
(* Scenario generator for C09: where in an HTTP/1 message the damage is done (the stages of the request / response /
   chunked-body parsers) and which class of offending bytes is used there; one input stream per (side, stage, class).
   This is the error-transition table of the syntax modules turned into inputs. *)
EXTENDS Naturals, TLC, Json
Stages == {"method", "sp1", "target", "sp2", "version", "eol", "fieldname", "colon", "fieldvalue", "fieldeol", "endofhead", "chunksize", "chunkext", "chunkdata", "chunkeol", "lastchunk", "trailer",
           "statusline", "statuscode", "reason", "clvalue", "tevalue"}
Classes == {"nul", "ctl", "highbit", "space", "tab", "cr", "lf", "colon", "digitoverflow", "negative", "huge", "empty", "truncate", "duplicate", "longtoken", "percent", "quote"}
VARIABLES par, done
vars == <<par, done>>
\* syntactically well-formed origin responses whose header VALUES are extreme or contradictory (times, ages, lengths); each is requested
\* twice, the second time after the clock moved, so that whatever was stored is used again
Semantic == {"age_max", "age_over", "age_neg", "age_max_nodate", "date_future", "date_1970", "date_garbage", "expires_nodate", "expires_garbage",
             "lm_future", "maxage_over", "smaxage_neg", "cl_zero_body", "vary_long", "etag_long", "many_fields", "status_999", "status_100_only"}
\* volume: well-formed but large bodies against a peer that reads late behind a small window, so that every buffer on the way fills to the brim
Volume == {"chunked_8k_chunks", "chunked_odd_chunks", "chunked_random_chunks", "length_body", "chunked_one_byte_chunks"}
Init == par \in [side : {"client", "origin"}, stage : Stages, cls : Classes] \cup [side : {"origin"}, stage : {"semantic"}, cls : Semantic]
               \cup [side : {"client"}, stage : {"volume"}, cls : Volume] /\ done = FALSE
        /\ (par.side = "client" => par.stage \notin {"statusline", "statuscode", "reason"})
        /\ (par.side = "origin" => par.stage \notin {"method", "sp1", "target", "sp2"})
Next == ~done /\ done' = TRUE /\ UNCHANGED par
Spec == Init /\ [][Next]_vars
Dump == done => PrintT(<<"SCEN", ToJson([par |-> par])>>)
====
