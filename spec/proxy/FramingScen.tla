---- MODULE FramingScen ----
(* Scenario generator for C03: the catalogue of framing anomalies with the dispositions RFC 9112 admits for each
   ("reject" = 400/501 and close; "cl" = body delimited by the single decimal Content-Length; "te" = body delimited by
   chunked coding), the position of the anomalous message in a pipeline, whether a request-shaped payload follows the
   ambiguous region, and the relaxed_header_parser setting. *)
EXTENDS Naturals, TLC, Json
Allowed == [
  cl_te |-> {"reject", "te"}, te_cl_small |-> {"reject", "te"},
  dup_cl_diff |-> {"reject"}, dup_cl_same |-> {"reject", "cl"},
  cl_list_same |-> {"reject", "cl"}, cl_list_diff |-> {"reject"},
  \* a conflicting member hidden behind a harmless duplicate: "L, L, N" in one field / "L" and "L, N" in two fields / "L, L" and "N"
  cl_list_dup_diff |-> {"reject"}, cl_two_dup_diff |-> {"reject"}, cl_listdup_then_field |-> {"reject"},
  cl_plus |-> {"reject"}, cl_minus |-> {"reject"}, cl_trailing |-> {"reject"}, cl_hex |-> {"reject"}, cl_inner_space |-> {"reject"},
  cl_empty |-> {"reject"}, cl_exp |-> {"reject"}, cl_huge |-> {"reject"}, cl_ows |-> {"reject", "cl"},
  te_unknown |-> {"reject"}, te_chunked_identity |-> {"reject"}, te_identity |-> {"reject"}, te_dup |-> {"reject"},
  te_case |-> {"reject", "te"}, te_ows |-> {"reject", "te"}, te_param |-> {"reject"},
  obsfold_cl |-> {"reject", "cl"}, obsfold_te |-> {"reject", "te"},
  ws_colon_cl |-> {"reject"}, ws_colon_te |-> {"reject"},
  nul_value |-> {"reject", "cl"}, bare_lf |-> {"reject", "cl"}, bare_cr_value |-> {"reject", "cl"},
  bad_chunk_size |-> {"reject"}, chunk_size_plus |-> {"reject"}, chunk_size_0x |-> {"reject"}, chunk_ext_garbage |-> {"reject"},
  chunk_missing_crlf |-> {"reject"}, chunk_lf_only |-> {"reject", "te"},
  http10_te |-> {"reject", "te"}, none |-> {"cl"}, none_te |-> {"te"},
  \* well-formed messages whose (large) body consists of bytes that read as chunk framing, sent while the next hop does not
  \* read (back pressure through the request body pipe): one admissible reading only; shift = alignment of the framing-like units
  big_te |-> {"te"}, big_cl |-> {"cl"},
  \* the same, but the message has no body consumer for a second (a slow url_rewrite helper): the body pipe fills to its
  \* capacity; request-shaped units sit at the usual buffer capacities (shift 0: 2^k - 1, shift 1: 2^k)
  slow_te |-> {"te"}, slow_cl |-> {"cl"} ]
Kinds == DOMAIN Allowed
Big == {"big_te", "big_cl"}
Slow == {"slow_te", "slow_cl"}
VARIABLES par, out
vars == <<par, out>>
Init == /\ par \in [kind : Kinds \ (Big \cup Slow), pos : 1..2, total : 2..3, payload : BOOLEAN, relaxed : BOOLEAN, shift : {0}]
                  \cup [kind : Big, pos : 1..2, total : {2}, payload : {FALSE}, relaxed : BOOLEAN, shift : 0..5]
                  \cup [kind : Slow, pos : 1..2, total : {2}, payload : {TRUE}, relaxed : BOOLEAN, shift : 0..1]
        /\ out = {}
Next == out = {} /\ out' = Allowed[par.kind] /\ UNCHANGED par
Spec == Init /\ [][Next]_vars
\* sanity of the catalogue: a kind whose only admissible disposition is "reject" never admits a body interpretation
CatalogueSane == \A k \in Kinds : Allowed[k] # {} /\ Allowed[k] \subseteq {"reject", "cl", "te"}
Dump == out # {} => PrintT(<<"SCEN", ToJson([par |-> par, allowed |-> out])>>)
====
