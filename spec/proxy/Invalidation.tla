---- MODULE Invalidation ----
(* P-layer for C20: after a non-error response to an invalidating method for URL u, a response cached before that
   for u - or for a same-origin URL named by the response's Location / Content-Location - is not served from cache. *)
EXTENDS Naturals, Integers, FiniteSets
VARIABLES vers, inval, seq, contacted, reqs
ivars == <<vers, inval, seq, contacted, reqs>>
NoVal == 0 - 1
Keys == {"a", "b"}
IInit == vers = <<>> /\ inval = [k \in Keys |-> 0] /\ seq = 0 /\ contacted = {} /\ reqs = <<>>
Ext(f, k, v) == [x \in DOMAIN f \cup {k} |-> IF x = k THEN v ELSE f[x]]
Req(id, key) == reqs' = Ext(reqs, id, key) /\ UNCHANGED <<vers, inval, seq, contacted>>
Fwd(id) == contacted' = contacted \cup {id} /\ UNCHANGED <<vers, inval, seq, reqs>>
\* invalidates: the response is a non-error answer to an invalidating method; lockey: key named by Location/Content-Location
\* on the same origin ("" if none)
OResp(id, v, invalidates, lockey) ==
  /\ seq' = seq + 1
  /\ vers' = Ext(vers, v, [key |-> reqs[id], seq |-> seq + 1])
  /\ inval' = [k \in Keys |-> IF invalidates /\ (k = reqs[id] \/ k = lockey) THEN seq + 1 ELSE inval[k]]
  /\ UNCHANGED <<contacted, reqs>>
CResp(id, hv) ==
  /\ (IF id \in contacted \/ hv = NoVal \/ hv \notin DOMAIN vers THEN TRUE ELSE vers[hv].seq >= inval[reqs[id]])
  /\ UNCHANGED ivars
====
