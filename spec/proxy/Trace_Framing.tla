---- MODULE Trace_Framing ----
EXTENDS Framing, TraceLib
VARIABLES h, l
TInit == h \in 1..NHist /\ l = 1 /\ GInit(Len(Tr[h].lens))
Ev == Events(h)[l]
ToSet(s) == {s[i] : i \in 1..Len(s)}
TObs == /\ l <= Len(Events(h)) /\ Ev.e = "Obs"
        /\ Obs(ToSet(Ev.okfor), Tr[h].lens, Ev.hasCL, Ev.hasTE, Ev.nCL) /\ l' = l + 1 /\ h' = h
TNext == TObs
Mark == MarkAccepted(h, l)
====
