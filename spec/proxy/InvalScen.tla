---- MODULE InvalScen ----
(* Scenario generator / I-layer for C20 (Client::maybePurgeOthers): GET a, GET b, then method M on a answered with
   status S and a Location/Content-Location of some kind, then GET a and GET b again.  store: where the cached responses
   live (memory cache, rock or ufs cache_dir); reader: whether another client is in the middle of receiving the cached
   response of a (the entry is locked) when the unsafe request is answered. *)
EXTENDS Naturals, TLC, Json
VARIABLES par, pred
vars == <<par, pred>>
Unsafe == {"POST", "PUT", "DELETE", "PATCH", "FOO"}
Init == /\ par \in [method : Unsafe \cup {"GET", "HEAD", "OPTIONS"}, status : {200, 201, 204, 302, 400, 500},
                    loc : {"none", "rel", "abspath", "absurl", "otherport", "otherhost"}, hdr : {"Location", "Content-Location"},
                    store : {"mem", "rock", "ufs"}, reader : {"none", "slow"},
                    query : {"none", "slash"}]      \* does the URL of a carry a query with a "/" in it? (a relative reference is merged with the path only)
        /\ (par.query = "slash" => par.loc = "rel" /\ par.store = "mem" /\ par.reader = "none")
        /\ pred = [a |-> "?", b |-> "?"]
Invalidates == par.method \in Unsafe /\ par.status < 400
SameOrigin == par.loc \in {"rel", "abspath", "absurl"}
\* methods Squid does not know (PATCH, extension methods) evict the entry on the request itself, whatever the status
Predict == [a |-> IF Invalidates \/ par.method \in {"PATCH", "FOO"} THEN "contact" ELSE "hit",
            b |-> IF Invalidates /\ SameOrigin THEN "contact" ELSE "hit"]
Next == pred.a = "?" /\ pred' = Predict /\ UNCHANGED par
Spec == Init /\ [][Next]_vars
ImplRefinesP == pred.a # "?" => ((Invalidates => pred.a = "contact") /\ (Invalidates /\ SameOrigin => pred.b = "contact"))
Dump == pred.a # "?" => PrintT(<<"SCEN", ToJson([par |-> par, pred |-> pred])>>)
====
