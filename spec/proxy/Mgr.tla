---- MODULE Mgr ----
(* P-layer for C61: cache manager access.  cfg is the cachemgr_passwd list in configuration order: Seq([pw, actions]);
   the first entry naming the action (or "all") decides: "disable" -> never, "none" -> no password needed, anything
   else is the required password; no entry -> allowed only for actions that do not require a password by default.
   Report content may be returned only if http_access allows the manager request AND the password rule is satisfied. *)
EXTENDS Naturals, Sequences
PwRequiredByDefault(action) == action \in {"config", "shutdown", "offline_toggle"}
RECURSIVE Lookup(_, _, _)
Lookup(cfg, action, i) == IF i > Len(cfg) THEN "<null>"
                          ELSE IF action \in cfg[i].actions \/ "all" \in cfg[i].actions THEN cfg[i].pw ELSE Lookup(cfg, action, i + 1)
PasswordOk(cfg, action, supplied) ==
  LET pw == Lookup(cfg, action, 1) IN
  CASE pw = "<null>" -> ~PwRequiredByDefault(action)
    [] pw = "disable" -> FALSE
    [] pw = "none" -> TRUE
    [] OTHER -> supplied # "" /\ supplied = pw
MayReport(accessAllowed, cfg, action, supplied) == accessAllowed /\ PasswordOk(cfg, action, supplied)
\* the property: report content => MayReport (denying more is never a violation)
MgrOk(accessAllowed, cfg, action, supplied, gotReport) == gotReport => MayReport(accessAllowed, cfg, action, supplied)
\* I-layer: today's code reports exactly when allowed
MgrExact(accessAllowed, cfg, action, supplied, gotReport) == gotReport <=> MayReport(accessAllowed, cfg, action, supplied)
====
