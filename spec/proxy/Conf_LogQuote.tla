---- MODULE Conf_LogQuote ----
EXTENDS LogQuote, ConfLib
Case == Cases[i]
\* kind "count": number of access log records found for one finished transaction (must be exactly one)
CaseOk == i > 0 => IF Case.kind = "count" THEN Case.n = 1 ELSE FieldOk(Case.kind, Case.s, Case.q)
ImplOk == i > 0 => IF Case.kind = "count" THEN TRUE ELSE FieldExact(Case.kind, Case.s, Case.q)
====
