---- MODULE Trace_Collapse ----
EXTENDS Collapse, TraceLib
VARIABLES h, l
TInit == CInit /\ h \in 1..NHist /\ l = 1
Ev == Events(h)[l]
Adv == l' = l + 1 /\ h' = h
More == l <= Len(Events(h))
TReq == More /\ Ev.e = "Req" /\ Req(Ev.id) /\ Adv
TFS == More /\ Ev.e = "FetchStart" /\ FetchStart(Ev.v, Ev.id, Ev.len, Ev.status) /\ Adv
TFH == More /\ Ev.e = "FetchHead" /\ FetchHead(Ev.v, Ev.shareable, Ev.reval) /\ Adv
TFE == More /\ Ev.e = "FetchEnd" /\ FetchEnd(Ev.v, Ev.fin) /\ Adv
TCR == More /\ Ev.e = "CResp" /\ CResp(Ev.hv, Ev.bv, Ev.status, Ev.blen, Ev.intact, Ev.complete) /\ Adv
TDone == More /\ Ev.e = "Done" /\ Done /\ Adv
TNext == TReq \/ TFS \/ TFH \/ TFE \/ TCR \/ TDone
Mark == MarkAccepted(h, l)
====
