---- MODULE Conf_Access ----
EXTENDS Access, ConfLib
Case == Cases[i]
CaseOk == i > 0 => AccessOk(Case.rules, Case.req, Case.forwarded, Case.status)
ImplOk == TRUE
====
