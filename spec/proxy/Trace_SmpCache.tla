---- MODULE Trace_SmpCache ----
EXTENDS SmpCache, TraceLib
VARIABLES h, l
TInit == SInit /\ h \in 1..NHist /\ l = 1
Ev == Events(h)[l]
Adv == l' = l + 1 /\ h' = h
More == l <= Len(Events(h))
TO == More /\ Ev.e = "OResp" /\ OResp(Ev.v, Ev.status, Ev.len) /\ Adv
TI == More /\ Ev.e = "Inval" /\ Inval /\ Adv
TR == More /\ Ev.e = "Req" /\ Req(Ev.id) /\ Adv
TC == More /\ Ev.e = "CResp" /\ CResp(Ev.id, Ev.status, Ev.hv, Ev.bv, Ev.canary, Ev.blen, Ev.intact, Ev.complete) /\ Adv
TNext == TO \/ TI \/ TR \/ TC
Mark == MarkAccepted(h, l)
====
