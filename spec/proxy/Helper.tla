---- MODULE Helper ----
(* P-layer for C47: a helper reply reaches the request that asked.  Request k is dispatched on some channel; the helper
   writes complete reply lines (channel id + payload bound to the request it saw on that channel), possibly in any
   order and fragmentation.  Outcome(k): what the transaction of request k did with the reply. *)
EXTENDS Naturals, FiniteSets
VARIABLES chanOf, answered, verdict
pvars == <<chanOf, answered, verdict>>
PInit == chanOf = <<>> /\ answered = {} /\ verdict = <<>>
Ext(f, k, v) == [x \in DOMAIN f \cup {k} |-> IF x = k THEN v ELSE f[x]]
HRecv(chan, k) == chanOf' = Ext(chanOf, k, chan) /\ UNCHANGED <<answered, verdict>>
\* the helper has written the complete reply lines for these requests
HDone(ks) == answered' = answered \cup ks /\ UNCHANGED <<chanOf, verdict>>
\* external ACL lookups: the helper has written verdict v ("OK"/"ERR") as its complete reply to the query line q
HVerdict(q, v) == verdict' = Ext(verdict, q, v) /\ UNCHANGED <<chanOf, answered>>
\* An access decision that depends on several lookups is explained by the replies to its own queries: alts = the alternative
\* sets of (query, verdict) facts that produce the observed decision; one of them must consist of replies the helper really
\* gave to exactly those query lines.  A verdict taken from the reply to another query (or to no query) explains nothing.
Decided(alts) ==
  /\ \E i \in DOMAIN alts : \A j \in DOMAIN alts[i] : alts[i][j].q \in DOMAIN verdict /\ verdict[alts[i][j].q] = alts[i][j].v
  /\ UNCHANGED pvars
\* kind: "rw" = the request went out rewritten with the payload of request k2's reply; "orig" = it went out unchanged;
\* "lost" = it never completed (timeout); "err" = Squid answered with an error
Outcome(k, kind, k2) ==
  /\ (k \in answered => (kind = "rw" /\ k2 = k))      \* exactly its own reply, and it does arrive
  /\ (kind = "rw" => k2 = k)                          \* never somebody else's reply
  /\ UNCHANGED pvars
====
