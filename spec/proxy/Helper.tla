---- MODULE Helper ----
(* P-layer for C47: a helper reply reaches the request that asked.  Request k is dispatched on some channel; the helper
   writes complete reply lines (channel id + payload bound to the request it saw on that channel), possibly in any
   order and fragmentation.  Outcome(k): what the transaction of request k did with the reply. *)
EXTENDS Naturals, FiniteSets
VARIABLES chanOf, answered
pvars == <<chanOf, answered>>
PInit == chanOf = <<>> /\ answered = {}
Ext(f, k, v) == [x \in DOMAIN f \cup {k} |-> IF x = k THEN v ELSE f[x]]
HRecv(chan, k) == chanOf' = Ext(chanOf, k, chan) /\ UNCHANGED answered
\* the helper has written the complete reply lines for these requests
HDone(ks) == answered' = answered \cup ks /\ UNCHANGED chanOf
\* kind: "rw" = the request went out rewritten with the payload of request k2's reply; "orig" = it went out unchanged;
\* "lost" = it never completed (timeout); "err" = Squid answered with an error
Outcome(k, kind, k2) ==
  /\ (k \in answered => (kind = "rw" /\ k2 = k))      \* exactly its own reply, and it does arrive
  /\ (kind = "rw" => k2 = k)                          \* never somebody else's reply
  /\ UNCHANGED pvars
====
