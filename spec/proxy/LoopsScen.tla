---- MODULE LoopsScen ----
(* Scenario generator / I-layer for C63: Via lists with this Squid's token at some position (or look-alikes), Max-Forwards
   values, methods; prediction of clientProcessRequest / http.cc behaviour. *)
EXTENDS Naturals, Integers, TLC, Json
VARIABLES par, pred
vars == <<par, pred>>
Init == /\ par \in [via : {"none", "own1", "own2", "own3", "ownComment", "ownCaseHost", "substring", "superstring", "otherVersion"},
                    method : {"GET", "TRACE", "OPTIONS"}, mf : {"absent", "0", "1", "2", "garbage", "huge"}]
        /\ pred = "?"
Own == par.via \in {"own1", "own2", "own3", "ownComment"}
Predict == IF Own THEN "local"
           ELSE IF par.method \in {"TRACE", "OPTIONS"} /\ par.mf = "0" THEN "local"
           ELSE "forward"
Next == pred = "?" /\ pred' = Predict /\ UNCHANGED par
Spec == Init /\ [][Next]_vars
Dump == pred # "?" => PrintT(<<"SCEN", ToJson([par |-> par, pred |-> pred])>>)
====
