SPECIFICATION Spec
CONSTRAINT Dump
CHECK_DEADLOCK FALSE
