---- MODULE SmpCache ----
(* P-layer for C19: several workers share a memory cache and a rock cache_dir.  Whatever worker answers, a response that
   carries an origin version has exactly that version's status, header marker and bytes, and complete means whole
   (as Hits!OneVersion); and a request sent after an invalidation of its URL had completed (through any worker) is not
   answered from a version produced before that invalidation. *)
EXTENDS Naturals, Integers, FiniteSets
VARIABLES vers, seq, inval, started
svars == <<vers, seq, inval, started>>
NoVal == 0 - 1
SInit == vers = <<>> /\ seq = 0 /\ inval = 0 /\ started = <<>>
Ext(f, k, v) == [x \in DOMAIN f \cup {k} |-> IF x = k THEN v ELSE f[x]]
OResp(v, status, len) == seq' = seq + 1 /\ vers' = Ext(vers, v, [status |-> status, len |-> len, seq |-> seq + 1]) /\ UNCHANGED <<inval, started>>
\* the client of an invalidating request (through some worker) has received its successful response
Inval == seq' = seq + 1 /\ inval' = seq + 1 /\ UNCHANGED <<vers, started>>
\* a client sends request id: remember the latest completed invalidation
Req(id) == started' = Ext(started, id, inval) /\ UNCHANGED <<vers, seq, inval>>
CResp(id, status, hv, bv, canary, blen, intact, complete) ==
  /\ hv # NoVal =>
       /\ hv \in DOMAIN vers /\ status = vers[hv].status /\ canary = hv /\ bv \in {hv, NoVal} /\ intact
       /\ blen <= vers[hv].len /\ (complete => blen = vers[hv].len)
       /\ vers[hv].seq > started[id]                      \* not a version from before the invalidation this request follows
  /\ UNCHANGED svars
====
