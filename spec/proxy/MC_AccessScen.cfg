SPECIFICATION Spec
CONSTANTS Acls = {"src1", "dst2", "domB", "port23", "methPP", "all"}
INVARIANTS Total FinalAllDecides
CONSTRAINT Dump
CHECK_DEADLOCK FALSE
