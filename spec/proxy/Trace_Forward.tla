---- MODULE Trace_Forward ----
EXTENDS Forward, TraceLib
VARIABLES h, l
TInit == FInit /\ h \in 1..NHist /\ l = 1
Ev == Events(h)[l]
Adv == l' = l + 1 /\ h' = h
More == l <= Len(Events(h))
TReq == More /\ Ev.e = "Req" /\ Req(Ev.id, Ev.method) /\ Adv
TArr == More /\ Ev.e = "Arrive" /\ Arrive(Ev.id) /\ Adv
TNext == TReq \/ TArr
Mark == MarkAccepted(h, l)
====
