INIT Init
NEXT Next
INVARIANT Law
CHECK_DEADLOCK FALSE
