SPECIFICATION Spec
INVARIANT Released
CONSTRAINT Dump
CHECK_DEADLOCK FALSE
