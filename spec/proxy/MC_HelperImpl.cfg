SPECIFICATION Spec
CONSTANTS Ids = {1, 2, 12}  PopEarly = FALSE
INVARIANTS RightReply Quiescent
CONSTRAINT Dump
VIEW View
CHECK_DEADLOCK FALSE
