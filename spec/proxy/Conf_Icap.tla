---- MODULE Conf_Icap ----
EXTENDS Icap, ConfLib
Case == Cases[i]
CaseOk == i > 0 => Delivered(Case.vv, Case.lv, Case.va, Case.la, Case.bypass, Case.icapFail, Case.squidError, Case.hv, Case.bv, Case.blen, Case.intact, Case.complete, Case.mustVirgin)
ImplOk == TRUE
====
