SPECIFICATION Spec
INVARIANT CatalogueSane
CONSTRAINT Dump
CHECK_DEADLOCK FALSE
