SPECIFICATION Spec
CONSTANTS MaxUnits = 3
INVARIANTS TypeOK Prefix CompleteIsWhole AbortVisible
CONSTRAINT DumpScenario
CHECK_DEADLOCK FALSE
