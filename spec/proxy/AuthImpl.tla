---- MODULE AuthImpl ----
(* I-layer for C46: Basic authentication with the username-keyed shared user record of Auth::Basic::User::Cache
   (one user).  decode() links a request to the cached record and - before the C46 fix - overwrote the record's password
   even while a helper lookup for another password was pending; HandleReply() applies the helper's verdict to the record.
   OwnLookup = TRUE models the fixed code: a request whose password differs from a Pending record is validated on its
   own, un-cached user object. *)
EXTENDS Naturals, FiniteSets, Sequences, TLC, Json
CONSTANTS Reqs, Pw, Good, OwnLookup
VARIABLES rec,       \* shared record [pw, st]; st in {"None","Unchecked","Pending","Ok","Failed"}
          queue,     \* requests queued on the record while Pending
          helperQ,   \* outstanding helper lookups: set of [rid, pw, own]
          phase,     \* per request: "new" | "waiting" | "forwarded" | "denied"
          rpw,       \* password carried by each request
          hist       \* scenario: <<"a", r, p>> arrivals and <<"h", p>> helper replies (for the lookup of password p)
vars == <<rec, queue, helperQ, phase, rpw, hist>>
Init == /\ rec = [pw |-> "none", st |-> "None"] /\ queue = {} /\ helperQ = {}
        /\ phase = [r \in Reqs |-> "new"] /\ rpw = [r \in Reqs |-> "none"] /\ hist = <<>>
Decide(st) == IF st = "Ok" THEN "forwarded" ELSE "denied"
Arrive(r, p) ==
  /\ phase[r] = "new" /\ rpw' = [rpw EXCEPT ![r] = p] /\ hist' = Append(hist, <<"a", r, p>>)
  /\ IF OwnLookup /\ rec.st = "Pending" /\ rec.pw # p
     THEN /\ helperQ' = helperQ \cup {[rid |-> r, pw |-> p, own |-> TRUE]}
          /\ phase' = [phase EXCEPT ![r] = "waiting"] /\ UNCHANGED <<rec, queue>>
     ELSE LET rec1 == IF rec.st = "None" THEN [pw |-> p, st |-> "Unchecked"]
                      ELSE IF rec.pw # p THEN [pw |-> p, st |-> "Unchecked"]          \* updateCached(): new password resets state
                      ELSE IF rec.st = "Failed" THEN [rec EXCEPT !.st = "Unchecked"]  \* retry after a failure
                      ELSE rec
          IN CASE rec1.st = "Ok" -> /\ phase' = [phase EXCEPT ![r] = "forwarded"] /\ rec' = rec1 /\ UNCHANGED <<queue, helperQ>>
               [] rec1.st = "Pending" -> /\ queue' = queue \cup {r} /\ phase' = [phase EXCEPT ![r] = "waiting"] /\ rec' = rec1 /\ UNCHANGED helperQ
               [] OTHER -> /\ rec' = [rec1 EXCEPT !.st = "Pending"]
                           /\ helperQ' = helperQ \cup {[rid |-> r, pw |-> rec1.pw, own |-> FALSE]}
                           /\ phase' = [phase EXCEPT ![r] = "waiting"] /\ UNCHANGED queue
Reply(h) ==
  /\ h \in helperQ /\ helperQ' = helperQ \ {h} /\ hist' = Append(hist, <<"h", h.rid, h.pw>>)
  /\ LET st == IF h.pw = Good THEN "Ok" ELSE "Failed" IN
     IF h.own
     THEN /\ phase' = [phase EXCEPT ![h.rid] = Decide(st)] /\ UNCHANGED <<rec, queue>>
     ELSE /\ rec' = [rec EXCEPT !.st = st]
          /\ phase' = [r \in Reqs |-> IF r = h.rid \/ r \in queue THEN Decide(st) ELSE phase[r]]
          /\ queue' = {}
  /\ UNCHANGED rpw
Next == (\E r \in Reqs, p \in Pw : Arrive(r, p)) \/ (\E h \in helperQ : Reply(h))
Spec == Init /\ [][Next]_vars
\* P: a forwarded request carried credentials the helper accepts; a request with valid credentials is not denied
OnlyValidForwarded == \A r \in Reqs : phase[r] = "forwarded" => rpw[r] = Good
ValidNotDenied == \A r \in Reqs : phase[r] = "denied" => rpw[r] # Good
View == <<rec, queue, helperQ, phase, rpw>>
Terminal == helperQ = {} /\ \A r \in Reqs : phase[r] \in {"forwarded", "denied"}
Dump == Terminal => PrintT(<<"SCEN", ToJson([hist |-> hist])>>)
====
