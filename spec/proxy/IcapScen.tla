---- MODULE IcapScen ----
(* I-layer / scenario generator for C60 (adaptation/icap/ModXact): RESPMOD transactions.  Preview size relative to the
   body, the ICAP server's behaviour, bypass.  Predicted delivery: what Squid gives the client. *)
EXTENDS Naturals, TLC, Json
VARIABLES par, pred
vars == <<par, pred>>
Init == /\ par \in [units : 0..3, preview : {"off", "zero", "small", "huge"},
                    icap : {"200", "204", "204preview", "100then200", "100then204", "status500", "abortBeforeReply", "abortMidHead", "abortMidBody", "garbage"},
                    bypass : BOOLEAN, mode : {"respmod"},
                    aframing : {"length", "none"}]       \* does the adapted header announce its body length?
        /\ (par.icap \in {"204preview", "100then200", "100then204"} => par.preview # "off")
        /\ (par.icap \notin {"200", "100then200", "abortMidBody"} => par.aframing = "length")   \* only matters when an adapted message exists
        /\ pred = "?"
Early == par.icap \in {"status500", "abortBeforeReply", "abortMidHead", "garbage"}
Predict == CASE par.icap \in {"200", "100then200"} -> "adapted"
             [] par.icap \in {"204", "204preview", "100then204"} -> "virgin"
             [] Early -> IF par.bypass THEN "virgin" ELSE "error"
             [] par.icap = "abortMidBody" -> "truncated-adapted"
Next == pred = "?" /\ pred' = Predict /\ UNCHANGED par
Spec == Init /\ [][Next]_vars
BypassEarlyIsVirgin == (pred # "?" /\ par.bypass /\ Early) => pred = "virgin"
Dump == pred # "?" => PrintT(<<"SCEN", ToJson([par |-> par, pred |-> pred])>>)
====
