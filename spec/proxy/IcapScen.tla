---- MODULE IcapScen ----
(* I-layer / scenario generator for C60 (adaptation/icap/ModXact): RESPMOD and REQMOD transactions.  Preview size relative
   to the body, the ICAP server's behaviour, bypass; for REQMOD also the upload's size class and framing and whether the
   origin reads at once or late behind a small window (the echo after a 204 / a bypassed failure then proceeds in partial
   steps).  Predicted delivery: what Squid gives the client (RESPMOD) or the origin (REQMOD). *)
EXTENDS Naturals, TLC, Json
VARIABLES par, pred
vars == <<par, pred>>
Init == /\ par \in [units : 0..3, preview : {"off", "zero", "small", "huge"},
                    icap : {"200", "204", "204preview", "100then200", "100then204", "status500", "abortBeforeReply", "abortMidHead", "abortMidBody", "garbage"},
                    bypass : BOOLEAN, mode : {"respmod", "reqmod"},
                    size : {"na", "small", "over64k", "big", "huge"}, framing : {"na", "length", "chunked"}, slow : BOOLEAN,
                    aframing : {"length", "none"}]       \* does the adapted header announce its body length?
        /\ (par.icap \in {"204preview", "100then200", "100then204"} => par.preview # "off")
        /\ (par.icap \notin {"200", "100then200", "abortMidBody"} => par.aframing = "length")   \* only matters when an adapted message exists
        /\ (par.mode = "respmod" => par.size = "na" /\ par.framing = "na" /\ ~par.slow)
        /\ (par.mode = "reqmod" => par.units = 0 /\ par.size # "na" /\ par.framing # "na" /\ (par.slow => par.size \in {"big", "huge"})
                                    /\ par.icap \notin {"abortMidHead", "abortMidBody", "garbage", "100then204"})
        /\ pred = "?"
Early == par.icap \in {"status500", "abortBeforeReply", "abortMidHead", "garbage"}
\* "any": whether a 204 outside the preview is legitimate depends on whether Squid offered Allow: 204 (it does when it can keep the whole body)
Predict == CASE par.icap \in {"204", "100then204"} -> "any"
             [] par.icap \in {"200", "100then200"} -> "adapted"
             [] par.icap \in {"204", "204preview", "100then204"} -> "virgin"
             [] Early -> IF par.bypass THEN "virgin" ELSE "error"
             [] par.icap = "abortMidBody" -> "adapted-maybe-truncated"
Next == pred = "?" /\ pred' = Predict /\ UNCHANGED par
Spec == Init /\ [][Next]_vars
BypassEarlyIsVirgin == (pred # "?" /\ par.bypass /\ Early) => pred = "virgin"
Dump == pred # "?" => PrintT(<<"SCEN", ToJson([par |-> par, pred |-> pred])>>)
====
