---- MODULE Forward ----
(* P-layer for C07: per client request id, the number of upstream connections on which the origin received (part of) the
   request.  Non-idempotent methods (POST, PATCH, extension methods): at most one.  Safe/idempotent methods: unconstrained. *)
EXTENDS Naturals, FiniteSets
VARIABLES arrivals, meth
fvars == <<arrivals, meth>>
FInit == arrivals = <<>> /\ meth = <<>>
Ext(f, k, v) == [x \in DOMAIN f \cup {k} |-> IF x = k THEN v ELSE f[x]]
Idempotent(m) == m \in {"GET", "HEAD", "OPTIONS", "TRACE", "PUT", "DELETE"}
Req(id, m) == meth' = Ext(meth, id, m) /\ arrivals' = Ext(arrivals, id, 0)
\* the origin received bytes of request id on a new upstream connection
Arrive(id) ==
  /\ (Idempotent(meth[id]) \/ arrivals[id] = 0)
  /\ arrivals' = [arrivals EXCEPT ![id] = @ + 1] /\ UNCHANGED meth
====
