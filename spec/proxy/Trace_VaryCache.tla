---- MODULE Trace_VaryCache ----
EXTENDS VaryCache, TraceLib
VARIABLES h, l
TInit == YInit /\ h \in 1..NHist /\ l = 1
Ev == Events(h)[l]
Adv == l' = l + 1 /\ h' = h
More == l <= Len(Events(h))
TSkip == More /\ Ev.e = "Clock" /\ UNCHANGED yvars /\ Adv
TReq == More /\ Ev.e = "Req" /\ Req(Ev.id, Ev.v1, Ev.v2) /\ Adv
TFwd == More /\ Ev.e = "Fwd" /\ Fwd(Ev.id) /\ Adv
TOResp == More /\ Ev.e = "OResp" /\ OResp(Ev.id, Ev.v, Ev.vary1, Ev.vary2, Ev.star) /\ Adv
TCResp == More /\ Ev.e = "CResp" /\ CResp(Ev.id, Ev.hv) /\ Adv
TNext == TSkip \/ TReq \/ TFwd \/ TOResp \/ TCResp
Mark == MarkAccepted(h, l)
====
