---- MODULE ErrorPageScen ----
(* Scenario generator for C33: which error template is provoked and where the markup-bearing canary is placed. *)
EXTENDS Naturals, TLC, Json
VARIABLES par, done
vars == <<par, done>>
Init == /\ par \in [err : {"access_denied", "invalid_req", "invalid_url", "dns_fail", "connect_fail", "too_big", "unsup_req", "auth_required", "zero_size", "read_error", "mgr_denied",
                           \* requests that parse and are refused afterwards: the page is built with the parsed request at hand
                           "expect_417", "te_501", "internal_unknown"},
                    where : {"path", "query", "host", "method", "header", "user", "fragmentless"}, quote : {"dq", "sq", "both"}]
        /\ done = FALSE
Next == ~done /\ done' = TRUE /\ UNCHANGED par
Spec == Init /\ [][Next]_vars
Dump == done => PrintT(<<"SCEN", ToJson([par |-> par])>>)
====
