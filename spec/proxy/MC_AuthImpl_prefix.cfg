SPECIFICATION Spec
CONSTANTS Reqs = {1, 2, 3}  Pw = {"good", "bad"}  Good = "good"  OwnLookup = FALSE
INVARIANTS OnlyValidForwarded ValidNotDenied
CHECK_DEADLOCK FALSE
