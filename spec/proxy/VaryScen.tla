---- MODULE VaryScen ----
(* Scenario generator / I-layer for C13: request A stores a response with Vary, request B follows, then A again.
   Prediction: B is served from cache iff the response is not Vary:* and every nominated header value is equal. *)
EXTENDS Naturals, FiniteSets, TLC, Json
Vals == 0..3
VARIABLES par, pred
vars == <<par, pred>>
\* starpos: where a "*" member sits in the Vary list relative to the nominated names
Init == /\ par \in [vary1 : BOOLEAN, vary2 : BOOLEAN, star : BOOLEAN, starpos : {"none", "only", "first", "last", "second-field"},
                    a1 : Vals, a2 : Vals, b1 : Vals, b2 : Vals]
        /\ (par.star <=> par.starpos # "none")
        /\ (par.starpos = "only" => ~par.vary1 /\ ~par.vary2)
        /\ (par.starpos \in {"first", "last", "second-field"} => par.vary1 \/ par.vary2)
        /\ pred = "?"
Same == (par.vary1 => par.a1 = par.b1) /\ (par.vary2 => par.a2 = par.b2)
Predict == IF par.star THEN "contact" ELSE IF Same THEN "hit" ELSE "contact"
Next == pred = "?" /\ pred' = Predict /\ UNCHANGED par
Spec == Init /\ [][Next]_vars
ImplRefinesP == pred = "hit" => (~par.star /\ Same)
Dump == pred # "?" => PrintT(<<"SCEN", ToJson([par |-> par, pred |-> pred])>>)
====
