---- MODULE Trace_Auth ----
EXTENDS Auth, TraceLib
VARIABLES h, l
TInit == AInit /\ h \in 1..NHist /\ l = 1
Ev == Events(h)[l]
Adv == l' = l + 1 /\ h' = h
More == l <= Len(Events(h))
TReq == More /\ Ev.e = "Req" /\ Req(Ev.id, Ev.user, Ev.pw) /\ Adv
TFwd == More /\ Ev.e = "Fwd" /\ Fwd(Ev.id) /\ Adv
TCResp == More /\ Ev.e = "CResp" /\ CResp(Ev.id, Ev.status, Ev.un) /\ Adv
TNext == TReq \/ TFwd \/ TCResp
Mark == MarkAccepted(h, l)
====
