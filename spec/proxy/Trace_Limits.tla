---- MODULE Trace_Limits ----
EXTENDS Limits, TraceLib
VARIABLES h, l
TInit == MInit /\ h \in 1..NHist /\ l = 1
Ev == Events(h)[l]
Adv == l' = l + 1 /\ h' = h
More == l <= Len(Events(h))
TSent == More /\ Ev.e = "Sent" /\ Sent(Ev.dir, Ev.size, Ev.limit) /\ Adv
TFwd == More /\ Ev.e = "Fwd" /\ Fwd /\ Adv
TCResp == More /\ Ev.e = "CResp" /\ CResp(Ev.status, Ev.markerSeen) /\ Adv
TNext == TSent \/ TFwd \/ TCResp
Mark == MarkAccepted(h, l)
====
