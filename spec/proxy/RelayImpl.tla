---- MODULE RelayImpl ----
(* I-layer for C01: origin writes (head, body units, finish/abort), Squid's relay stages and its choice of the
   client-side framing, in all interleavings.  A body "unit" stands for "bytes up to the next internal boundary";
   the realiser maps units to concrete sizes on the buffer-boundary lattice.  TLC checks the P-layer property
   (Relay!Faithful on units) in every reachable state and dumps every terminal state as a scenario class. *)
EXTENDS Naturals, Integers, TLC, Json
CONSTANTS MaxUnits
Statuses == {200, 404, 500, 204, 304}
VARIABLES par,      \* scenario parameters, chosen in Init
          osent, ofin, ohead,           \* origin side
          stage, cframing, relayed, cfin \* squid/client side
vars == <<par, osent, ofin, ohead, stage, cframing, relayed, cfin>>
HasBody(st) == st \notin {204, 304}
Init ==
  /\ par \in [status : Statuses, oframing : {"length", "chunked", "close"}, units : 0..MaxUnits,
              abortAt : (0 - 1)..MaxUnits, cver : {10, 11}, cacheable : BOOLEAN]
  /\ (par.abortAt <= par.units)
  /\ (~HasBody(par.status) => par.units = 0 /\ par.oframing = "length" /\ par.abortAt = 0 - 1)
  /\ osent = 0 /\ ofin = "no" /\ ohead = FALSE
  /\ stage = "idle" /\ cframing = "none" /\ relayed = 0 /\ cfin = "open"
OHead == ~ohead /\ ofin = "no" /\ ohead' = TRUE /\ UNCHANGED <<par, osent, ofin, stage, cframing, relayed, cfin>>
OUnit == /\ ohead /\ ofin = "no" /\ osent < par.units /\ (par.abortAt < 0 \/ osent < par.abortAt)
         /\ osent' = osent + 1 /\ UNCHANGED <<par, ofin, ohead, stage, cframing, relayed, cfin>>
OFinish == /\ ohead /\ ofin = "no" /\ osent = par.units /\ par.abortAt < 0
           /\ ofin' = "complete" /\ UNCHANGED <<par, osent, ohead, stage, cframing, relayed, cfin>>
OAbort == /\ ohead /\ ofin = "no" /\ par.abortAt >= 0 /\ osent = par.abortAt
          /\ ofin' = "aborted" /\ UNCHANGED <<par, osent, ohead, stage, cframing, relayed, cfin>>
\* Squid relays the head once it has it: it knows the length only from origin Content-Length framing
SHead == /\ stage = "idle" /\ ohead
         /\ stage' = "relaying"
         /\ cframing' = IF ~HasBody(par.status) THEN "none"
                        ELSE IF par.oframing = "length" THEN "length"
                        ELSE IF par.cver = 11 THEN "chunked" ELSE "close"
         /\ UNCHANGED <<par, osent, ofin, ohead, relayed, cfin>>
SUnit == /\ stage = "relaying" /\ relayed < osent /\ relayed' = relayed + 1
         /\ UNCHANGED <<par, osent, ofin, ohead, stage, cframing, cfin>>
SEndOk == /\ stage = "relaying" /\ ofin = "complete" /\ relayed = osent
          /\ stage' = "done" /\ cfin' = "complete" /\ UNCHANGED <<par, osent, ofin, ohead, cframing, relayed>>
\* premature EOF: Squid closes the client connection without terminating the framing
SEndAbort == /\ stage = "relaying" /\ ofin = "aborted"
             /\ stage' = "done" /\ cfin' = "closedEarly" /\ UNCHANGED <<par, osent, ofin, ohead, cframing, relayed>>
Next == OHead \/ OUnit \/ OFinish \/ OAbort \/ SHead \/ SUnit \/ SEndOk \/ SEndAbort
Spec == Init /\ [][Next]_vars
\* ---- the property on units ----
Prefix == relayed <= osent
CompleteIsWhole == cfin = "complete" => (ofin = "complete" /\ relayed = par.units)
AbortVisible == (ofin = "aborted" /\ stage = "done") => cfin # "complete"
TypeOK == relayed \in 0..MaxUnits /\ osent \in 0..MaxUnits
Terminal == stage = "done"
\* scenario classes: one per parameter tuple (all interleavings of one tuple realise the same wire scenario)
DumpScenario == Terminal => PrintT(<<"SCEN", ToJson([par |-> par, cframing |-> cframing, cfin |-> cfin, relayed |-> relayed])>>)
====
