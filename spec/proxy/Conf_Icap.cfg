INIT ConfInit
NEXT ConfNext
INVARIANTS CaseOk
CHECK_DEADLOCK FALSE
