---- MODULE Trace_Restart ----
EXTENDS Restart, TraceLib
VARIABLES h, l
TInit == RInit /\ h \in 1..NHist /\ l = 1
Ev == Events(h)[l]
Adv == l' = l + 1 /\ h' = h
More == l <= Len(Events(h))
TS == More /\ Ev.e = "Stored" /\ Stored(Ev.v, Ev.key, Ev.len) /\ Adv
TPr == More /\ Ev.e = "Produced" /\ Produced(Ev.v, Ev.key, Ev.len) /\ Adv
TP == More /\ Ev.e = "Purged" /\ Purged(Ev.key) /\ Adv
TX == More /\ Ev.e = "Stop" /\ Stop(Ev.kind) /\ Adv
TA == More /\ Ev.e = "After" /\ After(Ev.key, Ev.contacted, Ev.hv, Ev.bv, Ev.blen, Ev.intact, Ev.complete) /\ Adv
TNext == TPr \/ TS \/ TP \/ TX \/ TA
Mark == MarkAccepted(h, l)
====
