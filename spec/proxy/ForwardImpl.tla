---- MODULE ForwardImpl ----
(* I-layer / scenario generator for C07 (FwdState::checkRetry / checkRetriable / reforward): one client request, a list
   of destinations (1 or 2 addresses), an optional idle persistent connection, and the first upstream attempt failing at
   a given point.  Squid retries only while the request is retriable: safe/idempotent method, or nothing of it was sent.
   TLC explores the attempt sequences, checks the at-most-once invariant for non-idempotent methods, and dumps the classes. *)
EXTENDS Naturals, Sequences, TLC, Json
MaxTries == 3
VARIABLES par, tries, sentOn, state
vars == <<par, tries, sentOn, state>>
Idempotent(m) == m \in {"GET", "PUT", "DELETE"}
Init == /\ par \in [method : {"GET", "PUT", "DELETE", "POST", "PATCH", "FOO"}, body : {"none", "cl", "chunked"},
                    fail : {"refuse", "close_early", "close_after_head", "close_after_request", "reset_mid_response"},
                    reused : BOOLEAN, addrs : 1..2,
                    pconnNonretriable : BOOLEAN]     \* squid.conf: server_pconn_for_nonretriable allow all
        /\ (par.method \in {"GET", "DELETE"} => par.body = "none")
        /\ (par.method = "PUT" => par.body # "none")           \* POST / PATCH / extension methods also come without a body
        /\ (par.fail = "refuse" => ~par.reused)
        /\ tries = 0 /\ sentOn = 0 /\ state = "start"
\* first attempt fails as scripted; "refuse" fails before anything is sent
Attempt == /\ state \in {"start", "retry"} /\ tries < MaxTries
           /\ tries' = tries + 1
           /\ IF tries = 0 THEN
                 /\ sentOn' = IF par.fail = "refuse" THEN 0 ELSE 1
                 /\ state' = "failed"
              ELSE IF par.fail = "refuse" /\ par.addrs = 1 THEN sentOn' = sentOn /\ state' = "error"   \* nobody listens at all
              ELSE /\ sentOn' = sentOn + 1 /\ state' = "done"
           /\ UNCHANGED par
\* checkRetry: retriable iff idempotent, or nothing was sent yet (a pconn race on a reused connection counts as "sent")
Retry == /\ state = "failed" /\ (Idempotent(par.method) \/ sentOn = 0)
         /\ state' = "retry" /\ UNCHANGED <<par, tries, sentOn>>
GiveUp == /\ state = "failed" /\ ~(Idempotent(par.method) \/ sentOn = 0) /\ state' = "error" /\ UNCHANGED <<par, tries, sentOn>>
Next == Attempt \/ Retry \/ GiveUp
Spec == Init /\ [][Next]_vars
AtMostOnce == ~Idempotent(par.method) => sentOn <= 1
Dump == state \in {"done", "error"} => PrintT(<<"SCEN", ToJson([par |-> par, arrivals |-> sentOn, outcome |-> state])>>)
====
