---- MODULE HitsScen ----
(* I-layer / scenario generator for C10: one cache key; operations a client population can perform and what they do to
   the stored entry.  State: the stored entry (none, or version n complete), whether a fetch is in progress, and readers
   attached to a version.  TLC explores every operation sequence up to MaxOps, checks that no reader is ever attached to
   two versions and dumps each maximal sequence as a scenario class. *)
EXTENDS Naturals, Sequences, TLC, Json
CONSTANTS MaxOps
Ops == {"get", "getslow", "reload", "pair", "pressure", "abortfetch", "reval"}
VARIABLES stored, nextv, hist, readers
vars == <<stored, nextv, hist, readers>>
Init == stored = 0 /\ nextv = 1 /\ hist = <<>> /\ readers = {}
\* get: hit if stored, else fetch+store; getslow: same but the origin writes slowly (overlapping readers possible)
\* reload: client no-cache forces a new version that replaces the stored one; pair: two concurrent gets;
\* reval: the client forces a revalidation (max-age=0); the origin confirms the stored version with a 304 whose header block
\* differs in size from the stored one (the stored header is rewritten in place, the body must stay that version's), then a get;
\* pressure: unrelated traffic that may evict the entry; abortfetch: origin aborts mid-body (nothing complete is stored)
Do(op) ==
  /\ Len(hist) < MaxOps
  /\ hist' = Append(hist, op)
  /\ CASE op \in {"get", "getslow", "pair", "reval"} ->
            IF stored = 0 THEN stored' = nextv /\ nextv' = nextv + 1 /\ readers' = readers \cup {nextv}
            ELSE UNCHANGED <<stored, nextv>> /\ readers' = readers \cup {stored}
       [] op = "reload" -> stored' = nextv /\ nextv' = nextv + 1 /\ readers' = readers \cup {nextv}
       [] op = "pressure" -> (stored' = 0 \/ stored' = stored) /\ UNCHANGED <<nextv, readers>>
       [] op = "abortfetch" -> IF stored = 0 THEN nextv' = nextv + 1 /\ UNCHANGED <<stored, readers>> ELSE UNCHANGED <<stored, nextv, readers>>
Next == \E op \in Ops : Do(op)
Spec == Init /\ [][Next]_vars
StoredIsProduced == stored < nextv
ReadersSeeProduced == \A r \in readers : r < nextv
Dump == Len(hist) = MaxOps => PrintT(<<"SCEN", ToJson([ops |-> hist])>>)
====
