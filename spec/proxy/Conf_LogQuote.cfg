INIT ConfInit
NEXT ConfNext
INVARIANTS CaseOk ImplOk
CHECK_DEADLOCK FALSE
