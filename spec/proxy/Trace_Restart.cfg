INIT TInit
NEXT TNext
CONSTRAINT Mark
POSTCONDITION AllAccepted
CHECK_DEADLOCK FALSE
