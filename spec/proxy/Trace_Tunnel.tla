---- MODULE Trace_Tunnel ----
EXTENDS Tunnel, TraceLib
VARIABLES h, l
TInit == TInit0 /\ h \in 1..NHist /\ l = 1
Ev == Events(h)[l]
Adv == l' = l + 1 /\ h' = h
More == l <= Len(Events(h))
TW == More /\ Ev.e = "Wrote" /\ Wrote(Ev.d, Ev.n) /\ Adv
TC == More /\ Ev.e = "Closed" /\ Closed(Ev.side) /\ Adv
TR == More /\ Ev.e = "Received" /\ Received(Ev.d, Ev.len, Ev.intact, Ev.eof) /\ Adv
TNext == TW \/ TC \/ TR
Mark == MarkAccepted(h, l)
====
