---- MODULE Pipeline ----
(* P-layer for C05: requests sent on one persistent connection are answered one response per request, in request order,
   each response belonging to its own request (tag = key of the request it answers). *)
EXTENDS Naturals, Sequences
VARIABLES reqs, nresp
pvars == <<reqs, nresp>>
PInit == reqs = <<>> /\ nresp = 0
Sent(keys) == reqs' = keys /\ UNCHANGED nresp
\* the next response read from the connection carries tag (key of the request it answers) and an intact body of that key
Resp(tag, bodyOk) ==
  /\ nresp < Len(reqs)
  /\ tag = reqs[nresp + 1]
  /\ bodyOk
  /\ nresp' = nresp + 1 /\ UNCHANGED reqs
\* the end of the observation: the client waited well beyond every origin delay.  If Squid has not closed the connection (it may,
\* after an error response) and nothing more arrives, every request must have had its response
End(openIdle) == (openIdle => nresp = Len(reqs)) /\ UNCHANGED pvars
====
