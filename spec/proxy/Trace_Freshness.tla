---- MODULE Trace_Freshness ----
EXTENDS Freshness, TraceLib
VARIABLES h, l
TInit == FInit /\ h \in 1..NHist /\ l = 1
Ev == Events(h)[l]
Adv == l' = l + 1 /\ h' = h
More == l <= Len(Events(h))
TClock == More /\ Ev.e = "Clock" /\ Clock(Ev.t) /\ Adv
TReq == More /\ Ev.e = "Req" /\ Req(Ev.id, Ev.rnocache, Ev.rmaxage, Ev.rmaxstale, Ev.rminfresh) /\ Adv
TFwd == More /\ Ev.e = "Fwd" /\ Fwd(Ev.id) /\ Adv
TOResp == More /\ Ev.e = "OResp" /\ OResp(Ev.v, Ev.life, Ev.mustreval, Ev.age0) /\ Adv
TCResp == More /\ Ev.e = "CResp" /\ CResp(Ev.id, Ev.hv) /\ Adv
TNext == TClock \/ TReq \/ TFwd \/ TOResp \/ TCResp
Mark == MarkAccepted(h, l)
====
