---- MODULE Trace_FdTable ----
EXTENDS FdTable, TraceLib
VARIABLES h, l
TInit == FInit /\ h \in 1..NHist /\ l = 1
Ev == Events(h)[l]
Adv == l' = l + 1 /\ h' = h
More == l <= Len(Events(h))
TB == More /\ Ev.e = "Baseline" /\ Baseline(Ev.fds) /\ Adv
TQ == More /\ Ev.e = "Quiescent" /\ Quiescent(Ev.fds, Ev.idleAllowed, Ev.alive) /\ Adv
TNext == TB \/ TQ
Mark == MarkAccepted(h, l)
====
