---- MODULE Trace_Helper ----
EXTENDS Helper, TraceLib
VARIABLES h, l
TInit == PInit /\ h \in 1..NHist /\ l = 1
Ev == Events(h)[l]
Adv == l' = l + 1 /\ h' = h
More == l <= Len(Events(h))
ToSet(s) == {s[i] : i \in 1..Len(s)}
TRecv == More /\ Ev.e = "HRecv" /\ HRecv(Ev.chan, Ev.k) /\ Adv
TDone == More /\ Ev.e = "HDone" /\ HDone(ToSet(Ev.order)) /\ Adv
TOut == More /\ Ev.e = "Outcome" /\ Outcome(Ev.k, Ev.kind, Ev.k2) /\ Adv
TVerdict == More /\ Ev.e = "HVerdict" /\ HVerdict(Ev.q, Ev.v) /\ Adv
TDecided == More /\ Ev.e = "Decided" /\ Decided(Ev.alts) /\ Adv
TNext == TRecv \/ TDone \/ TOut \/ TVerdict \/ TDecided
Mark == MarkAccepted(h, l)
====
