---- MODULE HopByHop ----
(* P-layer for C04.  A message sent towards Squid carries fields, each with a unique canary value and a class:
   "std"  standard hop-by-hop field (Connection, Keep-Alive, TE, Trailer, Upgrade, Proxy-Connection, Proxy-Authenticate)
   "nom"  extension field named in a received Connection header
   "pauth" the client's Proxy-Authorization
   "e2e"  anything else.
   Seen: the canaries found anywhere in the header block of the message Squid emitted on the other side, and whether a
   Transfer-Encoding there is exactly Squid's own chunked coding over a really chunked body. *)
EXTENDS Naturals, FiniteSets
VARIABLES sent
hvars == <<sent>>
HInit == sent = <<>>
Sent(fields) == sent' = fields
Seen(canaries, teOk) ==
  /\ \A i \in DOMAIN sent : sent[i].cls # "e2e" => sent[i].canary \notin canaries
  /\ teOk
  /\ UNCHANGED sent
====
