---- MODULE Conditional ----
(* P-layer for C14.  ETags are abstract ids: 0 none, 1 "a", 2 W/"a", 3 "b"; 4 stands for * in a validator list.
   304 only when the client's validators match a response the origin produced for this key (If-None-Match by weak
   comparison, else If-Modified-Since >= Last-Modified); a cache hit with a failing If-Match must be 412;
   after the origin revalidated the cached response with 304, later hits carry the 304's headers (generation marker)
   and the unchanged body. *)
EXTENDS Naturals, Integers, FiniteSets
VARIABLES vers, contacted, reqs, merged, mergedMulti
cvars == <<vers, contacted, reqs, merged, mergedMulti>>
NoVal == 0 - 1
CInit == vers = <<>> /\ contacted = {} /\ reqs = <<>> /\ merged = 0 /\ mergedMulti = {}
Ext(f, k, v) == [x \in DOMAIN f \cup {k} |-> IF x = k THEN v ELSE f[x]]
Opaque(e) == IF e \in {1, 2} THEN 1 ELSE IF e = 3 THEN 3 ELSE 0
WeakEq(a, b) == Opaque(a) # 0 /\ Opaque(a) = Opaque(b)
StrongEq(a, b) == a \in {1, 3} /\ a = b
\* inm: set of etag ids (may contain 4 = *); ims in {"none","lt","eq","gt"} relative to the Last-Modified all versions carry
Req(id, inm, ims, ifm) == reqs' = Ext(reqs, id, [inm |-> inm, ims |-> ims, ifm |-> ifm]) /\ UNCHANGED <<vers, contacted, merged, mergedMulti>>
Fwd(id) == contacted' = contacted \cup {id} /\ UNCHANGED <<vers, reqs, merged, mergedMulti>>
\* multi: the values of a header field the response carries on several field lines (all must survive a 304 merge)
OResp(v, status, etag, gen, multi, len) ==
  /\ IF status = 304 THEN merged' = gen /\ mergedMulti' = multi /\ UNCHANGED vers
     ELSE vers' = Ext(vers, v, [etag |-> etag, len |-> len]) /\ merged' = 0 /\ mergedMulti' = {}
  /\ UNCHANGED <<contacted, reqs>>
Match304(r, m) == IF r.inm # {} THEN (4 \in r.inm \/ \E e \in r.inm : WeakEq(e, m.etag)) ELSE r.ims \in {"eq", "gt"}
IfMatchOk(r, m) == r.ifm = 0 \/ r.ifm = 4 \/ StrongEq(r.ifm, m.etag)
CResp(id, status, hv, bv, gen, multi, blen, complete, declared) ==
  LET r == reqs[id] IN
  /\ (status = 304 => \E w \in DOMAIN vers : Match304(r, vers[w]))
  /\ (status = 412 => r.ifm # 0)
  /\ ((id \notin contacted /\ status = 200 /\ hv \in DOMAIN vers) => IfMatchOk(r, vers[hv]))
  /\ ((id \notin contacted /\ status = 200 /\ hv \in DOMAIN vers /\ merged # 0) => (gen = merged /\ multi = mergedMulti /\ bv \in {hv, NoVal}))
  \* a full response is correctly framed: the complete, unchanged body of that version, any declared length equal to it
  /\ ((status = 200 /\ hv \in DOMAIN vers) => (complete /\ blen = vers[hv].len /\ declared \in {NoVal, vers[hv].len}))
  /\ UNCHANGED cvars
====
