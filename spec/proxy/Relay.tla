---- MODULE Relay ----
(* P-layer for C01 (and, with the roles swapped, C02): a message relayed through Squid.
   sent  = what the producing peer put on the wire for transaction x:
           [status, framing, full (declared/real full body length, -1 unknown), len (body bytes written), fin ("complete"|"aborted")]
   got   = what the consuming peer's reference reader saw:
           [status, framing, declared (-1 none), len, intact (every byte equals the producer's byte at that offset),
            complete (the framing terminated: declared length reached / last-chunk seen / orderly EOF of a close-delimited body)]
   The actions are guarded by the property, so a recorded transaction that violates it is not a behaviour. *)
EXTENDS Naturals, Integers
VARIABLES sent, got
rvars == <<sent, got>>
None == [status |-> 0, framing |-> "none", full |-> 0 - 1, len |-> 0, fin |-> "none"]
RInit == sent = None /\ got = None

Produce(status, framing, full, len, fin) ==
  /\ sent' = [status |-> status, framing |-> framing, full |-> full, len |-> len, fin |-> fin]
  /\ UNCHANGED got

\* the property
Faithful(s, status, framing, declared, len, intact, complete, cver) ==
  /\ intact                                          \* received bytes are the producer's bytes, in order, from offset 0
  /\ len <= s.len                                    \* ... hence a prefix of what was produced
  \* a shortened body is never presented as complete; the consumer can tell.  Only a close-delimited message to an
  \* HTTP/1.0 consumer (which cannot receive chunked coding) has no in-band end marker and is exempt.
  /\ (complete => ((s.fin = "complete" \/ (framing = "close" /\ cver = 10)) /\ len = s.len))
  /\ (s.fin = "aborted" /\ ~(framing = "close" /\ cver = 10) => ~complete)
  /\ (declared >= 0 => declared = s.len \/ ~complete) \* a declared length that completes is the real length
  /\ (declared >= 0 /\ s.fin = "complete" => declared = s.len) \* ... and is never wrong for a completely produced body
  /\ status = s.status

\* Squid may also answer with its own error instead of relaying (502/504...): then nothing is claimed about the body
Consume(status, framing, declared, len, intact, complete, squidError, cver) ==
  /\ (squidError \/ Faithful(sent, status, framing, declared, len, intact, complete, cver))
  /\ got' = [status |-> status, framing |-> framing, full |-> declared, len |-> len, fin |-> IF complete THEN "complete" ELSE "aborted"]
  /\ UNCHANGED sent
====
