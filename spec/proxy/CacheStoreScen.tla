---- MODULE CacheStoreScen ----
(* Scenario generator / I-layer for C11: which responses Squid stores (http.cc reusableReply) as a function of the
   response directives, the request, the status and the validators.  TLC enumerates all directive subsets of
   size <= 3, checks that a predicted "stored" implies CacheStore!Storable, prints the classes. *)
EXTENDS Naturals, FiniteSets, TLC, Json
\* proxyreval (proxy-revalidate) is NOT one of the directives that let a shared cache store the answer to an authenticated request (RFC 9111 3.5)
Dirs == {"nostore", "private", "privatef", "nocache", "nocachef", "public", "mustreval", "smaxage", "maxage", "proxyreval"}
VARIABLES par, pred
vars == <<par, pred>>
Init == /\ par \in [dirs : {d \in SUBSET Dirs : Cardinality(d) <= 3}, req : {"none", "nostore", "nocache"}, auth : BOOLEAN,
                    status : {200, 301, 404, 302}, fresh : {"none", "expires"}]
        /\ pred = "?"
Shared == {"public", "mustreval", "smaxage"} \cap par.dirs # {}
PStorable == /\ "nostore" \notin par.dirs /\ "private" \notin par.dirs /\ "privatef" \notin par.dirs
             /\ par.req # "nostore" /\ (par.auth => Shared)
\* prediction of today's code: never stored when forbidden; otherwise it depends on freshness information (not predicted)
Predict == IF ~PStorable THEN "contact" ELSE "any"
Next == pred = "?" /\ pred' = Predict /\ UNCHANGED par
Spec == Init /\ [][Next]_vars
ImplRefinesP == pred = "hit" => PStorable
Dump == pred # "?" => PrintT(<<"SCEN", ToJson([par |-> [dirs |-> par.dirs, req |-> par.req, auth |-> par.auth, status |-> par.status, fresh |-> par.fresh], pred |-> pred])>>)
====
