---- MODULE Limits ----
(* P-layer for C62.  A request head of `size` bytes against request_header_max_size = limit: clearly over the limit
   (size >= limit + Margin) => error 414/431 and never forwarded.  A response head clearly over reply_header_max_size is
   never relayed to the client as received (its marker field must not reach the client).
   Sizes within Margin of the limit are not constrained (the statement does not fix which bytes are counted). *)
EXTENDS Naturals, Integers
Margin == 64
VARIABLES cur
mvars == <<cur>>
MInit == cur = [dir |-> "", size |-> 0, limit |-> 0]
Sent(dir, size, limit) == cur' = [dir |-> dir, size |-> size, limit |-> limit]
Over == cur.size >= cur.limit + Margin
\* request direction: the origin received the request
Fwd == /\ ~(cur.dir = "req" /\ Over) /\ UNCHANGED cur
\* what the client finally got: status, and whether the oversized response head's marker reached it
CResp(status, markerSeen) ==
  \* 0: the client could not read a response (Squid closed/reset the connection while the client was still writing)
  /\ (cur.dir = "req" /\ Over => status \in {414, 431, 0})
  /\ (cur.dir = "resp" /\ Over => ~markerSeen)
  /\ UNCHANGED cur
====
