SPECIFICATION Spec
CONSTANTS W = 2  MaxOps = 4
INVARIANT NoStaleAfterInval
CONSTRAINT Dump
CHECK_DEADLOCK FALSE
