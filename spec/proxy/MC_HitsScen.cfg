SPECIFICATION Spec
CONSTANTS MaxOps = 4
INVARIANTS StoredIsProduced ReadersSeeProduced
CONSTRAINT Dump
CHECK_DEADLOCK FALSE
