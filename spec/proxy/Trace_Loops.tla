---- MODULE Trace_Loops ----
EXTENDS Loops, TraceLib
VARIABLES h, l
TInit == LInit /\ h \in 1..NHist /\ l = 1
Ev == Events(h)[l]
Adv == l' = l + 1 /\ h' = h
More == l <= Len(Events(h))
TReq == More /\ Ev.e = "Req" /\ Req(Ev.own, Ev.method, Ev.mf) /\ Adv
TFwd == More /\ Ev.e = "Fwd" /\ Fwd(Ev.mfSeen) /\ Adv
TNext == TReq \/ TFwd
Mark == MarkAccepted(h, l)
====
