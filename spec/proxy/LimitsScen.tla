---- MODULE LimitsScen ----
(* Scenario generator for C62: head size relative to the limit, where the excess sits ("both": a first line of about 3.5 KB - or half
   the limit if that is less - and the rest in a field: neither part alone reaches the limit), how the bytes arrive. *)
EXTENDS Naturals, Integers, TLC, Json
VARIABLES par, pred
vars == <<par, pred>>
Init == /\ par \in [dir : {"req", "resp"}, limit : {4096, 8192, 65536}, delta : {0 - 2000, 0 - 600, 0 - 2, 0, 2, 100, 2000, 5000, 70000},
                    where : {"line", "onefield", "manyfields", "both", "folded"}, arrival : {"oneshot", "chunks", "splitAtLimit"}]
        /\ (par.dir = "resp" => par.where \notin {"line", "both"})
        \* "folded": the bytes are obs-folds with long runs of blanks - the head is over the limit as received, far below it once unfolded
        /\ pred = "?"
\* request targets longer than MAX_URL (8 KiB) are refused on their own
Predict == IF par.where \in {"line", "both"} /\ par.limit > 8192 THEN "any" ELSE IF par.delta >= 100 THEN "reject" ELSE IF par.delta <= 0 - 600 THEN "pass" ELSE "any"
Next == pred = "?" /\ pred' = Predict /\ UNCHANGED par
Spec == Init /\ [][Next]_vars
Dump == pred # "?" => PrintT(<<"SCEN", ToJson([par |-> par, pred |-> pred])>>)
====
