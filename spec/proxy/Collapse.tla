---- MODULE Collapse ----
(* P-layer for C18 (collapsed forwarding).  One cacheable URL.  Fetches are origin requests; a fetch is "open" from the
   moment the origin received it until the origin finished (or aborted) its reply.  A request that reaches Squid while a
   fetch is open must not cause another origin request - unless the open fetch's reply turned out not to be shareable
   (e.g. Cache-Control: private) or it failed.  Every client that is answered with a version gets that version's bytes,
   and a body presented as complete is the whole body (Hits!OneVersion). *)
EXTENDS Naturals, Integers, FiniteSets
VARIABLES open,      \* set of versions whose fetch is in progress
          meta,      \* v -> [shareable ("?" until the head is sent, then TRUE/FALSE), fin ("no"/"complete"/"aborted"), len, status]
          during,    \* client request id -> set of fetches that were open when the request was sent
          caused     \* v -> id of the client request whose forwarding created fetch v
cvars == <<open, meta, during, caused>>
NoVal == 0 - 1
CInit == open = {} /\ meta = <<>> /\ during = <<>> /\ caused = <<>>
Ext(f, k, v) == [x \in DOMAIN f \cup {k} |-> IF x = k THEN v ELSE f[x]]
Req(id) == during' = Ext(during, id, open) /\ UNCHANGED <<open, meta, caused>>
FetchStart(v, id, len, status) ==
  /\ open' = open \cup {v} /\ caused' = Ext(caused, v, id)
  /\ meta' = Ext(meta, v, [shareable |-> "?", fin |-> "no", len |-> len, status |-> status])
  /\ UNCHANGED during
FetchHead(v, shareable) == meta' = [meta EXCEPT ![v].shareable = shareable] /\ UNCHANGED <<open, during, caused>>
FetchEnd(v, fin) == meta' = [meta EXCEPT ![v].fin = fin] /\ open' = open \ {v} /\ UNCHANGED <<during, caused>>
\* evaluated when everything is over: fetch v was caused by request id although fetch w was open when id was sent
Justified(v) == \A w \in during[caused[v]] : w # v => (meta[w].shareable # TRUE \/ meta[w].fin # "complete")
Final == \A v \in DOMAIN caused : Justified(v)
Done == Final /\ UNCHANGED cvars
CResp(hv, bv, status, blen, intact, complete) ==
  /\ hv # NoVal =>
       /\ hv \in DOMAIN meta /\ status = meta[hv].status /\ bv \in {hv, NoVal} /\ intact /\ blen <= meta[hv].len
       /\ (complete => (blen = meta[hv].len /\ meta[hv].fin # "aborted"))
  /\ UNCHANGED cvars
====
