---- MODULE Collapse ----
(* P-layer for C18 (collapsed forwarding).  One cacheable URL.  Fetches are origin requests; a fetch is "open" from the
   moment the origin received it until the origin finished (or aborted) its reply.  A request that reaches Squid while a
   fetch is open must not cause another origin request - unless the open fetch's reply turned out not to be shareable
   (e.g. Cache-Control: private) or it failed, or the reply is one that HTTP allows to be reused only after asking again
   (no-cache, max-age=0 must-revalidate, already expired) AND the request was sent after that reply's head had reached
   Squid: such a request is an ordinary request for a stored stale response (RFC 9111 4.2.4), not a collapsed one.  Every client that is answered with a version gets that version's bytes,
   and a body presented as complete is the whole body (Hits!OneVersion). *)
EXTENDS Naturals, Integers, FiniteSets
VARIABLES open,      \* set of versions whose fetch is in progress
          meta,      \* v -> [shareable ("?" until the head is sent, then TRUE/FALSE), fin ("no"/"complete"/"aborted"), len, status]
          during,    \* client request id -> set of [v, head]: fetches that were open when the request was sent, and
                     \* whether the origin had already sent that fetch's head
          caused     \* v -> id of the client request whose forwarding created fetch v
cvars == <<open, meta, during, caused>>
NoVal == 0 - 1
CInit == open = {} /\ meta = <<>> /\ during = <<>> /\ caused = <<>>
Ext(f, k, v) == [x \in DOMAIN f \cup {k} |-> IF x = k THEN v ELSE f[x]]
Req(id) == during' = Ext(during, id, {[v |-> w, head |-> meta[w].head] : w \in open}) /\ UNCHANGED <<open, meta, caused>>
FetchStart(v, id, len, status) ==
  /\ open' = open \cup {v} /\ caused' = Ext(caused, v, id)
  /\ meta' = Ext(meta, v, [shareable |-> "?", head |-> FALSE, reval |-> FALSE, fin |-> "no", len |-> len, status |-> status])
  /\ UNCHANGED during
\* reval: the reply may be reused for later requests only after revalidation
FetchHead(v, shareable, reval) == meta' = [meta EXCEPT ![v].shareable = shareable, ![v].head = TRUE, ![v].reval = reval] /\ UNCHANGED <<open, during, caused>>
FetchEnd(v, fin) == meta' = [meta EXCEPT ![v].fin = fin] /\ open' = open \ {v} /\ UNCHANGED <<during, caused>>
\* evaluated when everything is over: fetch v was caused by request id although fetch w was open when id was sent
Justified(v) == \A w \in during[caused[v]] : w.v # v => (meta[w.v].shareable # TRUE \/ meta[w.v].fin # "complete" \/ (w.head /\ meta[w.v].reval))
Final == \A v \in DOMAIN caused : Justified(v)
Done == Final /\ UNCHANGED cvars
CResp(hv, bv, status, blen, intact, complete) ==
  /\ hv # NoVal =>
       /\ hv \in DOMAIN meta /\ status = meta[hv].status /\ bv \in {hv, NoVal} /\ intact /\ blen <= meta[hv].len
       /\ (complete => (blen = meta[hv].len /\ meta[hv].fin # "aborted"))
  /\ UNCHANGED cvars
====
