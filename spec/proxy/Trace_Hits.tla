---- MODULE Trace_Hits ----
EXTENDS Hits, TraceLib
VARIABLES h, l
TInit == HInit /\ h \in 1..NHist /\ l = 1
Ev == Events(h)[l]
Adv == l' = l + 1 /\ h' = h
More == l <= Len(Events(h))
TOResp == More /\ Ev.e = "OResp" /\ OResp(Ev.v, Ev.key, Ev.status, Ev.len, Ev.whole) /\ Adv
TCResp == More /\ Ev.e = "CResp" /\ CResp(Ev.key, Ev.status, Ev.hv, Ev.bv, Ev.canary, Ev.blen, Ev.intact, Ev.complete, Ev.fromCache) /\ Adv
TNext == TOResp \/ TCResp
Mark == MarkAccepted(h, l)
====
