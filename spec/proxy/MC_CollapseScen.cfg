SPECIFICATION Spec
INVARIANT OkMeansOne
CONSTRAINT Dump
CHECK_DEADLOCK FALSE
