---- MODULE TunnelImpl ----
(* I-layer / scenario generator for C06 (tunnel.cc): one buffer per direction, writes by either peer, Squid's copy
   steps, a close by either side at any point; Squid finishes writing what it has buffered from a closing side before
   closing the other side.  TLC explores every interleaving of up to MaxW writes per side with one close and dumps the
   peer-visible operation sequences (cw, sw, cc, sc) as scenario classes. *)
EXTENDS Naturals, Sequences, TLC, Json
CONSTANTS MaxW
VARIABLES csent, ssent, c2sBuf, s2cBuf, srecv, crecv, closed, squidClosed, ops
vars == <<csent, ssent, c2sBuf, s2cBuf, srecv, crecv, closed, squidClosed, ops>>
Init == csent = 0 /\ ssent = 0 /\ c2sBuf = 0 /\ s2cBuf = 0 /\ srecv = 0 /\ crecv = 0 /\ closed = "none" /\ squidClosed = FALSE /\ ops = <<>>
CW == closed # "c" /\ ~squidClosed /\ csent < MaxW /\ csent' = csent + 1 /\ c2sBuf' = c2sBuf + 1 /\ ops' = Append(ops, "cw")
      /\ UNCHANGED <<ssent, s2cBuf, srecv, crecv, closed, squidClosed>>
SW == closed # "s" /\ ~squidClosed /\ ssent < MaxW /\ ssent' = ssent + 1 /\ s2cBuf' = s2cBuf + 1 /\ ops' = Append(ops, "sw")
      /\ UNCHANGED <<csent, c2sBuf, srecv, crecv, closed, squidClosed>>
CopyC2S == c2sBuf > 0 /\ closed # "s" /\ c2sBuf' = c2sBuf - 1 /\ srecv' = srecv + 1 /\ UNCHANGED <<csent, ssent, s2cBuf, crecv, closed, squidClosed, ops>>
CopyS2C == s2cBuf > 0 /\ closed # "c" /\ s2cBuf' = s2cBuf - 1 /\ crecv' = crecv + 1 /\ UNCHANGED <<csent, ssent, c2sBuf, srecv, closed, squidClosed, ops>>
CC == closed = "none" /\ closed' = "c" /\ ops' = Append(ops, "cc") /\ UNCHANGED <<csent, ssent, c2sBuf, s2cBuf, srecv, crecv, squidClosed>>
SC == closed = "none" /\ closed' = "s" /\ ops' = Append(ops, "sc") /\ UNCHANGED <<csent, ssent, c2sBuf, s2cBuf, srecv, crecv, squidClosed>>
\* Squid closes the other side only after it has delivered what the closing side had written
Finish == /\ closed # "none" /\ ~squidClosed
          /\ (closed = "c" => c2sBuf = 0) /\ (closed = "s" => s2cBuf = 0)
          /\ squidClosed' = TRUE /\ UNCHANGED <<csent, ssent, c2sBuf, s2cBuf, srecv, crecv, closed, ops>>
Next == CW \/ SW \/ CopyC2S \/ CopyS2C \/ CC \/ SC \/ Finish
Spec == Init /\ [][Next]_vars
PrefixOk == srecv <= csent /\ crecv <= ssent
CloserDelivered == squidClosed => ((closed = "c" => srecv = csent) /\ (closed = "s" => crecv = ssent))
View == <<csent, ssent, c2sBuf, s2cBuf, srecv, crecv, closed, squidClosed>>
Dump == squidClosed => PrintT(<<"SCEN", ToJson([ops |-> ops])>>)
====
