SPECIFICATION Spec
CONSTANTS N = 3  Prefetch = 3
INVARIANT InOrder
CONSTRAINT Dump
CHECK_DEADLOCK FALSE
