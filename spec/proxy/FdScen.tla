---- MODULE FdScen ----
(* I-layer / scenario generator for C08: a transaction's phase machine (accepted -> request head partial -> head complete /
   connecting -> request sent, waiting -> reply head partial -> reply body partial -> done) with an abort injected by the
   client, the server or a timer at any phase; descriptors owned by the transaction (client side, server side) must be
   released on every path.  TLC explores all (phase, aborter, variant) and checks that the model releases both. *)
EXTENDS Naturals, TLC, Json
Phases == {"accepted", "headPartial", "bodyPartial", "waitingOrigin", "replyHeadPartial", "replyBodyPartial", "doneKeepalive"}
Aborters == {"clientClose", "clientReset", "serverClose", "serverReset", "stall"}
VARIABLES par, cfd, sfd, phase
vars == <<par, cfd, sfd, phase>>
Init == /\ par \in [phase : Phases, by : Aborters, cache : BOOLEAN, method : {"GET", "POST"}, chunkedReply : BOOLEAN]
        /\ (par.by \in {"serverClose", "serverReset"} => par.phase \in {"waitingOrigin", "replyHeadPartial", "replyBodyPartial", "doneKeepalive"})
        /\ (par.phase = "bodyPartial" => par.method = "POST")
        /\ cfd = TRUE /\ sfd = FALSE /\ phase = "start"
HasServer == par.phase \in {"waitingOrigin", "replyHeadPartial", "replyBodyPartial", "doneKeepalive"}
Progress == phase = "start" /\ phase' = "atPhase" /\ sfd' = HasServer /\ UNCHANGED <<par, cfd>>
\* the abort (or the timers the driver lets expire) tears the transaction down: both descriptors are closed
Abort == phase = "atPhase" /\ phase' = "torn" /\ cfd' = FALSE /\ sfd' = FALSE /\ UNCHANGED par
Next == Progress \/ Abort
Spec == Init /\ [][Next]_vars
Released == phase = "torn" => (~cfd /\ ~sfd)
Dump == phase = "torn" => PrintT(<<"SCEN", ToJson([par |-> par])>>)
====
