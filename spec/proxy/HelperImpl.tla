---- MODULE HelperImpl ----
EXTENDS Naturals, Sequences, FiniteSets, TLC, Json
\* Helper reply stream handling as in helperHandleRead()/helperReturnBuffer() (concurrent channels).
\* Characters are strings; a reply line is  <id digits> " " <payload> "\n".
CONSTANTS Ids,         \* e.g. {1, 2, 12}
          PopEarly     \* TRUE: popRequest(i) runs even when the channel id may be incomplete (the code before the C47 fix)
Digits == {"0","1","2","3","4","5","6","7","8","9"}
DigitVal(c) == CASE c = "0" -> 0 [] c = "1" -> 1 [] c = "2" -> 2 [] c = "3" -> 3 [] c = "4" -> 4
                 [] c = "5" -> 5 [] c = "6" -> 6 [] c = "7" -> 7 [] c = "8" -> 8 [] c = "9" -> 9
IdChars(i) == IF i = 1 THEN <<"1">> ELSE IF i = 2 THEN <<"2">> ELSE IF i = 12 THEN <<"1","2">> ELSE <<"2","1">>
Payload(i) == IF i = 1 THEN "a" ELSE IF i = 2 THEN "b" ELSE IF i = 12 THEN "c" ELSE "d"
Line(i) == IdChars(i) \o <<" ", Payload(i), "\n">>

VARIABLES hist,       \* scenario: sequence of <<"w", id>> (helper writes a reply line) and <<"r", n>> (squid reads n bytes)
          pending,    \* requests dispatched and not yet popped
          toSend,     \* ids the helper has not answered yet
          wire,       \* bytes written by the helper and not yet read by squid
          rbuf, replyX, ignore, acc, done
vars == <<hist, pending, toSend, wire, rbuf, replyX, ignore, acc, done>>

Init == /\ hist = <<>> /\ pending = Ids /\ toSend = Ids /\ wire = <<>> /\ rbuf = <<>> /\ replyX = 0
        /\ ignore = FALSE /\ acc = <<>> /\ done = [i \in {} |-> <<>>]

HelperWrites == \E i \in toSend : /\ toSend' = toSend \ {i} /\ wire' = wire \o Line(i)
                                  /\ hist' = Append(hist, <<"w", i>>)
                                  /\ UNCHANGED <<pending, rbuf, replyX, ignore, acc, done>>

\* ---- the parse loop, as a recursive function over an explicit state record ----
IndexOfLF(s) == IF \E k \in 1..Len(s) : s[k] = "\n" THEN CHOOSE k \in 1..Len(s) : s[k] = "\n" /\ \A j \in 1..(k-1) : s[j] # "\n" ELSE 0
RECURSIVE DigitsLen(_), ValOf(_), SkipSp(_)
DigitsLen(s) == IF s # <<>> /\ Head(s) \in Digits THEN 1 + DigitsLen(Tail(s)) ELSE 0
ValOf(s) == IF s = <<>> THEN 0 ELSE ValOf(SubSeq(s, 1, Len(s)-1)) * 10 + DigitVal(s[Len(s)])
SkipSp(s) == IF s # <<>> /\ Head(s) = " " THEN SkipSp(Tail(s)) ELSE s
Drop(s, n) == SubSeq(s, n+1, Len(s))

\* st = [msg, replyX, ignore, pending, acc, done, needsMore]
RECURSIVE Loop(_)
Loop(st) ==
  IF st.msg = <<>> \/ st.needsMore THEN st ELSE
  LET eom == IndexOfLF(st.msg)
      parseId == ~st.ignore /\ st.replyX = 0
      dl == DigitsLen(st.msg)
      i == ValOf(SubSeq(st.msg, 1, dl))
      \* needsMore = !(isspace(*e) || (eom && e == eom))
      afterDigits == Drop(st.msg, dl)
      needsMore == parseId /\ ~( (afterDigits # <<>> /\ Head(afterDigits) \in {" ", "\n"}) )
      msg1 == IF parseId /\ ~needsMore THEN SkipSp(afterDigits) ELSE st.msg
      \* before the fix popRequest(i) was executed even when needsMore
      found == parseId /\ (PopEarly \/ ~needsMore) /\ i \in st.pending
      replyX1 == IF parseId THEN (IF found THEN i ELSE 0) ELSE st.replyX
      pending1 == IF found THEN st.pending \ {i} ELSE st.pending
      ignore1 == IF parseId /\ (PopEarly \/ ~needsMore) /\ ~found THEN TRUE ELSE st.ignore
  IN IF needsMore
     THEN [st EXCEPT !.replyX = replyX1, !.pending = pending1, !.ignore = ignore1, !.needsMore = TRUE]
     ELSE LET eom1 == IndexOfLF(msg1)
              size == IF eom1 > 0 THEN eom1 - 1 ELSE Len(msg1)
              piece == SubSeq(msg1, 1, size)
              acc1 == IF replyX1 # 0 THEN st.acc \o piece ELSE st.acc
              fin == eom1 > 0 /\ replyX1 # 0
              done1 == IF fin THEN (replyX1 :> acc1) @@ st.done ELSE st.done
          IN Loop([msg |-> Drop(msg1, size + (IF eom1 > 0 THEN 1 ELSE 0)),
                   replyX |-> IF fin THEN 0 ELSE replyX1,
                   ignore |-> IF eom1 > 0 /\ ignore1 THEN FALSE ELSE ignore1,
                   pending |-> pending1,
                   acc |-> IF fin THEN <<>> ELSE acc1,
                   done |-> done1, needsMore |-> FALSE])

SquidReads == \E n \in 1..Len(wire) :
   LET chunk == SubSeq(wire, 1, n)
       r == Loop([msg |-> rbuf \o chunk, replyX |-> replyX, ignore |-> ignore, pending |-> pending,
                  acc |-> acc, done |-> done, needsMore |-> FALSE])
   IN /\ wire' = Drop(wire, n)
      /\ rbuf' = IF r.needsMore THEN r.msg ELSE <<>>
      /\ replyX' = r.replyX /\ ignore' = r.ignore /\ pending' = r.pending /\ acc' = r.acc /\ done' = r.done
      /\ hist' = Append(hist, <<"r", n>>)
      /\ UNCHANGED toSend

Next == HelperWrites \/ SquidReads
Spec == Init /\ [][Next]_vars

\* P-layer: a completed request got exactly its own payload
RightReply == \A i \in DOMAIN done : done[i] = <<Payload(i)>>
\* and when the helper has answered everything and all bytes are consumed, every request is completed
Quiescent == (toSend = {} /\ wire = <<>>) => (DOMAIN done = Ids)
View == <<pending, toSend, wire, rbuf, replyX, ignore, acc, done>>
Terminal == toSend = {} /\ wire = <<>>
Dump == Terminal => PrintT(<<"SCEN", ToJson([hist |-> hist])>>)
====
