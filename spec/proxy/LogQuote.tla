---- MODULE LogQuote ----
(* C34: the log-quoting transformations as functions over byte sequences (Seq(0..255), no NUL) with their inverses.
   qs = quoted-string (%"), mb = mime-blob (%[), url = URL-escape (%#), sh = shell word (%/). *)
EXTENDS Naturals, Sequences
Hex(n) == IF n < 10 THEN 48 + n ELSE 87 + n          \* lower-case hex digit
HexVal(c) == IF c >= 48 /\ c <= 57 THEN c - 48 ELSE IF c >= 97 /\ c <= 102 THEN c - 87 ELSE IF c >= 65 /\ c <= 70 THEN c - 55 ELSE 99
Pct(c) == <<37, Hex(c \div 16), Hex(c % 16)>>
HexU(n) == IF n < 10 THEN 48 + n ELSE 55 + n          \* upper-case hex digit (rfc1738_escape)
PctU(c) == <<37, HexU(c \div 16), HexU(c % 16)>>
RECURSIVE MapCat(_, _)
MapCat(F(_), s) == IF s = <<>> THEN <<>> ELSE F(Head(s)) \o MapCat(F, Tail(s))
QsChar(c) == CASE c = 13 -> <<92, 114>> [] c = 10 -> <<92, 110>> [] c = 9 -> <<92, 116>> [] c \in {34, 92} -> <<92, c>> [] OTHER -> <<c>>
MbChar(c) == CASE c = 13 -> <<92, 114>> [] c = 10 -> <<92, 110>> [] c = 92 -> <<92, 92>>
               [] c <= 31 \/ c >= 127 \/ c \in {37, 91, 93} -> Pct(c) [] OTHER -> <<c>>
\* rfc1738_escape: unsafe = controls, space, 8-bit, and  < > " # % { } | \ ^ ~ ` [ ] '
UrlUnsafe(c) == c <= 32 \/ c >= 127 \/ c \in {60, 62, 34, 35, 37, 123, 125, 124, 92, 94, 126, 96, 91, 93, 39}
UrlChar(c) == IF UrlUnsafe(c) THEN PctU(c) ELSE <<c>>
ShChar(c) == CASE c = 13 -> <<92, 114>> [] c = 10 -> <<92, 110>> [] c \in {34, 92} -> <<92, c>> [] OTHER -> <<c>>
HasSpace(s) == \E k \in 1..Len(s) : s[k] = 32
Quote(kind, s) ==
  CASE kind = "qs" -> MapCat(QsChar, s)
    [] kind = "mb" -> MapCat(MbChar, s)
    [] kind = "url" -> MapCat(UrlChar, s)
    [] kind = "sh" -> IF HasSpace(s) THEN <<34>> \o MapCat(ShChar, s) \o <<34>> ELSE MapCat(ShChar, s)
\* inverses
RECURSIVE UnBs(_, _), UnPct(_, _)
\* backslash escapes: \r \n \t (tab only when t = TRUE), otherwise the next byte literally
UnBs(s, t) == IF s = <<>> THEN <<>>
              ELSE IF Head(s) = 92 /\ Len(s) >= 2 THEN
                   (LET c == s[2] IN <<IF c = 114 THEN 13 ELSE IF c = 110 THEN 10 ELSE IF c = 116 /\ t THEN 9 ELSE c>>) \o UnBs(SubSeq(s, 3, Len(s)), t)
              ELSE <<Head(s)>> \o UnBs(Tail(s), t)
UnPct(s, bs) == IF s = <<>> THEN <<>>
                ELSE IF Head(s) = 37 /\ Len(s) >= 3 /\ HexVal(s[2]) < 16 /\ HexVal(s[3]) < 16 THEN <<HexVal(s[2]) * 16 + HexVal(s[3])>> \o UnPct(SubSeq(s, 4, Len(s)), bs)
                ELSE IF bs /\ Head(s) = 92 /\ Len(s) >= 2 THEN (LET c == s[2] IN <<IF c = 114 THEN 13 ELSE IF c = 110 THEN 10 ELSE c>>) \o UnPct(SubSeq(s, 3, Len(s)), bs)
                ELSE <<Head(s)>> \o UnPct(Tail(s), bs)
Unquote(kind, q) ==
  CASE kind = "qs" -> UnBs(q, TRUE)
    [] kind = "mb" -> UnPct(q, TRUE)
    [] kind = "url" -> UnPct(q, FALSE)
    [] kind = "sh" -> IF Len(q) >= 2 /\ q[1] = 34 /\ q[Len(q)] = 34 /\ (Len(q) = 2 \/ q[Len(q) - 1] # 92 \/ TRUE) THEN UnBs(SubSeq(q, 2, Len(q) - 1), FALSE) ELSE UnBs(q, FALSE)
NoRawLineBreak(q) == \A k \in 1..Len(q) : q[k] \notin {10, 13}
\* a quoted-string field ends at the first unescaped double quote: the quoting never produces one
RECURSIVE NoBareDq(_)
NoBareDq(q) == IF q = <<>> THEN TRUE ELSE IF Head(q) = 92 THEN (Len(q) >= 2 /\ NoBareDq(SubSeq(q, 3, Len(q)))) ELSE Head(q) # 34 /\ NoBareDq(Tail(q))
\* the property for one logged field: what was logged (q) for client bytes s under quoting kind
FieldOk(kind, s, q) == /\ NoRawLineBreak(q) /\ Unquote(kind, q) = s
                       /\ (kind = "qs" => NoBareDq(q))
                       /\ (kind = "mb" => \A k \in 1..Len(q) : q[k] \notin {91, 93})
                       /\ (kind = "url" => \A k \in 1..Len(q) : q[k] # 32)
FieldExact(kind, s, q) == q = Quote(kind, s)
====
