---- MODULE DatagramScen ----
(* Scenario generator for C39: the shapes of ICP v2/v3, HTCP and SNMP (BER) datagrams and where they are damaged:
   every length/count field forced to {0, 1, actual-1, actual+1, max}, every truncation point class, opcode/version
   out of range, and pure garbage.  One datagram family per class.  "wellformed_sweep": well-formed requests whose *content*
   is extreme - SNMP GET/GETNEXT for object identifiers all over (and next to) the Squid MIB with boundary sub-identifiers
   (table rows and columns 0, 1, last, last+1, 2^16, 2^31, 2^32-1), ICP queries/replies with every opcode and odd URLs, HTCP
   with every opcode. *)
EXTENDS Naturals, TLC, Json
VARIABLES par, done
vars == <<par, done>>
Init == par \in [proto : {"icp2", "icp3", "htcp", "snmp"},
                 shape : {"valid_query", "valid_reply", "bad_opcode", "bad_version", "len_zero", "len_one", "len_minus", "len_plus", "len_max",
                          "truncated_head", "truncated_body", "no_nul", "nested_len", "count_huge", "garbage", "empty", "oversize",
                          "wellformed_sweep"}]
        /\ done = FALSE
Next == ~done /\ done' = TRUE /\ UNCHANGED par
Spec == Init /\ [][Next]_vars
Dump == done => PrintT(<<"SCEN", ToJson([par |-> par])>>)
====
