---- MODULE CollapseScen ----
(* I-layer / scenario generator for C18: a writer (first request) and followers that arrive at one of four points of the
   writer's fetch; the fetch ends ok, aborts in mid-body, or its head makes it unshareable.  Followers attach to the
   in-progress entry (collapse) when it is shareable or not yet known; if the head turns out unshareable the waiting
   followers each fetch on their own.  TLC checks: with a shareable, successful writer no follower that arrived during
   the fetch causes a fetch. *)
EXTENDS Naturals, FiniteSets, TLC, Json
Points == {"beforeHead", "afterHead", "midBody", "afterDone"}
VARIABLES par, fetches
vars == <<par, fetches>>
\* fresh: how long the (shareable) response may be reused without asking again: "fresh" (max-age=3600), or one of the
\* cacheable-but-always-revalidate forms: "nocache" (no-cache + ETag), "mustreval0" (max-age=0, must-revalidate + Last-Modified),
\* "expired" (Expires = Date + Last-Modified).  A follower that arrived during the fetch shares it in every case.
Init == /\ par \in [f1 : Points, f2 : Points, f3 : Points \cup {"absent"}, outcome : {"ok", "abort", "unshareable"}, w1 : 1..2, w2 : 1..2, w3 : 1..2, workers : 1..2,
                    fresh : {"fresh", "nocache", "mustreval0", "expired"},
                    primed : BOOLEAN]      \* the response is already stored (and must be revalidated): the burst meets a conditional fetch answered 304
        /\ (par.primed => par.fresh = "nocache" /\ par.outcome = "ok" /\ par.workers = 1)
        /\ (par.workers = 1 => par.w1 = 1 /\ par.w2 = 1 /\ par.w3 = 1)
        /\ (par.outcome # "ok" => par.fresh = "fresh")
        /\ fetches = 0 - 1
During(p) == p \in {"beforeHead", "afterHead", "midBody"}
Followers == {par.f1, par.f2} \cup (IF par.f3 = "absent" THEN {} ELSE {par.f3})
\* predicted number of additional origin requests (not counting the writer's)
\* (followers arriving after the head of a must-revalidate style reply are ordinary requests for a stale response: not predicted)
Extra == IF par.outcome = "ok" /\ (par.fresh = "fresh" \/ Followers \subseteq {"beforeHead"}) THEN 0 ELSE 99     \* 99: not predicted
Next == fetches < 0 /\ fetches' = Extra /\ UNCHANGED par
Spec == Init /\ [][Next]_vars
OkMeansOne == (fetches >= 0 /\ par.outcome = "ok" /\ par.fresh = "fresh") => fetches = 0
Dump == fetches >= 0 => PrintT(<<"SCEN", ToJson([par |-> par, extra |-> fetches])>>)
====
