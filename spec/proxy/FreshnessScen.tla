---- MODULE FreshnessScen ----
(* I-layer / scenario generator for C12: Squid's freshness decision (refreshCheck with default refresh_pattern,
   explicit lifetimes only) as a function of the stored response's metadata, the second request's Cache-Control and
   the clock.  TLC enumerates every parameter tuple, checks that whenever this model predicts a cache hit the P-layer
   guard (Freshness!MayServeFromCache) allows it, and prints each tuple as a scenario class with the prediction. *)
EXTENDS Naturals, Integers, TLC, Json
NoVal == 0 - 1
Lives == {0, 100, 3600}
VARIABLES par, pred
vars == <<par, pred>>
ReqKinds == {"none", "maxage0", "maxage30", "maxstale", "maxstale10", "minfresh10", "nocache", "pragma"}
\* offsets relative to the lifetime: just inside, just outside, far outside (margin 2 s around the boundary)
Offs == {"in", "out", "far"}
OffsetOf(life, age0, o) == LET rem == life - age0 IN
   IF o = "in" THEN (IF rem - 2 >= 0 THEN rem - 2 ELSE 0) ELSE IF o = "out" THEN (IF rem + 3 > 0 THEN rem + 3 ELSE 3) ELSE rem + 5000
Init == /\ par \in [kind : {"maxage", "smaxage", "expires"}, life : Lives, age0 : {0, 30}, ageHow : {"none", "agehdr", "date"},
                    reval : {"none", "must", "proxy"}, req : ReqKinds, off : Offs,
                    delay : {0, 5}]   \* seconds (of Squid's clock) the origin takes to answer the storing request
        /\ (par.age0 = 0 <=> par.ageHow = "none")
        /\ pred = "?"
Clk == OffsetOf(par.life, par.age0, par.off)
\* Squid adds the time the origin took to answer to the age (timestampsSet); the property counts from the moment the
\* response was sent (PAge)
AgeAt == Clk + par.age0 + par.delay
PAge == Clk + par.age0
StaleAt == AgeAt >= par.life   \* squid: expires <= check_time is stale
MustReval == par.reval # "none" \/ par.kind = "smaxage"
\* Squid stores a response only if it stays fresh for more than 60 s after arrival (refreshIsCachable)
Cachable == TRUE
Predict ==
  IF par.life = 0 /\ par.req \in {"maxstale", "maxstale10"} THEN "any"   \* zero lifetime + max-stale: depends on sub-second timing; not predicted
  ELSE IF par.req \in {"nocache", "pragma", "maxage0"} THEN "contact"
  ELSE IF par.req = "maxage30" /\ AgeAt > 30 THEN "contact"
  ELSE IF par.req = "minfresh10" /\ AgeAt + 10 > par.life THEN "contact"
  ELSE IF ~StaleAt THEN "hit"
  ELSE IF MustReval THEN "contact"
  ELSE IF par.req = "maxstale" THEN "hit"
  ELSE IF par.req = "maxstale10" /\ AgeAt - par.life < 10 THEN "hit"
  ELSE "contact"
Next == pred = "?" /\ pred' = Predict /\ UNCHANGED par
Spec == Init /\ [][Next]_vars
\* Impl => P on this abstraction: a predicted hit is allowed by the property
RNoCache == par.req \in {"nocache", "pragma"}
RMaxAge == IF par.req = "maxage0" THEN 0 ELSE IF par.req = "maxage30" THEN 30 ELSE NoVal
RMaxStale == IF par.req = "maxstale" THEN 0 - 2 ELSE IF par.req = "maxstale10" THEN 10 ELSE NoVal
HitAllowed == /\ ~RNoCache /\ RMaxAge # 0
              /\ (PAge > par.life + 1 => (~MustReval /\ (RMaxStale = 0 - 2 \/ (RMaxStale >= 0 /\ PAge <= par.life + RMaxStale + 1))))
ImplRefinesP == pred = "hit" => HitAllowed
Dump == pred # "?" => PrintT(<<"SCEN", ToJson([par |-> par, pred |-> pred, clk |-> Clk])>>)
====
