---- MODULE ReqRelayImpl ----
(* I-layer / scenario generator for C02: a request body travelling client -> Squid -> origin.  The client writes the
   head, body units and either finishes the framing or aborts; Squid buffers (BodyPipe) and forwards; the origin's
   reader sees a prefix.  Same property as C01 with the roles swapped (Relay!Faithful on units). *)
EXTENDS Naturals, Integers, TLC, Json
CONSTANTS MaxUnits
VARIABLES par, csent, cfin, chead, stage, uframing, relayed, ofin
vars == <<par, csent, cfin, chead, stage, uframing, relayed, ofin>>
Init ==
  /\ par \in [method : {"POST", "PUT"}, cframing : {"length", "chunked"}, units : 0..MaxUnits, abortAt : (0 - 1)..MaxUnits,
              expect : BOOLEAN, ext : BOOLEAN, trailers : BOOLEAN,
              early : BOOLEAN]     \* the origin answers (complete, keep-alive) as soon as it has the head, while the client is
                                   \* stuck in the middle of the body; another request for the same origin follows before the client gives up
  /\ par.abortAt <= par.units
  /\ (par.early => par.abortAt >= 0 /\ ~par.expect)
  /\ (par.cframing = "length" => ~par.ext /\ ~par.trailers)
  /\ (par.abortAt >= 0 => par.units > 0)
  /\ csent = 0 /\ cfin = "no" /\ chead = FALSE /\ stage = "idle" /\ uframing = "none" /\ relayed = 0 /\ ofin = "open"
CHead == ~chead /\ chead' = TRUE /\ UNCHANGED <<par, csent, cfin, stage, uframing, relayed, ofin>>
CUnit == /\ chead /\ cfin = "no" /\ csent < par.units /\ (par.abortAt < 0 \/ csent < par.abortAt)
         /\ csent' = csent + 1 /\ UNCHANGED <<par, cfin, chead, stage, uframing, relayed, ofin>>
CFinish == /\ chead /\ cfin = "no" /\ csent = par.units /\ par.abortAt < 0 /\ cfin' = "complete"
           /\ UNCHANGED <<par, csent, chead, stage, uframing, relayed, ofin>>
CAbort == /\ chead /\ cfin = "no" /\ par.abortAt >= 0 /\ csent = par.abortAt /\ cfin' = "aborted"
          /\ UNCHANGED <<par, csent, chead, stage, uframing, relayed, ofin>>
\* Squid forwards the head: Content-Length when the client declared one, chunked otherwise
SHead == /\ stage = "idle" /\ chead /\ stage' = "relaying"
         /\ uframing' = IF par.cframing = "length" THEN "length" ELSE "chunked"
         /\ UNCHANGED <<par, csent, cfin, chead, relayed, ofin>>
SUnit == /\ stage = "relaying" /\ relayed < csent /\ relayed' = relayed + 1
         /\ UNCHANGED <<par, csent, cfin, chead, stage, uframing, ofin>>
SEndOk == /\ stage = "relaying" /\ cfin = "complete" /\ relayed = csent /\ stage' = "done" /\ ofin' = "complete"
          /\ UNCHANGED <<par, csent, cfin, chead, uframing, relayed>>
SEndAbort == /\ stage = "relaying" /\ cfin = "aborted" /\ stage' = "done" /\ ofin' = "closedEarly"
             /\ UNCHANGED <<par, csent, cfin, chead, uframing, relayed>>
Next == CHead \/ CUnit \/ CFinish \/ CAbort \/ SHead \/ SUnit \/ SEndOk \/ SEndAbort
Spec == Init /\ [][Next]_vars
Prefix == relayed <= csent
CompleteIsWhole == ofin = "complete" => (cfin = "complete" /\ relayed = par.units)
AbortVisible == (cfin = "aborted" /\ stage = "done") => ofin # "complete"
Dump == stage = "done" => PrintT(<<"SCEN", ToJson([par |-> par, uframing |-> uframing, ofin |-> ofin])>>)
====
