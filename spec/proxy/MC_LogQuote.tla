---- MODULE MC_LogQuote ----
(* the laws on the spec itself: for every string up to length 3 over a representative alphabet, every quoting is reversible,
   produces no raw line break and no bare delimiter *)
EXTENDS LogQuote, TLC
Alpha == {97, 34, 92, 13, 10, 9, 32, 37, 91, 93, 39, 35, 127, 200, 50}
Strs == {<<>>} \cup {<<a>> : a \in Alpha} \cup {<<a, b>> : a \in Alpha, b \in Alpha} \cup {<<a, b, c>> : a \in Alpha, b \in {34, 92, 32, 37, 13, 50}, c \in Alpha}
Kinds == {"qs", "mb", "url", "sh"}
VARIABLES s, k
Init == s \in Strs /\ k \in Kinds
Next == UNCHANGED <<s, k>>
Law == FieldOk(k, s, Quote(k, s))
====
