---- MODULE Framing ----
(* P-layer for C03 (no request smuggling).  The client byte stream of one connection has, under RFC 9112 section 6.3,
   a small set of admissible readings (candidate message sequences): the strict reading, readings using a tolerance the RFC
   permits (e.g. TE overrides CL, identical duplicate Content-Length), each possibly cut short at the message that may or
   must be rejected.  The requests the origin observes, in order, must be a prefix of ONE admissible reading - same
   method, target and body bytes (the driver reports for each observed request which readings it equals at that
   position) - and no forwarded request may carry Content-Length together with Transfer-Encoding or several
   Content-Length fields. *)
EXTENDS Naturals, FiniteSets, Sequences
VARIABLES alive,   \* candidate readings still consistent with what the origin has seen
          seen     \* number of requests observed so far
gvars == <<alive, seen>>
\* lens[c] = number of messages of candidate c that may be forwarded (0 for "reject everything from the first message")
GInit(ncand) == alive = 1..ncand /\ seen = 0
Obs(okfor, lens, hasCL, hasTE, nCL) ==
  /\ ~(hasCL /\ hasTE) /\ nCL <= 1
  /\ LET a == {c \in alive : c \in okfor /\ lens[c] >= seen + 1} IN
     /\ a # {}
     /\ alive' = a
  /\ seen' = seen + 1
====
