SPECIFICATION Spec
CONSTANTS Ids = {1, 12}  PopEarly = TRUE
INVARIANTS RightReply Quiescent
CHECK_DEADLOCK FALSE
