---- MODULE Restart ----
(* P-layer for C17 and C16 (E level).  Before the restart the origin produced versions for keys; `last[k]` is the version a
   client last received completely for k and that was neither replaced nor invalidated afterwards.
   C17 (clean shutdown): after the restart a request for k is answered from the cache with exactly last[k].
   C16 (kill at an arbitrary disk write): after the restart a response that is served from the cache must be exactly one
   complete version produced before the kill (never a mixture, never truncated-as-complete); misses are allowed. *)
EXTENDS Naturals, Integers, FiniteSets
VARIABLES vers, last, phase
rvars == <<vers, last, phase>>
NoVal == 0 - 1
RInit == vers = <<>> /\ last = <<>> /\ phase = "before"
Ext(f, k, v) == [x \in DOMAIN f \cup {k} |-> IF x = k THEN v ELSE f[x]]
\* the origin has sent version v of key completely (len bytes)
Produced(v, key, len) == vers' = Ext(vers, v, [key |-> key, len |-> len]) /\ UNCHANGED <<last, phase>>
\* ... and a client received it completely
Stored(v, key, len) == phase = "before" /\ vers' = Ext(vers, v, [key |-> key, len |-> len]) /\ last' = Ext(last, key, v) /\ UNCHANGED phase
Purged(key) == phase = "before" /\ last' = Ext(last, key, NoVal) /\ UNCHANGED <<vers, phase>>
Stop(kind) == phase = "before" /\ phase' = kind /\ UNCHANGED <<vers, last>>     \* "clean" or "killed"
\* after the restart: request for key answered; contacted = the origin was asked
After(key, contacted, hv, bv, blen, intact, complete) ==
  /\ phase \in {"clean", "killed"}
  /\ (~contacted /\ hv # NoVal) =>
        /\ hv \in DOMAIN vers /\ vers[hv].key = key /\ bv \in {hv, NoVal} /\ intact /\ complete /\ blen = vers[hv].len
  /\ (phase = "clean" /\ key \in DOMAIN last /\ last[key] # NoVal) => (~contacted /\ hv = last[key])
  /\ UNCHANGED rvars
====
