---- MODULE Trace_Conditional ----
EXTENDS Conditional, TraceLib
VARIABLES h, l
TInit == CInit /\ h \in 1..NHist /\ l = 1
Ev == Events(h)[l]
Adv == l' = l + 1 /\ h' = h
More == l <= Len(Events(h))
ToSet(s) == {s[i] : i \in 1..Len(s)}
TSkip == More /\ Ev.e = "Clock" /\ UNCHANGED cvars /\ Adv
TReq == More /\ Ev.e = "Req" /\ Req(Ev.id, ToSet(Ev.inm), Ev.ims, Ev.ifm) /\ Adv
TFwd == More /\ Ev.e = "Fwd" /\ Fwd(Ev.id) /\ Adv
TOResp == More /\ Ev.e = "OResp" /\ OResp(Ev.v, Ev.status, Ev.etag, Ev.gen, ToSet(Ev.multi), Ev.blen) /\ Adv
TCResp == More /\ Ev.e = "CResp" /\ CResp(Ev.id, Ev.status, Ev.hv, Ev.bv, Ev.gen, ToSet(Ev.multi), Ev.blen, Ev.complete, Ev.declared) /\ Adv
TNext == TSkip \/ TReq \/ TFwd \/ TOResp \/ TCResp
Mark == MarkAccepted(h, l)
====
