---- MODULE VaryCache ----
(* P-layer for C13: a response stored with Vary is served from cache only to requests whose nominated header fields
   match those of the request that stored it; Vary: * is never served from cache.
   Header values are abstract ids (0 = absent); the driver gives equal ids only to identical field values. *)
EXTENDS Naturals, Integers, FiniteSets
VARIABLES vers, contacted, reqs
yvars == <<vers, contacted, reqs>>
NoVal == 0 - 1
Slots == {"h1", "h2"}
YInit == vers = <<>> /\ contacted = {} /\ reqs = <<>>
Ext(f, k, v) == [x \in DOMAIN f \cup {k} |-> IF x = k THEN v ELSE f[x]]
Req(id, v1, v2) == reqs' = Ext(reqs, id, [h1 |-> v1, h2 |-> v2]) /\ UNCHANGED <<vers, contacted>>
Fwd(id) == contacted' = contacted \cup {id} /\ UNCHANGED <<vers, reqs>>
\* vary: subset of Slots; star: Vary: *
OResp(id, v, vary1, vary2, star) ==
  /\ vers' = Ext(vers, v, [vary |-> {s \in Slots : (s = "h1" /\ vary1) \/ (s = "h2" /\ vary2)}, star |-> star, by |-> reqs[id]])
  /\ UNCHANGED <<contacted, reqs>>
Matches(m, r) == ~m.star /\ \A s \in m.vary : r[s] = m.by[s]
CResp(id, hv) ==
  /\ (IF id \in contacted \/ hv = NoVal \/ hv \notin DOMAIN vers THEN TRUE ELSE Matches(vers[hv], reqs[id]))
  /\ UNCHANGED yvars
====
