---- MODULE Conf_ErrorPage ----
EXTENDS ErrorPage, ConfLib
Case == Cases[i]
ToSet(s) == {s[k] : k \in 1..Len(s)}
CaseOk == i > 0 => PageOk(Case.squidPage, ToSet(Case.forms))
ImplOk == TRUE
====
