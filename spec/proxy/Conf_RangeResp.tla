---- MODULE Conf_RangeResp ----
EXTENDS RangeResp, ConfLib
Case == Cases[i]
CaseOk == i > 0 => RangeOk(Case.status, Case.specs, Case.len, Case.parts, Case.fullOk)
ImplOk == TRUE
====
