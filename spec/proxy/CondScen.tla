---- MODULE CondScen ----
(* Scenario generator / I-layer for C14: stored ETag, client validators, and the shape of the history
   (cached and fresh / stale then revalidated by the origin with 304 or 200).  Prediction = what
   clientReplyContext::processConditional answers from a fresh cached entry. *)
EXTENDS Naturals, FiniteSets, TLC, Json
VARIABLES par, pred
vars == <<par, pred>>
Opaque(e) == IF e \in {1, 2} THEN 1 ELSE IF e = 3 THEN 3 ELSE 0
Init == /\ par \in [etag : 0..3, inm : {s \in SUBSET {1, 2, 3, 4} : Cardinality(s) <= 2}, ims : {"none", "lt", "eq", "gt"},
                    ifm : 0..4, shape : {"cached", "reval304", "reval200", "reval304c"}]   \* reval304c: the stale entry is requested WITH client validators
        /\ (par.shape \in {"reval304", "reval200"} => par.inm = {} /\ par.ims = "none" /\ par.ifm = 0)
        /\ pred = "?"
IfMatchOk == par.ifm = 0 \/ par.ifm = 4 \/ (par.ifm \in {1, 3} /\ par.ifm = par.etag)
InmMatch == 4 \in par.inm \/ \E e \in par.inm : Opaque(e) # 0 /\ Opaque(e) = Opaque(par.etag)
Predict == IF par.shape \in {"reval304", "reval200"} THEN "200"
           ELSE IF ~IfMatchOk THEN "412"
           ELSE IF par.inm # {} THEN (IF InmMatch THEN "304" ELSE "200")
           ELSE IF par.ims \in {"eq", "gt"} THEN "304" ELSE "200"
Next == pred = "?" /\ pred' = Predict /\ UNCHANGED par
Spec == Init /\ [][Next]_vars
ImplRefinesP == (pred = "304" => (IF par.inm # {} THEN InmMatch ELSE par.ims \in {"eq", "gt"})) /\ (pred = "200" => IfMatchOk)
Dump == pred # "?" => PrintT(<<"SCEN", ToJson([par |-> par, pred |-> pred])>>)
====
