---- MODULE RangeScen ----
(* Scenario generator for C15: range-spec lists over abstract positions of an object of length L (L >= 4):
   positions 0, 1, mid, L-1, L, L+10.  TLC enumerates lists of 1 and 2 specs (every combination) and prints them with
   the predicted class (206 / 200 ignore / 416) computed from RangeResp on a model length. *)
EXTENDS RangeResp, TLC, Json
Pos == {"0", "1", "mid", "last", "len", "beyond"}
ModelLen == 8
Val(p) == CASE p = "0" -> 0 [] p = "1" -> 1 [] p = "mid" -> 4 [] p = "last" -> 7 [] p = "len" -> 8 [] p = "beyond" -> 18
Single == [k : {"fl"}, a : Pos, b : Pos] \cup [k : {"f"}, a : Pos, b : {"0"}] \cup [k : {"s"}, a : Pos, b : {"0"}]
VARIABLES par, pred
vars == <<par, pred>>
Init == /\ par \in [specs : {<<s>> : s \in Single} \cup {<<s, t>> : s \in Single, t \in Single}, cached : BOOLEAN]
        /\ pred = "?"
Conc(specs) == [i \in 1..Len(specs) |-> [k |-> specs[i].k, a |-> Val(specs[i].a), b |-> Val(specs[i].b)]]
Predict == LET c == Conc(par.specs) IN
           IF ~ValidSyntax(c) THEN "200" ELSE IF ~AnySat(c, ModelLen) THEN "416" ELSE "206"
Next == pred = "?" /\ pred' = Predict /\ UNCHANGED par
Spec == Init /\ [][Next]_vars
Dump == pred # "?" => PrintT(<<"SCEN", ToJson([par |-> par, pred |-> pred])>>)
====
