SPECIFICATION Spec
CONSTANTS MaxW = 3
INVARIANTS PrefixOk CloserDelivered
CONSTRAINT Dump
CHECK_DEADLOCK FALSE
