---- MODULE Conf_Mgr ----
EXTENDS Mgr, ConfLib
Case == Cases[i]
ToSet(s) == {s[k] : k \in 1..Len(s)}
Cfg(cf) == [k \in 1..Len(cf) |-> [pw |-> cf[k].pw, actions |-> ToSet(cf[k].actions)]]
CaseOk == i > 0 => MgrOk(Case.access, Cfg(Case.cfg), Case.action, Case.supplied, Case.report)
ImplOk == i > 0 => MgrExact(Case.access, Cfg(Case.cfg), Case.action, Case.supplied, Case.report)
====
