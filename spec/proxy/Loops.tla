---- MODULE Loops ----
(* P-layer for C63.  own: the request's Via header names this Squid (the exact token Squid itself appends);
   mf: Max-Forwards value (-1 absent, -2 not a number / out of range). *)
EXTENDS Naturals, Integers
VARIABLES req
lvars == <<req>>
LInit == req = [own |-> FALSE, method |-> "", mf |-> 0 - 1]
Req(own, method, mf) == req' = [own |-> own, method |-> method, mf |-> mf]
LimitedMethod == req.method \in {"TRACE", "OPTIONS"}
\* the origin received the request; mfSeen: Max-Forwards it saw (-1 absent, -2 garbage)
Fwd(mfSeen) ==
  /\ ~req.own
  /\ ~(LimitedMethod /\ req.mf = 0)
  /\ (LimitedMethod /\ req.mf > 0 => mfSeen = req.mf - 1)
  /\ UNCHANGED req
====
