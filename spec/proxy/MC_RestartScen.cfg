SPECIFICATION Spec
CONSTANTS MaxOps = 4
INVARIANT TypeOK
CONSTRAINT Dump
CHECK_DEADLOCK FALSE
