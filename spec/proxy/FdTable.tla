---- MODULE FdTable ----
(* P-layer for C08: Squid keeps running through any history of completed, aborted, stalled and reset connections, and
   once traffic has stopped and timeouts have expired its number of open descriptors is back at the idle baseline
   (idle persistent connections may remain up to the configured limit; the driver expires them too, so limit = 0). *)
EXTENDS Naturals, Integers
VARIABLES baseline, alive
fvars == <<baseline, alive>>
FInit == baseline = 0 - 1 /\ alive = TRUE
Baseline(n) == baseline' = n /\ UNCHANGED alive
\* a batch of abort histories ran; then quiescence: fds open now, idle pconns allowed
Quiescent(fds, idleAllowed, stillAlive) ==
  /\ stillAlive
  /\ fds <= baseline + idleAllowed
  /\ alive' = stillAlive /\ UNCHANGED baseline
====
