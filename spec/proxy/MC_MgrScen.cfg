SPECIFICATION Spec
INVARIANTS DisableWins EmptyNeverMatches
CONSTRAINT Dump
CHECK_DEADLOCK FALSE
