---- MODULE Trace_Invalidation ----
EXTENDS Invalidation, TraceLib
VARIABLES h, l
TInit == IInit /\ h \in 1..NHist /\ l = 1
Ev == Events(h)[l]
Adv == l' = l + 1 /\ h' = h
More == l <= Len(Events(h))
TSkip == More /\ Ev.e = "Clock" /\ UNCHANGED ivars /\ Adv
TReq == More /\ Ev.e = "Req" /\ Req(Ev.id, Ev.key) /\ Adv
TFwd == More /\ Ev.e = "Fwd" /\ Fwd(Ev.id) /\ Adv
TOResp == More /\ Ev.e = "OResp" /\ OResp(Ev.id, Ev.v, Ev.invalidates, Ev.lockey) /\ Adv
TCResp == More /\ Ev.e = "CResp" /\ CResp(Ev.id, Ev.hv) /\ Adv
TNext == TSkip \/ TReq \/ TFwd \/ TOResp \/ TCResp
Mark == MarkAccepted(h, l)
====
