---- MODULE Conf_PctCoding ----
(* C31 conformance.  Cases: "rt" (a byte string s, its Encode under ignore sets 0..4 with the Decode of each, its rfc1738
   escapes in three modes with the unescape of each), "dec" (Decode and rfc1738_unescape of an arbitrary string),
   "bulk" (driver-checked laws over an exhaustive family of strings: count of failures). *)
EXTENDS PctCoding, ConfLib
Case == Cases[i]
HasPct(s) == \E j \in 1..Len(s) : s[j] = 37
POk(k) ==
  /\ ~k.ub
  /\ CASE k.fn = "rt" ->
            /\ \A j \in 1..Len(k.enc) :
                 LET r == k.enc[j] IN
                 (37 \notin IgnoreSet(r.id) \/ ~HasPct(k.s)) =>
                     /\ EncodeOk(k.s, IgnoreSet(r.id), r.e)            \* alphabet + it IS a percent-encoding of s
                     /\ r.dok /\ r.d = k.s                             \* "decoding the percent-encoding of s gives back s"
            /\ \A j \in 1..Len(k.esc) :
                 LET r == k.esc[j] IN
                 /\ Len(r.u) <= Len(r.e)                               \* unescaping happens in place: never longer
                 /\ (r.m # "unescaped" \/ ~HasPct(k.s)) => r.u = k.s   \* "escaping followed by unescaping returns the original"
       [] k.fn = "dec" -> Len(k.u) <= Len(k.x)
       [] k.fn = "bulk" -> k.bad = 0
IOk(k) ==
  CASE k.fn = "rt" ->
         /\ \A j \in 1..Len(k.enc) : LET r == k.enc[j] IN
              /\ r.e = Encode(k.s, IgnoreSet(r.id))
              /\ [ok |-> r.dok, v |-> r.d] = Decode(r.e)
         /\ \A j \in 1..Len(k.esc) : LET r == k.esc[j] IN r.e = Escape(k.s, r.m) /\ r.u = Unescape(r.e)
    [] k.fn = "dec" -> /\ [ok |-> k.dok, v |-> k.d] = Decode(k.x)
                       /\ k.nul \/ k.u = Unescape(k.x)
    [] k.fn = "bulk" -> TRUE
CaseOk == i > 0 => POk(Case)
ImplOk == i > 0 => IOk(Case)
====
