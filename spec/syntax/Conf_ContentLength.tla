---- MODULE Conf_ContentLength ----
(* C26 conformance on the same driver records as C25: the framing the code derives from a block versus ContentLength.tla. *)
EXTENDS HeaderBlock, ConfLib, TLC
Case == Cases[i]

\* how the callers will delimit the message, read off the accessors they use
ImplDecision(k) ==
  IF ~k.ok THEN [kind |-> "Reject", n |-> <<>>]
  ELSE IF k.te THEN [kind |-> IF k.unsupportedTe THEN "UnsupportedTE" ELSE "Chunked", n |-> <<>>]
  ELSE IF k.conflicting THEN [kind |-> "Bad", n |-> <<>>]
  ELSE IF k.clen.present THEN [kind |-> "Length", n |-> Norm(k.clen.mag)]
  ELSE [kind |-> "None", n |-> <<>>]

Tag(ok, what) == ok \/ (PrintT(<<"PFAIL", i, what>>) /\ FALSE)

\* P-layer: the statement of C26 (blocks C25 calls irregular have no agreed field list and are left to C25)
POk(k) ==
  LET pb == ParseBlock(k.block, k.owner, k.relaxed)
      d == ImplDecision(k) IN
  /\ Tag(~k.ub, "ub")
  /\ Tag((k.ok /\ k.clen.present) => ~k.clen.neg, "negative")
  /\ Tag((~pb.irregular /\ ~pb.nul) =>
            Allowed(ValuesOf(pb.fields, IsCL), k.relaxed, \E j \in 1..Len(pb.fields) : IsTE(pb.fields[j]), d), "framing")
  \* a Content-Length that stays readable by the callers (getInt64) is one the message may be framed with
  /\ Tag((k.ok /\ k.clen.present /\ ~pb.irregular /\ ~pb.nul) =>
            Allowed(ValuesOf(pb.fields, IsCL), k.relaxed, \E j \in 1..Len(pb.fields) : IsTE(pb.fields[j]), Length(k.clen.mag)), "stored-length")
  \* the re-parsed packed header is delimited the same way (a sanitised Content-Length says the same number)
  /\ Tag((k.ok /\ d.kind = "Length") => k.ok2 /\ k.clen2.present /\ ~k.clen2.neg /\ Norm(k.clen2.mag) = d.n, "repack")

\* I-layer: the exact decision of today's code
IOk(k) ==
  LET pb == ParseBlock(k.block, k.owner, k.relaxed)
      d == ImplDecision(k) IN
  (k.ok /\ ~pb.irregular) => /\ d = FramingDecision(pb.fields, k.relaxed)
                              /\ k.chunked = k.te
                              /\ (k.unsupportedTe => k.te)
                              /\ (k.conflicting2 = FALSE /\ k.unsupportedTe2 = k.unsupportedTe)

CaseOk == i > 0 => POk(Case)
ImplOk == i > 0 => IOk(Case)
====
