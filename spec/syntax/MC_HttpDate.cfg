INIT Init
NEXT Next
INVARIANTS Inverse Successor Format WeekdayStep
CHECK_DEADLOCK FALSE
