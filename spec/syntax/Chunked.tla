---- MODULE Chunked ----
(* C24: chunked transfer coding (RFC 9112 section 7.1) as a reference encoder and an incremental reference decoder.

   Byte strings are Seq(0..255).  The decoder is a stage machine over a fixed input `in` of which only the first `n`
   bytes are visible (delivered so far); its state is
        [stage, size, left, pos, out, room, blk, at, soft]
   stage  : "size" | "ext" | "data" | "end" | "trailer" | "done" | "bad"
   size   : the current chunk's size, left: bytes of chunk data still to be moved (both Wide: values up to 2^63 - 1)
   pos    : first input byte not yet consumed (checkpoint: a later round restarts exactly here)
   out    : decoded bytes so far;  room: output space left in this round
   blk    : "" (can go on) | "more" (needs input beyond n) | "space" (needs output space)
   at/soft: position of the offending byte when stage = "bad"; soft = the rejection may be postponed until the next byte

   A tolerance record T selects the grammar:
     Strict        RFC 9112 exactly: chunk-size = 1*HEXDIG (no 0x, < 2^63), chunk-ext = *( BWS ";" BWS name [ BWS "=" BWS val ] ),
                   BWS = *( SP / HTAB ), val = token / quoted-string, CRLF line ends, trailer-section = *( field-line CRLF ) CRLF
     Tolerant(r)   Strict plus the tolerances the decoder documents: blanks between chunk-size and CRLF (Bug 4492), the
                   relaxed_header_parser whitespace set (SP HTAB VT FF CR) as BWS inside chunk-ext when r # 0, and a trailer
                   section that is any bytes up to the first empty line (CRLF or bare LF at a line start).
   The property (P-layer, see Conf_Chunked) demands the Strict result on every strictly valid or truncated-valid input and a
   rejection wherever even Tolerant rejects; in between either answer is allowed. *)
EXTENDS Naturals, Sequences, Wide

CR == 13
LF == 10
HexSet == (48..57) \cup (65..70) \cup (97..102)
TcharSet == {33, 35, 36, 37, 38, 39, 42, 43, 45, 46, 94, 95, 96, 124, 126} \cup (48..57) \cup (65..90) \cup (97..122)
Blank == {32, 9}
RelaxedWsp == {32, 9, 11, 12, 13}
QdSet == {9, 32, 33} \cup (35..91) \cup (93..126) \cup (128..255)         \* qdtext
QpSet == {9, 32} \cup (33..126) \cup (128..255)                          \* second byte of a quoted-pair
FieldSet == {9, 32} \cup (33..126) \cup (128..255)                       \* field-content bytes
NotLF == (0..255) \ {10}
HexVal(b) == IF b <= 57 THEN b - 48 ELSE IF b <= 70 THEN b - 55 ELSE b - 87

Strict == [bws |-> Blank, sizeBws |-> FALSE, laxTrailer |-> FALSE]
Tolerant(relaxed) == [bws |-> IF relaxed # 0 THEN RelaxedWsp ELSE Blank, sizeBws |-> TRUE, laxTrailer |-> TRUE]

Ok(p) == [t |-> "ok", p |-> p]
More == [t |-> "more", p |-> 0]
Bad(p) == [t |-> "bad", p |-> p]

RECURSIVE Skip(_, _, _, _)
\* first position >= k that is beyond the visible input or holds a byte outside S
Skip(in, n, k, S) == IF k <= n /\ in[k] \in S THEN Skip(in, n, k + 1, S) ELSE k

CrLf(in, n, k) == IF k > n THEN More ELSE IF in[k] # CR THEN Bad(k)
                  ELSE IF k + 1 > n THEN More ELSE IF in[k + 1] # LF THEN Bad(k + 1) ELSE Ok(k + 2)

RECURSIVE Quoted(_, _, _)
\* k: first byte after the opening DQUOTE
Quoted(in, n, k) ==
  LET j == Skip(in, n, k, QdSet) IN
  IF j > n THEN More
  ELSE IF in[j] = 34 THEN Ok(j + 1)
  ELSE IF in[j] = 92 THEN (IF j + 1 > n THEN More ELSE IF in[j + 1] \in QpSet THEN Quoted(in, n, j + 2) ELSE Bad(j + 1))
  ELSE Bad(j)

ExtVal(in, n, k) ==
  IF k > n THEN More
  ELSE IF in[k] = 34 THEN Quoted(in, n, k + 1)
  ELSE LET j == Skip(in, n, k, TcharSet) IN IF j = k THEN Bad(k) ELSE IF j > n THEN More ELSE Ok(j)

\* k: first byte after ";".  A token that touches the end of the visible input may still grow.
OneExt(in, n, k, T) ==
  LET a == Skip(in, n, k, T.bws) IN
  IF a > n THEN More ELSE
  LET b == Skip(in, n, a, TcharSet) IN
  IF b = a THEN Bad(a) ELSE IF b > n THEN More ELSE
  LET c == Skip(in, n, b, T.bws) IN
  IF c > n THEN More
  ELSE IF in[c] # 61 THEN Ok(b)                       \* valueless; blanks after the name belong to what follows
  ELSE LET d == Skip(in, n, c + 1, T.bws) IN IF d > n THEN More ELSE ExtVal(in, n, d)

RECURSIVE ExtList(_, _, _, _)
ExtList(in, n, k, T) ==
  LET a == Skip(in, n, k, T.bws) IN
  IF a > n THEN More
  ELSE IF in[a] # 59 THEN Ok(k)
  ELSE LET e == OneExt(in, n, a + 1, T) IN IF e.t # "ok" THEN e ELSE ExtList(in, n, e.p, T)

\* [ chunk-ext ] CRLF, k: first byte after the chunk-size digits
MetaSuffix(in, n, k, T) ==
  LET b0 == IF T.sizeBws THEN Skip(in, n, k, Blank) ELSE k IN
  IF b0 > n THEN More ELSE
  LET x == ExtList(in, n, b0, T) IN IF x.t # "ok" THEN x ELSE CrLf(in, n, x.p)

RECURSIVE HexValue(_, _, _)
\* Wide value of the hex digits in[a..b]
HexValue(in, a, b) == IF b < a THEN <<>> ELSE MulAdd(HexValue(in, a, b - 1), 16, HexVal(in[b]))

RECURSIVE FirstOver(_, _, _)
\* the digit position d >= k at which the value of in[k..d] first exceeds 2^63 - 1 (the caller knows there is one)
FirstOver(in, k, d) == IF ~Leq(HexValue(in, k, d), Max63) THEN d ELSE FirstOver(in, k, d + 1)

\* chunk-size at k: [t, p, v, soft]
ChunkSize(in, n, k) ==
  IF k > n THEN [t |-> "more", p |-> 0, v |-> <<>>, soft |-> FALSE]
  ELSE IF in[k] \notin HexSet THEN [t |-> "bad", p |-> k, v |-> <<>>, soft |-> FALSE]
  ELSE IF in[k] = 48 /\ k + 1 <= n /\ in[k + 1] \in {120, 88} THEN [t |-> "bad", p |-> k + 1, v |-> <<>>, soft |-> FALSE]
  ELSE LET j == Skip(in, n, k, HexSet)
           v == HexValue(in, k, j - 1) IN
       \* a digit run that already exceeds 2^63 - 1 cannot be completed; whether it is refused at once or when its end
       \* is seen is left open (soft)
       IF ~Leq(v, Max63) THEN [t |-> "bad", p |-> FirstOver(in, k, k), v |-> <<>>, soft |-> (j > n)]
       ELSE IF j > n THEN [t |-> "more", p |-> 0, v |-> <<>>, soft |-> FALSE]
       ELSE [t |-> "ok", p |-> j, v |-> v, soft |-> FALSE]

RECURSIVE StrictTrailer(_, _, _)
\* *( field-line CRLF ) CRLF
StrictTrailer(in, n, k) ==
  IF k > n THEN More
  ELSE IF in[k] = CR THEN (IF k + 1 > n THEN More ELSE IF in[k + 1] = LF THEN Ok(k + 2) ELSE Bad(k + 1))
  ELSE LET j == Skip(in, n, k, TcharSet) IN
       IF j = k THEN Bad(k) ELSE IF j > n THEN More ELSE IF in[j] # 58 THEN Bad(j)
       ELSE LET m == Skip(in, n, j + 1, FieldSet)
                e == CrLf(in, n, m) IN
            IF e.t # "ok" THEN e ELSE StrictTrailer(in, n, e.p)

RECURSIVE LaxTrailer(_, _, _)
\* anything up to the first empty line; k is a line start
LaxTrailer(in, n, k) ==
  IF k > n THEN More
  ELSE IF in[k] = LF THEN Ok(k + 1)
  ELSE IF in[k] = CR /\ k + 1 > n THEN More
  ELSE IF in[k] = CR /\ in[k + 1] = LF THEN Ok(k + 2)
  ELSE LET q == Skip(in, n, k, NotLF) IN IF q > n THEN More ELSE LaxTrailer(in, n, q + 1)

Trailer(in, n, k, T) == IF T.laxTrailer THEN LaxTrailer(in, n, k) ELSE StrictTrailer(in, n, k)

\* ---------------------------------------------------------------------------------------------------------------
\* the stage machine
\* ---------------------------------------------------------------------------------------------------------------
Unlimited == 2000000000
RECURSIVE ToNat(_)
ToNat(a) == IF a = <<>> THEN 0 ELSE a[1] + 10 * ToNat(Tail(a))
MinN(a, b) == IF a < b THEN a ELSE b

Init0 == [stage |-> "size", size |-> <<>>, left |-> <<>>, pos |-> 1, out |-> <<>>, room |-> Unlimited, blk |-> "",
          at |-> 0, soft |-> FALSE]
Block(st, why) == [st EXCEPT !.blk = why]
Fail(st, p, soft) == [st EXCEPT !.stage = "bad", !.at = p, !.soft = soft]
\* what a sub-parser result does to the state: ok -> G(position), more -> blocked, bad -> failed
Live(st) == st.stage \notin {"done", "bad"} /\ st.blk = ""

Step(in, n, st, T) ==
  CASE st.stage = "size" ->
         LET r == ChunkSize(in, n, st.pos) IN
         IF r.t = "more" THEN Block(st, "more") ELSE IF r.t = "bad" THEN Fail(st, r.p, r.soft)
         ELSE [st EXCEPT !.stage = "ext", !.size = r.v, !.left = r.v, !.pos = r.p]
    [] st.stage = "ext" ->
         LET r == MetaSuffix(in, n, st.pos, T) IN
         IF r.t = "more" THEN Block(st, "more") ELSE IF r.t = "bad" THEN Fail(st, r.p, FALSE)
         ELSE [st EXCEPT !.stage = IF st.size = <<>> THEN "trailer" ELSE "data", !.pos = r.p]
    [] st.stage = "data" ->
         LET avail == n + 1 - st.pos
             want == IF Leq(st.left, FromNat(avail)) THEN ToNat(st.left) ELSE avail
             m == MinN(want, st.room)
             left2 == Sub(st.left, FromNat(m))
             moved == [st EXCEPT !.out = st.out \o SubSeq(in, st.pos, st.pos + m - 1), !.pos = st.pos + m, !.left = left2,
                                 !.room = st.room - m] IN
         IF left2 = <<>> THEN [moved EXCEPT !.stage = "end"]
         ELSE IF m < want THEN Block(moved, "space") ELSE Block(moved, "more")
    [] st.stage = "end" ->
         LET r == CrLf(in, n, st.pos) IN
         IF r.t = "more" THEN Block(st, "more") ELSE IF r.t = "bad" THEN Fail(st, r.p, FALSE)
         ELSE [st EXCEPT !.stage = "size", !.pos = r.p, !.size = <<>>]
    [] st.stage = "trailer" ->
         LET r == Trailer(in, n, st.pos, T) IN
         IF r.t = "more" THEN Block(st, "more") ELSE IF r.t = "bad" THEN Fail(st, r.p, FALSE)
         ELSE [st EXCEPT !.stage = "done", !.pos = r.p]
    [] OTHER -> st

RECURSIVE Fix(_, _, _, _)
Fix(in, n, st, T) == IF Live(st) THEN Fix(in, n, Step(in, n, st, T), T) ELSE st

\* one parse round: n bytes visible, `room` bytes of output space (Unlimited = no limit), continuing from state st
Round(in, n, st, room, T) == Fix(in, n, [st EXCEPT !.blk = "", !.room = room], T)
RECURSIVE Rounds(_, _, _, _, _)
\* rounds with a drained output buffer of capacity cap until the decoder stops asking for space
Rounds(in, n, st, cap, T) == LET s == Round(in, n, st, cap, T) IN IF s.blk = "space" THEN Rounds(in, n, s, cap, T) ELSE s

Outcome(st) == IF st.stage = "done" THEN "Done" ELSE IF st.stage = "bad" THEN "Reject" ELSE "NeedMore"
Result(st) == [oc |-> Outcome(st), out |-> st.out, used |-> st.pos - 1, at |-> st.at, soft |-> st.soft]
\* Decode: the first n bytes of `in` in one piece, unlimited output space
Dec(in, n, T) == Result(Round(in, n, Init0, Unlimited, T))
Decode(bytes, T) == Dec(bytes, Len(bytes), T)

\* ---------------------------------------------------------------------------------------------------------------
\* the encoder: chunks is a sequence of [hex, ext, data] (hex = the chunk-size digits as written, denoting Len(data) > 0),
\* last = [hex (zeros), ext], trailer = the field lines (each with its CRLF)
\* ---------------------------------------------------------------------------------------------------------------
RECURSIVE HexDigits(_)
HexDigit(d) == IF d < 10 THEN 48 + d ELSE 87 + d
HexDigits(v) == IF v < 16 THEN <<HexDigit(v)>> ELSE HexDigits(v \div 16) \o <<HexDigit(v % 16)>>
RECURSIVE Zeros(_)
Zeros(k) == IF k = 0 THEN <<>> ELSE <<48>> \o Zeros(k - 1)
CRLF == <<13, 10>>
RECURSIVE EncodeChunks(_)
EncodeChunks(cs) == IF cs = <<>> THEN <<>>
                    ELSE Head(cs).hex \o Head(cs).ext \o CRLF \o Head(cs).data \o CRLF \o EncodeChunks(Tail(cs))
Encode(chunks, last, trailer) == EncodeChunks(chunks) \o last.hex \o last.ext \o CRLF \o trailer \o CRLF
RECURSIVE BodyOf(_)
BodyOf(cs) == IF cs = <<>> THEN <<>> ELSE Head(cs).data \o BodyOf(Tail(cs))

IsPrefix(a, b) == Len(a) <= Len(b) /\ a = SubSeq(b, 1, Len(a))
====
