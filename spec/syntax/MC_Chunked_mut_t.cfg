CONSTANTS Family = "mut" MaxBody = 2 Alpha = {97} NExt1 = 9 NExt2 = 1 MaxStr = 0 Alpha2 = {48, 49, 97, 120, 103, 59, 61, 34, 92, 32, 13, 10}
INIT Init
NEXT Next
INVARIANT Laws
CHECK_DEADLOCK FALSE
