---- MODULE PctCoding ----
(* C31: percent-encoding (RFC 3986 section 2.1) and the legacy RFC 1738 escaping.

   Reference functions over byte sequences (Seq(0..255)):
     Encode(s, ig)   every byte outside the ignore set ig becomes "%" HEXDIG HEXDIG (upper-case digits), others are copied
     Decode(s)       [ok, v]: every "%" must be followed by two hex digits (either case); anything else is copied
     Escape(s, m)    rfc1738_do_escape in mode m ("escape", "part", "unescaped"), s NUL-free
     Unescape(s)     rfc1738_unescape: %XX decoded except %00, "%%" is "%", malformed sequences are copied
   The property (P-layer) is stated on what an implementation returned:
     EncodeOk(s, ig, enc)   enc consists of ignored bytes and well-formed triplets only, and is A percent-encoding of s
                            (the reference decoder maps it back to s); the case of the hex digits is free
   Folds are used instead of recursion so that 4 KB strings can be evaluated. *)
EXTENDS Naturals, Sequences, SequencesExt

Rg(a, b) == a..b
Alpha == Rg(65, 90) \cup Rg(97, 122)
Digit == Rg(48, 57)
Unreserved == Alpha \cup Digit \cup {45, 46, 95, 126}                           \* - . _ ~
SubDelims == {33, 36, 38, 39, 40, 41, 42, 43, 44, 59, 61}                      \* ! $ & ' ( ) * + , ; =
\* the ignore sets used by the driver, by id
IgnoreSet(id) == CASE id = 0 -> {}
                   [] id = 1 -> Unreserved
                   [] id = 2 -> Unreserved \cup SubDelims \cup {58}             \* userinfo without "%"
                   [] id = 3 -> Unreserved \cup SubDelims \cup {58, 64, 47, 37} \* path characters, INCLUDING "%"
                   [] id = 4 -> Rg(0, 255) \ {37}
HexUp(n) == IF n < 10 THEN 48 + n ELSE 55 + n
HexVal(b) == IF b \in Digit THEN b - 48 ELSE IF b >= 65 /\ b <= 70 THEN b - 55 ELSE IF b >= 97 /\ b <= 102 THEN b - 87 ELSE 99
Triplet(b) == <<37, HexUp(b \div 16), HexUp(b % 16)>>
Encode(s, ig) == FlattenSeq([i \in 1..Len(s) |-> IF s[i] \in ig THEN <<s[i]>> ELSE Triplet(s[i])])

\* decoder as a fold: st = 0 outside a triplet, 1 after "%", 2 after "%H"
DecStep(a, b) ==
  IF ~a.ok THEN a
  ELSE IF a.st = 0 THEN (IF b = 37 THEN [a EXCEPT !.st = 1] ELSE [a EXCEPT !.v = Append(a.v, b)])
  ELSE IF HexVal(b) = 99 THEN [a EXCEPT !.ok = FALSE]
  ELSE IF a.st = 1 THEN [a EXCEPT !.st = 2, !.hi = HexVal(b)]
  ELSE [a EXCEPT !.st = 0, !.v = Append(a.v, a.hi * 16 + HexVal(b))]
Decode(s) == LET r == FoldLeft(DecStep, [ok |-> TRUE, st |-> 0, hi |-> 0, v |-> <<>>], s) IN
             IF r.ok /\ r.st = 0 THEN [ok |-> TRUE, v |-> r.v] ELSE [ok |-> FALSE, v |-> <<>>]

\* "the encoded form contains only unreserved or explicitly ignored characters plus well-formed %XX triplets":
\* outside triplets only ignored bytes occur; "%" always starts a triplet (also when "%" itself is ignored)
AlphaStep(ig, a, b) == IF ~a.ok THEN a
                               ELSE IF a.st = 0 THEN (IF b = 37 THEN [a EXCEPT !.st = 1] ELSE [a EXCEPT !.ok = b \in ig])
                               ELSE IF HexVal(b) = 99 THEN [a EXCEPT !.ok = FALSE]
                               ELSE [a EXCEPT !.st = (a.st + 1) % 3]
AlphabetOk(enc, ig) == LET r == FoldLeft(LAMBDA a, b : AlphaStep(ig, a, b), [ok |-> TRUE, st |-> 0], enc) IN r.ok /\ r.st = 0
EncodeOk(s, ig, enc) == AlphabetOk(enc, ig) /\ Decode(enc) = [ok |-> TRUE, v |-> s]

\* ---- RFC 1738 legacy escaping ----
Unsafe1738 == {60, 62, 34, 35, 123, 125, 124, 92, 94, 126, 91, 93, 96, 39}
Reserved1738 == {59, 47, 63, 58, 64, 61, 38}
Ctl1738 == Rg(0, 31) \cup Rg(127, 255)
\* bytes escaped in each mode (letters and digits never are)
Escaped(m) == CASE m = "escape" -> Unsafe1738 \cup Ctl1738 \cup {37, 32}
                [] m = "part" -> Unsafe1738 \cup Ctl1738 \cup {37, 32} \cup Reserved1738
                [] m = "unescaped" -> Unsafe1738 \cup Ctl1738 \cup {32}
Escape(s, m) == Encode(s, Rg(0, 255) \ Escaped(m))
\* rfc1738_unescape as a fold over positions: skip = number of following bytes already consumed
UnStep(s, a, j) ==
  IF a.skip > 0 THEN [a EXCEPT !.skip = a.skip - 1]
  ELSE IF s[j] # 37 THEN [a EXCEPT !.v = Append(a.v, s[j])]
  ELSE IF j < Len(s) /\ s[j + 1] = 37 THEN [v |-> Append(a.v, 37), skip |-> 1]
  ELSE IF j + 2 <= Len(s) /\ HexVal(s[j + 1]) # 99 /\ HexVal(s[j + 2]) # 99 /\ HexVal(s[j + 1]) * 16 + HexVal(s[j + 2]) > 0
       THEN [v |-> Append(a.v, HexVal(s[j + 1]) * 16 + HexVal(s[j + 2])), skip |-> 2]
  ELSE [a EXCEPT !.v = Append(a.v, 37)]
Unescape(s) == FoldLeft(LAMBDA a, j : UnStep(s, a, j), [v |-> <<>>, skip |-> 0], [j \in 1..Len(s) |-> j]).v
====
