---- MODULE StatusLine ----
(* C23: the status line of a response head.

   P-layer (the grammar, RFC 9112 section 4, with what relaxed_header_parser documents):
     status-line = ( "HTTP/1." DIGIT / "ICY" ) D 3DIGIT D *( HTAB / SP / VCHAR / obs-text ) EOL
       D   = SP                       (strict)      one of SP / HTAB / VT / FF / CR   (relaxed; "ICY" is always followed by SP)
       EOL = CR LF                    (strict)      LF or CR LF                         (relaxed)
       the three digits denote a value in 100..599
   StatusFields(w, relaxed) recognises it at the start of w and yields protocol, version, status, reason phrase and length.
   Anything that neither starts with "HTTP/" or "ICY " nor can still become such a start is an HTTP/0.9 response: no
   status line, every byte is body.

   I-layer: RespHead(w, relaxed, limit), the outcome of Http::One::ResponseParser for the whole input parsed at once
   (same shape as RequestHead: "more" / "err" / "ok" with proto, major, minor, code, reason, mime, consumed). *)
EXTENDS RequestHead
NoSL == [ok |-> FALSE]
D(relaxed) == IF relaxed # 0 THEN RELAXEDDELIM ELSE {SP}
DigitsVal(s, from) == (s[from] - 48) * 100 + (s[from + 1] - 48) * 10 + (s[from + 2] - 48)

\* status line at the start of w: [ok, proto, major, minor, code, reason, len]
StatusFields(w, relaxed) ==
  LET isHttp == StartsWith(w, HTTP1MAGIC) /\ Len(w) >= 8 /\ w[8] \in DIGIT
      isIcy == StartsWith(w, ICYMAGIC)
      p == IF isHttp THEN 8 ELSE 3                     \* length of the protocol token
  IN IF ~(isHttp \/ isIcy) THEN NoSL
     ELSE IF Len(w) < p + 5 THEN NoSL
     ELSE IF ~(w[p + 1] \in (IF isHttp THEN D(relaxed) ELSE {SP})) THEN NoSL
     ELSE IF ~(w[p + 2] \in DIGIT /\ w[p + 3] \in DIGIT /\ w[p + 4] \in DIGIT /\ w[p + 5] \in D(relaxed)) THEN NoSL
     ELSE LET code == DigitsVal(w, p + 2)
              rest == Drop(w, p + 5)
              rl == Span(rest, REASONCHAR)
              after == Drop(rest, rl)
              eol == IF relaxed # 0 /\ Len(after) >= 1 /\ after[1] = LF THEN 1
                     ELSE IF StartsWith(after, CRLF) THEN 2 ELSE 0 IN
          IF code < 100 \/ code > 599 \/ eol = 0 THEN NoSL
          ELSE [ok |-> TRUE, proto |-> IF isHttp THEN "http" ELSE "icy", major |-> IF isHttp THEN 1 ELSE 0,
                minor |-> IF isHttp THEN w[8] - 48 ELSE 0, code |-> code, reason |-> Take(rest, rl), len |-> p + 5 + rl + eol]

IsPrefixOf(a, b) == Len(a) <= Len(b) /\ Take(b, Len(a)) = a
\* w can no longer turn into something that starts with "HTTP/" or "ICY "
NotMagic(w) == /\ w # <<>>
               /\ ~IsPrefixOf(w, HTTPSLASH) /\ ~StartsWith(w, HTTPSLASH)
               /\ ~IsPrefixOf(w, ICYMAGIC) /\ ~StartsWith(w, ICYMAGIC)
IsGateway(out) == out.o = "ok" /\ out.consumed = 0

\* ---- the property for a one-shot outcome `out` on input w ----
StatusOk(w, relaxed, out) ==
  /\ (out.o = "ok" /\ ~IsGateway(out)) =>
        LET f == StatusFields(w, relaxed) IN
        /\ f.ok
        /\ out.proto = f.proto /\ out.major = f.major /\ out.minor = f.minor
        /\ out.code = f.code /\ out.reason = f.reason
        /\ out.code >= 100 /\ out.code <= 599
        /\ out.consumed >= f.len
  /\ IsGateway(out) => /\ ~StartsWith(w, HTTP1MAGIC) /\ ~StartsWith(w, ICYMAGIC)
                       /\ out.code = 200
  /\ NotMagic(w) => IsGateway(out)

\* ---- I-layer: the parser as it is ----
FakeMime == \* "X-Transformed-From: HTTP/0.9\r\nMime-Version: 1.0\r\nExpires: -1\r\n\r\n"
  <<88,45,84,114,97,110,115,102,111,114,109,101,100,45,70,114,111,109,58,32,72,84,84,80,47,48,46,57,13,10,
    77,105,109,101,45,86,101,114,115,105,111,110,58,32,49,46,48,13,10,
    69,120,112,105,114,101,115,58,32,45,49,13,10,13,10>>
Gatewaying == <<71,97,116,101,119,97,121,105,110,103>>
RAcc(proto, ma, mi, code, reason, mime, n) ==
  [o |-> "ok", status |-> 0, proto |-> proto, major |-> ma, minor |-> mi, code |-> code, reason |-> reason, mime |-> mime, consumed |-> n]

\* after the protocol token and its delimiter (`done` bytes consumed so far); magicLen is what firstLineSize() counts
StatusAndReason(rest, relaxed, limit, proto, ma, mi, done, magicLen) ==
  LET nd == LET k == Span(rest, DIGIT) IN IF k > 3 THEN 3 ELSE k IN
  IF nd = 0 THEN (IF rest = <<>> THEN More(done) ELSE Err(600))
  ELSE IF Len(rest) = nd THEN More(done)
  ELSE IF rest[nd + 1] \notin D(relaxed) THEN Err(600)
  ELSE IF nd < 3 THEN Err(600)
  ELSE LET code == DigitsVal(rest, 1) IN
  IF code < 100 \/ code > 599 THEN Err(600) ELSE
  LET done2 == done + 4
      r2 == Drop(rest, 4)
      rl == Span(r2, REASONCHAR)
      after == Drop(r2, rl)
      eol == IF relaxed # 0 /\ Len(after) >= 1 /\ after[1] = LF THEN 1
             ELSE IF StartsWith(after, CRLF) THEN 2 ELSE 0 IN
  IF eol = 0 THEN (IF IsPrefixOf(after, CRLF) THEN More(done2) ELSE Err(600)) ELSE
  LET reason == Take(r2, rl)
      c1 == done2 + rl + eol
      blk == Drop(r2, rl + eol)
      fls == magicLen + 1 + 5 + rl + 2
      he == HeadersEnd(blk) IN
  IF he = 0 THEN (IF Len(blk) + fls >= limit THEN Err(601) ELSE More(c1))
  ELSE IF fls + he >= limit THEN Err(601)
  ELSE RAcc(proto, ma, mi, code, reason, MimeBlock(Take(blk, he), HasObsFold(blk, he)), c1 + he)

RespHead(w, relaxed, limit) ==
  IF w = <<>> THEN More(0)
  ELSE IF StartsWith(w, HTTP1MAGIC) THEN
    LET t == Drop(w, 7) IN
    IF t = <<>> THEN More(0)
    ELSE IF t[1] \notin DIGIT THEN Err(600)
    ELSE IF Len(t) = 1 THEN More(0)
    ELSE IF t[2] \notin D(relaxed) THEN Err(600)
    ELSE StatusAndReason(Drop(t, 2), relaxed, limit, "http", 1, t[1] - 48, 9, 7)
  ELSE IF StartsWith(w, ICYMAGIC) THEN StatusAndReason(Drop(w, 4), relaxed, limit, "icy", 0, 0, 4, 4)
  ELSE IF (Len(w) < 7 /\ IsPrefixOf(w, HTTP1MAGIC)) \/ (Len(w) < 4 /\ IsPrefixOf(w, ICYMAGIC)) THEN More(0)
  ELSE RAcc("http", 1, 1, 200, Gatewaying, FakeMime, 0)

RSame(a, b) == /\ a.o = b.o
               /\ a.o = "err" => a.status = b.status
               /\ a.o = "more" => a.consumed = b.consumed
               /\ a.o = "ok" => /\ a.proto = b.proto /\ a.major = b.major /\ a.minor = b.minor /\ a.code = b.code
                                /\ a.reason = b.reason /\ a.mime = b.mime /\ a.consumed = b.consumed /\ a.status = b.status
====
