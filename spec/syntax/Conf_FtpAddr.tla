---- MODULE Conf_FtpAddr ----
(* C40 conformance.  Every case is one call of Ftp::ParseIpPort / Ftp::ParseProtoIpPort / ftpListParseParts on the real code.
   P-layer (the statement):
     ipport, proto   an address is yielded (ok) only when the reference says the string denotes one, i.e. every component
                     (as a mathematical value) is in range incl. port 1..65535, and then the yielded port - and the yielded
                     address unless it is deliberately replaced by forceIp / its spelling is not judged - are the ones written
     list            the call returned (abort = FALSE: no sanitizer/assert termination of the process)
     any             abort = FALSE
   I-layer (drift only): today's exact accept/reject decision (ftp_sanitycheck, any-address, the final '|', 16-bit port
   truncation) for inputs whose numbers have fewer than ten digits; a listing entry's name is a substring of the line;
   no UBSan report. *)
EXTENDS FtpAddr, ConfLib
Case == Cases[i]
POk(k) ==
  /\ ~k.abort
  /\ CASE k.fn = "ipport" -> (k.ok => LET r == IpPortRef(k.s) IN
                               /\ r.ok /\ k.port = r.port
                               /\ IF k.force THEN (LET f == ParseAddr(k.f) IN f.k \in {"v4", "v6"} => k.a = f.b)
                                  ELSE k.a = r.a /\ k.v4)
       [] k.fn = "proto" -> (k.ok => LET r == ProtoRef(k.s) IN
                              r.ok /\ k.port = r.port /\ (r.ak # "free" => k.a = r.a /\ k.v4 = (r.ak = "v4")))
       [] OTHER -> TRUE
\* ---- today's behaviour
AllShort(ts) == \A j \in 1..Len(ts) : Len(StripZeros(ts[j].digs)) <= 9
IsAny(b) == b = Zeros(16) \/ b = Mapped4(<<0, 0, 0, 0>>)
ImplIpPort(k) ==
  LET L == LexList(k.s, 1, 6) IN
  IF ~L.ok THEN ~k.ok
  ELSE IF ~AllShort(L.t) THEN TRUE
  ELSE LET v(j) == SVal(L.t[j])
           port == v(5) * 256 + v(6)
           accept == /\ v(5) >= 0 /\ v(5) <= 255 /\ v(6) >= 0 /\ v(6) <= 255
                     /\ (k.force \/ ((\A j \in 1..4 : v(j) >= 0 /\ v(j) <= 255) /\ \E j \in 1..4 : v(j) # 0))
                     /\ port > 0 /\ (k.sanity => port >= 1024)
       IN k.ok = accept
ImplProto(k) ==
  LET s == k.s
      d == s[1]
      t1 == LexInt(s, 2)
      p1e == IF t1.ok THEN t1.next ELSE 2 IN
  IF p1e > Len(s) \/ s[p1e] # d \/ ~t1.ok THEN ~k.ok
  ELSE IF Len(StripZeros(t1.digs)) > 9 THEN TRUE
  ELSE IF SVal(t1) \notin {1, 2} THEN ~k.ok
  ELSE LET e == IndexFrom(s, d, p1e + 1) IN
       IF e = 0 THEN ~k.ok
       ELSE LET a == AddrOf(SubSeq(s, p1e + 1, e - 1))
                tp == LexInt(s, e + 1)
                pe == IF tp.ok THEN tp.next ELSE e + 1
                pv == IF tp.ok THEN SVal(tp) ELSE 0 IN
            IF a.k = "free" \/ (tp.ok /\ Len(StripZeros(tp.digs)) > 9) THEN TRUE
            ELSE LET accept == /\ a.k = (IF SVal(t1) = 1 THEN "v4" ELSE "v6") /\ ~IsAny(a.b)
                               /\ pv >= 0 /\ pe <= Len(s) /\ s[pe] = 124 /\ (k.sanity => pv >= 1024)
                 IN k.ok = accept /\ (accept => k.port = pv % 65536)
\* n occurs in s at some position >= k
SubAt(s, n, k) == \E j \in k..(Len(s) - Len(n) + 1) : SubSeq(s, j, j + Len(n) - 1) = n
ImplList(k) == k.entry => SubAt(k.s, k.name, 1)
IOk(k) == /\ ~k.ub
          /\ CASE k.fn = "ipport" -> ImplIpPort(k)
               [] k.fn = "proto" -> ImplProto(k)
               [] k.fn = "list" -> ImplList(k)
               [] OTHER -> TRUE
CaseOk == i > 0 => POk(Case)
ImplOk == i > 0 => IOk(Case)
====
