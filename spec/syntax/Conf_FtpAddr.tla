---- MODULE Conf_FtpAddr ----
(* C40 conformance.  Every case is one call of Ftp::ParseIpPort / Ftp::ParseProtoIpPort / ftpListParseParts on the real code.
   P-layer (the statement):
     ipport, proto   an address is yielded (ok) only when the reference says the string denotes one, i.e. every component
                     (as a mathematical value) is in range incl. port 1..65535, and then the yielded port - and the yielded
                     address unless it is deliberately replaced by forceIp / its spelling is not judged - are the ones written
     list            the call returned (abort = FALSE: no sanitizer/assert termination of the process)
     any             abort = FALSE
   I-layer (drift only): today's exact accept/reject decision (ftp_sanitycheck, any-address, the final '|', strtol
   saturation) on every input; a listing entry's name is a substring of the line; no UBSan report. *)
EXTENDS FtpAddr, ConfLib
Case == Cases[i]
POk(k) ==
  /\ ~k.abort
  /\ CASE k.fn = "ipport" -> (k.ok => LET r == IpPortRef(k.s) IN
                               /\ r.ok /\ k.port = r.port
                               /\ IF k.force THEN (LET f == ParseAddr(k.f) IN f.k \in {"v4", "v6"} => k.a = f.b)
                                  ELSE k.a = r.a /\ k.v4)
       [] k.fn = "proto" -> (k.ok => LET r == ProtoRef(k.s) IN
                              r.ok /\ k.port = r.port /\ (r.ak # "free" => k.a = r.a /\ k.v4 = (r.ak = "v4")))
       [] OTHER -> TRUE
\* ---- today's behaviour (after fix 6378f98: every number is read with strtol into a long - which saturates instead of
\* wrapping - and range-checked before use; h1..h4 are checked with forceIp too; an EPRT port needs a digit and 1..65535)
IsAny(b) == b = Zeros(16) \/ b = Mapped4(<<0, 0, 0, 0>>)
ImplIpPort(k) ==
  LET L == LexList(k.s, 1, 6) IN
  IF ~L.ok THEN ~k.ok
  ELSE LET v(j) == SVal(L.t[j])          \* Big stands for every magnitude of ten or more digits: out of range either way
           port == v(5) * 256 + v(6)
           accept == /\ \A j \in 1..6 : v(j) >= 0 /\ v(j) <= 255
                     /\ (k.force \/ \E j \in 1..4 : v(j) # 0)
                     /\ port > 0 /\ (k.sanity => port >= 1024)
       IN k.ok = accept
ImplProto(k) ==
  LET s == k.s
      d == s[1]
      t1 == LexInt(s, 2)
      p1e == IF t1.ok THEN t1.next ELSE 2 IN
  IF p1e > Len(s) \/ s[p1e] # d \/ ~t1.ok THEN ~k.ok
  ELSE IF SVal(t1) \notin {1, 2} THEN ~k.ok
  ELSE LET e == IndexFrom(s, d, p1e + 1) IN
       IF e = 0 THEN ~k.ok
       ELSE LET a == AddrOf(SubSeq(s, p1e + 1, e - 1))
                tp == LexInt(s, e + 1) IN
            IF a.k = "free" THEN TRUE
            ELSE LET accept == /\ a.k = (IF SVal(t1) = 1 THEN "v4" ELSE "v6") /\ ~IsAny(a.b)
                               /\ tp.ok /\ SVal(tp) >= 1 /\ SVal(tp) <= 65535
                               /\ tp.next <= Len(s) /\ s[tp.next] = 124 /\ (k.sanity => SVal(tp) >= 1024)
                 IN k.ok = accept /\ (accept => k.port = SVal(tp))
\* n occurs in s at some position >= k
SubAt(s, n, k) == \E j \in k..(Len(s) - Len(n) + 1) : SubSeq(s, j, j + Len(n) - 1) = n
ImplList(k) == k.entry => SubAt(k.s, k.name, 1)
IOk(k) == /\ ~k.ub
          /\ CASE k.fn = "ipport" -> ImplIpPort(k)
               [] k.fn = "proto" -> ImplProto(k)
               [] k.fn = "list" -> ImplList(k)
               [] OTHER -> TRUE
CaseOk == i > 0 => POk(Case)
ImplOk == i > 0 => IOk(Case)
====
