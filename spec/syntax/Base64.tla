---- MODULE Base64 ----
(* C36: Base64 (RFC 4648 section 4) over byte sequences Seq(0..255), and the Basic credentials split (RFC 7617).
   P-layer:  Encode, the strict decoder (Shape/Value/Canonical), Malformed, SplitBasic, DecodeLength (the output size
             base64_decode_update promises).  All definitions are recursion-free so that TLC evaluates them on 8 KiB inputs.
   I-layer:  Automaton(impl, e), the decoding automaton of the two implementations as they are today (white space skipped,
             non-zero padding bits refused): "own" = lib/base64.cc, at most two '='; "used" = the decoder the build links
             (libnettle), which takes a third '=' when the buffered bits are zero ("A===" decodes to nothing). *)
EXTENDS Naturals, Sequences, SequencesExt

PAD == 61
COLON == 58
\* value of a character of the base64 alphabet; 64 for every other byte
Sextet(c) == IF c >= 65 /\ c <= 90 THEN c - 65
             ELSE IF c >= 97 /\ c <= 122 THEN c - 71
             ELSE IF c >= 48 /\ c <= 57 THEN c + 4
             ELSE IF c = 43 THEN 62 ELSE IF c = 47 THEN 63 ELSE 64
Char(v) == IF v <= 25 THEN 65 + v ELSE IF v <= 51 THEN 71 + v ELSE IF v <= 61 THEN v - 4 ELSE IF v = 62 THEN 43 ELSE 47
IsSpace(c) == c \in {9, 10, 11, 12, 13, 32}

\* ---- encoder: 3 bytes -> 4 characters, the last group padded with '=' ----
Encode(s) ==
  LET n == Len(s)
      B(k) == IF k <= n THEN s[k] ELSE 0
  IN [k \in 1..(4 * ((n + 2) \div 3)) |->
        LET g == (k - 1) \div 4
            j == (k - 1) % 4
            b1 == B(3 * g + 1)
            b2 == B(3 * g + 2)
            b3 == B(3 * g + 3)
        IN CASE j = 0 -> Char(b1 \div 4)
             [] j = 1 -> Char((b1 % 4) * 16 + (b2 \div 16))
             [] j = 2 -> IF 3 * g + 2 > n THEN PAD ELSE Char((b2 % 16) * 4 + (b3 \div 64))
             [] j = 3 -> IF 3 * g + 3 > n THEN PAD ELSE Char(b3 % 64)]

\* ---- strict decoder ----
\* number of trailing '=' (at most 3 are looked at)
Pads(e) == LET n == Len(e) IN
           IF n >= 1 /\ e[n] = PAD THEN (IF n >= 2 /\ e[n - 1] = PAD THEN (IF n >= 3 /\ e[n - 2] = PAD THEN 3 ELSE 2) ELSE 1) ELSE 0
\* e consists of complete 4-character groups of alphabet characters, the last one possibly ending in one or two '='
Shape(e) == /\ Len(e) % 4 = 0
            /\ Pads(e) <= 2
            /\ \A k \in 1..(Len(e) - Pads(e)) : Sextet(e[k]) < 64
\* the bytes a well-shaped e denotes (padding bits ignored)
Value(e) ==
  LET n == 3 * (Len(e) \div 4) - Pads(e)
      S(k) == IF Sextet(e[k]) < 64 THEN Sextet(e[k]) ELSE 0
  IN [i \in 1..n |->
        LET g == (i - 1) \div 3
            j == (i - 1) % 3
            c1 == S(4 * g + 1)
            c2 == S(4 * g + 2)
            c3 == S(4 * g + 3)
            c4 == S(4 * g + 4)
        IN CASE j = 0 -> c1 * 4 + (c2 \div 16)
             [] j = 1 -> (c2 % 16) * 16 + (c3 \div 4)
             [] j = 2 -> (c3 % 4) * 64 + c4]
\* e is exactly the encoding of some byte string
Canonical(e) == Shape(e) /\ Encode(Value(e)) = e
Strip(e) == SelectSeq(e, LAMBDA c : ~IsSpace(c))
\* not base64 under any reading: even with white space removed it is not a sequence of complete, properly padded groups
Malformed(e) == ~Shape(Strip(e))
\* inputs that are neither canonical nor malformed (embedded white space, non-zero padding bits): a decoder may refuse
\* them or read them as Value(Strip(e))

\* what BASE64_DECODE_LENGTH(srcLength) promises
DecodeLength(n) == ((n + 1) * 6) \div 8
EncodeRawLength(n) == ((n + 2) \div 3) * 4

\* ---- Basic credentials ----
SplitBasic(d) ==
  LET cs == {k \in 1..Len(d) : d[k] = COLON} IN
  IF cs = {} THEN [user |-> d, haspw |-> FALSE, pw |-> <<>>]
  ELSE LET c == CHOOSE k \in cs : \A j \in cs : k <= j
       IN [user |-> SubSeq(d, 1, c - 1), haspw |-> TRUE, pw |-> SubSeq(d, c + 1, Len(d))]
Lower(d) == [k \in 1..Len(d) |-> IF d[k] >= 65 /\ d[k] <= 90 THEN d[k] + 32 ELSE d[k]]
\* "<scheme> <credentials>": the text after the scheme token and the blanks that follow it
IsGraph(c) == c >= 33 /\ c <= 126
SchemeEnd(h) == LET bad == {k \in 1..Len(h) : ~IsGraph(h[k])} IN IF bad = {} THEN Len(h) + 1 ELSE CHOOSE k \in bad : \A j \in bad : k <= j
CredStart(h) == LET a == SchemeEnd(h)
                    ns == {k \in a..Len(h) : ~IsSpace(h[k])}
                IN IF ns = {} THEN Len(h) + 1 ELSE CHOOSE k \in ns : \A j \in ns : k <= j
\* a header field value has no line breaks: the credentials end before the first LF, if any
CredEnd(h) == LET nl == {k \in CredStart(h)..Len(h) : h[k] = 10} IN IF nl = {} THEN Len(h) ELSE (CHOOSE k \in nl : \A j \in nl : k <= j) - 1
CredPart(h) == SubSeq(h, CredStart(h), CredEnd(h))

\* ---- I-layer: the decoding automaton (nettle base64_decode_single/update/final) ----
\* state: bits buffered (0,2,4,6), their value, padding seen, output, failed
NInit == [bits |-> 0, low |-> 0, pad |-> 0, out |-> <<>>, bad |-> FALSE]
Pow2(b) == CASE b = 0 -> 1 [] b = 2 -> 4 [] b = 4 -> 16 [] b = 6 -> 64 [] b = 8 -> 256 [] b = 10 -> 1024 [] b = 12 -> 4096
\* maxPads: padding characters the implementation takes before it refuses the next one
MaxPads(impl) == IF impl = "own" THEN 2 ELSE 3
NStep(maxPads, st, c) ==
  IF st.bad THEN st
  ELSE IF IsSpace(c) THEN st
  ELSE IF c = PAD THEN
     IF st.bits = 0 \/ st.pad >= maxPads \/ st.low # 0 THEN [st EXCEPT !.bad = TRUE]
     ELSE [st EXCEPT !.pad = @ + 1, !.bits = @ - 2]
  ELSE IF Sextet(c) = 64 \/ st.pad > 0 THEN [st EXCEPT !.bad = TRUE]
  ELSE LET w == st.low * 64 + Sextet(c)
           b == st.bits + 6
       IN IF b >= 8 THEN [st EXCEPT !.bits = b - 8, !.low = w % Pow2(b - 8), !.out = Append(@, w \div Pow2(b - 8))]
          ELSE [st EXCEPT !.bits = b, !.low = w]
Automaton(impl, e) == LET st == FoldLeft(LAMBDA s, c : NStep(MaxPads(impl), s, c), NInit, e)
                      IN [upd |-> ~st.bad, ok |-> ~st.bad /\ st.bits = 0, out |-> st.out]
Nettle(e) == Automaton("used", e)
Own(e) == Automaton("own", e)
====
