---- MODULE CacheControl ----
(* C29: the Cache-Control field value (RFC 9111 section 5.2, list syntax RFC 9110 5.6.1, quoted-string 5.6.4).

   P-layer.  Parse(v) is the deterministic reference (first acceptable occurrence of a directive wins), Pack(c) the
   reference serialiser, and Allowed(v, c) the property's relation: "parsing yields exactly the directives present:
   known flags, numeric values that fit and are not negative, and quoted field lists; invalid numeric values are treated
   as absent".  Where the statement leaves a choice the relation admits every choice:
     - which of several acceptable occurrences of the same directive is taken;
     - a flag directive written with an argument (public=x): set or not;
     - max-stale with an invalid argument: absent, or present without a value (= any staleness, value AnyStale);
     - private / no-cache with an argument that is not a well-formed quoted-string: absent, or present with any list.
   A parsed directive set is a record
     [f : flag name -> BOOLEAN, n : numeric name -> [has, v], l : list name -> [has, v (bytes)]]                  *)
EXTENDS Naturals, Sequences, TLC, Wide

NameBytes ==
  "public" :> <<112, 117, 98, 108, 105, 99>> @@
  "private" :> <<112, 114, 105, 118, 97, 116, 101>> @@
  "no-cache" :> <<110, 111, 45, 99, 97, 99, 104, 101>> @@
  "no-store" :> <<110, 111, 45, 115, 116, 111, 114, 101>> @@
  "no-transform" :> <<110, 111, 45, 116, 114, 97, 110, 115, 102, 111, 114, 109>> @@
  "must-revalidate" :> <<109, 117, 115, 116, 45, 114, 101, 118, 97, 108, 105, 100, 97, 116, 101>> @@
  "proxy-revalidate" :> <<112, 114, 111, 120, 121, 45, 114, 101, 118, 97, 108, 105, 100, 97, 116, 101>> @@
  "max-age" :> <<109, 97, 120, 45, 97, 103, 101>> @@
  "s-maxage" :> <<115, 45, 109, 97, 120, 97, 103, 101>> @@
  "max-stale" :> <<109, 97, 120, 45, 115, 116, 97, 108, 101>> @@
  "min-fresh" :> <<109, 105, 110, 45, 102, 114, 101, 115, 104>> @@
  "only-if-cached" :> <<111, 110, 108, 121, 45, 105, 102, 45, 99, 97, 99, 104, 101, 100>> @@
  "stale-if-error" :> <<115, 116, 97, 108, 101, 45, 105, 102, 45, 101, 114, 114, 111, 114>> @@
  "immutable" :> <<105, 109, 109, 117, 116, 97, 98, 108, 101>>
Flags == {"public", "no-store", "no-transform", "must-revalidate", "proxy-revalidate", "only-if-cached", "immutable"}
Nums == {"max-age", "s-maxage", "max-stale", "min-fresh", "stale-if-error"}
Lists == {"private", "no-cache"}
\* serialisation order (HttpHdrCcType)
Order == <<"public", "private", "no-cache", "no-store", "no-transform", "must-revalidate", "proxy-revalidate", "max-age",
           "s-maxage", "max-stale", "min-fresh", "only-if-cached", "stale-if-error", "immutable">>
AnyStale == 2147483647          \* max-stale without a value

IsDigit(b) == b >= 48 /\ b <= 57
IsOWS(b) == b = 32 \/ b = 9
Lower(b) == IF b >= 65 /\ b <= 90 THEN b + 32 ELSE b
LowerSeq(s) == [i \in 1..Len(s) |-> Lower(s[i])]

\* ---- list elements: commas split outside quoted-strings; OWS trimmed; empty elements dropped ----
RECURSIVE QSplit(_, _, _, _)
QSplit(s, k, q, cur) ==
  IF k > Len(s) THEN <<cur>>
  ELSE IF ~q THEN (IF s[k] = 44 THEN <<cur>> \o QSplit(s, k + 1, FALSE, <<>>)
                   ELSE QSplit(s, k + 1, s[k] = 34, Append(cur, s[k])))
  ELSE (IF s[k] = 92 /\ k < Len(s) THEN QSplit(s, k + 2, TRUE, cur \o <<s[k], s[k + 1]>>)
        ELSE QSplit(s, k + 1, s[k] # 34, Append(cur, s[k])))
RECURSIVE LTrim(_)
LTrim(s) == IF Len(s) > 0 /\ IsOWS(s[1]) THEN LTrim(Tail(s)) ELSE s
RECURSIVE RTrim(_)
RTrim(s) == IF Len(s) > 0 /\ IsOWS(s[Len(s)]) THEN RTrim(SubSeq(s, 1, Len(s) - 1)) ELSE s
RECURSIVE NonEmpty(_)
NonEmpty(L) == IF L = <<>> THEN <<>> ELSE IF Head(L) = <<>> THEN NonEmpty(Tail(L)) ELSE <<Head(L)>> \o NonEmpty(Tail(L))
Elements(s) == LET raw == QSplit(s, 1, FALSE, <<>>) IN NonEmpty([i \in 1..Len(raw) |-> RTrim(LTrim(raw[i]))])

RECURSIVE FirstEq(_, _)
FirstEq(e, k) == IF k > Len(e) THEN 0 ELSE IF e[k] = 61 THEN k ELSE FirstEq(e, k + 1)
\* directive = name [ "=" argument ]
Dir(e) == LET p == FirstEq(e, 1) IN
          IF p = 0 THEN [name |-> LowerSeq(e), hasArg |-> FALSE, arg |-> <<>>]
          ELSE [name |-> LowerSeq(SubSeq(e, 1, p - 1)), hasArg |-> TRUE, arg |-> SubSeq(e, p + 1, Len(e))]
Dirs(v) == LET es == Elements(v) IN [i \in 1..Len(es) |-> Dir(es[i])]
\* occurrences of directive d, in order
Occ(ds, d) == SelectSeq(ds, LAMBDA x : x.name = NameBytes[d])

\* ---- delta-seconds = 1*DIGIT, must fit a non-negative 32-bit int ----
AllDigits(s) == Len(s) > 0 /\ \A i \in 1..Len(s) : IsDigit(s[i])
WVal(ds) == FromBE([i \in 1..Len(ds) |-> ds[i] - 48])
RECURSIVE W2N(_)
W2N(w) == IF w = <<>> THEN 0 ELSE w[1] + 10 * W2N(Tail(w))
ValidNum(o) == o.hasArg /\ AllDigits(o.arg) /\ Leq(WVal(o.arg), Max31)
NumVal(o) == W2N(WVal(o.arg))

\* ---- quoted-string = DQUOTE *( qdtext / quoted-pair ) DQUOTE ----
QdText(b) == b = 9 \/ b = 32 \/ b = 33 \/ (b >= 35 /\ b <= 91) \/ (b >= 93 /\ b <= 126) \/ b >= 128
QpChar(b) == b = 9 \/ (b >= 32 /\ b <= 126) \/ b >= 128
RECURSIVE QBody(_, _)
\* content of s[k..Len(s)-1] as quoted-string body, or <<-1>> when malformed
QBody(s, k) == IF k >= Len(s) THEN <<>>
               ELSE IF s[k] = 92 THEN (IF k + 1 < Len(s) /\ QpChar(s[k + 1])
                                       THEN (LET r == QBody(s, k + 2) IN IF r = <<0 - 1>> THEN r ELSE <<s[k + 1]>> \o r)
                                       ELSE <<0 - 1>>)
               ELSE IF QdText(s[k]) THEN (LET r == QBody(s, k + 1) IN IF r = <<0 - 1>> THEN r ELSE <<s[k]>> \o r)
               ELSE <<0 - 1>>
WellQuoted(o) == o.hasArg /\ Len(o.arg) >= 2 /\ o.arg[1] = 34 /\ o.arg[Len(o.arg)] = 34 /\ QBody(o.arg, 2) # <<0 - 1>>
QContent(o) == QBody(o.arg, 2)

\* ---- deterministic reference parser ----
Absent == [has |-> FALSE, v |-> 0]
AbsentL == [has |-> FALSE, v |-> <<>>]
FirstSat(os, Ok(_)) == LET good == SelectSeq(os, Ok) IN IF good = <<>> THEN <<>> ELSE <<good[1]>>
ParseNum(ds, d) ==
  LET os == Occ(ds, d) IN
  IF d = "max-stale"
  THEN LET g == FirstSat(os, LAMBDA o : ~o.hasArg \/ ValidNum(o)) IN
       IF g = <<>> THEN Absent ELSE [has |-> TRUE, v |-> IF g[1].hasArg THEN NumVal(g[1]) ELSE AnyStale]
  ELSE LET g == FirstSat(os, ValidNum) IN
       IF g = <<>> THEN Absent ELSE [has |-> TRUE, v |-> NumVal(g[1])]
ParseList(ds, d) ==
  LET g == FirstSat(Occ(ds, d), LAMBDA o : ~o.hasArg \/ WellQuoted(o)) IN
  IF g = <<>> THEN AbsentL ELSE [has |-> TRUE, v |-> IF g[1].hasArg THEN QContent(g[1]) ELSE <<>>]
Parse(v) ==
  LET ds == Dirs(v) IN
  [f |-> [d \in Flags |-> \E i \in 1..Len(ds) : ds[i].name = NameBytes[d] /\ ~ds[i].hasArg],
   n |-> [d \in Nums |-> ParseNum(ds, d)],
   l |-> [d \in Lists |-> ParseList(ds, d)]]

\* ---- reference serialiser ----
Dec(n) == IF n = 0 THEN <<48>> ELSE LET w == FromNat(n) IN [j \in 1..Len(w) |-> w[Len(w) + 1 - j] + 48]
RECURSIVE QEsc(_)
QEsc(s) == IF s = <<>> THEN <<>> ELSE (IF Head(s) \in {34, 92} THEN <<92, Head(s)>> ELSE <<Head(s)>>) \o QEsc(Tail(s))
PackOne(c, d) ==
  IF d \in Flags THEN (IF c.f[d] THEN <<NameBytes[d]>> ELSE <<>>)
  ELSE IF d \in Nums THEN (IF ~c.n[d].has THEN <<>>
                           ELSE IF d = "max-stale" /\ c.n[d].v = AnyStale THEN <<NameBytes[d]>>
                           ELSE <<NameBytes[d] \o <<61>> \o Dec(c.n[d].v)>>)
  ELSE (IF ~c.l[d].has THEN <<>>
        ELSE IF c.l[d].v = <<>> THEN <<NameBytes[d]>>
        ELSE <<NameBytes[d] \o <<61, 34>> \o QEsc(c.l[d].v) \o <<34>>>>)
RECURSIVE Join(_)
Join(L) == IF L = <<>> THEN <<>> ELSE IF Len(L) = 1 THEN L[1] ELSE L[1] \o <<44, 32>> \o Join(Tail(L))
RECURSIVE PackFrom(_, _)
PackFrom(c, k) == IF k > Len(Order) THEN <<>> ELSE PackOne(c, Order[k]) \o PackFrom(c, k + 1)
Pack(c) == Join(PackFrom(c, 1))

\* ---- the property as a relation between a field value and a parsed directive set ----
AllowedFlag(ds, d, has) ==
  LET os == Occ(ds, d) IN
  /\ (os = <<>>) => ~has
  /\ (\E i \in 1..Len(os) : ~os[i].hasArg) => has
AllowedNum(ds, d, r) ==
  LET os == Occ(ds, d)
      V == {NumVal(os[i]) : i \in {j \in 1..Len(os) : ValidNum(os[j])}}
      bare == \E i \in 1..Len(os) : ~os[i].hasArg
      invalid == \E i \in 1..Len(os) : os[i].hasArg /\ ~ValidNum(os[i]) IN
  IF d = "max-stale"
  THEN /\ r.has => (r.v \in V \/ (r.v = AnyStale /\ (bare \/ invalid)))
       /\ (V # {} \/ bare) => r.has
  ELSE /\ r.has => r.v \in V
       /\ V # {} => r.has
AllowedList(ds, d, r) ==
  LET os == Occ(ds, d)
      W == {QContent(os[i]) : i \in {j \in 1..Len(os) : WellQuoted(os[j])}}
      bare == \E i \in 1..Len(os) : ~os[i].hasArg
      malformed == \E i \in 1..Len(os) : os[i].hasArg /\ ~WellQuoted(os[i]) IN
  /\ (os = <<>>) => ~r.has
  /\ (W # {} \/ bare) => r.has
  /\ (r.has /\ ~malformed) => (r.v \in W \/ (r.v = <<>> /\ bare))
Allowed(v, c) ==
  LET ds == Dirs(v) IN
  /\ \A d \in Flags : AllowedFlag(ds, d, c.f[d])
  /\ \A d \in Nums : AllowedNum(ds, d, c.n[d])
  /\ \A d \in Lists : AllowedList(ds, d, c.l[d])
\* normal form of an observed record (absent values are not compared)
NormC(c) == [f |-> [d \in Flags |-> c.f[d]],
             n |-> [d \in Nums |-> IF c.n[d].has THEN [has |-> TRUE, v |-> c.n[d].v] ELSE Absent],
             l |-> [d \in Lists |-> IF c.l[d].has THEN [has |-> TRUE, v |-> c.l[d].v] ELSE AbsentL]]
====
