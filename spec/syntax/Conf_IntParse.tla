---- MODULE Conf_IntParse ----
EXTENDS IntParse, ConfLib
Case == Cases[i]
POk(k) == /\ ~k.ub
          /\ CASE k.fn = "int64" -> Out(k) \in Int64Alt(k.s, k.base, k.sign, k.limit)
               \* C-library front ends: blanks and a sign before the digits are tolerated by the code; the statement is about
               \* the digits, so for inputs that do not start with a digit a refusal is accepted as well
               [] k.fn = "offset" -> LET r == OffsetRef(k.s) IN
                                     IF k.ok THEN Out(k) = r ELSE (~r.ok \/ DigitVal(k.s[1]) >= 10)
               [] k.fn = "int" -> LET r == IntRef(k.s) IN
                                  \* consumed is not reported by this API: compare ok and value only
                                  IF k.ok THEN r.ok /\ k.neg = r.neg /\ Norm(k.mag) = r.mag
                                  ELSE (~r.ok \/ DigitVal(k.s[1]) >= 10)
IOk(k) == CASE k.fn = "int64" -> Out(k) = Int64Ref(k.s, k.base, k.sign, k.limit)
            [] OTHER -> TRUE
CaseOk == i > 0 => POk(Case)
ImplOk == i > 0 => IOk(Case)
====
