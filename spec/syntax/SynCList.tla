---- MODULE SynCList ----
(* I-layer helper shared by RangeHdrImpl and CacheControlImpl: the items strListGetItem() (src/StrList.cc) iterates over
   in a NUL-free header value, as the code does it today: leading blanks (SP HTAB CR LF) and delimiters are skipped,
   a double quote toggles a quoted section in which delimiters do not split and backslash escapes one byte, the item
   is right-trimmed with isspace(), and the iteration stops at the first item that is empty after trimming. *)
EXTENDS Naturals, Sequences
IsCSpace(b) == b \in {32, 9, 10, 11, 12, 13}
IsLead(b, del) == b \in {32, 9, 13, 10, 44, del}
RECURSIVE SkipLead(_, _, _)
SkipLead(s, k, del) == IF k <= Len(s) /\ IsLead(s[k], del) THEN SkipLead(s, k + 1, del) ELSE k
RECURSIVE ItemEnd(_, _, _, _)
\* index of the delimiter that ends the item (Len(s)+1 at the end of the string); q = inside a quoted section
ItemEnd(s, k, q, del) ==
  IF k > Len(s) THEN Len(s) + 1
  ELSE IF ~q THEN (IF s[k] = 34 THEN ItemEnd(s, k + 1, TRUE, del)
                   ELSE IF s[k] \in {del, 44} THEN k
                   ELSE ItemEnd(s, k + 1, FALSE, del))
  ELSE (IF s[k] = 34 THEN ItemEnd(s, k + 1, FALSE, del)
        ELSE IF s[k] = 92 THEN ItemEnd(s, k + 2, TRUE, del)
        ELSE ItemEnd(s, k + 1, TRUE, del))
RECURSIVE RTrimC(_)
RTrimC(s) == IF Len(s) > 0 /\ IsCSpace(s[Len(s)]) THEN RTrimC(SubSeq(s, 1, Len(s) - 1)) ELSE s
RECURSIVE ItemsFrom(_, _, _)
ItemsFrom(s, k, del) ==
  LET st == SkipLead(s, k, del)
      e == ItemEnd(s, st, FALSE, del)
      it == RTrimC(SubSeq(s, st, e - 1)) IN
  IF it = <<>> THEN <<>> ELSE <<it>> \o ItemsFrom(s, e, del)
StrListItems(s, del) == ItemsFrom(s, 1, del)
====
