CONSTANTS Family = "pack" MaxFields = 2 MaxValues = 0
INIT Init
NEXT Next
INVARIANT Laws
CHECK_DEADLOCK FALSE
