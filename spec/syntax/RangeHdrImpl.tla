---- MODULE RangeHdrImpl ----
(* C28 I-layer: what HttpHdrRange::parseInit / HttpHdrRangeSpec::parseInit / canonize do TODAY, including the named
   deviations from RangeHdr (the P-layer):
     D1 (F9)  positions are read by strtoll(): leading blanks, a sign and unchecked trailing bytes are tolerated
     D2       last-byte-pos = 2^63-1 is refused as unsupported (last_pos+1 is not representable; F4 repaired in 4f82d4d),
              so the whole header is ignored
     D3       a position that does not fit int64 makes the whole header ignored
   Parsed specs are reported the way the code stores them: offset/length, -1 (Unknown) for an absent part. *)
EXTENDS RangeHdr, SynCList, IntParse
Unknown == [neg |-> TRUE, mag |-> <<1>>]
Pos(w) == [neg |-> FALSE, mag |-> w]
BadI == [o |-> Unknown, l |-> Unknown]
\* HttpHdrRangeSpec::parseInit(field, flen) on one list item
ISpecOf(e) ==
  IF Len(e) < 2 THEN BadI
  ELSE IF e[1] = 45 THEN
       LET r == OffsetRef(Tail(e)) IN
       IF r.ok /\ ~r.neg THEN [o |-> Unknown, l |-> Pos(r.mag)] ELSE BadI
  ELSE LET p == FirstDash(e, 1) IN
       IF p = 0 THEN BadI ELSE
       LET r1 == OffsetRef(e) IN
       IF ~(r1.ok /\ ~r1.neg) THEN BadI
       ELSE IF p = Len(e) THEN [o |-> Pos(r1.mag), l |-> Unknown]
       ELSE LET r2 == OffsetRef(SubSeq(e, p + 1, Len(e))) IN
            IF ~(r2.ok /\ ~r2.neg) THEN BadI
            ELSE IF Cmp(r2.mag, r1.mag) < 0 THEN BadI
            ELSE IF r2.mag = Max63 THEN BadI                                                 \* D2
            ELSE [o |-> Pos(r1.mag), l |-> Pos(Sub(Add(r2.mag, One), r1.mag))]
RECURSIVE ISpecs(_)
\* parsing stops at the first bad item and forgets everything
ISpecs(items) == IF items = <<>> THEN <<>>
                 ELSE LET s == ISpecOf(Head(items)) IN
                      IF s = BadI THEN <<BadI>> ELSE <<s>> \o ISpecs(Tail(items))
IParse(v) ==
  IF Len(v) < 6 \/ [i \in 1..6 |-> Lower(v[i])] # BytesEq THEN Ignore ELSE
  LET specs == ISpecs(StrListItems(SubSeq(v, 7, Len(v)), 44)) IN
  IF specs = <<>> \/ specs[Len(specs)] = BadI THEN Ignore ELSE [ok |-> TRUE, specs |-> specs]

\* HttpHdrRangeSpec::canonize(clen) for clen >= 0: result [o, l] or BadI (= dropped)
ICanonOne(s, C) ==
  LET o1 == IF s.o.neg THEN Sub(C, MinW(s.l.mag, C)) ELSE s.o.mag
      l1 == IF s.l.neg THEN (IF Lt(o1, C) THEN Sub(C, o1) ELSE <<>>) ELSE s.l.mag
      hi == MinW(Add(o1, l1), C)
      l2 == IF Lt(o1, hi) THEN Sub(hi, o1) ELSE <<>> IN
  IF l2 = <<>> THEN BadI ELSE [o |-> Pos(o1), l |-> Pos(l2)]
RECURSIVE ICanon(_, _)
ICanon(specs, C) == IF specs = <<>> THEN <<>>
                    ELSE LET c == ICanonOne(Head(specs), C) IN
                         (IF c = BadI THEN <<>> ELSE <<c>>) \o ICanon(Tail(specs), C)
====
