CONSTANT MaxDirs = 3
INIT Init
NEXT Next
INVARIANT Laws
CHECK_DEADLOCK FALSE
