---- MODULE MC_FtpAddr ----
(* Laws of the FtpAddr reference, model-checked standalone:
   IpPortLaw  IpPortRef(IpPortStr(h, p) \o tail) is an address exactly when every component is in 0..255 and the port is
              not 0, and then it is the address/port written (components over {0, 1, 255, 256, 70000}; tails ")" and "")
   ProtoLaw   ProtoRef(ProtoStr(d, proto, addr, port)) is an address exactly when proto matches the literal's family and
              the port is in 1..65535, and then it is the literal's value and the port written *)
EXTENDS FtpAddr, TLC
HV == {0, 1, 255, 256, 70000}
Tails == {<<>>, <<41>>}
Lits == {[t |-> QuadStr(<<1, 2, 3, 4>>), k |-> "v4", b |-> Mapped4(<<1, 2, 3, 4>>)],
         [t |-> QuadStr(<<255, 0, 0, 255>>), k |-> "v4", b |-> Mapped4(<<255, 0, 0, 255>>)],
         [t |-> V6Str(<<254, 128>> \o Zeros(13) \o <<2>>), k |-> "v6", b |-> <<254, 128>> \o Zeros(13) \o <<2>>],
         [t |-> <<58, 58, 49>>, k |-> "v6", b |-> Zeros(15) \o <<1>>],
         [t |-> <<49, 46, 50, 46, 51, 46, 50, 53, 54>>, k |-> "bad", b |-> <<>>]}
PV == {0, 1, 80, 1023, 1024, 65535, 65536, 70000}
VARIABLES c, st
Init == c \in HV /\ st = [kind |-> "init"]
Next == st.kind = "init" /\ c' = c /\
        \/ st' \in {[kind |-> "ipport", h |-> <<c, h2, h3, h4>>, p |-> <<p1, p2>>, tail |-> tl] : h2 \in {0, 256}, h3 \in {0, 255}, h4 \in HV, p1 \in HV, p2 \in HV, tl \in Tails}
        \/ st' \in {[kind |-> "ipport", h |-> <<h1, 0, 0, c>>, p |-> <<p1, p2>>, tail |-> <<>>] : h1 \in {0, 1}, p1 \in {0, 3, 4, 255}, p2 \in {0, 1, 255}}
        \/ st' \in {[kind |-> "proto", d |-> d, proto |-> pr, lit |-> l, port |-> p] : d \in {124, 33}, pr \in {0, 1, 2, 3, c}, l \in Lits, p \in PV}
IpPortLaw == st.kind = "ipport" =>
  LET r == IpPortRef(IpPortStr(st.h, st.p) \o st.tail)
      good == (\A j \in 1..4 : st.h[j] <= 255) /\ st.p[1] <= 255 /\ st.p[2] <= 255 /\ st.p[1] * 256 + st.p[2] >= 1
  IN r.ok = good /\ (good => r.a = Mapped4(st.h) /\ r.port = st.p[1] * 256 + st.p[2])
ProtoLaw == st.kind = "proto" =>
  LET r == ProtoRef(ProtoStr(st.d, st.proto, st.lit.t, st.port))
      good == st.lit.k = (IF st.proto = 1 THEN "v4" ELSE IF st.proto = 2 THEN "v6" ELSE "none") /\ st.port >= 1 /\ st.port <= 65535
  IN r.ok = good /\ (good => r.a = st.lit.b /\ r.port = st.port)
====
