---- MODULE MC_ProxyProto ----
(* Laws of the ProxyProto reference itself, model-checked standalone (one TLC state per element of the domain):
   RoundTrip  Decode(Encode(h) \o trailing) = h with cp = Len(Encode(h)), for v1 and v2 encodings of a bounded header domain
   PrefixLaw  for every x of the domain and of its one-byte mutations (substitution, deletion) and every k:
              Decode(Take(x, k)) is "need" below the completion point of x and equals Decode(x) from there on
              (so Decode is a function of the first cp bytes, and "need" is never followed by a different verdict
              than the one of the whole input). *)
EXTENDS ProxyProto, TLC
A4 == {<<0, 0, 0, 0>>, <<1, 2, 3, 4>>, <<255, 255, 255, 255>>, <<10, 0, 200, 99>>}
A6 == {Zeros(15) \o <<1>>, <<254, 128>> \o Zeros(13) \o <<2>>, [j \in 1..16 |-> 255],
       <<32, 1, 13, 184, 0, 0, 0, 0, 0, 8, 8, 0, 32, 12, 65, 122>>}
Ports == {0, 1, 80, 65535}
TlvLists == {<<>>, <<[t |-> 4, v |-> <<>>]>>, <<[t |-> 1, v |-> <<104, 50>>], [t |-> 255, v |-> <<0>>]>>}
Trails == {<<>>, <<71>>, <<13, 10>>}
Inet(tl) == {Hdr(0, 0, 1, "inet", Mapped4(a), Mapped4(b), p, q, tl) : a \in A4, b \in {<<1, 2, 3, 4>>, <<255, 255, 255, 255>>}, p \in Ports, q \in {0, 65535}}
Inet6(tl) == {Hdr(0, 0, 1, "inet6", a, b, p, q, tl) : a \in A6, b \in {Zeros(15) \o <<1>>, [j \in 1..16 |-> 255]}, p \in Ports, q \in {1, 65535}}
SetVer(h, v, n) == [h EXCEPT !.ver = v, !.cp = n]
Case1 == {[x |-> EncodeV1(h) \o t, h |-> SetVer(h, 1, Len(EncodeV1(h)))] : h \in Inet(<<>>) \cup Inet6(<<>>) \cup {HdrNoAddr(0, 0, 1, "none")}, t \in Trails}
H2 == UNION {Inet(tl) \cup Inet6(tl) \cup {Hdr(0, 0, 1, "unix", Zeros(16), Zeros(16), 0, 0, tl)} : tl \in TlvLists}
Case2 == {[x |-> EncodeV2(h, pr, <<>>) \o t, h |-> SetVer(h, 2, Len(EncodeV2(h, pr, <<>>)))] : h \in H2, pr \in {1, 2}, t \in Trails}
        \cup {[x |-> EncodeV2(h, 0, pad) \o t, h |-> SetVer(h, 2, 16 + Len(pad))] :
              h \in {HdrNoAddr(0, 0, 1, "none"), HdrNoAddr(0, 0, 0, "local")}, pad \in {<<>>, <<1, 2, 3>>}, t \in Trails}
Alpha == {0, 10, 13, 32, 46, 48, 54, 57, 58, 102, 120, 255}
Subst(x) == {[x EXCEPT ![p] = b] : p \in 1..Len(x), b \in Alpha}
Del(x) == {SubSeq(x, 1, p - 1) \o SubSeq(x, p + 1, Len(x)) : p \in 1..Len(x)}
MutBase == {EncodeV1(Hdr(0, 1, 1, "inet", Mapped4(<<1, 2, 3, 4>>), Mapped4(<<10, 0, 200, 99>>), 80, 65535, <<>>)) \o <<71>>,
            EncodeV1(Hdr(0, 1, 1, "inet6", <<254, 128>> \o Zeros(13) \o <<2>>, Zeros(15) \o <<1>>, 1, 2, <<>>)),
            EncodeV1(HdrNoAddr(0, 1, 1, "none")) \o <<71>>,
            EncodeV2(Hdr(0, 2, 1, "inet", Mapped4(<<1, 2, 3, 4>>), Mapped4(<<5, 6, 7, 8>>), 80, 443, <<[t |-> 4, v |-> <<7>>]>>), 1, <<>>) \o <<71>>,
            EncodeV2(HdrNoAddr(0, 2, 0, "local"), 0, <<9>>)}
Mutants == UNION {Subst(x) \cup Del(x) : x \in MutBase}
VARIABLE st
Init == st \in Case1 \cup Case2 \cup {[x |-> m, h |-> "mutant"] : m \in Mutants}
Next == UNCHANGED st
RoundTrip == st.h # "mutant" => Decode(st.x) = st.h
PrefixLaw == LET x == st.x
                 r == Decode(x)
             IN \A k \in 0..Len(x) : LET rk == Decode(Take(x, k)) IN
                  IF r.kind = "need" THEN rk.kind = "need"
                  ELSE (k < r.cp => rk.kind = "need") /\ (k >= r.cp => rk = r)
====
