---- MODULE MC_ProxyProto ----
(* Laws of the ProxyProto reference itself, model-checked standalone (one TLC state per element of the domain):
   RoundTrip  Decode(Encode(h) \o trailing) = h with cp = Len(Encode(h)), for v1 and v2 encodings of a bounded header domain
   PrefixLaw  for every x of the domain and of its one-byte mutations (substitution, deletion) and every k:
              Decode(Take(x, k)) is "need" below the completion point of x and equals Decode(x) from there on
              (so Decode is a function of the first cp bytes, and "need" is never followed by a different verdict
              than the one of the whole input).
   The domain is split into 16 families (variable c) so that TLC's workers share the load. *)
EXTENDS ProxyProto, TLC
A4 == <<<<0, 0, 0, 0>>, <<1, 2, 3, 4>>, <<255, 255, 255, 255>>, <<10, 0, 200, 99>>>>
A6 == <<Zeros(15) \o <<1>>, <<254, 128>> \o Zeros(13) \o <<2>>, [j \in 1..16 |-> 255],
        <<32, 1, 13, 184, 0, 0, 0, 0, 0, 8, 8, 0, 32, 12, 65, 122>>>>
Ports == <<0, 1, 80, 65535>>
TlvLists == {<<>>, <<[t |-> 4, v |-> <<>>]>>, <<[t |-> 1, v |-> <<104, 50>>], [t |-> 255, v |-> <<0>>]>>}
Trails == {<<>>, <<71>>, <<13, 10>>}
Inet(c, tl) == {Hdr(0, 0, 1, "inet", Mapped4(A4[(c \div 4) + 1]), Mapped4(b), Ports[(c % 4) + 1], q, tl) : b \in {<<1, 2, 3, 4>>, <<255, 255, 255, 255>>}, q \in {0, 65535}}
Inet6(c, tl) == {Hdr(0, 0, 1, "inet6", A6[(c \div 4) + 1], b, Ports[(c % 4) + 1], q, tl) : b \in {Zeros(15) \o <<1>>, [j \in 1..16 |-> 255]}, q \in {1, 65535}}
SetVer(h, v, n) == [h EXCEPT !.ver = v, !.cp = n]
Case1(c) == {[x |-> EncodeV1(h) \o t, h |-> SetVer(h, 1, Len(EncodeV1(h)))] :
             h \in Inet(c, <<>>) \cup Inet6(c, <<>>) \cup (IF c = 0 THEN {HdrNoAddr(0, 0, 1, "none")} ELSE {}), t \in Trails}
H2(c) == UNION {Inet(c, tl) \cup Inet6(c, tl) \cup (IF c = 1 THEN {Hdr(0, 0, 1, "unix", Zeros(16), Zeros(16), 0, 0, tl)} ELSE {}) : tl \in TlvLists}
Case2(c) == {[x |-> EncodeV2(h, pr, <<>>) \o t, h |-> SetVer(h, 2, Len(EncodeV2(h, pr, <<>>)))] : h \in H2(c), pr \in {1, 2}, t \in Trails}
        \cup (IF c # 2 THEN {} ELSE {[x |-> EncodeV2(h, 0, pad) \o t, h |-> SetVer(h, 2, 16 + Len(pad))] :
              h \in {HdrNoAddr(0, 0, 1, "none"), HdrNoAddr(0, 0, 0, "local")}, pad \in {<<>>, <<1, 2, 3>>}, t \in Trails})
Alpha == {0, 10, 13, 32, 46, 48, 54, 57, 58, 102, 120, 255}
Subst(c, x) == {[x EXCEPT ![p] = b] : p \in {q \in 1..Len(x) : q % 16 = c}, b \in Alpha}
Del(c, x) == {SubSeq(x, 1, p - 1) \o SubSeq(x, p + 1, Len(x)) : p \in {q \in 1..Len(x) : q % 16 = c}}
MutBase == {EncodeV1(Hdr(0, 1, 1, "inet", Mapped4(<<1, 2, 3, 4>>), Mapped4(<<10, 0, 200, 99>>), 80, 65535, <<>>)) \o <<71>>,
            EncodeV1(Hdr(0, 1, 1, "inet6", <<254, 128>> \o Zeros(13) \o <<2>>, Zeros(15) \o <<1>>, 1, 2, <<>>)),
            EncodeV1(HdrNoAddr(0, 1, 1, "none")) \o <<71>>,
            EncodeV2(Hdr(0, 2, 1, "inet", Mapped4(<<1, 2, 3, 4>>), Mapped4(<<5, 6, 7, 8>>), 80, 443, <<[t |-> 4, v |-> <<7>>]>>), 1, <<>>) \o <<71>>,
            EncodeV2(HdrNoAddr(0, 2, 0, "local"), 0, <<9>>)}
Mutants(c) == UNION {Subst(c, x) \cup Del(c, x) : x \in MutBase}
Family(c) == Case1(c) \cup Case2(c) \cup {[x |-> m, h |-> [kind |-> "mutant"]] : m \in Mutants(c)}
VARIABLES c, st
Init == c \in 0..15 /\ st = [x |-> <<>>, h |-> [kind |-> "mutant"]]
Next == st.x = <<>> /\ st' \in Family(c) /\ c' = c
RoundTrip == st.h.kind # "mutant" => Decode(st.x) = st.h
PrefixLaw == LET x == st.x
                 r == Decode(x)
             IN \A k \in 0..Len(x) : LET rk == Decode(Take(x, k)) IN
                  IF r.kind = "need" THEN rk.kind = "need"
                  ELSE (k < r.cp => rk.kind = "need") /\ (k >= r.cp => rk = r)
====
