---- MODULE ContentLength ----
(* C26: when may a message's length be taken from Content-Length.

   Input: the sequence of Content-Length field values of one header block (byte strings, already stripped of the
   surrounding field whitespace), the parser mode, and whether a Transfer-Encoding field is present.
   A field value is one decimal token, or - list form - comma separated items (empty items carry no value).
   Token values are Wide naturals (TLC integers are 32 bit).

   Decisions are records [kind |-> "None" | "Bad" | "Reject" | "Length" | "Chunked" | "UnsupportedTE", n |-> Wide]. *)
EXTENDS Naturals, Sequences, Wide

Digit == 48..57
Ows == {32, 9}
Space6 == {9, 10, 11, 12, 13, 32}            \* isspace()
RelaxedWs == {32, 9, 11, 12, 13}             \* relaxed_header_parser whitespace
RECURSIVE TrimLeft(_, _)
TrimLeft(v, S) == IF v # <<>> /\ Head(v) \in S THEN TrimLeft(Tail(v), S) ELSE v
RECURSIVE TrimRight(_, _)
TrimRight(v, S) == IF v # <<>> /\ v[Len(v)] \in S THEN TrimRight(SubSeq(v, 1, Len(v) - 1), S) ELSE v
Trim(v, S) == TrimRight(TrimLeft(v, S), S)

IsDecimal(v) == v # <<>> /\ \A k \in 1..Len(v) : v[k] \in Digit
RECURSIVE DecValue(_)
\* Wide value of a digit string
DecValue(v) == IF v = <<>> THEN <<>> ELSE MulAdd(DecValue(SubSeq(v, 1, Len(v) - 1)), 10, v[Len(v)] - 48)
ValidToken(v) == IsDecimal(v) /\ Leq(DecValue(v), Max63)

HasComma(v) == \E k \in 1..Len(v) : v[k] = 44
RECURSIVE Split(_, _)
\* items of a comma separated list, each trimmed with S
Split(v, S) == LET cs == {k \in 1..Len(v) : v[k] = 44} IN
               IF cs = {} THEN <<Trim(v, S)>>
               ELSE LET c == CHOOSE k \in cs : \A j \in cs : k <= j IN
                    <<Trim(SubSeq(v, 1, c - 1), S)>> \o Split(SubSeq(v, c + 1, Len(v)), S)
NonEmpty(items) == SelectSeq(items, LAMBDA x : x # <<>>)
\* the tokens of one field value
Tokens(v, S) == IF HasComma(v) THEN NonEmpty(Split(v, S)) ELSE <<v>>
RECURSIVE AllTokens(_, _)
AllTokens(values, S) == IF values = <<>> THEN <<>> ELSE Tokens(Head(values), S) \o AllTokens(Tail(values), S)

ItemWs(relaxed) == IF relaxed # 0 THEN Space6 ELSE Ows
None == [kind |-> "None", n |-> <<>>]
Bad == [kind |-> "Bad", n |-> <<>>]
Length(n) == [kind |-> "Length", n |-> n]

AllValid(toks) == \A k \in 1..Len(toks) : ValidToken(toks[k])
AllEqual(toks) == \A j, k \in 1..Len(toks) : DecValue(toks[j]) = DecValue(toks[k])
\* more than one value, or list syntax
Repeated(values, toks) == Len(toks) > 1 \/ \E k \in 1..Len(values) : HasComma(values[k])

\* ---- the fold (what the code does today; the I-layer of C26) ----
Fold(values, relaxed) ==
  LET toks == AllTokens(values, ItemWs(relaxed)) IN
  IF values = <<>> THEN None
  ELSE IF ~AllValid(toks) \/ ~AllEqual(toks) THEN Bad
  ELSE IF Repeated(values, toks) /\ relaxed = 0 THEN Bad
  ELSE IF toks = <<>> THEN None                               \* a list of empty items only
  ELSE Length(DecValue(toks[1]))

\* ---- the property (P-layer of C26): may the message be framed as `d`? ----
\* 1. A length is taken from Content-Length only if every value is a valid decimal below 2^63, all values are equal to it,
\*    repetition (several fields or list form) occurs only in relaxed mode, and no Transfer-Encoding competes.
\* 2. If some value is invalid or two values differ (or values are repeated in strict mode) and no Transfer-Encoding takes
\*    over, the block is refused or flagged as bad framing.
Allowed(values, relaxed, tePresent, d) ==
  LET toks == AllTokens(values, ItemWs(relaxed))
      clean == AllValid(toks) /\ AllEqual(toks) /\ (Repeated(values, toks) => relaxed # 0) IN
  /\ d.kind = "Length" => /\ values # <<>> /\ toks # <<>> /\ clean /\ ~tePresent
                          /\ Norm(d.n) = DecValue(toks[1])
  /\ (values # <<>> /\ ~clean /\ ~tePresent) => d.kind \in {"Bad", "Reject"}
====
