---- MODULE Conf_StatusLine ----
(* C23: every case is one response head input with the outcomes of the real Http::One::ResponseParser parsed at once and
   delivered in segments the way HttpStateData::processReplyHeader does (append; parse(buffer); buffer := remaining()).
   CaseOk: the one-shot outcome obeys the status-line grammar (StatusOk) and every segmented run ends in the one-shot
   outcome after answering "more" to every earlier call.  ImplOk: the one-shot outcome equals RespHead. *)
EXTENDS StatusLine, ConfLib
Case == Cases[i]
T(k, n) == k.tuples[n + 1]
RunOk(k, r) == /\ \A ix \in 1..Len(r.mid) : T(k, r.mid[ix]).o = "more"
               /\ RSame(T(k, r.fin), T(k, k.one))
BadRuns(k) == {ix \in 1..Len(k.runs) : ~RunOk(k, k.runs[ix])}
POk(k) == ~k.ub /\ StatusOk(k["in"], k.relaxed, T(k, k.one)) /\ BadRuns(k) = {}
IOk(k) == RSame(T(k, k.one), RespHead(k["in"], k.relaxed, k.limit))
CaseOk == i > 0 => POk(Case)
ImplOk == i > 0 => IOk(Case)
====
