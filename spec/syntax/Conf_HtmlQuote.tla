---- MODULE Conf_HtmlQuote ----
(* one TLC state = one batch {"b": [ {"s": input bytes, "q": bytes html_quote() returned}, ... ]} *)
EXTENDS HtmlQuote, ConfLib
Case == Cases[i]
\* the recursive reference decoder for ordinary sizes, the positional one (MC_HtmlQuote: they agree) for long texts
Dec(q) == IF Len(q) <= 64 THEN UnquoteRec(q, 1) ELSE Unquote(q)
Wq(q) == IF Len(q) <= 64 THEN WellQuotedRec(q, 1) ELSE WellQuoted(q)
\* P-layer: the statement of C32, nothing else
POk(k) == Wq(k.q) /\ Dec(k.q) = k.s
\* I-layer: the escape table as it is today (skipped for very long strings: quadratic in TLC)
IOk(k) == Len(k.s) > 2048 \/ k.q = Quote(k.s)
CaseOk == i > 0 => \A e \in 1..Len(Case.b) : POk(Case.b[e])
ImplOk == i > 0 => \A e \in 1..Len(Case.b) : IOk(Case.b[e])
====
