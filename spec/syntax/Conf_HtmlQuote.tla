---- MODULE Conf_HtmlQuote ----
(* one case = {"s": input bytes, "q": bytes html_quote() returned} *)
EXTENDS HtmlQuote, ConfLib
Case == Cases[i]
\* P-layer: the statement of C32, nothing else
POk(k) == WellQuoted(k.q) /\ Unquote(k.q) = k.s
\* I-layer: the escape table as it is today (skipped for very long strings: quadratic in TLC)
IOk(k) == Len(k.s) > 2048 \/ k.q = Quote(k.s)
CaseOk == i > 0 => POk(Case)
ImplOk == i > 0 => IOk(Case)
====
