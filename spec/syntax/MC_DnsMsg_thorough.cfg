CONSTANT Thorough = TRUE
INIT Init
NEXT Next
INVARIANTS RoundTrip
CONSTRAINT Emit
CHECK_DEADLOCK FALSE
