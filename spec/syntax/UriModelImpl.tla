---- MODULE UriModelImpl ----
(* C30 I-layer: what AnyP::Uri::parse decides TODAY for the "simple" subset of absolute-form targets (one authority
   without userinfo oddities, reg-name host containing a letter g-w, y, z / "_" / "-" so that it is certainly not numeric),
   including the named deviation
     D1 (F10) the port of a non-CONNECT target is read with atoi(): sign, trailing bytes, and wrap-around modulo 2^32
   Outside the simple subset the layer says nothing (TRUE). *)
EXTENDS UriModel
\* (int) strtol(text): value modulo 2^32 kept as two 16-bit limbs <<hi, lo>>
RECURSIVE Trunc32(_, _, _)
Trunc32(t, k, acc) == IF k > Len(t) \/ ~IsDigit(t[k]) THEN acc
                      ELSE LET lo == acc[2] * 10 + (t[k] - 48)
                               hi == acc[1] * 10 + lo \div 65536 IN
                           Trunc32(t, k + 1, <<hi % 65536, lo % 65536>>)
RECURSIVE DigitRun(_, _)
DigitRun(t, k) == IF k <= Len(t) /\ IsDigit(t[k]) THEN 1 + DigitRun(t, k + 1) ELSE 0
\* port number atoi() yields, or 0 when the result is outside 1..65535 (rejected either way)
Atoi(t) ==
  LET sg == IF Len(t) > 0 /\ t[1] \in {43, 45} THEN 1 ELSE 0
      neg == Len(t) > 0 /\ t[1] = 45
      n == DigitRun(t, sg + 1) IN
  IF n = 0 THEN 0 ELSE
  LET w == WVal(SubSeq(t, sg + 1, sg + n))
      a == Trunc32(t, sg + 1, <<0, 0>>) IN
  IF ~Leq(w, Max63) THEN 0                                              \* strtol saturates: (int) LONG_MAX = -1, (int) LONG_MIN = 0
  ELSE IF ~neg THEN (IF a[1] = 0 THEN a[2] ELSE 0)
  ELSE (IF a[1] = 65535 /\ a[2] > 0 THEN 65536 - a[2] ELSE 0)          \* -(v) mod 2^32 in 1..65535
NameChar(b, chk) == (b >= 97 /\ b <= 122) \/ IsDigit(b) \/ b \in {45, 46} \/ (b = 95 /\ ~chk)
\* a letter that cannot occur in a numeric address (not a-f, not the x of 0x..), "_" or "-"
SurelyName(h) == \E i \in 1..Len(h) : (h[i] >= 103 /\ h[i] <= 122 /\ h[i] # 120) \/ h[i] \in {45, 95}
RECURSIVE StripDots(_)
StripDots(h) == IF Len(h) > 0 /\ h[Len(h)] = 46 THEN StripDots(SubSeq(h, 1, Len(h) - 1)) ELSE h
\* [simple, ok, host, port]
ISimple(u, chk) ==
  LET n == SchemeLen(u, 1)
      no == [simple |-> FALSE, ok |-> FALSE, host |-> <<>>, port |-> 0] IN
  IF n = 0 \/ n > 16 \/ ~IsAlpha(u[1]) \/ Len(u) < n + 3 \/ u[n + 1] # 58 \/ u[n + 2] # 47 \/ u[n + 3] # 47 THEN no ELSE
  LET scheme == LowerSeq(SubSeq(u, 1, n))
      rest == SubSeq(u, n + 4, Len(u))
      e == IndexFrom(rest, {47, 63, 35}, 1)
      auth == IF e = 0 THEN rest ELSE SubSeq(rest, 1, e - 1)
      tail == IF e = 0 THEN <<>> ELSE SubSeq(rest, e, Len(rest))
      c == IndexFrom(auth, {58}, 1)
      h0 == LowerSeq(IF c = 0 THEN auth ELSE SubSeq(auth, 1, c - 1))
      pt == IF c = 0 THEN <<>> ELSE SubSeq(auth, c + 1, Len(auth)) IN
  IF DefaultPort(scheme) = 0 \/ Count(auth, 58) > 1 \/ h0 = <<>> \/ ~SurelyName(h0)
     \/ (\E i \in 1..Len(auth) : auth[i] \in {64, 91, 93, 37} \/ Odd(auth[i]) \/ auth[i] >= 128)
     \/ (\E i \in 1..Len(tail) : Odd(tail[i])) \/ Len(u) > 200
  THEN no ELSE
  LET port == IF c = 0 THEN DefaultPort(scheme) ELSE Atoi(pt)
      h == StripDots(h0)
      bad == (chk /\ \E i \in 1..Len(h0) : ~NameChar(h0[i], TRUE)) \/ ~NoDotDot(h, 1) \/ (Len(h) > 0 /\ h[1] = 46) \/ port = 0 IN
  [simple |-> TRUE, ok |-> ~bad, host |-> h, port |-> port]
====
