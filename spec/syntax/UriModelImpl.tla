---- MODULE UriModelImpl ----
(* C30 I-layer: what AnyP::Uri::parse decides TODAY for the "simple" subset of absolute-form targets (one authority
   without userinfo oddities, reg-name host containing a letter g-w, y, z / "_" / "-" so that it is certainly not numeric),
   The port of a non-CONNECT target is read as decimal digits only (F10 repaired in e324c55: no sign, no trailing bytes,
   no wrap-around; an empty port and values above 65535 are rejected, leading zeros are accepted).
   Outside the simple subset the layer says nothing (TRUE). *)
EXTENDS UriModel
\* port of a non-CONNECT target: decimal digits only (e324c55); 0 stands for "rejected" (no digits, other bytes, > 65535)
NewPort(t) == IF AllDigits(t) /\ Leq(WVal(t), Port65535) THEN W2N(WVal(t)) ELSE 0
NameChar(b, chk) == (b >= 97 /\ b <= 122) \/ IsDigit(b) \/ b \in {45, 46} \/ (b = 95 /\ ~chk)
\* a letter that cannot occur in a numeric address (not a-f, not the x of 0x..), "_" or "-"
SurelyName(h) == \E i \in 1..Len(h) : (h[i] >= 103 /\ h[i] <= 122 /\ h[i] # 120) \/ h[i] \in {45, 95}
RECURSIVE StripDots(_)
StripDots(h) == IF Len(h) > 0 /\ h[Len(h)] = 46 THEN StripDots(SubSeq(h, 1, Len(h) - 1)) ELSE h
\* [simple, ok, host, port]
ISimple(u, chk) ==
  LET n == SchemeLen(u, 1)
      no == [simple |-> FALSE, ok |-> FALSE, host |-> <<>>, port |-> 0] IN
  IF n = 0 \/ n > 16 \/ ~IsAlpha(u[1]) \/ Len(u) < n + 3 \/ u[n + 1] # 58 \/ u[n + 2] # 47 \/ u[n + 3] # 47 THEN no ELSE
  LET scheme == LowerSeq(SubSeq(u, 1, n))
      rest == SubSeq(u, n + 4, Len(u))
      e == IndexFrom(rest, {47, 63, 35}, 1)
      auth == IF e = 0 THEN rest ELSE SubSeq(rest, 1, e - 1)
      tail == IF e = 0 THEN <<>> ELSE SubSeq(rest, e, Len(rest))
      c == IndexFrom(auth, {58}, 1)
      h0 == LowerSeq(IF c = 0 THEN auth ELSE SubSeq(auth, 1, c - 1))
      pt == IF c = 0 THEN <<>> ELSE SubSeq(auth, c + 1, Len(auth)) IN
  IF DefaultPort(scheme) = 0 \/ Count(auth, 58) > 1 \/ h0 = <<>> \/ ~SurelyName(h0)
     \/ (\E i \in 1..Len(auth) : auth[i] \in {64, 91, 93, 37} \/ Odd(auth[i]) \/ auth[i] >= 128)
     \/ (\E i \in 1..Len(tail) : Odd(tail[i])) \/ Len(u) > 200
  THEN no ELSE
  LET port == IF c = 0 THEN DefaultPort(scheme) ELSE NewPort(pt)
      h == StripDots(h0)
      bad == (chk /\ \E i \in 1..Len(h0) : ~NameChar(h0[i], TRUE)) \/ ~NoDotDot(h, 1) \/ (Len(h) > 0 /\ h[1] = 46) \/ port = 0 IN
  [simple |-> TRUE, ok |-> ~bad, host |-> h, port |-> port]
====
