---- MODULE Conf_CacheControl ----
(* C29 conformance: one case = one Cache-Control field value v run through HttpHdrCc::parse (c1), packInto (packed)
   and HttpHdrCc::parse again (c2).  CaseOk: c1 is a directive set the property allows for v, and c2 = c1
   ("packing the parsed directives and parsing the result again yields the same directives"). *)
EXTENDS CacheControlImpl, ConfLib
Case == Cases[i]
Obs(x) == NormC(x)
POk(k) == /\ Allowed(k.v, Obs(k.c1))
          /\ Obs(k.c2) = Obs(k.c1)
IObs(x) == [f |-> Obs(x).f, n |-> Obs(x).n, l |-> Obs(x).l, other |-> x.other]
IOk(k) == LET m == IParse(k.v) IN
          /\ IObs(k.c1) = m
          /\ k.c1.ret = IRet(m)
          /\ k.packed = IPack(m)
          /\ IObs(k.c2) = IParse(k.packed)
CaseOk == i > 0 => POk(Case)
ImplOk == i > 0 => IOk(Case)
====
