---- MODULE DnsMsg ----
(* C37: DNS messages (RFC 1035 section 4) over byte sequences (Seq(0..255)); offsets are 0-based as in the RFC,
   b[off + 1] is the octet at offset off.

   A message is [id, qr, opcode, aa, tc, rd, ra, rcode, qd, an, ns, ar] where qd is a sequence of questions
   [name, type, class] and an/ns/ar are sequences of resource records [name, type, class, ttl, rdlen, rdata, ptr];
   a name is a sequence of labels (each a non-empty byte sequence of at most 63 octets); ttl is kept as its 4 octets
   (TLC integers are 32-bit signed); rdata is the raw RDATA; ptr is the domain name denoted by the RDATA of a PTR
   record (<<>> for the other types).

   Decode(b)            -> [ok |-> FALSE] | [ok |-> TRUE, m |-> message, exact |-> every PTR name fills its RDATA exactly]
   Encode(m, plan)      -> bytes; plan[j] tells how the j-th name of the message (in wire order) is compressed:
                           -1 = not at all, k >= 0 = write the first k labels, then a pointer to an earlier occurrence
                           of the remaining suffix (if there is none, the name is written in full)
   MC_DnsMsg checks Decode(Encode(m, plan)).m = m on a bounded domain. *)
EXTENDS Naturals, Sequences, Integers, TLC

U16(b, off) == b[off + 1] * 256 + b[off + 2]
Byte2(n) == <<n \div 256, n % 256>>
TypePTR == 12
MaxJumps == 64        \* compression pointers followed for one name (the implementation's recursion bound)
MaxWire == 255        \* RFC 1035 2.3.4: a name is at most 255 octets on the wire
Bad == [ok |-> FALSE]

RECURSIVE NameAt(_, _, _, _, _)
\* the name starting at offset off; jumps = pointers followed so far, wire = octets of the labels expanded so far
\* -> [ok, labels, next (offset after the name where it was written), jumps]
\* impl = FALSE: the RFC limit (labels + root <= 255 octets).  impl = TRUE: the limit of today's decoder, whose 256-byte
\* text buffer takes up to 256 label octets and which stops reading, without consuming the root label, when it is full
\* (I-layer only).
NameAt(b, off, jumps, wire, impl) ==
  IF off >= Len(b) THEN Bad
  ELSE LET c == b[off + 1] IN
       IF c >= 192 THEN
            IF jumps >= MaxJumps + 1 \/ off + 2 > Len(b) THEN Bad
            ELSE LET ptr == (c - 192) * 256 + b[off + 2] IN
                 IF ptr >= Len(b) THEN Bad
                 ELSE LET r == NameAt(b, ptr, jumps + 1, wire, impl) IN
                      IF r.ok THEN [ok |-> TRUE, labels |-> r.labels, next |-> off + 2, jumps |-> r.jumps] ELSE Bad
       ELSE IF c >= 64 THEN Bad                                   \* reserved label types
       ELSE IF c = 0 THEN [ok |-> TRUE, labels |-> <<>>, next |-> off + 1, jumps |-> jumps]
       ELSE IF off + 1 + c >= Len(b) \/ wire + 1 + c > (IF impl THEN MaxWire + 1 ELSE MaxWire - 1) THEN Bad
       ELSE IF impl /\ wire + 1 + c = MaxWire + 1 THEN [ok |-> TRUE, labels |-> <<SubSeq(b, off + 2, off + 1 + c)>>, next |-> off + 1 + c, jumps |-> jumps]
       ELSE LET r == NameAt(b, off + 1 + c, jumps, wire + 1 + c, impl) IN
            IF r.ok THEN [ok |-> TRUE, labels |-> <<SubSeq(b, off + 2, off + 1 + c)>> \o r.labels, next |-> r.next, jumps |-> r.jumps] ELSE Bad
Name(b, off, impl) == NameAt(b, off, 0, 0, impl)

\* one question at offset off -> [ok, q, next]
QuestionAt(b, off, impl) ==
  LET n == Name(b, off, impl) IN
  IF ~n.ok THEN Bad
  ELSE IF n.next + 4 > Len(b) THEN Bad
  ELSE [ok |-> TRUE, q |-> [name |-> n.labels, type |-> U16(b, n.next), class |-> U16(b, n.next + 2)], next |-> n.next + 4]
\* one resource record at offset off -> [ok, rr, next, exact]
RRAt(b, off, impl) ==
  LET n == Name(b, off, impl) IN
  IF ~n.ok THEN Bad
  ELSE IF n.next + 10 > Len(b) THEN Bad
  ELSE LET type == U16(b, n.next)
           rdlen == U16(b, n.next + 8)
           ro == n.next + 10 IN
       IF ro + rdlen > Len(b) THEN Bad
       ELSE LET base == [name |-> n.labels, type |-> type, class |-> U16(b, n.next + 2), ttl |-> SubSeq(b, n.next + 5, n.next + 8),
                         rdlen |-> rdlen, rdata |-> SubSeq(b, ro + 1, ro + rdlen)] IN
            IF type = TypePTR THEN
                 LET p == Name(b, ro, impl) IN
                 IF ~p.ok \/ p.next > ro + rdlen THEN Bad
                 ELSE [ok |-> TRUE, rr |-> base @@ [ptr |-> p.labels], next |-> ro + rdlen, exact |-> (p.next = ro + rdlen)]
            ELSE [ok |-> TRUE, rr |-> base @@ [ptr |-> <<>>], next |-> ro + rdlen, exact |-> TRUE]
RECURSIVE QList(_, _, _)
QList(b, off, n) == IF n = 0 THEN [ok |-> TRUE, l |-> <<>>, next |-> off]
                    ELSE LET q == QuestionAt(b, off, FALSE) IN
                         IF ~q.ok THEN Bad
                         ELSE LET r == QList(b, q.next, n - 1) IN IF r.ok THEN [ok |-> TRUE, l |-> <<q.q>> \o r.l, next |-> r.next] ELSE Bad
RECURSIVE RRList(_, _, _)
RRList(b, off, n) == IF n = 0 THEN [ok |-> TRUE, l |-> <<>>, next |-> off, exact |-> TRUE]
                     ELSE LET x == RRAt(b, off, FALSE) IN
                          IF ~x.ok THEN Bad
                          ELSE LET r == RRList(b, x.next, n - 1) IN
                               IF r.ok THEN [ok |-> TRUE, l |-> <<x.rr>> \o r.l, next |-> r.next, exact |-> (x.exact /\ r.exact)] ELSE Bad
Header(b) == [id |-> U16(b, 0), qr |-> b[3] \div 128, opcode |-> (b[3] \div 8) % 16, aa |-> (b[3] \div 4) % 2, tc |-> (b[3] \div 2) % 2,
              rd |-> b[3] % 2, ra |-> b[4] \div 128, rcode |-> b[4] % 16,
              qdcount |-> U16(b, 4), ancount |-> U16(b, 6), nscount |-> U16(b, 8), arcount |-> U16(b, 10)]
Decode(b) ==
  IF Len(b) < 12 THEN Bad
  ELSE LET h == Header(b)
           q == QList(b, 12, h.qdcount) IN
       IF ~q.ok THEN Bad
       ELSE LET a == RRList(b, q.next, h.ancount) IN
            IF ~a.ok THEN Bad
            ELSE LET n == RRList(b, a.next, h.nscount) IN
                 IF ~n.ok THEN Bad
                 ELSE LET x == RRList(b, n.next, h.arcount) IN
                      IF ~x.ok THEN Bad
                      ELSE [ok |-> TRUE, exact |-> (a.exact /\ n.exact /\ x.exact), end |-> x.next,
                            m |-> [id |-> h.id, qr |-> h.qr, opcode |-> h.opcode, aa |-> h.aa, tc |-> h.tc, rd |-> h.rd, ra |-> h.ra, rcode |-> h.rcode,
                                   qd |-> q.l, an |-> a.l, ns |-> n.l, ar |-> x.l]]

\* ------------------------------------------------------------------------------------------------ encoder
\* suffix table: sequence of [sfx |-> labels, off |-> offset]; the first entry for a suffix wins
RECURSIVE Lookup(_, _, _)
Lookup(tbl, sfx, j) == IF j > Len(tbl) THEN 0 - 1 ELSE IF tbl[j].sfx = sfx THEN tbl[j].off ELSE Lookup(tbl, sfx, j + 1)
RECURSIVE LabelsBytes(_, _, _)
LabelsBytes(n, from, to) == IF from > to THEN <<>> ELSE <<Len(n[from])>> \o n[from] \o LabelsBytes(n, from + 1, to)
RECURSIVE SuffixEntries(_, _, _, _)
\* table entries for the suffixes of n that start at the labels from..to, the first of them written at offset off
SuffixEntries(n, from, to, off) ==
  IF from > to THEN <<>>
  ELSE (IF off < 16384 THEN <<[sfx |-> SubSeq(n, from, Len(n)), off |-> off]>> ELSE <<>>) \o SuffixEntries(n, from + 1, to, off + 1 + Len(n[from]))
\* -> [b |-> octets, tbl |-> extended table]
EncName(n, k, off, tbl) ==
  LET kk == IF k < 0 \/ k > Len(n) THEN Len(n) ELSE k
      target == IF k < 0 THEN 0 - 1 ELSE Lookup(tbl, SubSeq(n, kk + 1, Len(n)), 1) IN
  IF target < 0 THEN
       LET lit == LabelsBytes(n, 1, Len(n)) IN
       [b |-> lit \o <<0>>, tbl |-> tbl \o SuffixEntries(n, 1, Len(n), off) \o (IF off + Len(lit) < 16384 THEN <<[sfx |-> <<>>, off |-> off + Len(lit)]>> ELSE <<>>)]
  ELSE [b |-> LabelsBytes(n, 1, kk) \o <<192 + (target \div 256), target % 256>>, tbl |-> tbl \o SuffixEntries(n, 1, kk, off)]
PlanAt(plan, j) == IF j <= Len(plan) THEN plan[j] ELSE 0 - 1
\* state threaded through the encoder: [b |-> octets so far, tbl, j |-> index of the next name]
EncQ(st, q, plan) == LET e == EncName(q.name, PlanAt(plan, st.j), Len(st.b), st.tbl) IN
                     [b |-> st.b \o e.b \o Byte2(q.type) \o Byte2(q.class), tbl |-> e.tbl, j |-> st.j + 1]
EncRR(st, rr, plan) ==
  LET e == EncName(rr.name, PlanAt(plan, st.j), Len(st.b), st.tbl)
      fixed == Byte2(rr.type) \o Byte2(rr.class) \o rr.ttl
      ro == Len(st.b) + Len(e.b) + 10 IN
  IF rr.type = TypePTR THEN
       LET p == EncName(rr.ptr, PlanAt(plan, st.j + 1), ro, e.tbl) IN
       [b |-> st.b \o e.b \o fixed \o Byte2(Len(p.b)) \o p.b, tbl |-> p.tbl, j |-> st.j + 2]
  ELSE [b |-> st.b \o e.b \o fixed \o Byte2(Len(rr.rdata)) \o rr.rdata, tbl |-> e.tbl, j |-> st.j + 1]
RECURSIVE EncQs(_, _, _, _)
EncQs(st, l, k, plan) == IF k > Len(l) THEN st ELSE EncQs(EncQ(st, l[k], plan), l, k + 1, plan)
RECURSIVE EncRRs(_, _, _, _)
EncRRs(st, l, k, plan) == IF k > Len(l) THEN st ELSE EncRRs(EncRR(st, l[k], plan), l, k + 1, plan)
EncHeader(m) == Byte2(m.id) \o <<m.qr * 128 + m.opcode * 8 + m.aa * 4 + m.tc * 2 + m.rd, m.ra * 128 + m.rcode>>
                \o Byte2(Len(m.qd)) \o Byte2(Len(m.an)) \o Byte2(Len(m.ns)) \o Byte2(Len(m.ar))
Encode(m, plan) ==
  LET s0 == [b |-> EncHeader(m), tbl |-> <<>>, j |-> 1]
      s1 == EncQs(s0, m.qd, 1, plan)
      s2 == EncRRs(s1, m.an, 1, plan)
      s3 == EncRRs(s2, m.ns, 1, plan)
      s4 == EncRRs(s3, m.ar, 1, plan) IN s4.b
\* what Decode returns for an encoded record: rdlen/rdata of a PTR record are those of the chosen encoding, so they are
\* compared through ptr only
Canon(rr) == IF rr.type = TypePTR THEN [rr EXCEPT !.rdlen = 0, !.rdata = <<>>] ELSE rr
CanonMsg(m) == [m EXCEPT !.an = [j \in 1..Len(m.an) |-> Canon(m.an[j])], !.ns = [j \in 1..Len(m.ns) |-> Canon(m.ns[j])],
                         !.ar = [j \in 1..Len(m.ar) |-> Canon(m.ar[j])]]
====
