---- MODULE Conf_ProxyProto ----
(* C38 conformance: every case is one input s together with what ProxyProtocol::Parse returned for the prefixes of s
   of the lengths ks (ascending, the last one is Len(s)); pre[j] indexes the distinct outcomes res.
   P-layer (the statement):
     PrefixLaw   every prefix outcome is need, rej, or the very outcome of the complete input
     Faithful    Decode(s) = hdr: below the header length the parser asks for more bytes (so that the header, delivered
                 in any segmentation, is eventually returned), from the header length on it returns exactly the encoded
                 fields with consumed = header length
     Rejecting   Decode(s) = rej (complete and malformed): no prefix yields a header, and every prefix that contains the
                 complete malformed header is rejected
     Decode(s) = need: no header may be returned;  Decode(s) = free: only PrefixLaw applies
   I-layer (drift only): today's exact reject positions, hasAddresses/TLVs of address-less headers, no UBSan report. *)
EXTENDS ProxyProto, ConfLib
Case == Cases[i]
Out(k, j) == k.res[k.pre[j]]
NK(k) == Len(k.ks)
FieldsMatch(o, r) ==
  /\ o.k = "hdr" /\ o.n = r.cp /\ o.ver = r.ver /\ o.cmd = r.cmd
  /\ CASE r.mode \in {"inet", "inet6"} -> /\ o.fwd /\ o.sa = r.sa /\ o.da = r.da /\ o.sp = r.sp /\ o.dp = r.dp /\ o.tlvs = r.tlvs
                                          /\ o.s4 = IsMapped(r.sa) /\ o.d4 = IsMapped(r.da)
       [] r.mode = "unix" -> o.tlvs = r.tlvs
       [] r.mode \in {"none", "local"} -> ~o.fwd
PrefixLaw(k) == \A j \in 1..NK(k) : Out(k, j).k \in {"need", "rej"} \/ Out(k, j) = Out(k, NK(k))
POk(k) ==
  LET r == Decode(k.s) IN
  /\ ~k.abort             \* the parser terminated the process (sanitizer report, assertion) on some prefix
  /\ PrefixLaw(k)
  /\ CASE r.kind = "need" -> \A j \in 1..NK(k) : Out(k, j).k \in {"need", "rej"}
       [] r.kind = "rej" -> \A j \in 1..NK(k) : IF k.ks[j] >= r.cp THEN Out(k, j).k = "rej" ELSE Out(k, j).k \in {"need", "rej"}
       [] r.kind = "hdr" -> \A j \in 1..NK(k) : IF k.ks[j] >= r.cp THEN FieldsMatch(Out(k, j), r) ELSE Out(k, j).k = "need"
       [] r.kind = "free" -> TRUE
\* where today's code gives up on a malformed input
ImplRejectAt(s, r) ==
  IF StartsWith(s, Magic2) THEN
       (IF s[13] \div 16 # 2 \/ s[13] % 16 > 1 THEN 13 ELSE IF s[14] \div 16 > 3 \/ s[14] % 16 > 2 THEN 14 ELSE r.cp)
  ELSE IF StartsWith(s, Magic1) THEN (IF FirstCR(s, 6, 106) = 0 THEN 106 ELSE IF FirstCR(s, 6, 106) = 6 THEN 6 ELSE r.cp)
  ELSE 12
IOk(k) ==
  LET r == Decode(k.s) IN
  /\ ~k.ub /\ ~k.abort
  /\ CASE r.kind = "rej" -> \A j \in 1..NK(k) : Out(k, j).k = (IF k.ks[j] >= ImplRejectAt(k.s, r) THEN "rej" ELSE "need")
       [] r.kind = "hdr" /\ r.mode = "none" -> \A j \in 1..NK(k) : k.ks[j] >= r.cp => ~Out(k, j).hasaddr /\ Out(k, j).tlvs = <<>>
       [] r.kind = "hdr" /\ r.mode = "unix" -> \A j \in 1..NK(k) : k.ks[j] >= r.cp => Out(k, j).fwd /\ Out(k, j).sa = Zeros(16)
       [] OTHER -> TRUE
CaseOk == i > 0 => POk(Case)
ImplOk == i > 0 => IOk(Case)
====
