---- MODULE HeaderBlock ----
(* C25: a header block (the bytes after the start line, with or without the terminating empty line) read as a list of
   <<name, value>> fields, and the packing of a field list.

   Reading (ParseBlock): physical lines end at LF, one CR before the LF belongs to the line end; a line that starts
   with SP / HTAB continues the previous field (obs-fold); the field text is the span from its first byte to the end of
   its last line, line breaks of the fold included; name = bytes before the first ":", value = the rest without the
   surrounding whitespace.  The record returned lists the fields together with everything the statement of C25 talks
   about (NUL, CR-only lines, whitespace before the colon, obs-fold, bare CR) and everything that makes the block
   irregular (unterminated last line, empty line inside, missing colon, bad name, blank continuation line).

   FramingDecision(fields): how the message is delimited according to the block (C26, ContentLength.tla). *)
EXTENDS Naturals, Sequences, ContentLength

CRb == 13
LFb == 10
Tchar == {33, 35, 36, 37, 38, 39, 42, 43, 45, 46, 94, 95, 96, 124, 126} \cup (48..57) \cup (65..90) \cup (97..122)
Lower(c) == IF c >= 65 /\ c <= 90 THEN c + 32 ELSE c
LowerSeq(s) == [k \in 1..Len(s) |-> Lower(s[k])]
NameCL == <<99, 111, 110, 116, 101, 110, 116, 45, 108, 101, 110, 103, 116, 104>>                          \* content-length
NameTE == <<116, 114, 97, 110, 115, 102, 101, 114, 45, 101, 110, 99, 111, 100, 105, 110, 103>>          \* transfer-encoding
Chunked7 == <<99, 104, 117, 110, 107, 101, 100>>                                                        \* chunked
SameName(a, b) == LowerSeq(a) = LowerSeq(b)
MinOf(S) == CHOOSE k \in S : \A j \in S : k <= j

\* ---- physical lines: [s, e] = first and last content byte (e < s: empty), cr = a CR was taken off the end, lf = has its LF
RECURSIVE Lines(_, _)
Lines(b, k) ==
  IF k > Len(b) THEN <<>>
  ELSE LET lfs == {q \in k..Len(b) : b[q] = LFb} IN
       IF lfs = {} THEN <<[s |-> k, e |-> Len(b), cr |-> FALSE, lf |-> FALSE]>>
       ELSE LET q == MinOf(lfs)
                cr == q > k /\ b[q - 1] = CRb IN
            <<[s |-> k, e |-> IF cr THEN q - 2 ELSE q - 1, cr |-> cr, lf |-> TRUE]>> \o Lines(b, q + 1)

LineEmpty(l) == l.e < l.s
LineHasCr(b, l) == \E p \in l.s..l.e : b[p] = CRb
LineCrOnly(b, l) == l.cr /\ ~LineEmpty(l) /\ \A p \in l.s..l.e : b[p] = CRb
IsCont(b, l) == l.s <= Len(b) /\ b[l.s] \in {32, 9}        \* the byte after the previous LF is SP / HTAB

\* ---- logical fields: groups <<first line index, last line index>>
RECURSIVE LastOfGroup(_, _, _)
LastOfGroup(b, ls, j) == IF j + 1 <= Len(ls) /\ IsCont(b, ls[j + 1]) THEN LastOfGroup(b, ls, j + 1) ELSE j
RECURSIVE Groups(_, _, _)
Groups(b, ls, j) == IF j > Len(ls) THEN <<>> ELSE LET z == LastOfGroup(b, ls, j) IN <<<<j, z>>>> \o Groups(b, ls, z + 1)

\* the field text with (relaxed) every bare CR inside a line replaced by SP
FieldText(b, ls, g, crToSp) ==
  LET from == ls[g[1]].s
      to == ls[g[2]].e
      inLine(p) == \E j \in g[1]..g[2] : p >= ls[j].s /\ p <= ls[j].e IN
  [k \in 1..(to - from + 1) |-> LET p == from + k - 1 IN IF crToSp /\ b[p] = CRb /\ inLine(p) THEN 32 ELSE b[p]]

\* one field: everything the property and the irregularity tests need
Field(b, ls, g, relaxed) ==
  LET txt == FieldText(b, ls, g, relaxed # 0)
      colons == {k \in 1..Len(txt) : txt[k] = 58}
      c == IF colons = {} THEN 0 ELSE MinOf(colons)
      rawName == IF c = 0 THEN <<>> ELSE SubSeq(txt, 1, c - 1)
      name == TrimRight(rawName, Space6)
      value == IF c = 0 THEN <<>> ELSE Trim(SubSeq(txt, c + 1, Len(txt)), Space6) IN
  [name |-> name, value |-> value,
   colon |-> c # 0,
   wsBeforeColon |-> c # 0 /\ rawName # name,
   nameOk |-> name # <<>> /\ \A k \in 1..Len(name) : name[k] \in Tchar,
   fold |-> g[2] > g[1],
   bareCr |-> \E j \in g[1]..g[2] : LineHasCr(b, ls[j]),
   blankCont |-> \E j \in (g[1] + 1)..g[2] : ls[j].e = ls[j].s,       \* a continuation line of one blank only
   empty |-> g[1] = g[2] /\ LineEmpty(ls[g[1]]),
   unterminated |-> ~ls[g[2]].lf]

IsCL(f) == SameName(f.name, NameCL)
IsTE(f) == SameName(f.name, NameTE)

ParseBlock(b, owner, relaxed) ==
  LET ls == Lines(b, 1)
      gs == Groups(b, ls, 1)
      all == [k \in 1..Len(gs) |-> Field(b, ls, gs[k], relaxed)]
      \* the terminating empty line is not a field
      n == IF Len(all) > 0 /\ all[Len(all)].empty /\ ~all[Len(all)].unterminated THEN Len(all) - 1 ELSE Len(all)
      fs == SubSeq(all, 1, n) IN
  [fields |-> fs,
   nul |-> \E k \in 1..Len(b) : b[k] = 0,
   crOnlyLine |-> \E j \in 1..Len(ls) : LineCrOnly(b, ls[j]),
   wsBeforeColon |-> \E k \in 1..n : fs[k].wsBeforeColon,
   framingFoldOrCr |-> \E k \in 1..n : fs[k].colon /\ (IsCL(fs[k]) \/ IsTE(fs[k])) /\ (fs[k].fold \/ fs[k].bareCr),
   bareCr |-> \E k \in 1..n : fs[k].bareCr,
   \* irregular shapes the statement says nothing about
   irregular |-> \E k \in 1..n : fs[k].empty \/ fs[k].unterminated \/ ~fs[k].colon \/ ~fs[k].nameOk \/ fs[k].blankCont]

\* the statement's "are rejected" clauses
MustReject(pb, owner) == \/ pb.nul
                         \/ owner = "req" /\ pb.crOnlyLine
                         \/ owner = "req" /\ pb.wsBeforeColon
                         \/ pb.framingFoldOrCr

Pairs(fs) == [k \in 1..Len(fs) |-> <<fs[k].name, fs[k].value>>]
NotCL(fs) == SelectSeq(fs, LAMBDA f : ~IsCL(f))
ValuesOf(fs, Want(_)) == LET sel == SelectSeq(fs, Want) IN [k \in 1..Len(sel) |-> sel[k].value]

\* ---- value comparison of the P-layer: an obs-fold may be kept or replaced by SP, a bare CR may be kept or replaced by SP
RECURSIVE Unfold(_)
Unfold(v) ==
  IF v = <<>> THEN <<>>
  ELSE LET crlf == Len(v) >= 2 /\ v[1] = CRb /\ v[2] = LFb
           brk == IF crlf THEN 2 ELSE IF v[1] = LFb THEN 1 ELSE 0 IN
       IF brk > 0 /\ Len(v) > brk /\ v[brk + 1] \in {32, 9}
       THEN <<32>> \o Unfold(TrimLeft(SubSeq(v, brk + 1, Len(v)), {32, 9}))
       ELSE <<IF v[1] = CRb THEN 32 ELSE v[1]>> \o Unfold(Tail(v))
SameValue(a, b) == Unfold(a) = Unfold(b)

\* ---- packing
CRLF2 == <<13, 10>>
RECURSIVE Pack(_)
\* entries: sequence of <<name, value>>
Pack(es) == IF es = <<>> THEN <<>> ELSE Head(es)[1] \o <<58, 32>> \o Head(es)[2] \o CRLF2 \o Pack(Tail(es))

\* ---- framing (I-layer: the code's decision procedure)
RECURSIVE JoinList(_)
JoinList(vs) == IF vs = <<>> THEN <<>> ELSE IF Len(vs) = 1 THEN vs[1] ELSE vs[1] \o <<44, 32>> \o JoinList(Tail(vs))
FramingDecision(fs, relaxed) ==
  LET tes == ValuesOf(fs, IsTE)
      cls == ValuesOf(fs, IsCL) IN
  IF tes # <<>> THEN (IF LowerSeq(JoinList(tes)) = Chunked7 THEN [kind |-> "Chunked", n |-> <<>>] ELSE [kind |-> "UnsupportedTE", n |-> <<>>])
  ELSE Fold(cls, relaxed)
====
