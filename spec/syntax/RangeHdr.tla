---- MODULE RangeHdr ----
(* C28: the Range request header (RFC 9110 section 14.1 / 14.2, byte ranges).

   P-layer: the reference functions.  Written from the RFC grammar and the property statement:
     ranges-specifier = "bytes" "=" range-set          (range unit compared case-insensitively)
     range-set        = 1#range-spec                    (list rule: OWS around elements, empty elements allowed)
     range-spec       = int-range / suffix-range
     int-range        = first-pos "-" [ last-pos ]      (first-pos, last-pos = 1*DIGIT; invalid if last-pos < first-pos)
     suffix-range     = "-" suffix-length               (suffix-length = 1*DIGIT)
   ParseRange(value) is Ignore when the unit is not bytes, when there is no spec, or when ANY spec is invalid.
   Positions are Wide naturals (little-endian decimal digit sequences) because they may need 64 bits and more.

   Set semantics: Iv(spec, clen) is the half-open interval of representation bytes a spec selects (satisfiable specs
   only), Canon(specs, clen) the list of those intervals in request order, NormSet(intervals) the unique sorted list of
   disjoint non-adjacent intervals with the same union (= the requested byte SET, computable on Wide values).
   MC_RangeHdr model-checks on small naturals that NormSet really denotes the explicit byte set Bytes(specs, clen). *)
EXTENDS Naturals, Sequences, Wide

\* result of ParseRange: [ok, specs]; ok = FALSE means: ignore the header
Ignore == [ok |-> FALSE, specs |-> <<>>]
IsDigit(b) == b >= 48 /\ b <= 57
IsOWS(b) == b = 32 \/ b = 9
Lower(b) == IF b >= 65 /\ b <= 90 THEN b + 32 ELSE b
BytesEq == <<98, 121, 116, 101, 115, 61>>      \* "bytes="

RECURSIVE SplitComma(_, _, _)
\* the comma-separated elements of s[k..]; cur is the element collected so far
SplitComma(s, k, cur) == IF k > Len(s) THEN <<cur>>
                         ELSE IF s[k] = 44 THEN <<cur>> \o SplitComma(s, k + 1, <<>>)
                         ELSE SplitComma(s, k + 1, Append(cur, s[k]))
RECURSIVE LTrim(_)
LTrim(s) == IF Len(s) > 0 /\ IsOWS(s[1]) THEN LTrim(Tail(s)) ELSE s
RECURSIVE RTrim(_)
RTrim(s) == IF Len(s) > 0 /\ IsOWS(s[Len(s)]) THEN RTrim(SubSeq(s, 1, Len(s) - 1)) ELSE s
Trim(s) == RTrim(LTrim(s))
RECURSIVE NonEmpty(_)
NonEmpty(L) == IF L = <<>> THEN <<>> ELSE IF Head(L) = <<>> THEN NonEmpty(Tail(L)) ELSE <<Head(L)>> \o NonEmpty(Tail(L))
\* list elements per RFC 9110 5.6.1: OWS trimmed, empty elements dropped
Elements(s) == LET raw == SplitComma(s, 1, <<>>) IN NonEmpty([i \in 1..Len(raw) |-> Trim(raw[i])])

AllDigits(s) == Len(s) > 0 /\ \A i \in 1..Len(s) : IsDigit(s[i])
\* value of a digit string (as written, most significant first)
Val(ds) == FromBE([i \in 1..Len(ds) |-> ds[i] - 48])
RECURSIVE FirstDash(_, _)
FirstDash(e, k) == IF k > Len(e) THEN 0 ELSE IF e[k] = 45 THEN k ELSE FirstDash(e, k + 1)

Bad == [kind |-> "bad", a |-> <<>>, b |-> <<>>]
\* kind "range": bytes a..b inclusive; "open": bytes a..; "suffix": the last b bytes
SpecOf(e) ==
  IF e[1] = 45 THEN (IF AllDigits(Tail(e)) THEN [kind |-> "suffix", a |-> <<>>, b |-> Val(Tail(e))] ELSE Bad)
  ELSE LET p == FirstDash(e, 1) IN
       IF p = 0 THEN Bad ELSE
       LET first == SubSeq(e, 1, p - 1)
           last == SubSeq(e, p + 1, Len(e)) IN
       IF ~AllDigits(first) THEN Bad
       ELSE IF last = <<>> THEN [kind |-> "open", a |-> Val(first), b |-> <<>>]
       ELSE IF ~AllDigits(last) THEN Bad
       ELSE IF Cmp(Val(last), Val(first)) < 0 THEN Bad
       ELSE [kind |-> "range", a |-> Val(first), b |-> Val(last)]

ParseRange(v) ==
  IF Len(v) < 6 \/ [i \in 1..6 |-> Lower(v[i])] # BytesEq THEN Ignore ELSE
  LET es == Elements(SubSeq(v, 7, Len(v)))
      specs == [i \in 1..Len(es) |-> SpecOf(es[i])] IN
  IF es = <<>> \/ \E i \in 1..Len(specs) : specs[i] = Bad THEN Ignore ELSE [ok |-> TRUE, specs |-> specs]

\* A server may always ignore a Range header; the statement obliges Squid to honour a syntactically valid one only as far as
\* its numbers are workable: every written position, and last-byte-pos + 1 (the end of the half-open interval), is
\* representable as a non-negative signed 64-bit number.  (A header it does honour must still yield exactly the requested bytes.)
FitsAll(specs) == \A i \in 1..Len(specs) :
                     /\ Leq(specs[i].a, Max63)
                     /\ Leq(specs[i].b, Max63)
                     /\ ((specs[i].kind = "range") => (Cmp(specs[i].b, Max63) < 0))

\* ---- set semantics on Wide values ----
Lt(a, b) == Cmp(a, b) < 0
MinW(a, b) == IF Leq(a, b) THEN a ELSE b
MaxW(a, b) == IF Leq(a, b) THEN b ELSE a
One == <<1>>
Satisfiable(s, C) == CASE s.kind = "suffix" -> s.b # <<>> /\ C # <<>>
                       [] OTHER -> Lt(s.a, C)
\* half-open interval [lo, hi) selected by a satisfiable spec in a representation of C bytes
Iv(s, C) == CASE s.kind = "range" -> [lo |-> s.a, hi |-> MinW(Add(s.b, One), C)]
              [] s.kind = "open" -> [lo |-> s.a, hi |-> C]
              [] s.kind = "suffix" -> [lo |-> Sub(C, MinW(s.b, C)), hi |-> C]
RECURSIVE Canon(_, _)
Canon(specs, C) == IF specs = <<>> THEN <<>>
                   ELSE (IF Satisfiable(Head(specs), C) THEN <<Iv(Head(specs), C)>> ELSE <<>>) \o Canon(Tail(specs), C)

RECURSIVE InsertIv(_, _)
InsertIv(iv, L) == IF L = <<>> THEN <<iv>>
                   ELSE IF Leq(iv.lo, L[1].lo) THEN <<iv>> \o L ELSE <<L[1]>> \o InsertIv(iv, Tail(L))
RECURSIVE SortIv(_)
SortIv(L) == IF L = <<>> THEN <<>> ELSE InsertIv(Head(L), SortIv(Tail(L)))
RECURSIVE MergeIv(_)
MergeIv(L) == IF Len(L) < 2 THEN L
              ELSE IF Leq(L[2].lo, L[1].hi)
                   THEN MergeIv(<<[lo |-> L[1].lo, hi |-> MaxW(L[1].hi, L[2].hi)]>> \o SubSeq(L, 3, Len(L)))
                   ELSE <<L[1]>> \o MergeIv(Tail(L))
\* normal form of a union of NON-EMPTY intervals
NormSet(L) == MergeIv(SortIv(L))

\* the property on a list of derived canonical ranges (intervals with Wide bounds)
NonEmptyInside(L, C) == \A i \in 1..Len(L) : Lt(L[i].lo, L[i].hi) /\ Leq(L[i].hi, C)
CoversExactly(L, specs, C) == NormSet(L) = NormSet(Canon(specs, C))
====
