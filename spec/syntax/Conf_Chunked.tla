---- MODULE Conf_Chunked ----
(* C24 conformance: every case is one input of the real TeChunkedParser with all the delivery schedules (runs) it was fed
   with.  Case = [in, relaxed, ns, runs, ub]; ns = the ascending distinct numbers of delivered bytes that occur in the runs;
   run = [caps (the output capacities that gave this result, 0 = unlimited), out, steps];
   step = <<n, oc, used, outn, k>> (ns[k] = n): after n bytes were delivered the parser had said oc, consumed `used` input
   bytes and produced the first outn bytes of run.out.

   The reference results for the prefixes ns[1] < ns[2] < ... are computed by continuing the reference decoder from its
   state at the previous prefix; that this equals decoding each prefix from scratch is the segmentation law model-checked
   in MC_Chunked (StrLaws / EncLaws). *)
EXTENDS Chunked, ConfLib, TLC
Case == Cases[i]

RECURSIVE RefSeq(_, _, _, _, _, _)
RefSeq(in, ns, j, relaxed, ss, tt) ==
  IF j > Len(ns) THEN <<>>
  ELSE LET s2 == Round(in, ns[j], ss, Unlimited, Strict)
           t2 == Round(in, ns[j], tt, Unlimited, Tolerant(relaxed)) IN
       <<[s |-> Result(s2), t |-> Result(t2)]>> \o RefSeq(in, ns, j + 1, relaxed, s2, t2)

N(st) == st[1]
Oc(st) == st[2]
Used(st) == st[3]
OutN(st) == st[4]
K(st) == st[5]

\* P-layer: the statement of C24
StepP(run, st, ref) ==
  LET out == SubSeq(run.out, 1, OutN(st))
      asTolerant == \/ ref.t.oc = "Done" /\ Oc(st) = "Done" /\ out = ref.t.out /\ Used(st) = ref.t.used
                    \/ ref.t.oc = "NeedMore" /\ Oc(st) = "NeedMore" /\ IsPrefix(out, ref.t.out)
      refused == Oc(st) = "Reject" /\ IsPrefix(out, ref.t.out) IN
  CASE ref.s.oc = "Done" -> Oc(st) = "Done" /\ out = ref.s.out /\ Used(st) = ref.s.used
    [] ref.s.oc = "NeedMore" -> Oc(st) = "NeedMore" /\ IsPrefix(out, ref.s.out)
    [] OTHER -> IF ref.t.oc = "Reject"
                THEN refused \/ (ref.t.soft /\ Oc(st) = "NeedMore" /\ IsPrefix(out, ref.t.out))
                ELSE refused \/ asTolerant

\* I-layer: the decoder as it is today (Tolerant grammar, everything available is moved, early refusal of oversized sizes)
StepI(run, st, ref) ==
  LET out == SubSeq(run.out, 1, OutN(st)) IN
  /\ Oc(st) = ref.t.oc
  /\ out = ref.t.out
  /\ Oc(st) = "Done" => Used(st) = ref.t.used

AllSteps(k, Q(_, _, _), tag) ==
  LET refs == RefSeq(k.in, k.ns, 1, k.relaxed, Init0, Init0) IN
  \A r \in 1..Len(k.runs) : \A s \in 1..Len(k.runs[r].steps) :
     LET st == k.runs[r].steps[s] IN
     \/ /\ k.ns[K(st)] = N(st)
        /\ OutN(st) <= Len(k.runs[r].out)
        /\ Q(k.runs[r], st, refs[K(st)])
     \* tells the check which round of which schedule was refused, and what the reference says there
     \/ PrintT(<<tag, i, r, s, refs[K(st)].s.oc, refs[K(st)].t.oc>>) /\ FALSE

CaseOk == i > 0 => (~Case.ub /\ AllSteps(Case, StepP, "PFAIL"))
ImplOk == i > 0 => AllSteps(Case, StepI, "IFAIL")
====
