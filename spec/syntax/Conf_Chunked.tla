---- MODULE Conf_Chunked ----
(* C24 conformance: every case is one input of the real TeChunkedParser with all the delivery schedules (runs) it was fed
   with.  Case = [in, relaxed, ns, runs, ub]; ns = the distinct numbers of delivered bytes that occur in the runs;
   run = [caps (the output capacities that gave this result, 0 = unlimited), out, steps]; step = [n, k (ns[k] = n), oc, used, outn]: after n bytes were delivered the parser had said oc,
   consumed `used` input bytes and produced the first outn bytes of run.out. *)
EXTENDS Chunked, ConfLib
Case == Cases[i]

RECURSIVE RefSeq(_, _, _, _)
RefSeq(in, ns, j, relaxed) ==
  IF j > Len(ns) THEN <<>>
  ELSE <<[s |-> Dec(in, ns[j], Strict), t |-> Dec(in, ns[j], Tolerant(relaxed))]>> \o RefSeq(in, ns, j + 1, relaxed)

\* P-layer: the statement of C24
StepP(run, st, ref) ==
  LET out == SubSeq(run.out, 1, st.outn)
      asTolerant == \/ ref.t.oc = "Done" /\ st.oc = "Done" /\ out = ref.t.out /\ st.used = ref.t.used
                    \/ ref.t.oc = "NeedMore" /\ st.oc = "NeedMore" /\ IsPrefix(out, ref.t.out)
      refused == st.oc = "Reject" /\ IsPrefix(out, ref.t.out) IN
  CASE ref.s.oc = "Done" -> st.oc = "Done" /\ out = ref.s.out /\ st.used = ref.s.used
    [] ref.s.oc = "NeedMore" -> st.oc = "NeedMore" /\ IsPrefix(out, ref.s.out)
    [] OTHER -> IF ref.t.oc = "Reject"
                THEN refused \/ (ref.t.soft /\ st.oc = "NeedMore" /\ IsPrefix(out, ref.t.out))
                ELSE refused \/ asTolerant

\* I-layer: the decoder as it is today (Tolerant grammar, everything available is moved, early refusal of oversized sizes)
StepI(run, st, ref) ==
  LET out == SubSeq(run.out, 1, st.outn) IN
  /\ st.oc = ref.t.oc
  /\ out = ref.t.out
  /\ st.oc = "Done" => st.used = ref.t.used

AllSteps(k, Q(_, _, _)) ==
  LET refs == RefSeq(k.in, k.ns, 1, k.relaxed) IN
  \A r \in 1..Len(k.runs) : \A s \in 1..Len(k.runs[r].steps) :
     LET st == k.runs[r].steps[s] IN
     /\ k.ns[st.k] = st.n
     /\ st.outn <= Len(k.runs[r].out)
     /\ Q(k.runs[r], st, refs[st.k])

CaseOk == i > 0 => (~Case.ub /\ AllSteps(Case, StepP))
ImplOk == i > 0 => AllSteps(Case, StepI)
====
