---- MODULE Conf_RequestHead ----
(* C21: every case is one input together with the outcomes of the real Http::One::RequestParser when the input is
   parsed at once (tuples[one+1]) and when it is delivered in segments the way ConnStateData does
   (append segment; parse(buffer); buffer := remaining()), a run stopping at the first call that does not ask for more.
   CaseOk is the property: every call made before the last one of a run answered "more", and the outcome of the run is
   the outcome of the one-shot parse.  ImplOk ties the one-shot outcome to ReqHead, whose prefix law TLC checks in MC_RequestHead. *)
EXTENDS RequestHead, ConfLib
Case == Cases[i]
T(k, n) == k.tuples[n + 1]
RunOk(k, r) == /\ \A ix \in 1..Len(r.mid) : T(k, r.mid[ix]).o = "more"
               /\ Same(T(k, r.fin), T(k, k.one))
BadRuns(k) == {ix \in 1..Len(k.runs) : ~RunOk(k, k.runs[ix])}
POk(k) == ~k.ub /\ BadRuns(k) = {}
ImplSame(a, b, relaxed) ==
  IF a.o = "ok" /\ b.o = "ok" /\ relaxed # 0
  THEN Same([a EXCEPT !.method = UpperSeq(@)], [b EXCEPT !.method = UpperSeq(@)])
  ELSE Same(a, b)
IOk(k) == ImplSame(T(k, k.one), ReqHead(k["in"], k.relaxed, k.limit), k.relaxed)
CaseOk == i > 0 => POk(Case)
ImplOk == i > 0 => IOk(Case)
====
