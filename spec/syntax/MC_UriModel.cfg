INIT Init
NEXT Next
INVARIANT Laws
CHECK_DEADLOCK FALSE
