---- MODULE HttpDate ----
(* C35: HTTP dates (RFC 9110 section 5.6.7).  Times are pairs (days since 1970-01-01, second of the day) so that every
   integer stays far below 2^31.  Strings are Seq(0..255).
   P-layer: civil calendar arithmetic (DaysFromCivil / CivilFromDays), Format1123, and recognisers for the three date forms
            (IMF-fixdate, rfc850-date, asctime-date) written from the RFC grammar, with the time each well-formed,
            calendar-valid string denotes.  A two-digit rfc850 year may be resolved by the fixed pivot (yy < 70 -> 20yy) or
            by the RFC's sliding 50-year rule relative to the current year: the statement does not choose.
   I-layer: today's code accepts every string of the domain and uses the fixed pivot. *)
EXTENDS Integers, Sequences

Months == <<<<74, 97, 110>>, <<70, 101, 98>>, <<77, 97, 114>>, <<65, 112, 114>>, <<77, 97, 121>>, <<74, 117, 110>>, <<74, 117, 108>>, <<65, 117, 103>>, <<83, 101, 112>>, <<79, 99, 116>>, <<78, 111, 118>>, <<68, 101, 99>>>>
ShortDays == <<<<83, 117, 110>>, <<77, 111, 110>>, <<84, 117, 101>>, <<87, 101, 100>>, <<84, 104, 117>>, <<70, 114, 105>>, <<83, 97, 116>>>>
LongDays == <<<<83, 117, 110, 100, 97, 121>>, <<77, 111, 110, 100, 97, 121>>, <<84, 117, 101, 115, 100, 97, 121>>, <<87, 101, 100, 110, 101, 115, 100, 97, 121>>, <<84, 104, 117, 114, 115, 100, 97, 121>>, <<70, 114, 105, 100, 97, 121>>, <<83, 97, 116, 117, 114, 100, 97, 121>>>>
GMT == <<71, 77, 84>>
SP == 32
IsDigit(b) == b >= 48 /\ b <= 57
D2(n) == <<48 + (n \div 10), 48 + (n % 10)>>
D4(n) == <<48 + (n \div 1000), 48 + ((n \div 100) % 10), 48 + ((n \div 10) % 10), 48 + (n % 10)>>
Num2(s, k) == (s[k] - 48) * 10 + (s[k + 1] - 48)
Num4(s, k) == Num2(s, k) * 100 + Num2(s, k + 2)
IndexIn(names, w) == LET m == {k \in 1..Len(names) : names[k] = w} IN IF m = {} THEN 0 ELSE CHOOSE k \in m : TRUE

\* ---- civil calendar <-> day number (proleptic Gregorian; years 0..9999) ----
IsLeap(y) == (y % 4 = 0 /\ y % 100 # 0) \/ y % 400 = 0
DaysInMonth(y, m) == IF m = 2 THEN (IF IsLeap(y) THEN 29 ELSE 28) ELSE IF m \in {4, 6, 9, 11} THEN 30 ELSE 31
\* days from 0000-03-01 of a 400-year era; all operands natural (year shifted by one era)
DaysFromCivil(y, m, d) ==
  LET yy == (IF m <= 2 THEN y - 1 ELSE y) + 400
      era == yy \div 400
      yoe == yy - era * 400
      mp == IF m > 2 THEN m - 3 ELSE m + 9
      doy == (153 * mp + 2) \div 5 + d - 1
      doe == yoe * 365 + yoe \div 4 - yoe \div 100 + doy
  IN era * 146097 + doe - 719468 - 146097
\* inverse, for day numbers >= -719468 - 146097 + ... (all dates of years 0..9999)
CivilFromDays(z0) ==
  LET z == z0 + 719468 + 146097
      era == z \div 146097
      doe == z - era * 146097
      yoe == (doe - doe \div 1460 + doe \div 36524 - doe \div 146096) \div 365
      doy == doe - (365 * yoe + yoe \div 4 - yoe \div 100)
      mp == (5 * doy + 2) \div 153
      d == doy - (153 * mp + 2) \div 5 + 1
      m == IF mp < 10 THEN mp + 3 ELSE mp - 9
      y == yoe + era * 400 - 400 + (IF m <= 2 THEN 1 ELSE 0)
  IN [y |-> y, m |-> m, d |-> d]
\* 0 = Sunday; 1970-01-01 was a Thursday
Weekday(days) == (days + 4 + 7 * 150000) % 7

\* ---- formatting: IMF-fixdate, "Sun, 06 Nov 1994 08:49:37 GMT" ----
TimeOfDay(sod) == D2(sod \div 3600) \o <<58>> \o D2((sod \div 60) % 60) \o <<58>> \o D2(sod % 60)
Format1123(days, sod) ==
  LET c == CivilFromDays(days) IN
  ShortDays[Weekday(days) + 1] \o <<44, SP>> \o D2(c.d) \o <<SP>> \o Months[c.m] \o <<SP>> \o D4(c.y) \o <<SP>> \o TimeOfDay(sod) \o <<SP>> \o GMT

\* ---- recognisers.  Result: [form, wd (0..6), d, m, y (or two-digit yy), h, mi, s], or NoDate ----
NoDate == [form |-> "none"]
IsTime(s, k) == /\ IsDigit(s[k]) /\ IsDigit(s[k + 1]) /\ s[k + 2] = 58 /\ IsDigit(s[k + 3]) /\ IsDigit(s[k + 4]) /\ s[k + 5] = 58
                /\ IsDigit(s[k + 6]) /\ IsDigit(s[k + 7])
Fields(form, wd, d, m, y, s, k) == [form |-> form, wd |-> wd - 1, d |-> d, m |-> m, y |-> y, h |-> Num2(s, k), mi |-> Num2(s, k + 3), s |-> Num2(s, k + 6)]
ImfDate(s) ==
  IF Len(s) # 29 THEN NoDate ELSE
  LET wd == IndexIn(ShortDays, SubSeq(s, 1, 3))
      m == IndexIn(Months, SubSeq(s, 9, 11)) IN
  IF /\ wd > 0 /\ s[4] = 44 /\ s[5] = SP /\ IsDigit(s[6]) /\ IsDigit(s[7]) /\ s[8] = SP /\ m > 0 /\ s[12] = SP
     /\ (\A k \in 13..16 : IsDigit(s[k])) /\ s[17] = SP /\ IsTime(s, 18) /\ s[26] = SP /\ SubSeq(s, 27, 29) = GMT
  THEN Fields("imf", wd, Num2(s, 6), m, Num4(s, 13), s, 18) ELSE NoDate
AscDate(s) ==
  IF Len(s) # 24 THEN NoDate ELSE
  LET wd == IndexIn(ShortDays, SubSeq(s, 1, 3))
      m == IndexIn(Months, SubSeq(s, 5, 7)) IN
  IF /\ wd > 0 /\ s[4] = SP /\ m > 0 /\ s[8] = SP /\ (IsDigit(s[9]) \/ s[9] = SP) /\ IsDigit(s[10]) /\ s[11] = SP
     /\ IsTime(s, 12) /\ s[20] = SP /\ (\A k \in 21..24 : IsDigit(s[k]))
  THEN Fields("asctime", wd, (IF s[9] = SP THEN 0 ELSE s[9] - 48) * 10 + (s[10] - 48), m, Num4(s, 21), s, 12) ELSE NoDate
Rfc850Date(s) ==
  LET cs == {c \in 7..10 : c <= Len(s) /\ s[c] = 44 /\ IndexIn(LongDays, SubSeq(s, 1, c - 1)) > 0} IN
  IF cs = {} THEN NoDate ELSE
  LET c == CHOOSE x \in cs : TRUE
      wd == IndexIn(LongDays, SubSeq(s, 1, c - 1))
      m == IF Len(s) = c + 23 THEN IndexIn(Months, SubSeq(s, c + 5, c + 7)) ELSE 0 IN
  IF /\ Len(s) = c + 23 /\ s[c + 1] = SP /\ IsDigit(s[c + 2]) /\ IsDigit(s[c + 3]) /\ s[c + 4] = 45 /\ m > 0 /\ s[c + 8] = 45
     /\ IsDigit(s[c + 9]) /\ IsDigit(s[c + 10]) /\ s[c + 11] = SP /\ IsTime(s, c + 12) /\ s[c + 20] = SP /\ SubSeq(s, c + 21, c + 23) = GMT
  THEN Fields("rfc850", wd, Num2(s, c + 2), m, Num2(s, c + 9), s, c + 12) ELSE NoDate
Recognise(s) == IF ImfDate(s) # NoDate THEN ImfDate(s) ELSE IF AscDate(s) # NoDate THEN AscDate(s) ELSE Rfc850Date(s)

\* ---- denotation ----
ClockValid(f) == f.h <= 23 /\ f.mi <= 59 /\ f.s <= 59          \* a leap second (60) denotes no POSIX time: outside the domain
DateValid(y, m, d) == d >= 1 /\ d <= DaysInMonth(y, m)
Sod(f) == f.h * 3600 + f.mi * 60 + f.s
\* the years a two-digit year may stand for
Pivot70(yy) == IF yy < 70 THEN 2000 + yy ELSE 1900 + yy
Sliding(yy, now) == IF 2000 + yy > now + 50 THEN {1900 + yy} ELSE IF 2000 + yy = now + 50 THEN {1900 + yy, 2000 + yy} ELSE {2000 + yy}
YearChoices(f, now) == IF f.form = "rfc850" THEN {Pivot70(f.y)} \cup Sliding(f.y, now) ELSE {f.y}
\* the times string s may denote: s is well-formed and calendar-valid, and its day name agrees with the date under at least
\* one reading of the year; then every calendar-valid reading of the year is acceptable (the day name does not select the
\* century: neither the fixed pivot nor the sliding rule looks at it)
Denotations(s, now) ==
  LET f == Recognise(s) IN
  IF f = NoDate \/ ~ClockValid(f) THEN {}
  ELSE LET ys == {yc \in YearChoices(f, now) : DateValid(yc, f.m, f.d)} IN
       IF \E y \in ys : Weekday(DaysFromCivil(y, f.m, f.d)) = f.wd
       THEN {[days |-> DaysFromCivil(y, f.m, f.d), sod |-> Sod(f)] : y \in ys}
       ELSE {}
\* I-layer: what today's parser returns for a string of the domain (fixed pivot, day name ignored)
ImplDenotation(s) ==
  LET f == Recognise(s)
      y == IF f.form = "rfc850" THEN Pivot70(f.y) ELSE f.y
  IN [days |-> DaysFromCivil(y, f.m, f.d), sod |-> Sod(f)]
====
