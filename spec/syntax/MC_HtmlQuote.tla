---- MODULE MC_HtmlQuote ----
(* Standalone model check of HtmlQuote.tla: laws of the specification itself on a bounded domain.
   kind = "rt":  for every string s over SrcAlpha up to SrcLen: WellQuoted(Quote(s)) and Unquote(Quote(s)) = s,
                 with both decoder definitions;
   kind = "dec": for every string q over DecAlpha up to DecLen (arbitrary, mostly ill-formed, quoted text): the recursive
                 and the positional decoder agree (value and well-formedness). *)
EXTENDS HtmlQuote, TLC
SrcAlpha == {60, 62, 34, 38, 39, 97, 35, 59, 49, 120, 9, 10, 1, 127, 128, 255}
SrcLen == 3
DecAlpha == {38, 35, 59, 49, 120, 108, 116, 60, 97}
DecLen == 5
Strings(A, n) == UNION {[1..k -> A] : k \in 0..n}
VARIABLES kind, s
Init == \/ kind = "rt" /\ s \in Strings(SrcAlpha, SrcLen)
        \/ kind = "dec" /\ s \in Strings(DecAlpha, DecLen)
Next == UNCHANGED <<kind, s>>
RoundTrip == kind = "rt" => LET q == Quote(s) IN
                /\ WellQuoted(q) /\ WellQuotedRec(q, 1)
                /\ Unquote(q) = s /\ UnquoteRec(q, 1) = s
                /\ Len(q) <= 6 * Len(s)
DecodersAgree == kind = "dec" => /\ Unquote(s) = UnquoteRec(s, 1)
                                 /\ WellQuoted(s) = WellQuotedRec(s, 1)
\* sanity of the reference itself: all 256 byte values, singly
AllBytes == \A b \in 1..255 : LET q == Quote(<<b>>) IN Unquote(q) = <<b>> /\ WellQuoted(q) /\ (b \in Meta => q # <<b>>)
ASSUME AllBytes
ASSUME Unquote(<<38, 35, 120, 52, 49, 59, 38, 35, 48, 54, 54, 59>>) = <<65, 66>>   \* "&#x41;&#066;" = "AB"
ASSUME ~WellQuoted(<<38, 108, 116>>) /\ ~WellQuoted(<<97, 60>>) /\ ~WellQuoted(<<38, 35, 51, 48, 48, 59>>)  \* "&lt"  "a<"  "&#300;"
====
