---- MODULE MC_DnsMsg ----
(* Law of the DnsMsg reference, model-checked standalone: for every message of a bounded domain (one or two questions,
   up to two answers of types A / AAAA / CNAME / PTR, names of up to three labels sharing suffixes) and EVERY compression
   plan over {-1, 0, 1, 2} per name of the message, Decode(Encode(m, plan)) is that message, with every PTR name filling its RDATA exactly.
   Every encoding is printed (<<"ENC", octets>>); checks/C37.py feeds these to the real decoder. *)
EXTENDS DnsMsg, FiniteSets, Json
CONSTANT Thorough        \* FALSE: fewer two-answer messages (quick tier)
La == <<97>>
Lb == <<98, 99>>
Lc == <<119, 119, 119>>
Names == <<<<>>, <<La>>, <<Lb, La>>, <<Lc, Lb, La>>, <<Lc, La>>>>
RRA(n) == [name |-> n, type |-> 1, class |-> 1, ttl |-> <<0, 0, 14, 16>>, rdlen |-> 4, rdata |-> <<10, 1, 2, 3>>, ptr |-> <<>>]
RRAAAA(n) == [name |-> n, type |-> 28, class |-> 1, ttl |-> <<255, 255, 255, 255>>, rdlen |-> 16, rdata |-> [j \in 1..16 |-> 240 + j - 1], ptr |-> <<>>]
RRCNAME(n) == [name |-> n, type |-> 5, class |-> 1, ttl |-> <<0, 0, 0, 0>>, rdlen |-> 3, rdata |-> <<1, 120, 0>>, ptr |-> <<>>]
RRPTR(n, p) == [name |-> n, type |-> 12, class |-> 1, ttl |-> <<0, 1, 81, 128>>, rdlen |-> 0, rdata |-> <<>>, ptr |-> p]
RRs(c) == {RRA(Names[c]), RRAAAA(Names[3]), RRCNAME(Names[c])} \cup {RRPTR(Names[4], Names[j]) : j \in {1, 3, 5}}
Q(n, t) == [name |-> n, type |-> t, class |-> 1]
Msg(qd, an, rc) == [id |-> 4660, qr |-> 1, opcode |-> 0, aa |-> 0, tc |-> 0, rd |-> 1, ra |-> 1, rcode |-> rc, qd |-> qd, an |-> an, ns |-> <<>>, ar |-> <<>>]
\* family c: the owner name of the first records and the question name vary with c
Msgs(c) == {Msg(<<Q(Names[c], 1)>>, an, 0) : an \in {<<>>} \cup {<<r>> : r \in RRs(c)} \cup {<<r, s>> : r \in (IF Thorough THEN RRs(c) ELSE {RRA(Names[c]), RRPTR(Names[4], Names[3])}), s \in {RRA(Names[3]), RRPTR(Names[4], Names[3])}}}
           \cup {Msg(<<Q(Names[c], 12), Q(Names[3], 28)>>, <<RRA(Names[4])>>, 3)}
NamesIn(m) == Len(m.qd) + Len(m.an) + Cardinality({j \in 1..Len(m.an) : m.an[j].type = TypePTR})
PlanVals == {0 - 1, 0, 1, 2}
RECURSIVE Plans(_)
Plans(n) == IF n = 0 THEN {<<>>} ELSE {<<v>> \o p : v \in PlanVals, p \in Plans(n - 1)}
VARIABLES c, st
Init == c \in 1..Len(Names) /\ st = [kind |-> "init"]
Next == st.kind = "init" /\ c' = c /\ \E m \in Msgs(c) : st' \in {[kind |-> "case", m |-> m, plan |-> p] : p \in Plans(NamesIn(m))}
RoundTrip == st.kind = "case" =>
  LET x == Encode(st.m, st.plan)
      d == Decode(x) IN
  d.ok /\ d.exact /\ d.end = Len(x) /\ CanonMsg(d.m) = CanonMsg(st.m)
Emit == st.kind = "case" => PrintT(ToJson([enc |-> Encode(st.m, st.plan)]))
====
