CONSTANTS MaxTok = 5
INIT Init
NEXT Next
INVARIANTS PrefixLaw GrammarLaw
CHECK_DEADLOCK FALSE
