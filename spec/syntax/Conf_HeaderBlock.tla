---- MODULE Conf_HeaderBlock ----
(* C25 conformance.  Case = what harness/u_header.cc printed for one (owner, relaxed, block): ok, entries (name n, value v,
   cl/te = the code classified the entry as Content-Length / Transfer-Encoding), packed = packInto() output, ok2/entries2 =
   HttpHeader::parse of packed, the framing accessors, ub. *)
EXTENDS HeaderBlock, ConfLib, TLC
Case == Cases[i]

Ents(es) == [k \in 1..Len(es) |-> <<es[k].n, es[k].v>>]
NotClEnts(es) == SelectSeq(es, LAMBDA x : ~x.cl)

\* a refused clause is named on stdout so that the check can describe the witness
Tag(ok, what) == ok \/ (PrintT(<<"PFAIL", i, what>>) /\ FALSE)

\* P-layer: the statement of C25
POk(k) ==
  LET pb == ParseBlock(k.block, k.owner, k.relaxed)
      want == NotCL(pb.fields)
      got == NotClEnts(k.entries) IN
  /\ Tag(~k.ub, "ub")
  /\ Tag(MustReject(pb, k.owner) => ~k.ok, "must-reject")
  \* accepted: the stored fields are the block's fields in order (Content-Length entries are judged by C26)
  /\ Tag((k.ok /\ ~pb.irregular) =>
        /\ Len(got) = Len(want)
        /\ \A j \in 1..Len(want) : SameName(got[j].n, want[j].name) /\ SameValue(got[j].v, want[j].value)
                                   /\ (got[j].v = <<>> \/ (got[j].v[1] \notin {32, 9} /\ got[j].v[Len(got[j].v)] \notin {32, 9})),
         "fields")
  \* accepted: packing and re-parsing yields the same fields, in the code and in the reference reading
  /\ Tag(k.ok =>
        /\ k.ok2 /\ k.entries2 = k.entries
        /\ LET pb2 == ParseBlock(k.packed, k.owner, k.relaxed) IN
           /\ ~MustReject(pb2, k.owner) /\ ~pb2.irregular
           /\ Pairs(pb2.fields) = Ents(k.entries),
         "repack")

\* I-layer: HttpHeader::parse as it is today
RECURSIVE BE(_)
BE(w) == IF w = <<>> THEN <<>> ELSE BE(Tail(w)) \o <<Head(w) + 48>>
Canon(n) == IF n = <<>> THEN <<48>> ELSE BE(n)
ImplRejects(pb, k) ==
  LET cls == ValuesOf(pb.fields, IsCL) IN
  \/ pb.nul \/ pb.irregular \/ pb.framingFoldOrCr
  \/ k.owner = "req" /\ (pb.crOnlyLine \/ pb.wsBeforeColon)
  \/ k.relaxed = 0 /\ pb.bareCr
  \/ k.relaxed = 0 /\ cls # <<>> /\ (Len(cls) > 1 \/ HasComma(cls[1]) \/ ~ValidToken(cls[1]))
Expected(pb, k) ==
  LET fs == pb.fields
      cls == ValuesOf(fs, IsCL)
      d == FramingDecision(fs, k.relaxed)
      toks == AllTokens(cls, ItemWs(k.relaxed)) IN
  IF d.kind # "Length" THEN Pairs(NotCL(fs))
  ELSE IF Repeated(cls, toks) THEN Pairs(NotCL(fs)) \o <<<<NameCL, Canon(d.n)>>>>
  ELSE Pairs(fs)
IOk(k) ==
  LET pb == ParseBlock(k.block, k.owner, k.relaxed) IN
  IF ImplRejects(pb, k) THEN ~k.ok /\ k.entries = <<>>
  ELSE LET want == Expected(pb, k) IN
       /\ k.ok /\ Len(k.entries) = Len(want)
       /\ k.packed = Pack(Ents(k.entries))
       /\ \A j \in 1..Len(want) : SameName(k.entries[j].n, want[j][1]) /\ k.entries[j].v = want[j][2]
       /\ \A j \in 1..Len(want) : k.entries[j].cl = SameName(want[j][1], NameCL) /\ k.entries[j].te = SameName(want[j][1], NameTE)

CaseOk == i > 0 => POk(Case)
ImplOk == i > 0 => IOk(Case)
====
