---- MODULE MC_UriModel ----
(* Standalone model check of the C30 reference: targets printed from components are analysed back into the class the
   port text has by definition; the implementation-shaped layer agrees with the reference on its simple subset. *)
EXTENDS UriModelImpl
S(str) == str
Schemes == {<<104, 116, 116, 112>>, <<72, 84, 84, 80, 83>>, <<102, 116, 112>>, <<103, 111>>}          \* http HTTPS ftp go
Users == {<<>>, <<117, 64>>, <<117, 58, 112, 64>>}                                                \* "" "u@" "u:p@"
Hosts == {<<104>>, <<119, 46, 88, 46, 111, 114, 103>>, <<91, 58, 58, 49, 93>>, <<49, 46, 50, 46, 51, 46, 52>>}  \* h w.X.org [::1] 1.2.3.4
\* port texts with their class by definition: <<text, class, value>>
Ports == {<<<<>>, "free", 0>>, <<<<56, 48>>, "valid", 80>>, <<<<48, 56, 48>>, "valid", 80>>, <<<<48>>, "bad", 0>>,
          <<<<54, 53, 53, 51, 53>>, "valid", 65535>>, <<<<54, 53, 53, 51, 54>>, "bad", 0>>, <<<<43, 56, 48>>, "bad", 0>>,
          <<<<56, 48, 97>>, "bad", 0>>, <<<<45, 49>>, "bad", 0>>, <<<<52, 50, 57, 52, 57, 54, 55, 51, 55, 54>>, "bad", 0>>,
          <<<<57, 57, 57, 57, 57, 57, 57, 57, 57, 57, 57, 57, 57, 57, 57, 57, 57, 57, 57, 57, 57, 57>>, "bad", 0>>}
Tails == {<<>>, <<47>>, <<47, 112, 63, 113, 58, 57>>, <<63, 113, 64, 58, 55>>, <<35, 102>>}            \* "" / /p?q:9 ?q@:7 #f
VARIABLES sc, us, ho, po, ta
vars == <<sc, us, ho, po, ta>>
Init == sc \in Schemes /\ us \in Users /\ ho \in Hosts /\ po \in Ports \cup {<<<<>>, "none", 0>>} /\ ta \in Tails
Next == UNCHANGED vars
Target == sc \o <<58, 47, 47>> \o us \o ho \o (IF po[2] = "none" THEN <<>> ELSE <<58>> \o po[1]) \o ta
Laws ==
  LET a == Analyse(FALSE, Target)
      c == HostPort(ho \o (IF po[2] = "none" THEN <<>> ELSE <<58>> \o po[1]))
      m == ISimple(Target, FALSE) IN
  /\ a.cls = po[2] /\ a.v = po[3] /\ a.scheme = LowerSeq(sc)
  /\ c.cls = po[2] /\ c.v = po[3]                                   \* authority form (CONNECT)
  /\ m.simple =>
        /\ a.cls = "bad" => ~m.ok
        /\ (m.ok /\ a.cls = "valid") => m.port = a.v
        /\ (m.ok /\ a.cls = "none") => m.port = DefaultPort(a.scheme)
        /\ m.ok => HostOk(m.host)
====
