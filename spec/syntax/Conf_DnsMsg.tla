---- MODULE Conf_DnsMsg ----
(* C37 conformance.  Cases: fn = "u" (rfc1035MessageUnpack on a datagram b) and the query builders (fn = "qa", "qptr",
   "q6a", "q6aaaa", "q6ptr4", "q6ptr6": the built datagram b, the rfc1035_query the builder filled in, and what
   rfc1035MessageUnpack made of b).  Names arrive as the C strings of the decoder (dotted text).
   P-layer (the statement):
     no abort (sanitizer report, assertion, watchdog) on any datagram
     Faithful   Decode(b) succeeds on a message in the decoder's domain (one question - the decoder only accepts replies to
                its own queries -, every PTR name filling its RDATA, labels without '.' and NUL, which dotted text cannot
                carry): header, question and - for rcode 0 - every answer record (owner, type, class, ttl, RDATA, PTR name) equal
                the reference's; for rcode # 0 the error is that rcode
     Safe       any other datagram: an error, or names/RDATA that are made of octets of the datagram
     Query      the built query is, by the reference decoder, the message <id, RD, one question (host labels, type, IN)>
                (+ one additional record iff EDNS is on), and the real decoder returns that question from it
   I-layer (drift only): ImplRef, today's exact behaviour on every datagram (answers decoded up to the first bad one,
   error numbers, 256-octet name buffer), EDNS OPT record contents, no UBSan report. *)
EXTENDS DnsMsg, ConfLib
Case == Cases[i]
IndexOf(s, d, k) == LET hits == {j \in k..Len(s) : s[j] = d} IN IF hits = {} THEN 0 ELSE CHOOSE j \in hits : \A h \in hits : j <= h
RECURSIVE SplitDots(_)
SplitDots(s) == LET p == IndexOf(s, 46, 1) IN IF p = 0 THEN <<s>> ELSE <<SubSeq(s, 1, p - 1)>> \o SplitDots(SubSeq(s, p + 1, Len(s)))
\* dotted text -> labels; "" is the root; one trailing dot (absolute notation) is not a label
TextLabels(s) == IF s = <<>> THEN <<>>
                 ELSE LET p == SplitDots(s) IN IF p[Len(p)] = <<>> THEN SubSeq(p, 1, Len(p) - 1) ELSE p
\* host name text -> labels the way the packer reads it (runs of dots separate labels)
HostLabels(s) == SelectSeq(SplitDots(s), LAMBDA l : l # <<>>)
LabelOk(l) == \A j \in 1..Len(l) : l[j] # 46 /\ l[j] # 0
NameOk(n) == \A j \in 1..Len(n) : LabelOk(n[j])
InDomain(d) == /\ d.ok /\ d.exact /\ Len(d.m.qd) = 1 /\ NameOk(d.m.qd[1].name)
               /\ \A j \in 1..Len(d.m.an) : NameOk(d.m.an[j].name) /\ NameOk(d.m.an[j].ptr)
HeaderEq(x, m) == /\ x.id = m.id /\ x.qr = m.qr /\ x.opcode = m.opcode /\ x.aa = m.aa /\ x.tc = m.tc /\ x.rd = m.rd /\ x.ra = m.ra /\ x.rcode = m.rcode
                  /\ x.qdcount = Len(m.qd) /\ x.ancount = Len(m.an) /\ x.nscount = Len(m.ns) /\ x.arcount = Len(m.ar)
QEq(xq, q) == TextLabels(xq.name) = q.name /\ xq.type = q.type /\ xq.class = q.class
RREq(xr, r) == /\ TextLabels(xr.name) = r.name /\ xr.type = r.type /\ xr.class = r.class /\ xr.ttl = r.ttl
               /\ IF r.type = TypePTR THEN TextLabels(xr.rdata) = r.ptr ELSE xr.rdlen = r.rdlen /\ xr.rdata = r.rdata
Faithful(k, m) == /\ k.has /\ HeaderEq(k.msg, m) /\ QEq(k.msg.q, m.qd[1])
                  /\ IF m.rcode # 0 THEN k.err = m.rcode
                     ELSE k.err = 0 /\ k.ret = Len(m.an) /\ Len(k.msg.rr) = Len(m.an) /\ \A j \in 1..Len(m.an) : RREq(k.msg.rr[j], m.an[j])
\* n occurs in s at some position >= k
SubAt(s, n, k) == \E j \in k..(Len(s) - Len(n) + 1) : SubSeq(s, j, j + Len(n) - 1) = n
Inside(b, x) == x = <<>> \/ SubAt(b, x, 1)
TextInside(b, t) == LET p == SplitDots(t) IN \A j \in 1..Len(p) : Inside(b, p[j])
Safe(k) == ~k.has \/ (/\ TextInside(k.b, k.msg.q.name)
                      /\ \A j \in 1..Len(k.msg.rr) : /\ TextInside(k.b, k.msg.rr[j].name)
                                                     /\ IF k.msg.rr[j].type = TypePTR THEN TextInside(k.b, k.msg.rr[j].rdata) ELSE Inside(k.b, k.msg.rr[j].rdata))
UnpackOk(k) == LET d == Decode(k.b) IN IF InDomain(d) THEN Faithful(k, d.m) ELSE Safe(k)
\* ---- queries
Dec(n) == IF n < 10 THEN <<48 + n>> ELSE IF n < 100 THEN <<48 + (n \div 10), 48 + (n % 10)>> ELSE <<48 + (n \div 100), 48 + ((n \div 10) % 10), 48 + (n % 10)>>
Hexd(v) == IF v < 10 THEN 48 + v ELSE 87 + v
Str_inaddr == <<105, 110, 45, 97, 100, 100, 114>>
Str_arpa == <<97, 114, 112, 97>>
Str_ip6 == <<105, 112, 54>>
RECURSIVE Nibbles(_, _)
Nibbles(a, j) == IF j = 0 THEN <<>> ELSE <<<<Hexd(a[j] % 16)>>, <<Hexd(a[j] \div 16)>>>> \o Nibbles(a, j - 1)
WantQ(k) == CASE k.fn \in {"qa", "q6a"} -> [name |-> HostLabels(k.arg), type |-> 1, class |-> 1]
              [] k.fn = "q6aaaa" -> [name |-> HostLabels(k.arg), type |-> 28, class |-> 1]
              [] k.fn \in {"qptr", "q6ptr4"} -> [name |-> <<Dec(k.arg[4]), Dec(k.arg[3]), Dec(k.arg[2]), Dec(k.arg[1]), Str_inaddr, Str_arpa>>, type |-> 12, class |-> 1]
              [] k.fn = "q6ptr6" -> [name |-> Nibbles(k.arg, 16) \o <<Str_ip6, Str_arpa>>, type |-> 12, class |-> 1]
QueryOk(k) ==
  LET d == Decode(k.b)
      w == WantQ(k) IN
  /\ k.sz = Len(k.b) /\ d.ok /\ d.end = Len(k.b)
  /\ d.m.id = k.qid /\ d.m.qr = 0 /\ d.m.opcode = 0 /\ d.m.aa = 0 /\ d.m.tc = 0 /\ d.m.rd = 1 /\ d.m.ra = 0 /\ d.m.rcode = 0
  /\ d.m.qd = <<w>> /\ d.m.an = <<>> /\ d.m.ns = <<>> /\ Len(d.m.ar) = (IF k.edns > 0 THEN 1 ELSE 0)
  /\ k.has /\ k.err = 0 /\ k.ret = 0 /\ k.msg.id = k.qid /\ k.msg.qdcount = 1 /\ QEq(k.msg.q, w)
  /\ QEq(k.query, w)
\* memory safety seen from outside: names are delivered in 256-octet buffers (RFC1035_MAXHOSTNAMESZ); the driver reads a name
\* up to its terminator or the end of its buffer, so a reported text of 256 octets is a buffer without terminator, i.e. the
\* decoder wrote at least one octet more than the buffer holds
BufCap == 256
Terminated(k) == k.has => /\ Len(k.msg.q.name) < BufCap
                          /\ \A j \in 1..Len(k.msg.rr) : /\ Len(k.msg.rr[j].name) < BufCap
                                                         /\ (k.msg.rr[j].type = TypePTR => Len(k.msg.rr[j].rdata) < BufCap)
POk(k) == ~k.abort /\ (IF k.fn = "u" THEN UnpackOk(k) /\ Terminated(k) ELSE QueryOk(k))
\* ---- today's exact behaviour
RECURSIVE RRPrefix(_, _, _)
RRPrefix(b, off, n) == IF n = 0 \/ off >= Len(b) THEN <<>>
                       ELSE LET x == RRAt(b, off, TRUE) IN IF ~x.ok THEN <<>> ELSE <<x.rr>> \o RRPrefix(b, x.next, n - 1)
E15 == [has |-> FALSE, err |-> 15, ret |-> 0]
ImplRef(b) ==
  IF Len(b) < 12 THEN E15
  ELSE LET h == Header(b) IN
       IF h.qdcount # 1 THEN E15
       ELSE LET q == QuestionAt(b, 12, TRUE) IN
            IF ~q.ok THEN E15
            ELSE IF h.rcode # 0 THEN [has |-> TRUE, err |-> h.rcode, ret |-> 0, h |-> h, q |-> q.q, rr |-> <<>>]
            ELSE IF h.ancount = 0 THEN [has |-> TRUE, err |-> 0, ret |-> 0, h |-> h, q |-> q.q, rr |-> <<>>]
            ELSE LET p == RRPrefix(b, q.next, h.ancount) IN
                 IF p = <<>> THEN E15 ELSE [has |-> TRUE, err |-> 0, ret |-> Len(p), h |-> h, q |-> q.q, rr |-> p]
ImplUnpackOk(k) ==
  LET r == ImplRef(k.b) IN
  /\ k.has = r.has /\ k.err = r.err /\ k.ret = r.ret
  /\ r.has => /\ k.msg.id = r.h.id /\ k.msg.rcode = r.h.rcode /\ k.msg.qdcount = r.h.qdcount /\ k.msg.ancount = r.h.ancount
              /\ (NameOk(r.q.name) => QEq(k.msg.q, r.q))
              /\ Len(k.msg.rr) = Len(r.rr)
              /\ \A j \in 1..Len(r.rr) : (NameOk(r.rr[j].name) /\ NameOk(r.rr[j].ptr)) => RREq(k.msg.rr[j], r.rr[j])
OptRR(k) == [name |-> <<>>, type |-> 41, class |-> (IF k.edns < 16383 THEN k.edns ELSE 16383), ttl |-> <<0, 0, 0, 0>>, rdlen |-> 0, rdata |-> <<>>, ptr |-> <<>>]
IOk(k) == IF k.fn = "u" THEN ~k.ub /\ ImplUnpackOk(k)
          ELSE LET d == Decode(k.b) IN d.ok => (k.edns > 0 => d.m.ar = <<OptRR(k)>>)
CaseOk == i > 0 => POk(Case)
ImplOk == i > 0 => IOk(Case)
====
