---- MODULE MC_HttpDate ----
(* Standalone model check of HttpDate.tla: laws of the specification itself.
   For every day number z of the sample (every day 1968-01-01 .. 2105-12-31, and every 97th day of 0000 .. 9999):
     Inverse:   DaysFromCivil(CivilFromDays(z)) = z and CivilFromDays(z) is a calendar date;
     Successor: CivilFromDays(z + 1) is the calendar successor of CivilFromDays(z) (month lengths and the leap rule,
                stated independently of the era arithmetic);
     Format:    (z >= 0, every third day) the only time Format1123(z, sod) denotes is (z, sod), at two seconds of the day. *)
EXTENDS HttpDate, TLC
VARIABLES z, part
Lo == -719528      \* 0000-01-01
Hi == 2932896      \* 9999-12-31
Sample == {d \in -731..49673 : TRUE} \cup {Lo + 97 * k : k \in 0..((Hi - Lo) \div 97)}
Init == z = Hi /\ part \in 0..15
Next == part' = part /\ z = Hi /\ z' \in {d \in Sample : d % 16 = part}
Inverse == LET c == CivilFromDays(z) IN
             /\ c.y \in 0..9999 /\ c.m \in 1..12 /\ c.d >= 1 /\ c.d <= DaysInMonth(c.y, c.m)
             /\ DaysFromCivil(c.y, c.m, c.d) = z
Successor == z < Hi => LET c == CivilFromDays(z)
                           n == CivilFromDays(z + 1) IN
                       IF c.d < DaysInMonth(c.y, c.m) THEN n = [y |-> c.y, m |-> c.m, d |-> c.d + 1]
                       ELSE IF c.m < 12 THEN n = [y |-> c.y, m |-> c.m + 1, d |-> 1]
                       ELSE n = [y |-> c.y + 1, m |-> 1, d |-> 1]
Sods(d) == {((d % 8640) * 7919) % 86400, 86399 - (((d % 8640) * 9973) % 86400)}
Format == (z >= 0 /\ z % 3 = 0) => \A sod \in Sods(z) : Denotations(Format1123(z, sod), 2026) = {[days |-> z, sod |-> sod]}
WeekdayStep == Weekday(z + 1) = (Weekday(z) + 1) % 7
ASSUME DaysFromCivil(1970, 1, 1) = 0 /\ DaysFromCivil(0, 1, 1) = Lo /\ DaysFromCivil(9999, 12, 31) = Hi /\ DaysFromCivil(2000, 3, 1) = 11017
ASSUME Weekday(0) = 4 /\ Weekday(-1) = 3
\* the three examples of RFC 9110 denote 784111777 = 9075 days + 31777 s
ASSUME Format1123(9075, 31777) = <<83, 117, 110, 44, 32, 48, 54, 32, 78, 111, 118, 32, 49, 57, 57, 52, 32, 48, 56, 58, 52, 57, 58, 51, 55, 32, 71, 77, 84>>
ASSUME Denotations(<<83, 117, 110, 44, 32, 48, 54, 32, 78, 111, 118, 32, 49, 57, 57, 52, 32, 48, 56, 58, 52, 57, 58, 51, 55, 32, 71, 77, 84>>, 2026) = {[days |-> 9075, sod |-> 31777]}
ASSUME Denotations(<<83, 117, 110, 100, 97, 121, 44, 32, 48, 54, 45, 78, 111, 118, 45, 57, 52, 32, 48, 56, 58, 52, 57, 58, 51, 55, 32, 71, 77, 84>>, 2026) = {[days |-> 9075, sod |-> 31777]}
ASSUME Denotations(<<83, 117, 110, 32, 78, 111, 118, 32, 32, 54, 32, 48, 56, 58, 52, 57, 58, 51, 55, 32, 49, 57, 57, 52>>, 2026) = {[days |-> 9075, sod |-> 31777]}
\* two-digit years: fixed pivot or sliding window
ASSUME YearChoices([form |-> "rfc850", y |-> 70], 2026) = {1970, 2070} /\ YearChoices([form |-> "rfc850", y |-> 69], 2026) = {2069}
ASSUME YearChoices([form |-> "rfc850", y |-> 77], 2026) = {1977} /\ YearChoices([form |-> "rfc850", y |-> 76], 2026) = {1976, 2076}
\* outside the domain: wrong day name, impossible date, leap second, malformed
ASSUME Denotations(<<77, 111, 110, 44, 32, 48, 54, 32, 78, 111, 118, 32, 49, 57, 57, 52, 32, 48, 56, 58, 52, 57, 58, 51, 55, 32, 71, 77, 84>>, 2026) = {} /\ Denotations(<<87, 101, 100, 44, 32, 51, 48, 32, 70, 101, 98, 32, 49, 57, 57, 52, 32, 48, 56, 58, 52, 57, 58, 51, 55, 32, 71, 77, 84>>, 2026) = {} /\ Denotations(<<83, 117, 110, 44, 32, 48, 54, 32, 78, 111, 118, 32, 49, 57, 57, 52, 32, 48, 56, 58, 52, 57, 58, 54, 48, 32, 71, 77, 84>>, 2026) = {} /\ Denotations(<<83, 117, 110, 44, 32, 54, 32, 78, 111, 118, 32, 49, 57, 57, 52, 32, 48, 56, 58, 52, 57, 58, 51, 55, 32, 71, 77, 84>>, 2026) = {}
====
