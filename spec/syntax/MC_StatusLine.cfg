CONSTANTS MaxTok = 4
INIT Init
NEXT Next
INVARIANTS PrefixLaw GrammarLaw
CHECK_DEADLOCK FALSE
