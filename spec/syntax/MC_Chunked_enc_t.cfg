CONSTANTS Family = "enc" MaxBody = 3 Alpha = {97, 13} NExt1 = 9 NExt2 = 4 MaxStr = 0 Alpha2 = {}
INIT Init
NEXT Next
INVARIANT Laws
CHECK_DEADLOCK FALSE
