INIT Init
NEXT Next
INVARIANTS RoundTrip Decoders
CHECK_DEADLOCK FALSE
