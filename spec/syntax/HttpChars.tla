---- MODULE HttpChars ----
(* Byte classes of RFC 9110/9112/3986 and small sequence helpers shared by RequestLine, RequestHead and StatusLine.
   Byte strings are Seq(0..255).  All helpers are linear scans (SelectInSeq/SelectLastInSeq have Java overrides), no
   recursion over the input length, so that 64 KiB inputs can be evaluated. *)
EXTENDS Naturals, Sequences, SequencesExt, FiniteSets

SP == 32
HTAB == 9
VT == 11
FF == 12
CR == 13
LF == 10
DIGIT == 48..57
UPALPHA == 65..90
LOALPHA == 97..122
ALPHA == UPALPHA \cup LOALPHA
\* RFC 9110 5.6.2: "!" / "#" / "$" / "%" / "&" / "'" / "*" / "+" / "-" / "." / "^" / "_" / "`" / "|" / "~" / DIGIT / ALPHA
TCHAR == {33, 35, 36, 37, 38, 39, 42, 43, 45, 46, 94, 95, 96, 124, 126} \cup DIGIT \cup ALPHA
\* RFC 3986 section 2: unreserved, gen-delims ":/?#[]@", sub-delims "!$&'()*+,;=", and "%" of pct-encoded
UNRESERVED == ALPHA \cup DIGIT \cup {45, 46, 95, 126}
GENDELIMS == {58, 47, 63, 35, 91, 93, 64}
SUBDELIMS == {33, 36, 38, 39, 40, 41, 42, 43, 44, 59, 61}
URICHAR == UNRESERVED \cup GENDELIMS \cup SUBDELIMS \cup {37}
\* RFC 9112 section 2.2 / 3: whitespace a tolerant parser may accept between start-line fields: SP, HTAB, VT, FF, bare CR
RELAXEDDELIM == {SP, HTAB, VT, FF, CR}
\* squid.conf relaxed_header_parser: additionally tolerated inside a request-target: the delimiters above (dealt with later),
\* the RFC 2396 "unwise" characters  " \ | ^ < > ` { }  and octets >= 128 (UTF-8)
UNWISE == {34, 92, 124, 94, 60, 62, 96, 123, 125}
RELAXEDTARGET == URICHAR \cup RELAXEDDELIM \cup UNWISE \cup (128..255)
WSP == {SP, HTAB}
VCHAR == 33..126
OBSTEXT == 128..255
REASONCHAR == WSP \cup VCHAR \cup OBSTEXT

Take(s, n) == SubSeq(s, 1, n)
Drop(s, n) == SubSeq(s, n + 1, Len(s))
\* length of the longest prefix / suffix of s all of whose bytes are in C
Span(s, C) == LET k == SelectInSeq(s, LAMBDA b : b \notin C) IN IF k = 0 THEN Len(s) ELSE k - 1
SpanBack(s, C) == Len(s) - SelectLastInSeq(s, LAMBDA b : b \notin C)
\* index of the first occurrence of byte b (0 = none)
IndexOf(s, b) == SelectInSeq(s, LAMBDA x : x = b)
StartsWith(s, p) == Len(s) >= Len(p) /\ Take(s, Len(p)) = p
EndsWith(s, p) == Len(s) >= Len(p) /\ SubSeq(s, Len(s) - Len(p) + 1, Len(s)) = p
DropBack(s, n) == SubSeq(s, 1, Len(s) - n)
MinOf(S) == CHOOSE x \in S : \A y \in S : x <= y
Upper(b) == IF b \in LOALPHA THEN b - 32 ELSE b
UpperSeq(s) == [ix \in 1..Len(s) |-> Upper(s[ix])]

HTTPSLASH == <<72, 84, 84, 80, 47>>            \* "HTTP/"
HTTP1MAGIC == <<72, 84, 84, 80, 47, 49, 46>>   \* "HTTP/1."
ICYMAGIC == <<73, 67, 89, 32>>                 \* "ICY "
GETNAME == <<71, 69, 84>>                      \* "GET"
CRLF == <<13, 10>>
====
