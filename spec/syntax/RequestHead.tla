---- MODULE RequestHead ----
(* C21 (and the I-layer of C22): the request head as a function of the whole input.

   ReqHead(w, relaxed, limit) is the outcome of parsing the byte string w at once:
     [o |-> "more", consumed]                                      more data is needed (consumed = bytes already dropped)
     [o |-> "err",  status]                                        rejected with an HTTP status
     [o |-> "ok", status, method, uri, major, minor, mime, consumed]  accepted: request-line fields, the header block
                                                                   (after removal of whitespace-preceded lines in front
                                                                   of the first field and obs-fold replacement) and the
                                                                   number of input bytes that belong to the head
   It is code-shaped (I-layer): leading empty lines, the two-ended request-line scan, request_header_max_size rules
   and the header block location follow Http::One::RequestParser / Parser::grabMimeBlock / headersEnd as they are today.
   The property of C21 itself does not need this function: it compares the implementation's incremental outcomes with
   its own one-shot outcome (Conf_RequestHead).  What TLC checks on this module (MC_RequestHead):
     PrefixLaw    for every prefix p of w: ReqHead(p) is "more", or ReqHead(p) and ReqHead(w) are the same outcome
                  (which is what makes "need more data" a meaningful intermediate answer), for limits that are not hit;
     GrammarLaw   Full(l) => Tolerant(l), Simple(l) => Tolerant(l), and in strict mode ReqHead accepts as HTTP/x.y only
                  lines matching the grammar (spec-internal refinement I => P on the bounded domain). *)
EXTENDS RequestLine

More(n) == [o |-> "more", consumed |-> n]
Err(st) == [o |-> "err", status |-> st]

Delims(relaxed) == IF relaxed # 0 THEN RELAXEDDELIM ELSE {SP}
TargetChars(relaxed) == IF relaxed # 0 THEN RELAXEDTARGET ELSE URICHAR

\* ---- the request line (l = bytes in front of the first LF, non-empty) ----
\* result: Err(status) or [o |-> "line", method, uri, major, minor]
VersionAtEnd(r, isGet) ==
  \* [ok, major, minor, rest] : the version token at the end of r, or the HTTP/0.9 assumption for GET
  LET nd == SpanBack(r, DIGIT)
      r1 == DropBack(r, nd)
      hasDot == Len(r1) >= 1 /\ r1[Len(r1)] = 46
      r2 == IF hasDot THEN DropBack(r1, 1) ELSE r1
      md == SpanBack(r2, DIGIT)
      r3 == DropBack(r2, md) IN
  IF nd >= 1 /\ hasDot /\ md >= 1 /\ EndsWith(r3, HTTPSLASH)
  THEN IF nd > 1 \/ md > 1 THEN [ok |-> TRUE, major |-> 0, minor |-> 0, rest |-> DropBack(r3, 5)]
       ELSE [ok |-> TRUE, major |-> r2[Len(r2)] - 48, minor |-> r[Len(r)] - 48, rest |-> DropBack(r3, 5)]
  ELSE IF isGet THEN [ok |-> TRUE, major |-> 0, minor |-> 9, rest |-> r]
  ELSE [ok |-> FALSE]

ParseLine(l, relaxed) ==
  LET m == LET k == Span(l, TCHAR) IN IF k > MaxMethod THEN MaxMethod ELSE k
      d1 == Span(Drop(l, m), Delims(relaxed)) IN
  IF m = 0 \/ d1 = 0 \/ (d1 > 1 /\ relaxed = 0) THEN Err(400) ELSE
  LET meth == Take(l, m)
      isGet == IF relaxed # 0 THEN UpperSeq(meth) = GETNAME ELSE meth = GETNAME
      r0 == Drop(l, m + d1)
      crs == SpanBack(r0, {CR}) IN
  IF relaxed = 0 /\ crs = 0 THEN Err(400) ELSE
  LET r == DropBack(r0, IF relaxed # 0 THEN crs ELSE 1)
      v == VersionAtEnd(r, isGet) IN
  IF ~v.ok THEN Err(400) ELSE
  LET d2 == IF v.major # 0 THEN SpanBack(v.rest, Delims(relaxed)) ELSE 0 IN
  IF v.major # 0 /\ (d2 = 0 \/ (d2 > 1 /\ relaxed = 0)) THEN Err(400) ELSE
  LET t == DropBack(v.rest, d2)
      u == Span(t, TargetChars(relaxed)) IN
  IF u = 0 THEN Err(400)
  ELSE IF u > MaxUri THEN Err(414)
  ELSE IF u < Len(t) THEN Err(400)
  ELSE [o |-> "line", method |-> meth, uri |-> t, major |-> v.major, minor |-> v.minor]

\* who is blamed when no line end shows up within the limit: a bad method (or its delimiter), else the URI
BlameLong(b, relaxed) ==
  LET m == LET k == Span(b, TCHAR) IN IF k > MaxMethod THEN MaxMethod ELSE k
      d1 == Span(Drop(b, m), Delims(relaxed)) IN
  IF m = 0 \/ d1 = 0 \/ (d1 > 1 /\ relaxed = 0) THEN Err(400) ELSE Err(414)

\* ---- the header block ----
\* end of the block: the first LF, or CR LF, found at the start of a line (0 = not there yet)
LineStart(s, ix) == ix = 1 \/ s[ix - 1] = LF
HeadersEnd(s) ==
  LET n == Len(s)
      E == {ix \in 1..n : s[ix] = LF /\ LineStart(s, ix)} \cup
           {ix + 1 : ix \in {jx \in 1..(n - 1) : s[jx] = CR /\ LineStart(s, jx) /\ s[jx + 1] = LF}} IN
  IF E = {} THEN 0 ELSE MinOf(E)
HasObsFold(s, he) == \E ix \in 1..he : s[ix] \in WSP /\ LineStart(s, ix)

\* RFC 9112 section 2.2: lines in front of the first field that start with whitespace are consumed without processing.
\* (Written without recursion over the lines: header blocks may have hundreds of lines.)  The block starts at the first
\* line whose first byte is not whitespace; if there is none (only whitespace-preceded lines and the final CR LF), CR LF is left.
CleanPrefix(blk) ==
  LET Good == {q \in 1..Len(blk) : LineStart(blk, q) /\ blk[q] \notin RELAXEDDELIM} IN
  IF Good = {} THEN CRLF ELSE Drop(blk, MinOf(Good) - 1)
\* RFC 9112 section 5.2: each obs-fold ( *CR LF 1*( SP / HTAB ) ) is replaced by one SP.
\* Position-wise: an LF followed by SP/HTAB is a fold; the CR run in front of it and the SP/HTAB run behind it are dropped.
Unfold(s) ==
  LET n == Len(s)
      FoldLF(q) == q >= 1 /\ q < n /\ s[q] = LF /\ s[q + 1] \in WSP
      NextNonCR(q) == q + Span(SubSeq(s, q, n), {CR})                          \* first position >= q that is not CR (n+1 = none)
      PrevNonWSP(q) == SelectLastInSeq(SubSeq(s, 1, q), LAMBDA b : b \notin WSP)  \* last position <= q that is not SP/HTAB (0 = none)
      Dropped(q) == \/ s[q] = CR /\ FoldLF(NextNonCR(q))
                    \/ s[q] \in WSP /\ FoldLF(PrevNonWSP(q))
      Kept == SelectSeq([q \in 1..n |-> q], LAMBDA q : ~Dropped(q)) IN
  [k \in 1..Len(Kept) |-> IF FoldLF(Kept[k]) THEN SP ELSE s[Kept[k]]]
MimeBlock(raw, fold) == LET cl == CleanPrefix(raw) IN IF fold THEN Unfold(cl) ELSE cl

\* ---- the whole head ----
ReqHead(w, relaxed, limit) ==
  LET g == IF relaxed # 0 THEN EmptyLinesLen(w, 1) ELSE 0
      b == Drop(w, g) IN
  IF b = <<>> THEN More(g) ELSE
  LET p == IndexOf(b, LF) IN
  IF p = 0 \/ p = 1 THEN (IF Len(b) >= limit THEN BlameLong(b, relaxed) ELSE More(g)) ELSE
  LET ln == ParseLine(Take(b, p - 1), relaxed) IN
  IF ln.o = "err" THEN ln ELSE
  LET c1 == g + p
      rest == Drop(b, p)
      fls == Len(ln.method) + Len(ln.uri) + 12
      acc(mime, n) == [o |-> "ok", status |-> 200, method |-> ln.method, uri |-> ln.uri, major |-> ln.major, minor |-> ln.minor,
                       mime |-> mime, consumed |-> n] IN
  IF ln.major # 1 THEN acc(<<>>, c1) ELSE
  LET he == HeadersEnd(rest) IN
  IF he = 0 THEN (IF Len(rest) + fls >= limit THEN Err(431) ELSE More(c1))
  ELSE IF fls + he >= limit THEN Err(431)
  ELSE acc(MimeBlock(Take(rest, he), HasObsFold(rest, he)), c1 + he)

\* outcomes are compared as the statement lists them: kind; status of a rejection; fields, header block and length of an acceptance
Same(a, b) == /\ a.o = b.o
              /\ a.o = "err" => a.status = b.status
              /\ a.o = "more" => a.consumed = b.consumed
              /\ a.o = "ok" => /\ a.method = b.method /\ a.uri = b.uri /\ a.major = b.major /\ a.minor = b.minor
                               /\ a.mime = b.mime /\ a.consumed = b.consumed /\ a.status = b.status
====
