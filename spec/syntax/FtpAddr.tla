---- MODULE FtpAddr ----
(* C40: FTP data-channel address strings.
     PORT / 227-reply style   h1,h2,h3,h4,p1,p2          (RFC 959: six decimal numbers, each 0..255)
     EPRT style               <d>proto<d>address<d>port<d>   (RFC 2428: proto 1 = IPv4, 2 = IPv6, port 1..65535)
   The reference reads the numbers the way the C library reads them (optional blanks, optional sign, decimal digits:
   the statement is about the VALUES of the components, not about their spelling) but computes their mathematical
   value, so a component such as 4294967297 is out of range, never 1.
   IpPortRef / ProtoRef return [ok |-> FALSE] when the string must not yield an address, else what it denotes.
   Address literals are judged by ProxyProto!ParseAddr (strict dotted quad / RFC 4291 text); literal spellings that it
   calls "free" (inet_aton short forms, IPv4-mapped IPv6) and scoped literals (%zone) are not judged. *)
EXTENDS ProxyProto, Integers
IsSpace(b) == b \in {32, 9, 10, 11, 12, 13}
\* first position >= k whose byte does not satisfy P (Len(s) + 1 if none); set-based, inputs may be long
FirstNot(s, k, P(_)) == LET stops == {j \in k..(Len(s) + 1) : j = Len(s) + 1 \/ ~P(s[j])} IN CHOOSE j \in stops : \A h \in stops : j <= h
SkipSpace(s, k) == IF k > Len(s) THEN k ELSE FirstNot(s, k, IsSpace)
DigitRun(s, k) == IF k > Len(s) THEN 0 ELSE FirstNot(s, k, IsDigit) - k
\* integer token at position k: blanks, optional sign, 1*DIGIT
LexInt(s, k) == LET p == SkipSpace(s, k)
                    sl == IF p <= Len(s) /\ s[p] \in {43, 45} THEN 1 ELSE 0
                    n == DigitRun(s, p + sl)
                IN IF n = 0 THEN [ok |-> FALSE, neg |-> FALSE, digs |-> <<48>>, next |-> k]
                   ELSE [ok |-> TRUE, neg |-> (sl = 1 /\ s[p] = 45), digs |-> SubSeq(s, p + sl, p + sl + n - 1), next |-> p + sl + n]
\* digits without leading zeros (at least one digit is kept)
StripZeros(d) == LET nz == FirstNot(d, 1, LAMBDA b : b = 48) IN IF nz > Len(d) THEN <<48>> ELSE SubSeq(d, nz, Len(d))
Big == 1000000000      \* stands for every magnitude of ten or more digits
Mag(t) == LET d == StripZeros(t.digs) IN IF Len(d) > 9 THEN Big ELSE DecVal(d)
SVal(t) == IF t.neg THEN 0 - Mag(t) ELSE Mag(t)
InRange(t, lo, hi) == SVal(t) >= lo /\ SVal(t) <= hi
RECURSIVE LexList(_, _, _)
\* n comma-separated integer tokens starting at k
LexList(s, k, n) ==
  LET t == LexInt(s, k) IN
  IF ~t.ok THEN [ok |-> FALSE, t |-> <<>>]
  ELSE IF n = 1 THEN [ok |-> TRUE, t |-> <<t>>]
  ELSE IF t.next > Len(s) \/ s[t.next] # 44 THEN [ok |-> FALSE, t |-> <<>>]
  ELSE LET r == LexList(s, t.next + 1, n - 1) IN [ok |-> r.ok, t |-> <<t>> \o r.t]
No == [ok |-> FALSE]
\* ---- h1,h2,h3,h4,p1,p2 ; whatever follows p2 (the closing parenthesis of a 227 reply) is not part of the address
IpPortRef(s) ==
  LET L == LexList(s, 1, 6) IN
  IF ~L.ok \/ \E j \in 1..6 : ~InRange(L.t[j], 0, 255) THEN No
  ELSE LET port == SVal(L.t[5]) * 256 + SVal(L.t[6]) IN
       IF port < 1 THEN No
       ELSE [ok |-> TRUE, a |-> Mapped4(<<SVal(L.t[1]), SVal(L.t[2]), SVal(L.t[3]), SVal(L.t[4])>>), port |-> port]
\* ---- <d>proto<d>addr<d>port ; ak: "v4"/"v6" literal with bytes a, or "free" (spelling not judged)
AddrOf(t) == IF IndexFrom(t, 37, 1) # 0 THEN [k |-> "free"] ELSE ParseAddr(t)
ProtoRef(s) ==
  IF Len(s) < 2 THEN No
  ELSE LET d == s[1]
           t1 == LexInt(s, 2) IN
       IF ~t1.ok \/ t1.next > Len(s) \/ s[t1.next] # d \/ ~InRange(t1, 1, 2) THEN No
       ELSE LET e == IndexFrom(s, d, t1.next + 1) IN
            IF e = 0 THEN No
            ELSE LET a == AddrOf(SubSeq(s, t1.next + 1, e - 1))
                     tp == LexInt(s, e + 1) IN
                 IF a.k = "bad" \/ ~tp.ok \/ ~InRange(tp, 1, 65535) THEN No
                 ELSE IF a.k = "free" THEN [ok |-> TRUE, ak |-> "free", port |-> SVal(tp)]
                 ELSE IF a.k # (IF SVal(t1) = 1 THEN "v4" ELSE "v6") THEN No
                 ELSE [ok |-> TRUE, ak |-> a.k, a |-> a.b, port |-> SVal(tp)]
\* ---- reference encoders
IpPortStr(h, p) == DecStr(h[1]) \o <<44>> \o DecStr(h[2]) \o <<44>> \o DecStr(h[3]) \o <<44>> \o DecStr(h[4]) \o <<44>> \o DecStr(p[1]) \o <<44>> \o DecStr(p[2])
ProtoStr(d, proto, addr, port) == <<d>> \o DecStr(proto) \o <<d>> \o addr \o <<d>> \o DecStr(port) \o <<d>>
====
