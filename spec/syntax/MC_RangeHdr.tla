---- MODULE MC_RangeHdr ----
(* Standalone model check of the C28 reference functions on small naturals: the interval normal form used for the
   comparison on 64-bit values denotes exactly the explicit byte set of RFC 9110 14.1.2; canonical ranges are non-empty
   and inside; printing and re-parsing a spec list is the identity; the I-layer refines the P-layer wherever no named
   deviation applies (strict syntax, positions below 2^63-1). *)
EXTENDS RangeHdrImpl, TLC
CONSTANTS MaxPos, MaxLen, MaxSpecs
RECURSIVE W2N(_)
W2N(w) == IF w = <<>> THEN 0 ELSE w[1] + 10 * W2N(Tail(w))
P == 0..MaxPos
SpecDom == {[kind |-> "range", a |-> FromNat(x), b |-> FromNat(y)] : x \in P, y \in P} \cup
           {[kind |-> "open", a |-> FromNat(x), b |-> <<>>] : x \in P} \cup
           {[kind |-> "suffix", a |-> <<>>, b |-> FromNat(x)] : x \in P}
Valid(s) == s.kind # "range" \/ W2N(s.a) <= W2N(s.b)
VARIABLES specs, clen, done
Dom == {s \in SpecDom : Valid(s)}
\* few initial states, the lists are completed in one step so that TLC's workers share the evaluation of Laws
Init == /\ specs \in [1..1 -> Dom]
        /\ clen \in 0..MaxLen
        /\ done = FALSE
Next == /\ ~done
        /\ done' = TRUE
        /\ clen' = clen
        /\ specs' \in {specs} \cup UNION {{specs \o t : t \in [1..n -> Dom]} : n \in 1..(MaxSpecs - 1)}
\* RFC 9110 14.1.2, directly on byte numbers
Requested(s, b, n) == CASE s.kind = "range" -> W2N(s.a) <= b /\ b <= W2N(s.b)
                        [] s.kind = "open" -> W2N(s.a) <= b
                        [] s.kind = "suffix" -> b + W2N(s.b) >= n
Bytes(ss, n) == {b \in 0..(n - 1) : \E j \in 1..Len(ss) : Requested(ss[j], b, n)}
SetOf(L) == UNION {{b \in 0..MaxLen : W2N(L[j].lo) <= b /\ b < W2N(L[j].hi)} : j \in 1..Len(L)}
\* printing
Dec(w) == IF w = <<>> THEN <<48>> ELSE [j \in 1..Len(w) |-> w[Len(w) + 1 - j] + 48]
Print1(s) == CASE s.kind = "range" -> Dec(s.a) \o <<45>> \o Dec(s.b)
               [] s.kind = "open" -> Dec(s.a) \o <<45>>
               [] s.kind = "suffix" -> <<45>> \o Dec(s.b)
RECURSIVE PrintL(_)
PrintL(ss) == IF Len(ss) = 1 THEN Print1(ss[1]) ELSE Print1(ss[1]) \o <<44, 32>> \o PrintL(Tail(ss))
Unparse(ss) == <<66, 121, 116, 69, 115, 61>> \o PrintL(ss)       \* "BytEs="
IvOfI(L) == [j \in 1..Len(L) |-> [lo |-> L[j].o.mag, hi |-> Add(L[j].o.mag, L[j].l.mag)]]
Laws ==
  LET C == FromNat(clen)
      cn == Canon(specs, C)
      ns == NormSet(cn)
      im == IParse(Unparse(specs)) IN
  /\ SetOf(cn) = Bytes(specs, clen)
  /\ SetOf(ns) = Bytes(specs, clen)
  /\ NonEmptyInside(cn, C)
  /\ \A j \in 1..(Len(ns) - 1) : Lt(ns[j].hi, ns[j + 1].lo)          \* sorted, disjoint, not adjacent: unique per set
  /\ ParseRange(Unparse(specs)) = [ok |-> TRUE, specs |-> specs]
  /\ im.ok /\ IvOfI(ICanon(im.specs, C)) = cn                        \* refinement on strict small inputs
====
