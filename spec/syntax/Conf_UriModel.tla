---- MODULE Conf_UriModel ----
(* C30 conformance: one case = one (method, request target, check_hostnames) evaluated by AnyP::Uri::parse, then the
   canonical form (absolute(), or host:port for CONNECT) parsed again. *)
EXTENDS UriModelImpl, ConfLib
Case == Cases[i]
POk(k) ==
  LET a == Analyse(k.m = "CONNECT", k.u) IN
  /\ ~k.ub
  /\ a.cls = "bad" => ~k.ok                                            \* out-of-range or non-numeric ports are rejected
  /\ (k.ok /\ a.cls # "na") =>
       /\ HostOk(k.host)                                               \* lower-case host, no empty labels
       /\ k.port >= 1 /\ k.port <= 65535
       /\ a.cls = "valid" => k.port = a.v                              \* the decimal port written in the URI
       /\ (a.cls = "none" /\ DefaultPort(a.scheme) # 0) => k.port = DefaultPort(a.scheme)
       /\ k.ok2 /\ k.scheme2 = k.scheme /\ k.host2 = k.host /\ k.port2 = k.port /\ SamePath(k.path2, k.path)
IOk(k) ==
  IF k.m = "CONNECT" THEN TRUE ELSE
  LET m == ISimple(k.u, k.chk) IN
  m.simple => /\ k.ok = m.ok
              /\ k.ok => (k.host = m.host /\ k.port = m.port)
CaseOk == i > 0 => POk(Case)
ImplOk == i > 0 => IOk(Case)
====
