---- MODULE MC_PctCoding ----
(* Standalone model check of the C31 reference: for every byte string of length <= MaxLen over the representative
   alphabet and every ignore set without "%":  Decode(Encode(s, ig)) = s, EncodeOk(s, ig, Encode(s, ig)), the lower-case
   spelling of the triplets is accepted as well; for NUL-free s and the two legacy modes that escape "%":
   Unescape(Escape(s, m)) = s; Unescape never lengthens; Decode and Unescape agree on Encode's output. *)
EXTENDS PctCoding, TLC
CONSTANT MaxLen
\* class representatives: NUL, control, space, "%", digits 0 9, hex letters A F a f, non-hex G g, unreserved - ~, sub-delim + &,
\* reserved / ? @ :, unsafe " < {, DEL, 8-bit
Sigma == {0, 1, 9, 32, 37, 48, 57, 65, 70, 97, 102, 71, 103, 45, 126, 43, 38, 47, 63, 64, 58, 34, 60, 123, 127, 128, 233, 255}
VARIABLES s, done
\* one initial state per first byte so that TLC's workers share the work
Init == s \in {<<>>} \cup [1..1 -> Sigma] /\ done = FALSE
Next == /\ ~done /\ s # <<>>
        /\ done' = TRUE
        /\ s' \in {s \o t : t \in UNION {[1..n -> Sigma] : n \in 0..(MaxLen - 1)}}
LowerHex(e) == [i \in 1..Len(e) |-> IF i > 1 /\ e[i] >= 65 /\ e[i] <= 70 /\ (e[i - 1] = 37 \/ (i > 2 /\ e[i - 2] = 37)) THEN e[i] + 32 ELSE e[i]]
Laws ==
  /\ \A id \in {0, 1, 2, 4} :
       LET e == Encode(s, IgnoreSet(id)) IN
       /\ Decode(e) = [ok |-> TRUE, v |-> s]
       /\ EncodeOk(s, IgnoreSet(id), e)
       /\ Len(e) >= Len(s) /\ Len(e) <= 3 * Len(s)
       /\ (\A i \in 1..Len(s) : s[i] # 0) => Unescape(e) = s
  /\ AlphabetOk(Encode(s, IgnoreSet(3)), IgnoreSet(3)) \/ \E i \in 1..Len(s) : s[i] = 37
  /\ (\A i \in 1..Len(s) : s[i] # 0) =>
       /\ \A m \in {"escape", "part"} : Unescape(Escape(s, m)) = s /\ Decode(Escape(s, m)) = [ok |-> TRUE, v |-> s]
       /\ Len(Unescape(s)) <= Len(s)
       /\ Decode(s).ok => (Decode(s).v = Unescape(s) \/ \E i \in 1..(Len(s) - 1) : s[i] = 37 /\ s[i + 1] \in {37, 48})
====
