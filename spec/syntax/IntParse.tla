---- MODULE IntParse ----
(* C27: Squid's protocol integer parsers.  Inputs are byte sequences (Seq(0..255)); values are Wide naturals
   with a sign flag.  Result record: [ok, neg, mag, consumed]; a failed parse has consumed = 0. *)
EXTENDS Naturals, Sequences, Wide
Fail == [ok |-> FALSE, neg |-> FALSE, mag |-> <<>>, consumed |-> 0]
Okv(neg, mag, n) == [ok |-> TRUE, neg |-> (neg /\ mag # <<>>), mag |-> mag, consumed |-> n]
DigitVal(b) == IF b >= 48 /\ b <= 57 THEN b - 48
               ELSE IF b >= 97 /\ b <= 122 THEN b - 87
               ELSE IF b >= 65 /\ b <= 90 THEN b - 55 ELSE 99
RECURSIVE RunLen(_, _, _)
\* number of consecutive valid digits of `base` in s starting at position k
RunLen(s, k, base) == IF k <= Len(s) /\ DigitVal(s[k]) < base THEN 1 + RunLen(s, k + 1, base) ELSE 0
RECURSIVE ValueOf(_, _, _, _)
ValueOf(s, k, n, base) == IF n = 0 THEN <<>> ELSE MulAdd(ValueOf(s, k, n - 1, base), base, DigitVal(s[k + n - 1]))
MinN(a, b) == IF a < b THEN a ELSE b

\* ---- Parser::Tokenizer::int64(result, base, allowSign, limit); limit < 0 stands for npos ----
Int64Ref(s, base, allowSign, limit) ==
  LET range == IF limit < 0 THEN s ELSE SubSeq(s, 1, MinN(limit, Len(s))) IN
  IF Len(range) = 0 THEN Fail ELSE
  LET signLen == IF allowSign /\ range[1] \in {45, 43} THEN 1 ELSE 0
      neg == allowSign /\ range[1] = 45
      p1 == 1 + signLen IN
  IF p1 > Len(range) THEN Fail ELSE
  LET hex == base \in {0, 16} /\ range[p1] = 48 /\ p1 + 1 <= Len(range) /\ range[p1 + 1] \in {120, 88}
      p2 == IF hex THEN p1 + 2 ELSE p1
      b == IF hex THEN 16 ELSE IF base = 0 THEN (IF range[p1] = 48 THEN 8 ELSE 10) ELSE base IN
  IF p2 > Len(range) THEN Fail ELSE
  LET n == RunLen(range, p2, b) IN
  IF n = 0 THEN Fail ELSE
  LET mag == ValueOf(range, p2, n, b) IN
  IF FitsInt64(neg, mag) THEN Okv(neg, mag, p2 - 1 + n) ELSE Fail

\* where the statement leaves a choice ("0x" not followed by a hex digit may be refused or read as the octal/decimal 0),
\* the P-layer accepts either outcome
Int64Alt(s, base, allowSign, limit) ==
  LET range == IF limit < 0 THEN s ELSE SubSeq(s, 1, MinN(limit, Len(s)))
      signLen == IF allowSign /\ Len(range) > 0 /\ range[1] \in {45, 43} THEN 1 ELSE 0
      p1 == 1 + signLen IN
  IF base \in {0, 16} /\ p1 + 1 <= Len(range) /\ range[p1] = 48 /\ range[p1 + 1] \in {120, 88}
     /\ (p1 + 2 > Len(range) \/ DigitVal(range[p1 + 2]) >= 16)
  THEN {Int64Ref(s, base, allowSign, limit), Okv(FALSE, <<>>, p1)}
  ELSE {Int64Ref(s, base, allowSign, limit)}

\* ---- httpHeaderParseOffset(start, &value, &end): C strtoll semantics, base 10 ----
IsSpace(b) == b \in {32, 9, 10, 11, 12, 13}
RECURSIVE SpaceRun(_, _)
SpaceRun(s, k) == IF k <= Len(s) /\ IsSpace(s[k]) THEN 1 + SpaceRun(s, k + 1) ELSE 0
OffsetRef(s) ==
  LET ws == SpaceRun(s, 1)
      p0 == ws + 1
      signLen == IF p0 <= Len(s) /\ s[p0] \in {45, 43} THEN 1 ELSE 0
      neg == p0 <= Len(s) /\ s[p0] = 45
      p1 == p0 + signLen
      n == RunLen(s, p1, 10) IN
  IF n = 0 THEN Fail ELSE
  LET mag == ValueOf(s, p1, n, 10) IN
  IF FitsInt64(neg, mag) THEN Okv(neg, mag, p1 - 1 + n) ELSE Fail

\* ---- httpHeaderParseInt(start, &value): decimal, result type is a 32-bit int ----
\* P-layer: the value returned must be the exact value of the leading digits (optional blanks and sign as for strtol);
\* a digit run that does not fit the result type must be refused, never wrapped.
IntRef(s) ==
  LET ws == SpaceRun(s, 1)
      p0 == ws + 1
      signLen == IF p0 <= Len(s) /\ s[p0] \in {45, 43} THEN 1 ELSE 0
      neg == p0 <= Len(s) /\ s[p0] = 45
      p1 == p0 + signLen
      n == RunLen(s, p1, 10) IN
  IF n = 0 THEN Fail ELSE
  LET mag == ValueOf(s, p1, n, 10) IN
  IF FitsInt32(neg, mag) THEN Okv(neg, mag, p1 - 1 + n) ELSE Fail

Out(c) == [ok |-> c.ok, neg |-> c.neg, mag |-> Norm(c.mag), consumed |-> c.consumed]
====
