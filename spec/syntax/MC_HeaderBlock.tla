---- MODULE MC_HeaderBlock ----
(* Laws of HeaderBlock.tla / ContentLength.tla on a bounded domain.
   "pack": e = a list of up to MaxFields clean fields; ParseBlock(Pack(e)) = e for both owners and modes, with and without the
           terminating empty line; the packed block is printed (<<"BLOCK", bytes>>) and fed to the real parser by the check.
   "clen": e = a list of up to MaxValues Content-Length field values; the fold does not depend on the order of the values,
           what it decides is allowed by the property, a strict acceptance is a relaxed acceptance, and a value is only
           ever used if it is the decimal that is written in every field. *)
EXTENDS HeaderBlock, TLC
CONSTANTS Family, MaxFields, MaxValues
VARIABLES slot, go, e

FNames == { <<65>>, <<120, 45, 98>>, <<72, 111, 115, 116>>, <<84, 114, 97, 110, 115, 102, 101, 114, 45, 69, 110, 99, 111, 100, 105, 110, 103>> }
FValues == { <<>>, <<98>>, <<98, 32, 99>>, <<98, 58, 99>>, <<128, 255>>, <<98, 13, 10, 32, 99>>, <<98, 10, 9, 99>>, <<99, 104, 117, 110, 107, 101, 100>> }
\* Transfer-Encoding must not carry a fold (that block has to be refused)
FieldOk(f) == SameName(f[1], NameTE) => \A k \in 1..Len(f[2]) : f[2][k] \notin {10, 13}
Fields == {f \in FNames \X FValues : FieldOk(f)}
PackDomain == UNION {[1..n -> Fields] : n \in 0..MaxFields}

CValues == { <<49>>, <<48, 49>>, <<50>>, <<>>, <<49, 120>>, <<43, 49>>, <<49, 44, 49>>, <<49, 44, 32, 50>>, <<49, 44>>, <<44>>,
             <<57,50,50,51,51,55,50,48,51,54,56,53,52,55,55,53,56,48,55>>, <<57,50,50,51,51,55,50,48,51,54,56,53,52,55,55,53,56,48,56>> }
ClenDomain == UNION {[1..n -> CValues] : n \in 0..MaxValues}

NParts == 16
RECURSIVE Weight(_)
Weight(q) == IF q = <<>> THEN 0 ELSE (IF Family = "pack" THEN Len(Head(q)[1]) + 3 * Len(Head(q)[2]) ELSE Len(Head(q)) + 1) + 2 * Weight(Tail(q))
Domain == IF Family = "pack" THEN PackDomain ELSE ClenDomain
Init == slot \in 0..(NParts - 1) /\ go = FALSE /\ e = "none"
Next == ~go /\ go' = TRUE /\ e' \in {d \in Domain : Weight(d) % NParts = slot} /\ slot' = slot

PackLaws ==
  LET blk == Pack(e) IN
  /\ PrintT(<<"BLOCK", ToString(blk)>>)
  /\ \A owner \in {"req", "rep"} : \A relaxed \in {0, 1} : \A tail \in {<<>>, <<13, 10>>, <<10>>} :
       LET pb == ParseBlock(blk \o tail, owner, relaxed) IN
       /\ ~MustReject(pb, owner) /\ ~pb.irregular
       /\ Pairs(pb.fields) = e
       /\ \A k \in 1..Len(e) : SameValue(e[k][2], pb.fields[k].value) /\ Unfold(Unfold(e[k][2])) = Unfold(e[k][2])

Swap(q, a, b) == [k \in 1..Len(q) |-> IF k = a THEN q[b] ELSE IF k = b THEN q[a] ELSE q[k]]
ClenLaws ==
  \A relaxed \in {0, 1} :
    LET d == Fold(e, relaxed) IN
    /\ \A a, b \in 1..Len(e) : Fold(Swap(e, a, b), relaxed) = d
    /\ Allowed(e, relaxed, FALSE, d)
    /\ ~Allowed(e, relaxed, TRUE, Length(<<1>>))                        \* never a length when Transfer-Encoding competes
    /\ (relaxed = 0 /\ d.kind = "Length") => Fold(e, 1) = d
    /\ d.kind = "Length" => \A k \in 1..Len(e) : \A t \in 1..Len(Tokens(e[k], ItemWs(relaxed))) :
                               LET tok == Tokens(e[k], ItemWs(relaxed))[t] IN ValidToken(tok) /\ DecValue(tok) = d.n
    /\ (d.kind = "None") => (e = <<>> \/ AllTokens(e, ItemWs(relaxed)) = <<>>)
    \* nothing but the decision of the fold, a refusal or "bad framing" is allowed once a value is malformed or values differ
    /\ \A n \in {<<>>, <<1>>, <<2>>} : (Allowed(e, relaxed, FALSE, Length(n)) => d = Length(n))

Laws == go => IF Family = "pack" THEN PackLaws ELSE ClenLaws
====
