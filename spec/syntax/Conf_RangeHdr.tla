---- MODULE Conf_RangeHdr ----
(* C28 conformance: one case = one (Range field value, representation length) pair evaluated by the real
   HttpHdrRange::ParseCreate + canonize(clen).  CaseOk is the property (P-layer), ImplOk today's exact behaviour. *)
EXTENDS RangeHdrImpl, ConfLib
Case == Cases[i]
SD(neg, mag) == [neg |-> neg /\ Norm(mag) # <<>>, mag |-> Norm(mag)]
SpecsOf(rs) == [j \in 1..Len(rs) |-> [o |-> SD(rs[j].on, rs[j].o), l |-> SD(rs[j].ln, rs[j].l)]]
GotIv(rs) == [j \in 1..Len(rs) |-> [lo |-> Norm(rs[j].o), hi |-> Add(Norm(rs[j].o), Norm(rs[j].l))]]
POk(k) ==
  LET ref == ParseRange(k.v)
      C == Norm(k.clen) IN
  /\ ~k.ub                                                   \* "No input triggers arithmetic overflow"
  /\ ~ref.ok => ~k.parsed                                    \* "A header with any syntactically invalid spec is ignored entirely"
  /\ (ref.ok /\ FitsAll(ref.specs)) => k.parsed              \* a valid header with workable numbers is honoured
  /\ (k.parsed /\ ref.ok) =>
        /\ \A j \in 1..Len(k.canon) : ~k.canon[j].on /\ ~k.canon[j].ln
        /\ NonEmptyInside(GotIv(k.canon), C)                 \* "non-empty, lie within the representation"
        /\ CoversExactly(GotIv(k.canon), ref.specs, C)       \* "cover exactly the bytes requested by the satisfiable specs"
IOk(k) ==
  LET im == IParse(k.v)
      C == Norm(k.clen) IN
  /\ k.parsed = im.ok
  /\ k.parsed => /\ SpecsOf(k.raw) = im.specs
                 /\ SpecsOf(k.canon) = ICanon(im.specs, C)
                 /\ k.ok = (Len(k.canon) > 0)
CaseOk == i > 0 => POk(Case)
ImplOk == i > 0 => IOk(Case)
====
