---- MODULE MC_RequestHead ----
(* Model check of the request-head specification itself (no implementation involved).
   States are token sequences (tokens are byte strings chosen as representatives of the grammar's classes, some of
   them several fields long so that complete heads are reached within MaxTok tokens); the byte string of a state is
   the concatenation.  Checked on every state, for both parser modes:
     PrefixLaw   while the last token is appended byte by byte, an outcome that is not "more" never changes again
                 (by induction over the token sequences this is: for every prefix p of w, ReqHead(p) is "more" or
                  the same outcome as ReqHead(w)).  Limit = Big, i.e. request_header_max_size is not hit.
     GrammarLaw  Full(l) => Tolerant(l) and Simple(l) => Tolerant(l) for the first line l; in strict mode ReqHead accepts a
                 line as HTTP/x.y (x > 0) only if Full matches, with its fields, and accepts every line that Full matches
                 with x > 0 (the code-shaped function refines the grammar away from the major-version-0 corner, which the
                 conformance check reports on the real code). *)
EXTENDS RequestHead, TLC
CONSTANTS MaxTok
Big == 100000
Tokens == { <<71, 69, 84, SP, 47>>,                       \* "GET /"   method SP and the start of a target
            <<80, SP, 47>>,                               \* "P /"     some other method
            <<SP, 72, 84, 84, 80, 47, 49, 46, 49>>,       \* " HTTP/1.1"
            <<72, 84, 84, 80, 47, 48, 46, 57>>,           \* "HTTP/0.9" (with or without a delimiter in front)
            <<CR, LF>>, <<CR>>, <<LF>>, <<SP>>, <<HTAB>>,
            <<47>>,                                       \* "/"
            <<49>>,                                       \* "1"  (makes a version multi-digit, a target longer)
            <<0>>,                                        \* NUL
            <<34>>,                                       \* '"'  (relaxed-only target character)
            <<65, 58, 98>> }                              \* "A:b" (a header field)
VARIABLES toks
Init == toks = <<>>
Next == Len(toks) < MaxTok /\ \E t \in Tokens : toks' = Append(toks, t)
Flat(ts) == FoldLeft(LAMBDA acc, t : acc \o t, <<>>, ts)
Decided(o) == o.o # "more"
PrefixLawFor(relaxed) ==
  toks # <<>> =>
    LET w0 == Flat(SubSeq(toks, 1, Len(toks) - 1))
        t == toks[Len(toks)] IN
    \A n \in 1..Len(t) :
      LET a == ReqHead(w0 \o SubSeq(t, 1, n - 1), relaxed, Big)
          b == ReqHead(w0 \o SubSeq(t, 1, n), relaxed, Big) IN
      Decided(a) => Same(a, b)
PrefixLaw == PrefixLawFor(0) /\ PrefixLawFor(1)
GrammarLaw ==
  LET w == Flat(toks)
      p == IndexOf(w, LF) IN
  p > 1 =>
    LET l == Take(w, p - 1)
        f == Full(l)
        s == Simple(l)
        h == ReqHead(l \o <<LF, CR, LF>>, 0, Big) IN     \* the line followed by an empty header block
    /\ f.ok => Tolerant(l)
    /\ s.ok => Tolerant(l)
    /\ ~(f.ok /\ s.ok)
    /\ (h.o = "ok" /\ h.major # 0) => (f.ok /\ h.method = f.method /\ h.uri = f.target /\ h.major = f.major /\ h.minor = f.minor)
    /\ (f.ok /\ f.major # 0) => h.o = "ok"
    /\ (h.o = "ok" /\ h.major = 0 /\ h.minor = 9 /\ ~EndsWith(l, <<72, 84, 84, 80, 47, 48, 46, 57, CR>>)) =>
          (s.ok /\ h.method = s.method /\ h.uri = s.target)
\* vacuity probes (used by hand: each must be VIOLATED)
ProbeFull == ~(ReqHead(Flat(toks), 0, Big).o = "ok" /\ ReqHead(Flat(toks), 0, Big).major = 1 /\ ReqHead(Flat(toks), 0, Big).mime # CRLF)
ProbeSimple == ~(ReqHead(Flat(toks), 0, Big).o = "ok" /\ ReqHead(Flat(toks), 0, Big).minor = 9)
====
