---- MODULE UriModel ----
(* C30: request targets in absolute form (scheme "://" authority path...) and, for CONNECT, authority form (host ":" port).
   RFC 3986 section 3.2:  authority = [ userinfo "@" ] host [ ":" port ],  host = IP-literal / IPv4address / reg-name,
   IP-literal = "[" ... "]",  port = *DIGIT.

   P-layer: Analyse(method, target) locates the port component the way the grammar does and classifies it:
     "valid"   decimal digits with a value in 1..65535                    (the accepted URI must carry exactly that port)
     "none"    no port component                                         (the accepted URI carries the scheme default)
     "bad"     port component present that is non-numeric or out of range (the target must be rejected)
     "free"    nothing demanded: empty port, or an authority that the grammar does not describe (several "@", several
               colons outside brackets, blanks/controls, unbalanced brackets) -- only the generic clauses apply
     "na"      not an absolute URI with an authority (urn:..., "*", no scheme)
   The statement never demands acceptance, so there is no "must accept" clause. *)
EXTENDS Naturals, Sequences, SequencesExt, TLC, Wide
IsDigit(b) == b >= 48 /\ b <= 57
IsAlpha(b) == (b >= 65 /\ b <= 90) \/ (b >= 97 /\ b <= 122)
Lower(b) == IF b >= 65 /\ b <= 90 THEN b + 32 ELSE b
LowerSeq(s) == [i \in 1..Len(s) |-> Lower(s[i])]
RECURSIVE IndexFrom(_, _, _)
\* first index >= k of a byte of s in set S, or 0
IndexFrom(s, S, k) == IF k > Len(s) THEN 0 ELSE IF s[k] \in S THEN k ELSE IndexFrom(s, S, k + 1)
RECURSIVE LastIndex(_, _, _)
LastIndex(s, b, k) == IF k < 1 THEN 0 ELSE IF s[k] = b THEN k ELSE LastIndex(s, b, k - 1)
Count(s, b) == Len(SelectSeq(s, LAMBDA x : x = b))
AllDigits(s) == Len(s) > 0 /\ \A i \in 1..Len(s) : IsDigit(s[i])
WVal(ds) == FromBE([i \in 1..Len(ds) |-> ds[i] - 48])
RECURSIVE W2N(_)
W2N(w) == IF w = <<>> THEN 0 ELSE w[1] + 10 * W2N(Tail(w))
Port65535 == <<5, 3, 5, 5, 6>>
PortClass(p) == IF p = <<>> THEN [cls |-> "free", v |-> 0]
                ELSE IF ~AllDigits(p) THEN [cls |-> "bad", v |-> 0]
                ELSE LET w == WVal(p) IN
                     IF w = <<>> \/ ~Leq(w, Port65535) THEN [cls |-> "bad", v |-> 0] ELSE [cls |-> "valid", v |-> W2N(w)]
Free == [cls |-> "free", v |-> 0]
NoPort == [cls |-> "none", v |-> 0]
\* host [ ":" port ] without userinfo
HostPort(hp) ==
  IF hp = <<>> THEN Free
  ELSE IF hp[1] = 91 THEN
       LET c == IndexFrom(hp, {93}, 2) IN
       IF c = 0 THEN Free
       ELSE IF c = Len(hp) THEN NoPort
       ELSE IF hp[c + 1] = 58 THEN PortClass(SubSeq(hp, c + 2, Len(hp)))
       ELSE Free
  ELSE LET n == Count(hp, 58) IN
       IF n = 0 THEN NoPort
       ELSE IF n > 1 THEN Free
       ELSE PortClass(SubSeq(hp, IndexFrom(hp, {58}, 1) + 1, Len(hp)))
Odd(b) == b <= 32 \/ b = 127
Authority(a) ==
  IF \E i \in 1..Len(a) : Odd(a[i]) THEN Free
  ELSE IF Count(a, 64) > 1 THEN Free
  ELSE HostPort(SubSeq(a, LastIndex(a, 64, Len(a)) + 1, Len(a)))
SchemeChar(b) == IsAlpha(b) \/ IsDigit(b) \/ b \in {43, 45, 46}
RECURSIVE SchemeLen(_, _)
SchemeLen(u, k) == IF k <= Len(u) /\ SchemeChar(u[k]) THEN 1 + SchemeLen(u, k + 1) ELSE 0
NA == [cls |-> "na", v |-> 0, scheme |-> <<>>]
Analyse(connect, u) ==
  IF connect THEN HostPort(u) @@ [scheme |-> <<>>]
  ELSE LET n == SchemeLen(u, 1) IN
       IF n = 0 \/ ~IsAlpha(u[1]) \/ Len(u) < n + 3 \/ u[n + 1] # 58 \/ u[n + 2] # 47 \/ u[n + 3] # 47 THEN NA
       ELSE LET rest == SubSeq(u, n + 4, Len(u))
                e == IndexFrom(rest, {47, 63, 35}, 1)
                auth == IF e = 0 THEN rest ELSE SubSeq(rest, 1, e - 1) IN
            Authority(auth) @@ [scheme |-> LowerSeq(SubSeq(u, 1, n))]
Http == <<104, 116, 116, 112>>
Https == <<104, 116, 116, 112, 115>>
Ftp == <<102, 116, 112>>
\* 0 = no default known to the reference
DefaultPort(scheme) == IF scheme = Http THEN 80 ELSE IF scheme = Https THEN 443 ELSE IF scheme = Ftp THEN 21 ELSE 0

\* "lower-case host with no empty labels" (labels are separated by "."; bracketed/IPv6 text has no dots next to each other either)
RECURSIVE NoDotDot(_, _)
NoDotDot(h, k) == IF k >= Len(h) THEN TRUE ELSE IF h[k] = 46 /\ h[k + 1] = 46 THEN FALSE ELSE NoDotDot(h, k + 1)
HostOk(h) == /\ h # <<>>
             /\ \A i \in 1..Len(h) : ~(h[i] >= 65 /\ h[i] <= 90)
             /\ h[1] # 46
             /\ NoDotDot(h, 1)

\* "Re-parsing the canonical form yields the same path": the same up to percent-encoding of bytes that can never occur
\* literally in a URI (RFC 3986 6.2.2.2 equivalence; controls, blanks, 8-bit, " < > \ ^ ` { | } [ ]).  Delimiters and the other
\* legal characters (unreserved, sub-delims, ":" "@" "/" "?" "#") and existing "%" are compared literally, so a canonical form
\* that turns "?" into "%3F" changes the path.
Literal(b) == IsAlpha(b) \/ IsDigit(b) \/ b \in {45, 46, 95, 126, 33, 36, 38, 39, 40, 41, 42, 43, 44, 59, 61, 58, 64, 47, 63, 35, 37}
HexUp(n) == IF n < 10 THEN 48 + n ELSE 55 + n
NormPath(p) == FlattenSeq([i \in 1..Len(p) |-> IF Literal(p[i]) THEN <<p[i]>> ELSE <<37, HexUp(p[i] \div 16), HexUp(p[i] % 16)>>])
SamePath(p, q) == NormPath(p) = NormPath(q)
====
