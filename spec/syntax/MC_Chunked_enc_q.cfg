CONSTANTS Family = "enc" MaxBody = 2 Alpha = {13} NExt1 = 6 NExt2 = 2 MaxStr = 0 Alpha2 = {}
INIT Init
NEXT Next
INVARIANT Laws
CHECK_DEADLOCK FALSE
