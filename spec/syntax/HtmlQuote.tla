---- MODULE HtmlQuote ----
(* C32: HTML quoting neutralises markup and is reversible.  Strings are Seq(0..255).
   P-layer (from the statement): the quoted form q of s
     (a) WellQuoted(q): no raw markup metacharacter (< > " ' &) occurs in q other than the '&' that opens a
         well-formed entity reference (named: lt gt quot amp apos; numeric: &#D+; or &#xH+; with value <= 255);
     (b) Unquote(q) = s: decoding the entity references gives the original string back.
   Two definitions of the decoder are given: the natural recursive one (UnquoteRec/WellQuotedRec) and a
   positional one without recursion (Unquote/WellQuoted) that TLC can evaluate on strings of 100 kB; MC_HtmlQuote
   shows they agree on a bounded domain.
   I-layer: Quote(s), the table the code uses today (which characters are escaped, and how). *)
EXTENDS Naturals, Sequences, SequencesExt

LT == 60
GT == 62
DQ == 34
SQ == 39
AMP == 38
HASH == 35
SEMI == 59
Meta == {LT, GT, DQ, SQ, AMP}

IsDigit(b) == b >= 48 /\ b <= 57
IsHex(b) == IsDigit(b) \/ (b >= 97 /\ b <= 102) \/ (b >= 65 /\ b <= 70)
HexVal(b) == IF IsDigit(b) THEN b - 48 ELSE IF b >= 97 THEN b - 87 ELSE b - 55
MinN(a, b) == IF a < b THEN a ELSE b
MaxN(a, b) == IF a > b THEN a ELSE b

\* names of the five predefined entities, as byte sequences, with the byte each denotes
NameLt == <<108, 116>>
NameGt == <<103, 116>>
NameQuot == <<113, 117, 111, 116>>
NameAmp == <<97, 109, 112>>
NameApos == <<97, 112, 111, 115>>
NamedVal(body) == CASE body = NameLt -> LT [] body = NameGt -> GT [] body = NameQuot -> DQ
                    [] body = NameAmp -> AMP [] body = NameApos -> SQ [] OTHER -> 999

\* longest entity body considered (between '&' and ';'): "#" + 7 digits
MaxBody == 8
NoEnt == [len |-> 0, val |-> 0]

RECURSIVE RadixVal(_, _, _, _)
\* value of body[from..Len(body)] in the given radix (bodies are short: no overflow)
RadixVal(body, from, radix, acc) ==
  IF from > Len(body) THEN acc ELSE RadixVal(body, from + 1, radix, acc * radix + HexVal(body[from]))

\* position of the first ';' after p within the window, 0 if none
SemiAfter(q, p) ==
  LET cand == {k \in (p + 1)..MinN(p + MaxBody + 1, Len(q)) : q[k] = SEMI}
  IN IF cand = {} THEN 0 ELSE CHOOSE k \in cand : \A j \in cand : k <= j

\* the entity reference that starts at position p of q: [len, val], or NoEnt
EntityAt(q, p) ==
  IF p > Len(q) \/ q[p] # AMP THEN NoEnt ELSE
  LET e == SemiAfter(q, p) IN
  IF e = 0 \/ e = p + 1 THEN NoEnt ELSE
  LET body == SubSeq(q, p + 1, e - 1)
      n == Len(body)
      v == IF NamedVal(body) # 999 THEN NamedVal(body)
           ELSE IF n >= 2 /\ body[1] = HASH /\ (\A k \in 2..n : IsDigit(body[k])) THEN RadixVal(body, 2, 10, 0)
           ELSE IF n >= 3 /\ body[1] = HASH /\ body[2] \in {120, 88} /\ (\A k \in 3..n : IsHex(body[k])) THEN RadixVal(body, 3, 16, 0)
           ELSE 999
  IN IF v <= 255 THEN [len |-> e - p + 1, val |-> v] ELSE NoEnt

\* ---- recursive reference decoder ----
RECURSIVE UnquoteRec(_, _)
UnquoteRec(q, p) ==
  IF p > Len(q) THEN <<>> ELSE
  LET e == EntityAt(q, p) IN
  IF e.len > 0 THEN <<e.val>> \o UnquoteRec(q, p + e.len) ELSE <<q[p]>> \o UnquoteRec(q, p + 1)
RECURSIVE WellQuotedRec(_, _)
WellQuotedRec(q, p) ==
  IF p > Len(q) THEN TRUE ELSE
  LET e == EntityAt(q, p) IN
  IF e.len > 0 THEN WellQuotedRec(q, p + e.len) ELSE (q[p] \notin Meta /\ WellQuotedRec(q, p + 1))

\* ---- positional (recursion-free) decoder ----
\* position p lies inside (not at the start of) an entity reference.  An entity body never contains '&', so
\* references cannot overlap and every '&' that has a well-formed body is the start of one.
Covered(q, p) == \E k \in MaxN(1, p - MaxBody - 1)..(p - 1) : q[k] = AMP /\ k + EntityAt(q, k).len > p
WellQuoted(q) == \A p \in 1..Len(q) : q[p] \in Meta => (q[p] = AMP /\ EntityAt(q, p).len > 0)
Unquote(q) ==
  LET idx == SelectSeq([p \in 1..Len(q) |-> p], LAMBDA p : ~Covered(q, p))
  IN [k \in 1..Len(idx) |-> IF q[idx[k]] = AMP /\ EntityAt(q, idx[k]).len > 0 THEN EntityAt(q, idx[k]).val ELSE q[idx[k]]]

\* ---- I-layer: today's escape table ----
RECURSIVE DecDigits(_)
DecDigits(n) == IF n < 10 THEN <<48 + n>> ELSE DecDigits(n \div 10) \o <<48 + (n % 10)>>
QuoteByte(b) ==
  CASE b = LT -> <<AMP>> \o NameLt \o <<SEMI>>
    [] b = GT -> <<AMP>> \o NameGt \o <<SEMI>>
    [] b = DQ -> <<AMP>> \o NameQuot \o <<SEMI>>
    [] b = AMP -> <<AMP>> \o NameAmp \o <<SEMI>>
    [] b = SQ -> <<AMP>> \o NameApos \o <<SEMI>>
    [] (b <= 31 \/ b >= 127) /\ b \notin {9, 10, 13} -> <<AMP, HASH>> \o DecDigits(b) \o <<SEMI>>
    [] OTHER -> <<b>>
Quote(s) == FoldLeft(LAMBDA acc, b : acc \o QuoteByte(b), <<>>, s)
====
