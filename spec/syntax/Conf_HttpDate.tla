---- MODULE Conf_HttpDate ----
(* one TLC state = one batch {"b": [case, ...]}; cases (harness/u_date.cc):
   fmt:   days, sod (the time given), f (text FormatRfc1123 produced), ok/pdays/psod (ParseRfc1123 of f)
   parse: s (text), now (current year, for the sliding two-digit-year rule), ok/pdays/psod *)
EXTENDS HttpDate, ConfLib
Case == Cases[i]
Got(k) == [days |-> k.pdays, sod |-> k.psod]
\* second sentence of the statement: an accepted string of one of the three forms yields the time it denotes
\* (strings that denote nothing - not of the three forms, impossible dates, contradictory day name - are not constrained)
Denotes(k, s, now) == LET D == Denotations(s, now) IN (k.ok /\ D # {}) => Got(k) \in D
POk(k) == /\ ~k.ub
          /\ CASE k.op = "fmt" -> /\ k.ok /\ k.pdays = k.days /\ k.psod = k.sod       \* first sentence: Parse(Format(t)) = t
                                  /\ Denotes(k, k.f, 2000)
               [] k.op = "parse" -> Denotes(k, k.s, k.now)
\* I-layer: the formatter emits exactly IMF-fixdate; the parser accepts the whole domain and uses the fixed pivot
IOk(k) == CASE k.op = "fmt" -> k.f = Format1123(k.days, k.sod)
            [] k.op = "parse" -> Denotations(k.s, k.now) # {} => (k.ok /\ Got(k) = ImplDenotation(k.s))
CaseOk == i > 0 => \A j \in 1..Len(Case.b) : POk(Case.b[j])
ImplOk == i > 0 => \A j \in 1..Len(Case.b) : IOk(Case.b[j])
====
