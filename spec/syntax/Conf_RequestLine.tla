---- MODULE Conf_RequestLine ----
(* C22: every case is one input (a request line followed by an empty or small header block) parsed at once by the real
   Http::One::RequestParser.  CaseOk is the property (strict: accepted exactly as the grammar says, with the grammar's
   fields; relaxed: accepted only if the tolerant grammar matches).  ImplOk compares with the code-shaped function. *)
EXTENDS RequestHead, ConfLib
Case == Cases[i]
One(k) == k.tuples[k.one + 1]
POk(k) == /\ ~k.ub
          /\ IF k.relaxed = 0 THEN StrictOk(k["in"], One(k)) ELSE RelaxedOk(k["in"], One(k))
\* relaxed mode reports registered method names in their registered spelling: compared modulo ASCII case
ImplSame(a, b, relaxed) ==
  IF a.o = "ok" /\ b.o = "ok" /\ relaxed # 0
  THEN Same([a EXCEPT !.method = UpperSeq(@)], [b EXCEPT !.method = UpperSeq(@)])
  ELSE Same(a, b)
IOk(k) == ImplSame(One(k), ReqHead(k["in"], k.relaxed, k.limit), k.relaxed)
CaseOk == i > 0 => POk(Case)
ImplOk == i > 0 => IOk(Case)
====
