INIT Init
NEXT Next
INVARIANTS RoundTrip PrefixLaw
CHECK_DEADLOCK FALSE
