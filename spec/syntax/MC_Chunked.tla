---- MODULE MC_Chunked ----
(* Model-checks the algebraic laws of Chunked.tla on a bounded domain and prints every generated valid encoding
   (<<"ENC", bytes>>) so that the check can feed exactly these to the real decoder (T3(i)).
   Two families, selected by the constant Family:
     "enc": e = a body, a chunking of it, extension spellings on the first chunk and on the last-chunk, a trailer
            section and a spelling of the size digits;
     "str": e = any string over Alpha2 up to MaxStr bytes (mostly malformed);
     "mut": e = a valid encoding of a body of at most one byte with one byte replaced by a symbol of Alpha2 or deleted. *)
EXTENDS Chunked, TLC, FiniteSets
CONSTANTS Family, MaxBody, Alpha, NExt1, NExt2, MaxStr, Alpha2
VARIABLES slot, go, e

Exts == << <<>>,
           <<59, 97>>,                                 \* ;a
           <<59, 97, 98, 61, 99, 100>>,                \* ;ab=cd   (tokens of more than one byte: a split can fall inside)
           <<59, 97, 61, 34, 113, 92, 34, 34>>,        \* ;a="q\""
           <<32, 59, 97>>,                             \* BWS ;a
           <<59, 32, 97, 32, 61, 32, 98>>,             \* ; a = b
           <<59, 97, 59, 98, 61, 99>>,                 \* ;a;b=c
           <<59, 97, 61, 34, 34, 9, 59, 98>>,          \* ;a="" HTAB ;b
           <<59, 97, 61, 98>> >>                       \* ;a=b
Trailers == << <<>>, <<65, 58, 32, 98, 13, 10>>, <<65, 58, 98, 13, 10, 67, 58, 13, 10>> >>
RECURSIVE Rep(_, _)
Rep(b, k) == IF k = 0 THEN <<>> ELSE <<b>> \o Rep(b, k - 1)
Bodies == UNION {[1..k -> Alpha] : k \in 0..MaxBody} \cup {Rep(97, 11), Rep(98, 26)}
CutsFor(b) == IF Len(b) > MaxBody THEN {{}, {10}} ELSE SUBSET (1..(Len(b) - 1))
Upper(d) == IF d >= 97 THEN d - 32 ELSE d
\* the size digits as written: 0 canonical lower case, 1 one leading zero, 2 upper case
Spell(v, pad) == IF pad = 1 THEN <<48>> \o HexDigits(v)
                 ELSE IF pad = 2 THEN [j \in 1..Len(HexDigits(v)) |-> Upper(HexDigits(v)[j])] ELSE HexDigits(v)
RECURSIVE Pieces(_, _, _, _, _)
\* chunks of body from position a on, cut after every position in cuts; the first chunk carries extension x1
Pieces(b, cuts, a, x1, pad) ==
  IF a > Len(b) THEN <<>>
  ELSE LET nexts == {c \in cuts : c >= a}
           z == IF nexts = {} THEN Len(b) ELSE CHOOSE c \in nexts : \A d \in nexts : c <= d IN
       <<[hex |-> Spell(z - a + 1, pad), ext |-> IF a = 1 THEN Exts[x1] ELSE <<>>, data |-> SubSeq(b, a, z)]>>
       \o Pieces(b, cuts, z + 1, x1, pad)

EncOk(r) == /\ r.cuts \in CutsFor(r.body)
            /\ (r.body = <<>> => r.x1 = 1)
            /\ (r.pad = 2 => Len(r.body) > MaxBody)      \* upper case only matters for sizes >= 10
            /\ (Len(r.body) > MaxBody => r.x1 <= 3 /\ r.x2 = 1 /\ r.tr = 1)   \* the long bodies are there for the size digits
Enc(r) == Encode(Pieces(r.body, r.cuts, 1, r.x1, r.pad), [hex |-> Zeros(IF r.pad = 1 THEN 2 ELSE 1), ext |-> Exts[r.x2]], Trailers[r.tr])
StrDomain == UNION {[1..k -> Alpha2] : k \in 0..MaxStr}

\* sixteen parent states share the domain so that the laws are evaluated by all workers
NParts == 32
RECURSIVE SumSeq(_)
SumSeq(q) == IF q = <<>> THEN 0 ELSE Head(q) + SumSeq(Tail(q))
Part(d) == IF Family = "enc" THEN (d.x1 + 3 * d.x2 + 5 * d.tr + 7 * Len(d.body) + d.pad) % NParts ELSE (SumSeq(d) + Len(d)) % NParts
MutBase == {d \in {[body |-> b, cuts |-> {}, x1 |-> x1, x2 |-> 1, tr |-> t, pad |-> 0] :
                        b \in {<<>>, <<97>>}, x1 \in 1..NExt1, t \in 1..2} : EncOk(d)}
Replace(w, p, b) == [j \in 1..Len(w) |-> IF j = p THEN b ELSE w[j]]
Delete(w, p) == SubSeq(w, 1, p - 1) \o SubSeq(w, p + 1, Len(w))
MutDomain == UNION {{Replace(Enc(d), p, b) : p \in 1..Len(Enc(d)), b \in Alpha2} \cup {Delete(Enc(d), p) : p \in 1..Len(Enc(d))} : d \in MutBase}
Domain == IF Family = "mut" THEN MutDomain ELSE IF Family = "enc"
          THEN {d \in {[body |-> b, cuts |-> k, x1 |-> x1, x2 |-> x2, tr |-> t, pad |-> p] :
                         b \in Bodies, k \in SUBSET {1, 2, 10}, x1 \in 1..NExt1, x2 \in 1..NExt2, t \in 1..Len(Trailers), p \in 0..2} : EncOk(d)}
          ELSE StrDomain
None == "none"
Init == slot \in 0..(NParts - 1) /\ go = FALSE /\ e = None
Next == ~go /\ go' = TRUE /\ e' \in {d \in Domain : Part(d) = slot} /\ slot' = slot

Modes == {Strict, Tolerant(0), Tolerant(1)}
Caps == {1, 2, Unlimited}

\* Decode(Encode(b)) = b for every grammar mode; truncation only asks for more; trailing bytes are left alone;
\* every single split point and every output capacity gives the same result
EncLaws ==
  LET w == Enc(e)
      n == Len(w)
      want == [oc |-> "Done", out |-> e.body, used |-> n, at |-> 0, soft |-> FALSE] IN
  /\ PrintT(<<"ENC", ToString(w)>>)
  /\ \A T \in Modes :
       /\ Decode(w, T) = want
       /\ Decode(w \o <<88>>, T) = want
       /\ \A k \in 0..(n - 1) : LET r == Dec(w, k, T) IN r.oc = "NeedMore" /\ IsPrefix(r.out, e.body)
  /\ \A k \in 0..n : \A cap \in Caps :
       Result(Rounds(w, n, Rounds(w, k, Init0, cap, Strict), cap, Strict)) = want

\* laws over arbitrary strings: verdicts are stable under extension, schedules do not matter, and the grammars are ordered Strict <= Tolerant
Same(a, b) == a.oc = b.oc /\ a.out = b.out /\ (a.oc = "Done" => a.used = b.used) /\ (a.oc = "Reject" => a.at = b.at)
StrLaws ==
  LET w == e
      n == Len(w) IN
  /\ \A T \in Modes :
       LET whole == Dec(w, n, T) IN
       /\ \A k \in 0..n :
            LET part == Dec(w, k, T) IN
            /\ part.oc = "Done" => Same(part, whole)
            /\ part.oc = "Reject" => whole.oc = "Reject" /\ part.at <= k      \* a refusal is final and blames a delivered byte
            /\ IsPrefix(part.out, whole.out)
       /\ \A k \in 0..n : \A cap \in Caps :
            Same(Result(Rounds(w, n, Rounds(w, k, Init0, cap, T), cap, T)), whole)
  /\ \A r \in {0, 1} :
       LET s == Dec(w, n, Strict)
           t == Dec(w, n, Tolerant(r)) IN
       /\ s.oc = "Done" => Same(s, t)
       /\ s.oc = "NeedMore" => t.oc = "NeedMore" /\ t.out = s.out
       /\ t.oc = "Reject" => s.oc = "Reject" /\ s.at <= t.at
       /\ IsPrefix(s.out, t.out)

Laws == go => IF Family = "enc" THEN EncLaws ELSE StrLaws
====
