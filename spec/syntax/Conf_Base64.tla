---- MODULE Conf_Base64 ----
(* one TLC state = one batch {"b": [case, ...]}; cases (see harness/u_base64_ops.h, u_base64.cc):
   rt:    s, e (= what the implementation's encoder produced), per-call byte counts, then the decode of e
   rtall: pre and, for every byte b, the same for the string pre \o <<b>> (complete one- and two-byte sets, 256 strings per case)
   dec:   e (arbitrary text), split decode result
   basic: hdr (Authorization header value), cs (case sensitive user names), decoded/user/haspw/pw from the real decode() *)
EXTENDS Base64, ConfLib
Case == Cases[i]
EncLen(n) == (n * 8 + 4) \div 6
Accepted(k) == k.upd /\ k.fin
\* bytes written by each successful update call stay within BASE64_DECODE_LENGTH of that call's input
Promise(k) == k.n1 <= DecodeLength(k.k1) /\ k.n2 <= DecodeLength(k.k2)
DecOk(k, e) == /\ Promise(k)
               /\ (Canonical(e) => Accepted(k) /\ k.out = Value(e))
               /\ (Malformed(e) => ~Accepted(k))
               /\ (Accepted(k) /\ ~Malformed(e) => k.out = Value(Strip(e)))
HasCtl(d) == \E j \in 1..Len(d) : d[j] \in {0, 10, 13}
BasicOk(k) ==
  LET e == CredPart(k.hdr) IN
  IF Canonical(e) THEN
     LET d == Value(e) IN
     IF HasCtl(d) THEN TRUE      \* RFC 7617: no control characters in credentials; outside the statement's domain
     ELSE LET sp == SplitBasic(d) IN
          /\ k.decoded
          /\ (IF k.cs = 1 THEN k.user = sp.user ELSE Lower(k.user) = Lower(sp.user))
          /\ (IF sp.pw = <<>> THEN (~k.haspw \/ k.pw = <<>>) ELSE (k.haspw /\ k.pw = sp.pw))
  ELSE IF Malformed(e) THEN ~k.decoded
  ELSE TRUE
POk(k) == /\ ~k.ub
          /\ CASE k.op = "rt" -> /\ k.e = Encode(k.s) /\ k.raweq         \* raweq: base64_encode_raw produced the same text
                                 /\ k.en1 <= EncLen(k.ek1) /\ k.en2 <= EncLen(k.ek2) /\ k.enf <= 3
                                 /\ Promise(k) /\ Accepted(k) /\ k.out = k.s
               [] k.op = "rtall" -> /\ k.promise /\ k.raweq /\ Len(k.es) = 256
                                    /\ \A b \in 0..255 : LET s == k.pre \o <<b>> IN k.es[b + 1] = Encode(s) /\ k.acc[b + 1] /\ k.outs[b + 1] = s
               [] k.op = "dec" -> DecOk(k, k.e)
               [] k.op = "basic" -> BasicOk(k)
\* I-layer: the decoding automaton of each implementation as it is today (Basic credentials go through the linked decoder); user names folded to lower case when cs = 0
IOk(k) == CASE k.op = "dec" -> LET r == Automaton(k.impl, k.e) IN k.upd = r.upd /\ Accepted(k) = r.ok /\ (Accepted(k) => k.out = r.out)
            [] k.op = "basic" -> LET r == Nettle(CredPart(k.hdr)) IN
                                 (k.decoded /\ k.cs = 0 /\ ~HasCtl(r.out)) => k.user = Lower(SplitBasic(r.out).user)
            [] OTHER -> TRUE
CaseOk == i > 0 => \A j \in 1..Len(Case.b) : POk(Case.b[j])
ImplOk == i > 0 => \A j \in 1..Len(Case.b) : IOk(Case.b[j])
====
