CONSTANTS MaxPos = 4 MaxLen = 4 MaxSpecs = 3
INIT Init
NEXT Next
INVARIANT Laws
CHECK_DEADLOCK FALSE
