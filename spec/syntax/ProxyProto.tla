---- MODULE ProxyProto ----
(* C38: PROXY protocol v1 (text line) and v2 (binary) headers as a reference decoder over byte sequences
   (Seq(0..255)), written from the PROXY protocol specification (haproxy proxy-protocol.txt 2.1/2.2) and the
   property statement, not from the C++.

   Decode(s) looks at a received byte string s and returns one of
     [kind |-> "need"]                       no verdict yet: a header may still be completed by more bytes
     [kind |-> "rej",  cp |-> n]             the first n bytes are a complete but malformed header
     [kind |-> "hdr",  cp |-> n, ...fields]  the first n bytes are a well-formed header with these fields
     [kind |-> "free", cp |-> n]             complete, but the statement does not decide (spellings such as
                                             port "080", address "127.1", "UNKNOWNxyz", LOCAL with a short block)
   cp is the completion point: Decode depends on the first cp bytes only, and no proper prefix shorter than cp is
   complete (MC_ProxyProto checks both laws and Decode(Encode(h)) = h on a bounded domain).

   Addresses are 16 bytes (IPv4 as IPv4-mapped IPv6, which is also what "s4/d4" of the implementation reports). *)
EXTENDS Naturals, Sequences

Magic1 == <<80, 82, 79, 88, 89>>                                  \* "PROXY"
Magic2 == <<13, 10, 13, 10, 0, 13, 10, 81, 85, 73, 84, 10>>
SP == 32
CR == 13
LF == 10
Take(s, k) == SubSeq(s, 1, IF k < Len(s) THEN k ELSE Len(s))
Drop(s, k) == SubSeq(s, k + 1, Len(s))
StartsWith(s, p) == Len(s) >= Len(p) /\ SubSeq(s, 1, Len(p)) = p
Zeros(n) == [j \in 1..n |-> 0]
Mapped4(q) == Zeros(10) \o <<255, 255>> \o q                       \* q: 4 bytes
IsMapped(b) == SubSeq(b, 1, 12) = Zeros(10) \o <<255, 255>>

Need == [kind |-> "need"]
Rej(cp) == [kind |-> "rej", cp |-> cp]
Free(cp) == [kind |-> "free", cp |-> cp]
\* mode: "none" (no address information: UNKNOWN / UNSPEC), "local" (v2 LOCAL command: block discarded),
\*       "inet", "inet6" (forwarded addresses), "unix" (v2 AF_UNIX: addresses not representable by the implementation)
Hdr(cp, ver, cmd, mode, sa, da, sp, dp, tlvs) ==
  [kind |-> "hdr", cp |-> cp, ver |-> ver, cmd |-> cmd, mode |-> mode, sa |-> sa, da |-> da, sp |-> sp, dp |-> dp, tlvs |-> tlvs]
HdrNoAddr(cp, ver, cmd, mode) == Hdr(cp, ver, cmd, mode, Zeros(16), Zeros(16), 0, 0, <<>>)

\* ------------------------------------------------------------------------------------------------ text helpers
IsDigit(b) == b >= 48 /\ b <= 57
IsHex(b) == IsDigit(b) \/ (b >= 97 /\ b <= 102) \/ (b >= 65 /\ b <= 70)
HexVal(b) == IF IsDigit(b) THEN b - 48 ELSE IF b >= 97 THEN b - 87 ELSE b - 55
AllIn(s, P(_)) == \A j \in 1..Len(s) : P(s[j])
\* first position >= k of byte d in s, 0 if none (set-based: inputs may be thousands of bytes long, no deep recursion)
IndexFrom(s, d, k) == LET hits == {j \in k..Len(s) : s[j] = d} IN
                      IF hits = {} THEN 0 ELSE CHOOSE j \in hits : \A h \in hits : j <= h
RECURSIVE SplitBy(_, _)
\* split at every occurrence of d; "a..b" gives <<"a", "", "b">>, "" gives <<"">>
SplitBy(s, d) == LET p == IndexFrom(s, d, 1) IN
                 IF p = 0 THEN <<s>> ELSE <<SubSeq(s, 1, p - 1)>> \o SplitBy(Drop(s, p), d)
RECURSIVE DecVal(_)
\* value of at most 5 decimal digits (callers bound the length)
DecVal(s) == IF s = <<>> THEN 0 ELSE DecVal(SubSeq(s, 1, Len(s) - 1)) * 10 + (s[Len(s)] - 48)
RECURSIVE HexGroupVal(_)
HexGroupVal(s) == IF s = <<>> THEN 0 ELSE HexGroupVal(SubSeq(s, 1, Len(s) - 1)) * 16 + HexVal(s[Len(s)])

\* ---- port: 1*DIGIT, value 0..65535.  Leading zeros are neither required nor forbidden by the statement: "free"
ParsePort(t) ==
  IF t = <<>> \/ ~AllIn(t, IsDigit) THEN [k |-> "bad"]
  ELSE IF Len(t) > 1 /\ t[1] = 48 THEN [k |-> "free"]
  ELSE IF Len(t) > 5 THEN [k |-> "bad"]
  ELSE IF DecVal(t) > 65535 THEN [k |-> "bad"] ELSE [k |-> "ok", v |-> DecVal(t)]

\* ---- IPv4 dotted quad.  Strict form: four decimal octets without leading zeros.  The historic inet_aton() spellings
\* (fewer than four parts, octal with leading zeros) are "free"; everything else made of digits and dots is bad.
LeadingZero(p) == Len(p) > 1 /\ p[1] = 48
ParseQuad(t) ==
  LET parts == SplitBy(t, 46) IN
  IF ~AllIn(t, LAMBDA b : IsDigit(b) \/ b = 46) \/ \E j \in 1..Len(parts) : parts[j] = <<>> THEN [k |-> "bad"]
  ELSE IF Len(parts) > 4 THEN [k |-> "bad"]
  ELSE IF Len(parts) < 4 THEN [k |-> "free"]
  ELSE IF \E j \in 1..4 : LeadingZero(parts[j]) THEN [k |-> "free"]
  ELSE IF \E j \in 1..4 : Len(parts[j]) > 3 \/ DecVal(parts[j]) > 255 THEN [k |-> "bad"]
  ELSE [k |-> "ok", b |-> [j \in 1..4 |-> DecVal(parts[j])]]

\* ---- IPv6 text (RFC 4291 2.2): groups of 1..4 hex digits, at most one "::" standing for one or more zero groups,
\* optionally ending in a dotted quad.
IsGroup(p) == Len(p) >= 1 /\ Len(p) <= 4 /\ AllIn(p, IsHex)
GroupBytes(p) == LET v == HexGroupVal(p) IN <<v \div 256, v % 256>>
RECURSIVE GroupsRec(_, _, _)
\* bytes of colon-separated groups parts[k..]; the last part may be a dotted quad when allowQuad
GroupsRec(parts, k, allowQuad) ==
  IF k > Len(parts) THEN [k |-> "ok", b |-> <<>>]
  ELSE LET p == parts[k] IN
       IF IsGroup(p) THEN LET r == GroupsRec(parts, k + 1, allowQuad) IN
                          IF r.k = "ok" THEN [k |-> "ok", b |-> GroupBytes(p) \o r.b] ELSE r
       ELSE IF k = Len(parts) /\ allowQuad /\ IndexFrom(p, 46, 1) # 0 THEN
            LET q == ParseQuad(p) IN
            IF q.k = "ok" THEN q ELSE IF q.k = "free" /\ Len(SplitBy(p, 46)) = 4 THEN [k |-> "free"] ELSE [k |-> "bad"]
       ELSE [k |-> "bad"]
RECURSIVE FindDoubleColon(_, _)
FindDoubleColon(t, k) == IF k + 1 > Len(t) THEN 0 ELSE IF t[k] = 58 /\ t[k + 1] = 58 THEN k ELSE FindDoubleColon(t, k + 1)
ParseV6(t) ==
  LET dc == FindDoubleColon(t, 1) IN
  IF dc = 0 THEN LET g == GroupsRec(SplitBy(t, 58), 1, TRUE) IN
                 IF g.k = "ok" THEN (IF Len(g.b) = 16 THEN g ELSE [k |-> "bad"]) ELSE g
  ELSE LET L == SubSeq(t, 1, dc - 1)
           R == Drop(t, dc + 1)
           gl == IF L = <<>> THEN [k |-> "ok", b |-> <<>>] ELSE GroupsRec(SplitBy(L, 58), 1, FALSE)
           gr == IF R = <<>> THEN [k |-> "ok", b |-> <<>>] ELSE GroupsRec(SplitBy(R, 58), 1, TRUE)
       IN IF gl.k = "bad" \/ gr.k = "bad" THEN [k |-> "bad"]
          ELSE IF gl.k = "free" \/ gr.k = "free" THEN [k |-> "free"]
          ELSE IF Len(gl.b) + Len(gr.b) > 14 THEN [k |-> "bad"]
          ELSE [k |-> "ok", b |-> gl.b \o Zeros(16 - Len(gl.b) - Len(gr.b)) \o gr.b]

\* address token of a v1 line -> [k |-> "v4" | "v6" | "free" | "bad", b |-> 16 bytes]
IsIpChar(b) == IsHex(b) \/ b = 46 \/ b = 58
ParseAddr(t) ==
  IF t = <<>> \/ ~AllIn(t, IsIpChar) THEN [k |-> "bad"]
  ELSE IF IndexFrom(t, 58, 1) # 0 THEN
       LET r == ParseV6(t) IN
       IF r.k = "ok" THEN (IF IsMapped(r.b) THEN [k |-> "free"] ELSE [k |-> "v6", b |-> r.b]) ELSE r
  ELSE IF AllIn(t, LAMBDA b : IsDigit(b) \/ b = 46) THEN
       LET q == ParseQuad(t) IN IF q.k = "ok" THEN [k |-> "v4", b |-> Mapped4(q.b)] ELSE q
  ELSE [k |-> "free"]      \* hex letters without a colon: a host name, outside the statement (DESIGN 6.3 C38)

\* ------------------------------------------------------------------------------------------------ version 1
Str_UNKNOWN == <<85, 78, 75, 78, 79, 87, 78>>
Str_TCP == <<84, 67, 80>>
V1Addrs(t, fam, cp) ==
  LET tok == SplitBy(t, SP) IN
  IF Len(tok) # 4 THEN Rej(cp)
  ELSE LET a1 == ParseAddr(tok[1])
           a2 == ParseAddr(tok[2])
           p1 == ParsePort(tok[3])
           p2 == ParsePort(tok[4])
           want == IF fam = 52 THEN "v4" ELSE "v6"
       IN IF a1.k = "bad" \/ a2.k = "bad" \/ p1.k = "bad" \/ p2.k = "bad" THEN Rej(cp)
          ELSE IF a1.k = "free" \/ a2.k = "free" \/ p1.k = "free" \/ p2.k = "free" THEN Free(cp)
          ELSE IF a1.k # want \/ a2.k # want THEN Rej(cp)                         \* family mismatch
          ELSE Hdr(cp, 1, 1, IF fam = 52 THEN "inet" ELSE "inet6", a1.b, a2.b, p1.v, p2.v, <<>>)
V1Line(int, cp) ==     \* int: the bytes between "PROXY" and CR
  IF int = <<>> \/ int[1] # SP THEN Rej(cp)
  ELSE LET r == Drop(int, 1) IN
       IF StartsWith(r, Str_UNKNOWN) THEN (IF Len(r) = 7 \/ r[8] = SP THEN HdrNoAddr(cp, 1, 1, "none") ELSE Free(cp))
       ELSE IF StartsWith(r, Str_TCP) /\ Len(r) >= 5 /\ r[4] \in {52, 54} /\ r[5] = SP THEN V1Addrs(Drop(r, 5), r[4], cp)
       ELSE Rej(cp)
MaxV1 == 107         \* "PROXY" .. CRLF inclusive
RECURSIVE FirstCR(_, _, _)
FirstCR(s, k, last) == IF k > last \/ k > Len(s) THEN 0 ELSE IF s[k] = CR THEN k ELSE FirstCR(s, k + 1, last)
V1(s) ==
  LET crp == FirstCR(s, 6, MaxV1 - 1) IN
  IF crp = 0 THEN (IF Len(s) >= MaxV1 THEN Rej(MaxV1) ELSE Need)              \* oversized line
  ELSE IF crp + 1 > Len(s) THEN Need
  ELSE IF s[crp + 1] # LF THEN Rej(crp + 1)
  ELSE V1Line(SubSeq(s, 6, crp - 1), crp + 1)

\* ------------------------------------------------------------------------------------------------ version 2
RECURSIVE TlvsRec(_)
\* <<ok, sequence of [t, v]>> ; a TLV that does not fit the block makes the block malformed
TlvsRec(b) ==
  IF b = <<>> THEN [ok |-> TRUE, l |-> <<>>]
  ELSE IF Len(b) < 3 THEN [ok |-> FALSE, l |-> <<>>]
  ELSE LET n == b[2] * 256 + b[3] IN
       IF Len(b) < 3 + n THEN [ok |-> FALSE, l |-> <<>>]
       ELSE LET r == TlvsRec(Drop(b, 3 + n)) IN
            [ok |-> r.ok, l |-> <<[t |-> b[1], v |-> SubSeq(b, 4, 3 + n)]>> \o r.l]
AddrLen(fam) == CASE fam = 1 -> 12 [] fam = 2 -> 36 [] fam = 3 -> 216 [] OTHER -> 0
V2(s) ==
  IF Len(s) < 16 THEN Need
  ELSE LET ver == s[13] \div 16
           cmd == s[13] % 16
           fam == s[14] \div 16
           proto == s[14] % 16
           len == s[15] * 256 + s[16]
           cp == 16 + len
       IN IF Len(s) < cp THEN Need
          ELSE IF ver # 2 \/ cmd > 1 \/ fam > 3 \/ proto > 2 THEN Rej(cp)
          ELSE LET blk == SubSeq(s, 17, cp) IN
               IF fam = 0 \/ proto = 0 THEN HdrNoAddr(cp, 2, cmd, IF cmd = 0 THEN "local" ELSE "none")
               ELSE IF cmd = 0 THEN (IF len >= AddrLen(fam) THEN HdrNoAddr(cp, 2, 0, "local") ELSE Free(cp))
               ELSE IF len < AddrLen(fam) THEN Rej(cp)
               ELSE LET tl == TlvsRec(Drop(blk, AddrLen(fam))) IN
                    IF ~tl.ok THEN Rej(cp)
                    ELSE IF fam = 1 THEN Hdr(cp, 2, 1, "inet", Mapped4(SubSeq(blk, 1, 4)), Mapped4(SubSeq(blk, 5, 8)),
                                             blk[9] * 256 + blk[10], blk[11] * 256 + blk[12], tl.l)
                    ELSE IF fam = 2 THEN Hdr(cp, 2, 1, "inet6", SubSeq(blk, 1, 16), SubSeq(blk, 17, 32),
                                             blk[33] * 256 + blk[34], blk[35] * 256 + blk[36], tl.l)
                    ELSE Hdr(cp, 2, 1, "unix", Zeros(16), Zeros(16), 0, 0, tl.l)

\* ------------------------------------------------------------------------------------------------ entry
Decode(s) ==
  IF StartsWith(s, Magic2) THEN V2(s)
  ELSE IF StartsWith(s, Magic1) THEN V1(s)
  ELSE IF Len(s) >= Len(Magic2) THEN Rej(Len(Magic2))         \* neither magic: not a PROXY header
  ELSE Need

\* ------------------------------------------------------------------------------------------------ reference encoder
Byte2(n) == <<n \div 256, n % 256>>
RECURSIVE DecStr(_)
DecStr(n) == IF n < 10 THEN <<48 + n>> ELSE DecStr(n \div 10) \o <<48 + (n % 10)>>
HexDigit(v) == IF v < 10 THEN 48 + v ELSE 87 + v
RECURSIVE HexStr(_)
HexStr(n) == IF n < 16 THEN <<HexDigit(n)>> ELSE HexStr(n \div 16) \o <<HexDigit(n % 16)>>
QuadStr(q) == DecStr(q[1]) \o <<46>> \o DecStr(q[2]) \o <<46>> \o DecStr(q[3]) \o <<46>> \o DecStr(q[4])
\* full (uncompressed) IPv6 text of 16 bytes
V6Str(b) == LET g(j) == HexStr(b[2 * j - 1] * 256 + b[2 * j]) IN
            g(1) \o <<58>> \o g(2) \o <<58>> \o g(3) \o <<58>> \o g(4) \o <<58>> \o g(5) \o <<58>> \o g(6) \o <<58>> \o g(7) \o <<58>> \o g(8)
AddrStr(mode, b) == IF mode = "inet" THEN QuadStr(SubSeq(b, 13, 16)) ELSE V6Str(b)
RECURSIVE EncTlvs(_)
EncTlvs(l) == IF l = <<>> THEN <<>> ELSE <<l[1].t>> \o Byte2(Len(l[1].v)) \o l[1].v \o EncTlvs(Tail(l))
\* h: a record as produced by Hdr() (cp ignored).  proto: transport nibble for v2 (1 or 2); pad: bytes of an ignored block
EncodeV1(h) ==
  Magic1 \o <<SP>> \o
  (IF h.mode = "none" THEN Str_UNKNOWN
   ELSE Str_TCP \o <<IF h.mode = "inet" THEN 52 ELSE 54, SP>> \o AddrStr(h.mode, h.sa) \o <<SP>> \o AddrStr(h.mode, h.da)
        \o <<SP>> \o DecStr(h.sp) \o <<SP>> \o DecStr(h.dp)) \o <<CR, LF>>
EncodeV2(h, proto, pad) ==
  LET fam == CASE h.mode = "inet" -> 1 [] h.mode = "inet6" -> 2 [] h.mode = "unix" -> 3 [] OTHER -> 0
      blk == CASE h.mode = "inet" -> SubSeq(h.sa, 13, 16) \o SubSeq(h.da, 13, 16) \o Byte2(h.sp) \o Byte2(h.dp) \o EncTlvs(h.tlvs)
               [] h.mode = "inet6" -> h.sa \o h.da \o Byte2(h.sp) \o Byte2(h.dp) \o EncTlvs(h.tlvs)
               [] h.mode = "unix" -> Zeros(216) \o EncTlvs(h.tlvs)
               [] OTHER -> pad
  IN Magic2 \o <<32 + h.cmd, fam * 16 + (IF fam = 0 THEN 0 ELSE proto)>> \o Byte2(Len(blk)) \o blk
====
