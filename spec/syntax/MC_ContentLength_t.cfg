CONSTANTS Family = "clen" MaxFields = 0 MaxValues = 3
INIT Init
NEXT Next
INVARIANT Laws
CHECK_DEADLOCK FALSE
