---- MODULE RequestLine ----
(* C22, P-layer: the request-line grammar as a recogniser with field extraction.

   A "line" is the byte string in front of the first LF (the LF itself excluded).

   Full(l)    RFC 9112 section 3:  request-line = method SP request-target SP HTTP-version (CR before the LF)
                method         = token = 1*tchar, at most MaxMethod octets (Squid's stated limit)
                request-target = 1*uri-char, at most MaxUri octets (Squid's stated limit).  The inner structure of the
                                 target (origin-form / absolute-form / authority-form / "*") is the business of URI parsing
                                 (property C30); here the target is a non-empty string of RFC 3986 characters.
                HTTP-version   = "HTTP/" DIGIT "." DIGIT
   Simple(l)  RFC 1945 section 4.1 / 5:  Simple-Request = "GET" SP Request-URI (CR before the LF), reported as HTTP/0.9.
              RFC 9112 has no such production; Squid supports it on purpose in both parser modes (its unit tests pin
              "GET /" CRLF as an accepted HTTP/0.9 request in strict mode), so the property leaves acceptance of a line that
              matches only Simple open, but whatever is accepted as HTTP/0.9 must be exactly such a line.
   Tolerant(l) what relaxed_header_parser documents on top: 1*( SP / HTAB / VT / FF / CR ) as delimiters, any number
              of CR before the LF, the relaxed request-target alphabet (which contains the delimiters), and the
              Simple-Request form for GET.  (Leading empty lines are removed before a line is looked at: SkipEmptyLines.) *)
EXTENDS HttpChars
MaxMethod == 32
MaxUri == 65536   \* String::RawSizeMaxXXX(), "64 KiB"
NoMatch == [ok |-> FALSE]
Fields(m, t, ma, mi) == [ok |-> TRUE, method |-> m, target |-> t, major |-> ma, minor |-> mi]

\* " HTTP/" DIGIT "." DIGIT CR   (10 octets)
IsVersionTail(x) == /\ Len(x) = 10 /\ x[1] = SP /\ SubSeq(x, 2, 6) = HTTPSLASH
                    /\ x[7] \in DIGIT /\ x[8] = 46 /\ x[9] \in DIGIT /\ x[10] = CR

\* common front: method SP target, then `tail`
Front3(l) == LET m == Span(l, TCHAR) IN
  IF m = 0 \/ m > MaxMethod \/ m + 1 > Len(l) \/ l[m + 1] # SP THEN NoMatch
  ELSE LET r == Drop(l, m + 1)
           t == Span(r, URICHAR) IN
       IF t = 0 \/ t > MaxUri THEN NoMatch
       ELSE [ok |-> TRUE, method |-> Take(l, m), target |-> Take(r, t), tail |-> Drop(r, t)]

Full(l) == LET f == Front3(l) IN
  IF f.ok /\ IsVersionTail(f.tail) THEN Fields(f.method, f.target, f.tail[7] - 48, f.tail[9] - 48) ELSE NoMatch

Simple(l) == LET f == Front3(l) IN
  IF f.ok /\ f.tail = <<CR>> /\ f.method = GETNAME THEN Fields(f.method, f.target, 0, 9) ELSE NoMatch

\* ---- tolerant grammar (acceptance only) ----
IsVersionToken(x) == Len(x) = 8 /\ SubSeq(x, 1, 5) = HTTPSLASH /\ x[6] \in DIGIT /\ x[7] = 46 /\ x[8] \in DIGIT
Tolerant(l) ==
  LET m == Span(l, TCHAR)
      d == Span(Drop(l, m), RELAXEDDELIM)
      r0 == Drop(l, m + d)
      r == DropBack(r0, SpanBack(r0, {CR}))                \* any number of CR before the LF
      isGet == UpperSeq(Take(l, m)) = GETNAME             \* relaxed mode reads method names case-insensitively
      targetOk(t) == Len(t) >= 1 /\ Len(t) <= MaxUri /\ Span(t, RELAXEDTARGET) = Len(t)
      versioned == /\ Len(r) >= 10
                   /\ IsVersionToken(SubSeq(r, Len(r) - 7, Len(r)))
                   /\ LET b == DropBack(r, 8)
                          d2 == SpanBack(b, RELAXEDDELIM) IN
                      d2 >= 1 /\ targetOk(DropBack(b, d2))
  IN /\ m >= 1 /\ m <= MaxMethod /\ d >= 1
     /\ (versioned \/ (isGet /\ targetOk(r)))

\* leading empty lines ( *( [CR] LF ) ) that a tolerant server ignores in front of a request-line (RFC 9112 section 2.2)
RECURSIVE EmptyLinesLen(_, _)
EmptyLinesLen(s, k) == IF k <= Len(s) /\ s[k] = LF THEN EmptyLinesLen(s, k + 1)
                       ELSE IF k + 1 <= Len(s) /\ s[k] = CR /\ s[k + 1] = LF THEN EmptyLinesLen(s, k + 2)
                       ELSE k - 1

\* ---- the property, given what the parser reported for an input w ----
\* out: [o |-> "ok"|"err"|"more", method, uri, major, minor ...]; `w` is the whole input, `relaxed` the configured mode.
LineOf(w, skip) == LET b == Drop(w, skip)
                       p == IndexOf(b, LF) IN
                   IF p = 0 THEN [has |-> FALSE] ELSE [has |-> TRUE, l |-> Take(b, p - 1)]

SameFields(out, f) == out.method = f.method /\ out.uri = f.target /\ out.major = f.major /\ out.minor = f.minor

\* strict mode: accepted as an HTTP/x.y request exactly when the line matches Full, with the grammar's fields;
\* accepted as HTTP/0.9 only when it matches Simple (and not Full), with the grammar's fields.
StrictOk(w, out) ==
  LET ln == LineOf(w, 0) IN
  IF ~ln.has THEN out.o # "ok"                                   \* nothing may be accepted before a line is complete
  ELSE LET f == Full(ln.l)
           s == Simple(ln.l) IN
       IF f.ok THEN out.o = "more" \/ (out.o = "ok" /\ SameFields(out, f)) \/ (out.o = "err" /\ out.status \in {414, 431})
       ELSE IF out.o = "ok" THEN s.ok /\ SameFields(out, s)
       ELSE TRUE
\* ("more": the header block behind a valid line is still incomplete; 414/431: request_header_max_size, property C62.)

\* relaxed mode: whatever is accepted matches the tolerant grammar
RelaxedOk(w, out) ==
  out.o = "ok" =>
    LET ln == LineOf(w, EmptyLinesLen(w, 1)) IN ln.has /\ Tolerant(ln.l)
====
