INIT Init
NEXT Next
INVARIANTS IpPortLaw ProtoLaw
CHECK_DEADLOCK FALSE
