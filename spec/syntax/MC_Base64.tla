---- MODULE MC_Base64 ----
(* Standalone model check of Base64.tla: laws of the specification itself on a bounded domain.
   kind "rt":  every byte string of length <= 2 (complete) and length 3 over Rep3:  Canonical(Encode(s)), Value(Encode(s)) = s,
               length formulas, the output promise, and the I-layer automaton agrees.
   kind "dec": every string over DecAlpha up to DecLen: the automaton (I) accepts only what the strict reading (P) does not call
               malformed - except, for the linked library ("used") only, the triple-padding quirk - and computes
               the P value; canonical texts are accepted. *)
EXTENDS Base64, TLC
Rep3 == {0, 1, 3, 4, 15, 16, 63, 64, 127, 128, 191, 192, 251, 252, 254, 255}
DecAlpha == {65, 81, 47, 61, 32, 42, 122}     \* A Q / = SP * z
DecLen == 5
VARIABLES kind, s, part
\* 16 seed states; each worker expands one share of the domain (the invariants are evaluated on the successors in parallel)
Share(x, p) == (IF Len(x) = 0 THEN 0 ELSE x[Len(x)]) % 16 = p
Init == kind = "seed" /\ s = <<>> /\ part \in 0..15
Next == /\ kind = "seed" /\ part' = part
        /\ \/ kind' = "rt" /\ s' \in {x \in UNION {[1..k -> 0..255] : k \in 0..2} : Share(x, part)}
           \/ kind' = "rt" /\ s' \in {x \in [1..3 -> Rep3] : Share(x, part)}
           \/ kind' = "dec" /\ s' \in {x \in UNION {[1..k -> DecAlpha] : k \in 0..DecLen} : Share(x, part)}
RoundTrip == kind = "rt" => LET e == Encode(s) IN
               /\ Len(e) = EncodeRawLength(Len(s))
               /\ Canonical(e) /\ ~Malformed(e)
               /\ Value(e) = s
               /\ Len(s) <= DecodeLength(Len(e))
               /\ \A impl \in {"own", "used"} : Automaton(impl, e).ok /\ Automaton(impl, e).out = s
TriplePad(e) == Pads(Strip(e)) = 3
Decoders == kind = "dec" => \A impl \in {"own", "used"} : LET r == Automaton(impl, s) IN
               /\ Len(r.out) <= DecodeLength(Len(s))
               /\ (Canonical(s) => r.ok /\ r.out = Value(s))
               /\ (r.ok => (~Malformed(s) \/ (impl = "used" /\ TriplePad(s))))      \* "own" accepts nothing malformed
               /\ (r.ok /\ ~Malformed(s) => r.out = Value(Strip(s)))
ASSUME Encode(<<77, 97, 110>>) = <<84, 87, 70, 117>>                       \* "Man" -> "TWFu"  (RFC 4648)
ASSUME Encode(<<102, 111, 111, 98>>) = <<90, 109, 57, 118, 89, 103, 61, 61>>   \* "foob" -> "Zm9vYg=="
ASSUME Encode(<<>>) = <<>> /\ Canonical(<<>>)
ASSUME Nettle(<<65, 61, 61, 61>>).ok /\ ~Own(<<65, 61, 61, 61>>).ok /\ Own(<<81, 81, 61, 61>>).ok      \* "A===", "QQ=="
ASSUME Malformed(<<65, 61, 61, 61>>) /\ Malformed(<<81, 81>>) /\ Malformed(<<81, 81, 61>>) /\ Malformed(<<81, 81, 61, 61, 81, 81, 61, 61>>)
ASSUME ~Canonical(<<81, 82, 61, 61>>) /\ ~Malformed(<<81, 82, 61, 61>>)      \* "QR==": non-zero padding bits
ASSUME SplitBasic(<<97, 58, 98, 58, 99>>) = [user |-> <<97>>, haspw |-> TRUE, pw |-> <<98, 58, 99>>]
ASSUME SplitBasic(<<97>>) = [user |-> <<97>>, haspw |-> FALSE, pw |-> <<>>]
ASSUME CredPart(<<66, 97, 115, 105, 99, 32, 32, 81, 81, 61, 61>>) = <<81, 81, 61, 61>>
====
