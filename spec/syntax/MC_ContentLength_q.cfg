CONSTANTS Family = "clen" MaxFields = 0 MaxValues = 2
INIT Init
NEXT Next
INVARIANT Laws
CHECK_DEADLOCK FALSE
