CONSTANTS MaxPos = 5 MaxLen = 5 MaxSpecs = 3
INIT Init
NEXT Next
INVARIANT Laws
CHECK_DEADLOCK FALSE
