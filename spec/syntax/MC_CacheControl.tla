---- MODULE MC_CacheControl ----
(* Standalone model check of the C29 reference: over every list of <= MaxDirs directive texts from the element set named
   by env ELEMS (ndjson, {"e":[bytes]}), joined with ", " :
     Parse(Pack(Parse(v))) = Parse(v),  Allowed(v, Parse(v)),  Allowed(Pack(Parse(v)), Parse(v))   *)
EXTENDS CacheControl, Json, IOUtils
CONSTANT MaxDirs
Elems == ndJsonDeserialize(IOEnv.ELEMS)
NE == Len(Elems)
VARIABLES pick, done
Init == pick \in [1..1 -> 1..NE] /\ done = FALSE
Next == /\ ~done
        /\ done' = TRUE
        /\ pick' \in {pick} \cup UNION {{pick \o t : t \in [1..n -> 1..NE]} : n \in 1..(MaxDirs - 1)}
Value == Join([j \in 1..Len(pick) |-> Elems[pick[j]].e])
Laws == LET v == Value
            c == Parse(v)
            s == Pack(c) IN
        /\ Parse(s) = c
        /\ Allowed(v, c)
        /\ Allowed(s, c)
====
