---- MODULE MC_StatusLine ----
(* Model check of the status-line specification itself.  States are token sequences (class representatives, some of them
   several fields long so that complete heads are reached within MaxTok tokens).  On every state, for both modes:
     PrefixLaw    while the last token is appended byte by byte, an outcome of RespHead that is not "more" never changes again
                  (reply_header_max_size not hit);
     GrammarLaw   a status line of the strict grammar is one of the relaxed grammar with the same fields; what RespHead accepts
                  obeys StatusOk (three digits 100..599, fields of the grammar, HTTP/0.9 exactly for non-magic starts). *)
EXTENDS StatusLine, TLC
CONSTANTS MaxTok
Big == 100000
Tokens == { <<72, 84, 84, 80, 47, 49, 46, 49, SP>>,   \* "HTTP/1.1 "
            <<73, 67, 89, SP>>,                       \* "ICY "
            <<72, 84>>,                               \* "HT"  (a proper prefix of the magic)
            <<50, 48, 48, SP>>,                       \* "200 "
            <<50, 48, 48>>,                           \* "200"
            <<57, 57, SP>>,                           \* "99 "
            <<54, 48, 48, SP>>,                       \* "600 "
            <<79, 75>>,                               \* "OK"
            <<CR, LF>>, <<LF>>, <<CR>>, <<HTAB>>,
            <<0>>,                                    \* NUL
            <<65, 58, 98>> }                          \* "A:b"
VARIABLES toks
Init == toks = <<>>
Next == Len(toks) < MaxTok /\ \E t \in Tokens : toks' = Append(toks, t)
Flat(ts) == FoldLeft(LAMBDA acc, t : acc \o t, <<>>, ts)
PrefixLawFor(relaxed) ==
  toks # <<>> =>
    LET w0 == Flat(SubSeq(toks, 1, Len(toks) - 1))
        t == toks[Len(toks)] IN
    \A n \in 1..Len(t) :
      LET a == RespHead(w0 \o SubSeq(t, 1, n - 1), relaxed, Big)
          b == RespHead(w0 \o SubSeq(t, 1, n), relaxed, Big) IN
      a.o # "more" => RSame(a, b)
PrefixLaw == PrefixLawFor(0) /\ PrefixLawFor(1)
GrammarLaw ==
  LET w == Flat(toks)
      fs == StatusFields(w, 0)
      fr == StatusFields(w, 1) IN
  /\ fs.ok => fr = fs
  /\ StatusOk(w, 0, RespHead(w, 0, Big))
  /\ StatusOk(w, 1, RespHead(w, 1, Big))
  /\ (fs.ok /\ HeadersEnd(Drop(w, fs.len)) > 0) => RespHead(w, 0, Big).o = "ok"
\* vacuity probe (by hand: must be VIOLATED)
ProbeAccept == ~(RespHead(Flat(toks), 0, Big).o = "ok" /\ RespHead(Flat(toks), 0, Big).consumed > 0)
====
