INIT Init
NEXT Next
INVARIANTS RoundTrip DecodersAgree
CHECK_DEADLOCK FALSE
