---- MODULE CacheControlImpl ----
(* C29 I-layer: HttpHdrCc::parse / packInto as they behave TODAY, item by item (strListGetItem), with the named
   deviations from CacheControl (the P-layer):
     D1 (F11) numeric arguments are read by strtol(): leading blanks, a '+' sign and trailing bytes are tolerated
              (max-age=10abc is 10); a value that does not fit int is refused (fixed in d29e490)
     D2       httpHeaderParseQuotedString ignores bytes after the closing quote (private="a"junk is a); quoted-pairs are
              decoded (c6b45d4) and HTAB is qdtext (80162f8) as in the P-layer
     D3       (repaired in b77771c) packInto escapes DQUOTE and backslash in private="..." / no-cache="..."
     D4       unknown directives are collected in `other` but do not make parse() return true
   State while parsing: [f, n, l] as in CacheControl plus other (bytes). *)
EXTENDS CacheControl, SynCList, IntParse
TypeOf(name) == LET lo == LowerSeq(name)
                    hit == {d \in DOMAIN NameBytes : NameBytes[d] = lo} IN
                IF hit = {} THEN "other" ELSE CHOOSE d \in hit : TRUE
\* httpHeaderParseInt(arg) followed by the "< 0" test of the caller: [ok, v]
IInt(arg) == LET r == IntRef(arg) IN
             IF ~r.ok THEN [ok |-> FALSE, v |-> 0]
             ELSE IF r.mag = <<>> /\ ~(Len(arg) > 0 /\ IsDigit(arg[1])) THEN [ok |-> FALSE, v |-> 0]
             ELSE IF r.neg THEN [ok |-> FALSE, v |-> 0]
             ELSE [ok |-> TRUE, v |-> W2N(r.mag)]
RECURSIVE RunEnd(_, _)
RunEnd(a, e) == IF e <= Len(a) /\ a[e] # 92 /\ a[e] # 34 /\ (a[e] > 31 \/ a[e] = 9) /\ a[e] # 127 THEN RunEnd(a, e + 1) ELSE e
RECURSIVE IQ(_, _, _)
IQ(a, i, acc) ==
  IF i > Len(a) THEN [ok |-> FALSE, v |-> <<>>]
  ELSE IF a[i] = 34 THEN [ok |-> TRUE, v |-> acc]
  ELSE LET j == IF a[i] = 92 THEN i + 1 ELSE i IN
       IF j > Len(a) THEN [ok |-> FALSE, v |-> <<>>]
       ELSE IF a[i] = 92 /\ a[j] \in {34, 92} THEN IQ(a, j + 1, Append(acc, a[j]))      \* quoted-pair of a special byte
       ELSE LET e == RunEnd(a, j) IN
            IF e <= Len(a) /\ ((a[e] <= 31 /\ a[e] # 9) \/ a[e] = 127) THEN [ok |-> FALSE, v |-> <<>>]
            ELSE IQ(a, e, acc \o SubSeq(a, j, e - 1))
IQuoted(a) == IF Len(a) = 0 \/ a[1] # 34 THEN [ok |-> FALSE, v |-> <<>>] ELSE IQ(a, 2, <<>>)

Empty == [f |-> [d \in Flags |-> FALSE], n |-> [d \in Nums |-> Absent], l |-> [d \in Lists |-> AbsentL], other |-> <<>>]
IsSet(c, d) == IF d \in Flags THEN c.f[d] ELSE IF d \in Nums THEN c.n[d].has ELSE c.l[d].has
Step(c, item) ==
  LET p == FirstEq(item, 1)
      name == IF p = 0 THEN item ELSE SubSeq(item, 1, p - 1)
      arg == IF p = 0 THEN <<>> ELSE SubSeq(item, p + 1, Len(item))
      d == TypeOf(name) IN
  IF d = "other" THEN [c EXCEPT !.other = IF c.other = <<>> THEN item ELSE c.other \o <<44, 32>> \o item]
  ELSE IF IsSet(c, d) THEN c
  ELSE IF d \in Flags THEN [c EXCEPT !.f[d] = TRUE]
  ELSE IF d \in Nums THEN
       LET r == IF p = 0 THEN [ok |-> FALSE, v |-> 0] ELSE IInt(arg) IN
       IF r.ok THEN [c EXCEPT !.n[d] = [has |-> TRUE, v |-> r.v]]
       ELSE IF d = "max-stale" THEN [c EXCEPT !.n[d] = [has |-> TRUE, v |-> AnyStale]]
       ELSE c
  ELSE LET q == IQuoted(arg) IN
       IF p = 0 THEN [c EXCEPT !.l[d] = [has |-> TRUE, v |-> <<>>]]
       ELSE IF q.ok THEN [c EXCEPT !.l[d] = [has |-> TRUE, v |-> q.v]]
       ELSE IF d = "private" THEN [c EXCEPT !.l[d] = [has |-> TRUE, v |-> <<>>]]
       ELSE c
RECURSIVE Fold(_, _)
Fold(c, items) == IF items = <<>> THEN c ELSE Fold(Step(c, Head(items)), Tail(items))
IParse(v) == Fold(Empty, StrListItems(v, 44))
IRet(c) == \E d \in Flags \cup Nums \cup Lists : IsSet(c, d)

IPackOne(c, d) ==
  IF d \in Flags THEN (IF c.f[d] THEN <<NameBytes[d]>> ELSE <<>>)
  ELSE IF d \in Nums THEN (IF ~c.n[d].has THEN <<>>
                           ELSE IF d = "max-stale" /\ c.n[d].v = AnyStale THEN <<NameBytes[d]>>
                           ELSE <<NameBytes[d] \o <<61>> \o Dec(c.n[d].v)>>)
  ELSE (IF ~c.l[d].has THEN <<>>
        ELSE IF c.l[d].v = <<>> THEN <<NameBytes[d]>>
        ELSE <<NameBytes[d] \o <<61, 34>> \o QEsc(c.l[d].v) \o <<34>>>>)
RECURSIVE IPackFrom(_, _)
IPackFrom(c, k) == IF k > Len(Order) THEN <<>> ELSE IPackOne(c, Order[k]) \o IPackFrom(c, k + 1)
IPack(c) == IF ~IRet(c) THEN <<>>
            ELSE Join(IPackFrom(c, 1) \o (IF c.other = <<>> THEN <<>> ELSE <<c.other>>))
====
