CONSTANT MaxDirs = 2
INIT Init
NEXT Next
INVARIANT Laws
CHECK_DEADLOCK FALSE
