\* needs env ELEMS = ndjson file of directive texts {"e":[bytes]} (written by checks/C29.py, which also generates the per-tier cfg)
CONSTANT MaxDirs = 2
INIT Init
NEXT Next
INVARIANT Laws
CHECK_DEADLOCK FALSE
