---- MODULE TraceLib ----
(* Glue for trace validation.  The file named by env TRACE is ndjson; every line is one recorded
   execution (history) of the implementation: a record with a field "ev" (sequence of event
   records) and optional header fields.  A trace module extends the property/implementation layer,
   starts one behaviour per history (h is chosen in Init) and consumes ev one event per step.
   Acceptance is per history: when position l passes the end, register h is set; the POSTCONDITION
   AllAccepted fails and prints the rejected history numbers otherwise.  Needs -workers 1
   (TLC registers are per worker). *)
EXTENDS Naturals, Sequences, TLC, Json, IOUtils
Tr == ndJsonDeserialize(IOEnv.TRACE)
NHist == Len(Tr)
ASSUME \A i \in 1..NHist : TLCSet(i, FALSE)
Events(h) == Tr[h].ev
MarkAccepted(h, l) == (l = Len(Tr[h].ev) + 1) => TLCSet(h, TRUE)
Rejected == {i \in 1..NHist : ~TLCGet(i)}
AllAccepted == IF Rejected = {} THEN TRUE ELSE PrintT(<<"REJECTED", Rejected>>) /\ FALSE
====
