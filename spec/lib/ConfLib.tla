---- MODULE ConfLib ----
(* Function conformance (technique T3): env TRACE names an ndjson file with one evaluated case per line
   (input fields + what the implementation returned).  A Conf_X module defines CaseOk (P-layer: the property)
   and ImplOk (I-layer: the code's exact behaviour today) as predicates of Cases[i]; TLC makes one state per case
   (spread over NChunks parents so that workers share the load) and checks both as invariants with -continue,
   so every rejected case is reported with its index i. *)
EXTENDS Naturals, Sequences, TLC, Json, IOUtils
Cases == ndJsonDeserialize(IOEnv.TRACE)
NCases == Len(Cases)
NChunks == 16
VARIABLES c, i
ConfInit == c \in 0..(NChunks - 1) /\ i = 0
ConfNext == i = 0 /\ i' \in {k \in 1..NCases : k % NChunks = c} /\ c' = c
====
