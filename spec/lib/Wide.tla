---- MODULE Wide ----
(* Arbitrary-precision naturals as little-endian sequences of decimal digits (TLC integers are 32 bit).
   <<>> is zero; normal form has no most-significant zeros. *)
EXTENDS Naturals, Sequences
RECURSIVE Norm(_)
Norm(a) == IF Len(a) > 0 /\ a[Len(a)] = 0 THEN Norm(SubSeq(a, 1, Len(a) - 1)) ELSE a
RECURSIVE MulAddRec(_, _, _, _)
\* a * m + carry, digit by digit from position k
MulAddRec(a, m, carry, k) ==
  IF k > Len(a) THEN (IF carry = 0 THEN <<>> ELSE <<carry % 10>> \o MulAddRec(a, m, carry \div 10, k))
  ELSE LET v == a[k] * m + carry IN <<v % 10>> \o MulAddRec(a, m, v \div 10, k + 1)
MulAdd(a, m, d) == Norm(MulAddRec(a, m, d, 1))
RECURSIVE CmpRec(_, _, _)
CmpRec(a, b, k) == IF k = 0 THEN 0 ELSE IF a[k] < b[k] THEN 0 - 1 ELSE IF a[k] > b[k] THEN 1 ELSE CmpRec(a, b, k - 1)
\* -1, 0, 1 for normalised a, b
Cmp(a, b) == IF Len(a) < Len(b) THEN 0 - 1 ELSE IF Len(a) > Len(b) THEN 1 ELSE CmpRec(a, b, Len(a))
Leq(a, b) == Cmp(a, b) <= 0
RECURSIVE AddRec(_, _, _, _)
AddRec(a, b, carry, k) ==
  IF k > Len(a) /\ k > Len(b) THEN (IF carry = 0 THEN <<>> ELSE <<carry>>)
  ELSE LET x == IF k <= Len(a) THEN a[k] ELSE 0
           y == IF k <= Len(b) THEN b[k] ELSE 0
           v == x + y + carry
       IN <<v % 10>> \o AddRec(a, b, v \div 10, k + 1)
Add(a, b) == Norm(AddRec(a, b, 0, 1))
\* a - b for a >= b
RECURSIVE SubRec(_, _, _, _)
SubRec(a, b, borrow, k) ==
  IF k > Len(a) THEN <<>>
  ELSE LET y == (IF k <= Len(b) THEN b[k] ELSE 0) + borrow
           v == IF a[k] >= y THEN a[k] - y ELSE a[k] + 10 - y
       IN <<v>> \o SubRec(a, b, IF a[k] >= y THEN 0 ELSE 1, k + 1)
Sub(a, b) == Norm(SubRec(a, b, 0, 1))
RECURSIVE FromNat(_)
FromNat(n) == IF n = 0 THEN <<>> ELSE <<n % 10>> \o FromNat(n \div 10)
\* big-endian decimal digit sequence (as written) -> little-endian normal form
RECURSIVE Rev(_)
Rev(s) == IF s = <<>> THEN <<>> ELSE Rev(Tail(s)) \o <<Head(s)>>
FromBE(s) == Norm(Rev(s))
Max63 == FromBE(<<9,2,2,3,3,7,2,0,3,6,8,5,4,7,7,5,8,0,7>>)      \* 2^63 - 1
Pow63 == FromBE(<<9,2,2,3,3,7,2,0,3,6,8,5,4,7,7,5,8,0,8>>)      \* 2^63
Max64 == FromBE(<<1,8,4,4,6,7,4,4,0,7,3,7,0,9,5,5,1,6,1,5>>)    \* 2^64 - 1
Max31 == FromBE(<<2,1,4,7,4,8,3,6,4,7>>)
Pow31 == FromBE(<<2,1,4,7,4,8,3,6,4,8>>)
FitsInt64(neg, mag) == IF neg THEN Leq(mag, Pow63) ELSE Leq(mag, Max63)
FitsInt32(neg, mag) == IF neg THEN Leq(mag, Pow31) ELSE Leq(mag, Max31)
====
