---- MODULE MC_QueueImpl ----
EXTENDS QueueImpl
One == <<0>>
Two == <<0, 2>>
====
