SPECIFICATION Spec
CONSTANTS ProdSeq <- One  Cap = 4  K = 5  Eager = FALSE
INVARIANTS TypeOK Fifo NoPhantom SizeOk NoLostWakeup IdleBlocked NotifyJustified

CHECK_DEADLOCK FALSE

ACTION_CONSTRAINT Dump
