SPECIFICATION FairSpec
CONSTANTS ProdSeq <- Two  Cap = 2  K = 3  Eager = FALSE
INVARIANTS TypeOK Fifo NoPhantom SizeOk NoLostWakeup IdleBlocked
PROPERTY AllDelivered
CHECK_DEADLOCK FALSE

