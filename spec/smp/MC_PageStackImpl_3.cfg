SPECIFICATION Spec
CONSTANTS p1 = p1  p2 = p2  p3 = p3
CONSTANTS Proc = {p1, p2, p3}  H = 3  B = 1  InitFree = {0, 2, 3}  InitHeld <- HeldNone  MaxOps = 2
INVARIANTS TypeOK NoBad CountSound SizeExact Quiescent

CHECK_DEADLOCK FALSE
