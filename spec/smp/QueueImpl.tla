---- MODULE QueueImpl ----
(* I-layer for C56: Ipc::OneToOneUniQueue::push/pop + Ipc::QueueReader at the granularity of the
   schedule player: one action = one access to shared memory (an atomic, or the memcpy of a ring slot)
   plus the process-local code that follows it up to the next access.  Checked line by line against
   src/ipc/Queue.h:

     push(value, reader):   full()                       load theSize; Full exception when == theCapacity    PFull
                            pos = theIn++ % theCapacity   (process-local, same step as the load)
                            memcpy(theBuffer + pos, ..)  slot write                                          PCopy
                            wasEmpty = !theSize++        fetch_add; decision on its OLD value                PInc
                            reader->raiseSignal():
                              blocked()                  load popBlocked                                     PBlk
                              !popSignal.exchange(true)  "caller must notify" iff the old value was false    PXchg
     pop(value, reader):    empty()                      load theSize                                        CE1
                            reader->block()              store popBlocked = true                             CBlk
                            empty()                      second load; false/"E" when still empty             CE2
                            reader->unblock()            store popBlocked = false; pos = theOut++ % cap      CUnb
                            memcpy(&value, ...)          slot read                                           CRd
                            --theSize                    fetch_sub                                           CDec
     clearSignal():         unblock()                    store popBlocked = false                            CClr1
                            popSignal.store(false)                                                            CClr2
     QueueReader():         popBlocked(false), popSignal(false)     (the header comment says "blocked"; the code does not)

   BaseMultiQueue::pop visits the queues of all producers round-robin starting after the one visited
   last (theLastPopProcessId) and stops at the first queue whose pop succeeds; with one producer this is
   OneToOneUniQueue::pop itself.  The notification (a UDS message in squid) is the counter `note`: a
   push that returns true adds one, the consumer takes one when it calls clearReaderSignal (CBeginWake).

   Ghosts for the refinement QueueImpl => SpscQueue: `seen` (= seenEmpty of the P-layer: set by the second
   empty() load that reads 0, reset by the empty() load that reads non-zero = P-layer Unblock) and pMust (the
   P-layer's notification obligation evaluated at the push's linearization point, the fetch_add). *)
EXTENDS Naturals, Sequences, FiniteSets, TLC, Json
CONSTANTS ProdSeq,  \* producer ids in the order the consumer visits their queues: <<0>> or <<0, 2>>
          Cap,      \* ring capacity
          K,        \* every producer pushes K items (an item is retried after Full)
          Eager     \* TRUE: the consumer may handle a pending notification between two pops, not only when idle
VARIABLES theSize, buf, theIn, theOut, blocked, signal,       \* shared memory (theIn/theOut are used by one side only)
          ppc, pok, pres,                                      \* producers: pc, accepted pushes, last result
          cpc, last, tries, val, got, cres,                    \* consumer: pc, round-robin position, local copy, delivered items
          note, cIdle,                                         \* notification channel; consumer idle after "E"
          seen, pMust                                          \* ghosts
vars == <<theSize, buf, theIn, theOut, blocked, signal, ppc, pok, pres, cpc, last, tries, val, got, cres, note, cIdle, seen, pMust>>

N == Len(ProdSeq)
Prod == {ProdSeq[i] : i \in 1..N}
Base(a) == IF a = 0 THEN 0 ELSE 10
NextIdx(i) == (i % N) + 1
Slot(n) == (n % Cap) + 1            \* buf[a] is a sequence: slot index + 1

Init == /\ theSize = [a \in Prod |-> 0] /\ buf = [a \in Prod |-> [i \in 1..Cap |-> 0]]
        /\ theIn = [a \in Prod |-> 0] /\ theOut = [a \in Prod |-> 0]
        /\ blocked = FALSE /\ signal = FALSE
        /\ ppc = [a \in Prod |-> "idle"] /\ pok = [a \in Prod |-> 0] /\ pres = [a \in Prod |-> "none"]
        /\ cpc = "idle" /\ last = N /\ tries = 0 /\ val = 0 /\ got = [a \in Prod |-> <<>>] /\ cres = "none"
        /\ note = 0 /\ cIdle = FALSE
        /\ seen = {} /\ pMust = [a \in Prod |-> FALSE]

\* ---------------- producer a: push(Base(a) + pok[a] + 1) ----------------
PRet(a, r) == /\ ppc' = [ppc EXCEPT ![a] = "idle"] /\ pres' = [pres EXCEPT ![a] = r]
              /\ pok' = IF r = "full" THEN pok ELSE [pok EXCEPT ![a] = @ + 1]
PBegin(a) == /\ ppc[a] = "idle" /\ pok[a] < K
             /\ ppc' = [ppc EXCEPT ![a] = "full?"] /\ pres' = [pres EXCEPT ![a] = "none"] /\ pMust' = [pMust EXCEPT ![a] = FALSE]
             /\ UNCHANGED <<theSize, buf, theIn, theOut, blocked, signal, pok, cpc, last, tries, val, got, cres, note, cIdle, seen>>
PFull(a) == /\ ppc[a] = "full?"
            /\ IF theSize[a] = Cap
                 THEN PRet(a, "full") /\ UNCHANGED theIn
                 ELSE /\ theIn' = [theIn EXCEPT ![a] = @ + 1] /\ ppc' = [ppc EXCEPT ![a] = "copy"] /\ UNCHANGED <<pok, pres>>
            /\ UNCHANGED <<theSize, buf, theOut, blocked, signal, cpc, last, tries, val, got, cres, note, cIdle, seen, pMust>>
PCopy(a) == /\ ppc[a] = "copy"
            /\ buf' = [buf EXCEPT ![a][Slot(theIn[a] - 1)] = Base(a) + pok[a] + 1]
            /\ ppc' = [ppc EXCEPT ![a] = "inc"]
            /\ UNCHANGED <<theSize, theIn, theOut, blocked, signal, pok, pres, cpc, last, tries, val, got, cres, note, cIdle, seen, pMust>>
PInc(a) == /\ ppc[a] = "inc"
           /\ theSize' = [theSize EXCEPT ![a] = @ + 1]
           /\ pMust' = [pMust EXCEPT ![a] = (a \in seen /\ note = 0)]        \* P-layer obligation at the linearization point
           /\ IF theSize[a] = 0 THEN ppc' = [ppc EXCEPT ![a] = "blk?"] /\ UNCHANGED <<pok, pres>>
                                ELSE PRet(a, "ok")
           /\ UNCHANGED <<buf, theIn, theOut, blocked, signal, cpc, last, tries, val, got, cres, note, cIdle, seen>>
PBlk(a) == /\ ppc[a] = "blk?"
           /\ IF blocked THEN ppc' = [ppc EXCEPT ![a] = "xchg"] /\ UNCHANGED <<pok, pres>>
                         ELSE PRet(a, "ok")
           /\ UNCHANGED <<theSize, buf, theIn, theOut, blocked, signal, cpc, last, tries, val, got, cres, note, cIdle, seen, pMust>>
PXchg(a) == /\ ppc[a] = "xchg"
            /\ signal' = TRUE
            /\ IF signal THEN PRet(a, "ok") /\ UNCHANGED note
                         ELSE PRet(a, "okn") /\ note' = note + 1
            /\ UNCHANGED <<theSize, buf, theIn, theOut, blocked, cpc, last, tries, val, got, cres, cIdle, seen, pMust>>
Producer(a) == PBegin(a) \/ PFull(a) \/ PCopy(a) \/ PInc(a) \/ PBlk(a) \/ PXchg(a)

\* ---------------- consumer ----------------
Cur == ProdSeq[last]
CBeginPop == /\ cpc = "idle" /\ ~cIdle
             /\ cpc' = "e1" /\ tries' = 0 /\ cres' = "none"
             /\ UNCHANGED <<theSize, buf, theIn, theOut, blocked, signal, ppc, pok, pres, last, val, got, note, cIdle, seen, pMust>>
CE1 == /\ cpc = "e1"
       /\ LET l2 == IF tries = 0 THEN NextIdx(last) ELSE last
              a == ProdSeq[l2] IN
          /\ last' = l2 /\ tries' = IF tries = 0 THEN 1 ELSE tries
          /\ cpc' = IF theSize[a] = 0 THEN "blk" ELSE "unb"
          /\ seen' = IF theSize[a] = 0 THEN seen ELSE {}      \* P-layer Unblock: from here on this pop delivers an item
       /\ UNCHANGED <<theSize, buf, theIn, theOut, blocked, signal, ppc, pok, pres, val, got, cres, note, cIdle, pMust>>
CBlk == /\ cpc = "blk" /\ blocked' = TRUE /\ cpc' = "e2"
        /\ UNCHANGED <<theSize, buf, theIn, theOut, signal, ppc, pok, pres, last, tries, val, got, cres, note, cIdle, seen, pMust>>
CE2 == /\ cpc = "e2"
       /\ IF theSize[Cur] # 0
            THEN cpc' = "unb" /\ seen' = {} /\ UNCHANGED <<last, tries, cres, cIdle>>
            ELSE /\ seen' = seen \cup {Cur}
                 /\ IF tries = N
                      THEN cpc' = "idle" /\ cres' = "E" /\ cIdle' = TRUE /\ UNCHANGED <<last, tries>>
                      ELSE cpc' = "e1" /\ last' = NextIdx(last) /\ tries' = tries + 1 /\ UNCHANGED <<cres, cIdle>>
       /\ UNCHANGED <<theSize, buf, theIn, theOut, blocked, signal, ppc, pok, pres, val, got, note, pMust>>
CUnb == /\ cpc = "unb" /\ blocked' = FALSE /\ theOut' = [theOut EXCEPT ![Cur] = @ + 1] /\ cpc' = "rd"
        /\ UNCHANGED <<theSize, buf, theIn, signal, ppc, pok, pres, last, tries, val, got, cres, note, cIdle, seen, pMust>>
CRd == /\ cpc = "rd" /\ val' = buf[Cur][Slot(theOut[Cur] - 1)] /\ cpc' = "dec"
       /\ UNCHANGED <<theSize, buf, theIn, theOut, blocked, signal, ppc, pok, pres, last, tries, got, cres, note, cIdle, seen, pMust>>
CDec == /\ cpc = "dec" /\ theSize' = [theSize EXCEPT ![Cur] = @ - 1]
        /\ got' = [got EXCEPT ![Cur] = Append(@, val)] /\ cres' = "item" /\ cpc' = "idle"
        /\ UNCHANGED <<buf, theIn, theOut, blocked, signal, ppc, pok, pres, last, tries, val, note, cIdle, seen, pMust>>
CBeginWake == /\ cpc = "idle" /\ note > 0 /\ (cIdle \/ Eager)
              /\ note' = note - 1 /\ cIdle' = FALSE /\ cpc' = "clr1" /\ cres' = "none" /\ seen' = {}
              /\ UNCHANGED <<theSize, buf, theIn, theOut, blocked, signal, ppc, pok, pres, last, tries, val, got, pMust>>
CClr1 == /\ cpc = "clr1" /\ blocked' = FALSE /\ cpc' = "clr2"
         /\ UNCHANGED <<theSize, buf, theIn, theOut, signal, ppc, pok, pres, last, tries, val, got, cres, note, cIdle, seen, pMust>>
CClr2 == /\ cpc = "clr2" /\ signal' = FALSE /\ cpc' = "idle" /\ cres' = "T"
         /\ UNCHANGED <<theSize, buf, theIn, theOut, blocked, ppc, pok, pres, last, tries, val, got, note, cIdle, seen, pMust>>
Consumer == CBeginPop \/ CE1 \/ CBlk \/ CE2 \/ CUnb \/ CRd \/ CDec \/ CBeginWake \/ CClr1 \/ CClr2

Next == Consumer \/ \E a \in Prod : Producer(a)
Spec == Init /\ [][Next]_vars
FairSpec == Spec /\ WF_vars(Consumer) /\ \A a \in Prod : WF_vars(Producer(a))

\* ---------------- property layer ----------------
TypeOK == /\ \A a \in Prod : theSize[a] \in 0..Cap /\ pok[a] \in 0..K /\ theIn[a] \in 0..K /\ theOut[a] \in 0..K
          /\ note \in 0..(K * N) /\ last \in 1..N /\ tries \in 0..N
\* FIFO, no loss, no duplicates: the consumer has got a prefix of 1..K (plus the producer's base), in order
Fifo == \A a \in Prod : Len(got[a]) <= K /\ \A i \in 1..Len(got[a]) : got[a][i] = Base(a) + i
\* every delivered item was pushed before (its push has at least passed the fetch_add)
NoPhantom == \A a \in Prod : Len(got[a]) <= pok[a] + (IF ppc[a] \in {"blk?", "xchg"} THEN 1 ELSE 0)
\* theSize is the number of pushed and not yet popped items (counting pushes from their fetch_add, pops to their fetch_sub)
SizeOk == \A a \in Prod : theSize[a] = (pok[a] + (IF ppc[a] \in {"blk?", "xchg"} THEN 1 ELSE 0)) - Len(got[a])
\* no lost wakeup, on the code's own variables: the consumer found queue a empty, has not seen an item or
\* handled a notification since, and the queue holds items  =>  a notification is in flight, or the producer is between its size increment
\* and its signalling decision
NoLostWakeup == \A a \in Prod : (a \in seen /\ theSize[a] > 0) => (note > 0 \/ ppc[a] \in {"blk?", "xchg"})
\* the consumer sleeps only marked as blocked
IdleBlocked == cIdle => (blocked /\ seen = Prod)
\* refinement of SpscQueue!LinPush: plain "ok" only when the P-layer permits it at the linearization point
NotifyJustified == \A a \in Prod : ~(pres[a] = "ok" /\ pMust[a])
\* liveness (FairSpec): every item is eventually delivered
AllDelivered == <>(\A a \in Prod : Len(got[a]) = K)

\* ---------------- edge dump for T1 (ACTION_CONSTRAINT) ----------------
St(s, b, i, o, bl, sg, pp, po, pr, cp, la, tr, va, go, cr, no, ci) ==
  [theSize |-> s, buf |-> b, theIn |-> i, theOut |-> o, blocked |-> bl, signal |-> sg, ppc |-> pp, pok |-> po, pres |-> pr,
   cpc |-> cp, last |-> la, tries |-> tr, val |-> va, got |-> go, cres |-> cr, note |-> no, cIdle |-> ci]
Dump == PrintT(<<"EDGE", ToJson([s |-> St(theSize, buf, theIn, theOut, blocked, signal, ppc, pok, pres, cpc, last, tries, val, got, cres, note, cIdle),
                                 t |-> St(theSize', buf', theIn', theOut', blocked', signal', ppc', pok', pres', cpc', last', tries', val', got', cres', note', cIdle')])>>)
====
