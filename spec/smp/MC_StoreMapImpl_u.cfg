SPECIFICATION Spec
CONSTANTS Proc = {0, 1}  N = 3  Keys = {1}  MaxOps = 3  MaxW = 1  Spurious = TRUE
          Pre <- PreTwo
          Kinds <- UpdKinds
INVARIANTS TypeOK OneWriter ReaderHoldsEntry Asserts Quiescent
CHECK_DEADLOCK FALSE
