SPECIFICATION Spec
CONSTANTS p1 = p1  p2 = p2  p3 = p3
CONSTANTS Proc = {p1, p2, p3}  H = 3  B = 2  InitFree = {0, 3, 4}  InitHeld <- HeldA  MaxOps = 3
INVARIANTS TypeOK NoBad CountSound SizeExact Quiescent

CHECK_DEADLOCK FALSE
