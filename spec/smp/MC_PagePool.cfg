SPECIFICATION PSpec
CONSTANTS Proc = {p0, p1, p2}  Pages = {0, 1, 2}  Strict = FALSE
INVARIANTS TypeOK NoDoubleOwner Conservation CountSound StrictCount Quiescent
CHECK_DEADLOCK FALSE
