---- MODULE PageStackImpl ----
(* I-layer for C53: Ipc::Mem::PageStack / IdSet (src/ipc/mem/PageStack.cc), one action per atomic access plus all
   decisions the code takes on its result up to the next atomic access.

   The IdSet is a perfect binary tree stored heap-style: node 1 is the root, node n has children 2n and 2n+1, the
   leaves are nodes 2^(H-1) .. 2^H - 1.  Inner nodes hold <<left, right>> = number of available ids in the two
   subtrees (one 64-bit atomic in the code), leaves hold the set of available ids (a 64-bit bitset in the code:
   BitsPerLeaf = 64; here B ids per leaf, id i lives in leaf i \div B.  The code's leafPop takes the lowest set bit
   = the smallest id of the leaf, so the order-preserving map  i |-> (i \div B) * 64 + (i % B)  turns a state of
   this module into a state of the real structure with the same tree shape; checks/C53.py replays every edge so).

   pop  (PageStack::pop -> IdSet::pop):
        innerPop(root):  ILoad  node.load()                       -- value (0,0): return false, in the same step
                         ICas   compare_exchange_weak(old, new)   -- failure reloads `old`; (0,0) then: return false
        innerPop(each inner level below the root): ILoad, ICas    -- (0,0) here = descend() assert fails
        leafPop:         LLoad  node.load()                       -- assert(oldValue > 0)
                         LCas   compare_exchange_weak             -- failure reloads and re-asserts
        PSize            --size_, assert(newSize < capacity), return the id
   push (PageStack::push -> IdSet::push):
        USize            ++size_, assert(newSize <= capacity)
        ULeaf            leafPush: fetch_or(mask), assert the bit was clear
        UInner           innerPush: fetch_add on the parent, repeated up to the root; return after the root
   assert() conditions are not steps (DESIGN 6.1); a failing one sets `bad`.
   compare_exchange_weak may fail spuriously: `old` is reloaded with the same value and the loop retries the same
   CAS, i.e. the step stutters - no action is needed for it.

   Ghosts (not read by the algorithm): owner (changes at call/return only, like the harness' monitor),
   settled (= pages whose release has reached the root minus pops that have claimed a unit at the root), bad. *)
EXTENDS Naturals, FiniteSets, TLC, Json
CONSTANTS Proc, H, B, InitFree, InitHeld, MaxOps
\* InitHeld: [Proc -> SUBSET Pages], pages the processes hold at the start; pages neither free nor held are outside the pool

FirstLeaf == 2^(H-1)
Inner == 1 .. (FirstLeaf - 1)
Leaves == FirstLeaf .. (2^H - 1)
Pages == 0 .. (B * FirstLeaf - 1)
Cap == Cardinality(Pages)
LeafOf(id) == FirstLeaf + (id \div B)
IsLeaf(n) == n >= FirstLeaf
Min(S) == CHOOSE x \in S : \A y \in S : x <= y

VARIABLES inner, leaf, size,          \* the shared atomics
          pc, pos, old, arg,          \* per process: program counter, tree position, oldValue, page argument/result
          ops,                        \* operations started (bound)
          owner, settled, bad         \* ghosts
vars == <<inner, leaf, size, pc, pos, old, arg, ops, owner, settled, bad>>

RECURSIVE InitBelow(_)
InitBelow(n) == IF IsLeaf(n) THEN Cardinality({i \in InitFree : LeafOf(i) = n})
                ELSE InitBelow(2*n) + InitBelow(2*n+1)

Init == /\ leaf = [n \in Leaves |-> {i \in InitFree : LeafOf(i) = n}]
        /\ inner = [n \in Inner |-> <<InitBelow(2*n), InitBelow(2*n+1)>>]
        /\ size = Cardinality(InitFree)
        /\ pc = [p \in Proc |-> "idle"] /\ pos = [p \in Proc |-> 0] /\ old = [p \in Proc |-> 0]
        /\ arg = [p \in Proc |-> 0] /\ ops = [p \in Proc |-> 0]
        /\ owner = [i \in Pages |-> IF i \in InitFree THEN "pool"
                                    ELSE IF \E p \in Proc : i \in InitHeld[p] THEN CHOOSE p \in Proc : i \in InitHeld[p]
                                    ELSE "none"]
        /\ settled = Cardinality(InitFree) /\ bad = ""

Set(f, p, v) == [f EXCEPT ![p] = v]
Flag(cond, what) == bad' = IF bad = "" /\ cond THEN what ELSE bad

\* ---- calls ----
BeginPop(p) == /\ pc[p] = "idle" /\ ops[p] < MaxOps
               /\ pc' = Set(pc, p, "iload") /\ pos' = Set(pos, p, 1) /\ ops' = Set(ops, p, ops[p] + 1)
               /\ UNCHANGED <<inner, leaf, size, old, arg, owner, settled, bad>>
BeginPush(p) == /\ pc[p] = "idle" /\ ops[p] < MaxOps
                /\ \E i \in Pages : /\ owner[i] = p
                                    /\ arg' = Set(arg, p, i) /\ owner' = [owner EXCEPT ![i] = "transit"]
                /\ pc' = Set(pc, p, "usize") /\ ops' = Set(ops, p, ops[p] + 1)
                /\ UNCHANGED <<inner, leaf, size, pos, old, settled, bad>>

\* ---- pop ----
\* innerPop found (0,0) at node n: at the root pop() returns false; below the root descend() asserts.
\* fail justified (reservation reading of the property): no settled page is left
EndHere(p, n) == /\ pc' = Set(pc, p, "idle")
                 /\ Flag(n # 1 \/ settled > 0,
                         IF n # 1 THEN "innerPop: empty inner node below the root" ELSE "pop failed while a settled page exists")
ILoad(p) == /\ pc[p] = "iload"
            /\ LET v == inner[pos[p]] IN
               /\ old' = Set(old, p, v)
               /\ IF v = <<0, 0>> THEN EndHere(p, pos[p]) ELSE (pc' = Set(pc, p, "icas") /\ UNCHANGED bad)
            /\ UNCHANGED <<inner, leaf, size, pos, arg, ops, owner, settled>>
ICas(p) == /\ pc[p] = "icas"
           /\ LET o == old[p]
                  n == pos[p]
                  goLeft == o[1] > 0
                  new == IF goLeft THEN <<o[1]-1, o[2]>> ELSE <<o[1], o[2]-1>>
                  child == IF goLeft THEN 2*n ELSE 2*n+1 IN
              IF inner[n] = o
              THEN /\ inner' = [inner EXCEPT ![n] = new]
                   /\ pos' = Set(pos, p, child)
                   /\ pc' = Set(pc, p, IF IsLeaf(child) THEN "lload" ELSE "iload")
                   /\ settled' = IF n = 1 THEN settled - 1 ELSE settled
                   /\ UNCHANGED <<leaf, size, old, arg, ops, owner, bad>>
              ELSE /\ old' = Set(old, p, inner[n])
                   /\ IF inner[n] = <<0, 0>> THEN EndHere(p, n) ELSE UNCHANGED <<pc, bad>>
                   /\ UNCHANGED <<inner, leaf, size, pos, arg, ops, owner, settled>>
LLoad(p) == /\ pc[p] = "lload" /\ old' = Set(old, p, leaf[pos[p]]) /\ pc' = Set(pc, p, "lcas")
            /\ Flag(leaf[pos[p]] = {}, "leafPop: assert(oldValue > 0)")
            /\ UNCHANGED <<inner, leaf, size, pos, arg, ops, owner, settled>>
LCas(p) == /\ pc[p] = "lcas" /\ old[p] # {}
           /\ LET o == old[p]
                  n == pos[p] IN
              IF leaf[n] = o
              THEN /\ leaf' = [leaf EXCEPT ![n] = o \ {Min(o)}]
                   /\ arg' = Set(arg, p, Min(o)) /\ pc' = Set(pc, p, "psize")
                   /\ UNCHANGED <<inner, size, pos, old, ops, owner, settled, bad>>
              ELSE /\ old' = Set(old, p, leaf[n])
                   /\ Flag(leaf[n] = {}, "leafPop: assert(oldValue > 0)")
                   /\ UNCHANGED <<inner, leaf, size, pc, pos, arg, ops, owner, settled>>
PSize(p) == /\ pc[p] = "psize" /\ size' = IF size = 0 THEN 0 ELSE size - 1
            /\ Flag(size = 0 \/ owner[arg[p]] \notin {"pool", "transit"},
                    IF size = 0 THEN "pop: size_ underflow, assert(newSize < capacity)" ELSE "pop returns a page that a process holds or that is outside the pool")
            /\ owner' = [owner EXCEPT ![arg[p]] = p] /\ pc' = Set(pc, p, "idle")
            /\ UNCHANGED <<inner, leaf, pos, old, arg, ops, settled>>
\* ---- push ----
USize(p) == /\ pc[p] = "usize" /\ size' = size + 1 /\ pc' = Set(pc, p, "uleaf")
            /\ Flag(size + 1 > Cap, "push: assert(newSize <= capacity)")
            /\ UNCHANGED <<inner, leaf, pos, old, arg, ops, owner, settled>>
ULeaf(p) == /\ pc[p] = "uleaf"
            /\ LET n == LeafOf(arg[p]) IN
               /\ Flag(arg[p] \in leaf[n], "leafPush: the id was already there")
               /\ leaf' = [leaf EXCEPT ![n] = @ \cup {arg[p]}]
               /\ pos' = Set(pos, p, n) /\ pc' = Set(pc, p, "uinner")
            /\ UNCHANGED <<inner, size, old, arg, ops, owner, settled>>
UInner(p) == /\ pc[p] = "uinner"
             /\ LET c == pos[p]
                    n == c \div 2
                    left == (c % 2 = 0) IN
                /\ inner' = [inner EXCEPT ![n] = IF left THEN <<@[1]+1, @[2]>> ELSE <<@[1], @[2]+1>>]
                /\ pos' = Set(pos, p, n)
                /\ IF n = 1 THEN /\ pc' = Set(pc, p, "idle") /\ settled' = settled + 1
                                 \* a pop may have taken (and returned) the page while this push was still running
                                 /\ owner' = [owner EXCEPT ![arg[p]] = IF @ = "transit" THEN "pool" ELSE @]
                            ELSE UNCHANGED <<pc, settled, owner>>
             /\ UNCHANGED <<leaf, size, old, arg, ops, bad>>

Step(p) == BeginPop(p) \/ BeginPush(p) \/ ILoad(p) \/ ICas(p) \/ LLoad(p) \/ LCas(p) \/ PSize(p)
           \/ USize(p) \/ ULeaf(p) \/ UInner(p)
Next == \E p \in Proc : Step(p)
Spec == Init /\ [][Next]_vars

\* ---- invariants ----
TypeOK == /\ \A n \in Inner : inner[n][1] \in 0..Cap /\ inner[n][2] \in 0..Cap
          /\ \A n \in Leaves : leaf[n] \subseteq {i \in Pages : LeafOf(i) = n}
          /\ size \in 0..Cap
          /\ \A p \in Proc : pc[p] \in {"idle", "iload", "icas", "lload", "lcas", "psize", "usize", "uleaf", "uinner"}
          /\ \A i \in Pages : owner[i] \in Proc \cup {"pool", "transit", "none"}
\* no double allocation, only pages of the pool, failure justified, and none of the code's assertions can fail
NoBad == bad = ""
AllIdle == \A p \in Proc : pc[p] = "idle"
RECURSIVE LeafCount(_)
LeafCount(n) == IF IsLeaf(n) THEN Cardinality(leaf[n]) ELSE LeafCount(2*n) + LeafCount(2*n+1)
\* refinement of PagePool's count (cnt = root sum, free = union of the leaves):
\*   root sum + pops that have claimed at the root and not yet taken from a leaf + pushes between leaf and root = ids in the leaves
Claimed == {p \in Proc : (pc[p] \in {"iload", "icas"} /\ pos[p] > 1) \/ pc[p] \in {"lload", "lcas"}}
Shown == {p \in Proc : pc[p] = "uinner"}
CountSound == /\ inner[1][1] + inner[1][2] + Cardinality(Claimed) + Cardinality(Shown) = LeafCount(1)
              /\ settled = inner[1][1] + inner[1][2]
\* size_ is incremented before a page is inserted and decremented after it is removed ("to avoid underflow")
SizeExact == size = LeafCount(1) + Cardinality({p \in Proc : pc[p] \in {"uleaf", "psize"}})
\* once activity stops: the tree is exact, so every page nobody holds can be allocated again
Quiescent == AllIdle =>
    /\ \A n \in Inner : inner[n] = <<LeafCount(2*n), LeafCount(2*n+1)>>
    /\ size = LeafCount(1)
    /\ \A i \in Pages : (\E n \in Leaves : i \in leaf[n]) <=> (owner[i] = "pool")

\* ---- T1: every transition as one JSON line (ACTION_CONSTRAINT) ----
St(i, l, s, c, o, ol, a, ow) == [inner |-> i, leaf |-> [k \in 1..FirstLeaf |-> l[FirstLeaf + k - 1]], size |-> s,
                                 pc |-> c, pos |-> o, old |-> ol, arg |-> a, owner |-> ow]
Dump == PrintT(<<"EDGE", ToJson([s |-> St(inner, leaf, size, pc, pos, old, arg, owner),
                                 t |-> St(inner', leaf', size', pc', pos', old', arg', owner')])>>)
====
