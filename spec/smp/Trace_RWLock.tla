---- MODULE Trace_RWLock ----
(* Validates recorded call/return histories of the real Ipc::ReadWriteLock against the P-layer.
   Events: [e |-> "c"|"r"|"a", p |-> fiber, op |-> ..., res |-> "T"|"F"|""].  Lin steps are inferred. *)
EXTENDS RWLock, TraceLib
VARIABLES h, l
Proc0 == 0..(Cardinality(Proc) - 1)
TInit == PInit /\ h \in 1..NHist /\ l = 1
Ev == Events(h)[l]
TCall == /\ l <= Len(Events(h)) /\ Ev.e = "c" /\ Call(Ev.p, Ev.op) /\ l' = l + 1 /\ h' = h
TRet == /\ l <= Len(Events(h)) /\ Ev.e = "r" /\ Ret(Ev.p, Ev.op, Ev.res) /\ l' = l + 1 /\ h' = h
TLin == /\ l <= Len(Events(h)) /\ \E p \in Proc : Lin(p) /\ UNCHANGED <<h, l>>
TNext == TCall \/ TRet \/ TLin
Mark == MarkAccepted(h, l)
Inv == OneWriter /\ WriterExcludesReaders /\ OneHeaderUpdater
====
