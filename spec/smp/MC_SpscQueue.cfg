SPECIFICATION PSpec
CONSTANTS Prod = {0}  Cons = 1  Cap = 2  K = 3
INVARIANTS TypeOK Fifo Bounded NoLostWakeup NoSleepWithItems SleepingSawAll InOrder
CHECK_DEADLOCK FALSE
