SPECIFICATION Spec
CONSTANTS ProdSeq <- One  Cap = 2  K = 3  Eager = FALSE
INVARIANTS TypeOK Fifo NoPhantom SizeOk NoLostWakeup IdleBlocked NotifyJustified

CHECK_DEADLOCK FALSE

ACTION_CONSTRAINT Dump
