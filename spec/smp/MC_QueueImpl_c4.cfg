SPECIFICATION FairSpec
CONSTANTS ProdSeq <- One  Cap = 4  K = 5  Eager = FALSE
INVARIANTS TypeOK Fifo NoPhantom SizeOk NoLostWakeup IdleBlocked NotifyJustified
PROPERTY AllDelivered
CHECK_DEADLOCK FALSE

