SPECIFICATION FairSpec
CONSTANTS ProdSeq <- One  Cap = 1  K = 2  Eager = FALSE
INVARIANTS TypeOK Fifo NoPhantom SizeOk NoLostWakeup IdleBlocked NotifyJustified
PROPERTY AllDelivered
CHECK_DEADLOCK FALSE

