---- MODULE MC_PagePool ----
(* Standalone model check of the P-layer: every initial distribution of Pages over {free} \cup Proc. *)
EXTENDS PagePool, TLC
CONSTANTS Pages
PInit == \E own \in [Pages -> Proc \cup {"free"}] :
            PInitWith({g \in Pages : own[g] = "free"}, [p \in Proc |-> {g \in Pages : own[g] = p}])
PSpec == PInit /\ [][PNext]_pvars
====
