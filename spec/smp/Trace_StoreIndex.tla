---- MODULE Trace_StoreIndex ----
(* Validates recorded call/return histories of the real Ipc::StoreMap (harness/s_storemap.cc) against the P-layer.
   One ndjson line per history:
     {"init":[{"key":k,"st":"empty"|"complete"|"appending","ch":[slices]}, ...]   \* per anchor 0..N-1: editions stored before
      "ev":[{"e":"c"|"r"|"a","p":fiber,"op":kind,"k":key or 0,
             "w":{"known":0|1,"a":anchor|-1,"b":fresh anchor|-1,"s":slice|-1,"L":[slices seen],"F":[slices freed]}}, ...]}
   w of an "r" event is the result; w of a "c" event is a copy of the result the call is going to return (known = 0:
   the history ends before it returns - any result is possible then).  It only prunes the search for the internal
   Lin steps: a Lin with another result could never be followed by the recorded return.
   A history is accepted iff some placement of the Lin steps between the calls and returns makes it a behaviour of
   StoreIndex.  An abort event ("a": a failed assert()/Must() of the code) is never accepted. *)
EXTENDS StoreIndex, TraceLib
VARIABLES h, l, want
Norm(w) == [a |-> w.a, b |-> w.b, s |-> w.s, L |-> w.L, F |-> Range(w.F), any |-> FALSE]
TInit == /\ h \in 1..NHist /\ l = 1 /\ want = [p \in Proc |-> [known |-> FALSE, r |-> NoRes]]
         /\ PInitWith([a \in Anchor |-> Tr[h].init[a + 1]])
Ev == Events(h)[l]
TCall == /\ l <= Len(Events(h)) /\ Ev.e = "c" /\ Call(Ev.p, Ev.op, Ev.k)
         /\ want' = [want EXCEPT ![Ev.p] = [known |-> Ev.w.known = 1, r |-> Norm(Ev.w)]]
         /\ l' = l + 1 /\ h' = h
TRet == /\ l <= Len(Events(h)) /\ Ev.e = "r" /\ Ret(Ev.p, Ev.op, Norm(Ev.w))
        /\ l' = l + 1 /\ UNCHANGED <<h, want>>
\* Search-space reduction (keeps exactly the same set of accepted histories): internal steps are taken only when the next
\* event is the return of a call that has not taken effect yet (the last internal step before that return is then the one
\* of the returning call).  Every placement of internal steps can be brought into this form by moving each step to the
\* right, in order, up to the first return of a call whose step does not precede it: an internal step of p commutes with
\* the Call and Ret events of the other processes - Call(q) reads ed only to compute cov[q], which can only get smaller
\* when steps are delayed (cov and dead occur only negatively in guards); Ret(q) writes dead from cov[q], and the steps
\* that write dead (LinOw, LinOu) remove their anchor from / propagate through cov in the same way in either order.
TLin == /\ l <= Len(Events(h)) /\ Ev.e = "r" /\ ~done[Ev.p] /\ UNCHANGED <<h, l, want>>
        /\ \E p \in Proc : IF want[p].known THEN Lin(p, want[p].r) ELSE \E r \in ResDom(p) : Lin(p, r)
TNext == TCall \/ TRet \/ TLin
Mark == MarkAccepted(h, l)
Inv == TypeOK /\ OneWriter /\ WriterExcludesReaders
====
