SPECIFICATION MCSpec
CONSTANTS Proc = {0, 1}  Anchor = {0, 1}  Slice = {0}  Key = {1}
          AllowUpdRace = FALSE  AllowStaleSuffixLoss = FALSE
          MCOps = {"ow", "ws", "sa", "cw", "aw", "or", "rs", "cr", "cf", "fk"}
INVARIANTS TypeOK OneWriter WriterOwns WriterExcludesReaders ReaderHoldsEntry SlicesStable NoChainRepeats
CHECK_DEADLOCK FALSE
