SPECIFICATION Spec
CONSTANTS Proc = {0, 1}  N = 2  Keys = {1}  MaxOps = 2  MaxW = 1  Spurious = FALSE
          Pre <- PreOne
          Kinds <- Qf1Kinds
INVARIANTS TypeOK OneWriter ReaderHoldsEntry Asserts Quiescent
ACTION_CONSTRAINT Dump
CHECK_DEADLOCK FALSE
