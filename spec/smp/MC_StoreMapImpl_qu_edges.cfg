SPECIFICATION Spec
CONSTANTS Proc = {0, 1}  N = 3  Keys = {1}  MaxOps = 3  MaxW = 1  Spurious = FALSE
          Pre <- PreTwo
          Kinds <- QuKinds
INVARIANTS TypeOK OneWriter ReaderHoldsEntry Asserts Quiescent
ACTION_CONSTRAINT Dump
CHECK_DEADLOCK FALSE
