---- MODULE Trace_PagePool ----
(* Validates recorded call/return histories of the real Ipc::Mem::PageStack against the P-layer PagePool.
   One ndjson line per history:
     {"ev":[{"e":"c"|"r"|"a","p":fiber,"op":"pop"|"push","g":page or -1}, ...],   \* pop: g of "r" is the result, -1 = failed
      "free":[pages free at the start], "hold":[[fiber,page], ...]}                \* pages held at the start
   The internal steps (Fail/Claim/Take/Show/Count resp. ClaimTake/ShowCount) are inferred: a history is accepted
   iff some placement of them between the calls and returns makes it a behaviour of PagePool.
   An abort event ("a": a failed assert() of the code) is never accepted. *)
EXTENDS PagePool, TraceLib
VARIABLES h, l
Range(s) == {s[i] : i \in 1..Len(s)}
TInit == /\ h \in 1..NHist /\ l = 1
         /\ PInitWith(Range(Tr[h].free), [p \in Proc |-> {x[2] : x \in {y \in Range(Tr[h].hold) : y[1] = p}}])
Ev == Events(h)[l]
TCall == /\ l <= Len(Events(h)) /\ Ev.e = "c"
         /\ IF Ev.op = "pop" THEN CallPop(Ev.p) ELSE CallPush(Ev.p, Ev.g)
         /\ l' = l + 1 /\ h' = h
TRet == /\ l <= Len(Events(h)) /\ Ev.e = "r"
        /\ IF Ev.op = "pop" THEN RetPop(Ev.p, Ev.g) ELSE RetPush(Ev.p, Ev.g)
        /\ l' = l + 1 /\ h' = h
TLin == /\ l <= Len(Events(h)) /\ \E p \in Proc : Lin(p) /\ UNCHANGED <<h, l>>
TNext == TCall \/ TRet \/ TLin
Mark == MarkAccepted(h, l)
Inv == TypeOK /\ NoDoubleOwner /\ Conservation /\ CountSound /\ StrictCount /\ Quiescent
====
