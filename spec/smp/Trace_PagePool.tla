---- MODULE Trace_PagePool ----
(* Validates recorded call/return histories of the real Ipc::Mem::PageStack against the P-layer PagePool.
   One ndjson line per history:
     {"ev":[{"e":"c"|"r"|"a","p":fiber,"op":"pop"|"push","g":page or -1,"w":n}, ...],
      "free":[pages free at the start], "hold":[[fiber,page], ...]}                \* pages held at the start
     pop:  g of the "r" event is the result, -1 = failed.  push: g is the page.
     w (call events of pop only; copied from the matching "r" event by checks/C53.py): the result this call is going
       to return, -1 = it fails, -2 = the history ends before it returns.
   The internal steps (Fail/Claim/Take/Show/Count resp. ClaimTake/ShowCount) are inferred: a history is accepted
   iff some placement of them between the calls and returns makes it a behaviour of PagePool.  `want` only prunes
   the search: a Take of another page than the one returned, a Fail of a pop that returns a page, or a Claim by a
   pop that returns failure can never be followed by the logged return event, and a pop that never returns
   influences the others only through its Claim (Strict: its ClaimTake of any page).
   An abort event ("a": a failed assert() of the code) is never accepted. *)
EXTENDS PagePool, TraceLib
VARIABLES h, l, want
Range(s) == {s[i] : i \in 1..Len(s)}
TInit == /\ h \in 1..NHist /\ l = 1 /\ want = [p \in Proc |-> -2]
         /\ PInitWith(Range(Tr[h].free), [p \in Proc |-> {x[2] : x \in {y \in Range(Tr[h].hold) : y[1] = p}}])
Ev == Events(h)[l]
\* Search-space reductions (non-Strict steps only; they keep exactly the same set of accepted histories):
\*  - Show has no guard and only enlarges `free`, which no guard tests negatively: it commutes to the left of every
\*    other step, so it is taken immediately after the call of the push (nothing else may happen before it);
\*  - Take(p, g) only shrinks `free` by the page p returns; any other use of g (a second Take, a push of g) needs p's
\*    return first or is illegal anyway: it commutes to the right of every step up to p's return, so it is taken
\*    only when that return is the next event.
NeedShow == ~Strict /\ \E p \in Proc : pend[p] = "push" /\ ph[p] = "start"
TCall == /\ l <= Len(Events(h)) /\ Ev.e = "c" /\ ~NeedShow
         /\ IF Ev.op = "pop" THEN CallPop(Ev.p) /\ want' = [want EXCEPT ![Ev.p] = Ev.w]
                             ELSE CallPush(Ev.p, Ev.g) /\ UNCHANGED want
         /\ l' = l + 1 /\ h' = h
TRet == /\ l <= Len(Events(h)) /\ Ev.e = "r" /\ ~NeedShow
        /\ IF Ev.op = "pop" THEN RetPop(Ev.p, Ev.g) ELSE RetPush(Ev.p, Ev.g)
        /\ l' = l + 1 /\ UNCHANGED <<h, want>>
TLin == /\ l <= Len(Events(h)) /\ UNCHANGED <<h, l, want>>
        /\ \E p \in Proc : IF NeedShow THEN Show(p) ELSE
                           \/ want[p] = -1 /\ Fail(p)
                           \/ want[p] # -1 /\ Claim(p)
                           \/ want[p] >= 0 /\ Ev.e = "r" /\ Ev.p = p /\ Take(p, want[p])
                           \/ want[p] >= 0 /\ ClaimTake(p, want[p])
                           \/ want[p] = -2 /\ \E g \in free : ClaimTake(p, g)
                           \/ Count(p) \/ ShowCount(p)
TNext == TCall \/ TRet \/ TLin
Mark == MarkAccepted(h, l)
Inv == TypeOK /\ NoDoubleOwner /\ Conservation /\ CountSound /\ StrictCount /\ Quiescent
====
