SPECIFICATION FairSpec
CONSTANTS ProdSeq <- One  Cap = 2  K = 3  Eager = TRUE
INVARIANTS TypeOK Fifo NoPhantom SizeOk NoLostWakeup IdleBlocked NotifyJustified
PROPERTY AllDelivered
CHECK_DEADLOCK FALSE

