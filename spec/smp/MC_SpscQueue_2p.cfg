SPECIFICATION PSpec
CONSTANTS Prod = {0, 2}  Cons = 1  Cap = 1  K = 2
INVARIANTS TypeOK Fifo Bounded NoLostWakeup NoSleepWithItems SleepingSawAll InOrder
CHECK_DEADLOCK FALSE
