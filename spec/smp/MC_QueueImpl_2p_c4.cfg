SPECIFICATION FairSpec
CONSTANTS ProdSeq <- Two  Cap = 4  K = 3  Eager = TRUE
INVARIANTS TypeOK Fifo NoPhantom SizeOk NoLostWakeup IdleBlocked
PROPERTY AllDelivered
CHECK_DEADLOCK FALSE

