---- MODULE MC_SpscQueue ----
(* Stand-alone model check of the P-layer: every producer pushes the items 1..K (an item is retried
   after "full"), the consumer follows the protocol of MayCall. *)
EXTENDS SpscQueue, TLC
CONSTANT K
PNext == \E p \in Proc :
           \/ Lin(p)
           \/ \E op \in {"pop", "wake"} : Call(p, op, 0)
           \/ p \in Prod /\ Len(pushed[p]) < K /\ Call(p, "push", Len(pushed[p]) + 1)
           \/ Ret(p, pend[p], res[p])
PSpec == PInit /\ [][PNext]_pvars
TypeOK == /\ notes \in 0..(K * Cardinality(Prod)) /\ seenEmpty \subseteq Prod /\ sleeping \in BOOLEAN /\ mustTake \in BOOLEAN
          /\ \A a \in Prod : Len(q[a]) <= Cap /\ Len(pushed[a]) <= K
\* in order and complete with respect to the values this model pushes
InOrder == \A a \in Prod : \A i \in 1..Len(delivered[a]) : delivered[a][i] = i
====
