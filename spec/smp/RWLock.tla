---- MODULE RWLock ----
(* P-layer for C54: Ipc::ReadWriteLock as a linearizable try-lock.
   The abstract state is who holds what.  Every public call is Call(p, op) ... Lin(p) ... Ret(p, op, res):
   the operation takes effect atomically at some point between its call and its return (Lin, an
   internal step) and the returned value is the one chosen there.  An acquisition may always fail
   ("attempts"), it may succeed only when the abstract state permits it - that guard IS the mutual
   exclusion property, so a recorded history that breaks it is not a behaviour of this module. *)
EXTENDS Naturals, FiniteSets
CONSTANTS Proc
VARIABLES excl,   \* processes holding the exclusive lock
          sh,     \* processes holding a shared lock (includes header-update holders)
          hdr,    \* processes holding the header-update lock
          app,    \* append mode: the writer allows concurrent shared holders
          drain,  \* the writer stopped appending while readers existed: old readers may linger, new ones are refused
          pend,   \* pend[p]: operation p is executing, or "none"
          res     \* res[p]: "no" before the linearization point, then the result "T"/"F"
pvars == <<excl, sh, hdr, app, drain, pend, res>>

Ops == {"ls", "le", "lh", "us", "ue", "uh", "sx", "usx", "sa", "sp"}

PInit == /\ excl = {} /\ sh = {} /\ hdr = {} /\ app = FALSE /\ drain = FALSE
         /\ pend = [p \in Proc |-> "none"] /\ res = [p \in Proc |-> "no"]

\* what the caller protocol allows p to call (callers release only what they hold; the code asserts the same)
MayCall(p, op) ==
  CASE op \in {"ls", "le", "lh"} -> p \notin excl /\ p \notin sh
    [] op \in {"us", "usx"}      -> p \in sh /\ p \notin hdr
    [] op = "uh"                 -> p \in hdr
    [] op \in {"ue", "sx"}       -> p \in excl
    [] op = "sa"                 -> p \in excl /\ ~app /\ ~drain
    [] op = "sp"                 -> p \in excl /\ app
    [] OTHER -> FALSE

Call(p, op) == /\ pend[p] = "none" /\ MayCall(p, op)
               /\ pend' = [pend EXCEPT ![p] = op] /\ res' = [res EXCEPT ![p] = "no"]
               /\ UNCHANGED <<excl, sh, hdr, app, drain>>

SetRes(p, r) == res' = [res EXCEPT ![p] = r]
SharedOk == excl = {} \/ app

Lin(p) ==
  /\ pend[p] # "none" /\ res[p] = "no" /\ UNCHANGED pend
  /\ CASE pend[p] = "ls" ->
            \/ /\ SharedOk /\ sh' = sh \cup {p} /\ SetRes(p, "T") /\ UNCHANGED <<excl, hdr, app, drain>>
            \/ /\ SetRes(p, "F") /\ UNCHANGED <<excl, sh, hdr, app, drain>>
       [] pend[p] = "lh" ->
            \/ /\ SharedOk /\ hdr = {} /\ sh' = sh \cup {p} /\ hdr' = {p} /\ SetRes(p, "T") /\ UNCHANGED <<excl, app, drain>>
            \/ /\ SetRes(p, "F") /\ UNCHANGED <<excl, sh, hdr, app, drain>>
       [] pend[p] = "le" ->
            \/ /\ excl = {} /\ sh = {} /\ excl' = {p} /\ SetRes(p, "T") /\ UNCHANGED <<sh, hdr, app, drain>>
            \/ /\ SetRes(p, "F") /\ UNCHANGED <<excl, sh, hdr, app, drain>>
       [] pend[p] = "us" -> sh' = sh \ {p} /\ SetRes(p, "T") /\ UNCHANGED <<excl, hdr, app, drain>>
       [] pend[p] = "uh" -> sh' = sh \ {p} /\ hdr' = hdr \ {p} /\ SetRes(p, "T") /\ UNCHANGED <<excl, app, drain>>
       [] pend[p] = "ue" -> excl' = excl \ {p} /\ app' = FALSE /\ drain' = FALSE /\ SetRes(p, "T") /\ UNCHANGED <<sh, hdr>>
       [] pend[p] = "sx" -> excl' = excl \ {p} /\ sh' = sh \cup {p} /\ app' = FALSE /\ drain' = FALSE /\ SetRes(p, "T") /\ UNCHANGED hdr
       [] pend[p] = "usx" ->
            \/ /\ excl = {} /\ sh \ {p} = {} /\ sh' = {} /\ excl' = {p} /\ SetRes(p, "T") /\ UNCHANGED <<hdr, app, drain>>
            \/ /\ sh' = sh \ {p} /\ SetRes(p, "F") /\ UNCHANGED <<excl, hdr, app, drain>>
       [] pend[p] = "sa" -> app' = TRUE /\ SetRes(p, "T") /\ UNCHANGED <<excl, sh, hdr, drain>>
       [] pend[p] = "sp" ->
            \/ /\ sh = {} /\ app' = FALSE /\ SetRes(p, "T") /\ UNCHANGED <<excl, sh, hdr, drain>>
            \/ /\ app' = FALSE /\ drain' = TRUE /\ SetRes(p, "F") /\ UNCHANGED <<excl, sh, hdr>>

Ret(p, op, r) == /\ pend[p] = op /\ res[p] = r
                 /\ pend' = [pend EXCEPT ![p] = "none"] /\ res' = [res EXCEPT ![p] = "no"]
                 /\ UNCHANGED <<excl, sh, hdr, app, drain>>

PNext == \E p \in Proc : Lin(p) \/ \E op \in Ops : Call(p, op) \/ \E r \in {"T", "F"} : Ret(p, op, r)
PSpec == PInit /\ [][PNext]_pvars

\* ---- the property (C54), as invariants of the abstract state ----
OneWriter == Cardinality(excl) <= 1
WriterExcludesReaders == (excl # {} /\ sh # {}) => (app \/ drain)
OneHeaderUpdater == Cardinality(hdr) <= 1 /\ hdr \subseteq sh
TypeOK == excl \subseteq Proc /\ sh \subseteq Proc /\ hdr \subseteq Proc /\ app \in BOOLEAN /\ drain \in BOOLEAN
====
