SPECIFICATION FairSpec
CONSTANTS ProdSeq <- Two  Cap = 1  K = 2  Eager = FALSE
INVARIANTS TypeOK Fifo NoPhantom SizeOk NoLostWakeup IdleBlocked
PROPERTY AllDelivered
CHECK_DEADLOCK FALSE

