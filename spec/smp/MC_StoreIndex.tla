---- MODULE MC_StoreIndex ----
(* Standalone model check of the P-layer: every result the calls may produce, every interleaving of calls,
   internal steps and returns of the caller protocol; checks that the guards maintain the statement's invariants. *)
EXTENDS StoreIndex, TLC
KeyOps == {"ow", "or", "fk", "ou"}
MCNext == \E p \in Proc :
            \/ \E r \in ResDom(p) : Lin(p, r)
            \/ \E op \in Ops : \E k \in (IF op \in KeyOps THEN Key ELSE {0}) : Call(p, op, k)
            \/ pend[p].op # "none" /\ done[p] /\ Ret(p, pend[p].op, res[p])
MCSpec == PInit /\ [][MCNext]_pvars
====
