---- MODULE MC_StoreIndex ----
(* Standalone model check of the P-layer: every result the calls may produce, every interleaving of calls,
   internal steps and returns of the caller protocol; checks that the guards maintain the statement's invariants. *)
EXTENDS StoreIndex, TLC
CONSTANT MCOps   \* the operations the model-checked callers use
KeyOps == {"ow", "or", "fk", "ou"}
MCNext == \E p \in Proc :
            \/ \E r \in ResDom(p) : Lin(p, r)
            \/ \E op \in MCOps : \E k \in (IF op \in KeyOps THEN Key ELSE {0}) : Call(p, op, k)
            \/ pend[p].op # "none" /\ done[p] /\ Ret(p, pend[p].op, res[p])
MCSpec == PInit /\ [][MCNext]_pvars
\* start with one complete entry (key 1, one slice) at anchor 0: the update cycle without the writer operations
InitOne == PInitWith([a \in Anchor |-> IF a = 0 THEN [key |-> 1, st |-> "complete", ch |-> <<0>>]
                                                 ELSE [key |-> 0, st |-> "empty", ch |-> <<>>]])
MCSpecOne == InitOne /\ [][MCNext]_pvars
====
