---- MODULE PagePool ----
(* P-layer for C53: Ipc::Mem::PageStack as a shared pool of page numbers.
   Every public call is Call ... internal step(s) ... Ret; the effect and the returned value are chosen at
   internal steps that lie between the call and the return of that operation (Lin steps; a validator infers them).
   The guards ARE the property, so a recorded history that breaks it is not a behaviour of this module:

     * pop returns page g        only if g is in the pool (free) at the step where pop takes it - hence g is a page
                                 of the pool and nobody holds it (no double allocation);
     * pop fails                 only if, at its linearization step, no page is available;
     * push(g)                   only by the holder of g; g is back in the pool from the push's linearization step on
                                 (never lost: when nothing is running, every page is held or allocatable).

   "Available" comes in two strengths, selected by the constant Strict:

   Strict = TRUE   the pool is an atomic object: pop = one step (take a free page / see the pool empty), push = one
                   step.  available = the free set.  This is plain linearizability ("an allocation fails only when no
                   free page exists").

   Strict = FALSE  reservation semantics (what a counting structure provides, and what the comment in PageStack.h
                   promises: "A pushed page may not become available immediately but is never truly lost"):
                   a successful pop first CLAIMS one unit of the count and TAKES some free page at a later step of the
                   same call; a push first makes its page visible (SHOW) and credits the count at a later step of the
                   same call (COUNT).  pop fails only when the count is 0, i.e. when every free page is matched by
                   an in-progress pop that is already committed to succeed or by an in-progress push that has not
                   finished yet:   cnt = |free| - #claimed - #shown.
                   Everything else (no double allocation, validity, nothing lost at quiescence, no failure while a
                   page is free and no other operation is in progress) is as in the strict pool.
   Every Strict behaviour is a non-Strict behaviour (Claim;Take and Show;Count taken back to back). *)
EXTENDS Integers, FiniteSets
CONSTANTS Proc,      \* processes
          Strict     \* BOOLEAN, see above
VARIABLES managed,   \* constant-valued: the pages of this pool (free, in transit or held)
          free,      \* pages that can be taken
          cnt,       \* units of the count that a pop can claim
          held,      \* held[p]: pages process p has got from pop and has not given to push
          transit,   \* pages given to a push that is not visible yet
          pend,      \* pend[p]: "none" | "pop" | "push"
          ph,        \* ph[p]: progress of the pending operation: "start" | "claimed" | "shown" | "done"
          val        \* val[p]: page of the pending operation (push: the argument; pop: the result once taken), or NoPage
pvars == <<managed, free, cnt, held, transit, pend, ph, val>>

NoPage == -1

\* F: pages free at the start, H: [Proc -> set of pages held at the start]
PInitWith(F, H) ==
  /\ managed = F \cup UNION {H[p] : p \in Proc}
  /\ free = F /\ cnt = Cardinality(F) /\ held = H /\ transit = {}
  /\ pend = [p \in Proc |-> "none"] /\ ph = [p \in Proc |-> "done"] /\ val = [p \in Proc |-> NoPage]

Set(f, p, v) == [f EXCEPT ![p] = v]

\* ---- pop ----
CallPop(p) == /\ pend[p] = "none"
              /\ pend' = Set(pend, p, "pop") /\ ph' = Set(ph, p, "start") /\ val' = Set(val, p, NoPage)
              /\ UNCHANGED <<managed, free, cnt, held, transit>>
\* linearization of a failing pop: nothing is available
Fail(p) == /\ pend[p] = "pop" /\ ph[p] = "start" /\ cnt = 0
           /\ ph' = Set(ph, p, "done")
           /\ UNCHANGED <<managed, free, cnt, held, transit, pend, val>>
Claim(p) == /\ ~Strict /\ pend[p] = "pop" /\ ph[p] = "start" /\ cnt > 0
            /\ cnt' = cnt - 1 /\ ph' = Set(ph, p, "claimed")
            /\ UNCHANGED <<managed, free, held, transit, pend, val>>
Take(p, g) == /\ ~Strict /\ pend[p] = "pop" /\ ph[p] = "claimed" /\ g \in free
              /\ free' = free \ {g} /\ held' = Set(held, p, held[p] \cup {g})
              /\ val' = Set(val, p, g) /\ ph' = Set(ph, p, "done")
              /\ UNCHANGED <<managed, cnt, transit, pend>>
ClaimTake(p, g) == /\ Strict /\ pend[p] = "pop" /\ ph[p] = "start" /\ cnt > 0 /\ g \in free
                   /\ cnt' = cnt - 1 /\ free' = free \ {g} /\ held' = Set(held, p, held[p] \cup {g})
                   /\ val' = Set(val, p, g) /\ ph' = Set(ph, p, "done")
                   /\ UNCHANGED <<managed, transit, pend>>
\* r = NoPage: the pop failed
RetPop(p, r) == /\ pend[p] = "pop" /\ ph[p] = "done" /\ val[p] = r
                /\ pend' = Set(pend, p, "none") /\ val' = Set(val, p, NoPage)
                /\ UNCHANGED <<managed, free, cnt, held, transit, ph>>

\* ---- push ----
\* the caller protocol: only a holder releases a page (the code asserts what it can of this)
CallPush(p, g) == /\ pend[p] = "none" /\ g \in held[p]
                  /\ held' = Set(held, p, held[p] \ {g}) /\ transit' = transit \cup {g}
                  /\ pend' = Set(pend, p, "push") /\ ph' = Set(ph, p, "start") /\ val' = Set(val, p, g)
                  /\ UNCHANGED <<managed, free, cnt>>
Show(p) == /\ ~Strict /\ pend[p] = "push" /\ ph[p] = "start"
           /\ free' = free \cup {val[p]} /\ transit' = transit \ {val[p]} /\ ph' = Set(ph, p, "shown")
           /\ UNCHANGED <<managed, cnt, held, pend, val>>
Count(p) == /\ ~Strict /\ pend[p] = "push" /\ ph[p] = "shown"
            /\ cnt' = cnt + 1 /\ ph' = Set(ph, p, "done")
            /\ UNCHANGED <<managed, free, held, transit, pend, val>>
ShowCount(p) == /\ Strict /\ pend[p] = "push" /\ ph[p] = "start"
                /\ free' = free \cup {val[p]} /\ transit' = transit \ {val[p]} /\ cnt' = cnt + 1
                /\ ph' = Set(ph, p, "done")
                /\ UNCHANGED <<managed, held, pend, val>>
RetPush(p, g) == /\ pend[p] = "push" /\ ph[p] = "done" /\ val[p] = g
                 /\ pend' = Set(pend, p, "none") /\ val' = Set(val, p, NoPage)
                 /\ UNCHANGED <<managed, free, cnt, held, transit, ph>>

\* internal (inferred) steps of process p
Lin(p) == Fail(p) \/ Claim(p) \/ Count(p) \/ Show(p) \/ ShowCount(p) \/ \E g \in free : Take(p, g) \/ ClaimTake(p, g)

PNext == \E p \in Proc : \/ Lin(p) \/ CallPop(p)
                         \/ \E g \in managed \cup {NoPage} : RetPop(p, g) \/ CallPush(p, g) \/ RetPush(p, g)

\* ---- the property (C53) as invariants of the abstract state ----
Claimed == {p \in Proc : pend[p] = "pop" /\ ph[p] = "claimed"}
Shown == {p \in Proc : pend[p] = "push" /\ ph[p] = "shown"}
AllIdle == \A p \in Proc : pend[p] = "none"
HeldPages == UNION {held[p] : p \in Proc}

TypeOK == /\ free \subseteq managed /\ transit \subseteq managed /\ cnt \in 0..Cardinality(managed)
          /\ \A p \in Proc : held[p] \subseteq managed /\ pend[p] \in {"none", "pop", "push"}
                             /\ ph[p] \in {"start", "claimed", "shown", "done"} /\ val[p] \in managed \cup {NoPage}
NoDoubleOwner == \A p, q \in Proc : p # q => held[p] \cap held[q] = {}
\* every page is exactly one of: free, held by one process, in transit
Conservation == /\ free \cup transit \cup HeldPages = managed
                /\ free \cap transit = {} /\ free \cap HeldPages = {} /\ transit \cap HeldPages = {}
\* the count never promises more than there is: a committed pop always finds a page
CountSound == cnt + Cardinality(Claimed) + Cardinality(Shown) = Cardinality(free)
StrictCount == Strict => cnt = Cardinality(free)
\* once activity stops every page nobody holds can be allocated again (cnt > 0 enables the claim, free # {} the take)
Quiescent == AllIdle => (transit = {} /\ cnt = Cardinality(free) /\ free = managed \ HeldPages)
====
