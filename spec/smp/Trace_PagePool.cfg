INIT TInit
NEXT TNext
CONSTANTS Proc = {0, 1, 2, 3}  Strict = FALSE
CONSTRAINT Mark
INVARIANT Inv
POSTCONDITION AllAccepted
CHECK_DEADLOCK FALSE
