SPECIFICATION Spec
CONSTANTS Proc = {0, 1}  N = 2  Keys = {1}  MaxOps = 3  MaxW = 1  Spurious = TRUE
          Pre <- PreNone
          Kinds <- CoreKinds
INVARIANTS TypeOK OneWriter ReaderHoldsEntry Asserts Quiescent
CHECK_DEADLOCK FALSE
