---- MODULE StoreIndex ----
(* P-layer for C55: the shared store index (Ipc::StoreMap) as an abstract table of entry editions.

   "Under any interleaving of writers, readers, updaters and deleters sharing the store index, a reader opens an
    entry only when it is complete or being appended, and only under the requested key.  The slots of an entry are
    not freed or reused while a reader holds it.  No two writers hold the same entry, and a deleted entry is not
    opened afterwards."

   Abstract state: per anchor (the lockable unit; at most one edition of one entry lives there at a time) the
   edition's key, its state  empty | writing | appending | complete | aborted, its writer, its readers, its header
   updater, and its chain of slices (slice ownership: a slice is free iff no chain contains it).  The per-key view of
   the statement is derived (EntryState).  Every public call is  Call(p, op, k) ... Lin(p, r) ... Ret(p, op, r):
   the call takes effect atomically at one internal step between its call and its return and the result r
   (anchor(s), slice, slices seen, slices freed) is the one chosen there.  Every acquisition may fail at any time
   ("try-lock with spurious failure"); it may SUCCEED only when the guards below hold - the guards ARE the property,
   so a recorded history that breaks it is not a behaviour of this module:

     G1  openForReading(k) / openForUpdating(k) succeed at anchor a only if the edition there is complete or
         appending, has key k, and is not deleted (G4);
     G2  slices are freed (and hence can be handed to another writer) only if no edition whose chain contains them
         has a reader or a foreign writer; a slice is added to a chain only if it is free; what a reader sees when it
         walks its chain is that chain (a prefix while the entry is being appended);
     G3  openForWriting / the fresh side of openForUpdating succeed at anchor a only if nobody holds a (at most one
         writer per anchor, no reader loses its edition), and only one header updater per edition;
     G4  if a deletion (freeEntryByKey(k), freeEntry by a holder) of an edition RETURNED before an open STARTED, the
         open does not return that edition (dead/ban below).  An update continues the identity of the entry: the
         fresh edition inherits the deletions that cover the stale one.  An edition created concurrently with or
         after the deletion is a new entry and is not covered.

   Two weaker readings exist only to CLASSIFY rejections of the strict layer (both constants FALSE = the property):
     AllowUpdRace          a deletion that is pending at the same time as a closeForUpdating of an edition it covers
                           does not reach the fresh edition of that update (known finding F7: lost deletion);
     AllowStaleSuffixLoss  the suffix an updated entry shares with its stale edition may be freed with the fresh
                           edition although the stale edition still has readers (finding: stale readers lose it). *)
EXTENDS Integers, Sequences, FiniteSets
CONSTANTS Proc, Anchor, Slice, Key, AllowUpdRace, AllowStaleSuffixLoss
VARIABLES ed,     \* ed[a] = [key, st, w]: key 0 = none; st; w = writer (creator that has not closed/aborted yet) or NoProc
          rd,     \* rd[a]: processes holding the edition at a for reading (an updater reads its stale edition)
          upd,    \* upd[a]: the header updater of the edition at a, or NoProc
          chain,  \* chain[a]: the slices of the edition at a, in order
          dead,   \* dead[a]: a deletion covering the edition at a has returned
          sup,    \* sup[a]: the edition at a is the stale edition of a completed update (shares its suffix with the fresh one)
          hold,   \* hold[p] = [m, a, b, k]: what the caller p holds (caller protocol): m = "idle" | "w" | "r" | "u"
          pend,   \* pend[p] = [op, k]: the call in progress ("none")
          done,   \* done[p]: the call in progress has taken effect
          res,    \* res[p]: its result (chosen at Lin)
          cov,    \* cov[p]: anchors whose edition the pending deletion of p covers
          exc,    \* exc[p]: fresh anchors excused under AllowUpdRace
          ban     \* ban[p]: anchors whose edition was dead when the pending open of p started
pvars == <<ed, rd, upd, chain, dead, sup, hold, pend, done, res, cov, exc, ban>>

NoProc == -1
NoA == -1
NoS == -1
Ops == {"ow", "ws", "sa", "cw", "aw", "or", "rs", "cr", "cf", "fe", "fk", "p", "ou", "us", "cu", "au"}
States == {"empty", "writing", "appending", "complete", "aborted"}
EmptyEd == [key |-> 0, st |-> "empty", w |-> NoProc]
IdleHold == [m |-> "idle", a |-> NoA, b |-> NoA, k |-> 0]
NoRes == [a |-> NoA, b |-> NoA, s |-> NoS, L |-> <<>>, F |-> {}, any |-> FALSE]
NoPend == [op |-> "none", k |-> 0]

Range(q) == {q[i] : i \in 1..Len(q)}
InChain(s, a) == s \in Range(chain[a])
IsPrefix(x, y) == Len(x) <= Len(y) /\ \A i \in 1..Len(x) : x[i] = y[i]

\* I: initial editions, a function Anchor -> [key, st, ch] (st "empty" | "complete" | "appending")
PInitWith(I) ==
  /\ ed = [a \in Anchor |-> [key |-> I[a].key, st |-> I[a].st, w |-> NoProc]]
  /\ chain = [a \in Anchor |-> I[a].ch]
  /\ rd = [a \in Anchor |-> {}] /\ upd = [a \in Anchor |-> NoProc]
  /\ dead = [a \in Anchor |-> FALSE] /\ sup = [a \in Anchor |-> FALSE]
  /\ hold = [p \in Proc |-> IdleHold] /\ pend = [p \in Proc |-> NoPend]
  /\ done = [p \in Proc |-> FALSE] /\ res = [p \in Proc |-> NoRes]
  /\ cov = [p \in Proc |-> {}] /\ exc = [p \in Proc |-> {}] /\ ban = [p \in Proc |-> {}]
PInit == PInitWith([a \in Anchor |-> [key |-> 0, st |-> "empty", ch |-> <<>>]])

\* ---------------------------------------------------------------------------------------------
\* calls
\* ---------------------------------------------------------------------------------------------
MayCall(p, op) ==
  CASE op \in {"ow", "or", "fk", "p", "ou"} -> hold[p].m = "idle"
    [] op \in {"ws", "sa", "cw", "aw"}      -> hold[p].m = "w"
    [] op \in {"rs", "cr", "cf", "fe"}      -> hold[p].m = "r"
    [] op \in {"us", "cu", "au"}            -> hold[p].m = "u"
    [] OTHER -> FALSE

Deleting(q) == pend[q].op \in {"fk", "fe"}
\* fresh anchors of the closeForUpdating calls in progress that touch an edition in C
RacingFresh(C) == {hold[u].b : u \in {v \in Proc : pend[v].op = "cu" /\ {hold[v].a, hold[v].b} \cap C # {}}}

Call(p, op, k) ==
  /\ pend[p].op = "none" /\ MayCall(p, op)
  /\ pend' = [pend EXCEPT ![p] = [op |-> op, k |-> k]]
  /\ done' = [done EXCEPT ![p] = FALSE] /\ res' = [res EXCEPT ![p] = NoRes]
  /\ CASE op = "fk" -> LET C == {a \in Anchor : ed[a].st # "empty" /\ ed[a].key = k} IN
                       /\ cov' = [cov EXCEPT ![p] = C] /\ exc' = [exc EXCEPT ![p] = RacingFresh(C)] /\ UNCHANGED ban
       [] op = "fe" -> LET C == {hold[p].a} IN
                       /\ cov' = [cov EXCEPT ![p] = C] /\ exc' = [exc EXCEPT ![p] = RacingFresh(C)] /\ UNCHANGED ban
       [] op \in {"or", "ou"} -> ban' = [ban EXCEPT ![p] = {a \in Anchor : dead[a]}] /\ UNCHANGED <<cov, exc>>
       [] op = "cu" -> /\ exc' = [q \in Proc |-> IF Deleting(q) /\ cov[q] \cap {hold[p].a, hold[p].b} # {}
                                                  THEN exc[q] \cup {hold[p].b} ELSE exc[q]]
                       /\ UNCHANGED <<cov, ban>>
       [] OTHER -> UNCHANGED <<cov, exc, ban>>
  /\ UNCHANGED <<ed, rd, upd, chain, dead, sup, hold>>

\* ---------------------------------------------------------------------------------------------
\* effects (all primed values are computed from explicit "next" values so that effects compose)
\* ---------------------------------------------------------------------------------------------
\* anchors whose chain loses a slice when F is freed
Hit(F) == {x \in Anchor : Range(chain[x]) \cap F # {}}
Shared(s) == Cardinality({x \in Anchor : InChain(s, x)}) > 1
\* G2: freeing F by p is legal given the reader sets R
MayFree(F, p, R) ==
  \A s \in F : \A x \in Anchor : InChain(s, x) =>
     /\ R[x] = {} \/ (AllowStaleSuffixLoss /\ sup[x] /\ Shared(s))
     /\ ed[x].w \in {NoProc, p}
\* editions that lose a slice stop existing (they cannot be opened any more)
EdAfterFree(F) == [x \in Anchor |-> IF x \in Hit(F) THEN EmptyEd ELSE ed[x]]
ChainAfterFree(F) == [x \in Anchor |-> IF x \in Hit(F) THEN <<>> ELSE chain[x]]

Unheld(a, R) == R[a] = {} /\ ed[a].w = NoProc /\ upd[a] = NoProc
Readable(a, k, p) == ed[a].st \in {"complete", "appending"} /\ ed[a].key = k /\ a \notin ban[p]
Forget(f, a) == [q \in Proc |-> f[q] \ {a}]
SetHold(p, m, a, b, k) == hold' = [hold EXCEPT ![p] = [m |-> m, a |-> a, b |-> b, k |-> k]]

LinOw(p, r) ==
  LET k == pend[p].k  a == r.a IN
  IF a = NoA THEN r.F = {} /\ UNCHANGED <<ed, rd, upd, chain, dead, sup, hold, cov, exc, ban>>
  ELSE /\ a \in Anchor /\ Unheld(a, rd) /\ MayFree(r.F, p, rd)                                 \* G3, G2
       /\ ed' = [EdAfterFree(r.F) EXCEPT ![a] = [key |-> k, st |-> "writing", w |-> p]]
       /\ chain' = [ChainAfterFree(r.F) EXCEPT ![a] = <<>>]
       /\ dead' = [dead EXCEPT ![a] = FALSE] /\ sup' = [sup EXCEPT ![a] = FALSE]
       /\ cov' = Forget(cov, a) /\ exc' = Forget(exc, a) /\ ban' = Forget(ban, a)              \* a new entry
       /\ SetHold(p, "w", a, NoA, k) /\ UNCHANGED <<rd, upd>>

\* writer / updater adds slice r.s to the chain of anchor t
LinAdd(p, r, t) ==
  IF r.s = NoS THEN UNCHANGED <<ed, rd, upd, chain, dead, sup, hold, cov, exc, ban>>
  ELSE /\ r.s \in Slice /\ \A x \in Anchor : ~InChain(r.s, x)                                   \* G2: only a free slice
       /\ ed[t].w = p
       /\ chain' = [chain EXCEPT ![t] = Append(@, r.s)]
       /\ UNCHANGED <<ed, rd, upd, dead, sup, hold, cov, exc, ban>>

LinSa(p) == LET a == hold[p].a IN
  /\ ed[a].w = p /\ ed' = [ed EXCEPT ![a].st = "appending"]
  /\ UNCHANGED <<rd, upd, chain, dead, sup, hold, cov, exc, ban>>
LinCw(p) == LET a == hold[p].a IN
  /\ ed[a].w = p /\ ed' = [ed EXCEPT ![a].st = "complete", ![a].w = NoProc]
  /\ hold' = [hold EXCEPT ![p] = IdleHold]
  /\ UNCHANGED <<rd, upd, chain, dead, sup, cov, exc, ban>>
\* abort: the edition stops being readable; its slices may be freed only if it has no readers (G2)
AbortAt(p, a, F, R) ==
  /\ MayFree(F, p, R)
  /\ ed' = [x \in Anchor |-> IF x \in Hit(F) THEN EmptyEd
                             ELSE IF x = a THEN [ed[a] EXCEPT !.st = "aborted", !.w = NoProc] ELSE ed[x]]
  /\ chain' = ChainAfterFree(F)
LinAw(p, r) == LET a == hold[p].a IN
  /\ ed[a].w = p /\ AbortAt(p, a, r.F, rd)
  /\ hold' = [hold EXCEPT ![p] = IdleHold]
  /\ UNCHANGED <<rd, upd, dead, sup, cov, exc, ban>>

LinOr(p, r) ==
  LET k == pend[p].k  a == r.a IN
  IF a = NoA THEN UNCHANGED <<ed, rd, upd, chain, dead, sup, hold, cov, exc, ban>>
  ELSE /\ a \in Anchor /\ Readable(a, k, p)                                                     \* G1, G4
       /\ rd' = [rd EXCEPT ![a] = @ \cup {p}]
       /\ SetHold(p, "r", a, NoA, k) /\ UNCHANGED <<ed, upd, chain, dead, sup, cov, exc, ban>>
LinRs(p, r) == LET a == hold[p].a IN
  /\ \/ r.any
     \/ AllowStaleSuffixLoss /\ sup[a]
     \/ ed[a].st = "appending" /\ IsPrefix(r.L, chain[a])                                       \* G2
     \/ ed[a].st # "appending" /\ r.L = chain[a]
  /\ UNCHANGED <<ed, rd, upd, chain, dead, sup, hold, cov, exc, ban>>
LinCr(p) == LET a == hold[p].a IN
  /\ rd' = [rd EXCEPT ![a] = @ \ {p}] /\ hold' = [hold EXCEPT ![p] = IdleHold]
  /\ UNCHANGED <<ed, upd, chain, dead, sup, cov, exc, ban>>
FreeOnly(p, F, R) == /\ MayFree(F, p, R) /\ ed' = EdAfterFree(F) /\ chain' = ChainAfterFree(F)
LinCf(p, r) == LET a == hold[p].a  R == [rd EXCEPT ![a] = @ \ {p}] IN
  /\ rd' = R /\ FreeOnly(p, r.F, R) /\ hold' = [hold EXCEPT ![p] = IdleHold]
  /\ UNCHANGED <<upd, dead, sup, cov, exc, ban>>
\* freeEntry by a holder, freeEntryByKey, purgeOne: whatever they free must be free of readers and foreign writers
LinFree(p, r) == /\ FreeOnly(p, r.F, rd) /\ UNCHANGED <<rd, upd, dead, sup, hold, cov, exc, ban>>

LinOu(p, r) ==
  LET k == pend[p].k  s == r.a  f == r.b IN
  IF s = NoA THEN /\ FreeOnly(p, r.F, rd) /\ UNCHANGED <<rd, upd, dead, sup, hold, cov, exc, ban>>
  ELSE /\ s \in Anchor /\ f \in Anchor /\ s # f
       /\ Readable(s, k, p) /\ upd[s] = NoProc                                                  \* G1, G4, one updater
       /\ Unheld(f, rd) /\ MayFree(r.F, p, [rd EXCEPT ![s] = @ \cup {p}])                     \* G3, G2
       /\ rd' = [rd EXCEPT ![s] = @ \cup {p}] /\ upd' = [upd EXCEPT ![s] = p]
       /\ ed' = [EdAfterFree(r.F) EXCEPT ![f] = [key |-> k, st |-> "writing", w |-> p]]
       /\ chain' = [ChainAfterFree(r.F) EXCEPT ![f] = <<>>]
       \* the fresh edition continues the identity of the stale one
       /\ dead' = [dead EXCEPT ![f] = dead[s]] /\ sup' = [sup EXCEPT ![f] = FALSE]
       /\ cov' = [q \in Proc |-> IF s \in cov[q] THEN cov[q] \cup {f} ELSE cov[q] \ {f}]
       /\ ban' = [q \in Proc |-> IF s \in ban[q] THEN ban[q] \cup {f} ELSE ban[q] \ {f}]
       /\ exc' = Forget(exc, f)
       /\ SetHold(p, "u", s, f, k)
LinCu(p, r) == LET s == hold[p].a  f == hold[p].b IN
  /\ ed[f].w = p /\ upd[s] = p /\ r.F = {} /\ Len(chain[s]) >= 1
  /\ chain' = [chain EXCEPT ![f] = @ \o Tail(chain[s])]     \* the caller's splicing point is the first stale slice
  /\ ed' = [ed EXCEPT ![f].st = "complete", ![f].w = NoProc]
  /\ rd' = [rd EXCEPT ![s] = @ \ {p}] /\ upd' = [upd EXCEPT ![s] = NoProc]
  /\ sup' = [sup EXCEPT ![s] = TRUE]
  /\ hold' = [hold EXCEPT ![p] = IdleHold]
  /\ UNCHANGED <<dead, cov, exc, ban>>
LinAu(p, r) == LET s == hold[p].a  f == hold[p].b IN
  /\ ed[f].w = p /\ upd[s] = p
  /\ AbortAt(p, f, r.F, rd)
  /\ rd' = [rd EXCEPT ![s] = @ \ {p}] /\ upd' = [upd EXCEPT ![s] = NoProc]
  /\ hold' = [hold EXCEPT ![p] = IdleHold]
  /\ UNCHANGED <<dead, sup, cov, exc, ban>>

Lin(p, r) ==
  /\ pend[p].op # "none" /\ ~done[p]
  /\ done' = [done EXCEPT ![p] = TRUE] /\ res' = [res EXCEPT ![p] = r] /\ UNCHANGED pend
  /\ CASE pend[p].op = "ow" -> LinOw(p, r)
       [] pend[p].op = "ws" -> LinAdd(p, r, hold[p].a)
       [] pend[p].op = "us" -> LinAdd(p, r, hold[p].b)
       [] pend[p].op = "sa" -> LinSa(p)
       [] pend[p].op = "cw" -> LinCw(p)
       [] pend[p].op = "aw" -> LinAw(p, r)
       [] pend[p].op = "or" -> LinOr(p, r)
       [] pend[p].op = "rs" -> LinRs(p, r)
       [] pend[p].op = "cr" -> LinCr(p)
       [] pend[p].op = "cf" -> LinCf(p, r)
       [] pend[p].op \in {"fe", "fk", "p"} -> LinFree(p, r)
       [] pend[p].op = "ou" -> LinOu(p, r)
       [] pend[p].op = "cu" -> LinCu(p, r)
       [] pend[p].op = "au" -> LinAu(p, r)

\* results a call may produce (for model checking, and for calls whose return was not recorded).
\* Freed sets: nothing, the whole chain of an edition, or its first slice only (the prefix that is freed when the stale
\* edition of an update goes / the fresh prefix that is freed first when the fresh one goes; a recorded history can end
\* in the middle of a call).  Declaring the whole chain freed when only a part was is never less permissive.
With(a, b, s, L, F) == [a |-> a, b |-> b, s |-> s, L |-> L, F |-> F, any |-> FALSE]
FreeSets == {{}} \cup {Range(chain[x]) : x \in Anchor} \cup {{chain[x][1]} : x \in {y \in Anchor : chain[y] # <<>>}}
ResDom(p) ==
  LET op == pend[p].op  AA == Anchor \cup {NoA} IN
  CASE op = "ow" -> {With(a, NoA, NoS, <<>>, F) : a \in AA, F \in FreeSets}
    [] op = "or" -> {With(a, NoA, NoS, <<>>, {}) : a \in AA}
    [] op \in {"ws", "us"} -> {With(NoA, NoA, s, <<>>, {}) : s \in Slice \cup {NoS}}
    [] op = "rs" -> {[NoRes EXCEPT !.any = TRUE]} \cup {With(NoA, NoA, NoS, SubSeq(chain[hold[p].a], 1, n), {}) : n \in 0..Len(chain[hold[p].a])}
    [] op \in {"aw", "cf", "fe", "fk", "p", "au"} -> {With(NoA, NoA, NoS, <<>>, F) : F \in FreeSets}
    [] op = "ou" -> {With(a, b, NoS, <<>>, F) : a \in AA, b \in AA, F \in FreeSets}
    [] OTHER -> {NoRes}

Ret(p, op, r) ==
  /\ pend[p].op = op /\ done[p] /\ res[p] = r
  /\ pend' = [pend EXCEPT ![p] = NoPend] /\ done' = [done EXCEPT ![p] = FALSE] /\ res' = [res EXCEPT ![p] = NoRes]
  /\ IF op \in {"fk", "fe"}
     THEN /\ dead' = [a \in Anchor |-> dead[a] \/ (a \in cov[p] /\ ~(AllowUpdRace /\ a \in exc[p]))]     \* G4
          /\ cov' = [cov EXCEPT ![p] = {}] /\ exc' = [exc EXCEPT ![p] = {}] /\ UNCHANGED ban
     ELSE IF op \in {"or", "ou"} THEN ban' = [ban EXCEPT ![p] = {}] /\ UNCHANGED <<dead, cov, exc>>
     ELSE UNCHANGED <<dead, cov, exc, ban>>
  /\ UNCHANGED <<ed, rd, upd, chain, sup, hold>>

\* ---------------------------------------------------------------------------------------------
\* the per-key view of the statement, and what the guards maintain (checked by MC_StoreIndex)
\* ---------------------------------------------------------------------------------------------
EntryState(k) == LET A == {a \in Anchor : ed[a].st # "empty" /\ ed[a].key = k /\ ~sup[a]} IN
                 IF A = {} THEN "absent" ELSE LET a == CHOOSE x \in A : TRUE IN IF dead[a] THEN "deleted" ELSE ed[a].st
Strict == ~AllowUpdRace /\ ~AllowStaleSuffixLoss
TypeOK == /\ \A a \in Anchor : /\ ed[a].st \in States /\ ed[a].key \in Key \cup {0} /\ ed[a].w \in Proc \cup {NoProc}
                               /\ rd[a] \subseteq Proc /\ upd[a] \in Proc \cup {NoProc} /\ Range(chain[a]) \subseteq Slice
          /\ \A p \in Proc : hold[p].m \in {"idle", "w", "r", "u"} /\ pend[p].op \in Ops \cup {"none"}
\* no two writers hold the same entry; a writer coexists with readers only in append mode
OneWriter == \A p, q \in Proc : (p # q /\ hold[p].m \in {"w", "u"} /\ hold[q].m \in {"w", "u"}) =>
                (IF hold[p].m = "w" THEN hold[p].a ELSE hold[p].b) # (IF hold[q].m = "w" THEN hold[q].a ELSE hold[q].b)
WriterOwns == \A p \in Proc : (hold[p].m = "w" => ed[hold[p].a].w = p) /\ (hold[p].m = "u" => ed[hold[p].b].w = p /\ upd[hold[p].a] = p)
WriterExcludesReaders == \A a \in Anchor : (ed[a].w # NoProc /\ rd[a] # {}) => ed[a].st = "appending"
\* what a reader holds stays an entry with its key, and its slices stay its own
ReaderHoldsEntry == Strict => \A p \in Proc : hold[p].m \in {"r", "u"} =>
                      LET a == hold[p].a IN p \in rd[a] /\ ed[a].key = hold[p].k /\ ed[a].st \in {"complete", "appending", "aborted"}
SlicesStable == Strict => \A s \in Slice : \A x, y \in Anchor :
                  (x # y /\ InChain(s, x) /\ InChain(s, y)) => (sup[x] \/ sup[y])
NoChainRepeats == \A a \in Anchor : \A i, j \in 1..Len(chain[a]) : i # j => chain[a][i] # chain[a][j]
====
