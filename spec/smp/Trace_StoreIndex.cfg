INIT TInit
NEXT TNext
CONSTANTS Proc = {0, 1, 2, 3}  Anchor = {0, 1, 2}  Slice = {0, 1, 2}  Key = {1, 2, 4}
          AllowUpdRace = FALSE  AllowStaleSuffixLoss = FALSE
CONSTRAINT Mark
INVARIANT Inv
POSTCONDITION AllAccepted
CHECK_DEADLOCK FALSE
