SPECIFICATION Spec
CONSTANTS Proc = {p1, p2, p3}  MaxOps = 3
INVARIANTS TypeOK MutexW MutexRW MutexHdr IdleClean
CHECK_DEADLOCK FALSE
