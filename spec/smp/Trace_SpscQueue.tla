---- MODULE Trace_SpscQueue ----
(* Validates call/return histories recorded from the real Ipc::OneToOneUniQueue / QueueReader (and, with
   two producers, Ipc::FewToFewBiQueue) against the P-layer SpscQueue.  One ndjson line per history:
   {"ev":[{"e":"c"|"r"|"a","p":fiber,"op":"push"|"pop"|"wake","res":"ok"|"okn"|"full"|"item"|"E"|"T"|"",
           "a":producer of a popped item,"v":pushed / popped value}, ...]}.
   The internal Lin steps (Observe, Unblock, Take, Empty, LinPush, LinWake) are inferred by TLC; a
   history is accepted iff some placement of them between the recorded calls and returns exists.
   An "a" event (assertion failure inside the real code) matches no action: the history is rejected. *)
EXTENDS SpscQueue, TraceLib
VARIABLES h, l
TInit == PInit /\ h \in 1..NHist /\ l = 1
Ev == Events(h)[l]
TCall == /\ l <= Len(Events(h)) /\ Ev.e = "c" /\ Call(Ev.p, Ev.op, Ev.v) /\ l' = l + 1 /\ h' = h
TRet == /\ l <= Len(Events(h)) /\ Ev.e = "r" /\ Ret(Ev.p, Ev.op, R(Ev.res, Ev.a, Ev.v)) /\ l' = l + 1 /\ h' = h
TLin == /\ l <= Len(Events(h)) /\ \E p \in Proc : Lin(p) /\ UNCHANGED <<h, l>>
TNext == TCall \/ TRet \/ TLin
Mark == MarkAccepted(h, l)
Inv == Fifo /\ Bounded /\ NoLostWakeup /\ NoSleepWithItems
====
