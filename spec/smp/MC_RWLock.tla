---- MODULE MC_RWLock ----
EXTENDS RWLock, TLC
====
