SPECIFICATION PSpec
CONSTANTS Proc = {p0, p1, p2}
INVARIANTS TypeOK OneWriter WriterExcludesReaders OneHeaderUpdater
CHECK_DEADLOCK FALSE
