SPECIFICATION FairSpec
CONSTANTS ProdSeq <- One  Cap = 2  K = 3  Eager = FALSE
INVARIANTS TypeOK Fifo NoPhantom SizeOk NoLostWakeup IdleBlocked NotifyJustified
PROPERTY AllDelivered
CHECK_DEADLOCK FALSE

