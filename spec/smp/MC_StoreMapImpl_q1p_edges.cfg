SPECIFICATION Spec
CONSTANTS Proc = {0}  N = 3  Keys = {1}  MaxOps = 4  MaxW = 1  Spurious = FALSE
          Pre <- PreTwo
          Kinds <- AllKinds
INVARIANTS TypeOK OneWriter ReaderHoldsEntry Asserts Quiescent
ACTION_CONSTRAINT Dump
CHECK_DEADLOCK FALSE
