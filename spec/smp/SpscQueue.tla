---- MODULE SpscQueue ----
(* P-layer for C56: Ipc::OneToOneUniQueue + Ipc::QueueReader as a linearizable single-producer
   single-consumer FIFO with an abstract notification channel.

   Every public call is Call(p, op, v) ... Lin(p) ... Ret(p, op, r): the operation takes effect
   atomically at an internal step between its call and its return and the result is fixed there.
   The guards of the Lin steps ARE the property, so a recorded call/return history that breaks the
   property is not a behaviour of this module:

     FIFO / no loss / no duplicates   pop returns exactly Head(q); push appends; nothing else touches q.
     empty is justified               pop may answer "E" only after it found the queue empty (Observe).
     full is justified                push may answer "full" only when q holds Cap items at that point.
     no lost wakeup                   once the consumer has found the queue empty and has not taken an item
                                      or handled a notification since (a \in seenEmpty; after the "E"
                                      answer: sleeping), a push may answer plain "ok" only if a
                                      notification is already pending (notes > 0); otherwise it must answer
                                      "okn" = "the caller must notify the reader".

   Prod has one element for the property as stated.  With several producers the module describes
   the real usage pattern (BaseMultiQueue: one queue per producer, all sharing the consumer's
   QueueReader; pop visits the queues round-robin): "E" then needs every queue to have been found
   empty during that pop (not simultaneously), and the notification obligation is per queue. *)
EXTENDS Naturals, Sequences, FiniteSets
CONSTANTS Prod,   \* producer process ids
          Cons,   \* consumer process id
          Cap     \* capacity of each queue
VARIABLES q,          \* q[a]: abstract content of the queue from producer a
          pushed,     \* pushed[a]: every item whose push was accepted, in order (history variable)
          delivered,  \* delivered[a]: every item popped, in order (history variable)
          notes,      \* notifications requested by pushes ("okn") and not yet consumed by the consumer
          seenEmpty,  \* queues the consumer found empty since it last took an item / handled a notification
          sleeping,   \* the consumer answered "E": it is idle and only a notification brings it back
          mustTake,   \* the current pop has stopped waiting (unblock) and is committed to return an item
          pend, arg, res
pvars == <<q, pushed, delivered, notes, seenEmpty, sleeping, mustTake, pend, arg, res>>

Proc == Prod \cup {Cons}
NoRes == [r |-> "no", a |-> 0, v |-> 0]
R(r, a, v) == [r |-> r, a |-> a, v |-> v]

PInit == /\ q = [a \in Prod |-> <<>>] /\ pushed = [a \in Prod |-> <<>>] /\ delivered = [a \in Prod |-> <<>>]
         /\ notes = 0 /\ seenEmpty = {} /\ sleeping = FALSE /\ mustTake = FALSE
         /\ pend = [p \in Proc |-> "none"] /\ arg = [p \in Proc |-> 0] /\ res = [p \in Proc |-> NoRes]

\* caller protocol (the quantifier of C56): the consumer pops until "E", then idles; it calls wake
\* (clearReaderSignal) only for a notification it was sent.
MayCall(p, op) ==
  CASE op = "push" -> p \in Prod
    [] op = "pop"  -> p = Cons /\ ~sleeping
    [] op = "wake" -> p = Cons /\ notes > 0
    [] OTHER -> FALSE

Call(p, op, v) ==
  /\ pend[p] = "none" /\ MayCall(p, op)
  /\ pend' = [pend EXCEPT ![p] = op] /\ arg' = [arg EXCEPT ![p] = v] /\ res' = [res EXCEPT ![p] = NoRes]
  /\ IF op = "wake"   \* the notification is consumed; from here on the consumer is committed to pop until "E" again
       THEN notes' = notes - 1 /\ sleeping' = FALSE /\ seenEmpty' = {}
       ELSE UNCHANGED <<notes, sleeping, seenEmpty>>
  /\ UNCHANGED <<q, pushed, delivered, mustTake>>

SetRes(p, r) == res' = [res EXCEPT ![p] = r]

\* ---- push ----
LinPush(p) ==
  /\ pend[p] = "push" /\ res[p] = NoRes
  /\ \/ /\ Len(q[p]) = Cap /\ SetRes(p, R("full", 0, 0))                      \* full only when really full
        /\ UNCHANGED <<q, pushed, notes>>
     \/ /\ Len(q[p]) < Cap
        /\ q' = [q EXCEPT ![p] = Append(@, arg[p])] /\ pushed' = [pushed EXCEPT ![p] = Append(@, arg[p])]
        /\ \/ SetRes(p, R("okn", 0, 0)) /\ notes' = notes + 1                   \* asking for a notification is always allowed
           \/ /\ ~(p \in seenEmpty /\ notes = 0)                               \* NO LOST WAKEUP
              /\ SetRes(p, R("ok", 0, 0)) /\ UNCHANGED notes
  /\ UNCHANGED <<delivered, seenEmpty, sleeping, mustTake, pend, arg>>

\* ---- pop: internal steps ----
Observe(a) ==   \* the consumer finds queue a empty while marked as blocked
  /\ pend[Cons] = "pop" /\ res[Cons] = NoRes /\ ~mustTake
  /\ a \notin seenEmpty /\ q[a] = <<>>
  /\ seenEmpty' = seenEmpty \cup {a}
  /\ UNCHANGED <<q, pushed, delivered, notes, sleeping, mustTake, pend, arg, res>>
Unblock ==      \* the consumer has seen an item and stops waiting; this pop must now deliver an item
  /\ pend[Cons] = "pop" /\ res[Cons] = NoRes /\ ~mustTake
  /\ \E a \in Prod : q[a] # <<>>
  /\ seenEmpty' = {} /\ mustTake' = TRUE
  /\ UNCHANGED <<q, pushed, delivered, notes, sleeping, pend, arg, res>>
Take(a) ==
  /\ pend[Cons] = "pop" /\ res[Cons] = NoRes
  /\ q[a] # <<>>
  /\ SetRes(Cons, R("item", a, Head(q[a])))                                    \* FIFO: exactly the oldest item
  /\ q' = [q EXCEPT ![a] = Tail(@)] /\ delivered' = [delivered EXCEPT ![a] = Append(@, Head(q[a]))]
  /\ seenEmpty' = {} /\ mustTake' = FALSE
  /\ UNCHANGED <<pushed, notes, sleeping, pend, arg>>
Empty ==
  /\ pend[Cons] = "pop" /\ res[Cons] = NoRes /\ ~mustTake
  /\ seenEmpty = Prod                                                          \* "E" only after every queue was found empty
  /\ SetRes(Cons, R("E", 0, 0)) /\ sleeping' = TRUE
  /\ UNCHANGED <<q, pushed, delivered, notes, seenEmpty, mustTake, pend, arg>>
LinWake ==
  /\ pend[Cons] = "wake" /\ res[Cons] = NoRes /\ SetRes(Cons, R("T", 0, 0))
  /\ UNCHANGED <<q, pushed, delivered, notes, seenEmpty, sleeping, mustTake, pend, arg>>

Lin(p) == IF p \in Prod THEN LinPush(p)
          ELSE Unblock \/ Empty \/ LinWake \/ \E a \in Prod : Observe(a) \/ Take(a)

Ret(p, op, r) ==
  /\ pend[p] = op /\ res[p] = r /\ r # NoRes
  /\ pend' = [pend EXCEPT ![p] = "none"] /\ res' = [res EXCEPT ![p] = NoRes]
  /\ UNCHANGED <<q, pushed, delivered, notes, seenEmpty, sleeping, mustTake, arg>>

\* ---- the property (C56) as invariants of the abstract state ----
IsPrefix(s, t) == Len(s) <= Len(t) /\ \A i \in 1..Len(s) : s[i] = t[i]
\* the consumer has received exactly the pushed items, in order, each once; what is missing is still queued
Fifo == \A a \in Prod : IsPrefix(delivered[a], pushed[a]) /\ pushed[a] = delivered[a] \o q[a]
Bounded == \A a \in Prod : Len(q[a]) <= Cap
\* a consumer that has found a queue empty never misses what is pushed afterwards
NoLostWakeup == \A a \in Prod : (a \in seenEmpty /\ q[a] # <<>>) => notes > 0
\* the same in the words of the statement: idle consumer and items remain => a notification is pending or a push is still in progress
NoSleepWithItems == (sleeping /\ \E a \in Prod : q[a] # <<>>) => (notes > 0 \/ \E p \in Prod : pend[p] = "push")
SleepingSawAll == sleeping => seenEmpty = Prod
====
