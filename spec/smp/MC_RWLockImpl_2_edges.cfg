SPECIFICATION Spec
CONSTANTS Proc = {p1, p2}  MaxOps = 3
INVARIANTS TypeOK MutexW MutexRW MutexHdr IdleClean
ACTION_CONSTRAINT Dump
CHECK_DEADLOCK FALSE
