SPECIFICATION Spec
CONSTANTS ProdSeq <- One  Cap = 1  K = 2  Eager = FALSE
INVARIANTS TypeOK Fifo NoPhantom SizeOk NoLostWakeup IdleBlocked NotifyJustified

CHECK_DEADLOCK FALSE

ACTION_CONSTRAINT Dump
