INIT TInit
NEXT TNext
CONSTANTS Prod = {0}  Cons = 1  Cap = 2
CONSTRAINT Mark
INVARIANT Inv
POSTCONDITION AllAccepted
CHECK_DEADLOCK FALSE
