SPECIFICATION MCSpecOne
CONSTANTS Proc = {0, 1}  Anchor = {0, 1}  Slice = {0, 1}  Key = {1}
          AllowUpdRace = FALSE  AllowStaleSuffixLoss = FALSE
          MCOps = {"or", "rs", "cr", "fk", "ou", "us", "cu", "au"}
INVARIANTS TypeOK OneWriter WriterOwns WriterExcludesReaders ReaderHoldsEntry SlicesStable NoChainRepeats
CHECK_DEADLOCK FALSE
