---- MODULE MC_StoreMapImpl ----
EXTENDS StoreMapImpl
PreNone == <<>>
PreOne == << <<1, 1>> >>       \* key 1 stored with one slice
PreTwo == << <<1, 2>> >>       \* key 1 stored with two slices
CoreKinds == {"ow", "ws", "sa", "cw", "aw", "or", "rs", "cr", "cf", "fe", "fk", "p"}
WriteReadKinds == {"ow", "ws", "sa", "cw", "aw", "or", "rs", "cr"}
ReadFreeKinds == {"or", "rs", "cr", "cf", "fe", "fk", "p", "ow", "cw"}
QwKinds == {"ow", "ws", "cw", "or", "rs", "cr"}
QaKinds == {"ow", "ws", "sa", "aw", "or", "cr"}
QfKinds == {"or", "cr", "cf", "fe", "fk", "p"}
UpdKinds == {"ou", "us", "cu", "au", "or", "rs", "cr", "fk"}
AllKinds == CoreKinds \cup {"ou", "us", "cu", "au"}
QuKinds == {"ou", "us", "cu", "au", "or", "cr"}
Qf1Kinds == {"or", "cr", "cf", "fk"}
Qf2Kinds == {"or", "cr", "fe", "p"}
Qu1Kinds == {"ou", "us", "cu", "fk"}
Qu2Kinds == {"ou", "us", "au", "or", "cr"}
====
