---- MODULE StoreMapImpl ----
(* I-layer for C55: src/ipc/StoreMap.cc as it is today, one action per shared access between lock operations.
   The lock (Ipc::ReadWriteLock) is abstracted to the linearizable try-lock that C54 establishes: one action per
   lock operation, acquisitions may fail spuriously when Spurious = TRUE.  The non-atomic code that follows a shared
   access (key memcpy/memset/compare, the cleaner callback, the decisions taken on the value read) belongs to the
   action of that access.  The caller is harness/s_storemap.cc: one operation = one public StoreMap call:
     ow(k) openForWriting + setKey   ws add a slice (pool -> prepFreeSlice -> size -> link)   sa startAppending
     cw closeForWriting   aw abortWriting   or(k) openForReading   rs walk the chain   cr closeForReading
     cf closeForReadingAndFreeIdle   fe freeEntry(own fileno)   fk(k) freeEntryByKey   p purgeOne
     ou(k) openForUpdating(no hint) + fresh.anchor->set   us add a slice to the fresh prefix   cu closeForUpdating (splicing
     point = first stale slice, fresh prefix = what us wrote)   au abortUpdating
   Mismatches between this module and the code are DRIFT, never a violation.
   The module also carries the property as invariants over ghost variables that change at call/return only (H). *)
EXTENDS Integers, Sequences, FiniteSets, TLC, Json
CONSTANTS Proc,      \* process ids 0..
          N,         \* number of anchors = names = slices
          Keys,      \* key alphabet (name of key k is k % N)
          Kinds,     \* operation kinds the callers use
          MaxOps,    \* operations per process
          MaxW,      \* slices a writer may add (an updater adds at most one)
          Spurious,  \* BOOLEAN: lock acquisitions may fail without reason
          Pre        \* sequence of <<key, number of slices>>: entries stored before the processes start
VARIABLES A,    \* anchors: [0..N-1 -> [key, wtbf, halted, start, splice, rdrs, wr, app, updg]]
          S,    \* slices:  [0..N-1 -> [size, next]]
          G,    \* [fileNos: [0..N-1 -> 0..N], count, victim, pool]
          pc, L, H, ret, ops
vars == <<A, S, G, pc, L, H, ret, ops>>
Idx == 0..(N - 1)

NoL == [op |-> "none", k |-> 0, a |-> -1, b |-> -1, cur |-> -1, nxt |-> -1, sp |-> -1, tries |-> 0, seen |-> <<>>, freed |-> <<>>,
        cont |-> "none", keep |-> FALSE, s |-> -1, ok |-> "T", t |-> -1, nm |-> -1, sfx |-> -1]
IdleH == [m |-> "idle", a |-> -1, b |-> -1, k |-> 0, last |-> -1, n |-> 0, app |-> FALSE, first |-> -1, fn |-> -1]
NoRet == [op |-> "none", k |-> 0, a |-> -1, b |-> -1, first |-> -1, s |-> -1, seen |-> <<>>, freed |-> <<>>, ok |-> "T"]
EmptyAnchor == [key |-> 0, wtbf |-> 0, halted |-> 0, start |-> 0, splice |-> -1, rdrs |-> 0, wr |-> FALSE, app |-> FALSE, updg |-> FALSE]

\* ---- initial state: the Pre entries are written the way the harness writes them (sequentially, before the start) ----
RECURSIVE PreA(_, _), PreS(_, _)
Offset(i) == IF i = 1 THEN 0 ELSE LET RECURSIVE Sum(_) Sum(j) == IF j = 0 THEN 0 ELSE Pre[j][2] + Sum(j - 1) IN Sum(i - 1)
PreA(i, a) == IF i > Len(Pre) THEN a
              ELSE PreA(i + 1, [a EXCEPT ![Pre[i][1] % N] = [EmptyAnchor EXCEPT !.key = Pre[i][1],
                                                             !.start = IF Pre[i][2] = 0 THEN -1 ELSE Offset(i)]])
PreS(i, s) == IF i > Len(Pre) THEN s
              ELSE PreS(i + 1, [x \in Idx |-> IF x >= Offset(i) /\ x < Offset(i) + Pre[i][2]
                                              THEN [size |-> 1, next |-> IF x + 1 < Offset(i) + Pre[i][2] THEN x + 1 ELSE -1]
                                              ELSE s[x]])
PreUsed == IF Len(Pre) = 0 THEN 0 ELSE Offset(Len(Pre)) + Pre[Len(Pre)][2]
Init == /\ A = PreA(1, [a \in Idx |-> EmptyAnchor])
        /\ S = PreS(1, [s \in Idx |-> [size |-> 0, next |-> -1]])
        /\ G = [fileNos |-> [i \in Idx |-> 0], count |-> Len(Pre), victim |-> 0, pool |-> {s \in Idx : s >= PreUsed}]
        /\ pc = [p \in Proc |-> "idle"] /\ L = [p \in Proc |-> NoL] /\ H = [p \in Proc |-> IdleH]
        /\ ret = [p \in Proc |-> NoRet] /\ ops = [p \in Proc |-> 0]

\* ---- helpers ----
Goto(p, l) == pc' = [pc EXCEPT ![p] = l]
Loc(p, r) == L' = [L EXCEPT ![p] = r]
FileNoOf(name) == IF G.fileNos[name] # 0 THEN G.fileNos[name] - 1 ELSE name
Min(X) == CHOOSE x \in X : \A y \in X : x <= y
Done(p, h) == /\ Goto(p, "idle") /\ H' = [H EXCEPT ![p] = h]
              /\ ret' = [ret EXCEPT ![p] = [op |-> L[p].op, k |-> L[p].k, a |-> L'[p].a, b |-> L'[p].b, first |-> h.first, s |-> L'[p].s,
                                            seen |-> L'[p].seen, freed |-> L'[p].freed, ok |-> L'[p].ok]]
Same(p) == UNCHANGED <<H, ret>>
\* the try-lock
ExclOk(a) == A[a].rdrs = 0 /\ ~A[a].wr
SharedOk(a) == ~A[a].wr \/ A[a].app
Unlocked(a) == [A EXCEPT ![a].wr = FALSE, ![a].app = FALSE]
\* where freeChain() starts: `if (!inode.empty())` is evaluated in the step that calls it
FCEntry(a) == IF A[a].key # 0 THEN "fc1" ELSE "fc6"

\* ---- operation start (caller protocol = enabledOps of the harness) ----
Begin(p, kind, k) ==
  /\ pc[p] = "idle" /\ ops[p] < MaxOps /\ kind \in Kinds
  /\ CASE kind \in {"ow", "or", "fk", "ou"} -> H[p].m = "idle" /\ k \in Keys
       [] kind = "p" -> H[p].m = "idle" /\ k = 0
       [] kind = "ws" -> H[p].m = "w" /\ H[p].n < MaxW /\ G.pool # {} /\ k = 0
       [] kind = "sa" -> H[p].m = "w" /\ ~H[p].app /\ k = 0
       [] kind \in {"cw", "aw"} -> H[p].m = "w" /\ k = 0
       [] kind \in {"rs", "cr", "cf", "fe"} -> H[p].m = "r" /\ k = 0
       [] kind = "us" -> H[p].m = "u" /\ H[p].n < 1 /\ G.pool # {} /\ k = 0
       [] kind = "cu" -> H[p].m = "u" /\ H[p].n > 0 /\ H[p].first >= 0 /\ k = 0
       [] kind = "au" -> H[p].m = "u" /\ k = 0
       [] OTHER -> FALSE
  /\ ops' = [ops EXCEPT ![p] = @ + 1]
  /\ Loc(p, [NoL EXCEPT !.op = kind, !.k = k, !.a = H[p].a, !.b = H[p].b])
  /\ Goto(p, kind \o "1")
  \* ghost: a release counts from its call, an acquisition from its return
  /\ H' = [H EXCEPT ![p].m = IF kind \in {"cw", "aw", "cr", "cf", "cu", "au"} THEN "rel" ELSE @]
  /\ UNCHANGED <<A, S, G, ret>>

\* ---- freeChain(fileno, inode, keepLocked) + freeChainAt + rewind; continues at L[p].cont ----
FT(p) == IF L[p].t >= 0 THEN L[p].t ELSE L[p].a      \* the anchor being freed
FC1(p) == /\ pc[p] = "fc1" /\ Loc(p, [L[p] EXCEPT !.sp = A[FT(p)].splice]) /\ Goto(p, "fc2")
          /\ UNCHANGED <<A, S, G, ops>> /\ Same(p)
FC2(p) == /\ pc[p] = "fc2" /\ LET st == A[FT(p)].start IN
             /\ Loc(p, [L[p] EXCEPT !.cur = st]) /\ Goto(p, IF st >= 0 THEN "fc3" ELSE "fc6")
          /\ UNCHANGED <<A, S, G, ops>> /\ Same(p)
FC3(p) == /\ pc[p] = "fc3" /\ Loc(p, [L[p] EXCEPT !.nxt = S[L[p].cur].next]) /\ Goto(p, "fc4")
          /\ UNCHANGED <<A, S, G, ops>> /\ Same(p)
FC4(p) == /\ pc[p] = "fc4" /\ S' = [S EXCEPT ![L[p].cur].size = 0] /\ Goto(p, "fc5")
          /\ UNCHANGED <<A, G, L, ops>> /\ Same(p)
FC5(p) == /\ pc[p] = "fc5" /\ S' = [S EXCEPT ![L[p].cur].next = -1]
          /\ G' = [G EXCEPT !.pool = @ \cup {L[p].cur}]                    \* cleaner->noteFreeMapSlice()
          /\ LET stop == L[p].cur = L[p].sp \/ L[p].nxt < 0 IN
             /\ Loc(p, [L[p] EXCEPT !.freed = Append(@, L[p].cur), !.cur = IF L[p].cur = L[p].sp THEN @ ELSE L[p].nxt])
             /\ Goto(p, IF stop THEN "fc6" ELSE "fc3")
          /\ UNCHANGED <<A, ops>> /\ Same(p)
FC6(p) == /\ pc[p] = "fc6" /\ A' = [A EXCEPT ![FT(p)].start = 0] /\ Goto(p, "fc7")
          /\ UNCHANGED <<S, G, L, ops>> /\ Same(p)
FC7(p) == /\ pc[p] = "fc7" /\ A' = [A EXCEPT ![FT(p)].splice = -1, ![FT(p)].key = 0] /\ Goto(p, "fc8")   \* + memset(key)
          /\ UNCHANGED <<S, G, L, ops>> /\ Same(p)
FC8(p) == /\ pc[p] = "fc8" /\ Goto(p, "fc9") /\ UNCHANGED <<A, S, G, L, ops>> /\ Same(p)                    \* basics.swap_file_sz = 0
FC9(p) == /\ pc[p] = "fc9" /\ A' = [A EXCEPT ![FT(p)].wtbf = 0] /\ Goto(p, "fc10")
          /\ UNCHANGED <<S, G, L, ops>> /\ Same(p)
FC10(p) == /\ pc[p] = "fc10" /\ A' = [A EXCEPT ![FT(p)].halted = 0] /\ Goto(p, IF L[p].keep THEN "fc12" ELSE "fc11")
           /\ UNCHANGED <<S, G, L, ops>> /\ Same(p)
FC11(p) == /\ pc[p] = "fc11" /\ A' = Unlocked(FT(p)) /\ Goto(p, "fc12")
           /\ UNCHANGED <<S, G, L, ops>> /\ Same(p)
FC12(p) == /\ pc[p] = "fc12" /\ G' = [G EXCEPT !.count = @ - 1] /\ UNCHANGED <<A, S, L, ops>>
           /\ IF L[p].cont = "ret" THEN Done(p, IdleH) ELSE Goto(p, L[p].cont) /\ Same(p)

\* ---- openForWriting(key) + setKey ----
OW1(p) == /\ pc[p] = "ow1" /\ Loc(p, [L[p] EXCEPT !.a = FileNoOf(L[p].k % N)]) /\ Goto(p, "ow2")
          /\ UNCHANGED <<A, S, G, ops>> /\ Same(p)
OW2(p) == /\ pc[p] = "ow2" /\ UNCHANGED <<S, G, ops>>
          /\ \/ /\ ExclOk(L[p].a) /\ A' = [A EXCEPT ![L[p].a].wr = TRUE] /\ Goto(p, "ow3") /\ UNCHANGED L /\ Same(p)
             \/ /\ (~ExclOk(L[p].a) \/ Spurious) /\ Loc(p, [L[p] EXCEPT !.a = -1]) /\ Done(p, IdleH) /\ UNCHANGED A
OW3(p) == /\ pc[p] = "ow3" /\ Goto(p, "ow4") /\ UNCHANGED <<A, S, G, L, ops>> /\ Same(p)       \* !waitingToBeFreed && !empty() && !overwriteExisting
OW4(p) == /\ pc[p] = "ow4" /\ UNCHANGED <<A, S, G, ops>> /\ Same(p)
          /\ IF A[L[p].a].wtbf = 1 \/ A[L[p].a].key # 0
             THEN Loc(p, [L[p] EXCEPT !.cont = "ow5", !.keep = TRUE]) /\ Goto(p, FCEntry(L[p].a))
             ELSE UNCHANGED L /\ Goto(p, "ow5")
OW5(p) == /\ pc[p] = "ow5" /\ A' = [A EXCEPT ![L[p].a].start = -1] /\ Goto(p, "ow6") /\ UNCHANGED <<S, G, L, ops>> /\ Same(p)
OW6(p) == /\ pc[p] = "ow6" /\ A' = [A EXCEPT ![L[p].a].splice = -1] /\ Goto(p, "ow7") /\ UNCHANGED <<S, G, L, ops>> /\ Same(p)
OW7(p) == /\ pc[p] = "ow7" /\ G' = [G EXCEPT !.count = @ + 1] /\ A' = [A EXCEPT ![L[p].a].key = L[p].k]   \* + the caller's setKey memcpy
          /\ Goto(p, "ow8") /\ UNCHANGED <<S, L, ops>> /\ Same(p)
OW8(p) == /\ pc[p] = "ow8" /\ A' = [A EXCEPT ![L[p].a].wtbf = 0] /\ UNCHANGED <<S, G, L, ops>>
          /\ Done(p, [IdleH EXCEPT !.m = "w", !.a = L[p].a, !.k = L[p].k])

\* ---- the writer adds a slice ----
WS1(p) == /\ pc[p] = "ws1" /\ LET s == Min(G.pool) IN
             /\ G' = [G EXCEPT !.pool = @ \ {s}] /\ S' = [S EXCEPT ![s].size = 0] /\ Loc(p, [L[p] EXCEPT !.s = s])
          /\ Goto(p, "ws2") /\ UNCHANGED <<A, ops>> /\ Same(p)
WS2(p) == /\ pc[p] = "ws2" /\ S' = [S EXCEPT ![L[p].s].next = -1] /\ Goto(p, "ws3") /\ UNCHANGED <<A, G, L, ops>> /\ Same(p)
WS3(p) == /\ pc[p] = "ws3" /\ S' = [S EXCEPT ![L[p].s].size = 1] /\ Goto(p, "ws4") /\ UNCHANGED <<A, G, L, ops>> /\ Same(p)
WS4(p) == /\ pc[p] = "ws4" /\ UNCHANGED <<G, L, ops>>
          /\ IF H[p].last < 0 THEN A' = [A EXCEPT ![H[p].a].start = L[p].s] /\ UNCHANGED S
                              ELSE S' = [S EXCEPT ![H[p].last].next = L[p].s] /\ UNCHANGED A
          /\ Done(p, [H[p] EXCEPT !.last = L[p].s, !.n = @ + 1])
SA1(p) == /\ pc[p] = "sa1" /\ A' = [A EXCEPT ![H[p].a].app = TRUE] /\ UNCHANGED <<S, G, L, ops>>
          /\ Done(p, [H[p] EXCEPT !.app = TRUE])
CW1(p) == /\ pc[p] = "cw1" /\ A' = Unlocked(H[p].a) /\ UNCHANGED <<S, G, L, ops>> /\ Done(p, IdleH)
\* ---- abortWriting ----
AW1(p) == /\ pc[p] = "aw1" /\ UNCHANGED <<A, S, G, ops>> /\ Same(p)
          /\ IF ~A[L[p].a].app THEN Loc(p, [L[p] EXCEPT !.cont = "ret", !.keep = FALSE]) /\ Goto(p, FCEntry(L[p].a))
                               ELSE UNCHANGED L /\ Goto(p, "aw2")
AW2(p) == /\ pc[p] = "aw2" /\ A' = [A EXCEPT ![L[p].a].app = FALSE] /\ UNCHANGED <<S, G, ops>> /\ Same(p)
          /\ \/ /\ A[L[p].a].rdrs = 0 /\ Loc(p, [L[p] EXCEPT !.cont = "ret", !.keep = FALSE]) /\ Goto(p, FCEntry(L[p].a))
             \/ /\ (A[L[p].a].rdrs # 0 \/ Spurious) /\ UNCHANGED L /\ Goto(p, "aw3")
AW3(p) == /\ pc[p] = "aw3" /\ A' = [A EXCEPT ![L[p].a].wtbf = 1] /\ Goto(p, "aw4") /\ UNCHANGED <<S, G, L, ops>> /\ Same(p)
AW4(p) == /\ pc[p] = "aw4" /\ A' = [A EXCEPT ![L[p].a].halted = 1] /\ Goto(p, "aw5") /\ UNCHANGED <<S, G, L, ops>> /\ Same(p)
AW5(p) == /\ pc[p] = "aw5" /\ A' = Unlocked(L[p].a) /\ UNCHANGED <<S, G, L, ops>> /\ Done(p, IdleH)

\* ---- openForReading(key) ----
OR1(p) == /\ pc[p] = "or1" /\ Loc(p, [L[p] EXCEPT !.a = FileNoOf(L[p].k % N)]) /\ Goto(p, "or2")
          /\ UNCHANGED <<A, S, G, ops>> /\ Same(p)
OR2(p) == /\ pc[p] = "or2" /\ UNCHANGED <<S, G, ops>>
          /\ \/ /\ SharedOk(L[p].a) /\ A' = [A EXCEPT ![L[p].a].rdrs = @ + 1] /\ UNCHANGED L /\ Same(p)
                /\ Goto(p, IF A[L[p].a].key = 0 THEN "or4" ELSE "or3")
             \/ /\ (~SharedOk(L[p].a) \/ Spurious) /\ Loc(p, [L[p] EXCEPT !.a = -1]) /\ Done(p, IdleH) /\ UNCHANGED A
OR3(p) == /\ pc[p] = "or3" /\ UNCHANGED <<A, S, G, L, ops>>
          /\ IF A[L[p].a].wtbf = 1 \/ A[L[p].a].key # L[p].k THEN Goto(p, "or4") /\ Same(p)
             ELSE Done(p, [IdleH EXCEPT !.m = "r", !.a = L[p].a, !.k = L[p].k])
OR4(p) == /\ pc[p] = "or4" /\ A' = [A EXCEPT ![L[p].a].rdrs = @ - 1] /\ Loc(p, [L[p] EXCEPT !.a = -1]) /\ Done(p, IdleH)
          /\ UNCHANGED <<S, G, ops>>
\* ---- the reader walks its chain ----
RS1(p) == /\ pc[p] = "rs1" /\ UNCHANGED <<A, S, G, ops>> /\ LET st == A[H[p].a].start IN
             /\ Loc(p, [L[p] EXCEPT !.cur = st])
             /\ IF st >= 0 THEN Goto(p, "rs2") /\ Same(p) ELSE Done(p, H[p])
RS2(p) == /\ pc[p] = "rs2" /\ UNCHANGED <<A, S, G, ops>> /\ LET nx == S[L[p].cur].next  sn == Append(L[p].seen, L[p].cur) IN
             /\ Loc(p, [L[p] EXCEPT !.seen = sn, !.cur = nx])
             /\ IF nx >= 0 /\ Len(sn) <= N THEN Goto(p, "rs2") /\ Same(p) ELSE Done(p, H[p])
CR1(p) == /\ pc[p] = "cr1" /\ A' = [A EXCEPT ![H[p].a].rdrs = @ - 1] /\ UNCHANGED <<S, G, L, ops>> /\ Done(p, IdleH)
\* ---- closeForReadingAndFreeIdle ----
CF1(p) == /\ pc[p] = "cf1" /\ UNCHANGED <<S, G, ops>> /\ LET a == L[p].a IN
             \/ /\ ~A[a].wr /\ A[a].rdrs = 1 /\ A' = [A EXCEPT ![a].rdrs = 0, ![a].wr = TRUE]
                /\ Loc(p, [L[p] EXCEPT !.cont = "ret", !.keep = FALSE]) /\ Goto(p, FCEntry(a)) /\ Same(p)
             \/ /\ (A[a].wr \/ A[a].rdrs # 1 \/ Spurious) /\ A' = [A EXCEPT ![a].rdrs = @ - 1] /\ UNCHANGED L /\ Done(p, IdleH)
\* ---- freeEntry(fileno) by a holder ----
FE1(p) == /\ pc[p] = "fe1" /\ UNCHANGED <<S, G, L, ops>> /\ Same(p)
          /\ \/ /\ ExclOk(L[p].a) /\ A' = [A EXCEPT ![L[p].a].wr = TRUE] /\ Goto(p, "fe2")
             \/ /\ (~ExclOk(L[p].a) \/ Spurious) /\ UNCHANGED A /\ Goto(p, "fe3")
FE2(p) == /\ pc[p] = "fe2" /\ UNCHANGED <<A, S, G, ops>> /\ Same(p)
          /\ Loc(p, [L[p] EXCEPT !.ok = IF A[L[p].a].wtbf = 0 /\ A[L[p].a].key # 0 THEN "T" ELSE "F", !.cont = "ret", !.keep = FALSE])
          /\ Goto(p, FCEntry(L[p].a))
FE3(p) == /\ pc[p] = "fe3" /\ UNCHANGED <<S, G, ops>>
          /\ IF A[L[p].a].wtbf = 0 THEN A' = [A EXCEPT ![L[p].a].wtbf = 1] /\ Loc(p, [L[p] EXCEPT !.ok = "T"])
                                   ELSE UNCHANGED A /\ Loc(p, [L[p] EXCEPT !.ok = "F"])
          /\ Done(p, H[p])
\* ---- freeEntryByKey(key) ----
FK1(p) == /\ pc[p] = "fk1" /\ Loc(p, [L[p] EXCEPT !.a = FileNoOf(L[p].k % N)]) /\ Goto(p, "fk2")
          /\ UNCHANGED <<A, S, G, ops>> /\ Same(p)
FK2(p) == /\ pc[p] = "fk2" /\ UNCHANGED <<S, G, ops>> /\ Same(p) /\ LET a == L[p].a IN
             \/ /\ ExclOk(a) /\ A' = [A EXCEPT ![a].wr = TRUE]
                /\ IF A[a].key = L[p].k THEN Loc(p, [L[p] EXCEPT !.cont = "fk3", !.keep = TRUE]) /\ Goto(p, FCEntry(a))
                                        ELSE UNCHANGED L /\ Goto(p, "fk3")
             \/ /\ (~ExclOk(a) \/ Spurious) /\ UNCHANGED <<A, L>> /\ Goto(p, "fk4")
FK3(p) == /\ pc[p] = "fk3" /\ A' = Unlocked(L[p].a) /\ UNCHANGED <<S, G, L, ops>> /\ Done(p, IdleH)
FK4(p) == /\ pc[p] = "fk4" /\ UNCHANGED <<S, G, L, ops>> /\ LET a == L[p].a IN
             \/ /\ SharedOk(a) /\ A' = [A EXCEPT ![a].rdrs = @ + 1] /\ Goto(p, IF A[a].key = L[p].k THEN "fk5" ELSE "fk6") /\ Same(p)
             \/ /\ (~SharedOk(a) \/ Spurious) /\ UNCHANGED A
                /\ IF A[a].key = L[p].k THEN Goto(p, "fk7") /\ Same(p) ELSE Done(p, IdleH)
FK5(p) == /\ pc[p] = "fk5" /\ A' = [A EXCEPT ![L[p].a].wtbf = 1] /\ Goto(p, "fk6") /\ UNCHANGED <<S, G, L, ops>> /\ Same(p)
FK6(p) == /\ pc[p] = "fk6" /\ A' = [A EXCEPT ![L[p].a].rdrs = @ - 1] /\ UNCHANGED <<S, G, L, ops>> /\ Done(p, IdleH)
FK7(p) == /\ pc[p] = "fk7" /\ A' = [A EXCEPT ![L[p].a].wtbf = 1] /\ UNCHANGED <<S, G, L, ops>> /\ Done(p, IdleH)
\* ---- purgeOne() = visitVictims ----
P1(p) == /\ pc[p] = "p1" /\ G' = [G EXCEPT !.victim = @ + 1]
         /\ Loc(p, [L[p] EXCEPT !.tries = @ + 1, !.nxt = (G.victim + 1) % N]) /\ Goto(p, "p2")       \* nxt holds the name
         /\ UNCHANGED <<A, S, ops>> /\ Same(p)
P2(p) == /\ pc[p] = "p2" /\ Loc(p, [L[p] EXCEPT !.a = FileNoOf(L[p].nxt)]) /\ Goto(p, "p3")
         /\ UNCHANGED <<A, S, G, ops>> /\ Same(p)
PNextTry(p) == IF L[p].tries < N THEN Goto(p, "p1") /\ Same(p) /\ UNCHANGED L
               ELSE Loc(p, [L[p] EXCEPT !.ok = "F", !.a = -1]) /\ Done(p, IdleH)
P3(p) == /\ pc[p] = "p3" /\ UNCHANGED <<S, G, ops>> /\ LET a == L[p].a IN
            \/ /\ ExclOk(a) /\ A' = [A EXCEPT ![a].wr = TRUE] /\ UNCHANGED L /\ Same(p)
               /\ Goto(p, IF A[a].key # 0 THEN "p4" ELSE "p5")
            \/ /\ (~ExclOk(a) \/ Spurious) /\ UNCHANGED A /\ PNextTry(p)
P4(p) == /\ pc[p] = "p4" /\ UNCHANGED <<A, S, G, ops>> /\ Same(p)
         /\ IF A[L[p].a].start >= 0 THEN Loc(p, [L[p] EXCEPT !.cont = "ret", !.keep = FALSE, !.ok = "T"]) /\ Goto(p, FCEntry(L[p].a))
                                    ELSE UNCHANGED L /\ Goto(p, "p5")
P5(p) == /\ pc[p] = "p5" /\ A' = Unlocked(L[p].a) /\ UNCHANGED <<S, G, ops>> /\ PNextTry(p)


\* ---- openForUpdating(update, no hint) + update.fresh.anchor->set(entry) ----
HdrOk(a) == SharedOk(a) /\ ~A[a].updg
OU1(p) == /\ pc[p] = "ou1" /\ Loc(p, [L[p] EXCEPT !.a = FileNoOf(L[p].k % N)]) /\ Goto(p, "ou2")
          /\ UNCHANGED <<A, S, G, ops>> /\ Same(p)
OU2(p) == /\ pc[p] = "ou2" /\ UNCHANGED <<S, G, ops>>
          /\ \/ /\ SharedOk(L[p].a) /\ A' = [A EXCEPT ![L[p].a].rdrs = @ + 1] /\ UNCHANGED L /\ Same(p)
                /\ Goto(p, IF A[L[p].a].key = 0 THEN "ouU" ELSE "ou3")
             \/ /\ (~SharedOk(L[p].a) \/ Spurious) /\ Loc(p, [L[p] EXCEPT !.a = -1]) /\ Done(p, IdleH) /\ UNCHANGED A
OU3(p) == /\ pc[p] = "ou3" /\ UNCHANGED <<A, S, G, L, ops>> /\ Same(p)
          /\ Goto(p, IF A[L[p].a].wtbf = 1 \/ A[L[p].a].key # L[p].k THEN "ouU" ELSE "ou4")
OU4(p) == /\ pc[p] = "ou4" /\ UNCHANGED <<A, S, G, L, ops>> /\ Same(p) /\ Goto(p, IF A[L[p].a].wr THEN "ouU" ELSE "ou5")
OU5(p) == /\ pc[p] = "ou5" /\ UNCHANGED <<S, G, L, ops>> /\ Same(p)
          /\ \/ /\ HdrOk(L[p].a) /\ A' = [A EXCEPT ![L[p].a].rdrs = @ + 1, ![L[p].a].updg = TRUE] /\ Goto(p, "ou6")
             \/ /\ (~HdrOk(L[p].a) \/ Spurious) /\ UNCHANGED A /\ Goto(p, "ouU")
OUU(p) == /\ pc[p] = "ouU" /\ A' = [A EXCEPT ![L[p].a].rdrs = @ - 1] /\ Loc(p, [L[p] EXCEPT !.a = -1, !.b = -1]) /\ Done(p, IdleH)
          /\ UNCHANGED <<S, G, ops>>
\* openKeyless() = visitVictims(openForWritingAt)
OU6(p) == /\ pc[p] = "ou6" /\ G' = [G EXCEPT !.victim = @ + 1]
          /\ Loc(p, [L[p] EXCEPT !.tries = @ + 1, !.nm = (G.victim + 1) % N]) /\ Goto(p, "ou7")
          /\ UNCHANGED <<A, S, ops>> /\ Same(p)
OU7(p) == /\ pc[p] = "ou7" /\ Loc(p, [L[p] EXCEPT !.b = FileNoOf(L[p].nm)]) /\ Goto(p, "ou8")
          /\ UNCHANGED <<A, S, G, ops>> /\ Same(p)
OU8(p) == /\ pc[p] = "ou8" /\ UNCHANGED <<S, G, L, ops>> /\ Same(p)
          /\ \/ /\ ExclOk(L[p].b) /\ A' = [A EXCEPT ![L[p].b].wr = TRUE] /\ Goto(p, "ou9")
             \/ /\ (~ExclOk(L[p].b) \/ Spurious) /\ UNCHANGED A /\ Goto(p, IF L[p].tries < N THEN "ou6" ELSE "ouA1")
OU9(p) == /\ pc[p] = "ou9" /\ Goto(p, "ou10") /\ UNCHANGED <<A, S, G, L, ops>> /\ Same(p)
OU10(p) == /\ pc[p] = "ou10" /\ UNCHANGED <<A, S, G, ops>> /\ Same(p)
           /\ IF A[L[p].b].wtbf = 1 \/ A[L[p].b].key # 0
              THEN Loc(p, [L[p] EXCEPT !.cont = "ou11", !.keep = TRUE, !.t = L[p].b]) /\ Goto(p, FCEntry(L[p].b))
              ELSE UNCHANGED L /\ Goto(p, "ou11")
OU11(p) == /\ pc[p] = "ou11" /\ A' = [A EXCEPT ![L[p].b].start = -1] /\ Goto(p, "ou12") /\ UNCHANGED <<S, G, L, ops>> /\ Same(p)
OU12(p) == /\ pc[p] = "ou12" /\ A' = [A EXCEPT ![L[p].b].splice = -1] /\ Goto(p, "ou13") /\ UNCHANGED <<S, G, L, ops>> /\ Same(p)
OU13(p) == /\ pc[p] = "ou13" /\ G' = [G EXCEPT !.count = @ + 1] /\ A' = [A EXCEPT ![L[p].b].key = L[p].k]     \* + set(entry): setKey memcpy
           /\ Goto(p, "ou14") /\ UNCHANGED <<S, L, ops>> /\ Same(p)
OU14(p) == /\ pc[p] = "ou14" /\ A' = [A EXCEPT ![L[p].b].wtbf = 0] /\ Goto(p, "ou15") /\ UNCHANGED <<S, G, L, ops>> /\ Same(p)
OU15(p) == /\ pc[p] = "ou15" /\ UNCHANGED <<A, S, G, ops>> /\ Loc(p, [L[p] EXCEPT !.t = -1])                     \* basics.swap_file_sz
           /\ Done(p, [IdleH EXCEPT !.m = "u", !.a = L[p].a, !.b = L[p].b, !.k = L[p].k, !.first = A[L[p].a].start, !.fn = L[p].nm])
\* no victim: abortUpdating() with only the stale side set
OUA1(p) == /\ pc[p] = "ouA1" /\ A' = [A EXCEPT ![L[p].a].updg = FALSE, ![L[p].a].rdrs = @ - 1] /\ Goto(p, "ouU")
           /\ UNCHANGED <<S, G, L, ops>> /\ Same(p)
\* ---- the updater adds a slice to the fresh prefix ----
US1(p) == /\ pc[p] = "us1" /\ LET s == Min(G.pool) IN
             /\ G' = [G EXCEPT !.pool = @ \ {s}] /\ S' = [S EXCEPT ![s].size = 0] /\ Loc(p, [L[p] EXCEPT !.s = s])
          /\ Goto(p, "us2") /\ UNCHANGED <<A, ops>> /\ Same(p)
US2(p) == /\ pc[p] = "us2" /\ S' = [S EXCEPT ![L[p].s].next = -1] /\ Goto(p, "us3") /\ UNCHANGED <<A, G, L, ops>> /\ Same(p)
US3(p) == /\ pc[p] = "us3" /\ S' = [S EXCEPT ![L[p].s].size = 1] /\ Goto(p, "us4") /\ UNCHANGED <<A, G, L, ops>> /\ Same(p)
US4(p) == /\ pc[p] = "us4" /\ UNCHANGED <<G, L, ops>>
          /\ IF H[p].last < 0 THEN A' = [A EXCEPT ![H[p].b].start = L[p].s] /\ UNCHANGED S
                              ELSE S' = [S EXCEPT ![H[p].last].next = L[p].s] /\ UNCHANGED A
          /\ Done(p, [H[p] EXCEPT !.last = L[p].s, !.n = @ + 1])
\* ---- closeForUpdating(update): stale.splicingPoint = H.first, fresh.splicingPoint = H.last ----
CULoad(p, from, to) == /\ pc[p] = from /\ Goto(p, to) /\ UNCHANGED <<A, S, G, L, ops>> /\ Same(p)
CU1(p) == CULoad(p, "cu1", "cu2")       \* the four Must()s read stale.start, fresh.start, stale.start, fresh.start
CU2(p) == CULoad(p, "cu2", "cu3")
CU3(p) == CULoad(p, "cu3", "cu4")
CU4(p) == CULoad(p, "cu4", "cu5")
CU5(p) == /\ pc[p] = "cu5" /\ Loc(p, [L[p] EXCEPT !.sfx = S[H[p].first].next]) /\ Goto(p, "cu6")
          /\ UNCHANGED <<A, S, G, ops>> /\ Same(p)
CU6(p) == /\ pc[p] = "cu6" /\ Goto(p, IF S[H[p].last].next < 0 THEN "cu7" ELSE "cu8") /\ UNCHANGED <<A, S, G, L, ops>> /\ Same(p)
CU7(p) == /\ pc[p] = "cu7" /\ S' = [S EXCEPT ![H[p].last].next = L[p].sfx] /\ Goto(p, "cu8") /\ UNCHANGED <<A, G, L, ops>> /\ Same(p)
CU8(p) == /\ pc[p] = "cu8" /\ A' = [A EXCEPT ![L[p].b].wr = FALSE, ![L[p].b].app = FALSE, ![L[p].b].rdrs = @ + 1]   \* switchExclusiveToShared
          /\ Goto(p, "cu9") /\ UNCHANGED <<S, G, L, ops>> /\ Same(p)
CU9(p) == /\ pc[p] = "cu9" /\ UNCHANGED <<A, S, G, ops>> /\ Same(p)
          /\ IF A[L[p].a].wtbf = 1 THEN Loc(p, [L[p] EXCEPT !.cont = "cu10"]) /\ Goto(p, "cuF1") ELSE UNCHANGED L /\ Goto(p, "cu10")
CU10(p) == /\ pc[p] = "cu10" /\ G' = [G EXCEPT !.fileNos[H[p].k % N] = L[p].b + 1] /\ Goto(p, "cu11")           \* relocate(stale.name, fresh)
           /\ UNCHANGED <<A, S, L, ops>> /\ Same(p)
CU11(p) == /\ pc[p] = "cu11" /\ UNCHANGED <<A, S, G, ops>> /\ Same(p)
           /\ IF A[L[p].a].wtbf = 1 THEN Loc(p, [L[p] EXCEPT !.cont = "cu12"]) /\ Goto(p, "cuF1") ELSE UNCHANGED L /\ Goto(p, "cu12")
CU12(p) == /\ pc[p] = "cu12" /\ A' = [A EXCEPT ![L[p].a].splice = H[p].first] /\ Goto(p, "cu13") /\ UNCHANGED <<S, G, L, ops>> /\ Same(p)
CU13(p) == CULoad(p, "cu13", "cu14")    \* freeEntry(stale): lockExclusive fails, we hold a shared lock
CU14(p) == /\ pc[p] = "cu14" /\ A' = [A EXCEPT ![L[p].a].wtbf = 1] /\ Goto(p, "cu15") /\ UNCHANGED <<S, G, L, ops>> /\ Same(p)   \* CAS
CU15(p) == /\ pc[p] = "cu15" /\ G' = [G EXCEPT !.fileNos[H[p].fn] = L[p].a + 1] /\ Goto(p, "cu16")             \* relocate(fresh.name, stale)
           /\ UNCHANGED <<A, S, L, ops>> /\ Same(p)
CU16(p) == /\ pc[p] = "cu16" /\ A' = [A EXCEPT ![L[p].a].updg = FALSE, ![L[p].a].rdrs = @ - 1] /\ Goto(p, "cu17")
           /\ UNCHANGED <<S, G, L, ops>> /\ Same(p)
CU17(p) == /\ pc[p] = "cu17" /\ A' = [A EXCEPT ![L[p].a].rdrs = @ - 1] /\ Goto(p, "cu18") /\ UNCHANGED <<S, G, L, ops>> /\ Same(p)
CU18(p) == /\ pc[p] = "cu18" /\ A' = [A EXCEPT ![L[p].b].rdrs = @ - 1] /\ UNCHANGED <<S, G, L, ops>> /\ Done(p, IdleH)
\* freeEntry(fresh) inside closeForUpdating: lockExclusive fails (we hold a shared lock), the entry gets marked
CUF1(p) == CULoad(p, "cuF1", "cuF2")
CUF2(p) == /\ pc[p] = "cuF2" /\ A' = [A EXCEPT ![L[p].b].wtbf = 1] /\ Goto(p, L[p].cont) /\ UNCHANGED <<S, G, L, ops>> /\ Same(p)
\* ---- abortUpdating(update) ----
AU1(p) == /\ pc[p] = "au1" /\ A' = [A EXCEPT ![L[p].a].updg = FALSE, ![L[p].a].rdrs = @ - 1] /\ Goto(p, "au2")
          /\ UNCHANGED <<S, G, L, ops>> /\ Same(p)
AU2(p) == /\ pc[p] = "au2" /\ A' = [A EXCEPT ![L[p].a].rdrs = @ - 1] /\ Goto(p, "au3") /\ UNCHANGED <<S, G, L, ops>> /\ Same(p)
AU3(p) == /\ pc[p] = "au3" /\ UNCHANGED <<A, S, G, ops>> /\ Same(p)                                              \* abortWriting(fresh): !appending
          /\ Loc(p, [L[p] EXCEPT !.cont = "ret", !.keep = FALSE, !.t = L[p].b]) /\ Goto(p, FCEntry(L[p].b))

Step(p) == \/ \E kind \in Kinds : \E k \in Keys \cup {0} : Begin(p, kind, k)
           \/ FC1(p) \/ FC2(p) \/ FC3(p) \/ FC4(p) \/ FC5(p) \/ FC6(p) \/ FC7(p) \/ FC8(p) \/ FC9(p) \/ FC10(p) \/ FC11(p) \/ FC12(p)
           \/ OW1(p) \/ OW2(p) \/ OW3(p) \/ OW4(p) \/ OW5(p) \/ OW6(p) \/ OW7(p) \/ OW8(p)
           \/ WS1(p) \/ WS2(p) \/ WS3(p) \/ WS4(p) \/ SA1(p) \/ CW1(p) \/ AW1(p) \/ AW2(p) \/ AW3(p) \/ AW4(p) \/ AW5(p)
           \/ OR1(p) \/ OR2(p) \/ OR3(p) \/ OR4(p) \/ RS1(p) \/ RS2(p) \/ CR1(p) \/ CF1(p)
           \/ FE1(p) \/ FE2(p) \/ FE3(p) \/ FK1(p) \/ FK2(p) \/ FK3(p) \/ FK4(p) \/ FK5(p) \/ FK6(p) \/ FK7(p)
           \/ P1(p) \/ P2(p) \/ P3(p) \/ P4(p) \/ P5(p)
           \/ OU1(p) \/ OU2(p) \/ OU3(p) \/ OU4(p) \/ OU5(p) \/ OUU(p) \/ OU6(p) \/ OU7(p) \/ OU8(p) \/ OU9(p) \/ OU10(p)
           \/ OU11(p) \/ OU12(p) \/ OU13(p) \/ OU14(p) \/ OU15(p) \/ OUA1(p) \/ US1(p) \/ US2(p) \/ US3(p) \/ US4(p)
           \/ CU1(p) \/ CU2(p) \/ CU3(p) \/ CU4(p) \/ CU5(p) \/ CU6(p) \/ CU7(p) \/ CU8(p) \/ CU9(p) \/ CU10(p) \/ CU11(p)
           \/ CU12(p) \/ CU13(p) \/ CU14(p) \/ CU15(p) \/ CU16(p) \/ CU17(p) \/ CU18(p) \/ CUF1(p) \/ CUF2(p)
           \/ AU1(p) \/ AU2(p) \/ AU3(p)
Next == \E p \in Proc : Step(p)
Spec == Init /\ [][Next]_vars

\* ---------------------------------------------------------------------------------------------
\* the property on the implementation state (ghost H changes at returns only)
\* ---------------------------------------------------------------------------------------------
RECURSIVE ChainFrom(_, _)
ChainFrom(s, fuel) == IF s < 0 \/ fuel = 0 THEN <<>> ELSE <<s>> \o ChainFrom(S[s].next, fuel - 1)
ChainOf(a) == IF A[a].key = 0 THEN <<>> ELSE ChainFrom(A[a].start, N + 1)
SeqRange(q) == {q[i] : i \in 1..Len(q)}
Writers(a) == {p \in Proc : (H[p].m = "w" /\ H[p].a = a) \/ (H[p].m = "u" /\ H[p].b = a)}
Readers(a) == {p \in Proc : H[p].m \in {"r", "u"} /\ H[p].a = a}
TypeOK == /\ \A a \in Idx : A[a].rdrs \in 0..(2 * Cardinality(Proc)) /\ A[a].start \in -1..(N - 1) /\ A[a].splice \in -1..(N - 1)
          /\ G.pool \subseteq Idx /\ G.count \in -1..(N + 1)
OneWriter == \A a \in Idx : Cardinality(Writers(a)) <= 1 /\ (Writers(a) # {} => A[a].wr)
\* a reader holds a complete-or-appending entry with its key, and none of its slices is free
ReaderHoldsEntry == \A p \in Proc : H[p].m \in {"r", "u"} =>
                      /\ A[H[p].a].key = H[p].k /\ A[H[p].a].rdrs >= 1
                      /\ (A[H[p].a].wr => (A[H[p].a].app \/ \E q \in Proc : pc[q] \in {"aw2", "aw3", "aw4", "aw5"} /\ L[q].a = H[p].a))
                      \* (not claimed for the stale edition of a completed update: its suffix belongs to the fresh anchor - finding F7b)
                      /\ (A[H[p].a].splice < 0 => SeqRange(ChainOf(H[p].a)) \cap G.pool = {})
                      /\ (H[p].m = "u" => A[H[p].a].updg /\ A[H[p].a].rdrs >= 2 /\ A[H[p].b].wr /\ A[H[p].b].key = H[p].k)
\* the conditions the code asserts, at the step that evaluates them
Asserts == \A p \in Proc :
             /\ pc[p] \in {"cw1", "sa1", "aw1", "aw5", "fk3", "p5"} => A[L[p].a].wr
             /\ pc[p] \in {"fc6", "fc11"} => A[FT(p)].wr
             /\ pc[p] \in {"cr1", "cf1", "or4", "fk6", "ouU", "cu17", "au2"} => A[L[p].a].rdrs > 0
             /\ pc[p] \in {"cu16", "au1", "ouA1"} => A[L[p].a].updg /\ A[L[p].a].rdrs > 0
             /\ pc[p] \in {"cu8", "au3"} => A[L[p].b].wr
             /\ pc[p] = "cu18" => A[L[p].b].rdrs > 0
Quiescent == (\A p \in Proc : pc[p] = "idle" /\ H[p].m = "idle") => \A a \in Idx : A[a].rdrs = 0 /\ ~A[a].wr /\ ~A[a].app /\ ~A[a].updg

\* ---------------------------------------------------------------------------------------------
\* T1: every transition as one JSON line (arrays instead of functions over 0..N-1)
\* ---------------------------------------------------------------------------------------------
Arr(f) == [i \in 1..N |-> f[i - 1]]
St(a, s, g, c, l, h, r) == [anchors |-> Arr(a), slices |-> Arr(s), fileNos |-> Arr(g.fileNos), count |-> g.count, victim |-> g.victim,
                            pool |-> g.pool, pc |-> c, L |-> l, H |-> h, ret |-> r]
Dump == PrintT(<<"EDGE", ToJson([s |-> St(A, S, G, pc, L, H, ret), t |-> St(A', S', G', pc', L', H', ret')])>>)
====
