SPECIFICATION Spec
CONSTANTS p1 = p1  p2 = p2  p3 = p3
CONSTANTS Proc = {p1, p2}  H = 2  B = 2  InitFree = {1}  InitHeld <- HeldA  MaxOps = 3
INVARIANTS TypeOK NoBad CountSound SizeExact Quiescent
ACTION_CONSTRAINT Dump
CHECK_DEADLOCK FALSE
