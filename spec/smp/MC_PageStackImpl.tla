---- MODULE MC_PageStackImpl ----
(* Model-checking instances of PageStackImpl: named initial holdings (a .cfg cannot spell a function). *)
EXTENDS PageStackImpl
CONSTANTS p1, p2, p3
HeldNone == [p \in Proc |-> {}]
\* p2 is about to release page 0, p1 (if it gets that far) page 3
HeldA == [p \in Proc |-> IF p = p2 THEN {0} ELSE IF p = p1 THEN {3} ELSE {}]
\* p2 holds page 0 while page 1 of the same leaf is free (the "late count" situation, see checks/C53.py)
HeldB == [p \in Proc |-> IF p = p2 THEN {0} ELSE {}]
====
