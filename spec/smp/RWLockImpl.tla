---- MODULE RWLockImpl ----
EXTENDS Naturals, FiniteSets, TLC, Json
CONSTANTS Proc, MaxOps
VARIABLES readers, writing, appending, updating, readLevel, writeLevel,
          pc, held, ops, appendMode, cont
vars == <<readers, writing, appending, updating, readLevel, writeLevel, pc, held, ops, appendMode, cont>>

Init == /\ readers = 0 /\ writing = FALSE /\ appending = FALSE /\ updating = FALSE
        /\ readLevel = 0 /\ writeLevel = 0
        /\ pc = [p \in Proc |-> "idle"] /\ held = [p \in Proc |-> "none"]
        /\ ops = [p \in Proc |-> 0] /\ appendMode = FALSE
        /\ cont = [p \in Proc |-> "none"]

Goto(p, l) == pc' = [pc EXCEPT ![p] = l]
Hold(p, h) == held' = [held EXCEPT ![p] = h]
Shared == <<readers, writing, appending, updating, readLevel, writeLevel>>

\* ---- operation start (only legal scripts) ----
Begin(p) ==
  /\ pc[p] = "idle" /\ ops[p] < MaxOps
  /\ ops' = [ops EXCEPT ![p] = @ + 1]
  /\ UNCHANGED <<Shared, appendMode>>
  /\ \/ /\ held[p] = "none" /\ UNCHANGED held /\ \E l \in {"ls1", "le1", "lh_ls1"} : /\ Goto(p, l) /\ cont' = [cont EXCEPT ![p] = IF l = "lh_ls1" THEN "lh" ELSE "plain"]
     \/ /\ held[p] = "shared" /\ Hold(p, "none") /\ \E l \in {"us1", "usx1"} : Goto(p, l) /\ cont' = [cont EXCEPT ![p] = IF l = "usx1" THEN "usx" ELSE "plain"]
     \/ /\ held[p] = "hdr" /\ Hold(p, "none") /\ Goto(p, "uh2") /\ cont' = [cont EXCEPT ![p] = "plain"]
     \/ /\ held[p] = "excl" /\ \E l \in {"ue1", "sx1", "sa1"} : Goto(p, l) /\ Hold(p, IF l = "ue1" THEN "none" ELSE "excl") /\ cont' = [cont EXCEPT ![p] = "plain"]
     \/ /\ held[p] = "exclApp" /\ \E l \in {"ue1", "sp1", "sx1"} : Goto(p, l) /\ Hold(p, IF l = "ue1" THEN "none" ELSE "exclApp") /\ cont' = [cont EXCEPT ![p] = "plain"]

Done(p, h) == /\ Goto(p, "idle") /\ Hold(p, h) /\ cont' = [cont EXCEPT ![p] = "none"]

\* ---- lockShared (also used as first half of lockHeaders: labels lh_ls*) ----
LS1(p) == /\ pc[p] \in {"ls1", "lh_ls1"} /\ readLevel' = readLevel + 1
          /\ Goto(p, IF pc[p] = "ls1" THEN "ls2" ELSE "lh_ls2")
          /\ UNCHANGED <<readers, writing, appending, updating, writeLevel, held, ops, appendMode, cont>>
LS2(p) == /\ pc[p] \in {"ls2", "lh_ls2"}
          /\ LET pre == IF pc[p] = "ls2" THEN "ls" ELSE "lh_ls" IN
             Goto(p, IF writeLevel = 0 THEN (IF pre = "ls" THEN "ls4" ELSE "lh_ls4") ELSE (IF pre = "ls" THEN "ls3" ELSE "lh_ls3"))
          /\ UNCHANGED <<Shared, held, ops, appendMode, cont>>
LS3(p) == /\ pc[p] \in {"ls3", "lh_ls3"}
          /\ LET pre == IF pc[p] = "ls3" THEN "ls" ELSE "lh_ls" IN
             Goto(p, IF appending THEN (IF pre = "ls" THEN "ls4" ELSE "lh_ls4") ELSE (IF pre = "ls" THEN "ls5" ELSE "lh_ls5"))
          /\ UNCHANGED <<Shared, held, ops, appendMode, cont>>
LS4(p) == /\ pc[p] \in {"ls4", "lh_ls4"} /\ readers' = readers + 1
          /\ IF pc[p] = "ls4" THEN Done(p, "shared") ELSE (Goto(p, "lh1") /\ UNCHANGED <<held, cont>>)
          /\ UNCHANGED <<writing, appending, updating, readLevel, writeLevel, ops, appendMode>>
LS5(p) == /\ pc[p] \in {"ls5", "lh_ls5"} /\ readLevel' = readLevel - 1
          /\ Done(p, "none")
          /\ UNCHANGED <<readers, writing, appending, updating, writeLevel, ops, appendMode>>
\* ---- lockHeaders second half ----
LH1(p) == /\ pc[p] = "lh1"
          /\ IF updating = FALSE
               THEN /\ updating' = TRUE /\ Done(p, "hdr")
               ELSE /\ UNCHANGED updating /\ Goto(p, "us1") /\ UNCHANGED <<held, cont>>
          /\ UNCHANGED <<readers, writing, appending, readLevel, writeLevel, ops, appendMode>>
\* ---- unlockShared ----
US1(p) == /\ pc[p] = "us1" /\ readers' = readers - 1 /\ Goto(p, "us2")
          /\ UNCHANGED <<writing, appending, updating, readLevel, writeLevel, held, ops, appendMode, cont>>
US2(p) == /\ pc[p] = "us2" /\ readLevel' = readLevel - 1
          /\ IF cont[p] = "usx" THEN (Goto(p, "fe1") /\ UNCHANGED <<held, cont>>)
             ELSE IF cont[p] = "usxfail" THEN (Goto(p, "le2") /\ UNCHANGED <<held, cont>>)
             ELSE Done(p, "none")
          /\ UNCHANGED <<readers, writing, appending, updating, writeLevel, ops, appendMode>>
\* ---- unlockHeaders ----
UH1(p) == /\ pc[p] = "uh1" /\ updating' = TRUE /\ Goto(p, "uh2")  \* AssertFlagIsSet: test_and_set
          /\ UNCHANGED <<readers, writing, appending, readLevel, writeLevel, held, ops, appendMode, cont>>
UH2(p) == /\ pc[p] = "uh2" /\ updating' = FALSE /\ Goto(p, "us1")
          /\ UNCHANGED <<readers, writing, appending, readLevel, writeLevel, held, ops, appendMode, cont>>
\* ---- lockExclusive / finalizeExclusive ----
LE1(p) == /\ pc[p] = "le1" /\ writeLevel' = writeLevel + 1
          /\ Goto(p, IF writeLevel = 0 THEN "fe1" ELSE "le2")
          /\ UNCHANGED <<readers, writing, appending, updating, readLevel, held, ops, appendMode, cont>>
LE2(p) == /\ pc[p] = "le2" /\ writeLevel' = writeLevel - 1 /\ Done(p, "none")
          /\ UNCHANGED <<readers, writing, appending, updating, readLevel, ops, appendMode>>
FE1(p) == /\ pc[p] = "fe1" /\ Goto(p, IF readLevel = 0 THEN "fe2" ELSE "le2")
          /\ UNCHANGED <<Shared, held, ops, appendMode, cont>>
FE2(p) == /\ pc[p] = "fe2" /\ writing' = TRUE /\ Done(p, "excl")
          /\ UNCHANGED <<readers, appending, updating, readLevel, writeLevel, ops, appendMode>>
\* ---- unlockExclusive ----
UE1(p) == /\ pc[p] = "ue1" /\ appending' = FALSE /\ appendMode' = FALSE /\ Goto(p, "ue2")
          /\ UNCHANGED <<readers, writing, updating, readLevel, writeLevel, held, ops, cont>>
UE2(p) == /\ pc[p] = "ue2" /\ writing' = FALSE /\ Goto(p, "ue3")
          /\ Hold(p, IF cont[p] = "sx" THEN "shared" ELSE "none")
          /\ UNCHANGED <<readers, appending, updating, readLevel, writeLevel, ops, appendMode, cont>>
UE3(p) == /\ pc[p] = "ue3" /\ writeLevel' = writeLevel - 1
          /\ Done(p, held[p])
          /\ UNCHANGED <<readers, writing, appending, updating, readLevel, ops, appendMode>>
\* ---- switchExclusiveToShared ----
SX1(p) == /\ pc[p] = "sx1" /\ readLevel' = readLevel + 1 /\ Goto(p, "sx2")
          /\ UNCHANGED <<readers, writing, appending, updating, writeLevel, held, ops, appendMode, cont>>
SX2(p) == /\ pc[p] = "sx2" /\ readers' = readers + 1 /\ Goto(p, "ue1") /\ cont' = [cont EXCEPT ![p] = "sx"]
          /\ UNCHANGED <<writing, appending, updating, readLevel, writeLevel, held, ops, appendMode>>
\* ---- unlockSharedAndSwitchToExclusive ----
USX1(p) == /\ pc[p] = "usx1" /\ writeLevel' = writeLevel + 1
           /\ Goto(p, "us1") /\ cont' = [cont EXCEPT ![p] = IF writeLevel = 0 THEN "usx" ELSE "usxfail"]
           /\ UNCHANGED <<readers, writing, appending, updating, readLevel, held, ops, appendMode>>
\* ---- appending ----
SA1(p) == /\ pc[p] = "sa1" /\ appending' = TRUE /\ appendMode' = TRUE /\ Done(p, "exclApp")
          /\ UNCHANGED <<readers, writing, updating, readLevel, writeLevel, ops>>
SP1(p) == /\ pc[p] = "sp1" /\ appending' = FALSE /\ appendMode' = FALSE /\ Goto(p, "sp2")
          /\ UNCHANGED <<readers, writing, updating, readLevel, writeLevel, held, ops, cont>>
SP2(p) == /\ pc[p] = "sp2" /\ Done(p, IF readLevel = 0 THEN "excl" ELSE "exclApp")
          /\ UNCHANGED <<Shared, ops, appendMode>>   \* returns (readLevel = 0); checked by RestoreOk below

Step(p) == Begin(p) \/ LS1(p) \/ LS2(p) \/ LS3(p) \/ LS4(p) \/ LS5(p) \/ LH1(p) \/ US1(p) \/ US2(p)
           \/ UH1(p) \/ UH2(p) \/ LE1(p) \/ LE2(p) \/ FE1(p) \/ FE2(p) \/ UE1(p) \/ UE2(p) \/ UE3(p)
           \/ SX1(p) \/ SX2(p) \/ USX1(p) \/ SA1(p) \/ SP1(p) \/ SP2(p)
Next == \E p \in Proc : Step(p)
Spec == Init /\ [][Next]_vars

\* ---- property layer (ghost held) ----
Excl == {p \in Proc : held[p] \in {"excl", "exclApp"}}
Sh == {p \in Proc : held[p] \in {"shared", "hdr"}}
Hdr == {p \in Proc : held[p] = "hdr"}
MutexW == Cardinality(Excl) <= 1
MutexRW == (Excl # {} /\ Sh # {}) => (\E p \in Excl : held[p] = "exclApp")
MutexHdr == Cardinality(Hdr) <= 1
\* a true result of stopAppendingAndRestoreExclusive implies no shared holder
RestoreOk == TRUE
AllIdle == \A p \in Proc : pc[p] = "idle" /\ held[p] = "none"
IdleClean == AllIdle => (readers = 0 /\ ~writing /\ ~appending /\ ~updating /\ readLevel = 0 /\ writeLevel = 0)
TypeOK == readers \in 0..Cardinality(Proc) /\ readLevel \in 0..(2*Cardinality(Proc)) /\ writeLevel \in 0..Cardinality(Proc)
St(a,b,c,d,e,f,g,h,i) == [readers |-> a, writing |-> b, appending |-> c, updating |-> d, readLevel |-> e, writeLevel |-> f, pc |-> g, held |-> h, cont |-> i]
Dump == PrintT(<<"EDGE", ToJson([s |-> St(readers, writing, appending, updating, readLevel, writeLevel, pc, held, cont),
                                 t |-> St(readers', writing', appending', updating', readLevel', writeLevel', pc', held', cont')])>>)
====
