---- MODULE RockRebuild ----
(* I-layer of C57: Rock::Rebuild (src/fs/rock/RockRebuild.cc) as the code's per-slot machine, together with the parts of
   Ipc::StoreMap, Ipc::Mem::PageStack and storeRebuildParseEntry it drives.  One operator per method; assertions and
   exceptions that would escape the job are recorded in st.crash (the rebuild "crashes").
   st.fix is the set of proposed repairs that are modelled as applied (see checks/C57.py, findings):
     "anchored"  Must(le.anchored()) at the start of finalizeOrThrow                       (F6, orphan tail)
     "size"      Must(!swap_file_sz || le.size == swap_file_sz) at the end of finalizeOrThrow  (size-short entries)
     "own"       after the walk, every slot of the entry's `more` list must be finalized       (foreign slots / leftovers)
     "undo"      a failed finalizeOrThrow clears the `finalized` marks it has set (needed with "own": a mark left on a
                 slot of another entry by a failed walk would otherwise pass for that entry's own visit)
     "version"   (design experiment for C16, not proposed: it would reject entries whose headers were updated) sameEntry()
                 also compares DbCellHeader::version with the version of the chain being loaded; needs a `ver` field in H *)
EXTENDS RockDb, TLC

InSeq(x, q) == \E i \in 1..Len(q) : q[i] = x
EmptyAnchor == [key |-> 0, start |-> 0, sfs |-> 0, w |-> FALSE]          \* StoreMapAnchor() / rewind(): start = 0
InitSt(n, kf, fix) ==
  [n |-> n, kf |-> kf, fix |-> fix, pos |-> 0, crash |-> "",
   le |-> [f \in 0..(n - 1) |-> [state |-> "Empty", anch |-> FALSE, size |-> 0, ver |-> 0]],        \* LoadingEntry
   ls |-> [s \in 0..(n - 1) |-> [more |-> 0 - 1, mapped |-> FALSE, fin |-> FALSE, freed |-> FALSE]],  \* LoadingSlot
   an |-> [f \in 0..(n - 1) |-> EmptyAnchor],                                                    \* sd->map anchors
   sl |-> [s \in 0..(n - 1) |-> [size |-> 0, next |-> 0 - 1]],                                     \* sd->map slices
   free |-> <<>>]                                                                                \* sd->freeSlots
Crash(st, why) == [st EXCEPT !.crash = why]
Dead(st) == st.crash # ""
\* Rebuild::loadingSlot(): Must(0 <= slotId < dbSlotLimit); Must(slotId <= loadingPos)
LSOk(st, s) == s >= 0 /\ s < st.n /\ s <= st.pos

\* PageStack::push (IdSet::leafPush asserts that the id was not there)
Push(st, s) == IF InSeq(s, st.free) THEN Crash(st, "assert: PageStack::push of a page that is already free")
               ELSE [st EXCEPT !.free = Append(@, s)]
FreeSlot(st, s) ==
  IF Dead(st) THEN st
  ELSE IF ~LSOk(st, s) THEN Crash(st, "exception: loadingSlot in freeSlot")
  ELSE IF st.ls[s].freed THEN Crash(st, "assert: freeSlot !freed")
  ELSE Push([st EXCEPT !.ls[s].freed = TRUE], s)
FreeUnusedSlot(st, s) ==
  IF Dead(st) THEN st
  ELSE IF ~LSOk(st, s) THEN Crash(st, "exception: loadingSlot in freeUnusedSlot")
  ELSE IF st.ls[s].mapped THEN Crash(st, "assert: freeUnusedSlot !mapped")
  ELSE FreeSlot(st, s)

RECURSIVE FreeMore(_, _, _)
FreeMore(st, s, fuel) ==
  IF Dead(st) \/ s < 0 THEN st
  ELSE IF fuel = 0 THEN Crash(st, "nonterm: freeBadEntry")
  ELSE IF ~LSOk(st, s) THEN Crash(st, "exception: loadingSlot in freeBadEntry")
  ELSE FreeMore(FreeSlot(st, s), st.ls[s].more, fuel - 1)
\* Rebuild::freeBadEntry + StoreMap::forgetWritingEntry
FreeBadEntry(st, f) ==
  IF Dead(st) THEN st
  ELSE IF ~st.an[f].w THEN Crash(st, "assert: writeableEntry in freeBadEntry")
  ELSE LET st1 == FreeMore([st EXCEPT !.le[f].state = "Corrupted"], st.an[f].start, st.n + 1)
       IN IF Dead(st1) THEN st1 ELSE [st1 EXCEPT !.an[f] = EmptyAnchor]

\* the loop of Rebuild::finalizeOrThrow; ok = FALSE is a Must() failure caught by finalizeOrFree
RECURSIVE FinWalk(_, _, _, _, _)
FinWalk(st, f, s, msz, fuel) ==
  IF fuel = 0 THEN [st |-> Crash(st, "nonterm: finalizeOrThrow"), ok |-> FALSE]
  ELSE IF s >= 0 /\ msz < st.le[f].size THEN
         IF ~LSOk(st, s) THEN [st |-> st, ok |-> FALSE]
         ELSE IF st.ls[s].fin \/ ~st.ls[s].mapped \/ st.ls[s].freed THEN [st |-> st, ok |-> FALSE]
         ELSE LET st1 == [st EXCEPT !.ls[s].fin = TRUE]
              IN IF st.sl[s].size = 0 THEN [st |-> st1, ok |-> FALSE]
                 ELSE FinWalk(st1, f, st.sl[s].next, msz + st.sl[s].size, fuel - 1)
  ELSE [st |-> st, ok |-> (s < 0 /\ msz = st.le[f].size)]
\* proposed repair "own": no leftovers - every slot collected for this entry (its `more` list) was visited by the walk
RECURSIVE AllMoreFinalized(_, _, _)
AllMoreFinalized(st, s, fuel) == s < 0 \/ (fuel > 0 /\ s < st.n /\ st.ls[s].fin /\ AllMoreFinalized(st, st.ls[s].more, fuel - 1))
FinalizeOrFree(st, f) ==
  IF Dead(st) THEN st
  ELSE IF ~st.an[f].w THEN Crash(st, "assert: writeableEntry in finalizeOrThrow")
  ELSE IF "anchored" \in st.fix /\ ~st.le[f].anch THEN FreeBadEntry(st, f)
  ELSE LET r == FinWalk(st, f, st.an[f].start, 0, st.n + 2)
           sizeOk == "size" \in st.fix => (st.an[f].sfs = 0 \/ st.le[f].size = st.an[f].sfs)
           ownOk == "own" \in st.fix => AllMoreFinalized(r.st, st.an[f].start, st.n + 1)
       IN IF Dead(r.st) THEN r.st
          ELSE IF r.ok /\ sizeOk /\ ownOk THEN [r.st EXCEPT !.an[f].sfs = (IF @ = 0 THEN st.le[f].size ELSE @), !.an[f].w = FALSE,
                                         !.le[f].state = "Loaded"]
          ELSE FreeBadEntry(IF "undo" \in st.fix THEN st ELSE r.st, f)

\* StoreMap::freeEntry on an unlocked entry: freeChainAt + rewind; every slice goes to SwapDir::noteFreeMapSlice
RECURSIVE MapFreeChain(_, _, _)
MapFreeChain(st, s, fuel) ==
  IF Dead(st) \/ s < 0 THEN st
  ELSE IF fuel = 0 THEN Crash(st, "nonterm: freeChainAt")
  ELSE IF s >= st.n THEN Crash(st, "assert: sliceAt")
  ELSE MapFreeChain(Push([st EXCEPT !.sl[s] = [size |-> 0, next |-> 0 - 1]], s), st.sl[s].next, fuel - 1)
MapFreeEntry(st, f) ==
  IF Dead(st) THEN st
  ELSE LET st1 == IF st.an[f].key # 0 THEN MapFreeChain(st, st.an[f].start, st.n + 1) ELSE st
       IN IF Dead(st1) THEN st1 ELSE [st1 EXCEPT !.an[f] = EmptyAnchor]

\* storeRebuildParseEntry after Store::UnpackIndexSwapMeta on the inode's payload
Parse(h, expected) ==
  IF ~h.mok \/ h.mkey = 0 THEN [ok |-> FALSE, sfs |-> 0]
  ELSE LET r == IF expected > 0
                THEN IF h.msz = 0 THEN [ok |-> TRUE, sfs |-> expected]
                     ELSE IF expected >= h.mhl /\ h.msz = expected - h.mhl THEN [ok |-> TRUE, sfs |-> expected]
                     ELSE IF h.msz # expected THEN [ok |-> FALSE, sfs |-> 0]
                     ELSE [ok |-> TRUE, sfs |-> expected]
                ELSE [ok |-> TRUE, sfs |-> h.msz]
       IN IF r.ok /\ h.mpriv THEN [ok |-> FALSE, sfs |-> 0] ELSE r

\* second half of Rebuild::addSlotToEntry (overflow test, mapSlot, early finalisation)
AddTail(st, f, s, h) ==
  LET total == st.an[f].sfs
      sz == st.le[f].size
  IN IF total > 0 /\ sz > total THEN FreeBadEntry(st, f)
     ELSE IF st.ls[s].mapped \/ st.ls[s].freed THEN Crash(st, "assert: mapSlot")
     ELSE LET st1 == [st EXCEPT !.ls[s].mapped = TRUE, !.sl[s] = [size |-> h.pay, next |-> h.next]]
          IN IF total > 0 /\ sz = total THEN FinalizeOrFree(st1, f) ELSE st1
AddSlotToEntry(st, f, s, h) ==
  IF Dead(st) THEN st
  ELSE IF ~st.an[f].w THEN Crash(st, "assert: writeableEntry in addSlotToEntry")
  ELSE IF st.ls[s].more >= 0 THEN Crash(st, "assert: chainSlots")
  ELSE IF st.le[f].anch /\ ~LSOk(st, st.an[f].start) THEN Crash(st, "exception: loadingSlot(inode)")
  ELSE LET a == st.an[f]
           anchoredBefore == st.le[f].anch
           stA == IF anchoredBefore
                  THEN [st EXCEPT !.ls[s].more = st.ls[a.start].more, !.ls[a.start].more = s]
                  ELSE [st EXCEPT !.ls[s].more = a.start, !.an[f].start = s]
           stB == [stA EXCEPT !.le[f].size = @ + h.pay]
       IN IF h.first = s
          THEN IF anchoredBefore THEN FreeBadEntry(stB, f)                       \* inode conflict
               ELSE LET stC == [stB EXCEPT !.le[f].anch = TRUE]
                        pr == Parse(h, IF h.esz > 0 THEN h.esz ELSE stB.an[f].sfs)
                    IN IF ~pr.ok THEN FreeBadEntry(stC, f)                       \* corrupted metainfo
                       ELSE LET stD == [stC EXCEPT !.an[f].key = h.mkey, !.an[f].sfs = pr.sfs]   \* anchor.set(loadedE)
                            IN IF h.esz > 0 /\ stD.an[f].sfs # 0 /\ stD.an[f].sfs # h.esz
                               THEN FreeBadEntry(stD, f)                         \* size mismatch
                               ELSE AddTail(IF h.esz > 0 /\ stD.an[f].sfs = 0 THEN [stD EXCEPT !.an[f].sfs = h.esz] ELSE stD,
                                            f, s, h)
          ELSE AddTail(stB, f, s, h)

\* Rebuild::useNewSlot
UseNewSlot(st, s, h) ==
  LET f == st.kf[h.key]
      state == st.le[f].state
  IN IF state = "Empty"
     THEN IF st.an[f].key = 0 /\ ~st.an[f].w                                   \* openForWritingAt(fileno, false)
          THEN AddSlotToEntry([st EXCEPT !.an[f] = [key |-> h.key, start |-> 0 - 1, sfs |-> 0, w |-> TRUE],
                                         !.le[f] = [state |-> "Loading", anch |-> FALSE, size |-> 0,
                                                    ver |-> IF "version" \in st.fix THEN h.ver ELSE 0]], f, s, h)
          ELSE FreeUnusedSlot([st EXCEPT !.le[f].state = "Ignored"], s)
     ELSE IF state = "Loading"
     THEN IF st.an[f].key = h.key /\ ("version" \in st.fix => st.le[f].ver = h.ver)
          THEN AddSlotToEntry(st, f, s, h)                                       \* sameEntry()
          ELSE FreeUnusedSlot(FreeBadEntry(st, f), s)                            \* duplicated
     ELSE IF state = "Loaded"
     THEN FreeUnusedSlot(MapFreeEntry([st EXCEPT !.le[f].state = "Corrupted"], f), s)
     ELSE FreeUnusedSlot(st, s)                                                  \* Corrupted, Ignored

\* Rebuild::loadOneSlot for slot s = st.pos holding v
LoadOneSlot(st, v) ==
  IF Dead(st) THEN st
  ELSE LET s == st.pos
           st1 == IF v.t = "H" THEN UseNewSlot(st, s, v) ELSE FreeUnusedSlot(st, s)
       IN IF Dead(st1) THEN st1 ELSE [st1 EXCEPT !.pos = s + 1]
RECURSIVE LoadFrom(_, _, _)
LoadFrom(st, img, k) == IF k > Len(img) THEN st ELSE LoadFrom(LoadOneSlot(st, img[k]), img, k + 1)
\* Rebuild::validationSteps without -S: validateOneEntry for every fileno
RECURSIVE ValidateFrom(_, _)
ValidateFrom(st, f) ==
  IF f >= st.n \/ Dead(st) THEN st
  ELSE ValidateFrom(IF st.le[f].state = "Loading" THEN FinalizeOrFree(st, f) ELSE st, f + 1)
Rebuild(n, kf, fix, img) == ValidateFrom(LoadFrom(InitSt(n, kf, fix), img, 1), 0)

(* what the rest of Squid sees afterwards *)
RECURSIVE ChainOf(_, _, _)
ChainOf(st, s, steps) ==          \* same walk as the driver: stops on a cycle (more than n+1 steps) or an id out of range
  IF s < 0 THEN [chain |-> <<>>, cyc |-> FALSE, oob |-> FALSE]
  ELSE IF s >= st.n THEN [chain |-> <<>>, cyc |-> FALSE, oob |-> TRUE]
  ELSE IF steps > st.n THEN [chain |-> <<>>, cyc |-> TRUE, oob |-> FALSE]
  ELSE LET r == ChainOf(st, st.sl[s].next, steps + 1)
       IN [r EXCEPT !.chain = <<[s |-> s, size |-> st.sl[s].size, next |-> st.sl[s].next]>> \o @]
Readable(st) == {f \in 0..(st.n - 1) : st.an[f].key # 0 /\ ~st.an[f].w}
EntryOf(st, f) == LET r == ChainOf(st, st.an[f].start, 0)
                  IN [f |-> f, key |-> st.an[f].key, start |-> st.an[f].start, sfs |-> st.an[f].sfs,
                      chain |-> r.chain, cyc |-> r.cyc, oob |-> r.oob]
RECURSIVE EntSeq(_, _)
EntSeq(st, f) == IF f >= st.n THEN <<>> ELSE (IF f \in Readable(st) THEN <<EntryOf(st, f)>> ELSE <<>>) \o EntSeq(st, f + 1)
Index(st) == [done |-> ~Dead(st), crash |-> st.crash, ent |-> (IF Dead(st) THEN <<>> ELSE EntSeq(st, 0)),
              free |-> (IF Dead(st) THEN <<>> ELSE st.free)]
====
