---- MODULE RockWriter ----
(* Design step of C16 / C17 for the rock store: the writer (Rock::IoState::tryWrite/writeToDisk, Rock::SwapDir::
   reserveSlotForWriting, handleWriteCompletionSuccess, StoreMap::freeEntry) as actions over a db file, with a crash
   possible in every state: the invariants evaluate Restart = RockRebuild!Rebuild on the disk of the current state.
   Every slot payload is tagged with the store that wrote it: <<store id, part number>>. *)
EXTENDS RockRebuild
CONSTANTS N,            \* slots in the db
          Objs,         \* URLs: 1..Objs; URL o hashes to anchor o-1
          MaxParts,     \* an entry occupies 1..MaxParts slots
          MaxStores,    \* stores per behaviour
          Fix,          \* repairs of the rebuild that are assumed applied
          SameSecond    \* may two stores carry the same version (DbCellHeader::version = timestamp in seconds)?
VARIABLES disk,         \* [0..N-1 -> slot], what the db file holds
          pool,         \* free slots (SwapDir::freeSlots)
          cache,        \* [1..Objs -> store id or 0]: the readable entry of the in-memory index
          cur,          \* the store in progress: [id, obj, ver, n, slots, written] or NoCur
          stores,       \* <<[obj, ver, n, slots, complete]>> by store id
          clock
vars == <<disk, pool, cache, cur, stores, clock>>
NoCur == [id |-> 0]
KF == [o \in 1..Objs |-> o - 1]
Empty == [t |-> "E"]
Hdr(o, ver, first, next, esz, id, part) ==
  [t |-> "H", key |-> o, ver |-> ver, first |-> first, next |-> next, pay |-> 1, esz |-> esz,
   mok |-> TRUE, mkey |-> o, msz |-> 0, mhl |-> 1, mpriv |-> FALSE, tag |-> <<id, part>>]

Init == /\ disk = [s \in 0..(N - 1) |-> Empty] /\ pool = 0..(N - 1) /\ cache = [o \in 1..Objs |-> 0]
        /\ cur = NoCur /\ stores = <<>> /\ clock = 1
Tick == clock < MaxStores /\ clock' = clock + 1 /\ UNCHANGED <<disk, pool, cache, cur, stores>>
\* createStoreIO + the first reserveSlotForWriting(); a URL is stored only while no other edition of it is readable
Begin(o, n) == /\ cur = NoCur /\ cache[o] = 0 /\ Len(stores) < MaxStores
               /\ (~SameSecond => \A i \in 1..Len(stores) : stores[i].ver < clock)
               /\ \E s \in pool :
                    /\ cur' = [id |-> Len(stores) + 1, obj |-> o, ver |-> clock, n |-> n, slots |-> <<s>>, written |-> 0]
                    /\ pool' = pool \ {s}
                    /\ stores' = Append(stores, [obj |-> o, ver |-> clock, n |-> n, slots |-> <<>>, complete |-> FALSE])
               /\ UNCHANGED <<disk, cache, clock>>
\* writeToDisk(): a slot is written only once its successor is reserved; only the last slot has next = -1 and entrySize
WriteMiddle == /\ cur # NoCur /\ cur.written + 1 < cur.n
               /\ \E s2 \in pool :
                    /\ disk' = [disk EXCEPT ![cur.slots[cur.written + 1]] =
                                  Hdr(cur.obj, cur.ver, cur.slots[1], s2, 0, cur.id, cur.written + 1)]
                    /\ cur' = [cur EXCEPT !.slots = Append(@, s2), !.written = @ + 1]
                    /\ pool' = pool \ {s2}
               /\ UNCHANGED <<cache, stores, clock>>
WriteLast == /\ cur # NoCur /\ cur.written + 1 = cur.n
             /\ disk' = [disk EXCEPT ![cur.slots[cur.n]] = Hdr(cur.obj, cur.ver, cur.slots[1], 0 - 1, cur.n, cur.id, cur.n)]
             /\ stores' = [stores EXCEPT ![cur.id].slots = cur.slots, ![cur.id].complete = TRUE]
             /\ cache' = [cache EXCEPT ![cur.obj] = cur.id]                       \* MapPublish: closeForWriting
             /\ cur' = NoCur
             /\ UNCHANGED <<pool, clock>>
\* no free slot for the successor: the store is aborted, its slots go back to the pool (the disk keeps what was written)
Abort == /\ cur # NoCur /\ cur.written + 1 < cur.n /\ pool = {}
         /\ pool' = pool \cup SeqSet(cur.slots) /\ cur' = NoCur
         /\ UNCHANGED <<disk, cache, stores, clock>>
\* eviction / release of a readable entry: FreeSlot for every slot of its chain; nothing is written to the disk
Evict(o) == /\ cache[o] # 0
            /\ pool' = pool \cup SeqSet(stores[cache[o]].slots)
            /\ cache' = [cache EXCEPT ![o] = 0]
            /\ UNCHANGED <<disk, cur, stores, clock>>
Next == \/ Tick \/ WriteMiddle \/ WriteLast \/ Abort
        \/ \E o \in 1..Objs : Evict(o) \/ \E n \in 1..MaxParts : Begin(o, n)
Spec == Init /\ [][Next]_vars

(* Crash . Restart in the current state *)
Image == [s \in 1..N |-> disk[s - 1]]
Restart == Index(Rebuild(N, KF, Fix, Image))
Content(e) == [k \in 1..Len(e.chain) |-> disk[e.chain[k].s].tag]
WholeStore(id) == [k \in 1..stores[id].n |-> <<id, k>>]
\* what a hit can serve: the entry must begin with an inode (its payload starts with the swap metadata; anything else is
\* refused by Store::UnpackHitSwapMeta) and the chain must be walkable
Servable(e) == Walkable(e) /\ IsH(Image, e.start) /\ Image[e.start + 1].first = e.start
Finished == {id \in 1..Len(stores) : stores[id].complete}
\* C16: every servable entry after Crash.Restart is a complete store that had finished before the crash
CrashSafe == LET out == Restart IN
             /\ Terminated(out)
             /\ \A i \in 1..Len(out.ent) : Servable(out.ent[i]) => \E id \in Finished : Content(out.ent[i]) = WholeStore(id)
\* what today's rebuild achieves: a servable chain that is not one complete store mixes slots of several stores of the SAME
\* URL (the store in progress and the edition it replaces, or editions evicted earlier): slot versions are not compared
MixedEditions(e) == \A k \in 1..Len(e.chain) : stores[Content(e)[k][1]].obj = stores[Content(e)[1][1]].obj
\* ... or its chain runs through a slot that now belongs to another URL (finding F6c of C57: finalizeOrThrow accepts a slot
\* mapped for another entry; here the stale inode of an evicted entry still points to a slot that was reused)
CrashSafeUpToKnown ==
             LET out == Restart IN
             /\ Terminated(out)
             /\ \A i \in 1..Len(out.ent) : Servable(out.ent[i]) =>
                   \/ \E id \in Finished : Content(out.ent[i]) = WholeStore(id)
                   \/ MixedEditions(out.ent[i])
                   \/ ForeignSlot(Image, out.ent[i])
\* C17: with no store in progress (clean shutdown), every readable entry of the in-memory index is readable after Restart
\* with the same content
SurvivesShutdown == cur = NoCur =>
             LET out == Restart IN
             \A o \in 1..Objs : cache[o] # 0 =>
                \E i \in 1..Len(out.ent) : out.ent[i].key = o /\ Servable(out.ent[i]) /\ Content(out.ent[i]) = WholeStore(cache[o])
\* what today's rebuild achieves: an entry is lost when slots of an earlier edition of the same URL are still on the disk
\* (eviction does not wipe slots; useNewSlot() treats them as duplicates of the loaded entry and drops both)
StaleSameKey(o) == \E s \in 0..(N - 1) : disk[s].t = "H" /\ disk[s].key = o /\ s \notin SeqSet(stores[cache[o]].slots)
StaleIntruder(o) == \E s \in 0..(N - 1) : disk[s].t = "H" /\ disk[s].key # o /\ disk[s].next \in SeqSet(stores[cache[o]].slots)
SurvivesShutdownUpToStale == cur = NoCur =>
             LET out == Restart IN
             \A o \in 1..Objs : cache[o] # 0 =>
                \/ StaleSameKey(o)
                \* F6c of C57: a stale slot of another (evicted) URL still points into o's chain; its walk steals the slot or
                \* (failing) leaves its `finalized` mark there, and o's own walk then fails
                \/ (~({"own", "undo"} \subseteq Fix) /\ StaleIntruder(o))
                \/ \E i \in 1..Len(out.ent) : out.ent[i].key = o /\ Servable(out.ent[i]) /\ Content(out.ent[i]) = WholeStore(cache[o])
====
