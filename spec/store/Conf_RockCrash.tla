---- MODULE Conf_RockCrash ----
(* Binding of the unit parts of C16 and C17: one case = one crash point (or the clean shutdown) of one recorded workload.
   Case fields: kind ("crash"/"shutdown"), ops, writes, k, cut, n, kf, fix, img (slot headers of the materialised image as
   dumped by the driver), out (index after the real rebuild), served.
   CaseOk (P): C16 CrashConsistent for crash cases; for the shutdown case C17 SurvivesRestart (and C16, a shutdown being
   a crash after the last write).  ImplOk (I): the writer issued its slots in the modelled order and the restart produced
   the index RockRebuild computes for the image. *)
EXTENDS RockCrash, RockRebuild, ConfLib
Case == Cases[i]
Model(k) == Index(Rebuild(k.n, k.kf, SeqSet(k.fix), k.img))
SameIndex(a, b) == /\ a.done = b.done
                   /\ a.done => /\ Len(a.ent) = Len(b.ent) /\ SeqSet(a.ent) = SeqSet(b.ent)
                                /\ Len(a.free) = Len(b.free) /\ SeqSet(a.free) = SeqSet(b.free)
POk(q) == /\ CrashConsistent(q.ops, q.k, q.out.done, q.served)
          /\ q.kind = "shutdown" => SurvivesRestart(q.ops, q.out.done, q.served)
IOk(q) == /\ \A j \in 1..Len(q.ops) : WriterOrder(q.writes, q.ops[j])
          /\ SameIndex([done |-> q.out.done, ent |-> q.out.ent, free |-> q.out.free], Model(q))
CaseOk == i > 0 => POk(Case)
ImplOk == i > 0 => IOk(Case)
====
