SPECIFICATION Spec
CONSTANTS N = 4  Objs = 2  MaxParts = 3  MaxStores = 3  Fix <- FixNone  SameSecond = TRUE
INVARIANTS CrashSafeUpToKnown SurvivesShutdownUpToStale
CHECK_DEADLOCK FALSE
