SPECIFICATION Spec
CONSTANTS N = 4  Objs = 2  MaxParts = 3  MaxStores = 3  Fix = {}  SameSecond = TRUE
INVARIANTS CrashSafeUpToMixedEditions SurvivesShutdown
CHECK_DEADLOCK FALSE
