---- MODULE Conf_RockRebuild ----
(* Binding of C57 (function conformance, image -> index).  Every case is one db image that the U driver wrote into a
   real rock db file, the index the real Rock::Rebuild produced from it (walk of the real StoreMap, pops of the real
   free-slot PageStack), and `fix`: the repairs the probed tree already has.
   CaseOk  (P-layer, may alarm): the implementation's index satisfies C57 (RockDb!IndexOk).
   ImplOk  (I-layer, drift only): the index equals what the code-shaped machine RockRebuild computes for the image. *)
EXTENDS RockRebuild, ConfLib
Case == Cases[i]
Model(k) == Index(Rebuild(k.n, k.kf, SeqSet(k.fix), k.img))
SameIndex(a, b) == /\ a.done = b.done
                   /\ a.done => /\ Len(a.ent) = Len(b.ent) /\ SeqSet(a.ent) = SeqSet(b.ent)
                                /\ Len(a.free) = Len(b.free) /\ SeqSet(a.free) = SeqSet(b.free)
POk(k) == IndexOk(k.n, k.img, k.out)
IOk(k) == SameIndex([done |-> k.out.done, ent |-> k.out.ent, free |-> k.out.free], Model(k))
CaseOk == i > 0 => POk(Case)
ImplOk == i > 0 => IOk(Case)
====
