SPECIFICATION Spec
CONSTANTS N = 4  Objs = 2  MaxParts = 2  MaxStores = 2  Fix <- FixCur  SameSecond = TRUE
INVARIANTS SurvivesShutdown
CHECK_DEADLOCK FALSE
