SPECIFICATION Spec
CONSTANTS NDirs = 3
          MaxEntries = 3
          GiveUpOnEmpty = TRUE
INVARIANTS TypeOk WroteAll
PROPERTY Terminates
CHECK_DEADLOCK FALSE
