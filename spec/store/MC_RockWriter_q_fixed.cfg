SPECIFICATION Spec
CONSTANTS N = 4  Objs = 2  MaxParts = 2  MaxStores = 2  Fix <- FixAllV  SameSecond = FALSE
INVARIANTS CrashSafe SurvivesShutdownUpToStale
CHECK_DEADLOCK FALSE
