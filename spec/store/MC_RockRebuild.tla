---- MODULE MC_RockRebuild ----
(* Design step for C57: TLC explores the rebuild machine over ALL images of N slots for a bounded field domain.  The
   image is chosen slot by slot while it is loaded (the code cannot look ahead: loadingSlot() refuses ids > loadingPos),
   so the state graph is the tree of image prefixes; the final validation pass is one step. *)
EXTENDS RockRebuild
CONSTANTS N, KF, Fix, Pays, Eszs, MetaOks
VARIABLES img, st, phase
\* key -> fileno maps (a .cfg cannot spell a sequence): two keys in different anchors / colliding in one anchor / three keys
KF01 == <<0, 1>>
KF00 == <<0, 0>>
KF10 == <<1, 0>>
KF001 == <<0, 0, 1>>
FixNone == {}
FixAll == {"anchored", "size", "own", "undo"}
FixAnchored == {"anchored"}
FixCur == {"anchored", "size"}      \* the tree after e2d5c44 and 204d147
vars == <<img, st, phase>>
AllHdrs == {[t |-> "H", key |-> k, first |-> fi, next |-> nx, pay |-> p, esz |-> e,
             mok |-> m, mkey |-> k, msz |-> 0, mhl |-> 1, mpriv |-> FALSE] :
              k \in 1..Len(KF), fi \in 0..(N - 1), nx \in (0 - 1)..(N - 1), p \in Pays, e \in Eszs, m \in MetaOks}
Hdrs(s) == {h \in AllHdrs : h.mok \/ h.first = s}          \* the payload only matters in an inode slot
SlotVals(s) == {[t |-> "E"], [t |-> "G"]} \cup Hdrs(s)
Init == img = <<>> /\ st = InitSt(N, KF, Fix) /\ phase = "load"
Load == /\ phase = "load" /\ Len(img) < N
        /\ \E v \in SlotVals(Len(img)) : img' = Append(img, v) /\ st' = LoadOneSlot(st, v)
        /\ phase' = phase
Validate == /\ phase = "load" /\ Len(img) = N
            /\ st' = ValidateFrom(st, 0) /\ img' = img /\ phase' = "done"
Next == Load \/ Validate
Spec == Init /\ [][Next]_vars

Out == Index(st)
NoCrash == st.crash = ""
\* bookkeeping of the loading phase: only mapped slots are finalized; only slots that were looked at carry flags
SlotStates == \A s \in 0..(N - 1) : (st.ls[s].fin => st.ls[s].mapped) /\ ((st.ls[s].mapped \/ st.ls[s].freed) => s < st.pos \/ s = st.pos)
\* C57 itself; holds for the machine with all proposed repairs (Fix = FixAll)
Strict == phase = "done" => IndexOk(N, img, Out)
\* what today's code (Fix = {}) achieves: C57 up to the three shapes of finding (orphan tail, size-short, foreign slot)
TodayOk(out) ==
   /\ Terminated(out)
   /\ \A i \in 1..Len(out.ent) : LET e == out.ent[i] IN
         /\ Walkable(e) /\ Acyclic(e) /\ OnDisk(img, e)
         /\ SumSizes(e.chain, Len(e.chain)) <= e.sfs
   /\ (Exclusive(out) /\ Partition(N, out)) \/ \E i \in 1..Len(out.ent) : ForeignSlot(img, out.ent[i])
   /\ SeqSet(out.free) \subseteq 0..(N - 1)
Today == phase = "done" => TodayOk(Out)
\* the tree as it is now (anchored + size checks): everything but the foreign-slot shape (F6c) and what follows from it
Current == phase = "done" => LET out == Out IN
   /\ TodayOk(out)
   /\ \A i \in 1..Len(out.ent) : ~OrphanTail(img, out.ent[i]) /\ SizesAddUp(out.ent[i])
\* with only the F6 repair: no orphan tails any more, the other two shapes remain
AnchoredOnly == phase = "done" => LET out == Out IN TodayOk(out) /\ \A i \in 1..Len(out.ent) : ~OrphanTail(img, out.ent[i])
\* the conjuncts of C57 one by one (to see which of them today's code breaks, and on which images)
PerEntry(P(_)) == phase = "done" /\ ~Dead(st) => \A i \in 1..Len(Out.ent) : P(Out.ent[i])
P_Term == phase = "done" => Terminated(Out)
P_Walk == PerEntry(LAMBDA e : Walkable(e) /\ Acyclic(e))
P_OnDisk == PerEntry(LAMBDA e : Walkable(e) => OnDisk(img, e))
P_OneKey == PerEntry(LAMBDA e : Walkable(e) /\ OnDisk(img, e) => OneKey(img, e))
P_Anchored == PerEntry(LAMBDA e : Walkable(e) /\ OnDisk(img, e) => Anchored(img, e))
P_Sizes == PerEntry(LAMBDA e : SizesAddUp(e))
P_Exclusive == phase = "done" /\ ~Dead(st) => Exclusive(Out)
P_Partition == phase = "done" /\ ~Dead(st) => Partition(N, Out)
\* vacuity guards (expected to be VIOLATED: used with -continue off to get witnesses)
NeverTwoSlotEntry == phase = "done" => \A i \in 1..Len(Out.ent) : Len(Out.ent[i].chain) < 2
====
