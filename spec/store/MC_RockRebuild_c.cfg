SPECIFICATION Spec
CONSTANTS N = 3  KF <- KF00  Fix <- FixNone  Pays = {1}  Eszs = {0, 2}  MetaOks = {TRUE, FALSE}
INVARIANTS NoCrash SlotStates Today
CHECK_DEADLOCK FALSE
