SPECIFICATION Spec
CONSTANTS N = 3  KF <- KF01  Fix <- FixCur  Pays = {1, 2}  Eszs = {0, 2}  MetaOks = {TRUE}
INVARIANTS NoCrash SlotStates Current
CHECK_DEADLOCK FALSE
