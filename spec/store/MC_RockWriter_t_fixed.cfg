SPECIFICATION Spec
CONSTANTS N = 4  Objs = 2  MaxParts = 3  MaxStores = 3  Fix <- FixAllV  SameSecond = FALSE
INVARIANTS CrashSafe SurvivesShutdownUpToStale
CHECK_DEADLOCK FALSE
