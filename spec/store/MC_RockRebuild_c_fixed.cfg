SPECIFICATION Spec
CONSTANTS N = 3  KF <- KF00  Fix <- FixAll  Pays = {1}  Eszs = {0, 2}  MetaOks = {TRUE, FALSE}
INVARIANTS NoCrash SlotStates Strict
CHECK_DEADLOCK FALSE
