SPECIFICATION Spec
CONSTANTS N = 3  KF <- KF01  Fix <- FixAnchored  Pays = {1}  Eszs = {0, 2}  MetaOks = {TRUE, FALSE}
INVARIANTS NoCrash SlotStates AnchoredOnly
CHECK_DEADLOCK FALSE
