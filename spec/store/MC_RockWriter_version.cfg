SPECIFICATION Spec
CONSTANTS N = 4  Objs = 2  MaxParts = 3  MaxStores = 3  Fix = {"version"}  SameSecond = FALSE
INVARIANTS CrashSafe SurvivesShutdown
CHECK_DEADLOCK FALSE
