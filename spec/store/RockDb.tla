---- MODULE RockDb ----
(* Rock cache_dir database, P-layer (DESIGN 6.5, properties C57 / C16 / C17).

   A db image is a sequence of slot values (slot ids are 0-based, sequences 1-based: slot s is img[s+1]):
     [t |-> "E"]    empty slot (DbCellHeader::empty(): firstSlot = nextSlot = payloadSize = 0)
     [t |-> "G"]    garbage: a header that fails DbCellHeader::sane(), or a slot the file is too short for
     [t |-> "H", key, first, next, pay, esz,          a sane DbCellHeader: key (1..K), firstSlot, nextSlot, payloadSize, entrySize
                 mok, mkey, msz, mhl, mpriv]          what the payload starts with (matters for inode slots, first = own id, only):
                                                      a well-formed swap meta prefix? its key, swap_file_sz, length, KEY_PRIVATE flag
   The index after a rebuild, as the rest of Squid sees it (what the U driver prints by walking the real StoreMap and
   popping the real free-slot PageStack):
     [done, crash, ent |-> << [f, key, start, sfs, chain |-> << [s, size, next] ... >>, cyc, oob] ... >>, free |-> << slot ... >>]
   ent lists every anchor that can be opened for reading, chain is what following Slice.next from Anchor.start yields.

   C57: "For any rock database contents, including arbitrary, corrupted, duplicated, or partially written slots, rebuilding
   the index terminates without crashing.  Every entry it makes readable has a complete, acyclic slot chain that no other
   entry uses, whose payload sizes add up to the entry size."  IndexOk below is that statement. *)
EXTENDS Integers, Sequences, FiniteSets

IsH(img, s) == s >= 0 /\ s < Len(img) /\ img[s + 1].t = "H"
SeqSet(q) == {q[i] : i \in 1..Len(q)}
NoDup(q) == \A i, j \in 1..Len(q) : i # j => q[i] # q[j]
RECURSIVE SumSizes(_, _)
SumSizes(chain, k) == IF k = 0 THEN 0 ELSE chain[k].size + SumSizes(chain, k - 1)
ChainSlots(e) == {e.chain[i].s : i \in 1..Len(e.chain)}

(* one readable entry *)
Walkable(e) == ~e.cyc /\ ~e.oob /\ Len(e.chain) >= 1 /\ e.chain[1].s = e.start
Acyclic(e) == \A i, j \in 1..Len(e.chain) : i # j => e.chain[i].s # e.chain[j].s
\* the index describes the slots that are on the disk: every chain slot is a sane header, and the slice the index holds
\* for it has the slot's payload size and successor; the chain ends with next = -1
OnDisk(img, e) == \A i \in 1..Len(e.chain) :
                     LET c == e.chain[i] IN
                     /\ IsH(img, c.s)
                     /\ c.size = img[c.s + 1].pay
                     /\ c.next = img[c.s + 1].next
                     /\ c.next = (IF i < Len(e.chain) THEN e.chain[i + 1].s ELSE 0 - 1)
\* "slot chain": all slots of the chain were written for the entry's key (the key the index reports).  For the inode
\* slot rock itself takes the key from the swap metadata in the payload, so an inode whose metadata names the key counts too.
OneKey(img, e) == \A i \in 1..Len(e.chain) :
                     LET v == img[e.chain[i].s + 1] IN
                     \/ v.key = e.key
                     \/ e.chain[i].s = e.start /\ v.first = e.start /\ v.mok /\ v.mkey = e.key
\* "complete": the chain begins with the entry's inode (the slot that says "I am the first slot")
Anchored(img, e) == img[e.start + 1].first = e.start
SizesAddUp(e) == SumSizes(e.chain, Len(e.chain)) = e.sfs
EntryOk(img, e) == Walkable(e) /\ Acyclic(e) /\ OnDisk(img, e) /\ OneKey(img, e) /\ Anchored(img, e) /\ SizesAddUp(e)

(* the whole index *)
Exclusive(out) == /\ \A i, j \in 1..Len(out.ent) : i # j => ChainSlots(out.ent[i]) \cap ChainSlots(out.ent[j]) = {}
                  /\ \A i \in 1..Len(out.ent) : ChainSlots(out.ent[i]) \cap SeqSet(out.free) = {}   \* a free slot will be reused
                  /\ NoDup(out.free)
\* every slot is in a readable chain or in the free pool (DESIGN 6.5 C57; nothing is lost to the cache)
Partition(n, out) == \A s \in 0..(n - 1) : s \in SeqSet(out.free) \/ \E i \in 1..Len(out.ent) : s \in ChainSlots(out.ent[i])
Terminated(out) == out.done /\ out.crash = ""
IndexOk(n, img, out) == /\ Terminated(out)
                        /\ \A i \in 1..Len(out.ent) : EntryOk(img, out.ent[i])
                        /\ Exclusive(out)
                        /\ Partition(n, out)
                        /\ SeqSet(out.free) \subseteq 0..(n - 1)

(* Shapes of violation (used to name findings; a shape is a property of the witness, not a licence) *)
\* a readable entry whose first slot is not an inode: the tail of a chain whose head is gone
OrphanTail(img, e) == Walkable(e) /\ IsH(img, e.start) /\ ~Anchored(img, e)
\* a readable entry whose chain runs through a slot written for another key
ForeignSlot(img, e) == Walkable(e) /\ (\A i \in 1..Len(e.chain) : IsH(img, e.chain[i].s)) /\ ~OneKey(img, e)
====
