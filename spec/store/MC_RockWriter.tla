---- MODULE MC_RockWriter ----
EXTENDS RockWriter
FixNone == {}
FixCur == {"anchored", "size"}      \* the tree after e2d5c44 and 204d147
FixAllV == {"anchored", "size", "own", "undo", "version"}
====
