---- MODULE MC_RockWriter ----
EXTENDS RockWriter
FixNone == {}
FixAllV == {"anchored", "size", "own", "undo", "version"}
====
