SPECIFICATION Spec
CONSTANTS N = 3  KF <- KF00  Fix <- FixCur  Pays = {1}  Eszs = {0, 2}  MetaOks = {TRUE, FALSE}
INVARIANTS NoCrash SlotStates Current
CHECK_DEADLOCK FALSE
