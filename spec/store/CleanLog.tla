---- MODULE CleanLog ----
(* I-layer model of storeDirWriteCleanLogs() (src/store/Disks.cc): at a clean shutdown every cache_dir with a swap.state
   gets a fresh "clean" log.  The code walks the directories round-robin, one entry per directory per round, until a whole
   round finds no directory with an entry left.  WroteAll: when the loop ends, every loggable entry of every directory
   has been written exactly once - which is what the restart of C17 relies on (an entry missing from a log that is marked
   clean is a miss although its file is intact).  GiveUpOnEmpty = TRUE is the shape of seeded change S98 (`continue`
   turned into `break` when a directory has run out of entries); MC_CleanLog_break.cfg shows that the invariant has teeth.
   Bound to the code by C17: the number after "Finished.  Wrote" in cache.log is compared with the number of live
   completed entries of the history (DRIFT), and the restart itself decides the property (P-layer, Restart.tla). *)
EXTENDS Naturals, FiniteSets
CONSTANTS NDirs, MaxEntries, GiveUpOnEmpty
Dirs == 1..NDirs
VARIABLES total,      \* total[d]: loggable entries in directory d (fixed)
          left,       \* left[d]: entries the directory's iterator has not returned yet
          written,    \* written[d]: entries written to d's clean log
          dirn,       \* the for-loop variable (NDirs + 1: the round is over)
          notdone,    \* the while-loop flag
          pc          \* "round" | "done"
vars == <<total, left, written, dirn, notdone, pc>>
Init == /\ total \in [Dirs -> 0..MaxEntries] /\ left = total /\ written = [d \in Dirs |-> 0]
        /\ dirn = 1 /\ notdone = FALSE /\ pc = "round"
\* one iteration of the inner for loop
Visit == /\ pc = "round" /\ dirn <= NDirs
         /\ IF left[dirn] = 0
              THEN /\ UNCHANGED <<left, written, notdone>>
                   /\ dirn' = IF GiveUpOnEmpty THEN NDirs + 1 ELSE dirn + 1        \* `continue` (or the seeded `break`)
              ELSE /\ left' = [left EXCEPT ![dirn] = @ - 1]
                   /\ written' = [written EXCEPT ![dirn] = @ + 1]
                   /\ notdone' = TRUE /\ dirn' = dirn + 1
         /\ UNCHANGED <<total, pc>>
\* the end of a round: another one if some directory still had an entry
EndRound == /\ pc = "round" /\ dirn > NDirs
            /\ IF notdone THEN /\ dirn' = 1 /\ notdone' = FALSE /\ UNCHANGED pc
                          ELSE /\ pc' = "done" /\ UNCHANGED <<dirn, notdone>>
            /\ UNCHANGED <<total, left, written>>
Next == Visit \/ EndRound
Spec == Init /\ [][Next]_vars /\ WF_vars(Next)
TypeOk == /\ \A d \in Dirs : left[d] <= total[d] /\ written[d] + left[d] = total[d]
WroteAll == pc = "done" => \A d \in Dirs : written[d] = total[d]
Terminates == <>(pc = "done")
====
