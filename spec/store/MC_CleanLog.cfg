SPECIFICATION Spec
CONSTANTS NDirs = 3
          MaxEntries = 3
          GiveUpOnEmpty = FALSE
INVARIANTS TypeOk WroteAll
PROPERTY Terminates
CHECK_DEADLOCK FALSE
