SPECIFICATION Spec
CONSTANTS N = 3  KF <- KF01  Fix <- FixNone  Pays = {1}  Eszs = {0, 2}  MetaOks = {TRUE}
INVARIANTS NoCrash SlotStates Today
CHECK_DEADLOCK FALSE
