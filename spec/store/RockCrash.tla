---- MODULE RockCrash ----
(* P-layer of C16 / C17 for the rock store, over observed histories (unit level: the real Rock::SwapDir driven by a
   scripted workload, every disk write logged by a recording DiskFile).

   ops     program-order list of [op |-> "put"/"del", obj, ver, len, status, first_seq, last_seq]: what the workload did;
           a put issued the disk writes first_seq..last_seq (none if first_seq > last_seq); status "done" = the store
           finished (swap-out completion reported to the core)
   crash   the disk keeps writes 1..k of the log and the first `cut` bytes of write k+1 (cut = 0: nothing of it)
   served  what a hit on every object yields after Restart (= the real rebuild of the materialised image, then the real
           read path with swap-in validation): [obj, hit, ver, len, intact]; ver/len are taken from the served HTTP
           message, intact = every body byte is the byte the generator gives for (obj, ver, offset)

   C16: "... restarted, it starts successfully.  Every cache hit it serves afterwards is byte-identical to a complete
         response it had received before the crash."
   C17: "After a clean shutdown, every entry that was completely stored ... and was not evicted or invalidated, is served
         as a cache hit after restart with identical bytes." *)
EXTENDS Integers, Sequences, FiniteSets

Stored(o) == o.op = "put" /\ o.status = "done" /\ o.first_seq <= o.last_seq
\* stores that had finished before the crash: all their writes are on the disk
CompleteBefore(ops, k) == {j \in 1..Len(ops) : Stored(ops[j]) /\ ops[j].last_seq <= k}
Hits(served) == {i \in 1..Len(served) : served[i].hit}

CrashConsistent(ops, k, restartOk, served) ==
  /\ restartOk
  /\ \A i \in Hits(served) :
        LET s == served[i] IN
        /\ s.intact
        /\ \E j \in CompleteBefore(ops, k) : ops[j].obj = s.obj /\ ops[j].ver = s.ver /\ ops[j].len = s.len

\* the last thing the workload did to obj (0 if nothing)
RECURSIVE LastOp(_, _, _)
LastOp(ops, obj, i) == IF i = 0 THEN 0 ELSE IF ops[i].obj = obj THEN i ELSE LastOp(ops, obj, i - 1)
Objects(ops) == {ops[i].obj : i \in 1..Len(ops)}
\* completely stored and neither evicted nor replaced afterwards
Kept(ops) == {j \in 1..Len(ops) : Stored(ops[j]) /\ LastOp(ops, ops[j].obj, Len(ops)) = j}
SurvivesRestart(ops, restartOk, served) ==
  /\ restartOk
  /\ \A j \in Kept(ops) : \E i \in Hits(served) :
        served[i].obj = ops[j].obj /\ served[i].ver = ops[j].ver /\ served[i].len = ops[j].len /\ served[i].intact

(* I-layer: the order in which Rock::IoState::writeToDisk issues the slots of one entry (what makes a prefix of the log a
   recognisably incomplete entry): the inode first; every slot names its successor, which was reserved before the slot
   was written; only the last slot has nextSlot = -1 and carries entrySize; one version per entry. *)
EntryWrites(writes, o) == [i \in 1..(o.last_seq - o.first_seq + 1) |-> writes[o.first_seq + i - 1]]
RECURSIVE SumPay(_, _)
SumPay(ws, i) == IF i = 0 THEN 0 ELSE ws[i].pay + SumPay(ws, i - 1)
WriterOrder(writes, o) ==
  LET ws == EntryWrites(writes, o)
      m == Len(ws)
  IN Stored(o) =>
     /\ \A i \in 1..m : /\ ws[i].aligned /\ ws[i].first = ws[1].slot /\ ws[i].key = ws[1].key /\ ws[i].ver = ws[1].ver
                        /\ ws[i].len = ws[i].pay + 40
                        /\ ws[i].next = (IF i < m THEN ws[i + 1].slot ELSE 0 - 1)
                        /\ ws[i].esz = (IF i < m THEN 0 ELSE SumPay(ws, m))
     /\ \A i, j \in 1..m : i # j => ws[i].slot # ws[j].slot
     /\ ws[1].mok /\ ws[1].mkey = ws[1].key
====
