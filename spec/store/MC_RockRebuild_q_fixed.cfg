SPECIFICATION Spec
CONSTANTS N = 3  KF <- KF01  Fix <- FixAll  Pays = {1}  Eszs = {0, 2}  MetaOks = {TRUE}
INVARIANTS NoCrash SlotStates Strict
CHECK_DEADLOCK FALSE
