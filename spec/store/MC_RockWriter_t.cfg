SPECIFICATION Spec
CONSTANTS N = 4  Objs = 2  MaxParts = 2  MaxStores = 3  Fix <- FixCur  SameSecond = FALSE
INVARIANTS CrashSafeUpToKnown SurvivesShutdownUpToStale
CHECK_DEADLOCK FALSE
