"""C55 - shared store index exposes only complete, stable entries (DESIGN 6.1).

P-layer  spec/smp/StoreIndex.tla      editions per anchor (key, empty|writing|appending|complete|aborted, writer, readers,
                                      updater, chain of slices), every public StoreMap call as Call / Lin / Ret with
                                      acquisitions that may always fail; the guards are the property
I-layer  spec/smp/StoreMapImpl.tla    one action per shared access between lock operations of src/ipc/StoreMap.cc; the lock is
                                      the linearizable try-lock that C54 establishes
binding  harness/s_storemap.cc        the real Ipc::StoreMap (built by StoreMap::Init over heap segments) under the schedule
                                      player; one driver op = one public StoreMap call
         T1  every edge of the I-graphs replayed on the real code compiled with the lock operations as single steps
             (state equality after each step; mismatch = drift, never an alarm)
         X/W bounded exhaustive / random schedules of the real code with the real lock at atomic granularity; the driver's
             monitor evaluates the property on call/return events (definite violations), every distinct call/return history
             is validated by TLC against StoreIndex.tla (Trace_StoreIndex.tla); only these two alarm.
Known findings (unchanged code; the P-layer stays strict, the witness is classified by re-validating the rejected history
against the layer with ONE weakening switched on - AllowUpdRace / AllowStaleSuffixLoss in StoreIndex.tla):
         {'kind': 'lost-deletion-during-update'}   F7: a deletion racing with closeForUpdating is lost / applied late
         {'kind': 'stale-reader-loses-suffix'}     the suffix shared by the stale and the fresh edition is freed with the
                                                   fresh edition while readers still hold the stale one
"""
import concurrent.futures
import json
import os
import re

import scheck
import vlib
from vlib import VERIF, MachineryError

SPEC = os.path.join(VERIF, 'spec', 'smp')
KNOWN_LOCAL = os.path.join(VERIF, 'checks', 'C55.known.json')
COPIED = ['ipc/StoreMap.h', 'ipc/StoreMap.cc', 'ipc/ReadWriteLock.h', 'ipc/ReadWriteLock.cc']
KEY_OPS = ('ow', 'or', 'fk', 'ou')
ALL_KEYS = list(range(1, 10))       # Key constant of the trace configs (only TypeOK depends on it)
RELAX = [('lost-deletion-during-update', 'AllowUpdRace'), ('stale-reader-loses-suffix', 'AllowStaleSuffixLoss')]


# ---------------------------------------------------------------------------------------------
# build: two variants of the same sources
# ---------------------------------------------------------------------------------------------
def lock_guard(rel, txt):
    """Every public Ipc::ReadWriteLock member gets a Verif::LockOp guard (harness/s_storemap_lock.h): a no-op unless the
    driver is compiled with -DVERIF_ATOMIC_LOCK=1, then the whole lock operation is one scheduling point."""
    if rel != 'ipc/ReadWriteLock.cc':
        return txt
    txt, n = re.subn(r'^(Ipc::ReadWriteLock::(\w+)\([^)]*\)(?: const)?\n\{\n)', r'\1    Verif::LockOp verifLockOp_(this, "\2");\n',
                     txt, flags=re.M)
    if n < 10:
        raise MachineryError('lock guard substitution matched only %d member functions of ReadWriteLock.cc' % n)
    return txt.replace('#include "verif_assert.h"', '#include "verif_assert.h"\n#include "s_storemap_lock.h"')


def build(ctx, atomic_lock):
    extra = [os.path.join(vlib.REPO, 'src', f) for f in ('String.cc', 'sbuf/SBuf.cc', 'sbuf/MemBlob.cc', 'sbuf/Stats.cc',
                                                          'base/CharacterSet.cc', 'base/InstanceId.cc')]
    return scheck.build_sdriver(ctx, 'storemap' + ('_al' if atomic_lock else ''), COPIED, 's_storemap.cc',
                                extra_subst=[('private:', 'public:'), ('protected:', 'public:'), lock_guard],
                                extra_srcs=['s_stubs.cc', 's_storemap_stubs.cc', 's_storemap_globals.cc'] + extra,
                                defines=['-DVERIF_ATOMIC_LOCK=%d' % (1 if atomic_lock else 0)])


# ---------------------------------------------------------------------------------------------
# scenarios: scripts of public calls; "w:1" style macros are expanded here
# ---------------------------------------------------------------------------------------------
MACROS = {
    'w': 'ow:{k}.ws.ws.cw', 'w1': 'ow:{k}.ws.cw', 'w0': 'ow:{k}.cw', 'wa': 'ow:{k}.ws.aw', 'wp': 'ow:{k}.ws.sa.ws.cw',
    'wpa': 'ow:{k}.ws.sa.ws.aw', 'r': 'or:{k}.rs.cr', 'r0': 'or:{k}.cr', 'rf': 'or:{k}.rs.cf', 're': 'or:{k}.fe.cr', 'f': 'fk:{k}',
    'u': 'ou:{k}.us.cu', 'ua': 'ou:{k}.us.au', 'p': 'p',
}


def expand(script):
    """'w:1+r:1' -> 'ow:1.ws.ws.cw.or:1.rs.cr' (ops of one fiber, '+' separates macro calls)"""
    out = []
    for part in script.split('+'):
        name, _, k = part.partition(':')
        if name not in MACROS:
            out.append(part)            # already a plain op list
            continue
        out.append(MACROS[name].format(k=k))
    return '.'.join(out)


def xcmd(nf, scripts, cfg, states=3000000, hcap=100000):
    return 'X %d 12 %d %d scripts=%s %s' % (nf, states, hcap, '/'.join(expand(s) for s in scripts), cfg)


# ---------------------------------------------------------------------------------------------
# histories -> records for Trace_StoreIndex
# ---------------------------------------------------------------------------------------------
def parse_cfg(cfg):
    n, keys, pre = 3, [1, 2], []
    for tok in cfg.split():
        if tok.startswith('n='):
            n = int(tok[2:])
        elif tok.startswith('keys='):
            keys = [int(x) for x in tok[5:].split(',') if x]
        elif tok.startswith('pre='):
            for x in tok[4:].split(','):
                k, _, l = x.partition(':')
                pre.append((int(k), int(l.replace('+a', '')), '+a' in l))
    return n, keys, pre


def init_of(cfg):
    """the editions stored before the fibers start (harness/s_storemap.cc reset(): slices are taken smallest first)"""
    n, keys, pre = parse_cfg(cfg)
    init = [{'key': 0, 'st': 'empty', 'ch': []} for _ in range(n)]
    nxt = 0
    for k, length, app in pre:
        a = k % n
        if init[a]['key']:
            raise MachineryError('pre entries collide in "%s"' % cfg)
        init[a] = {'key': k, 'st': 'appending' if app else 'complete', 'ch': list(range(nxt, nxt + length))}
        nxt += length
    ks = set(keys) | {k for k, _, _ in pre}
    if not ks <= set(ALL_KEYS):
        raise MachineryError('key outside 1..9 in "%s"' % cfg)
    return n, ALL_KEYS, init


def parse_result(kind, res):
    w = {'known': 1, 'a': -1, 'b': -1, 's': -1, 'L': [], 'F': []}
    main, _, freed = res.partition('/f=')
    if freed:
        w['F'] = [int(x) for x in freed.split('.') if x != '']
    if kind in ('ow', 'or'):
        if main != 'F':
            w['a'] = int(main)
    elif kind in ('ws', 'us'):
        if main != 'E':
            w['s'] = int(main)
    elif kind == 'rs':
        w['L'] = [int(x) for x in main[1:].split('.') if x != '']
    elif kind == 'ou':
        if main != 'F':
            parts = main.split('.')
            w['a'], w['b'] = int(parts[0]), int(parts[1])
    return w


UNKNOWN = {'known': 0, 'a': -1, 'b': -1, 's': -1, 'L': [], 'F': []}


def hist_line(ev, init):
    out = []
    for e in ev:
        kind, _, arg = e[2].partition(':')
        rec = {'e': e[0], 'p': int(e[1]), 'op': kind, 'k': int(arg) if (kind in KEY_OPS and arg) else 0, 'w': dict(UNKNOWN)}
        if e[0] == 'r':
            try:
                rec['w'] = parse_result(kind, e[3])
            except (ValueError, IndexError):
                rec['e'] = 'a'              # unparsable result (diverged driver): never accepted
        out.append(rec)
    for i, rec in enumerate(out):
        if rec['e'] != 'c':
            continue
        for nxt in out[i + 1:]:
            if nxt['p'] == rec['p']:
                if nxt['e'] == 'r':
                    rec['w'] = dict(nxt['w'])
                break
    return {'ev': out, 'init': init}


def show(line):
    def one(e):
        s = '%s%d:%s' % ({'c': 'call ', 'r': 'ret ', 'a': 'ABORT '}[e['e']], e['p'], e['op'] + (':%d' % e['k'] if e['k'] else ''))
        if e['e'] == 'r':
            w = e['w']
            bits = []
            if e['op'] in ('ow', 'or'):
                bits.append('anchor %d' % w['a'] if w['a'] >= 0 else 'FAIL')
            if e['op'] == 'ou':
                bits.append('stale %d fresh %d' % (w['a'], w['b']) if w['a'] >= 0 else 'FAIL')
            if e['op'] in ('ws', 'us'):
                bits.append('slice %d' % w['s'] if w['s'] >= 0 else 'none')
            if e['op'] == 'rs':
                bits.append('saw %s' % w['L'])
            if w['F']:
                bits.append('freed %s' % w['F'])
            s += ' -> ' + ', '.join(bits) if bits else ''
        return s
    return {'init': [i for i in line['init'] if i['key']], 'history': [one(e) for e in line['ev']]}


def overlapping(line):
    open_ops = set()
    for e in line['ev']:
        if e['e'] == 'c':
            if open_ops - {e['p']}:
                return True
            open_ops.add(e['p'])
        else:
            open_ops.discard(e['p'])
    return False


def trace_cfg(ctx, n, keys, relax=()):
    """Trace_StoreIndex.cfg is the reference; other instances differ in the constants only."""
    txt = open(os.path.join(SPEC, 'Trace_StoreIndex.cfg')).read()
    rng = '{%s}' % ', '.join(str(i) for i in range(n))
    txt2 = re.sub(r'Anchor = \{[^}]*\}', 'Anchor = ' + rng, txt)
    txt2 = re.sub(r'Slice = \{[^}]*\}', 'Slice = ' + rng, txt2)
    txt2 = re.sub(r'Key = \{[^}]*\}', 'Key = {%s}' % ', '.join(str(k) for k in keys), txt2)
    for sw in relax:
        if sw + ' = FALSE' not in txt2:
            raise MachineryError('cannot instantiate Trace_StoreIndex.cfg (%s)' % sw)
        txt2 = txt2.replace(sw + ' = FALSE', sw + ' = TRUE')
    if 'Anchor = ' + rng not in txt2:
        raise MachineryError('cannot instantiate Trace_StoreIndex.cfg')
    d = vlib.mkdirs(os.path.join(ctx.work, 'cfg'))
    path = os.path.join(d, 'Trace_StoreIndex_n%d%s.cfg' % (n, ''.join('_' + s for s in relax)))
    with open(path, 'w') as f:
        f.write(txt2)
    return path


def validate(ctx, groups, chunk=600, timeout=1500, count=True):
    """groups: list of (label, cfg path, lines).  All chunks of all groups share one pool.
    Returns {label: [indices of rejected histories | 'inv:<name>']}."""
    module = os.path.join(SPEC, 'Trace_StoreIndex.tla')
    jobs = []
    for label, cfg, lines in groups:
        for ci, i in enumerate(range(0, len(lines), chunk)):
            jobs.append((label, cfg, ci, i, lines[i:i + chunk]))
    jobs.sort(key=lambda j: -sum(len(ln['ev']) for ln in j[4]))

    def one(job):
        label, cfg, ci, base, lines = job
        d = vlib.mkdirs(os.path.join(ctx.work, 'traces'))
        path = os.path.join(d, '%s-%d.ndjson' % (label, ci))
        with open(path, 'w') as f:
            for ln in lines:
                f.write(json.dumps(ln, separators=(',', ':')) + '\n')
        res = vlib.tlc(ctx, module, cfg, workers=1, env={'TRACE': path}, timeout=timeout, label='%s-%d' % (label, ci), kind='trace',
                       heap='3g')
        if res.clean:
            return label, []
        m = re.search(r'<<\s*"REJECTED",\s*\{(.*?)\}\s*>>', res.out, re.S)
        if m:
            return label, [base + int(x) - 1 for x in m.group(1).split(',') if x.strip()]
        if res.invariant:
            return label, ['inv:' + res.invariant]
        raise MachineryError('trace validation failed to run (%s):\n%s' % (label, res.tail(40)))

    rejected = {label: [] for label, _, _ in groups}
    with concurrent.futures.ThreadPoolExecutor(max_workers=max(2, vlib.NCPU)) as ex:
        for label, idx in ex.map(one, jobs):
            rejected[label] += idx
    if count:
        ctx.add('impl_traces', sum(len(g[2]) for g in groups))
    return rejected


# ---------------------------------------------------------------------------------------------
# T1: edges of the I-layer replayed on the real code (lock operations as single steps)
# ---------------------------------------------------------------------------------------------
SHARED = ('fileNos', 'anchors', 'slices', 'count', 'victim', 'pool')


def _items(f):
    """ToJson prints a function over 0..n-1 as an object (keys "0", "1", ...) or, over 1..n, as an array"""
    if isinstance(f, dict):
        return [f[k] for k in sorted(f, key=int)]
    return list(f)


def reshape(st):
    """I-layer state (ToJson of StoreMapImpl!St) -> the shape of the driver's project()"""
    d = dict(st)
    d['anchors'] = [{'key': a['key'], 'wtbf': a['wtbf'], 'halted': a['halted'], 'start': a['start'], 'splice': a['splice'],
                     'readers': a['rdrs'], 'writing': a['wr'], 'appending': a['app'], 'updating': a['updg'],
                     'readLevel': a['rdrs'], 'writeLevel': 1 if a['wr'] else 0} for a in _items(st['anchors'])]
    d['slices'] = [[s['size'], s['next']] for s in _items(st['slices'])]
    d['fileNos'] = _items(st['fileNos'])
    d['pool'] = sorted(st['pool'])
    for k in ('pc', 'L', 'H', 'ret'):
        d[k] = _items(st[k])
    return d


def impl_mover(s, t):
    ch = [p for p in range(len(s['pc'])) if s['pc'][p] != t['pc'][p] or s['L'][p] != t['L'][p] or s['H'][p] != t['H'][p]]
    if len(ch) != 1:
        raise MachineryError('ambiguous mover %r -> %r' % (s['pc'], t['pc']))
    p = ch[0]
    if s['pc'][p] == 'idle':
        loc = t['L'][p]
        return ('B', p, loc['op'] + (':%d' % loc['k'] if loc['k'] else ''))
    return ('S', p)


def expected_ret(r):
    """StoreMapImpl!ret[p] -> what the driver prints as the last completed op of the fiber ("op:result")"""
    op = r['op'] + (':%d' % r['k'] if r['k'] else '')
    kind = r['op']
    if kind in ('ow', 'or'):
        res = str(r['a']) if r['a'] >= 0 else 'F'
    elif kind == 'ou':
        res = '%d.%d.%d' % (r['a'], r['b'], r['first']) if r['a'] >= 0 else 'F'
    elif kind in ('ws', 'us'):
        res = str(r['s'])
    elif kind == 'rs':
        res = 'L' + '.'.join(str(x) for x in r['seen'])
    elif kind in ('fe', 'p'):
        res = r['ok']
    else:
        res = 'T'
    if r['freed']:
        res += '/f=' + '.'.join(str(x) for x in r['freed'])
    return op + ':' + res


def impl_ret_of(s, t, got):
    for p in range(len(s['pc'])):
        if s['pc'][p] != 'idle' and t['pc'][p] == 'idle' and got['ret'][p] != expected_ret(t['ret'][p]):
            return False
    return True


class Sub:
    """per-thread view of the check context: own counters and drift list (merged afterwards), everything else shared"""
    def __init__(self, ctx):
        self._c, self.cov, self.drift = ctx, {}, []

    def add(self, key, n=1):
        self.cov[key] = self.cov.get(key, 0) + n

    def __getattr__(self, a):
        return getattr(self._c, a)

    def merge(self):
        for k, v in self.cov.items():
            self._c.add(k, v)
        self._c.drift += self.drift


# (edge-dump config of MC_StoreMapImpl, driver configuration with the same initial state)
# the single-process graph with all 16 calls: every action of the I-layer at least once, all its edges are replayed
T1_QUICK = [('MC_StoreMapImpl_q1p_edges.cfg', 'n=3 keys=1 maxw=1 maxu=1 pre=1:2', None),
            ('MC_StoreMapImpl_qw_edges.cfg', 'n=2 keys=1 maxw=1', 400), ('MC_StoreMapImpl_qf1_edges.cfg', 'n=2 keys=1 maxw=1 pre=1:1', 400)]
T1_THOROUGH = [('MC_StoreMapImpl_q1p_edges.cfg', 'n=3 keys=1 maxw=1 maxu=1 pre=1:2', None),
               ('MC_StoreMapImpl_qa_edges.cfg', 'n=2 keys=1 maxw=1', None), ('MC_StoreMapImpl_qf2_edges.cfg', 'n=2 keys=1 maxw=1 pre=1:1', None),
               ('MC_StoreMapImpl_qu1_edges.cfg', 'n=3 keys=1 maxw=1 maxu=1 pre=1:2', 8000),
               ('MC_StoreMapImpl_wr_edges.cfg', 'n=2 keys=1 maxw=1', 8000), ('MC_StoreMapImpl_u_edges.cfg', 'n=3 keys=1 maxw=1 maxu=1 pre=1:2', 8000)]


def edge_replay(ctx, exe, cfgname, drv_cfg, max_edges):
    r = vlib.tlc(ctx, os.path.join(SPEC, 'MC_StoreMapImpl.tla'), os.path.join(SPEC, cfgname), workers=1, record=False, heap='4g')
    if not r.clean:
        raise MachineryError('TLC edge dump failed for %s:\n%s' % (cfgname, r.tail(30)))
    edges = [{'s': reshape(e['s']), 't': reshape(e['t'])} for e in scheck.parse_edges(r.out)]
    n, mism = scheck.replay_edges(ctx, exe, edges, 2, impl_mover, SHARED, cfg=drv_cfg, ret_of=impl_ret_of, max_edges=max_edges)
    ctx.log('edge replay %s on the real StoreMap "%s": %d edges replayed, %d mismatches' % (cfgname, drv_cfg, n, mism))
    return n, mism


# ---------------------------------------------------------------------------------------------
# verdicts
# ---------------------------------------------------------------------------------------------
def report(ctx, what, witness):
    """P-rejection -> KNOWN-FINDING when the witness class matches an 'open' entry of checks/C55.known.json (kept until the
    coordinator moves the entry to /verif/known_findings.json, which ctx.violation consults itself), else VIOLATION."""
    cls = witness.get('class', {})
    entries = json.load(open(KNOWN_LOCAL)).get('open', []) if os.path.exists(KNOWN_LOCAL) else []
    for k in entries:
        m = k.get('match', {})
        if k.get('property') == ctx.prop and m and all(cls.get(a) == b for a, b in m.items()):
            if k['id'] not in [x['id'] for x in ctx.known]:
                ctx.known.append(k)
            return False
    return ctx.violation(what, witness)


def monitor_class(what):
    m = re.match(r'\[known:([\w-]+)\]', what)
    return {'kind': m.group(1)} if m else {'kind': 'monitor', 'text': re.sub(r'\d+', 'N', what)[:80]}


def schedule_of(path):
    """explorer path [[fiber, op-or-empty], ...] -> the driver commands that replay it"""
    return ' ; '.join(('B %d %s ; S %d' % (p, op, p)) if op else 'S %d' % p for p, op in path)


# ---------------------------------------------------------------------------------------------
def scenario_runs(T, seed):
    """(variant, command, cfg).  variant 'rl' = real lock at atomic granularity, 'al' = lock operations as single steps."""
    runs = []

    def X(nf, scripts, cfg, variant='rl', **kw):
        # quick tier: all schedules are explored under the driver monitor, the first 200 distinct histories of a run go to TLC
        kw.setdefault('hcap', 4000 if T else 200)
        runs.append((variant, xcmd(nf, scripts, cfg, **kw), cfg))
    c1 = 'n=3 keys=1'
    c14 = 'n=3 keys=1,4'            # 4 % 3 = 1: the two keys share a name
    pre = 'n=3 keys=1 pre=1:2'
    pre14 = 'n=3 keys=1,4 pre=1:2'
    # --- writers, readers, deleters (core protocol) ---
    X(2, ['w:1', 'r:1'], c1)
    X(2, ['wp:1', 'r:1'], c1)
    X(2, ['wpa:1', 'r:1'], c1)
    X(2, ['wa:1', 'r:1'], c1)
    X(2, ['w1:1', 'w1:1'], c1)
    X(2, ['w1:1', 'w1:4'], c14)
    X(2, ['w1:1+r:1', 'f:1'], c1)
    X(2, ['r:1', 'f:1'], pre)
    X(2, ['rf:1', 'f:1'], pre)
    X(2, ['rf:1', 'rf:1'], pre)
    X(2, ['re:1', 'r:1'], pre)
    X(2, ['r:1', 'w1:1'], pre)
    X(2, ['r:1+r:4', 'w1:4'], pre14)
    X(2, ['r:1', 'p'], pre)
    X(2, ['r:1', 'wp:1'], 'n=3 keys=1 pre=1:1+a')
    X(2, ['r:1+r:1', 'f:1+w1:1'], pre)
    X(3, ['w1:1', 'f:1', 'r:1'], c1)
    X(3, ['r:1', 'f:1', 'r:1'], pre)
    X(3, ['wpa:1', 'r:1', 'r:1'], c1, variant='rl' if T else 'al')
    X(3, ['r:1', 'w1:4', 'r:4'], pre14, variant='rl' if T else 'al')
    X(3, ['rf:1', 'r:1', 'w1:1'], pre, variant='rl' if T else 'al')
    # --- updates ---
    X(2, ['u:1', 'r:1'], pre)
    X(2, ['ua:1', 'r:1'], pre)
    X(2, ['u:1', 'u:1'], 'n=4 keys=1 pre=1:2', variant='rl' if T else 'al')
    X(2, ['u:1', 'f:1+r0:1'], pre)
    X(2, ['u:1', 'w1:1'], pre)
    X(2, ['u:1', 'p+r:1'], pre)
    X(2, ['r:1+r:1', 'u:1+f:1'], pre)
    X(3, ['u:1', 'f:1', 'r0:1'], pre, variant='al')
    X(3, ['u:1', 'r:1', 'f:1'], pre, variant='al')
    if T:
        X(3, ['u:1', 'f:1', 'r0:1'], pre)          # F7 with three fibers at atomic granularity: 1.5 million states
        X(3, ['w:1', 'r:1', 'r:1'], c1)
        X(3, ['u:1', 'u:1', 'r:1'], 'n=4 keys=1 pre=1:2', variant='al')
        X(3, ['wp:1', 'rf:1', 'f:1'], c1)
    # --- every protocol-respecting call sequence (enabledOps), lock operations as single steps ---
    if T:
        c = 'n=3 keys=1 maxw=1'
        runs.append(('al', 'X 2 3 3000000 3000 ' + c, c))
        c = 'n=3 keys=1,4 maxw=1 pre=1:1 kinds=ow,ws,cw,or,rs,cr,cf,fk,fe'
        runs.append(('al', 'X 2 3 3000000 3000 ' + c, c))
    # --- the two findings on the unchanged code, with the driver monitor in strict mode: exact schedules for the report ---
    X(2, ['u:1', 'f:1+r0:1'], pre + ' strict=1', hcap=0)
    X(2, ['r:1', 'u:1+f:1'], pre + ' strict=1', variant='al', hcap=0)
    # --- T2: random walks, 4 fibers, 4 keys, 8 slices ---
    nw = 1500 if T else 200
    wc = 'n=8 keys=1,2,3,9 maxw=3 pre=1:2,2:1'
    runs.append(('rl', 'W 4 8 %d %d 0 %s' % (nw, seed + 1, wc), wc))
    wc2 = 'n=4 keys=1,5 maxw=2 pre=1:2'
    runs.append(('rl', 'W 3 10 %d %d 0 %s' % (nw, seed + 2, wc2), wc2))
    runs.append(('al', 'W 4 10 %d %d 0 %s' % (nw, seed + 3, wc2), wc2))
    return runs


def run(ctx):
    T = ctx.thorough
    exes = {'rl': build(ctx, False), 'al': build(ctx, True)}
    ctx.log('drivers built:', exes['rl'], exes['al'])
    pool = concurrent.futures.ThreadPoolExecutor(max_workers=vlib.NCPU)        # explorers
    bg = concurrent.futures.ThreadPoolExecutor(max_workers=3)                  # model checks and edge dumps, side by side

    # 1. design step: the P-layer model-checked standalone (the guards maintain the invariants of the statement) and the
    #    I-layer with its ghost invariants (spurious lock failures on)
    mc = os.path.join(SPEC, 'MC_StoreIndex.tla')
    mi = os.path.join(SPEC, 'MC_StoreMapImpl.tla')
    mcs = [(mc, 'MC_StoreIndex_q.cfg'), (mc, 'MC_StoreIndex_qu.cfg'), (mi, 'MC_StoreMapImpl_2c.cfg')]
    if T:
        mcs += [(mc, 'MC_StoreIndex.cfg'), (mi, 'MC_StoreMapImpl_2.cfg'), (mi, 'MC_StoreMapImpl_u.cfg')]
    if ctx.replay:
        mcs = []
    mc_f = [bg.submit(vlib.tlc_must_pass, ctx, m, os.path.join(SPEC, c), workers=(6 if c == 'MC_StoreIndex.cfg' else 2), heap='6g', timeout=2400)
            for m, c in mcs]

    # 1b. T1: edges of the I-graphs on the real code (lock operations as single steps); quick: a seeded sample of each graph
    def t1(cfgname, drv_cfg, max_edges):
        sub = Sub(ctx)
        try:
            edge_replay(sub, exes['al'], cfgname, drv_cfg, max_edges)
        except MachineryError as e:
            # an implementation that left the I-layer far enough to break the replay itself: drift, the P-layer decides below
            sub.drift.append('edge replay of %s could not be completed: %s' % (cfgname, str(e)[:300]))
        return sub
    t1_f = [bg.submit(t1, c, d, m) for c, d, m in (T1_THOROUGH if T else T1_QUICK)] if not ctx.replay else []

    # 2. exploration of the real code
    runs = scenario_runs(T, ctx.seed)
    if ctx.replay:
        w = json.load(open(ctx.replay)).get('witness', {})
        if 'run' in w:
            runs = [tuple(w['run'])]

    def explore(r):
        stats, hists, viols = scheck.run_explorer(ctx, exes[r[0]], [r[1]], timeout=2400)
        return stats[0], hists, viols
    results = list(pool.map(explore, runs))

    groups = {}          # (n, keys) -> [lines], [origin]
    seen = set()
    dviol = []
    for r, (st, hists, viols) in zip(runs, results):
        ctx.log('explorer[%s] %-95s %s' % (r[0], r[1][:95], json.dumps({k: v for k, v in st.items() if k != 'x'})))
        ctx.add('impl_states', st.get('states', 0))
        ctx.add('impl_steps', st.get('steps', 0))
        ctx.add('impl_transitions', st.get('transitions', 0))
        ctx.add('impl_quiescent_states_checked', st.get('quiescent_states', 0))
        ctx.add('impl_histories_distinct', st.get('histories', st.get('walks', 0)))
        dviol += [(len(v.get('path') or v['ev']), r, v) for v in viols]
        n, keys, init = init_of(r[2])
        g = groups.setdefault((n, tuple(keys)), ([], []))
        for h in hists:
            ln = hist_line(h, init)
            k = json.dumps(ln, sort_keys=True)
            if k not in seen:
                seen.add(k)
                g[0].append(ln)
                g[1].append(list(r))
    ctx.cov['exhaustive'] = not any(st.get('truncated') for st, _, _ in results)
    ctx.cov['explorer_runs'] = [dict(variant=r[0], cmd=r[1], **{k: v for k, v in st.items() if k != 'x'}) for r, (st, _, _) in zip(runs, results)]
    ctx.cov['driver_monitor_violations'] = len(dviol)
    byclass = {}
    for ln_, r, v in sorted(dviol, key=lambda x: x[0]):
        byclass.setdefault(json.dumps(monitor_class(v['what']), sort_keys=True), (r, v))
    for cls, (r, v) in list(byclass.items())[:4]:       # the shortest schedule of each class
        report(ctx, 'driver P-monitor: ' + v['what'],
               {'kind': 'schedule', 'class': json.loads(cls), 'run': list(r), 'schedule': 'R ; ' + schedule_of(v.get('path') or []),
                'events': v['ev']})

    # 3. TLC decides on every distinct history (strict P-layer)
    for (m, c), f in zip(mcs, mc_f):
        res = f.result()
        ctx.log('TLC %s: %d distinct states, depth %d' % (c, res.distinct, res.depth))
    for f in t1_f:
        f.result().merge()
    glist = []
    for (n, keys), (lines, origin) in sorted(groups.items()):
        if lines:
            glist.append(('storeindex-n%d' % n, trace_cfg(ctx, n, keys), lines, origin, n, keys))
    rejected = validate(ctx, [(g[0], g[1], g[2]) for g in glist], chunk=800 if not T else 1500)
    # classification: which single weakening of the P-layer explains a rejection?  (none: a plain violation)
    strict_rej = {}
    cgroups = []
    for label, cfg, lines, origin, n, keys in glist:
        rej = sorted((i for i in rejected[label] if isinstance(i, int)), key=lambda i: len(lines[i]['ev']))
        strict_rej[label] = rej
        for kind, switch in RELAX:
            if rej:
                cgroups.append((label + '-' + switch, trace_cfg(ctx, n, keys, (switch,)), [lines[i] for i in rej]))
    relaxed = validate(ctx, cgroups, count=False) if cgroups else {}
    total = 0
    nontrivial = 0
    for label, cfg, lines, origin, n, keys in glist:
        rej = strict_rej[label]
        ctx.log('TLC validated %d distinct histories (%s) against StoreIndex.tla; rejected: %d' % (len(lines), label, len(rejected[label])))
        total += len(lines)
        nontrivial += sum(1 for ln in lines if overlapping(ln))
        for b in [i for i in rejected[label] if not isinstance(i, int)][:1]:
            report(ctx, 'history breaks an invariant of StoreIndex.tla (P-layer), %s' % label, {'kind': 'history', 'class': {'kind': b}})
        ctx.add('histories_rejected_strict', len(rej))
        rest = list(rej)
        for kind, switch in RELAX:
            rj = relaxed.get(label + '-' + switch, [])
            if any(not isinstance(j, int) for j in rj):
                continue                                     # the weakened layer broke an invariant: explains nothing
            still = {rej[j] for j in rj}
            explained = [i for i in rest if i not in still]
            ctx.add('histories_explained_by_' + switch, len(explained))
            if explained:
                i = explained[0]
                report(ctx, 'history is not a behaviour of StoreIndex.tla (P-layer), %s; it is one with %s = TRUE' % (label, switch),
                       {'kind': 'history', 'class': {'kind': kind}, 'run': origin[i], 'events': show(lines[i])})
            rest = [i for i in rest if i in still]
        for i in rest[:2]:
            report(ctx, 'history is not a behaviour of StoreIndex.tla (P-layer), %s' % label,
                   {'kind': 'history', 'class': {'kind': 'history-rejected'}, 'run': origin[i], 'events': show(lines[i])})
        if lines:
            ctx.sample(show(lines[len(lines) // 2]))
    ctx.cov['histories_validated'] = total
    ctx.cov['impl_distinct'] = nontrivial
    ctx.cov['histories_not_sent_to_tlc'] = sum(st.get('histories', 0) - st.get('histories_printed', 0) for st, _, _ in results if 'histories' in st)
    ctx.cov['rule'] = (
        'TLC BFS of StoreIndex (P: 2 processes x 2 anchors, every result each call may produce; core operations, and the update '
        'cycle from a stored entry%s) and of StoreMapImpl (I: one action per shared access of all 16 calls, 2 processes x 2-3 calls, '
        'spurious lock failures, ghost invariants); edges of the I-graphs replayed on the real code with lock operations as single '
        'steps (state and result equality; quick: the complete single-process graph of all 16 calls and seeded samples of 400 edges of two 2-process graphs; thorough: six graphs, three of them completely, up to 8000 edges of the others); bounded exhaustive schedule exploration of the real Ipc::StoreMap over the real '
        'Ipc::ReadWriteLock at atomic granularity (2-3 fibers running scripts of public calls: write, append, abort, read, '
        'read-and-free-idle, freeEntry, freeEntryByKey, purgeOne, update, abort update; name collisions; entries stored before) '
        'and with lock operations as single steps (3 fibers, every protocol-respecting call sequence of bounded length); seeded '
        'random walks (4 fibers, 4 keys, 8 slices); driver monitor (property on call/return events) in every state; every '
        'distinct call/return history validated by TLC against StoreIndex.tla.  Non-trivial = history in which calls of two '
        'fibers overlap.' % (', and the full alphabet' if T else ''))
    ctx.assumptions += [
        'sequentially consistent atomics (the player serialises accesses; weak-memory reorderings are not explored)',
        'assert()/Must() conditions are evaluated atomically and are not scheduling points; a failed one is a violation',
        'the non-atomic anchor key (memcpy/memset/compare of 16 bytes) is read and written indivisibly, in the step of the preceding atomic access',
        'Ipc::Mem::Segment is replaced by named heap blocks (the map is built by the real StoreMap::Init / constructor)',
        'Store::Root().markedForDeletion() answers false; paranoid_hit_validation is off (default)',
        'callers follow the protocol of the real users: close/abort only what they opened, freeEntry(fileno) only while holding the entry, '
        'closeForUpdating with the first stale slice as splicing point',
        'deleted-entry clause: a deletion covers the editions that existed when it was called (an update continues the identity of its entry); '
        'an edition created concurrently with the deletion is a new entry',
    ]
