"""C42 - IP-address ACLs match exactly the configured address sets (DESIGN 6.4).
Design step: TLC checks I => P on IpAcl.tla + AclSplay.tla (FactoryParse/DecodeMask, firstAddress/lastAddress, the
SplayInserter<acl_ip_data*> Compare/IsSubset/MakeCombinedValue, the Merge loop, aclIpAddrNetworkCompare, Ip::Address
relational operators) for every ordered list over small address blocks, in every tree shape, including the boundary blocks
(::, 0.0.0.0, 255.255.255.255, ffff:..:ffff, ::/0) on which TLC found two design errors of the code (a /0 mask turned into a
host mask; Ip::Address operators special-casing any/no-address operands), repaired in 01d1a63 and 251cbd8.  Binding (T3): the real ACLIP::parse (through ConfigParser on an in-memory
line) and ACLIP::match are run on the same universes generated identically here, plus seeded random big lists; TLC
evaluates IpAcl!AnswerOk on every (list, address, answer)."""
import ipaddress
import itertools
import os
import random
import re

import vlib
import ucheck
import acl_data_common as A

M128 = (1 << 128) - 1
V4BASE = 0xffff << 32
SPECIAL = {0, V4BASE, V4BASE | 0xffffffff, M128}      # Ip::Address::isAnyAddr() / isNoAddr()


def limbs(x):
    return [(x >> (16 * (7 - i))) & 0xffff for i in range(8)]


def fam_of(x):
    return 4 if (x >> 32) == 0xffff else 6


def atext(x):
    return str(ipaddress.IPv4Address(x & 0xffffffff)) if fam_of(x) == 4 else str(ipaddress.IPv6Address(x))


def full(fam):
    return 32 if fam == 4 else 128


def val(k, a=0, b=None, ln=None, fam=None):
    fam = fam or fam_of(a)
    return {'k': k, 'fam': fam, 'a': a, 'b': a if b is None else b, 'len': full(fam) if ln is None else ln}


def vtext(v, style=0):
    k = v['k']
    if k in ('all', 'ipv4', 'ipv6'):
        return k
    if k == 'single':
        return atext(v['a'])
    if k == 'cidr':
        if style == 1 and v['fam'] == 4 and v['len'] > 0:      # deprecated dotted netmask spelling of the same network
            return '%s/%s' % (atext(v['a']), ipaddress.IPv4Address((0xffffffff << (32 - v['len'])) & 0xffffffff))
        return '%s/%d' % (atext(v['a']), v['len'])
    if k == 'range':
        return '%s-%s' % (atext(v['a']), atext(v['b']))
    return '%s-%s/%d' % (atext(v['a']), atext(v['b']), v['len'])


def plen(v):
    return v['len'] + (96 if v['fam'] == 4 else 0)


def lo_hi(v):
    hi = v['b']
    if v['k'] in ('cidr', 'rangecidr'):
        hi |= (1 << (128 - plen(v))) - 1
    return v['a'], hi


def covers(v, p, loose=False):
    if v['k'] == 'all':
        return True
    if v['k'] in ('ipv4', 'ipv6'):
        return fam_of(p) == int(v['k'][3])
    lo, hi = lo_hi(v)
    return lo <= p <= hi and (loose or fam_of(p) == v['fam'])


def tlc_val(v):
    return {'k': v['k'], 'fam': v['fam'], 'a': limbs(v['a']), 'b': limbs(v['b']), 'len': v['len']}


def selfcheck_text(v, t):
    """independent reading of the rendered token (Python ipaddress) must give back the structured value"""
    if v['k'] in ('all', 'ipv4', 'ipv6'):
        return t == v['k']
    m = re.match(r'^([0-9a-fA-F:.]+)(?:-([0-9a-fA-F:.]+))?(?:/([0-9.]+))?$', t)
    if not m:
        return False

    def rd(s):
        ip = ipaddress.ip_address(s)
        return (int(ip) | V4BASE) if ip.version == 4 else int(ip)
    a = rd(m.group(1))
    b = rd(m.group(2)) if m.group(2) else a
    if m.group(3) is None:
        ln = full(fam_of(a))
    elif '.' in m.group(3):
        ln = bin(int(ipaddress.IPv4Address(m.group(3)))).count('1')
    else:
        ln = int(m.group(3))
    return (a, b, ln) == (v['a'], v['b'], v['len'])


def block_values(base, bits, fam):
    n = 1 << bits
    out = [val('single', base + i) for i in range(n)]
    for h in range(bits + 1):
        out += [val('cidr', base + i, ln=full(fam) - h) for i in range(0, n, 1 << h)]
    out += [val('range', base + i, base + j) for i in range(n) for j in range(i + 1, n)]
    for h in range(1, bits):
        ms = list(range(0, n, 1 << h))
        out += [val('rangecidr', base + i, base + j, ln=full(fam) - h) for i in ms for j in ms if i < j]
    return out


def block_probes(base, bits):
    n = 1 << bits
    ps = [base + i for i in range(n)]
    if base & 0xffff:
        ps.append(base - 1)
    if (base & 0xffff) + n <= 0xffff:
        ps.append(base + n)
    return ps


PLAIN4 = V4BASE | (10 << 24) | (1 << 16) | (2 << 8) | 16          # 10.1.2.16
PLAIN6 = int(ipaddress.IPv6Address('2001:db8::10'))


def gen(ctx):
    rnd = random.Random(ctx.seed * 7919 + 42)
    cases, seen = [], set()

    def add(vals, probes, tag, style=0):
        toks = [vtext(v, style) for v in vals]
        for v, t in zip(vals, toks):
            if not selfcheck_text(v, t):
                raise vlib.MachineryError('token rendering self-check failed: %r -> %r' % (v, t))
        key = (tuple(toks), tuple(probes))
        if key in seen or not vals:
            return
        seen.add(key)
        cases.append({'vals': vals, 'toks': toks, 'probes': list(probes), 'tag': tag})
    # (i) plain blocks, as MC_IpAcl.cfg: ordered pairs over both families (3 host bits), ordered triples over one family (2 host bits)
    bits = 3
    pv = block_values(PLAIN4, bits, 4) + block_values(PLAIN6, bits, 6)
    pp = block_probes(PLAIN4, bits) + block_probes(PLAIN6, bits)
    for v in pv:
        add([v], pp, 'plain')
    pairs = list(itertools.product(pv, repeat=2))
    if not ctx.thorough:
        pairs = [pr for pr in pairs if rnd.random() < (0.05 if pr[0]['fam'] != pr[1]['fam'] else 0.09)]
    for combo in pairs:
        add(list(combo), pp, 'plain')
    for base, fam in ((PLAIN4, 4), (PLAIN6, 6)):
        tv = block_values(base, 2, fam)
        tp = block_probes(base, 2) + [PLAIN6 if fam == 4 else PLAIN4]
        for combo in itertools.product(tv, repeat=3):
            if ctx.thorough or rnd.random() < 0.04:
                add(list(combo), tp, 'plain')
    # the family keywords with and without ordinary values
    for g in ('all', 'ipv4', 'ipv6'):
        add([val(g, fam=4)], pp, 'plain')
        for v in rnd.sample(pv, 12):
            add([val(g, fam=4), v], pp, 'plain')
            add([v, val(g, fam=4)], pp, 'plain')
    add([val('ipv4', fam=4), val('ipv6', fam=4)], pp, 'plain')
    nplain = len(cases)
    # (ii) boundary blocks, as MC_IpAcl_boundary.cfg: the four addresses Ip::Address treats specially, and ::/0
    b = 1
    blocks = [(0, 6), (V4BASE, 4), (V4BASE | (0x100000000 - (1 << b)), 4), (M128 - (1 << b) + 1, 6)]
    bv = [val('cidr', 0, ln=0, fam=6)]
    bp = []
    for base, fam in blocks:
        bv += block_values(base, b, fam)
        bp += block_probes(base, b)
    bp += [PLAIN4, PLAIN6]
    for n in (1, 2):
        for combo in itertools.product(bv, repeat=n):
            add(list(combo), bp, 'boundary')
    nbound = len(cases) - nplain
    # (iii) seeded random big lists: v4 /8../32 and v6 /32../128 networks, ranges, ranged networks, singles, with planted
    # sub-networks, adjacent and partially overlapping ranges, both families in one list
    def rand_value():
        fam = rnd.choice([4, 4, 6])
        fl = full(fam)
        base = (V4BASE | rnd.getrandbits(32)) if fam == 4 else ((0x20010db8 << 96) | rnd.getrandbits(rnd.choice([16, 64, 96])))
        if fam == 4 and (base & 0xffffffff) in (0, 0xffffffff):
            base ^= 0x01000000
        kind = rnd.choice(['single', 'cidr', 'cidr', 'range', 'rangecidr'])
        ln = rnd.randrange(8, 33) if fam == 4 else rnd.randrange(32, 129)
        hostmask = (1 << (fl - ln)) - 1
        if kind == 'single':
            return val('single', base)
        if kind == 'cidr':
            return val('cidr', base & ~hostmask, ln=ln)
        if kind == 'range':
            w = rnd.choice([1, 2, 7, 255, 256, 4097, rnd.getrandbits(12)])
            lim = (V4BASE | 0xfffffffe) if fam == 4 else M128 - 1
            return val('range', base, min(lim, base + w))
        a = base & ~hostmask
        bb = a + (hostmask + 1) * rnd.choice([1, 2, 3])
        if fam_of(bb) != fam or bb > M128 or (fam == 4 and (bb | hostmask) & 0xffffffff == 0xffffffff):
            return val('cidr', a, ln=ln)
        return val('rangecidr', a, bb, ln=ln)

    def relative(v):
        lo, hi = lo_hi(v)
        fam = v['fam']
        choice = rnd.randrange(6)
        if choice == 0:
            return dict(v)
        if choice == 1 and hi > lo:
            mid = lo + (hi - lo) // 2
            return val('range', lo + 1 if hi - lo > 1 else lo, mid if mid > lo else hi)           # nested range
        if choice == 2 and fam_of(hi + 1) == fam and (hi + 1) not in SPECIAL and hi + 9 < M128:
            return val('range', hi + 1, hi + 1 + rnd.choice([0, 1, 8])) if rnd.random() < 0.5 else val('single', hi + 1)   # adjacent
        if choice == 3 and hi > lo and fam_of(hi + 5) == fam and (hi + 5) not in SPECIAL:
            return val('range', lo + (hi - lo) // 2, hi + 5)                                       # partial overlap to the right
        if choice == 4 and v['k'] == 'cidr' and v['len'] > (8 if fam == 4 else 32):
            ln = v['len'] - 1
            hostmask = (1 << (full(fam) - ln)) - 1
            return val('cidr', v['a'] & ~hostmask, ln=ln)                                          # enclosing network
        if lo > (V4BASE + 5 if fam == 4 else 5) and fam_of(lo - 3) == fam:
            return val('range', lo - 3, lo + (hi - lo) // 3)                                       # partial overlap to the left
        return dict(v)
    for _ in range(80 if ctx.thorough else 8):
        n = rnd.choice([8, 50, 50, 100] if ctx.thorough else [8, 30, 50])
        vals, probes = [], set()
        for _ in range(n):
            v = relative(rnd.choice(vals)) if vals and rnd.random() < 0.4 else rand_value()
            vals.append(v)
            lo, hi = lo_hi(v)
            probes |= {lo - 1, lo, lo + 1, hi - 1, hi, hi + 1, lo + (hi - lo) // 2}
        probes = [p for p in probes if 0 < p < M128 and (fam_of(p) == 6 or (p & 0xffffffff) not in (0, 0xffffffff))
                  and not (fam_of(p) == 6 and (p >> 32) == 0)]
        probes += [V4BASE | rnd.getrandbits(32) for _ in range(30)] + [(0x20010db8 << 96) | rnd.getrandbits(64) for _ in range(20)]
        probes = [p for p in probes if p not in SPECIAL]
        rnd.shuffle(probes)
        add(vals, probes[:500 if ctx.thorough else 150], 'random', style=rnd.choice([0, 0, 1]))
    return cases, nplain, nbound


def classify(case, j, got):
    """witness class for known-finding matching: which listed set (mis)explains the answer"""
    vals, p = case['vals'], case['probes'][j]
    ends = set()
    for v in vals:
        if v['k'] not in ('all', 'ipv4', 'ipv6'):
            ends |= set(lo_hi(v)) | {v['a'], v['b']}
    special = p in SPECIAL or bool(ends & SPECIAL)
    if not got:
        cov = [v for v in vals if covers(v, p)]
        if cov and all(v['k'] in ('cidr', 'rangecidr') and v['len'] == 0 for v in cov):
            kind = 'zero-length-cidr-treated-as-host-mask'
        elif special:
            kind = 'any-or-noaddr-special-cased-in-address-order'
        else:
            kind = 'plain'
        return {'kind': kind, 'answer': 'covered-address-not-matched'}
    return {'kind': 'any-or-noaddr-special-cased-in-address-order' if special else 'plain', 'answer': 'uncovered-address-matched'}


def run(ctx):
    # quick: ordered triples over the 4-address v4 block (+ the boundary universe below, which mixes both families); thorough adds
    # ordered pairs over both families (4- and 8-address blocks) and triples over the v6 block (MC_IpAcl_deep.cfg, triples over the 8-address v4 block, is kept for manual
    # runs: ~1 CPU-hour)
    A.mc(ctx, 'MC_IpAcl.tla', 'MC_IpAcl_triples4.cfg', timeout=3000)
    if ctx.thorough:
        A.mc(ctx, 'MC_IpAcl.tla', 'MC_IpAcl_pairs2.cfg', timeout=3000)
        A.mc(ctx, 'MC_IpAcl.tla', 'MC_IpAcl.cfg', timeout=3000)
        A.mc(ctx, 'MC_IpAcl.tla', 'MC_IpAcl_triples6.cfg', timeout=3000)
    # boundary universe: 2-address blocks at ::, 0.0.0.0, 255.255.255.254, ffff:..:fffe and ::/0, ordered lists of <= 2
    A.mc(ctx, 'MC_IpAcl.tla', 'MC_IpAcl_boundary.cfg', timeout=1500)
    ctx.log('design step: I => P on the plain and the boundary universes')
    exe = A.build_driver(ctx)
    cases, nplain, nbound = gen(ctx)
    ctx.log('driver built; %d lists (%d plain small-universe, %d boundary)' % (len(cases), nplain, nbound))
    lines = ['ip %d %s %s' % (len(c['toks']), ' '.join(c['toks']), ' '.join(atext(p) for p in c['probes'])) for c in cases]
    keep, outs = A.run_checked(ctx, exe, lines, timeout=1800)
    cases = [cases[i] for i in keep]
    lines = [lines[i] for i in keep]
    tcases = []
    for c, o in zip(cases, outs):
        if [A.txt(t) for t in o['vals']] != c['toks'] or len(o['seen']) != len(c['probes']):
            raise vlib.MachineryError('driver echo differs from what was sent: %r' % (c['toks'][:5],))
        tcases.append({'vals': [tlc_val(v) for v in c['vals']], 'text': c['toks'], 'seen': o['seen'], 'out': o['out'], 'ub': o['ub']})
    prej, irej = ucheck.conformance(ctx, os.path.join(A.SPEC, 'Conf_IpAcl.tla'), os.path.join(A.SPEC, 'Conf_IpAcl.cfg'), tcases, 'ip',
                                    chunk=4000 if ctx.thorough else 800, timeout=3000)
    pairs = sum(len(o['out']) for o in outs)
    ctx.log('TLC evaluated %d lists / %d (list, address) pairs: P-rejected lists %d, I-rejected %d' % (len(outs), pairs, len(prej), len(irej)))
    # group the rejections by witness class; report the unexplained ('plain') ones first, at most two per class
    by_kind = {}
    for i in prej:
        c, o = cases[i], outs[i]
        bad = []
        for j, p in enumerate(c['probes']):
            strict = any(covers(v, p) for v in c['vals'])
            loose = any(covers(v, p, True) for v in c['vals'])
            if (strict and not o['out'][j]) or (o['out'][j] and not loose):
                bad.append(j)
        if not bad:
            bad = [0]
        cl = classify(c, bad[0], o['out'][bad[0]])
        for j in bad:
            cj = classify(c, j, o['out'][j])
            if cj['kind'] == 'plain':
                cl, bad = cj, [j] + [x for x in bad if x != j]
                break
        by_kind.setdefault((cl['kind'], cl['answer']), []).append((i, bad, cl))
    ctx.cov['p_rejected_lists_by_class'] = {'%s/%s' % k: len(v) for k, v in by_kind.items()}
    order = sorted(by_kind, key=lambda k: (k[0] != 'plain', k))
    for k in order:
        for i, bad, cl in sorted(by_kind[k], key=lambda t: len(cases[t[0]]['toks']))[:2]:
            c, o = cases[i], outs[i]
            j = bad[0]
            ctx.violation('ACLIP built from [%s] answers %s for %s; the address %s to the union of the listed sets (IpAcl!AnswerOk) [%s]%s' % (
                ' '.join(c['toks'][:10]) + (' ...' if len(c['toks']) > 10 else ''), o['out'][j], atext(c['probes'][j]),
                'belongs' if not o['out'][j] else 'does not belong', cl['kind'], '; UBSan report' if o['ub'] else ''),
                {'class': cl, 'line': lines[i][:3000], 'address': atext(c['probes'][j]), 'got': o['out'][j],
                 'tree_dump': [A.txt(d) for d in o['dump']][:30], 'mismatching_addresses': len(bad), 'lists_in_this_class': len(by_kind[k])})
    for i in irej:
        if i not in prej and len(ctx.drift) < 5:
            ctx.drift.append('I-layer (FactoryParse / Merge loop / aclIpAddrNetworkCompare) mismatch on %r: dump %r' % (lines[i][:160], [A.txt(d) for d in outs[i]['dump']][:8]))
    ctx.cov['impl_steps'] = pairs
    ctx.cov['impl_distinct'] = len(outs)
    ctx.cov['plain_small_universe_lists'] = nplain
    ctx.cov['boundary_universe_lists'] = nbound
    ctx.cov['true_answers'] = sum(sum(1 for x in o['out'] if x) for o in outs)
    ctx.cov['lists_where_merge_changed_the_tree'] = sum(1 for c, o in zip(cases, outs) if len(o['dump']) != len(c['toks']))
    for idx in (nplain // 2, nplain + nbound // 2, len(cases) - 1):
        c, o = cases[idx], outs[idx]
        ctx.sample({'values': c['toks'][:8], 'addresses': [atext(p) for p in c['probes']][:8], 'answers': o['out'][:8], 'tree_in_order': [A.txt(d) for d in o['dump']][:8]})
    ctx.cov['rule'] = ('values = single, a/len, a-b, a-b/len without host bits below the mask, a <= b. Plain: 8-address blocks 10.1.2.16/29 and 2001:db8::10/125 '
                       '(every single, aligned network, range, ranged network): every single value, %s ordered pairs across both blocks, %s ordered triples over the '
                       '4-address sub-blocks; all/ipv4/ipv6 alone and mixed; probes = every block address, both outside neighbours, the other family. Boundary: '
                       '2-address blocks at ::, 0.0.0.0, 255.255.255.254, ffff:..:fffe and ::/0, every ordered list of <= 2. Random: seeded lists of 8..%d '
                       'values (v4 /8../32, v6 /32../128, dotted netmask spelling in a third of the lists) with planted duplicates, nested, adjacent, partially '
                       'overlapping and enclosing relatives, probed at every set edge +-1 and at random addresses of both families. A case (= list) is distinct by '
                       'its token list; evaluations = (list, address) pairs.' % ('all' if ctx.thorough else 'a seeded fifteenth of the',
                                                                                  'all' if ctx.thorough else 'a seeded twenty-fifth of the', 100 if ctx.thorough else 50))
    ctx.assumptions += ['the legacy spellings 0/0, 0.0.0.0/0, 0.0.0.0/0.0.0.0, 0.0.0.0-255.255.255.255, 0.0.0.0-0.0.0.0/0 (documented aliases of "all") and host names are not configured',
                        'an IPv4 probe inside an IPv6 network that contains its IPv4-mapped form (only ::/0 here) may be answered either way (IpAcl!AnswerOk)',
                        'Ip::EnableIpv6 is set as on a dual-stack host; the driver reports the 16 address bytes of every probe as ACLIP::match received it and TLC decides on those',
                        'the structured form of a value is rendered to the squid.conf token by this check and cross-read with Python ipaddress (trusted rendering)',
                        'driver linked like tests/testACLMaxUserIP (+ SquidConfig, anyp, miscutil), compiled from the working tree with ASan+UBSan']
