"""C14 - conditional requests are answered according to their validators (DESIGN 6.7)."""
import json, os, random
import vlib, squidctl, escen, cachesim
from vlib import VERIF

SPEC = os.path.join(VERIF, 'spec', 'proxy')
ETAG = {1: '"a"', 2: 'W/"a"', 3: '"b"', 4: '*'}
LM = -100000     # Last-Modified relative to the scenario clock


def scenario(c, rnd):
    p = c['par']
    oh = [('Cache-Control', 'max-age=100'), ('Last-Modified', '$DATE%+d' % LM), ('X-Verif-Gen', '1')]
    if p['etag']:
        oh.append(('ETag', ETAG[p['etag']]))
    oabs = dict(etag=p['etag'], gen=1, multi=[])
    origin = {'status': 200, 'hdrs': oh, 'blen': rnd.choice([10, 3000]), 'abs': oabs}
    plain = dict(inm=[], ims='none', ifm=0)
    steps = [{'op': 'req', 'id': 1, 'abs': plain, 'origin': origin}]
    rh = []
    if p['shape'] in ('cached', 'reval304c'):
        inm = sorted(p['inm'])
        if inm:
            vals = [ETAG[e] for e in inm]
            rnd.shuffle(vals)
            rh.append(('If-None-Match', rnd.choice([', ', ',']).join(vals)))
        if p['ims'] != 'none':
            d = {'lt': LM - 3600, 'eq': LM, 'gt': LM + 3600}[p['ims']]
            rh.append(('If-Modified-Since', '$DATE%+d' % d))
        if p['ifm']:
            rh.append(('If-Match', ETAG[p['ifm']]))
    cabs = dict(inm=sorted(p['inm']), ims=p['ims'], ifm=p['ifm'])
    if p['shape'] == 'cached':
        steps.append({'op': 'req', 'id': 2, 'hdrs': rh, 'abs': cabs, 'origin': origin})
    else:
        o2 = dict(origin)
        if p['shape'] in ('reval304', 'reval304c'):
            o2['on_cond'] = {'status': 304, 'hdrs': [('Cache-Control', 'max-age=1000'), ('X-Verif-Multi', '1'), ('X-Verif-Gen', '2'), ('X-Verif-Multi', '2'), ('Cache-Control', 'public')]
                             + ([('ETag', ETAG[p['etag']])] if p['etag'] else []) + [('X-Verif-Multi', '3')]
                             + ([('Content-Length', '5')] if rnd.random() < 0.3 else []),   # a 304 must not change the stored Content-Length (RFC 9111 3.2)
                             'abs': dict(etag=p['etag'], gen=2, multi=[1, 2, 3]),
                             'require': {'etag': ETAG.get(p['etag']), 'lm': LM}}
        else:
            o2['hdrs'] = [h for h in oh if h[0] != 'X-Verif-Gen'] + [('X-Verif-Gen', '3')]
            o2['abs'] = dict(etag=p['etag'], gen=3, multi=[])
        steps += [{'op': 'clock', 't': 200},
                  {'op': 'req', 'id': 2, 'hdrs': rh if p['shape'] == 'reval304c' else [], 'abs': cabs if p['shape'] == 'reval304c' else plain, 'origin': o2},
                  {'op': 'req', 'id': 3, 'abs': plain, 'origin': o2},
                  {'op': 'clock', 't': 400},
                  {'op': 'req', 'id': 4, 'abs': plain, 'origin': o2}]
    return {'steps': steps, 'par': p, 'pred': c['pred']}


def run(ctx):
    tree = squidctl.ensure_binary(ctx)
    classes, res = escen.tlc_scenarios(ctx, os.path.join(SPEC, 'CondScen.tla'), os.path.join(SPEC, 'MC_CondScen.cfg'))
    ctx.log('TLC: %d states, %d scenario classes' % (res.distinct, len(classes)))
    rnd = random.Random(ctx.seed)
    classes.sort(key=lambda c: json.dumps(c, sort_keys=True))
    if not ctx.thorough:
        rnd.shuffle(classes)
        classes = [c for c in classes if c['par']['shape'] != 'cached'] + [c for c in classes if c['par']['shape'] == 'cached'][:300]
    scens = [scenario(c, random.Random(ctx.seed * 7919 + i)) for i, c in enumerate(classes * (8 if ctx.thorough else 1))]
    out = cachesim.run_scenarios_stores(ctx, tree, scens, 6, disk_sample=40)
    hist = [{'ev': cachesim.strip_for_tlc(ev)} for _, ev in out]
    rej = escen.validate(ctx, os.path.join(SPEC, 'Trace_Conditional.tla'), os.path.join(SPEC, 'Trace_Conditional.cfg'), hist, 'cond')
    ctx.log('realised %d scenarios; P-rejected %d' % (len(out), len(rej)))
    ctx.cov['rejected_by_store'] = {st: sum(1 for i in rej if out[i][0].get('store') == st) for st in ('mem', 'rock', 'ufs')}
    seen_cls = set()
    for i in rej:
        s, ev = out[i]
        # witness class: where the entry lives, and whether the only thing wrong is that hits after a 304 still carry the old headers
        gens = [e.get('gen', 0) for e in ev if e['e'] == 'CResp' and e.get('hit')]
        newest = max([e.get('gen', 0) for e in ev if e['e'] == 'OResp'] + [0])
        cls = {'store': s.get('store', 'mem'), 'shape': s['par'].get('shape'), 'hit_with_older_header_generation': bool(gens) and min(gens) < newest}
        if json.dumps(cls, sort_keys=True) in seen_cls or len(seen_cls) >= 6:
            continue
        seen_cls.add(json.dumps(cls, sort_keys=True))
        ctx.violation('conditional request answered against Conditional.tla (%s): %s' % (cls['store'], json.dumps(s['par'])),
                      {'kind': 'conditional', 'class': cls, 'par': s['par'], 'events': cachesim.strip_for_tlc(ev), 'steps': s['steps']})
    nd = 0
    st = {}
    for s, ev in out:
        if s['par']['shape'] not in ('cached',):
            continue
        got = [e for e in ev if e['e'] == 'CResp' and e['id'] == 2][0]['status']
        st[got] = st.get(got, 0) + 1
        if str(got) != s['pred']:
            nd += 1
            if len(ctx.drift) < 5:
                ctx.drift.append('CondScen predicts %s, squid answered %s: %s' % (s['pred'], got, json.dumps(s['par'])))
    ctx.cov['drift_total'] = nd
    ctx.cov['statuses_from_cache'] = {str(k): v for k, v in st.items()}
    ctx.cov['revalidation_histories'] = sum(1 for s, _ in out if s['par']['shape'] != 'cached')
    ctx.cov['impl_distinct'] = len({json.dumps(s['par'], sort_keys=True) for s, _ in out})
    for s, ev in out[:2]:
        ctx.sample({'par': s['par'], 'events': cachesim.strip_for_tlc(ev)})
    ctx.cov['rule'] = ('classes = CondScen.tla tuples (stored ETag none/strong/weak/other x If-None-Match lists incl. * x If-Modified-Since </=/> '
                       'Last-Modified x If-Match; plus stale entries revalidated by the origin with 304 or 200 and re-read afterwards); histories '
                       'validated by TLC against Conditional.tla. Non-trivial = distinct class.')
