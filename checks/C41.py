"""C41 - domain-name ACLs match exactly the configured domain sets (DESIGN 6.4).
Design step: TLC checks I => P on DomainAcl.tla + AclSplay.tla (matchDomainName with its '.'/'-' ordering rule, the
SplayInserter<char*> Compare/IsSubset, the Merge loop, lookup as search under the comparator in every tree shape)
for every ordered list of values over a small label alphabet.  Binding (T3): the real ACLDomainData::parse (through
ConfigParser on an in-memory line) and ACLDomainData::match are run on the same exhaustive small universes, on seeded
samples of a larger one and on seeded random big lists over the host alphabet; TLC evaluates DomainAcl!Match on every
(list, host, answer) and compares the in-order tree dump with the I-layer."""
import itertools
import os
import random

import vlib
import ucheck
import acl_data_common as A

L4 = ['a', 'b', 'a-b', 'ab']
L3 = ['a', 'b', 'a-b']
L2 = ['b', 'a-b']


def names(labels, n):
    out = []
    for k in range(1, n + 1):
        out += ['.'.join(c) for c in itertools.product(labels, repeat=k)]
    return out


def values(labels, n):
    ns = names(labels, n)
    return ns + ['.' + x for x in ns]


def ref_match(vals, host):
    h = host.lower()
    for v in vals:
        v = v.lower()
        if v.startswith('.'):
            if h == v[1:] or h.endswith(v):
                return True
        elif h == v:
            return True
    return False


def gen(ctx):
    rnd = random.Random(ctx.seed * 7919 + 41)
    lines, seen = [], set()

    def add(vals, probes):
        l = 'dom %d %s %s' % (len(vals), ' '.join(vals), ' '.join(probes))
        if l not in seen:
            seen.add(l)
            lines.append(l)
    up = lambda s: s.upper()
    # (i) exhaustive: every ordered pair over the 4-label universe (<= 2 labels, dotted and not), every ordered triple over a
    # smaller one; probes: every host of <= 3 labels over the same labels + upper-case spellings
    n3 = names(L4, 3)[20:]
    p4 = names(L4, 2) + [up(x) for x in names(L4, 2)] + (n3 if ctx.thorough else rnd.sample(n3, 24))
    v4 = values(L4, 2)
    for n in (1, 2):
        for combo in itertools.product(v4, repeat=n):
            add(list(combo), p4)
    tl = L3 if ctx.thorough else L2
    vt = values(tl, 2)
    pt = names(tl, 3) + [up(x) for x in names(tl, 2)] + ['ab', 'ab.b', 'a.ab', 'a']
    for combo in itertools.product(vt, repeat=3):
        add(list(combo), pt)
    nsmall = len(lines)
    # (ii) seeded sample of ordered triples/quadruples over the 4-label universe with <= 3 labels, mixed case
    v43 = values(L4, 3)
    for _ in range(6000 if ctx.thorough else 1000):
        n = rnd.choice([3, 3, 4])
        combo = [rnd.choice(v43) for _ in range(n)]
        combo = [up(v) if rnd.random() < 0.15 else v for v in combo]
        rel = set()
        for v in combo:
            r = v.lstrip('.').lower()
            rel |= {r, 'a.' + r, 'a-b.' + r, 'ab' + r, 'a-' + r, r.split('.', 1)[-1], 'b.a.' + r}
        add(combo, sorted(rel) + rnd.sample(p4, 12))
    # (iii) seeded random big lists over the host alphabet (letters, digits, '-', '_'), with planted relatives of earlier
    # values: sub-domains, parent sets, the undotted/dotted twin, '-' and '_' neighbours of a label boundary, case variants
    alpha = 'abcdefghijklmnopqrstuvwxyz0123456789-_'

    def label():
        n = rnd.choice([1, 2, 3, 5, 8])
        s = ''.join(rnd.choice(alpha) for _ in range(n))
        return s.strip('-') or 'x'
    tlds = ['com', 'net', 'example', 'co.uk', 'x-y', '0']
    for _ in range(60 if ctx.thorough else 8):
        n = rnd.choice([10, 50, 50, 120] if ctx.thorough else [10, 30, 50])
        vals, probes = [], set()
        for _ in range(n):
            if vals and rnd.random() < 0.45:
                base = rnd.choice(vals)
                root = base.lstrip('.')
                v = rnd.choice(['.' + root, root, label() + '.' + root, '.' + label() + '.' + root, label() + '-' + root, label() + root,
                                '.' + root.split('.', 1)[-1], root.upper(), label() + '_' + root])
            else:
                v = rnd.choice(['', '.']) + '.'.join([label() for _ in range(rnd.choice([1, 1, 2]))] + [rnd.choice(tlds)])
            vals.append(v)
            root = v.lstrip('.').lower()
            probes |= {root, 'www.' + root, 'w-' + root, 'w' + root, 'a.b.' + root, root.split('.', 1)[-1], root.upper(), 'w_' + root,
                       '0.' + root, 'z.' + root, '-.' + root}
        probes = sorted(p for p in probes if p and not p.startswith('.'))
        rnd.shuffle(probes)
        add(vals, probes[:250 if ctx.thorough else 80])
    return lines, nsmall


def classify(vals, host, got):
    h = host.lower()
    roots = [v.lstrip('.').lower() for v in vals]
    return {'kind': 'covered-host-not-matched' if not got else 'uncovered-host-matched',
            'dash_next_to_configured_suffix': any(h.endswith('-' + r) or r.endswith('-' + h) for r in roots),
            'nested_values': any(a != b and (a.endswith('.' + b) or a == b) for a in roots for b in roots if a is not b),
            'list_len': len(vals)}


def run(ctx):
    # quick: ordered triples over labels {b, a-b}, ordered pairs over {a, b, a-b, ab}; thorough adds triples over {a, b, a-b}
    # and 3-label values over {b, a-b} (MC_DomainAcl_deep.cfg, triples over all four labels, is kept for manual runs: ~30 CPU-min)
    A.mc(ctx, 'MC_DomainAcl.tla', 'MC_DomainAcl_small.cfg', timeout=1500)
    A.mc(ctx, 'MC_DomainAcl.tla', 'MC_DomainAcl_pairs.cfg', timeout=1500)
    if ctx.thorough:
        A.mc(ctx, 'MC_DomainAcl.tla', 'MC_DomainAcl.cfg', timeout=3000)
        A.mc(ctx, 'MC_DomainAcl.tla', 'MC_DomainAcl_long.cfg', timeout=3000)
    exe = A.build_driver(ctx)
    lines, nsmall = gen(ctx)
    ctx.log('design step passed; driver built; %d lists (%d exhaustive small-universe)' % (len(lines), nsmall))
    keep, outs = A.run_checked(ctx, exe, lines)
    lines = [lines[i] for i in keep]
    prej, irej = ucheck.conformance(ctx, os.path.join(A.SPEC, 'Conf_DomainAcl.tla'), os.path.join(A.SPEC, 'Conf_DomainAcl.cfg'), outs, 'domain',
                                    chunk=4000 if ctx.thorough else 1500, timeout=3000)
    pairs = sum(len(o['probes']) for o in outs)
    ctx.log('TLC evaluated %d lists / %d (list, host) pairs: P-rejected lists %d, I-rejected %d' % (len(outs), pairs, len(prej), len(irej)))
    for i in prej:
        c = outs[i]
        vals = [A.txt(v) for v in c['vals']]
        hosts = [A.txt(p) for p in c['probes']]
        bad = [j for j in range(len(hosts)) if ref_match(vals, hosts[j]) != c['out'][j]] or [0]
        j = bad[0]
        ctx.violation('ACLDomainData built from [%s] answers %s for host %s; %s (DomainAcl!Match)%s' % (
            ' '.join(vals[:12]) + (' ...' if len(vals) > 12 else ''), c['out'][j], hosts[j],
            'value %s covers it' % next((v for v in vals if ref_match([v], hosts[j])), '?') if not c['out'][j] else 'no configured value covers it',
            '; UBSan report' if c['ub'] else ''),
            {'class': classify(vals, hosts[j], c['out'][j]), 'line': lines[i] if len(lines[i]) < 4000 else lines[i][:4000] + '...',
             'host': hosts[j], 'got': c['out'][j], 'tree_dump': [A.txt(d) for d in c['dump']][:40], 'mismatching_hosts': len(bad)})
        if len(ctx.violations) >= 5:
            break
    for i in irej:
        if i not in prej and len(ctx.drift) < 5:
            ctx.drift.append('I-layer (Merge loop / in-order tree / lookup) mismatch on %r: dump %r' % (lines[i][:160], [A.txt(d) for d in outs[i]['dump']][:12]))
    ctx.cov['impl_steps'] = pairs
    ctx.cov['impl_distinct'] = len(outs)
    ctx.cov['exhaustive_small_universe_lists'] = nsmall
    ctx.cov['true_answers'] = sum(sum(1 for x in o['out'] if x) for o in outs)
    ctx.cov['lists_where_merge_dropped_a_value'] = sum(1 for o in outs if len(o['dump']) < len(o['vals']))
    for o in (outs[nsmall // 3], outs[nsmall + 5], outs[-1]):
        ctx.sample({'values': [A.txt(v) for v in o['vals']][:8], 'hosts': [A.txt(p) for p in o['probes']][:10], 'answers': o['out'][:10],
                    'tree_in_order': [A.txt(d) for d in o['dump']][:8]})
    ctx.cov['rule'] = ('every ordered list of <= 2 values over labels {a,b,a-b,ab} (<= 2 labels, with and without leading dot) and every ordered triple over '
                       '%s, probed with every host of <= 3 labels over the same labels and upper-case spellings; seeded ordered triples/quadruples over the '
                       '<= 3-label universe with related probes; seeded random lists of 10..%d values over [a-z0-9_-] labels with planted sub-domains, parent '
                       'sets, dotted/undotted twins, dash/underscore neighbours and case variants, probed at every root, sub-domain, glued prefix and parent. '
                       'A case (= list) is distinct by its token list; evaluations = (list, host) pairs.' % ('{a,b,a-b}' if ctx.thorough else '{b,a-b}', 120 if ctx.thorough else 50))
    ctx.assumptions += ['hosts do not begin with a dot and have no empty labels; values are a name with at most one leading dot (other shapes are configuration errors)',
                        'driver linked like tests/testACLMaxUserIP + anyp/libanyp.la (real matchDomainName) + lib/libmiscutil.la (real Splay.cc), ASan+UBSan',
                        'the I-layer abstracts the splay tree to its in-order sequence and lets every search choose any pivot (covers every tree shape)']
