"""C02 - request bodies reach the origin byte-exactly with valid framing (DESIGN 6.6)."""
import asyncio, json, os, random
import vlib, squidctl, peers, escen
from vlib import VERIF

SPEC = os.path.join(VERIF, 'spec', 'proxy')
SIZES = [1, 100, 4095, 4096, 4097, 16384, 32769, 65535, 65536, 65537]
BIG = [200001, 524289, 1048577]


async def realise(ctx, sq, n, scen, rnd, big, stall=False):
    par = scen['par']
    rec = peers.Rec()
    usizes = [rnd.choice([1048577, 3000001] if stall else BIG if big else SIZES) for _ in range(par['units'])]
    total = sum(usizes)
    version = (n % 4000) + 1
    body = peers.body_bytes(version, total)
    got = {}
    done = asyncio.Event()

    async def responder(q, oc):
        got['q'] = q
        done.set()
        if q.complete:
            await oc.send(peers.response_head(200, 'OK', [('Content-Length', '2'), ('Cache-Control', 'no-store'), ('X-Verif-Origin', '1')]) + b'ok')
            return False
        return True
    # stall: the origin leaves the connection unread for a while behind a small receive window (back pressure through Squid)
    o = peers.Origin(rec, responder, stall=1.2 if stall else 0.0, rcvbuf=4096 if stall else None)
    second = {}
    if par.get('early'):
        async def on_head(qh, oc):
            if qh.target.endswith('/second'):
                return
            # answer at once, completely, keep-alive: only the request is unfinished
            await oc.send(peers.response_head(200, 'OK', [('Content-Length', '2'), ('Cache-Control', 'no-store'), ('X-Verif-Origin', '1')]) + b'ok')
        o.on_head = on_head
        plain = responder

        async def responder2(q, oc):
            if q.target.endswith('/second'):
                second['arrived'] = True
                await oc.send(peers.response_head(200, 'OK', [('Content-Length', '2'), ('Cache-Control', 'no-store'), ('X-Verif-Origin', '1')]) + b'ok')
                return False
            got['q'] = q
            done.set()
            return True
        o.responder = responder2
    await o.start()
    url = 'http://127.0.0.1:%d/c02/%d' % (o.port, n)
    c = peers.Client(rec, sq.port, name='c%d' % n)
    await c.open()
    hs = [('Host', '127.0.0.1:%d' % o.port), ('X-Verif-Id', str(n))]
    if par['cframing'] == 'length':
        hs.append(('Content-Length', str(total)))
    else:
        hs.append(('Transfer-Encoding', 'chunked'))
        if par['trailers']:
            hs.append(('Trailer', 'X-Verif-Trailer'))
    if par['expect']:
        hs.append(('Expect', '100-continue'))
    head = ('%s %s HTTP/1.1\r\n' % (par['method'], url) + ''.join('%s: %s\r\n' % h for h in hs) + '\r\n').encode()
    seg = rnd.choice(['one', 'perbyte-head', 'units', 'random'])
    produced = {'len': 0, 'fin': 'aborted'}
    try:
        if seg == 'perbyte-head':
            await c.send_segments(head, range(1, len(head)))
        else:
            await c.send(head)
        if par['expect']:
            try:
                await asyncio.wait_for(c.reader.readuntil(b'\r\n\r\n'), 1.0)     # 100 Continue (or nothing)
            except Exception:
                pass
        pos = 0
        ok = True
        for k, us in enumerate(usizes):
            if par['abortAt'] >= 0 and k >= par['abortAt']:
                break
            part = body[pos:pos + us]
            if par['cframing'] == 'chunked':
                # split the unit into 1-3 chunks, optional chunk extensions
                cuts = sorted(rnd.sample(range(1, len(part)), min(rnd.randint(0, 2), max(0, len(part) - 1)))) if len(part) > 1 else []
                wire = b''
                prev = 0
                for cpos in cuts + [len(part)]:
                    ch = part[prev:cpos]
                    ext = rnd.choice([b'', b';a', b';a=b', b';a="q\\"x"', b' ;a']) if par['ext'] else b''
                    wire += b'%x' % len(ch) + ext + b'\r\n' + ch + b'\r\n'
                    prev = cpos
            else:
                wire = part
            pos += len(part)
            produced['len'] = pos
            if seg == 'random' and len(wire) > 2:
                ok = await c.send_segments(wire, sorted(rnd.sample(range(1, len(wire)), min(3, len(wire) - 1))), delay=0.001)
            else:
                ok = await c.send(wire)
                if seg == 'units':
                    await asyncio.sleep(0.002)
            if not ok:
                break
        if par['abortAt'] >= 0:
            if par['cframing'] == 'length' and pos == total:
                produced['fin'] = 'complete'     # every declared byte was written: the message is complete whatever happens next
            await asyncio.sleep(0.03)
            if par.get('early'):
                # the client is stuck mid-body; the origin has answered; somebody else asks the same origin for something
                try:
                    await asyncio.wait_for(c.reader.readuntil(b'\r\n\r\n'), 2.0)      # the early 200 reaches the stuck client
                except Exception:
                    pass
                r2 = await peers.simple_get(rec, sq.port, url + '/second', vid='%d.second' % n, timeout=6.0)
                second['status'] = r2.status
                await asyncio.sleep(0.05)
            c.close()
        else:
            if par['cframing'] == 'chunked':
                await c.send(b'0\r\n' + (b'X-Verif-Trailer: t\r\n' if par['trailers'] else b'') + b'\r\n')
            produced['fin'] = 'complete'
            r = await c.response(par['method'], 15.0, vid=n)
            c.close()
        try:
            await asyncio.wait_for(done.wait(), 6.0 if par['abortAt'] < 0 else 3.0)
        except asyncio.TimeoutError:
            pass
    finally:
        await asyncio.sleep(0.01)
        await o.stop()
    q = got.get('q')
    ev = [{'e': 'Produce', 'status': 0, 'framing': par['cframing'], 'full': total, 'len': produced['len'], 'fin': produced['fin']}]
    if q is not None:
        intact, bad = peers.project_body(q.body, version)
        ev.append({'e': 'Consume', 'status': 0, 'framing': q.framing, 'declared': q.declared if q.declared is not None else -1, 'len': len(q.body),
                   'intact': bool(intact), 'complete': bool(q.complete), 'squidError': False, 'cver': 11})
        both = q.head.has('Content-Length') and q.head.has('Transfer-Encoding')
    else:
        both = False
    return {'ev': ev, 'scen': par, 'sizes': usizes, 'seg': seg, 'pred_uframing': scen['uframing'], 'arrived': q is not None, 'both_cl_te': both, 'n': n, 'second': dict(second), 'stall': bool(stall), 'big': bool(big)}


def run(ctx):
    tree = squidctl.ensure_binary(ctx)
    scens, res = escen.tlc_scenarios(ctx, os.path.join(SPEC, 'ReqRelayImpl.tla'), os.path.join(SPEC, 'MC_ReqRelayImpl.cfg'))
    ctx.log('TLC: %d distinct states, %d scenario classes' % (res.distinct, len(scens)))
    rnd = random.Random(ctx.seed)
    scens.sort(key=lambda c: json.dumps(c, sort_keys=True))
    if not ctx.thorough:
        rnd.shuffle(scens)
        keep, seen = [], set()
        for s in scens:
            p = s['par']
            k = (p['cframing'], p['abortAt'] >= 0, p['expect'], p['ext'], p['trailers'], min(p['units'], 2), p['method'] if p['units'] == 0 else '', p['early'])
            if k not in seen:
                seen.add(k)
                keep.append(s)
        scens = keep
    sq = squidctl.Squid(ctx, tree, clock=False, conf_extra='read_timeout 10 seconds\nrequest_timeout 10 seconds\n')
    sq.start()
    try:
        async def main():
            coros = []
            for i, sc in enumerate(scens * (2 if ctx.thorough else 1)):
                r0 = random.Random(ctx.seed * 100003 + i)
                coros.append(realise(ctx, sq, i + 1, sc, r0, big=(r0.random() < (0.2 if ctx.thorough else 0.05) and sc['par']['units'] <= 2)))
            # uploads larger than every buffer on the way to an origin that does not read for a while
            slow = [sc for sc in scens if sc['par']['units'] in (1, 2) and sc['par']['abortAt'] < 0 and not sc['par']['expect'] and not sc['par'].get('early')]
            rnd.shuffle(slow)
            for j, sc in enumerate(slow[:(24 if ctx.thorough else 8)]):
                coros.append(realise(ctx, sq, 50000 + j, sc, random.Random(ctx.seed * 977 + j), big=True, stall=True))
            return await escen.gather_limited(coros, limit=8)
        hist = asyncio.run(main())
        alive = sq.alive()
    finally:
        sq.stop()
    if not alive:
        ctx.violation('squid exited during the run', {'kind': 'exit', 'log': sq.tail_log()})
    with_consume = [h for h in hist if h['arrived']]
    rej = escen.validate(ctx, os.path.join(SPEC, 'Trace_Relay.tla'), os.path.join(SPEC, 'Trace_Relay.cfg'), [{'ev': h['ev']} for h in with_consume], 'reqrelay')
    ctx.log('realised %d scenarios (%d reached the origin); P-rejected %d' % (len(hist), len(with_consume), len(rej)))
    for i in rej[:5]:
        ctx.violation('request body is not relayed as Relay.tla requires: %s' % json.dumps(with_consume[i]['ev']), {'kind': 'reqrelay', 'scenario': with_consume[i]})
    for h in hist:
        if h['both_cl_te']:
            ctx.violation('upstream request carries both Content-Length and Transfer-Encoding', {'kind': 'framing', 'scenario': h})
        if h['arrived'] and h['ev'][1]['framing'] != h['pred_uframing'] and h['ev'][1]['len'] > 0:
            if len(ctx.drift) < 5:
                ctx.drift.append('upstream framing %s, ReqRelayImpl predicts %s for %s' % (h['ev'][1]['framing'], h['pred_uframing'], json.dumps(h['scen'])))
    ctx.cov['impl_distinct'] = len({json.dumps([h['scen'], h['sizes'], h['seg']], sort_keys=True) for h in hist})
    ctx.cov['big_uploads_to_a_stalled_origin'] = sum(1 for h in hist if h.get('stall'))
    ctx.cov['big_uploads_to_a_stalled_origin_complete'] = sum(1 for h in hist if h.get('stall') and any(e['e'] == 'Consume' and e['complete'] and e['intact'] for e in h['ev']))
    ctx.cov['early_origin_reply_scenarios'] = sum(1 for h in hist if h['scen'].get('early'))
    ctx.cov['early_origin_reply_followup_served'] = sum(1 for h in hist if h['scen'].get('early') and h['second'].get('arrived'))
    ctx.cov['reached_origin'] = len(with_consume)
    ctx.cov['complete_at_origin'] = sum(1 for h in with_consume if h['ev'][1]['complete'])
    ctx.cov['bytes_relayed'] = sum(h['ev'][1]['len'] for h in with_consume)
    for h in hist[:2]:
        ctx.sample({'scenario': h['scen'], 'sizes': h['sizes'], 'segmentation': h['seg'], 'trace': h['ev']})
    ctx.cov['rule'] = ('scenario classes = terminal states of ReqRelayImpl.tla (method x client framing x units x abort point x Expect x chunk extensions x trailers); '
                       'realised with unit sizes around the 64 KiB body pipe and seeded segmentation/chunking; what the origin\'s reference reader saw is validated '
                       'by TLC against Relay.tla. Non-trivial = distinct (class, sizes, segmentation).')
    ctx.assumptions += ['body bytes projected to (version, length, intact) by the driver', 'requests that never reach the origin (client aborted before Squid forwarded) carry no claim']
