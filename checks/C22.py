"""C22 - request-line acceptance matches the HTTP grammar (DESIGN 6.3).  Technique T3: the grammar is RequestLine.tla (Full = RFC 9112
request-line within Squid's method/URI limits, Simple = RFC 1945 Simple-Request, Tolerant = what relaxed_header_parser documents);
the real Http::One::RequestParser parses every generated input at once in strict and relaxed mode and TLC evaluates the grammar
on every result (Conf_RequestLine: CaseOk = the property, ImplOk = the code-shaped function ReqHead of RequestHead.tla)."""
import os
import random
import re

import vlib
import h1parse_common as H

BASES = H.L('GET / HTTP/1.1\r\n\r\n', 'POST /x%20?q=1 HTTP/1.0\r\n\r\n', 'GET /\r\n', 'OPTIONS * HTTP/1.1\r\n\r\n', 'CONNECT h:443 HTTP/1.1\r\n\r\n',
            'GET http://h/p HTTP/1.1\r\nA: b\r\n\r\n', 'GET  /\t HTTP/1.1\r\r\n\n', '\r\n\nGET / HTTP/1.1\n\n', 'PUT /a HTTP/0.9\r\n\r\n',
            'get /HTTP/1.1\r\n\r\n')
BIG = 200000   # request_header_max_size that is never hit by the inputs of this check (except the URI-limit cases, see below)


def gen(ctx):
    rnd = random.Random(ctx.seed)
    cs = H.Cases()
    modes = lambda n: (0, 1, -1) if n % 4 == 0 else (0, 1)
    # (i) the skeleton: every combination with at most k deviating slots (header block fixed to the empty one or a small one)
    k = 3 if ctx.thorough else 2
    sk = H.skeleton(H.REQ_SLOTS, k, fixed={'hdr': H.L('\r\n', 'A: b\r\n\r\n', '\n', '')})
    for n, w in enumerate(sk):
        for r in modes(n):
            cs.add('req', w, r, 1024, '-')
    for w in H.token_sequences(H.spec_tokens('MC_RequestHead'), 4 if ctx.thorough else 3):   # the bounded domain of MC_RequestHead
        for r in (0, 1):
            cs.add('req', w + b'\r\n', r, 1024, '-')
    n_skel = len(cs)
    # (ii) single-byte mutations of valid lines: all 256 values (replace; thorough: also insert) on 3 (thorough: 7) bases,
    #      class representatives (replace, insert, delete) on all
    for bi, base in enumerate(BASES):
        full = (ctx.thorough and bi < 5) or bi in (0, 2, 6)
        muts = H.mutations(base, range(256), ('rep',) if not ctx.thorough else ('rep', 'ins')) if full else []
        muts += H.mutations(base, H.CLASS_BYTES, ('rep', 'ins', 'del'))
        for n, w in enumerate(muts):
            for r in modes(n):
                cs.add('req', w, r, 1024, '-')
    n_mut = len(cs) - n_skel
    # (iii) the stated limits: method 32/33 tchars, request-target 65536/65537 octets (needs a request_header_max_size beyond it)
    for m in (1, 31, 32, 33, 34, 64):
        for r in (0, 1):
            cs.add('req', b'X' * m + b' / HTTP/1.1\r\n\r\n', r, 1024, '-')
            cs.add('req', b'X' * m + b' /\r\n', r, 1024, '-')
    for u in ((65535, 65536, 65537) if not ctx.thorough else (65534, 65535, 65536, 65537, 65538, 70000)):
        for r in (0, 1):
            cs.add('req', b'GET /' + b'a' * (u - 1) + b' HTTP/1.1\r\n\r\n', r, BIG, '-')
            cs.add('req', b'GET /' + b'a' * (u - 1) + b'\r\n', r, BIG, '-')
    # (iv) seeded random mutants of the bases and of skeleton members
    pool = BASES + rnd.sample(sk, min(len(sk), 400))
    for n in range(20000 if ctx.thorough else 6000):
        w = H.random_mutant(rnd, rnd.choice(pool))
        for r in modes(n):
            cs.add('req', w, r, 1024, '-')
    return cs, {'skeleton_and_mc_token_domain': n_skel, 'byte_mutations': n_mut, 'limits_and_random': len(cs) - n_skel - n_mut, 'skeleton_k': k}


VERSION_TOKEN = re.compile(rb'HTTP/(\d+)\.(\d+)\r*$')


def classify(o):
    """witness class for known-finding matching"""
    w = bytes(o['in'])
    t = o['tuples'][o['one']]
    g, p = H.first_line_offset(w, o['relaxed'] != 0)
    cls = {'mode': 'strict' if o['relaxed'] == 0 else 'relaxed', 'got': t['o'], 'kind': 'other'}
    if o['ub']:
        cls['kind'] = 'undefined-behaviour'
        return cls
    if p is not None:
        m = VERSION_TOKEN.search(w[g:g + p])
        # the line ends in a version token whose major number is 0, or whose numbers have several digits (reported as 0.0):
        # the parser then treats the token like an absent version (no delimiter required, target cut in front of it)
        if m and (m.group(1) == b'0' or len(m.group(1)) > 1 or len(m.group(2)) > 1):
            cls['kind'] = 'version-token-with-major-0-or-multiple-digits'
            cls['token'] = 'multi-digit' if (len(m.group(1)) > 1 or len(m.group(2)) > 1) else 'major-0'
            before = w[g:g + p][:m.start()][-1:]
            cls['delimited'] = before in ((b' ',) if o['relaxed'] == 0 else (b' ', b'\t', b'\x0b', b'\x0c', b'\r'))
    return cls


def run(ctx):
    exe = H.build(ctx)
    ctx.log('driver built')
    mc = vlib.tlc_must_pass(ctx, os.path.join(H.SPEC, 'MC_RequestHead.tla'),
                            os.path.join(H.SPEC, 'MC_RequestHead_thorough.cfg' if ctx.thorough else 'MC_RequestHead.cfg'),
                            workers=vlib.NCPU, timeout=1500, label='mc-requesthead')
    ctx.log('MC_RequestHead: %d states (grammar laws and prefix law of the specification)' % mc.distinct)
    cs, parts = gen(ctx)
    ctx.log('%d cases' % len(cs))
    outs = H.run_cases(ctx, exe, cs)
    prej, irej = H.conformance(ctx, 'Conf_RequestLine', outs, 'reqline')
    ctx.log('TLC evaluated %d cases: P-rejected %d, I-rejected %d' % (len(outs), len(prej), len(irej)))
    shown = {}
    known = H.load_known('C22')
    for i in prej:
        o = outs[i]
        cls = classify(o)
        key = repr(sorted(cls.items()))      # one witness per distinct class (known-finding entries match on class fields)
        if shown.get(key, 0) >= (3 if cls['kind'] == 'other' else 1) or len(ctx.violations) >= 6:
            continue
        shown[key] = shown.get(key, 0) + 1
        H.report(ctx, known, ('UBSan reported undefined behaviour; ' if o['ub'] else '') + 'request line %r (relaxed_header_parser=%d): parser reported %s, which RequestLine.tla does not allow' % (
            bytes(o['in'])[:120], o['relaxed'], str(H.tuple_text(o['tuples'][o['one']]))[:400]), {'class': cls, 'case': H.project(o), 'line': cs.lines[i][:400]})
    for i in irej:
        if i not in prej and len(ctx.drift) < 5:
            ctx.drift.append('one-shot outcome differs from ReqHead (RequestHead.tla) on %r relaxed=%d: %s' % (
                bytes(outs[i]['in'])[:80], outs[i]['relaxed'], H.tuple_text(outs[i]['tuples'][outs[i]['one']])))
    ctx.cov['impl_distinct'] = sum(1 for o in outs if b'\n' in bytes(o['in']))
    ctx.cov['generated'] = parts
    ctx.cov['by_outcome'] = H.outcome_counts(outs)
    ctx.cov['by_mode'] = {str(r): sum(1 for o in outs if o['relaxed'] == r) for r in (0, 1, -1)}
    ctx.cov['p_rejected'] = len(prej)
    ctx.cov['ub_reports'] = sum(1 for o in outs if o['ub'])
    for o in (outs[0], outs[len(outs) // 3], outs[len(outs) // 2], outs[-1]):
        ctx.sample({'input': bytes(o['in'])[:100].decode('latin-1'), 'relaxed': o['relaxed'], 'outcome': H.tuple_text(o['tuples'][o['one']])})
    ctx.cov['rule'] = ('request skeleton (garbage, method, delimiter, target, delimiter, version, CR, LF, header block) with at most k deviating slots; every token sequence of the MC_RequestHead domain up to 3 (thorough: 4) tokens; '
                       'single-byte replace/insert/delete over valid lines (all 256 values on part of the bases, class representatives on all); method and '
                       'URI length limits; seeded random mutants; each in strict and relaxed mode (-1 on a quarter). Cases are de-duplicated; '
                       'non-trivial = the input contains a complete first line (an LF).')
    ctx.assumptions += [
        'request-target is checked as 1*(RFC 3986 character); its inner structure is the subject of C30',
        'RFC 1945 Simple-Request (GET SP target CRLF -> HTTP/0.9) is supported by Squid in both modes on purpose (pinned by its unit tests): '
        'a line matching only that production may be accepted (as 0.9, with exactly its fields) or refused',
        'relaxed mode: only acceptance is constrained (accepted => tolerant grammar matches), as the statement says',
        'driver linked like tests/testHttp1Parser (+SquidConfig.cc), compiled from the working tree with ASan/UBSan']
