"""C18 - collapsed forwarding: one upstream fetch, identical copies (DESIGN 6.7)."""
import asyncio, json, os, random, time
import vlib, squidctl, peers, escen
from vlib import VERIF

SPEC = os.path.join(VERIF, 'spec', 'proxy')
SIZES = [2, 4097, 32769, 70001, 200001]
_ver = [0]


async def realise(ctx, sq, n, scen, rnd, slack=1.0):
    par = scen['par']
    ev = []
    L = rnd.choice(SIZES)
    go = {k: asyncio.Event() for k in ('head', 'half', 'finish')}
    first = {'v': None}
    arrived = asyncio.Event()

    primed = bool(par.get('primed'))
    prime = {'v': None, 'etag': None}

    async def responder(q, oc):
        _ver[0] += 1
        v = _ver[0]
        rid = q.head.get('X-Verif-Id')
        status = 200
        if primed and prime['v'] is None:
            # the priming fetch: a complete cacheable response that has to be revalidated on every use
            prime['v'], prime['etag'] = v, '"c18p-%d"' % v
            ev.append({'e': 'FetchStart', 'v': v, 'id': rid, 'len': L, 'status': 200})
            await oc.send(peers.response_head(200, 'OK', [('Content-Length', str(L)), ('Cache-Control', 'no-cache'), ('Date', peers.http_date()), ('ETag', prime['etag']),
                                                          ('X-Verif-Version', str(v)), ('X-Verif-Origin', '1')]) + peers.body_bytes(v, L))
            ev.append({'e': 'FetchHead', 'v': v, 'shareable': True, 'reval': True})
            ev.append({'e': 'FetchEnd', 'v': v, 'fin': 'complete'})
            return False
        if primed and q.head.get('If-None-Match') == prime['etag']:
            # the revalidation fetch: held like the writer's fetch of the other classes, answered 304
            ev.append({'e': 'FetchStart', 'v': v, 'id': rid, 'len': 0, 'status': 304})
            is_first = first['v'] is None
            if is_first:
                first['v'] = v
                arrived.set()
                await go['head'].wait()
            await oc.send(peers.response_head(304, 'Not Modified', [('Cache-Control', 'no-cache'), ('Date', peers.http_date()), ('ETag', prime['etag']), ('X-Verif-Origin', '1')]))
            ev.append({'e': 'FetchHead', 'v': v, 'shareable': True, 'reval': True})
            ev.append({'e': 'FetchEnd', 'v': v, 'fin': 'complete'})
            return False
        ev.append({'e': 'FetchStart', 'v': v, 'id': rid, 'len': L, 'status': status})
        is_first = first['v'] is None
        if is_first:
            first['v'] = v
            arrived.set()
            await go['head'].wait()
        shareable = not (par['outcome'] == 'unshareable')
        fr = par.get('fresh', 'fresh')
        now = peers.http_date()
        extra = []
        if not shareable:
            cc = 'private, max-age=3600'
        elif fr == 'nocache':
            cc, extra = 'no-cache', [('ETag', '"c18-%d"' % v)]
        elif fr == 'mustreval0':
            cc, extra = 'max-age=0, must-revalidate', [('Last-Modified', peers.http_date(time.time() - 86400))]
        elif fr == 'expired':
            cc, extra = 'public', [('Expires', now), ('Last-Modified', peers.http_date(time.time() - 86400))]
        else:
            cc = 'max-age=3600'
        body = peers.body_bytes(v, L)
        head = peers.response_head(status, 'OK', [('Content-Length', str(L)), ('Cache-Control', cc), ('Date', now)] + extra + [
                                                   ('X-Verif-Version', str(v)), ('X-Verif-Origin', '1')])
        await oc.send(head)
        ev.append({'e': 'FetchHead', 'v': v, 'shareable': bool(shareable), 'reval': bool(shareable and fr != 'fresh')})
        if is_first:
            await go['half'].wait()
        await oc.send(body[:L // 2])
        if is_first:
            await go['finish'].wait()
        if is_first and par['outcome'] == 'abort':
            ev.append({'e': 'FetchEnd', 'v': v, 'fin': 'aborted'})
            await asyncio.sleep(0.01)
            oc.close()
            return True
        await oc.send(body[L // 2:])
        ev.append({'e': 'FetchEnd', 'v': v, 'fin': 'complete'})
        return False
    o = await peers.Origin(peers.Rec(), responder).start()
    url = 'http://127.0.0.1:%d/c18/%d' % (o.port, n)
    results = []

    async def client(cid, worker):
        rid = '%d.%s' % (n, cid)
        ev.append({'e': 'Req', 'id': rid})
        r = await peers.simple_get(peers.Rec(), sq.ports[worker - 1], url, vid=rid, timeout=10.0)
        hv = -1
        if r.head is not None and r.head.get('X-Verif-Version'):
            hv = int(r.head.get('X-Verif-Version'))
        intact = True
        bv = -1
        if r.body and hv >= 0:
            intact, _ = peers.project_body(r.body, hv)
            bv = hv if intact else -2
        results.append({'e': 'CResp', 'hv': hv, 'bv': bv, 'status': r.status or 0, 'blen': len(r.body), 'intact': bool(intact), 'complete': bool(r.complete), 'cid': cid})
    if primed:
        await client('p', par['w1'])
        if prime['v'] is None:
            await o.stop()
            return None
    tasks = [asyncio.ensure_future(client('w', par['w1']))]
    try:
        await asyncio.wait_for(arrived.wait(), 8.0)
    except asyncio.TimeoutError:
        await o.stop()
        return None
    followers = [('f1', par['f1'], par['w1']), ('f2', par['f2'], par['w2'])] + ([('f3', par['f3'], par['w3'])] if par['f3'] != 'absent' else [])
    # f1 runs on the writer's worker, f2/f3 possibly on the other one

    async def launch(point):
        for cid, p, w in followers:
            if p == point:
                tasks.append(asyncio.ensure_future(client(cid, w)))
        await asyncio.sleep(0.04 * slack)        # margin for Squid to accept and parse the request before the origin moves on
    await launch('beforeHead')
    go['head'].set()
    await asyncio.sleep(0.03 * slack)
    await launch('afterHead')
    go['half'].set()
    await asyncio.sleep(0.03 * slack)
    await launch('midBody')
    go['finish'].set()
    await asyncio.sleep(0.05 * slack)
    await launch('afterDone')
    await asyncio.gather(*tasks)
    await asyncio.sleep(0.02)
    await o.stop()
    ev += [{k: r[k] for k in r if k != 'cid'} for r in results]
    ev.append({'e': 'Done'})
    return {'ev': ev, 'par': par, 'len': L, 'fetches': sum(1 for e in ev if e['e'] == 'FetchStart') - (1 if primed else 0), 'pred_extra': scen['extra']}


def fill(ev):
    """uniform fields for TLC"""
    out = []
    for e in ev:
        d = {'e': e['e'], 'id': e.get('id', ''), 'v': e.get('v', -1), 'len': e.get('len', 0), 'status': e.get('status', 0), 'shareable': e.get('shareable', False), 'reval': e.get('reval', False),
             'fin': e.get('fin', ''), 'hv': e.get('hv', -1), 'bv': e.get('bv', -1), 'blen': e.get('blen', 0), 'intact': e.get('intact', True), 'complete': e.get('complete', False)}
        out.append(d)
    return out


def run(ctx):
    tree = squidctl.ensure_binary(ctx)
    scens, res = escen.tlc_scenarios(ctx, os.path.join(SPEC, 'CollapseScen.tla'), os.path.join(SPEC, 'MC_CollapseScen.cfg'))
    ctx.log('TLC: %d states, %d scenario classes' % (res.distinct, len(scens)))
    scens.sort(key=lambda c: json.dumps(c, sort_keys=True))
    rnd = random.Random(ctx.seed)
    out = []
    for workers in (1, 2):
        part = [s for s in scens if s['par']['workers'] == workers]
        if not ctx.thorough:
            rnd.shuffle(part)
            strata = {}
            for sc in part:
                strata.setdefault((sc['par']['outcome'], sc['par']['fresh'] + ('-primed' if sc['par'].get('primed') else '')), []).append(sc)
            quota = {('ok', 'nocache-primed'): 24, ('ok', 'fresh'): 30, ('ok', 'nocache'): 16, ('ok', 'mustreval0'): 16, ('ok', 'expired'): 16, ('abort', 'fresh'): 10, ('unshareable', 'fresh'): 10}
            # a 304 has no body phase: only followers sent before its head meet the open revalidation fetch
            if ('ok', 'nocache-primed') in strata:
                strata[('ok', 'nocache-primed')].sort(key=lambda sc: -sum(1 for f in ('f1', 'f2', 'f3') if sc['par'][f] == 'beforeHead'))
            part = [sc for k, lst in sorted(strata.items()) for sc in lst[:quota.get(k, 8)]]
        sq = squidctl.Squid(ctx, tree, name='c18-%d' % workers, clock=False, workers=workers if workers > 1 else 0, cache_mem='64 MB',
                            conf_extra='collapsed_forwarding on\n' + ('memory_cache_shared on\n' if workers > 1 else '') + 'maximum_object_size_in_memory 1 MB\nread_timeout 10 seconds\n')
        sq.start(wait=40)
        try:
            async def main():
                return await escen.gather_limited([realise(ctx, sq, workers * 100000 + i, s, random.Random(ctx.seed * 100003 + i)) for i, s in enumerate(part)], limit=8)
            out += [o for o in asyncio.run(main()) if o]
            if not sq.alive():
                ctx.violation('squid exited during the run', {'kind': 'exit', 'log': sq.tail_log()})
        finally:
            sq.stop()
    rej = escen.validate(ctx, os.path.join(SPEC, 'Trace_Collapse.tla'), os.path.join(SPEC, 'Trace_Collapse.cfg'), [{'ev': fill(o['ev'])} for o in out], 'collapse')
    ctx.log('realised %d bursts; P-rejected %d' % (len(out), len(rej)))
    # reproduce before reporting (T5): "arrived while the fetch was open" is judged from the client's send time; under load
    # Squid may get to the request only after the fetch ended.  A rejected burst is re-run alone, twice, on a fresh squid
    # with six times wider margins; it is reported only if it is rejected every time.
    confirmed = []
    for i in rej[:6]:
        o = out[i]
        workers = o['par']['workers']
        sq = squidctl.Squid(ctx, tree, name='c18-re%d' % i, clock=False, workers=workers if workers > 1 else 0, cache_mem='64 MB',
                            conf_extra='collapsed_forwarding on\n' + ('memory_cache_shared on\n' if workers > 1 else '') + 'maximum_object_size_in_memory 1 MB\nread_timeout 10 seconds\n')
        sq.start(wait=40)
        try:
            again = []
            for a in range(2):
                r = asyncio.run(realise(ctx, sq, 900000 + i * 10 + a, {'par': o['par'], 'extra': o['pred_extra']}, random.Random(ctx.seed * 7 + i), slack=6.0))
                if r:
                    r['len'] = r['len']
                    again.append(r)
        finally:
            sq.stop()
        rej2 = escen.validate(ctx, os.path.join(SPEC, 'Trace_Collapse.tla'), os.path.join(SPEC, 'Trace_Collapse.cfg'), [{'ev': fill(r['ev'])} for r in again], 'collapse-re%d' % i) if again else []
        if again and len(rej2) == len(again):
            out[i] = again[-1]
            confirmed.append(i)
        else:
            ctx.add('not_reproduced_with_wide_margins', 1)
    ctx.log('reproduced %d of %d rejections' % (len(confirmed), min(len(rej), 6)))
    for i in confirmed[:5]:
        o = out[i]
        ctx.violation('collapsed forwarding history violates Collapse.tla: %s fetches=%d events=%s' % (json.dumps(o['par']), o['fetches'], json.dumps([e for e in o['ev'] if e['e'] != 'Req'])[:900]),
                      {'kind': 'collapse', 'scenario': o})
    nd = sum(1 for o in out if o['pred_extra'] == 0 and o['fetches'] != 1)
    ctx.cov['drift_total'] = nd
    for o in out:
        if o['pred_extra'] == 0 and o['fetches'] != 1 and len(ctx.drift) < 5:
            ctx.drift.append('predicted a single fetch, saw %d: %s' % (o['fetches'], json.dumps(o['par'])))
    ctx.cov['impl_distinct'] = len({json.dumps([o['par'], o['len']], sort_keys=True) for o in out})
    ctx.cov['revalidation_bursts'] = sum(1 for o in out if o['par'].get('primed'))
    ctx.cov['followers_sent_during_an_open_304_fetch'] = sum(1 for o in out if o['par'].get('primed') for f in ('f1', 'f2', 'f3') if o['par'][f] == 'beforeHead')
    ctx.cov['revalidation_bursts_with_single_304_fetch'] = sum(1 for o in out if o['par'].get('primed') and o['fetches'] == 1 and any(e['e'] == 'FetchStart' and e['status'] == 304 for e in o['ev']))
    ctx.cov['bursts_with_single_fetch'] = sum(1 for o in out if o['fetches'] == 1)
    ctx.cov['collapsed_complete_bodies'] = sum(1 for o in out for e in o['ev'] if e['e'] == 'CResp' and e['complete'] and e['hv'] >= 0)
    for o in out[:2]:
        ctx.sample({'par': o['par'], 'len': o['len'], 'events': o['ev']})
    ctx.cov['rule'] = ('classes = CollapseScen.tla (arrival point of 2-3 followers relative to the writer\'s fetch x outcome ok/abort/unshareable x freshness of the shared response (fresh / no-cache+ETag / max-age=0 must-revalidate / Expires=Date) x worker assignment, 1 and 2 workers x burst on an already stored response that must be revalidated (the fetch of the writer is a conditional request answered 304)); '
                       'the driver holds the origin\'s reply at head / mid-body / end so that followers arrive exactly there; histories validated by TLC against Collapse.tla; a rejected burst is re-run alone with wide timing margins before it is reported.')
    ctx.assumptions += ['per-worker listening ports (squid.conf conditionals) pin clients to workers']
