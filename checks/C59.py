"""C59 - timed events fire in order and never after cancellation (DESIGN 6.2 C59).
Spec: spec/adt/EventQueue.tla (P), EventQueueImpl.tla (I), MC_EventQueue.tla, Trace_EventQueue.tla, Trace_EventQueueImpl.tla.
Driver: harness/u_event.cc (real EventScheduler from src/event.cc inside the real EventLoop from src/EventLoop.cc; the
driver owns current_dtime).  T1: every edge of the explored I-graph is reached on the real scheduler by a shortest path
and compared; T2: seeded random histories.  TLC validates every recorded history against P (violation) and I (drift)."""
import json, os, random
import vlib, ucheck, adtb
from vlib import VERIF

SPEC = os.path.join(VERIF, 'spec', 'adt')
MC = os.path.join(SPEC, 'MC_EventQueue.tla')
TP = os.path.join(SPEC, 'Trace_EventQueue.tla')
TP_CFG = os.path.join(SPEC, 'Trace_EventQueue.cfg')
TI = os.path.join(SPEC, 'Trace_EventQueueImpl.tla')
TI_CFG = os.path.join(SPEC, 'Trace_EventQueueImpl.cfg')


def edge_cfg(name):
    txt = open(os.path.join(SPEC, 'MC_EventQueue_%s.cfg' % name)).read()
    if 'DumpEdges = FALSE' not in txt:
        raise vlib.MachineryError('unexpected cfg ' + name)
    return txt.replace('DumpEdges = FALSE', 'DumpEdges = TRUE')


def cmd_of(a):
    op = a['op']
    if op == 'S':
        return 'S %d %d %d %d' % (a['f'], a['a'], a['d'], a['w'])
    if op in ('X', 'F'):
        return '%s %d %d' % (op, a['f'], a['a'])
    if op == 'A':
        return 'A %d' % a['dt']
    if op in ('C', 'O'):
        return op
    raise vlib.MachineryError('unknown action %r' % (a,))


def t1(ctx, exe, names, cap):
    lines, scripts, expected_dev, mismatching = [], [], set(), set()
    rnd = random.Random(ctx.seed + 59)
    dumps = adtb.tlc_edges_many(ctx, MC, [('edges_' + n, edge_cfg(n)) for n in names], workers=4 if ctx.thorough else 1)
    for name, (edges, r) in zip(names, dumps):
        todo, nstates = adtb.edge_paths(edges, lambda s: s['q'] == [] and s['now'] == 0 and s['nextId'] == 1,
                                        avoid=lambda e: e['a'].get('dev'))
        total = len(todo)
        if cap and total > cap:
            rnd.shuffle(todo)
            todo = todo[:cap]
        ctx.log('T1 %s: TLC %d states, %d unique edges, %d replayed' % (name, nstates, total, len(todo)))
        ctx.add('spec_states_covered', nstates)
        ctx.add('edges_in_graph', total)
        ctx.add('edges_replayed', len(todo))
        sc = [['R 8'] + [cmd_of(a) for a in path] + [cmd_of(e['a']), 'Z', 'E'] for s0, path, e in todo]
        hs = adtb.run_histories(ctx, exe, sc)
        mism = 0
        for h, (s0, path, e), s in zip(hs, todo, sc):
            last = h['ev'][-2] if len(h['ev']) >= 2 else h['ev'][-1]
            a = e['a']
            bad = h['ev'][-1].get('e') == 'Abort' or last.get('q') != e['t']['q'] or last.get('now') != e['t']['now']
            for k in ('ret', 'fired', 'trap'):
                if k in a and a[k] != last.get(k):
                    bad = True
            drain = h['ev'][-1]
            if drain.get('e') == 'Drain' and (drain['fired'] != [[x['f'], x['a']] for x in e['t']['tasks']] or drain['q'] != [] or drain['ret'] != -1):
                bad = True
            if bad:
                mism += 1
                mismatching.add(len(lines))
                if len(ctx.drift) < 5:
                    ctx.drift.append('edge replay (%s) %s: spec q=%s %s, impl %s' % (name, ' '.join(s), e['t']['q'], json.dumps(a), json.dumps(last)))
            if a.get('dev'):
                expected_dev.add(len(lines))
            lines.append(h)
            scripts.append(s)
        ctx.add('edge_mismatches', mism)
    return lines, scripts, expected_dev, mismatching


def gen_history(rnd, nops, style):
    den = rnd.choice([8, 8, 1024])
    nf, na = rnd.choice([(1, 2), (2, 3), (3, 5)])
    delays = [0, 0, 0, 1, 1, 2, 3, 5, 8, -1] if style != 'ties' else [0, 2, 2, 2, 3]
    cmds = ['R %d' % den]
    live = []   # (f, a) pairs believed to be scheduled (only used to aim cancels/finds)
    for _ in range(nops):
        x = rnd.random()
        if x < 0.36:
            f, a = rnd.randrange(nf), rnd.randint(0 if rnd.random() < 0.1 else 1, na)
            cmds.append('S %d %d %d %d' % (f, a, rnd.choice(delays), rnd.choice([0, 0, 0, 1, 3])))
            live.append((f, a))
        elif x < 0.48:
            if style == 'cancelall' and rnd.random() < 0.4:
                cmds.append('X %d 0' % rnd.randrange(nf))
            else:
                f, a = rnd.choice(live) if live and rnd.random() < 0.8 else (rnd.randrange(nf), rnd.randint(1, na))
                if a == 0:
                    a = 1
                cmds.append('X %d %d' % (f, a))
        elif x < 0.56:
            f, a = rnd.choice(live) if live and rnd.random() < 0.6 else (rnd.randrange(nf), rnd.randint(0, na))
            cmds.append('F %d %d' % (f, a))
        elif x < 0.72:
            cmds.append('A %d' % rnd.choice([0, 1, 1, 1, 2, 3, 7]))
        elif x < 0.90:
            cmds.append('C')
        else:
            cmds.append('O')
    cmds += ['Z', 'E']
    return cmds


def classify(line, n):
    """witness class of a P-rejection whose first refused event is #n"""
    ev = line['ev'][n - 1] if n and n <= len(line['ev']) else {}
    cls = {'kind': 'history', 'op': ev.get('e')}
    if ev.get('e') == 'Abort':
        cls['kind'] = 'abort'
    elif ev.get('ub'):
        cls['kind'] = 'ub'
    elif ev.get('e') == 'Cancel' and ev.get('a') == 0:
        func = {e['id']: e['f'] for e in line['ev'][:n] if e.get('e') == 'Sched'}
        before = line['ev'][n - 2]['q'] if n >= 2 else []
        left = [i for i in ev.get('q', []) if func.get(i) == ev['f']]
        others_ok = [i for i in before if func.get(i) != ev['f']] == [i for i in ev.get('q', []) if func.get(i) != ev['f']]
        if left and others_ok:
            cls = {'kind': 'cancel-all-leaves-match', 'op': 'Cancel'}
    return cls, ev


def run(ctx):
    exe = ucheck.build_like_test(ctx, 'event', 'testEvent', ['u_event.cc', 'uhelp.cc'], drop=['tests/stub_tools.cc'],
                                 add=['src/EventLoop.cc', 'src/tests/stub_fatal.cc'])
    ctx.log('driver built')
    # 1+2. design step (invariants, laws, I => P except the named deviation) and T1 edge dump in one TLC run per configuration
    names = ['order', 'cancel'] + (['order2', 'cancel2'] if ctx.thorough else [])
    lines, scripts, expected_dev, mismatching = t1(ctx, exe, names, None if not ctx.thorough else 120000)
    # An edge replay whose outcome equals TLC's target state and return values is a behaviour of the I-layer, and TLC has
    # just checked that I-steps are P-steps except the named deviation.  TLC trace validation therefore gets: every replay
    # that differs from the spec's edge, every replay of a deviating edge, and a seeded sample of the others.
    rnd1 = random.Random(ctx.seed + 5959)
    rest = [i for i in range(len(lines)) if i not in mismatching and i not in expected_dev]
    rnd1.shuffle(rest)
    keep = sorted(set(list(mismatching)[:3000]) | expected_dev | set(rest[:20000 if ctx.thorough else 2000]))
    ctx.cov['edge_replays_validated_by_trace_spec'] = len(keep)
    remap = {old: new for new, old in enumerate(keep)}
    lines = [lines[i] for i in keep]
    scripts = [scripts[i] for i in keep]
    expected_dev = {remap[i] for i in expected_dev}
    n_t1 = len(lines)
    # 3. T2
    rnd = random.Random(ctx.seed * 7919 + 59)
    nh, nops = (1000, 300) if ctx.thorough else (150, 200)
    styles = ['mixed'] * 6 + ['ties'] * 3 + ['cancelall']
    t2s = [gen_history(rnd, nops, styles[i % len(styles)]) for i in range(nh)]
    hs = adtb.run_histories(ctx, exe, t2s)
    lines += hs
    scripts += t2s
    lines = [adtb.strip_diag(l) for l in lines]
    for l in lines:
        l.setdefault('den', 8)
    ctx.add('impl_steps', sum(len(l['ev']) for l in lines))
    ctx.add('random_histories', len(hs))
    ctx.cov['ops_by_kind'] = {}
    for l in lines:
        for e in l['ev']:
            ctx.cov['ops_by_kind'][e['e']] = ctx.cov['ops_by_kind'].get(e['e'], 0) + 1
    ctx.cov['handler_calls'] = sum(len(e.get('fired', [])) for l in lines for e in l['ev'])
    ctx.cov['checks_stopped_by_heavy_event'] = sum(1 for l in lines for e in l['ev'] if e['e'] == 'Check' and e['ret'] == 0)
    ctx.cov['cancels_without_match'] = sum(1 for l in lines for e in l['ev'] if e['e'] == 'Cancel' and e['trap'])
    # 4. TLC decides
    rejP, reached, rejI = adtb.validate_both(ctx, (TP, TP_CFG), (TI, TI_CFG), lines, 'c59')
    ctx.log('TLC validated %d histories (%d edge replays, %d random): P-rejected %d, I-rejected %d' % (
        len(lines), n_t1, len(hs), len(rejP), len(rejI)))
    nknown = 0
    for i in rejP:
        if len(ctx.violations) >= 5:
            break
        n = reached.get(i)
        cls, ev = classify(lines[i], n)
        if cls['kind'] == 'cancel-all-leaves-match':
            nknown += 1
        ctx.violation('EventScheduler: history is not a behaviour of EventQueue.tla (P-layer); first refused event #%s: %s; commands: %s' % (
            n, json.dumps(ev)[:400], ' '.join(scripts[i][:(n or 0) + 1])[-300:]),
            {'class': cls, 'commands': scripts[i][:(n or 0) + 1], 'first_bad': n, 'history': lines[i]})
    ctx.cov['p_rejected'] = len(rejP)
    ctx.cov['p_rejected_cancel_all_leaves_match'] = nknown
    ctx.cov['t1_edges_where_impl_leaves_P'] = len(expected_dev)
    for i in rejI:
        if len(ctx.drift) < 5:
            ctx.drift.append('history %d (%s ...) is not a behaviour of EventQueueImpl.tla (I-layer)' % (i, ' '.join(scripts[i][:8])))
    ctx.cov['impl_distinct'] = len({adtb.key(l['ev']) for l in lines})
    for l in (lines[0], lines[n_t1 // 2], lines[n_t1] if n_t1 < len(lines) else lines[-1]):
        ctx.sample({'den': l['den'], 'events': [[e['e']] + [e.get(k) for k in ('id', 'f', 'a', 'd', 'w', 'dt') if k in e] +
                                                ['->', {k: e[k] for k in ('ret', 'fired', 'trap') if k in e}, 'q', e.get('q')] for e in l['ev'][:8]]})
    ctx.cov['rule'] = ('T1: full reachable graph of EventQueueImpl for the configurations order (3 events x delay {0,1,2} x weight {0,1}, clock 0..2, '
                       'Check/Loop/Cancel/Find) and cancel (4 immediate events x 2 handlers x argument {none,1}, cancel one / cancel all)%s; every unique '
                       '(state, action) edge is reached on the real EventScheduler by a shortest path that avoids the known deviation, compared, and '
                       'followed by a drain. T2: seeded random histories (%d ops, 1-3 handlers, up to 5 arguments, delays -1..8 ticks of 1/8 or 1/1024 s, '
                       'weights 0/1/3, checkEvents and EventLoop::runOnce, final drain). Every history is validated by TLC against the P- and the '
                       'I-layer. Non-trivial = distinct event sequences.' % (', order2/cancel2 (two arguments; delays {0,1} in cancel), sampled to 120000 edges each' if ctx.thorough else '', nops))
    ctx.assumptions += ['events are scheduled with cbdata=false (the cbdata validity path of EventDialer is not exercised)',
                        'handlers do not schedule or cancel events themselves; AsyncCalls are dispatched right after checkEvents(), as EventLoop does',
                        'clock ticks are binary fractions of a second, so current_dtime + delay is exact; clock never goes backwards',
                        'driver linked like tests/testEvent plus EventLoop.cc; debug_trap() (a warning in production) is recorded, not fatal',
                        'P reads cancel(func, nullptr) as "cancel every event of func" (event.cc comment); the set of scheduled events is observed through dump()']
