"""C36 - Base64 round-trips and decodes Basic credentials safely (DESIGN 6.3 C36).  Technique T3: TLC evaluates Base64.tla
(Encode, strict decode, Malformed, SplitBasic, the output-size promise) on every result of the real coders - the base64_*
functions the build uses and squid's own lib/base64.cc - and of the real Auth::Basic::Config::decode()."""
import base64, itertools, json, os, random
import vlib, ucheck
from vlib import VERIF

SPEC = os.path.join(VERIF, 'spec', 'syntax')
B64 = b'ABCDEFGHIJKLMNOPQRSTUVWXYZabcdefghijklmnopqrstuvwxyz0123456789+/'
REP3 = [0, 1, 3, 4, 15, 16, 63, 64, 127, 128, 191, 192, 251, 252, 254, 255]
DEC_ALPHA = [65, 81, 47, 61, 32, 42, 122]   # A Q / = SP * z

AUTH_SRC = ['src/auth/basic/Config.cc', 'src/auth/basic/User.cc', 'src/auth/basic/UserRequest.cc', 'src/auth/basic/Scheme.cc',
            'src/auth/User.cc', 'src/auth/UserRequest.cc', 'src/auth/SchemeConfig.cc', 'src/auth/Scheme.cc', 'src/auth/CredentialsCache.cc',
            'src/auth/CredentialState.cc', 'src/auth/Type.cc', 'src/auth/toUtf.cc', 'src/auth/State.cc', 'src/auth/Gadgets.cc',
            'src/auth/Config.cc', 'src/auth/SchemesConfig.cc', 'src/SquidConfig.cc', 'src/Notes.cc',
            'src/tests/stub_libformat.cc', 'src/tests/stub_libtime.cc', 'src/tests/stub_event.cc', 'src/tests/stub_store.cc',
            'src/tests/stub_wordlist.cc', 'src/tests/stub_helper.cc', 'src/tests/stub_store_stats.cc']


def hx(b):
    return b.hex() or '-'


def drive(exe, lines, timeout=1500, max_aborts=5):
    """Run the driver over `lines`; a driver killed by a sanitizer is restarted after the case it died on."""
    outs = [None] * len(lines)
    aborts = []
    start = 0
    while start < len(lines):
        r = vlib.run_driver(exe, '\n'.join(lines[start:]) + '\n', timeout=timeout)
        got = [json.loads(l) for l in r.stdout.splitlines() if l.startswith('{')]
        for k, o in enumerate(got):
            outs[start + k] = o
        start += len(got)
        if start < len(lines):
            if r.returncode == 0:
                raise vlib.MachineryError('driver answered %d of %d lines but exited 0: %s' % (start, len(lines), r.stderr[-600:]))
            k = r.stderr.find('ERROR: AddressSanitizer')
            aborts.append((start, r.stderr[k:k + 1800] if k >= 0 else r.stderr[-1500:]))
            start += 1
            if len(aborts) >= max_aborts:
                break
    return outs, aborts


def conf_batched(ctx, module, cfg, recs, label, bsize=48, big=1500, size=lambda r: 2000 if r['op'] == 'rtall' else len(r.get('e', r.get('hdr', [])))):
    """Function conformance with several cases per TLC state ({"b": [...]}); rejected batches are re-evaluated case by case."""
    batches, cur = [], []
    for k, r in enumerate(recs):
        if size(r) > big:
            batches.append([k])
            continue
        cur.append(k)
        if len(cur) >= bsize:
            batches.append(cur)
            cur = []
    if cur:
        batches.append(cur)
    before = {k: ctx.cov.get(k, 0) for k in ('impl_traces', 'tlc_checked_cases')}
    pr, ir = ucheck.conformance(ctx, module, cfg, [{'b': [recs[k] for k in b]} for b in batches], label, chunk=max(100, -(-len(batches) // 4)))
    prej, irej = [], []
    for rejected, out in ((pr, prej), (ir, irej)):
        rejected = sorted(rejected)
        if len(rejected) > 60:      # many rejected batches: re-evaluate an evenly spread selection (first and last included)
            rejected = [rejected[(j * (len(rejected) - 1)) // 59] for j in range(60)]
        singles = [k for bi in rejected for k in batches[bi]]
        if singles:
            p1, i1 = ucheck.conformance(ctx, module, cfg, [{'b': [recs[k]]} for k in singles], label + ('-singleP' if out is prej else '-singleI'))
            out += [singles[j] for j in (p1 if out is prej else i1)]
    for k in before:
        ctx.cov[k] = before[k] + len(recs)
    return sorted(set(prej)), sorted(set(irej))


def mutations(rnd, e):
    """malformed / borderline variants of a valid encoding e (bytes)"""
    out = []
    n = len(e)
    body = e.rstrip(b'=')
    pads = n - len(body)
    bad = [b'-', b'_', b'*', b'\x00', b'\x80', b'\xff', b'=', b' ', b'\n', b'\t', b'.', b'@', b'[', b'`', b'{']
    if n:
        for _ in range(3):
            k = rnd.randrange(n)
            out.append(e[:k] + rnd.choice(bad) + e[k + 1:])          # one character replaced
            out.append(e[:k] + rnd.choice(bad) + e[k:])              # one character inserted
        out.append(e[:-1])
        out.append(e[:-2])
        out.append(e[1:])
        out.append(body)                                            # padding dropped
        out.append(body + b'=' * ((pads + 1) % 4))                   # wrong number of '='
        out.append(e + b'=')
        out.append(e + b'==')
        out.append(e + e)                                           # data after padding (when padded)
        out.append(e + b'A')
        out.append(b'=' + e)
        out.append(e + b'\n')
        out.append(e[:n // 2] + b' \r\n' + e[n // 2:])
        if pads:                                                    # non-zero padding bits
            k = len(body) - 1
            v = B64.index(body[k:k + 1])
            out.append(body[:k] + B64[(v | 1):(v | 1) + 1] + b'=' * pads)
            out.append(body[:k] + B64[(v | (3 if pads == 1 else 15)):][:1] + b'=' * pads)
    return out


def gen(ctx):
    rnd = random.Random(ctx.seed)
    lines = []
    seen = set()

    def add(l):
        if l not in seen:
            seen.add(l)
            lines.append(l)
    counts = {}
    for impl in ('n', 'o'):
        # (i) complete: every byte string of length <= 2 (quick tier: complete through squid's own source, where a code change
        # lands; the linked library gets all 1-byte strings and the 2-byte strings over 64 boundary bytes; thorough: both complete)
        full = ctx.thorough or impl == 'o'
        dom2 = range(256) if full else sorted(set(REP3) | set(range(0, 256, 5)))     # first bytes whose 256 two-byte strings are evaluated
        add('rt %s - -1 -1' % impl)
        add('rtall %s -' % impl)                                   # all 256 one-byte strings
        for a in dom2:                                             # two-byte strings a.b for every b
            add('rtall %s %02x' % (impl, a))
        # representative 3-byte set + random 3-byte strings
        for t in itertools.product(REP3, repeat=3):
            add('rt %s %s -1 -1' % (impl, hx(bytes(t))))
        for _ in range(4000 if ctx.thorough else 1000):
            s = bytes(rnd.randrange(256) for _ in range(3))
            add('rt %s %s %d %d' % (impl, hx(s), rnd.choice([-1, 0, 1, 2, 3]), rnd.choice([-1, 0, 1, 2, 3, 4])))
        # longer strings, streamed in two calls at every / random split points
        for n in range(4, 13):
            s = bytes(rnd.randrange(256) for _ in range(n))
            for es in range(0, n + 1):
                add('rt %s %s %d %d' % (impl, hx(s), es, rnd.randint(0, 4 * ((n + 2) // 3))))
        for cnt, lo, hi in ([(1500, 13, 100), (300, 101, 1200), (40, 1201, 8192)] if ctx.thorough else [(300, 13, 100), (60, 101, 1200), (8, 1201, 8192)]):
            for _ in range(cnt):
                n = rnd.randint(lo, hi)
                s = bytes(rnd.randrange(256) for _ in range(n)) if rnd.random() < 0.8 else bytes([rnd.choice([0, 255, 0xfb, 0xef, 0xbe])]) * n
                add('rt %s %s %d %d' % (impl, hx(s), rnd.choice([-1, rnd.randint(0, n)]), rnd.choice([-1, rnd.randint(0, 4 * ((n + 2) // 3))])))
        for n in (8190, 8191, 8192):
            add('rt %s %s -1 -1' % (impl, hx(bytes((i * 7 + n) % 256 for i in range(n)))))
        # (ii) decoder on arbitrary texts: complete small domain + mutated encodings
        for n in range(0, 6 if full else 5):
            for t in itertools.product(DEC_ALPHA, repeat=n):
                add('dec %s %s %d' % (impl, hx(bytes(t)), -1 if n < 2 else (sum(t) % (n + 1)) - (1 if sum(t) % 3 == 0 else 0)))
        for _ in range(2500 if ctx.thorough else 500):
            n = rnd.choice([0, 1, 2, 3, 4, 5, 6, 7, 8, 9, 10, 20, 30, 31, 32, 57, 100, 300])
            e = base64.b64encode(bytes(rnd.randrange(256) for _ in range(n)))
            for m in mutations(rnd, e):
                add('dec %s %s %d' % (impl, hx(m), rnd.choice([-1, -1, rnd.randint(0, len(m))])))
        for e in (b'=', b'==', b'===', b'====', b'A', b'A=', b'A==', b'A===', b'AA', b'AA=', b'AA==', b'AA===', b'AAA', b'AAA=', b'AAA==', b'AAAA=',
                  b'AAAAA===', b' ', b' \t\r\n\x0b\x0c', b'\x0b', b'A A A A', b'Q Q = =', b'QQ= =', b'QQ==\n', b'QQ=\n=', b'////', b'++++', b'----', b'____',
                  b'=' * 64, b' ' * 64, b'A' * 63, b'A' * 64 + b'=', b'QUJD' * 500 + b'QQ', b'QUJD' * 500 + b'QQ=='):
            for sp in (-1, 0, 1, len(e) // 2, len(e)):
                add('dec %s %s %d' % (impl, hx(e), sp))
        add('rt3 %s' % impl)
    # (iii) Basic credentials through the real Auth::Basic::Config::decode()
    users = [b'', b'u', b'user', b'User', b'USER', b'a b', b'\xfcser', b'user@example.com', b'DOMAIN\\user', b'u' * 64, b'x' * 300]
    pws = [None, b'', b'p', b'pass', b'pa:ss', b':', b'::', b'p:', b':p', b'Pass Word', b'\xe4\xf6', b'p' * 200, b' ']
    nb = 0
    for u in users:
        for p in pws:
            cred = u if p is None else u + b':' + p
            e = base64.b64encode(cred)
            for cs in (1, 0):
                for scheme in ((b'Basic ',) if (len(u) > 8 or (p and len(p) > 8)) else (b'Basic ', b'basic   ', b'Basic\t', b'BASIC \t ')):
                    add('basic %d %s' % (cs, hx(scheme + e)))
                    nb += 1
    for _ in range(3000 if ctx.thorough else 600):
        kind = rnd.random()
        n = rnd.choice([0, 1, 2, 3, 5, 8, 13, 21, 40, 100]) if kind < 0.95 else rnd.randint(1000, 6000)
        alpha = list(range(1, 256)) if rnd.random() < 0.5 else list(b'abcXYZ09:: \x00\r\n\x7f\xff')
        cred = bytes(rnd.choice(alpha) for _ in range(n))
        if rnd.random() < 0.7:   # the usual case: no control characters
            cred = bytes(c for c in cred if c not in (0, 10, 13))
        e = base64.b64encode(cred)
        add('basic %d %s' % (rnd.randint(0, 1), hx(b'Basic ' + e)))
        if rnd.random() < 0.4:
            for m in mutations(rnd, e)[:rnd.randint(1, 6)]:
                if b'\x00' not in m:       # the header value is a C string
                    add('basic %d %s' % (rnd.randint(0, 1), hx(b'Basic ' + m)))
    for tail in (b'', b' ', b'A===', b'QQ', b'QQ=', b'QQ===', b'dXNlcjpwYXNz=', b'dXNl cjpwYXNz', b'dXNlcjpwYXN*', b'dXNlcjpwYXNz dXNlcjpwYXNz', b'====', b'dQ==', b'dR==', b'dTo=', b'Og==', b'Ojo='):
        for cs in (1, 0):
            add('basic %d %s' % (cs, hx(b'Basic ' + tail)))
            add('basic %d %s' % (cs, hx(b'Basic' + tail)))
    return lines


def valid_b64(e):
    try:
        return base64.b64encode(base64.b64decode(e, validate=True)) == e
    except Exception:
        return False


def classify(o):
    if o['op'] == 'rtall':
        return {'op': 'rt', 'impl': o['impl'], 'kind': 'encoding-wrong-or-round-trip-broken'}
    if o['op'] == 'rt':
        return {'op': 'rt', 'impl': o['impl'], 'kind': 'encoding-wrong' if bytes(o['e']) != base64.b64encode(bytes(o['s'])) or not o.get('raweq', True) else 'round-trip-broken'}
    txt = bytes(o['e'] if o['op'] == 'dec' else o['hdr'])
    cred = txt if o['op'] == 'dec' else (txt.split(None, 1) + [b''])[1] if txt.split() else b''
    stripped = bytes(c for c in cred if c not in b' \t\r\n\x0b\x0c')
    accepted = (o['upd'] and o['fin']) if o['op'] == 'dec' else o['decoded']
    cls = {'op': o['op']}
    if o['op'] == 'dec':
        cls['impl'] = o['impl']
    if accepted and stripped.endswith(b'===') and all(c in B64 for c in stripped[:-3]) and len(stripped[:-3]) % 4 == 1:
        cls['kind'] = 'accepts-malformed'
        cls['shape'] = 'dangling-sextet-with-three-pads'      # e.g. "A===": 6 zero bits and three '=' are taken as the empty string
    elif accepted and o['op'] == 'basic' and valid_b64(stripped):
        cls['kind'] = 'wrong-credentials-split'
    elif accepted:
        cls['kind'] = 'accepts-malformed-or-wrong-value'
    else:
        cls['kind'] = 'rejects-canonical'
    return cls


def run(ctx):
    vlib.tlc_must_pass(ctx, os.path.join(SPEC, 'MC_Base64.tla'), os.path.join(SPEC, 'MC_Base64.cfg'), workers=8, label='mc-base64')
    exe = ucheck.build_like_test(ctx, 'base64', 'testACLMaxUserIP', ['u_base64.cc', 'u_base64_own.cc', 'u_base64_stubs.cc', 'uhelp.cc'],
                                 drop=['tests/stub_libauth.cc', 'tests/stub_libmem.cc'], replace={'tests/stub_cbdata.cc': 'cbdata.cc'},
                                 add=AUTH_SRC, add_libs=['src/mem/libmem.la', 'lib/libmiscencoding.la', 'lib/libmiscutil.la'])
    lines = gen(ctx)
    ctx.log('spec laws model-checked; driver built; %d cases' % len(lines))
    outs, aborts = drive(exe, lines)
    for idx, err in aborts:
        ctx.violation('driver aborted (ASan/assert) while evaluating: %s' % lines[idx][:200],
                      {'class': {'kind': 'abort', 'op': lines[idx].split()[0]}, 'line': lines[idx], 'stderr': err})
    recs, src = [], []
    for k, o in enumerate(outs):
        if o is None:
            continue
        if o['op'] == 'rt3':
            ctx.add('driver_checked', o['count'])
            ctx.cov.setdefault('driver_checked_by_impl', {})[o['impl']] = o['count']
            if o['bad'] or o['ub']:
                ctx.violation('Decode(Encode(s)) # s for %d of %d byte strings of length <= 3 (driver-evaluated law, %s implementation), first: %r'
                              % (o['bad'], o['count'], o['impl'], bytes(o['first_bad'])),
                              {'class': {'op': 'rt3', 'impl': o['impl'], 'kind': 'round-trip-broken'}, 'case': o})
            continue
        recs.append(o)
        src.append(k)
    prej, irej = conf_batched(ctx, os.path.join(SPEC, 'Conf_Base64.tla'), os.path.join(SPEC, 'Conf_Base64.cfg'), recs, 'base64')
    ctx.log('TLC evaluated %d records (%d cases): P-rejected %d, I-rejected %d, aborted %d' % (
        len(recs), len(recs) + 255 * sum(1 for o in recs if o['op'] == 'rtall'), len(prej), len(irej), len(aborts)))
    reported = set()
    for i in prej:
        o = recs[i]
        cls = classify(o)
        key = json.dumps(cls, sort_keys=True)
        if key in reported or len(ctx.violations) >= 5:
            continue
        reported.add(key)
        if o['op'] == 'rtall':
            badb = [b for b in range(256) if bytes(o['es'][b]) != base64.b64encode(bytes(o['pre'] + [b])) or not o['acc'][b] or o['outs'][b] != o['pre'] + [b]]
            b = badb[0] if badb else 0
            what = 'base64 (%s) of %r gave %r, decoded back as ok=%s %r (%d of the 256 strings with this prefix are wrong; one-shot encoder agrees: %s; sizes within the promise: %s)' % (
                o['impl'], bytes(o['pre'] + [b]), bytes(o['es'][b]), o['acc'][b], bytes(o['outs'][b]), len(badb), o['raweq'], o['promise'])
            o = {'op': 'rtall', 'impl': o['impl'], 'pre': o['pre'], 'first_bad_byte': b, 'e': o['es'][b], 'out': o['outs'][b], 'acc': o['acc'][b], 'raweq': o['raweq'], 'promise': o['promise']}
        elif o['op'] == 'rt':
            what = 'base64 (%s) of %r gave %r%s, decoded back as ok=%s %r' % (o['impl'], bytes(o['s'])[:40], bytes(o['e'])[:60],
                                                                             '' if o.get('raweq', True) else ' (base64_encode_raw gave another text)', o['upd'] and o['fin'], bytes(o['out'])[:40])
        elif o['op'] == 'dec':
            what = 'base64 decode (%s) of %r: update=%s final=%s out=%r is not what Base64.tla allows (%s)' % (
                o['impl'], bytes(o['e'])[:60], o['upd'], o['fin'], bytes(o['out'])[:40], cls['kind'])
        else:
            what = 'Basic credentials %r decoded=%s user=%r haspw=%s pw=%r is not what Base64.tla allows (%s)' % (
                bytes(o['hdr'])[:80], o['decoded'], bytes(o['user'])[:40], o['haspw'], bytes(o['pw'])[:40], cls['kind'])
        ctx.violation(what, {'class': cls, 'case': {k: (v if not isinstance(v, list) else v[:300]) for k, v in o.items()}, 'line': lines[src[i]][:700]})
    for i in irej:
        if i not in prej and len(ctx.drift) < 5:
            ctx.drift.append('I-layer (decoding automaton / lower-casing) mismatch on %s' % lines[src[i]][:160])
    by = {}
    nall = sum(1 for o in recs if o['op'] == 'rtall')
    for k in ('impl_traces', 'tlc_checked_cases'):
        ctx.cov[k] += 255 * nall                 # an rtall record holds 256 evaluated strings
    for o in recs:
        key = ('rt' if o['op'] == 'rtall' else o['op']) + ('-' + o['impl'] if 'impl' in o else '')
        by[key] = by.get(key, 0) + (256 if o['op'] == 'rtall' else 1)
    ctx.cov['by_operation'] = by
    ctx.cov['complete_le2_bytes_sets'] = {'own': 65793, 'used': 65793 if ctx.thorough else 0}
    ctx.cov['records_holding_256_strings'] = sum(1 for o in recs if o['op'] == 'rtall')
    ctx.cov['impl_distinct'] = len(recs) + 255 * nall - sum(1 for o in recs if o['op'] == 'rt' and len(o['s']) == 0)
    ctx.cov['rejected_by_impl'] = sum(1 for o in recs if o['op'] == 'dec' and not (o['upd'] and o['fin'])) + sum(1 for o in recs if o['op'] == 'basic' and not o['decoded'])
    ctx.cov['longest_input'] = max([len(o.get('s', o.get('e', o.get('hdr', [])))) for o in recs] or [0])
    ctx.cov['aborted_cases'] = len(aborts)
    for o in [l[min(k, len(l) - 1)] for l, k in (([r for r in recs if r['op'] == 'rt'], 300), ([r for r in recs if r['op'] == 'dec'], 1234), ([r for r in recs if r['op'] == 'basic'], 77)) if l]:
        ctx.sample({k: (repr(bytes(v)[:60]) if isinstance(v, list) else v) for k, v in o.items()})
    ctx.cov['rule'] = ('tlc_checked_cases: for each of the two implementations ("used" = the base64_* functions the build links, here libnettle; "own" = '
                       'lib/base64.cc compiled from the working tree) every byte string of length <= 2 (complete), all 3-byte strings over 16 boundary bytes, '
                       'random 3-byte strings, strings of 4..8192 bytes encoded and decoded in two calls at every/random split point (encode -> decode, each '
                       'buffer of exactly the promised size), every text up to 5 characters over {A Q / = SP * z} and mutated valid encodings (bad character, '
                       'missing/extra padding, truncation, data after padding, white space, non-zero padding bits) through the decoder; Authorization header '
                       'values built from user/password tables (0-3 colons, empty parts, 8-bit, long) and random credentials, plain and with mutated base64, '
                       'through Auth::Basic::Config::decode. driver_checked: Decode(Encode(s)) = s on all 2^24+2^16+2^8+1 strings of length <= 3, evaluated '
                       'by the driver per implementation, not by TLC. Cases are de-duplicated; non-trivial = non-empty input.')
    ctx.assumptions += ['the squid build uses libnettle for base64 (HAVE_NETTLE_BASE64_H); lib/base64.cc is exercised as well through a private translation unit; the I-layer has one padding rule per implementation and Basic credentials are modelled with the linked decoder',
                        'credentials containing NUL, CR or LF are outside the split rule (RFC 7617 forbids control characters); the real decode() is still run on them under ASan',
                        'an empty password may be reported as absent (squid refuses empty passwords by policy)',
                        'writes beyond the promised output size are observed through ASan on exactly-sized heap buffers: on explored inputs only',
                        'driver linked like tests/testACLMaxUserIP with the real auth/basic/*, auth/User.cc, auth/UserRequest.cc, cbdata.cc, mem/libmem.la; helper client, other schemes and header printing are stubbed (harness/u_base64_stubs.cc)']
