"""C10 - cache hits reproduce one complete stored response (DESIGN 6.7)."""
import asyncio, json, os, random
import vlib, squidctl, peers, escen
from vlib import VERIF

SPEC = os.path.join(VERIF, 'spec', 'proxy')
SIZES = [0, 1, 100, 4095, 4096, 4097, 16383, 16384, 16385, 32767, 32768, 32769, 65537, 200001]
_ver = [0]


def store_conf(kind, run, tree):
    small_mem = 'cache_mem 256 KB\nmaximum_object_size_in_memory 8 KB\nmaximum_object_size 4 MB\n'
    if kind == 'mem':
        return 'cache_mem 6 MB\nmaximum_object_size_in_memory 1 MB\n'
    if kind == 'ufs':
        return small_mem + 'cache_dir ufs %s/ufs 6 4 16\n' % run
    if kind == 'aufs':
        return small_mem + 'cache_dir aufs %s/aufs 6 4 16\n' % run
    if kind == 'diskd':
        return small_mem + 'diskd_program %s/src/DiskIO/DiskDaemon/diskd\ncache_dir diskd %s/diskd 6 4 16\n' % (tree, run)
    if kind == 'rock':
        return small_mem + 'cache_dir rock %s/rock 6 max-size=1000000\n' % run
    raise ValueError(kind)


class KeyRun:
    def __init__(self, n, ops, rnd, port_s, oport):
        self.n, self.ops, self.rnd, self.port_s, self.oport = n, ops, rnd, port_s, oport
        self.key = 'k%d' % n
        self.ev = []
        self.size = rnd.choice(SIZES)
        self.status = rnd.choice([200, 200, 200, 404])
        self.rid = 0


async def run_config(ctx, tree, kind, seqs, rnd, results):
    sq = squidctl.Squid(ctx, tree, name='c10-' + kind, clock=False, cache_mem='6 MB', conf_extra='')
    sq.conf_text = sq.conf_text.replace('cache_mem 6 MB\n', '') + store_conf(kind, sq.run, tree)
    # http_access must stay last
    lines = [l for l in sq.conf_text.split('\n') if l and not l.startswith('http_access')] + ['http_access allow all']
    sq.conf_text = '\n'.join(lines) + '\n'
    open(sq.conf, 'w').write(sq.conf_text)
    if kind != 'mem':
        sq.init_dirs()
    sq.start(wait=40)
    rec = peers.Rec()
    keys = {}

    async def responder(q, oc):
        kn = q.target.split('/')[-1]
        kr = keys.get(kn)
        if kr is None:     # pressure traffic
            n = 120000
            await oc.send(peers.response_head(200, 'OK', [('Content-Length', str(n)), ('Cache-Control', 'max-age=3600'), ('Date', peers.http_date())]) + b'j' * n)
            return False
        inm, grow = q.head.get('If-None-Match'), q.head.get('X-Verif-Reval')
        if inm and grow is not None and inm == getattr(kr, 'etag', None):
            # the stored version is still current: 304 with a header block that is `grow` bytes larger than before
            kr.n304 = getattr(kr, 'n304', 0) + 1
            kr.ev.append({'e': 'O304', 'grow': int(grow)})       # bookkeeping for witness classification only (not a spec event)
            await oc.send(peers.response_head(304, 'Not Modified', [('ETag', kr.etag), ('Cache-Control', 'max-age=3600'), ('Date', peers.http_date()),
                                                                      ('X-Verif-Pad', 'p' * int(grow)), ('X-Verif-Origin', '1')]))
            return False
        _ver[0] += 1
        v = _ver[0]
        kr.etag = '"v%d"' % v
        body = peers.body_bytes(v, kr.size)
        abort = q.head.get('X-Verif-Abort') == '1' and kr.size > 1
        slow = q.head.get('X-Verif-Slow') == '1'
        kr.ev.append({'e': 'OResp', 'v': v, 'key': kr.key, 'status': kr.status, 'len': kr.size, 'whole': not abort})
        chunked = getattr(kr, 'framing', 'length') == 'chunked'
        head = peers.response_head(kr.status, 'X', [('Transfer-Encoding', 'chunked') if chunked else ('Content-Length', str(kr.size)), ('Cache-Control', 'max-age=3600'), ('Date', peers.http_date()),
                                                    ('X-Verif-Version', str(v)), ('X-Verif-Canary', str(v)), ('X-Verif-Origin', '1'), ('ETag', kr.etag)])
        if chunked:
            # the same bytes in chunks; a failed fetch ends by closing, or by framing that turns malformed after half of the body
            def enc(data):
                out, pos = b'', 0
                while pos < len(data):
                    k = min(len(data) - pos, kr.rnd.choice([1, 7, 500, 4096, 30000]))
                    out += b'%x\r\n' % k + data[pos:pos + k] + b'\r\n'
                    pos += k
                return out
            if abort:
                how = kr.rnd.choice(['close', 'garbage', 'nonhex', 'nolast', 'nocrlf'])
                kr.ev[-1]['abort_how'] = how
                tail = {'close': b'', 'garbage': b'\x00\xff garbage \r\n', 'nonhex': b'xyz\r\nabc\r\n', 'nolast': b'', 'nocrlf': b'5\r\nabcdeXX0\r\n\r\n'}[how]
                await oc.send(head + enc(body[:kr.size // 2 if how != 'nolast' else kr.size]) + tail)
                await asyncio.sleep(0.03)
                oc.close()
                return True
            await oc.send(head + enc(body) + b'0\r\n\r\n')
            return False
        if abort:
            await oc.send(head + body[:kr.size // 2])
            await asyncio.sleep(0.03)
            oc.close()
            return True
        if slow and kr.size > 4:
            cuts = sorted(set([kr.size // 4, kr.size // 2, 3 * kr.size // 4]))
            await oc.send(head)
            await oc.send_segments(body, cuts, delay=0.015)
        else:
            await oc.send(head + body)
        return False

    origin = await peers.Origin(rec, responder).start()

    async def get(kr, extra=()):
        kr.rid += 1
        url = 'http://127.0.0.1:%d/%s/%s' % (origin.port, kind, kr.key)
        r = await peers.simple_get(rec, sq.port, url, headers=list(extra), vid='%s.%d' % (kr.key, kr.rid), timeout=15.0)
        hv = canary = -1
        if r.head is not None:
            try:
                hv = int(r.head.get('X-Verif-Version', '-1'))
                canary = int(r.head.get('X-Verif-Canary', '-1'))
            except ValueError:
                hv = canary = -2
        bv, intact = -1, True
        if r.body:
            g = peers.guess_version(r.body)
            bv = g if g is not None else (hv if len(r.body) < 16 else -2)
            intact, _ = peers.project_body(r.body, hv if hv >= 0 else (g or 0))
            if intact:
                bv = hv
        kr.ev.append({'e': 'CResp', 'key': kr.key, 'status': r.status or 0, 'hv': hv, 'bv': bv, 'canary': canary, 'blen': len(r.body),
                      'intact': bool(intact), 'complete': bool(r.complete), 'cs': (r.head.get('Cache-Status') or '') if r.head is not None else ''})
        kr.ev[-1]['fromCache'] = (';hit' in kr.ev[-1]['cs'] or 'fwd-status=304' in kr.ev[-1]['cs']) and not getattr(r, 'timed_out', False)

    async def run_key(kr):
        for op in kr.ops:
            if op == 'get':
                await get(kr)
            elif op == 'getslow':
                t1 = asyncio.ensure_future(get(kr, [('X-Verif-Slow', '1')]))
                await asyncio.sleep(0.02)
                await get(kr)
                await t1
            elif op == 'reload':
                await get(kr, [('Cache-Control', 'no-cache')])
            elif op == 'reval':
                await get(kr, [('Cache-Control', 'max-age=0'), ('X-Verif-Reval', str(kr.rnd.choice([0, 300, 2000, 4500, 6000, 20000])))])
                await get(kr)
            elif op == 'pair':
                await asyncio.gather(get(kr), get(kr))
            elif op == 'abortfetch':
                await get(kr, [('X-Verif-Abort', '1')])
            elif op == 'pressure':
                for j in range(3):
                    url = 'http://127.0.0.1:%d/%s/junk%d-%d' % (origin.port, kind, kr.n, kr.rnd.randint(0, 10 ** 6))
                    await peers.simple_get(rec, sq.port, url, vid='j', timeout=15.0)
        results.append((kind, kr))

    try:
        krs = []
        for i, ops in enumerate(seqs):
            kr = KeyRun(i, ops, random.Random(rnd.random()), sq.port, origin.port)
            kr.framing = 'chunked' if i % 3 == 2 else 'length'
            keys[kr.key] = kr
            krs.append(kr)
        await escen.gather_limited([run_key(k) for k in krs], limit=8)
        if not sq.alive():
            ctx.violation('squid (%s) exited during the run' % kind, {'kind': 'exit', 'log': sq.tail_log()})
    finally:
        await origin.stop()
        sq.stop()


def run(ctx):
    tree = squidctl.ensure_binary(ctx)
    scens, res = escen.tlc_scenarios(ctx, os.path.join(SPEC, 'HitsScen.tla'), os.path.join(SPEC, 'MC_HitsScen.cfg'), key=None)
    ctx.log('TLC: %d states, %d operation sequences' % (res.distinct, len(scens)))
    rnd = random.Random(ctx.seed)
    seqs = sorted(json.dumps(s['ops']) for s in scens)
    seqs = [json.loads(s) for s in seqs]
    kinds = ['mem', 'ufs', 'rock'] + (['aufs', 'diskd'] if ctx.thorough else [])
    per = len(seqs) if ctx.thorough else 120
    results = []
    skipped = []
    for kind in kinds:
        rnd.shuffle(seqs)
        try:
            asyncio.run(run_config(ctx, tree, kind, seqs[:per], rnd, results))
        except vlib.MachineryError as e:
            if kind == 'diskd':
                skipped.append('diskd: ' + str(e)[:200])
                continue
            raise
    hist = [{'ev': [{k: v for k, v in e.items() if k != 'cs'} for e in kr.ev if e['e'] != 'O304']} for _, kr in results]
    rej = escen.validate(ctx, os.path.join(SPEC, 'Trace_Hits.tla'), os.path.join(SPEC, 'Trace_Hits.cfg'), hist, 'hits')
    ctx.log('realised %d key histories on %s; P-rejected %d' % (len(results), kinds, len(rej)))
    for i in rej[:5]:
        kind, kr = results[i]
        # witness class: what is wrong with the first bad answer, and did a 304 header update of this entry precede it
        bad = [j for j, e in enumerate(kr.ev) if e['e'] == 'CResp' and e['hv'] >= 0 and (not e['intact'] or (e.get('fromCache') and not e['complete']))]
        after304 = bool(bad) and any(e['e'] == 'O304' for e in kr.ev[max(0, bad[0] - 2):bad[0]])
        shape = 'incomplete-or-garbled-answer-from-cache' if bad and all(kr.ev[j].get('fromCache') for j in bad) else 'other'
        cls = {'store': kind, 'shape': shape, 'right_after_304_header_update': after304}
        ctx.violation('a served response is not one complete origin version (Hits.tla), store=%s ops=%s size=%d: %s' % (
            kind, kr.ops, kr.size, json.dumps([kr.ev[j] for j in bad][:2])),
                      {'kind': 'hits', 'class': cls, 'store': kind, 'ops': kr.ops, 'size': kr.size, 'events': kr.ev})
    hits = sum(1 for _, kr in results for e in kr.ev if e['e'] == 'CResp' and ';hit' in e.get('cs', ''))
    ctx.cov['impl_distinct'] = len({json.dumps([k, kr.ops, kr.size, kr.status, getattr(kr, 'framing', 'length')]) for k, kr in results})
    hows = {}
    for _, kr in results:
        for e in kr.ev:
            if e.get('e') == 'OResp' and not e.get('whole'):
                hows[e.get('abort_how', 'length-short')] = hows.get(e.get('abort_how', 'length-short'), 0) + 1
    ctx.cov['failed_fetches_by_kind'] = hows
    ctx.cov['responses_checked'] = sum(1 for _, kr in results for e in kr.ev if e['e'] == 'CResp')
    ctx.cov['cache_hits_observed'] = hits
    ctx.cov['hits_by_store'] = {k: sum(1 for kk, kr in results if kk == k for e in kr.ev if e['e'] == 'CResp' and ';hit' in e.get('cs', '')) for k in kinds}
    ctx.cov['stores'] = kinds
    ctx.cov['revalidations_answered_304'] = sum(getattr(kr, 'n304', 0) for _, kr in results)
    if skipped:
        ctx.notes += skipped
    for kind, kr in results[:2]:
        ctx.sample({'store': kind, 'ops': kr.ops, 'size': kr.size, 'events': kr.ev[:8]})
    ctx.cov['rule'] = ('operation sequences = all words of length 4 over {get, getslow(+overlapping reader), reload, pair, pressure, abortfetch, reval(304 with a larger header block, then get)} x origin framing {Content-Length, chunked; a failed chunked fetch ends by close, garbage / non-hex chunk size, missing last-chunk, missing CRLF after chunk data} explored by '
                       'TLC on HitsScen.tla; each realised on its own URL (8 URLs in flight concurrently) per store type with object sizes on the page/slot '
                       'boundary lattice; one history per URL validated by TLC against Hits.tla. Non-trivial = distinct (store, sequence, size, status).')
    ctx.assumptions += ['body bytes projected to (version, length, intact) by the driver', 'SMP shared memory cache is covered by C19; diskd only in the thorough tier']
