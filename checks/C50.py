"""C50 - character sets and tokenizers follow set semantics (DESIGN 6.2 C50).  Technique T3 (function conformance):
the real CharacterSet / Parser::Tokenizer (compiled from the working tree, ASan+UBSan) are run on (i) the complete set of
strings over a small alphabet x every subset (and its complement) x every operation x a limit lattice, (ii) exhaustive
operation pairs on one tokenizer, (iii) seeded random 256-bit sets, 0..300 byte inputs and operation sequences; TLC evaluates
CharSetTok.tla (via Conf_CharSetTok.tla) on every recorded result.  The laws of the reference functions themselves are
model-checked first (MC_CharSetTok)."""
import itertools
import json
import os
import random

import vlib
import ucheck
from vlib import VERIF

SPEC = os.path.join(VERIF, 'spec', 'adt')
NPOS = 0xffffffff
SET_OPS = ('prefix', 'suffix', 'skipAll', 'skipOne', 'skipAllTrailing', 'skipOneTrailing', 'token')
STR_OPS = ('skipStr', 'skipChar', 'skipSuffix')


def hx(b):
    b = bytes(b)
    return b.hex() if b else '-'


def lim_txt(l):
    return 'npos' if l == NPOS else str(l)


def op_txt(op, members=b'', limit=NPOS, s=b''):
    return (op, bytes(members), limit, bytes(s))


def tok_line(mode, buf, ops):
    """tok <mode> <hexbuf> <nsets> <hexset>* <nops> {<op> <set index> <limit> <hexstr>}*"""
    table = []
    words = []
    for op, members, limit, s in ops:
        if members not in table:
            table.append(members)
        words.append('%s %d %s %s' % (op, table.index(members), lim_txt(limit), hx(s)))
    return 'tok %d %s %d %s %d %s' % (mode, hx(buf), len(table), ' '.join(hx(m) for m in table), len(ops), ' '.join(words))


def strings(alpha, maxlen):
    for n in range(maxlen + 1):
        for t in itertools.product(alpha, repeat=n):
            yield bytes(t)


def subsets(alpha):
    for r in range(len(alpha) + 1):
        for c in itertools.combinations(alpha, r):
            yield bytes(c)


def compl(members):
    return bytes(sorted(set(range(256)) - set(members)))


def rand_set(rnd):
    kind = rnd.random()
    if kind < 0.25:
        base = rnd.choice([b' \t', b'0123456789', b'\r\n', b',;', bytes(range(0x41, 0x5b)) + bytes(range(0x61, 0x7b)), b'\x00', b'\xff',
                           bytes(range(0x80, 0x100)), bytes(range(0, 0x20)) + b'\x7f'])
        s = set(base)
    else:
        dens = rnd.choice([0.004, 0.02, 0.1, 0.5, 0.9, 0.99])
        s = {c for c in range(256) if rnd.random() < dens}
    if rnd.random() < 0.2:
        s = set(range(256)) - s
    if rnd.random() < 0.3:
        s ^= {rnd.choice([0, 127, 128, 255])}
    return bytes(sorted(s))


def rand_input(rnd, members, maxlen=300):
    """alternating runs of members / non-members so that runs, limits and buffer ends interact"""
    inside = list(members) or [0]
    outside = list(compl(members)) or [0]
    n = rnd.choice([0, 1, 2, 3, 5, 8, 16, 40, 100, 200, maxlen, rnd.randint(0, maxlen)])
    out = bytearray()
    cur = rnd.random() < 0.5
    while len(out) < n:
        run = rnd.choice([1, 1, 2, 3, 7, 20, 64, n])
        pool = inside if cur else outside
        few = [rnd.choice(pool) for _ in range(rnd.randint(1, 3))]
        out += bytes(rnd.choice(few) for _ in range(run))
        cur = not cur
    return bytes(out[:n])


def gen(ctx):
    rnd = random.Random(ctx.seed)
    lines, kinds = [], []
    seen = set()

    def add(kind, l):
        if l not in seen:
            seen.add(l)
            lines.append(l)
            kinds.append(kind)

    # ---- character sets: every pair of subsets of a 4-value universe spanning the signedness boundaries, both constructors
    uni = [0, 65, 128, 255]
    for a in subsets(uni):
        for b in subsets(uni):
            add('set-exhaustive', 'set add %s %s' % (hx(a), hx(b)))
            add('set-exhaustive', 'set str %s %s' % (hx(a), hx(b)))
    edge = [0, 1, 127, 128, 254, 255]
    for lo in edge:
        for hi in edge:
            add('ranges-exhaustive', 'ranges 1 %d %d' % (lo, hi))
    for _ in range(2000 if ctx.thorough else 300):
        a, b = rand_set(rnd), rand_set(rnd)
        if rnd.random() < 0.2:
            b = bytes(sorted(set(a) ^ {rnd.randrange(256)}))
        add('set-random', 'set %s %s %s' % (rnd.choice(['add', 'str']), hx(a), hx(b)))
        n = rnd.randint(1, 5)
        rs = []
        for _k in range(n):
            lo = rnd.choice(edge + [rnd.randrange(256)])
            hi = rnd.choice([lo, min(255, lo + rnd.randint(0, 40)), 255, rnd.randrange(256)])
            if lo > hi and rnd.random() < 0.8:
                lo, hi = hi, lo
            rs += [lo, hi]
        add('ranges-random', 'ranges %d %s' % (n, ' '.join(map(str, rs))))

    # ---- tokenizer (i): complete set of strings x subsets (and complements) x operations x limits, each on a fresh tokenizer
    alpha = [0, 97, 128, 255] if ctx.thorough else [0, 97, 255]
    maxlen = 5 if ctx.thorough else 4
    for s in strings(alpha, maxlen):
        limits = sorted({0, 1, 2, 3, len(s) - 1 if s else 0, len(s), len(s) + 1, 1 << 31, NPOS - 1, NPOS})
        for sub in subsets(alpha):
            for members in (sub, compl(sub)):
                ops = []
                for op in SET_OPS:
                    for l in (limits if op in ('prefix', 'suffix') else [NPOS]):
                        ops.append(op_txt(op, members, l))
                add('tok-exhaustive', tok_line(2 | (len(lines) & 1), s, ops))
    # exact strings: every (buffer, needle) pair
    salpha = [0, 97, 255]
    needles = list(strings(salpha, 3))
    for s in strings(salpha, 4):
        ops = []
        for t in needles:
            ops.append(op_txt('skipStr', s=t))
            ops.append(op_txt('skipSuffix', s=t))
            if len(t) == 1:
                ops.append(op_txt('skipChar', s=t))
        add('tok-strings', tok_line(2 | (len(lines) & 1), s, ops))
    # ---- tokenizer (ii): every ordered pair of operations on one tokenizer (state carried over: remaining buffer, parsedSize)
    palpha = [97, 255]
    single = []
    for members in (b'\x61', b'\xff', b'\x61\xff'):
        for op in SET_OPS:
            for l in ([1, 2, NPOS] if op in ('prefix', 'suffix') else [NPOS]):
                single.append(op_txt(op, members, l))
    single += [op_txt('skipStr', s=b'\x61'), op_txt('skipSuffix', s=b'\xff\x61'), op_txt('skipChar', s=b'\xff')]
    pairs = list(itertools.product(single, repeat=2))
    bufs = list(strings(palpha, 4))
    if not ctx.thorough:
        pairs = rnd.sample(pairs, 150)
    for s in bufs:
        for a, b in pairs:
            add('tok-pairs', tok_line(len(lines) & 1, s, [a, b]))
    # ---- tokenizer (iii): random sets over all 256 byte values, 0..300 byte inputs, sequences, limits incl. 0 and npos
    for _ in range(12000 if ctx.thorough else 2000):
        members = rand_set(rnd)
        s = rand_input(rnd, members)
        ops = []
        for _k in range(rnd.choice([1, 1, 2, 3, 5])):
            r = rnd.random()
            if r < 0.8:
                op = rnd.choice(SET_OPS)
                m = members if rnd.random() < 0.7 else (compl(members) if rnd.random() < 0.5 else rand_set(rnd))
                l = rnd.choice([NPOS, NPOS, 0, 1, 2, len(s), len(s) + 1, max(0, len(s) - 1), rnd.randint(0, len(s) + 2), 1 << 31, NPOS - 1])
                ops.append(op_txt(op, m, l))
            else:
                op = rnd.choice(STR_OPS)
                n = 1 if op == 'skipChar' else rnd.choice([0, 1, 2, 5, len(s), len(s) + 1])
                if op == 'skipSuffix':
                    t = s[len(s) - min(n, len(s)):] if n <= len(s) else b'x' + s
                else:
                    t = s[:n] if n <= len(s) else s + b'x'
                if op == 'skipChar' and not t:
                    t = b'\x00'
                if t and rnd.random() < 0.3:   # spoil one byte
                    k = rnd.randrange(len(t))
                    t = t[:k] + bytes([t[k] ^ rnd.choice([1, 0x20, 0x80])]) + t[k + 1:]
                ops.append(op_txt(op, s=t))
        add('tok-random', tok_line(rnd.randint(0, 1), s, ops))
    return lines, kinds


def run_lines(ctx, exe, lines):
    """Runs the driver over all lines; a driver that dies (ASan report, abort) is restarted after the case that killed it.
    Returns (outs aligned with lines: dict or None, list of (index, stderr tail))."""
    outs = [None] * len(lines)
    deaths = []
    start = 0
    while start < len(lines):
        r = vlib.run_driver(exe, '\n'.join(lines[start:]) + '\n', timeout=900)
        got = [l for l in r.stdout.splitlines() if l.startswith('{')]
        for k, l in enumerate(got):
            try:
                outs[start + k] = json.loads(l)
            except ValueError:
                raise vlib.MachineryError('bad driver line: ' + l[:300])
        if start + len(got) >= len(lines):
            break
        if r.returncode == 0:
            raise vlib.MachineryError('driver skipped input line %r' % lines[start + len(got)])
        keyl = [l.strip() for l in r.stderr.splitlines() if 'ERROR:' in l or 'SUMMARY:' in l or 'assertion failed' in l.lower()]
        deaths.append((start + len(got), ' | '.join(keyl[:3])[:600] or r.stderr[-600:]))
        if len(deaths) > 5:
            break
        start += len(got) + 1
    return outs, deaths


def explode(case):
    """a tokenizer case with n operations -> n single-operation cases (used to pinpoint the rejected step)"""
    res = []
    for n, (o, out) in enumerate(zip(case['ops'], case['outs'])):
        first = n == 0 or case['fresh']
        prev = case['buf'] if first else case['outs'][n - 1]['rem']
        base = 0 if first else case['outs'][n - 1]['parsed']
        o2 = dict(out)
        o2['parsed'] = out['parsed'] - base
        o1 = dict(o)
        o1['si'] = 1
        res.append({'fn': 'tok', 'mode': case['mode'], 'fresh': False, 'buf': prev, 'tok0': case['tok0'], 'sets': [case['sets'][o['si'] - 1]],
                    'ops': [o1], 'outs': [o2], 'ub': case['ub']})
    return res


def show(c):
    def b(x):
        return bytes(x).decode('latin-1')
    if c['fn'] == 'tok':
        o, r = c['ops'][0], c['outs'][0]
        o = dict(o, set=c['sets'][o['si'] - 1])
        return 'Tokenizer(%r).%s(set=%r, limit=%s, str=%r) -> ret=%s token=%r remaining=%r parsed=%s' % (
            b(c['buf']), o['op'], b(o['set']) if len(o['set']) <= 40 else '<%d members>' % len(o['set']), o['limit'], b(o['str']),
            r['ret'], b(r['tok']), b(r['rem']), r['parsed'])
    if c['fn'] == 'set':
        return 'CharacterSet A=%r B=%r: union=%r diff=%r complement has %d members' % (b(c['a']), b(c['b']), b(c['union']), b(c['diff']), len(c['compl']))
    return 'CharacterSet ranges %s -> %d members' % (c['rs'], len(c['members']))


def run(ctx):
    conf, cfg = os.path.join(SPEC, 'Conf_CharSetTok.tla'), os.path.join(SPEC, 'Conf_CharSetTok.cfg')
    mc = vlib.tlc_must_pass(ctx, os.path.join(SPEC, 'MC_CharSetTok.tla'), os.path.join(SPEC, 'MC_CharSetTok.cfg'), workers=4, timeout=600)
    ctx.cov['spec_law_states'] = mc.distinct
    ctx.log('reference laws hold on %d states' % mc.distinct)
    exe = ucheck.build_like_test(ctx, 'charset', 'testTokenizer', ['u_charset.cc', 'uhelp.cc'])
    lines, kinds = gen(ctx)
    ctx.log('driver built; %d cases' % len(lines))
    outs, deaths = run_lines(ctx, exe, lines)
    for idx, err in deaths[:5]:
        ctx.violation('driver died (sanitizer report / abort) while evaluating: %s' % lines[idx][:300],
                      {'class': {'fn': lines[idx].split()[0], 'kind': 'abort'}, 'line': lines[idx], 'stderr': err})
    live = [i for i, o in enumerate(outs) if o is not None]
    cases = [outs[i] for i in live]
    prej, irej = ucheck.conformance(ctx, conf, cfg, cases, 'charsettok', chunk=6000)
    ctx.log('TLC evaluated %d cases: P-rejected %d, I-rejected %d' % (len(cases), len(prej), len(irej)))
    # pinpoint rejected tokenizer steps with a second TLC pass over single-operation cases
    for i in prej:
        if len(ctx.violations) >= 5:
            break
        c = cases[i]
        bad = [c]
        if c['fn'] == 'tok' and len(c['ops']) > 1:
            singles = explode(c)
            pj, _ = ucheck.conformance(ctx, conf, cfg, singles, 'pinpoint', chunk=6000)
            bad = [singles[j] for j in pj[:1]] or [c]
        w = bad[0]
        cls = {'fn': w['fn']}
        if w['fn'] == 'tok':
            cls['op'] = w['ops'][0]['op'] if len(w['ops']) == 1 else 'sequence'
            if len(w['ops']) == 1:
                cls['empty_needle'] = w['ops'][0]['op'] in STR_OPS and not w['ops'][0]['str']
        ctx.violation('result is not what CharSetTok.tla allows: ' + show(w), {'class': cls, 'case': w, 'line': lines[live[i]]})
    for i in irej:
        if i not in prej and len(ctx.drift) < 5:
            ctx.drift.append('I-layer mismatch on %s' % lines[live[i]][:200])
    steps = sum(len(c['ops']) if c['fn'] == 'tok' else 1 for c in cases)
    nontrivial = sum(1 for c in cases if (c['fn'] == 'tok' and any(o['parsed'] > 0 for o in c['outs'])) or (c['fn'] != 'tok' and (c.get('a') or c.get('b') or c.get('rs'))))
    ctx.cov['impl_steps'] = steps
    ctx.cov['impl_distinct'] = nontrivial
    ctx.cov['by_kind'] = {k: kinds.count(k) for k in sorted(set(kinds))}
    byop = {}
    for c in cases:
        if c['fn'] == 'tok':
            for o, r in zip(c['ops'], c['outs']):
                e = byop.setdefault(o['op'], [0, 0])
                e[0] += 1
                e[1] += 1 if r['ret'] else 0
    ctx.cov['tokenizer_ops'] = {k: {'calls': v[0], 'succeeded': v[1]} for k, v in sorted(byop.items())}
    ctx.cov['ub_reports'] = sum(1 for c in cases if c.get('ub'))
    ctx.cov['driver_deaths'] = len(deaths)
    ctx.cov['exhaustive'] = False
    for k in ('set-exhaustive', 'ranges-random', 'tok-exhaustive', 'tok-pairs', 'tok-random'):
        idx = [i for i in live if kinds[i] == k]
        if idx:
            i = idx[len(idx) // 2]
            c = outs[i]
            steps_txt = [show(x)[:300] for x in explode(c)] if c['fn'] == 'tok' else [show(c)[:300]]
            ctx.sample({'kind': k, 'input_line': lines[i][:200], 'steps': steps_txt[len(steps_txt) // 2:len(steps_txt) // 2 + 2]})
    ctx.cov['rule'] = ('CharacterSet: all pairs of subsets of {0,65,128,255} through both constructors, all single ranges over {0,1,127,128,254,255}^2, '
                       'seeded random 256-bit sets/range lists; operator[] is read for all 256 values of every result. Tokenizer: the complete set of '
                       'strings of length <= %d over %d byte values x every subset and its complement x 7 set operations x a limit lattice '
                       '(0,1,2,3,len-1,len,len+1,2^31,npos-1,npos) on a reset tokenizer; all (buffer <= 4, needle <= 3) pairs for skip/skipSuffix/skip(char); '
                       'ordered operation pairs on one tokenizer over all strings <= 4 of 2 byte values; seeded random sets x 0..300 byte run-structured inputs x '
                       '1..5 operations. Input lines are de-duplicated; a case is non-trivial when it has a non-empty operand set (set cases) or at least one '
                       'operation consumed bytes (tokenizer cases). evaluations counts single operations.' % ((5, 4) if ctx.thorough else (4, 3)))
    ctx.assumptions += ['the driver reads set contents through operator[] for all 256 values and tokenizer state through remaining()/parsedSize()',
                        'driver linked like tests/testTokenizer (real base/, sbuf/, parser/ sources from the working tree; stub_libmem/stub_debug/stub_StatHist as in that test), ASan+UBSan',
                        'limits above 2^30 other than npos are presented to TLC as 2^30 (buffers are at most 300 bytes)',
                        'a sanitizer abort of the driver is reported as a violation of the case being evaluated']
