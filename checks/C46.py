"""C46 - proxy authentication gates forwarding and never mixes identities (DESIGN 6.8)."""
import asyncio, base64, json, os, random, shutil, time
import vlib, squidctl, peers, escen
from vlib import VERIF

SPEC = os.path.join(VERIF, 'spec', 'proxy')
STUB = squidctl.stage(os.path.join(VERIF, 'e2e', 'auth_stub.py'))


class AuthRun:
    def __init__(self, ctx, tree, wid):
        self.ctx, self.tree, self.wid = ctx, tree, wid
        self.ctl = os.path.join(ctx.work, 'auth-%d' % wid)
        shutil.rmtree(self.ctl, ignore_errors=True)
        os.makedirs(self.ctl)
        os.chmod(self.ctl, 0o777)
        conf = ('auth_param basic program /usr/bin/env python3 %s %s good\nauth_param basic children 1 startup=1 idle=1 concurrency=40\n'
                'auth_param basic credentialsttl 2 hours\nauth_param basic realm verif\n' % (STUB, self.ctl))
        self.sq = squidctl.Squid(ctx, tree, name='c46-%d' % wid, clock=False, conf_extra=conf,
                                 http_access='acl authed proxy_auth REQUIRED\nhttp_access allow authed\nhttp_access deny all')
        self.rec = peers.Rec()
        self.arrived = []
        self.released = set()
        self.nscen = 0

    async def start(self):
        async def responder(q, oc):
            self.arrived.append(q.head.get('X-Verif-Id'))
            await oc.send(peers.response_head(200, 'OK', [('Content-Length', '2'), ('Cache-Control', 'no-store')]) + b'ok')
            return False
        self.origin = await peers.Origin(self.rec, responder).start()
        self.sq.start()
        return self

    def lookups(self):
        p = os.path.join(self.ctl, 'helper.ndjson')
        if not os.path.exists(p):
            return []
        out = []
        for l in open(p):
            try:
                out.append(json.loads(l))
            except ValueError:
                pass
        return [e for e in out if e['e'] == 'HLookup']

    def release(self, n):
        self.released.add(n)
        open(os.path.join(self.ctl, 'go-%d' % n), 'w').close()

    async def scenario(self, hist, extra, spell=None):
        """hist: [["a", r, p] | ["h", rid, p]]; extra: list of (kind) garbled requests appended concurrently;
        spell: concrete spelling of the model's abstract passwords (the valid one is always "good")"""
        spell = spell or {}
        hist = [[s[0], s[1], spell.get(s[2], s[2])] for s in hist]
        self.nscen += 1
        user = 'u%dx%d' % (self.wid, self.nscen)
        ev = []
        tasks = {}
        results = {}

        async def req(rid, hdr):
            vid = '%s.%s' % (user, rid)
            url = 'http://127.0.0.1:%d/a/%s' % (self.origin.port, vid)
            r = await peers.simple_get(self.rec, self.sq.port, url, headers=hdr, vid=vid, timeout=8.0)
            results[rid] = (vid, r)

        def cred(u, p):
            return [('Proxy-Authorization', 'Basic ' + base64.b64encode(('%s:%s' % (u, p)).encode()).decode())]
        for step in hist:
            if step[0] == 'a':
                _, rid, pw = step
                ev.append({'e': 'Req', 'id': rid, 'user': user, 'pw': pw})
                before = len(self.lookups())
                tasks[rid] = asyncio.ensure_future(req(rid, cred(user, pw)))
                for _ in range(40):     # wait until the request either reached the helper or finished
                    await asyncio.sleep(0.005)
                    if rid in results or len(self.lookups()) > before:
                        break
                await asyncio.sleep(0.01)
            else:
                _, rid, pw = step
                cand = [e for e in self.lookups() if e['user'] == user and e['pw'] == pw and e['n'] not in self.released]
                if cand:
                    self.release(cand[0]['n'])
                    await asyncio.sleep(0.03)
        for i, kind in enumerate(extra):
            rid = 100 + i
            hdr = {'none': [], 'garbled': [('Proxy-Authorization', 'Basic !!!notbase64$$')],
                   'nocolon': [('Proxy-Authorization', 'Basic ' + base64.b64encode(user.encode()).decode())],
                   'emptypw': cred(user, ''), 'otheruser-bad': cred(user + 'z', 'bad'), 'scheme': [('Proxy-Authorization', 'Bogus abc')]}[kind]
            ev.append({'e': 'Req', 'id': rid, 'user': (user + 'z') if kind == 'otheruser-bad' else (user if kind in ('nocolon', 'emptypw') else ''),
                       'pw': 'bad' if kind == 'otheruser-bad' else ''})
            tasks[rid] = asyncio.ensure_future(req(rid, hdr))
        await asyncio.sleep(0.03)
        for e in self.lookups():      # release whatever is still held
            if e['n'] not in self.released:
                self.release(e['n'])
        await asyncio.gather(*tasks.values())
        un = {}
        for l in self.sq.access_log():
            if 'id=' + user + '.' in l:
                f = l.split()
                vid = [x for x in f if x.startswith('id=')][0][3:]
                un[vid] = f[7]
        for rid, (vid, r) in sorted(results.items()):
            if vid in self.arrived:
                ev.append({'e': 'Fwd', 'id': rid})
        for rid, (vid, r) in sorted(results.items()):
            ev.append({'e': 'CResp', 'id': rid, 'status': r.status or 0, 'un': un.get(vid, '-')})
        return ev

    async def stop(self):
        open(os.path.join(self.ctl, 'go-all'), 'w').close()
        await self.origin.stop()
        self.sq.kill()
        shutil.rmtree(self.ctl, ignore_errors=True)


def run(ctx):
    tree = squidctl.ensure_binary(ctx)
    scens, res = escen.tlc_scenarios(ctx, os.path.join(SPEC, 'AuthImpl.tla'), os.path.join(SPEC, 'MC_AuthImpl.cfg'), key=None, workers=4)
    r = vlib.tlc(ctx, os.path.join(SPEC, 'AuthImpl.tla'), os.path.join(SPEC, 'MC_AuthImpl_prefix.cfg'), workers=2, record=False)
    if r.invariant is None:
        raise vlib.MachineryError('AuthImpl with OwnLookup=FALSE no longer violates its invariants: the model lost its teeth')
    ctx.log('TLC: %d states, %d scenario paths; pre-fix model violates %s as expected' % (res.distinct, len(scens), r.invariant))
    rnd = random.Random(ctx.seed)
    hists = sorted({json.dumps(s['hist']) for s in scens})
    hists = [json.loads(h) for h in hists]
    # interesting = at least two different passwords outstanding at once
    rnd.shuffle(hists)
    n = len(hists) if ctx.thorough else 150
    hists = hists[:n]
    kinds = ['none', 'garbled', 'nocolon', 'emptypw', 'otheruser-bad', 'scheme']
    # the model's invalid passwords are spelled relative to the valid one: unrelated, proper prefixes, extensions, case and
    # last-byte variants, embedded colon / blank (the code compares and caches C strings)
    family = ['bad', 'worse', 'goo', 'g', 'goodX', 'good good', 'Good', 'GOOD', 'gooe', 'good:', ':good', 'good ', ' good', 'ood']
    out = []

    async def worker(wid, part):
        ar = await AuthRun(ctx, tree, wid).start()
        try:
            for h in part:
                extra = [rnd.choice(kinds) for _ in range(2)]
                two = rnd.sample(family, 2)
                spell = {'good': 'good', 'bad': two[0], 'worse': two[1]}
                ev = await ar.scenario(h, extra, spell)
                out.append({'hist': h, 'spell': spell, 'extra': extra, 'ev': ev})
            if not ar.sq.alive():
                ctx.violation('squid exited during the run', {'kind': 'exit', 'log': ar.sq.tail_log()})
        finally:
            await ar.stop()

    async def main():
        W = 4
        await asyncio.gather(*[worker(i, hists[i::W]) for i in range(W)])
    asyncio.run(main())
    rej = escen.validate(ctx, os.path.join(SPEC, 'Trace_Auth.tla'), os.path.join(SPEC, 'Trace_Auth.cfg'), [{'ev': o['ev']} for o in out], 'auth')
    ctx.log('realised %d auth scenarios; P-rejected %d' % (len(out), len(rej)))
    for i in rej[:5]:
        o = out[i]
        ctx.violation('authentication history is not a behaviour of Auth.tla: arrivals/replies %s -> %s' % (json.dumps(o['hist']), json.dumps([e for e in o['ev'] if e['e'] != 'Req'])),
                      {'kind': 'auth', 'class': {'shape': 'different password while a lookup is pending'}, 'hist': o['hist'], 'events': o['ev']})
    ctx.cov['impl_distinct'] = len(out)
    ctx.cov['requests_checked'] = sum(1 for o in out for e in o['ev'] if e['e'] == 'CResp')
    ctx.cov['forwarded'] = sum(1 for o in out for e in o['ev'] if e['e'] == 'Fwd')
    ctx.cov['challenged_407'] = sum(1 for o in out for e in o['ev'] if e['e'] == 'CResp' and e['status'] == 407)
    for o in out[:2]:
        ctx.sample(o)
    ctx.cov['rule'] = ('AuthImpl.tla (shared user record, password update, Pending queue, helper replies in any order; 4 requests x 3 passwords) is explored by TLC; '
                       'every terminal path (arrival / helper-reply order) is a scenario realised with a scripted Basic helper that holds each lookup until the '
                       'driver releases it, the two invalid passwords of a path are spelled as a seeded pair out of 14 variants of the valid one (prefixes, extensions, case, blanks, colon), plus two requests with absent/garbled/colon-less/empty-password/other-user credentials; histories validated by TLC '
                       'against Auth.tla. Non-trivial = distinct path.')
    ctx.assumptions += ['helper verdict function: password "good" is valid for every user', 'one user name per scenario (the user cache is keyed by user name)']
