"""C28 - range canonicalisation preserves the requested byte set (DESIGN 6.3 C28). Technique T3: the real
HttpHdrRange::ParseCreate + canonize(clen) run on grammar-generated, boundary and seeded random/mutated (value, clen)
pairs; TLC evaluates RangeHdr.tla (P-layer: RFC 9110 range grammar, interval set semantics on Wide numbers, no UB) and
RangeHdrImpl.tla (I-layer: today's strtoll-based behaviour) on every result.  MC_RangeHdr model-checks the reference
itself (interval normal form = explicit byte set, print/parse identity, I refines P on strict inputs)."""
import itertools
import json
import os
import random
import re

import vlib, ucheck
from vlib import VERIF

SPEC = os.path.join(VERIF, 'spec', 'syntax')
I63 = 2 ** 63 - 1


def hx(b):
    return b.hex() if b else '-'


def load_known(prop):
    p = os.path.join(VERIF, 'checks', prop + '.known.json')
    if not os.path.exists(p):
        return []
    return [k for k in json.load(open(p)).get('open', []) if k.get('property') == prop]


def report(ctx, known, what, witness):
    """P-rejection -> KNOWN-FINDING (private list, then known_findings.json via ctx.violation) or VIOLATION"""
    cls = witness.get('class', {})
    for k in known:
        m = k.get('match', {})
        if m and all(cls.get(a) == b for a, b in m.items()):
            if k['id'] not in [x['id'] for x in ctx.known]:
                ctx.known.append(k)
            ctx.add('known_finding_cases')
            return False
    return ctx.violation(what, witness)


def deep_stack():
    """The reference functions recurse once per byte of the input (lists of 100-300 bytes); with the JVM's default thread
    stack TLC occasionally died with a StackOverflowError (depending on JIT state).  vlib.tlc drops JAVA_TOOL_OPTIONS but
    HotSpot also honours _JAVA_OPTIONS, which is set for the TLC children of this check only."""
    os.environ['_JAVA_OPTIONS'] = (os.environ.get('_JAVA_OPTIONS', '') + ' -Xss64m').strip() if '-Xss' not in os.environ.get('_JAVA_OPTIONS', '') else os.environ['_JAVA_OPTIONS']


def _conf_once(ctx, module, cfg, cases, label, chunk, timeout):
    """ucheck.conformance with one retry: under heavy machine load a TLC run occasionally ends before it has evaluated every
    case (seen once: states left on its queue, no evaluation error).  The retry re-evaluates everything, nothing is skipped."""
    try:
        return ucheck.conformance(ctx, module, cfg, cases, label, chunk=chunk, timeout=timeout)
    except vlib.MachineryError as e:
        if 'evaluated' not in str(e):
            raise
        ctx.notes.append('conformance run for %s repeated once: %s' % (label, str(e).splitlines()[0]))
        with open(os.path.join(ctx.work, 'tlc-incomplete-%s.txt' % label), 'w') as f:
            f.write(str(e))
        return ucheck.conformance(ctx, module, cfg, cases, label + '-retry', chunk=chunk, timeout=timeout, workers=4)


def conformance(ctx, module, cfg, cases, label, chunk=20000, timeout=1500):
    """Private variant of ucheck.conformance (lib/ucheck.py is shared): returns (P-rejected, I-rejected) indices.
    TLC reports only the FIRST violated invariant of a state, so a case rejected by CaseOk says nothing about ImplOk.
    Because the witness class 'i_layer' (does today's-behaviour model explain the result?) decides whether a P-rejection
    may match a known finding, the P-rejected cases are evaluated a second time with ImplOk as the only invariant."""
    before = {k: ctx.cov.get(k, 0) for k in ('impl_traces', 'tlc_checked_cases')}
    prej, irej = _conf_once(ctx, module, cfg, cases, label, chunk, timeout)
    if prej:
        icfg = os.path.join(ctx.work, os.path.basename(cfg)[:-4] + '_I.cfg')
        with open(icfg, 'w') as f:
            f.write('INIT ConfInit\nNEXT ConfNext\nINVARIANTS ImplOk\nCHECK_DEADLOCK FALSE\n')
        sub = [cases[i] for i in prej]
        _, ir2 = _conf_once(ctx, module, icfg, sub, label + '-ilayer', chunk, timeout)
        irej = sorted(set(irej) | {prej[j] for j in ir2})
    for k in before:                       # count every case once
        ctx.cov[k] = before[k] + len(cases)
    return prej, irej


# ---------------------------------------------------------------------------------------------
def elem_texts(clen):
    pos = sorted({0, 1, 2, max(clen - 1, 0), clen, clen + 1})
    out = []
    for a in pos:
        out.append('%d-' % a)
        out.append('-%d' % a)
        for b in pos:
            out.append('%d-%d' % (a, b))        # includes last < first (invalid)
    return out


LENIENT = ['+1-2', '1-+2', '-+2', ' 1-2', '1 -2', '1- 2', '1-2x', '1x-2', '1-2-3', '-1-2', '- 2', '-2x', '1-x', 'x-1', '1--2', '--1',
           '-', '1', '12', 'x', '1-2 3', '0x1-2', '1-0x2', '1.0-2', '-0', '0-0', '00-01', '-00', '1-2"', '"1-2"', '1-2;q=1', '-\t1',
           '+0-', '1-+', '+-1', '1\t-', '01-', '-01']
SEPS = [',', ', ', ' ,', ' , ', ',\t', ',,', ', ,', '\t,\t']
UNITS = ['bytes=', 'Bytes=', 'BYTES=', 'bYtEs=']
BADUNITS = ['bytes =', 'byte=', 'bytes', 'bytes:', 'items=', 'none=', '', '=', 'bytes==', ' bytes=', 'bytes', 'xbytes=']
BIG = [I63 - 2, I63 - 1, I63, I63 + 1, I63 + 2, 2 ** 64 - 1, 2 ** 64, 2 ** 64 + 5, 2 ** 31 - 1, 2 ** 31, 2 ** 32 - 1, 2 ** 32, 2 ** 32 + 1, 10 ** 30]
BIGLEN = [0, 1, 2, 2 ** 31, 2 ** 32 + 1, I63 - 2, I63 - 1, I63]


def gen(ctx):
    rnd = random.Random(ctx.seed)
    cases, seen = [], set()

    def add(v, clen):
        if isinstance(v, str):
            v = v.encode('latin-1')
        if b'\0' in v or b'\r' in v or b'\n' in v:
            return
        k = (v, clen)
        if k not in seen:
            seen.add(k)
            cases.append(k)

    # (i) grammar: every list of <= 2 specs over the position lattice, for every small length; lists of 3 sampled
    for clen in range(0, 5):
        el = elem_texts(clen)
        for a in el:
            add('bytes=' + a, clen)
            for b in el:
                add('bytes=' + a + ',' + b, clen)
        n3 = 6000 if ctx.thorough else 700
        for _ in range(n3):
            add(rnd.choice(UNITS) + rnd.choice(SEPS).join(rnd.choice(el) for _ in range(3)), clen)
        # separators / empty elements / outer blanks
        for _ in range(1500 if ctx.thorough else 300):
            k = rnd.randint(1, 3)
            body = rnd.choice(SEPS).join(rnd.choice(el) for _ in range(k))
            add(rnd.choice(UNITS) + rnd.choice(['', ' ', ',', ', ', '\t']) + body + rnd.choice(['', ' ', ',', ' ,', '\t', ', ,']), clen)
        for u in BADUNITS:
            add(u + '0-1', clen)
            add(u, clen)
        add('bytes=', clen)
        add('bytes= ', clen)
        add('bytes=,', clen)
        add('bytes=, ,', clen)
    # (ii) one witness per lenient/erroneous element shape, alone and next to valid specs
    for clen in (0, 1, 3, 10):
        for e in LENIENT:
            add('bytes=' + e, clen)
            add('bytes=0-0,' + e, clen)
            add('bytes=' + e + ', 1-', clen)
            add('bytes=-1 ,' + e + ',2-2', clen)
    # (iii) 63/64-bit extremes
    for clen in BIGLEN:
        for a in BIG:
            add('bytes=%d-' % a, clen)
            add('bytes=-%d' % a, clen)
            add('bytes=0-%d' % a, clen)
            add('bytes=%d-%d' % (a, a), clen)
            add('bytes=%d-%d' % (max(a - 1, 0), a), clen)
            add('bytes=1-2,%d-%d' % (a - 1, a + 1), clen)
            add('bytes=-1,5-%d,%d-' % (a, a - 2), clen)
            add('bytes=%d-%d' % (a, a - 1), clen)
            add('bytes=%s-%s' % ('0' * 25 + str(a), '000' + str(a)), clen)
        for a in range(clen - 2, clen + 3):
            if a >= 0:
                add('bytes=%d-' % a, clen)
                add('bytes=-%d' % a, clen)
                add('bytes=%d-%d' % (max(a - 1, 0), a), clen)
                add('bytes=0-%d,%d-%d' % (a, a, I63 - 1), clen)
    # (iv) seeded random spec lists with realistic lengths, then byte-level mutations
    alpha = '0123456789-, \t+xb=";\x7f\xe9'
    for _ in range(12000 if ctx.thorough else 2500):
        clen = rnd.choice([0, 1, 5, 100, 1000, 65536, 2 ** 31 + 7, 2 ** 40, I63, rnd.randint(0, 3000), rnd.randint(0, I63)])
        sp = []
        for _ in range(rnd.choice([1, 1, 2, 3, 4, 6])):
            ref = rnd.choice([clen, clen, 10, 2 ** 32, I63])
            a = max(0, ref + rnd.choice([-3, -1, 0, 1, 2, rnd.randint(-ref, ref) if ref else 0]))
            b = max(0, a + rnd.choice([0, 0, 1, 5, -1, rnd.randint(0, 1000), rnd.randint(0, I63)]))
            kind = rnd.random()
            sp.append('%d-' % a if kind < 0.2 else '-%d' % rnd.choice([a, b, 0, 1, 7]) if kind < 0.4 else '%d-%d' % (a, b))
        v = rnd.choice(UNITS) + rnd.choice(SEPS[:3]).join(sp)
        add(v, clen)
        if rnd.random() < 0.6:
            s = list(v)
            for _ in range(rnd.choice([1, 1, 2, 3])):
                p = rnd.randrange(len(s) + 1)
                op = rnd.random()
                if op < 0.4:
                    s.insert(p, rnd.choice(alpha))
                elif op < 0.7 and s and p < len(s):
                    s[p] = rnd.choice(alpha)
                elif s and p < len(s):
                    del s[p]
            add(''.join(s), clen)
    return cases


# ---------------------------------------------------------------------------------------------
# witness classification (names the deviation an input exercises; the verdict itself is TLC's)
STRICT = re.compile(rb'\d+-\d*|-\d+')
F4 = re.compile(rb'\+?\d+[^-]*-[ \t\x0b\x0c]*\+?0*9223372036854775807(\D.*)?', re.S)


def features(v):
    if v[:6].lower() != b'bytes=':
        return {'f4': False, 'nonstrict': False}
    el = [e.strip(b' \t') for e in v[6:].split(b',')]
    el = [e for e in el if e]
    return {'f4': any(F4.fullmatch(e) for e in el), 'nonstrict': any(not STRICT.fullmatch(e) for e in el)}


def classify(case, i_accepts):
    f = features(bytes(case['v']))
    # a value that is not strict range syntax is explained by the leniency finding whatever else it contains (the lenient
    # reader may stop before a later spec is looked at); the INT64_MAX class is for strictly well-formed values only
    feat = 'lenient-position-syntax' if f['nonstrict'] else 'last-byte-pos=INT64_MAX' if f['f4'] else 'other'
    return {'feature': feat, 'ub': bool(case['ub']), 'i_layer': 'accepts' if i_accepts else 'rejects',
            'outcome': 'honoured' if case['parsed'] else 'ignored'}


def show(case):
    sp = lambda r: '%s%s+%s%s' % ('-' if r['on'] else '', ''.join(map(str, reversed(r['o']))) or '0',
                                  '-' if r['ln'] else '', ''.join(map(str, reversed(r['l']))) or '0')
    return 'value=%r clen=%s -> %s raw(offset+length)=%s canonical=%s ub=%s' % (
        bytes(case['v']).decode('latin-1'), ''.join(map(str, reversed(case['clen']))) or '0',
        'honoured' if case['parsed'] else 'ignored', [sp(r) for r in case['raw']], [sp(r) for r in case['canon']], case['ub'])


def run(ctx):
    deep_stack()
    cfg = 'MC_RangeHdr_thorough.cfg' if ctx.thorough else 'MC_RangeHdr.cfg'
    mc = vlib.tlc_must_pass(ctx, os.path.join(SPEC, 'MC_RangeHdr.tla'), os.path.join(SPEC, cfg), timeout=1200, label='mc-range')
    ctx.cov['spec_law_states'] = mc.distinct
    ctx.log('reference laws hold on %d spec-list x length combinations' % mc.distinct)
    exe = ucheck.build_like_test(ctx, 'range', 'testHttpRange', ['u_range.cc', 'uhelp.cc'])
    cases = gen(ctx)
    lines = ['R %s %d' % (hx(v), clen) for v, clen in cases]
    ctx.log('driver built; %d cases' % len(lines))
    r = vlib.run_driver(exe, '\n'.join(lines) + '\n', timeout=900)
    outs = [json.loads(l) for l in r.stdout.splitlines() if l.startswith('{')]
    if len(outs) != len(lines):
        raise vlib.MachineryError('driver answered %d of %d (rc=%s) %s' % (len(outs), len(lines), r.returncode, r.stderr[-800:]))
    prej, irej = conformance(ctx, os.path.join(SPEC, 'Conf_RangeHdr.tla'), os.path.join(SPEC, 'Conf_RangeHdr.cfg'), outs, 'range', timeout=3000)
    ctx.log('TLC evaluated %d cases: P-rejected %d, I-rejected %d' % (len(outs), len(prej), len(irej)))
    known = load_known('C28')
    iset = set(irej)
    hist = {}
    for i in prej:
        c = outs[i]
        cls = classify(c, i not in iset)
        key = '%s/%s/I-%s' % (cls['feature'], cls['outcome'], cls['i_layer'])
        hist[key] = hist.get(key, 0) + 1
        if len(ctx.violations) < 5:
            report(ctx, known, 'not what RangeHdr.tla allows: ' + show(c), {'class': cls, 'case': c, 'line': lines[i]})
    ctx.cov['p_rejected_by_class'] = hist
    pset = set(prej)
    for i in irej:
        if i not in pset and len(ctx.drift) < 5:
            ctx.drift.append('I-layer (RangeHdrImpl) mismatch: ' + show(outs[i]))
    ctx.cov['impl_distinct'] = sum(1 for o in outs if o['parsed'])
    ctx.cov['cases'] = len(outs)
    ctx.cov['honoured'] = sum(1 for o in outs if o['parsed'])
    ctx.cov['ignored'] = sum(1 for o in outs if not o['parsed'])
    ctx.cov['with_unsatisfiable_spec_dropped'] = sum(1 for o in outs if o['parsed'] and len(o['canon']) < len(o['raw']))
    ctx.cov['ub_reports'] = sum(1 for o in outs if o['ub'])
    ctx.cov['p_rejected'] = len(prej)
    for o in (outs[7], outs[len(outs) // 2], outs[-1]):
        ctx.sample(show(o))
    ctx.cov['rule'] = ('(i) every list of <= 2 range-specs (and sampled lists of 3) over positions {0,1,2,clen-1,clen,clen+1} incl. last<first, '
                       'clen 0..4, separator/blank/empty-element variants, unit spellings; (ii) one witness per lenient or malformed element shape; '
                       '(iii) positions around 2^31, 2^32, 2^63, 2^64, 10^30 against lengths up to 2^63-1; (iv) seeded random lists and byte mutations. '
                       'Cases are distinct (value, clen) pairs; non-trivial = header honoured.')
    ctx.assumptions += ['field values are NUL/CR/LF-free byte strings (what the header parser hands over); representation length in 0..2^63-1',
                        'UBSan makes signed overflow observable as the ub flag (it reports each source location once per process, so the flag marks the first offending '
                        'case per site; later cases at the same site are still rejected through their wrong byte set); absence of a report on explored inputs only',
                        'byte sets are compared as normalised interval lists on arbitrary-precision numbers; MC_RangeHdr shows on lengths <= 5 that the '
                        'normal form denotes the explicit byte set',
                        'driver linked like tests/testHttpRange, all compiled from the working tree']
