"""C57 - rock rebuild indexes only intact entries from any disk image (DESIGN 6.5 C57).

Spec: spec/store/RockDb.tla (P-layer: IndexOk = the statement), RockRebuild.tla (I-layer: Rock::Rebuild as the code's
per-slot machine), MC_RockRebuild.tla (TLC explores ALL images of a bounded domain: today's machine satisfies C57 up to
the named finding shapes, the machine with the proposed repairs satisfies C57 strictly), Conf_RockRebuild.tla (binding).
Binding: harness/u_rock.cc writes every image into a real rock db file, runs the real Rock::Rebuild (real store_rebuild.cc,
fd.cc, fs_io.cc, store/SwapMetaIn.cc - NOT tests/stub_store_rebuild.cc) to completion, walks the real StoreMap and pops
the real free-slot PageStack; TLC evaluates RockDb!IndexOk on every index (CaseOk, may alarm) and compares it with the
I-layer's (ImplOk, drift only).  Images: exhaustive 2-slot space, seeded samples of the 3/4-slot spaces, a directed
lattice (sizes, metadata, garbage kinds, truncation), and (T3 iii) images really written by Rock::SwapDir whose slot
headers are then mutated.

This module also exports the helpers shared with C16u.py / C17u.py (driver build, driver runner, image model)."""
import concurrent.futures
import json
import os
import random
import shutil
import subprocess

import vlib
import ucheck
from vlib import VERIF, MachineryError

SPEC = os.path.join(VERIF, 'spec', 'store')
UNIT = 1000          # bytes per abstract payload unit of the crafted images
HL = 75              # length of the swap meta prefix the driver packs (magic+len, KEY_MD5, STD_LFS); probed at run time
DB_BYTES = 1024 * 1024
DB_HEADER = 16 * 1024
KNOWN_LOCAL = os.path.join(VERIF, 'checks', 'C57.known.json')
# the rebuild machine recurses once per slot: 63-slot images need a deeper Java stack in TLC's worker threads
os.environ.setdefault('_JAVA_OPTIONS', '-Xss64m')


# ---------------------------------------------------------------------------------------------
# driver
# ---------------------------------------------------------------------------------------------
def build_driver(ctx):
    """tests/testRock's link closure with the real store_rebuild.cc instead of the stub that never reads the disk."""
    return ucheck.build_like_test(
        ctx, 'rock', 'testRock', ['u_rock.cc', 'u_rock_wl.cc', 'u_rock_stubs.cc', 'uhelp.cc'],
        replace={'tests/stub_store_rebuild.cc': 'store_rebuild.cc'},
        drop=['tests/stub_store_client.cc'],     # defines a storeRebuildStart() stub; the rest of it is in u_rock_stubs.cc
        defines=['-pthread'])


STUBS_USED = ('tests/stub_*.cc of tests/testRock except stub_store_rebuild.cc (replaced by the real store_rebuild.cc) and '
              'stub_store_client.cc (replaced by harness/u_rock_stubs.cc); fd.cc, fs_io.cc, store/SwapMetaIn.cc, ipc/StoreMap.cc, '
              'ipc/mem/PageStack.cc, fs/rock/*.cc, DiskIO/Blocking/*.cc are the real sources')


def _run_batch(exe, workdir, lines, timeout):
    """Run one driver process over `lines`; returns list of parsed outputs (may be shorter than lines) and rc."""
    os.makedirs(workdir, exist_ok=True)
    env = dict(os.environ)
    env['ASAN_OPTIONS'] = 'detect_leaks=0:abort_on_error=0:exitcode=66'
    env['UBSAN_OPTIONS'] = 'halt_on_error=0:print_stacktrace=0'
    errp = os.path.join(workdir, 'stderr.txt')
    with open(errp, 'w') as ef:
        try:
            r = subprocess.run([exe, os.path.join(workdir, 'db')], input='\n'.join(lines) + '\n', stdout=subprocess.PIPE, stderr=ef,
                               text=True, timeout=timeout, env=env, cwd=workdir)
        except subprocess.TimeoutExpired:
            return [], 'timeout'
    outs = []
    for l in r.stdout.splitlines():
        if l.startswith('{'):
            try:
                outs.append(json.loads(l))
            except ValueError:
                break
    return outs, r.returncode


def run_driver_cases(ctx, exe, lines, label, batch=400, procs=None, timeout=600):
    """lines[i] = 'C <id> ...' (id must be str(i)).  Returns outputs in order.  A driver that dies on a case (assertion,
    escaped exception, sanitizer) yields {'out': {'done': False, 'crash': ...}} for that case and is restarted after it."""
    procs = procs or max(2, min(8, vlib.NCPU // 2))
    chunks = [(k, lines[k:k + batch]) for k in range(0, len(lines), batch)]
    results = [None] * len(lines)
    root = os.path.join(ctx.work, 'drv-' + label)
    shutil.rmtree(root, ignore_errors=True)

    def one(job):
        start, ls = job
        wd = os.path.join(root, 'b%d' % start)
        pos = 0
        restarts = 0
        while pos < len(ls):
            outs, rc = _run_batch(exe, wd, ls[pos:], timeout)
            for o in outs:
                results[start + pos] = o
                pos += 1
            if pos < len(ls):
                # the driver stopped early: after printing a crash line (rc 77/78) or silently (sanitizer, signal, timeout)
                last = outs[-1] if outs else None
                if not (last and last.get('out', {}).get('crash')):
                    tail = ''
                    try:
                        tail = open(os.path.join(wd, 'stderr.txt'), errors='replace').read()[-600:]
                    except OSError:
                        pass
                    results[start + pos] = {'id': str(start + pos), 'out': {'done': False, 'crash': 'driver died rc=%s' % rc, 'ent': [], 'free': []},
                                            'stderr': tail}
                    pos += 1
                restarts += 1
                if restarts > 40:
                    # a tree on which the rebuild dies this often: every death so far is a recorded crash case (P: "terminates
                    # without crashing"); the rest of this batch is not evaluated
                    for j in range(pos, len(ls)):
                        results[start + j] = {'id': str(start + j), 'skipped': True}
                    break
        shutil.rmtree(wd, ignore_errors=True)

    with concurrent.futures.ThreadPoolExecutor(max_workers=procs) as ex:
        list(ex.map(one, chunks))
    shutil.rmtree(root, ignore_errors=True)
    for i, r in enumerate(results):
        if r is None or ('out' not in r and not r.get('skipped')):
            raise MachineryError('driver gave no result for case %d (%s): %r' % (i, label, r))
    return results


# ---------------------------------------------------------------------------------------------
# image model (python side: generation + the driver's and TLC's spelling of a slot)
# ---------------------------------------------------------------------------------------------
def H(key, first, nxt, pay, esz, mok=True, mkey=None, msz=0, mpriv=False, bad='z'):
    return {'t': 'H', 'key': key, 'first': first, 'next': nxt, 'pay': pay, 'esz': esz, 'mok': mok,
            'mkey': key if mkey is None else mkey, 'msz': msz, 'mhl': HL, 'mpriv': mpriv, 'bad': bad}


E = {'t': 'E'}


def G(raw):
    return {'t': 'G', 'raw': raw}


def slot_token(v):
    if v['t'] == 'E':
        return v.get('raw', 'E')
    if v['t'] == 'G':
        return v['raw']
    meta = ('m%d,%d,%d' % (v['mkey'], v['msz'], 128 if v['mpriv'] else 0)) if v['mok'] else v['bad']
    return 'H:%d:%d:%d:%d:%d:%d:%s' % (v['key'], v.get('ver', 1), v['first'], v['next'], v['pay'], v['esz'], meta)


def slot_tla(v):
    if v['t'] != 'H':
        return {'t': v['t']}
    return {k: v[k] for k in ('t', 'key', 'first', 'next', 'pay', 'esz', 'mok', 'mkey', 'msz', 'mhl', 'mpriv')}


def garbage_kinds(n, slot_size):
    """raw headers that fail DbCellHeader::sane() (the TLA+ image says "G" for all of them)"""
    big = slot_size - 40 + 1
    return ['H:1:0:0:-1:%d:0:z' % UNIT,            # version 0
            'H:1:1:%d:-1:%d:0:z' % (n, UNIT),      # firstSlot = slotLimit
            'H:1:1:-1:-1:%d:0:z' % UNIT,           # firstSlot < 0
            'H:1:1:0:%d:%d:0:z' % (n, UNIT),       # nextSlot = slotLimit
            'H:1:1:0:-2:%d:0:z' % UNIT,            # nextSlot < -1
            'H:1:1:1:0:0:0:z',                     # payloadSize 0 (not empty(): firstSlot != 0)
            'H:1:1:0:-1:%d:0:z' % big,             # payloadSize > slotSize - sizeof(header)
            'H:2:1:0:-1:4294967295:0:g']           # payloadSize 2^32-1


def case_line(idx, n, kf, img):
    return 'C %d %d %s %s' % (idx, n, ','.join(map(str, kf)), ' '.join(slot_token(v) for v in img))


class Images:
    """collects (n, kf, img, tag) without duplicates"""

    def __init__(self):
        self.items = []
        self.seen = set()

    def add(self, n, kf, img, tag):
        line = case_line(0, n, kf, img)
        if line in self.seen:
            return
        self.seen.add(line)
        self.items.append((n, list(kf), [dict(v) for v in img], tag))


def slot_values(n, s, keys, pays, eszs, bad_meta=True, gkinds=1):
    """all values of slot s over the given field domain (bytes)"""
    vals = [E]
    slot_size = (DB_BYTES - DB_HEADER) // n
    vals += [G(g) for g in garbage_kinds(n, slot_size)[:gkinds]]
    for k in keys:
        for fi in range(n):
            for nx in range(-1, n):
                for p in pays:
                    for e in eszs:
                        vals.append(H(k, fi, nx, p, e))
                        if fi == s and bad_meta:
                            vals.append(H(k, fi, nx, p, e, mok=False))
    return vals


def gen_images(ctx):
    rnd = random.Random(ctx.seed)
    im = Images()
    U = UNIT
    # --- probes: the three known shapes (also tell which repairs the tree has) -----------------------------------------
    probes = PROBES
    for tag, (n, kf, img) in probes.items():
        im.add(n, kf, img, 'probe:' + tag)
    # --- exhaustive 2-slot space ---------------------------------------------------------------------------------------
    pays2 = [U]                       # (the thorough tier spends its budget on the complete 3-slot space x3 instead)
    eszs2 = [0, U, 2 * U]
    for kf in ([0, 1], [0, 0]):
        v0 = slot_values(2, 0, (1, 2), pays2, eszs2)
        v1 = slot_values(2, 1, (1, 2), pays2, eszs2)
        for ia, a in enumerate(v0):
            for ib, b in enumerate(v1):
                if ctx.thorough or (ia + ib + ctx.seed) % 2 == 0:      # quick: every second pair, the parity chosen by the seed
                    im.add(2, kf, [a, b], 'x2')
    # --- seeded samples of the 3- and 4-slot spaces -----------------------------------------------------------------------
    def sample(n, count, nkeys, tag):
        slot_size = (DB_BYTES - DB_HEADER) // n
        gk = garbage_kinds(n, slot_size)
        for _ in range(count):
            kf = [rnd.randrange(n) for _ in range(nkeys)]
            if rnd.random() < 0.4:
                kf = [kf[0]] * nkeys if rnd.random() < 0.5 else list(range(nkeys))
            img = []
            for s in range(n):
                r = rnd.random()
                if r < 0.10:
                    img.append(E)
                elif r < 0.16:
                    img.append(G(rnd.choice(gk)))
                else:
                    fi = s if rnd.random() < 0.35 else rnd.randrange(n)
                    v = H(rnd.randint(1, nkeys), fi, rnd.randint(-1, n - 1), rnd.choice([U, 2 * U]), rnd.choice([0, 0, U, 2 * U, 3 * U, 4 * U]))
                    if fi == s and rnd.random() < 0.15:
                        v['mok'] = False
                        v['bad'] = rnd.choice('zg')
                    img.append(v)
            im.add(n, kf, img, tag)
    sample(3, 9000 if ctx.thorough else 2000, 2, 's3')
    sample(4, 4000 if ctx.thorough else 800, 2, 's4')
    sample(4, 2000 if ctx.thorough else 300, 3, 's4k3')
    sample(6, 1000 if ctx.thorough else 200, 3, 's6k3')
    # --- the MC quick space through the real code (thorough): N=3, two keys in different anchors, pay 1, esz in {0, 2} ----
    # every second image of it, the parity chosen by the seed: two runs with seeds of different parity cover the whole space
    if ctx.thorough:
        vs = [slot_values(3, s, (1, 2), [U], [0, 2 * U], bad_meta=False) for s in range(3)]
        k = 0
        for a in vs[0]:
            for b in vs[1]:
                for c in vs[2]:
                    k += 1
                    if k % 2 == ctx.seed % 2:
                        im.add(3, [0, 1], [a, b, c], 'x3')
    # --- directed lattice ---------------------------------------------------------------------------------------------------
    n = 3
    slot_size = (DB_BYTES - DB_HEADER) // n
    for g in garbage_kinds(n, slot_size):                       # every way of being insane, next to a good entry
        im.add(n, [0, 1], [H(1, 0, 2, U, 0), G(g), H(1, 0, -1, U, 0)], 'garbage')
        im.add(n, [0, 1], [G(g), H(1, 1, -1, U, U), E], 'garbage')
    for raw in ('H:1:1:0:0:0:5:z', 'H:2:7:0:0:0:0:g'):        # empty(): only firstSlot/nextSlot/payloadSize count
        im.add(n, [0, 1], [dict(E, raw=raw), H(1, 1, -1, U, U), E], 'empty-variants')
    # truncated db files: a suffix of the slots is missing, or the file ends inside a header / inside the metadata
    im.add(n, [0, 1], [H(1, 0, -1, U, U), G('T'), G('T')], 'trunc')
    im.add(n, [0, 1], [H(1, 0, 1, U, 2 * U), H(1, 0, -1, U, 0), G('T')], 'trunc')
    im.add(n, [0, 1], [H(1, 0, 1, U, 0), G('t17'), G('T')], 'trunc')
    im.add(n, [0, 1], [H(1, 0, -1, U, U), G('t39'), G('T')], 'trunc')
    # metadata of the inode: swap_file_sz in the STD_LFS field vs entrySize of the header; private key; foreign key
    for esz in (0, U, 2 * U):
        for msz in (0, U, 2 * U, U - HL, 2 * U - HL, U - HL + 1, HL, 1):
            if msz < 0:
                continue
            for tail in (True, False):
                img = [H(1, 0, 1 if tail else -1, U, esz, msz=msz), H(1, 0, -1, U, 0) if tail else E, E]
                im.add(n, [0, 1], img, 'meta-size')
    im.add(n, [0, 1], [H(1, 0, -1, U, U, mpriv=True), E, E], 'meta-private')
    for kf in ([0, 1], [0, 0]):
        im.add(n, kf, [H(1, 0, -1, U, U, mkey=2), E, H(1, 0, -1, U, 0)], 'meta-key')
        im.add(n, kf, [H(1, 0, 2, U, 0, mkey=2), E, H(2, 0, -1, U, 0)], 'meta-key')
    im.add(n, [0, 1], [H(1, 0, -1, U, U, mok=False, bad='g'), E, E], 'meta-garbage')
    # chains: forward, backward, cycles, self loops, look-ahead, shared tails, duplicates after a loaded entry
    chains = [
        [H(1, 0, 1, U, 0), H(1, 0, 2, U, 0), H(1, 0, -1, U, 3 * U)],
        [H(1, 2, -1, U, 0), H(1, 2, 0, U, 0), H(1, 2, 1, U, 0)],
        [H(1, 0, 1, U, 0), H(1, 0, 0, U, 0), E],
        [H(1, 0, 0, U, 0), E, E],
        [H(1, 0, 0, U, U), E, E],
        [H(1, 0, 2, U, 0), H(2, 1, 2, U, 0), H(1, 0, -1, U, 0)],
        [H(1, 0, 2, U, 2 * U), H(2, 1, 2, U, 2 * U), H(2, 1, -1, U, 0)],
        [H(1, 0, -1, U, U), H(1, 1, -1, U, U), E],
        [H(1, 0, -1, U, U), H(1, 0, -1, U, 0), E],
        [H(1, 0, -1, U, U), E, H(1, 2, -1, U, U)],
        [H(1, 0, 1, U, 2 * U), H(1, 0, -1, U, 0), H(1, 0, -1, U, 0)],
        [H(1, 0, 1, U, U), H(1, 0, -1, U, 0), E],
        [H(1, 0, 1, 2 * U, 2 * U), H(1, 0, -1, U, 0), E],
        [H(1, 1, -1, U, 0), H(1, 1, 0, U, 0), E],
    ]
    for img in chains:
        for kf in ([0, 1], [0, 0], [2, 2]):
            im.add(3, kf, img, 'chains')
    # an entry finalized over a foreign slot is freed through the map, then the slot's owner frees it again
    im.add(6, [4, 3, 4], [H(3, 0, -1, 2 * U, 4 * U), H(2, 1, 0, U, 3 * U), H(2, 1, 5, U, 3 * U), E, H(2, 0, 0, U, 3 * U), H(2, 0, 5, U, 0)], 'double-free')
    im.add(4, [0, 1], [H(1, 0, -1, U, 0), H(2, 1, 0, U, 2 * U), H(2, 1, -1, U, 0), H(2, 1, -1, U, 0)], 'double-free')
    return im.items



# ---------------------------------------------------------------------------------------------
# workloads through the real Rock::SwapDir (harness/u_rock_wl.cc): shared by C57 (T3 iii), C16u, C17u
# ---------------------------------------------------------------------------------------------
WL_SLOT = 16384      # slot size of workload dbs: (1 MiB - 16 KiB) / 16 KiB = 63 slots


def _driver_env():
    env = dict(os.environ)
    env['ASAN_OPTIONS'] = 'detect_leaks=0:abort_on_error=0:exitcode=66'
    env['UBSAN_OPTIONS'] = 'halt_on_error=0:print_stacktrace=0'
    return env


def run_workload(ctx, exe, name, ops, slot_size=WL_SLOT):
    """Runs 'W' in its own process.  Returns (record, workdir); the binary write log stays in workdir/db.writes."""
    wd = ctx.fresh_dir('wl-' + name)
    with open(os.path.join(wd, 'stderr.txt'), 'w') as ef:
        r = subprocess.run([exe, os.path.join(wd, 'db')], input='W %s %d %s\n' % (name, slot_size, ' '.join(ops)), stdout=subprocess.PIPE,
                           stderr=ef, text=True, timeout=600, env=_driver_env(), cwd=wd)
    recs = [json.loads(l) for l in r.stdout.splitlines() if l.startswith('{')]
    if len(recs) != 1 or recs[0].get('crash') or 'writes' not in recs[0]:
        raise MachineryError('workload %s failed rc=%s: %s | %s' % (name, r.returncode, r.stdout[-400:],
                                                                     open(os.path.join(wd, 'stderr.txt'), errors='replace').read()[-600:]))
    return recs[0], wd


def run_restarts(ctx, exe, wl_dir, name, specs, nobj, slot_size=WL_SLOT, procs=None):
    """specs: list of (k, cut, [mutations]).  One driver process per restart ('P').  Returns list of records; a driver that
    dies yields out.done = False with the reason."""
    procs = procs or max(2, min(8, vlib.NCPU // 2))
    root = ctx.fresh_dir('rs-' + name)
    res = [None] * len(specs)

    def one(i):
        k, cut, muts = specs[i]
        wd = os.path.join(root, 'p%d' % i)
        os.makedirs(wd)
        os.symlink(os.path.join(wl_dir, 'db.writes'), os.path.join(wd, 'db.writes'))
        line = 'P %d %d %d %d %d %s\n' % (i, slot_size, k, cut, nobj, ' '.join(muts))
        with open(os.path.join(wd, 'stderr.txt'), 'w') as ef:
            try:
                r = subprocess.run([exe, os.path.join(wd, 'db')], input=line, stdout=subprocess.PIPE, stderr=ef, text=True,
                                   timeout=600, env=_driver_env(), cwd=wd)
                rc, out = r.returncode, r.stdout
            except subprocess.TimeoutExpired:
                rc, out = 'timeout', ''
        recs = []
        for l in out.splitlines():
            if l.startswith('{'):
                try:
                    recs.append(json.loads(l))
                except ValueError:
                    pass
        if recs and 'out' in recs[-1]:
            rec = recs[-1]
        else:
            tail = open(os.path.join(wd, 'stderr.txt'), errors='replace').read()[-500:]
            rec = {'id': str(i), 'k': k, 'cut': cut, 'out': {'done': False, 'crash': 'driver died rc=%s' % rc, 'ent': [], 'free': []},
                   'served': [], 'slots': [None], 'stderr': tail}
        rec['line'] = line.strip()
        res[i] = rec
        shutil.rmtree(wd, ignore_errors=True)

    with concurrent.futures.ThreadPoolExecutor(max_workers=procs) as ex:
        list(ex.map(one, range(len(specs))))
    shutil.rmtree(root, ignore_errors=True)
    return res


def img_from_slots(n, slots):
    """the driver's dump of the non-empty slot headers of a materialised image -> the TLA+ image"""
    img = [{'t': 'E'} for _ in range(n)]
    for d in slots:
        if not d:
            continue
        if not d['sane'] or d['key'] == 0:
            img[d['s']] = {'t': 'G'}
        else:
            img[d['s']] = {'t': 'H', 'key': d['key'], 'first': d['first'], 'next': d['next'], 'pay': d['pay'], 'esz': d['esz'],
                           'mok': bool(d['mok']) and d['mkey'] != 0, 'mkey': d['mkey'] if d['mkey'] != 99 else 0, 'msz': d['msz'], 'mhl': d['mhl'],
                           'mpriv': d['mpriv']}
    return img


def tla_out(out):
    return {'done': bool(out.get('done')), 'crash': out.get('crash', ''), 'ent': out.get('ent', []), 'free': out.get('free', [])}


def stored_image_cases(ctx, exe, fix):
    """T3 (iii): a db really written by Rock::SwapDir / Rock::IoState, then slot headers mutated (chain links, sizes, first
    slots, versions, zeroing, duplication).  Returns (cases for Conf_RockRebuild, descriptions)."""
    rnd = random.Random(ctx.seed + 57)
    ops = ['put:1:1:40000', 'put:2:1:5000', 'put:3:1:20000', 'put:4:1:33000', 'put:5:1:100']
    wl, wd = run_workload(ctx, exe, 'c57', ops)
    n, nw = wl['n'], len(wl['writes'])
    used = sorted({w['slot'] for w in wl['writes']})
    by_slot = {w['slot']: w for w in wl['writes']}
    free = [s for s in range(n) if s not in used][:2]
    specs = [(nw, 0, [])]
    fields = []
    for s in used:
        w = by_slot[s]
        others = [x for x in used if x != s]
        cand = [('next', -1), ('next', s), ('next', free[0]), ('next', rnd.choice(others)), ('first', rnd.choice(others)), ('first', s),
                ('pay', w['pay'] - 1), ('pay', w['pay'] + 1), ('esz', 0), ('esz', w['pay']), ('esz', max(1, w['esz'] - 1)), ('esz', w['esz'] + 1),
                ('ver', 0), ('ver', w['ver'] + 1), ('zero', 0), ('copy', rnd.choice(others))]
        for f, v in cand:
            fields.append('set:%d:%s:%d' % (s, f, v))
    rnd.shuffle(fields)
    single = fields[:110] if ctx.thorough else fields[:24]
    for m in single:
        specs.append((nw, 0, [m]))
    for _ in range(60 if ctx.thorough else 12):                   # two or three simultaneous mutations
        specs.append((nw, 0, rnd.sample(fields, rnd.choice([2, 2, 3]))))
    recs = run_restarts(ctx, exe, wd, 'c57', specs, 5)
    cases, descr = [], []
    for rec, (k, cut, muts) in zip(recs, specs):
        img = img_from_slots(n, rec.get('slots', []))
        cases.append({'id': len(cases), 'n': n, 'kf': wl['kf'], 'fix': fix, 'img': img, 'out': tla_out(rec['out'])})
        descr.append('stored db (%s) with %s' % (' '.join(ops), ' '.join(muts) or 'no mutation'))
    shutil.rmtree(wd, ignore_errors=True)
    return cases, descr, wl


# ---------------------------------------------------------------------------------------------
# witness analysis (naming the shape of a P-rejection; the verdict itself is TLC's)
# ---------------------------------------------------------------------------------------------
def analyse(n, kf, img, out):
    failed = set()
    shapes = set()
    cls = {}
    if not out.get('done') or out.get('crash'):
        return {'shape': 'crash', 'other': 'term', 'assertion': norm_crash(out.get('crash'))}
    free = out['free']
    used = {}
    for e in out['ent']:
        ch = e['chain']
        if e['cyc'] or e['oob'] or not ch or ch[0]['s'] != e['start']:
            failed.add('walk')
            continue
        ss = [c['s'] for c in ch]
        if len(set(ss)) != len(ss):
            failed.add('acyclic')
        ondisk = True
        for i, c in enumerate(ch):
            v = img[c['s']] if 0 <= c['s'] < n else None
            if not v or v['t'] != 'H' or c['size'] != v['pay'] or c['next'] != v['next'] or c['next'] != (ch[i + 1]['s'] if i + 1 < len(ch) else -1):
                ondisk = False
        if not ondisk:
            failed.add('ondisk')
            continue
        k0 = e['key']

        def carries(s):
            v = img[s]
            return v['key'] == k0 or (s == e['start'] and v['first'] == s and v['mok'] and v['mkey'] == k0)
        foreign = [c['s'] for c in ch if not carries(c['s'])]
        if foreign:
            shapes.add('foreign-slot')
            same = [s for s in foreign if k0 >= 1 and kf[img[s]['key'] - 1] % n == kf[k0 - 1] % n]
            cls['foreign_anchor'] = 'same' if same else 'other'
        if img[e['start']]['first'] != e['start']:
            shapes.add('orphan-tail')
        tot = sum(c['size'] for c in ch)
        if tot < e['sfs']:
            shapes.add('size-short')
        elif tot > e['sfs']:
            failed.add('size-long')
        for s in ss:
            used[s] = used.get(s, 0) + 1
    if any(c > 1 for c in used.values()):
        failed.add('shared-slot')
    if len(set(free)) != len(free):
        failed.add('double-free')
    if any(not (0 <= s < n) for s in free):
        failed.add('free-range')
    if set(free) & set(used) and 'foreign-slot' not in shapes:
        failed.add('free-and-used')
    if any(s not in used and s not in free for s in range(n)):
        if 'foreign-slot' not in shapes:
            failed.add('leak')
    cls['shape'] = '+'.join(sorted(shapes)) if shapes else 'none'
    for sh in ('orphan-tail', 'size-short', 'foreign-slot'):
        cls[sh.replace('-', '_')] = sh in shapes
    cls['other'] = '+'.join(sorted(failed))
    return cls


def norm_crash(text):
    """'abort: /path/src/ipc/mem/PageStack.cc:301: '(oldValue & mask) == 0'' -> 'ipc/mem/PageStack.cc: (oldValue & mask) == 0'"""
    import re
    t = str(text or '')
    m = re.match(r"abort: .*?/src/([^:]+):\d+: '?(.*?)'?$", t)
    return '%s: %s' % (m.group(1), m.group(2)) if m else t[:120]


def report_known(ctx, known_path, props, what, witness):
    """P-rejection -> KNOWN-FINDING when the witness class matches an 'open' entry of known_path (a per-check list kept until the
    coordinator moves the entry to /verif/known_findings.json, which ctx.violation consults itself), else VIOLATION."""
    cls = witness.get('class', {})
    entries = json.load(open(known_path)).get('open', []) if os.path.exists(known_path) else []
    # the global list too, under every id this check runs as (bin/check C16 calls C16u.run_unit with ctx.prop = 'C16';
    # bin/check C16u runs the same code with ctx.prop = 'C16u'; ctx.violation itself only looks at ctx.prop)
    entries = entries + [k for k in vlib.known_findings().get('open', []) if k.get('property') != ctx.prop]
    for k in entries:
        m = k.get('match', {})
        if k.get('property') in props and m and all(cls.get(a) == b for a, b in m.items()):
            if k['id'] not in [x['id'] for x in ctx.known]:
                ctx.known.append(k)
            return False
    return ctx.violation(what, witness)


def report(ctx, what, witness):
    return report_known(ctx, KNOWN_LOCAL, (ctx.prop, 'C57'), what, witness)


PROBES = {
    'orphan-tail': (8, [0, 1], [E, E, E, H(1, 7, -1, 100, 0, mok=False), E, E, E, E]),      # DESIGN section 9, F6 witness
    'size-short': (3, [0, 1], [E, E, H(1, 2, -1, UNIT, 2 * UNIT)]),
    'foreign-slot': (3, [0, 1], [H(1, 0, 1, UNIT, 2 * UNIT), H(2, 2, -1, UNIT, 0, mok=False), H(1, 0, -1, UNIT, 0, mok=False)]),
    # a failed walk (key 2, anchor 0) leaves its mark on slot 1 of key 1; key 1's chain then runs through slot 4 of key 3
    'foreign-mark': (5, [1, 0, 2], [H(1, 0, 4, UNIT, 0), H(1, 0, -1, UNIT, 0), H(2, 2, 1, UNIT, 0), H(2, 2, -1, UNIT, 0), H(3, 0, -1, UNIT, 0)]),
}
REPAIR_OF = {'orphan-tail': 'anchored', 'size-short': 'size', 'foreign-slot': 'own', 'foreign-mark': 'undo'}


def repairs_from(tagged_outs):
    """which of the proposed repairs of Rock::Rebuild::finalizeOrThrow the probed tree has (selects the I-layer variant)"""
    fix = [REPAIR_OF[tag] for tag, out in tagged_outs if out.get('done') and not out['ent']]
    if 'undo' in fix and 'own' not in fix:
        fix.remove('undo')
    return fix


def detect_repairs(ctx, exe):
    tags = list(PROBES)
    lines = [case_line(i, *PROBES[t]) for i, t in enumerate(tags)]
    outs = run_driver_cases(ctx, exe, lines, 'probe', procs=1)
    return repairs_from([(t, o['out']) for t, o in zip(tags, outs)])


def describe(n, kf, img, out):
    def sv(v):
        if v['t'] != 'H':
            return v['t'] + (':' + v['raw'] if v.get('raw') else '')
        return 'H(key=%d first=%d next=%d pay=%d esz=%d%s)' % (v['key'], v['first'], v['next'], v['pay'], v['esz'],
                                                             '' if v['mok'] else ' meta=bad')
    ents = ['fileno %d key %d start %d swap_file_sz %d chain %s' % (e['f'], e['key'], e['start'], e['sfs'],
                                                                   [(c['s'], c['size'], c['next']) for c in e['chain']]) for e in out.get('ent', [])]
    return 'image (%d slots, key->fileno %s): [%s]  =>  readable: %s; free: %s; crash: %r' % (
        n, kf, ', '.join(sv(v) for v in img), ents or 'none', out.get('free'), out.get('crash', ''))


# ---------------------------------------------------------------------------------------------
def judge(ctx, cases, metas, prej, irej, shapes):
    """P-rejections -> classified witnesses (known finding or VIOLATION); I-rejections -> drift"""
    for i in prej:
        n, kf, img, line, tag = metas[i]
        out = cases[i]['out']
        cls = analyse(n, kf, img, out)
        key = cls['shape'] + ('/' + cls['other'] if cls['other'] else '')
        shapes[key] = shapes.get(key, 0) + 1
        if len(ctx.violations) < 5:
            report(ctx, 'rock rebuild made an entry readable that C57 forbids (or lost/duplicated slots, or crashed): ' + describe(n, kf, img, out),
                   {'class': cls, 'line': line, 'n': n, 'kf': kf, 'img': cases[i]['img'], 'out': out, 'tag': tag})
    for i in irej:
        if i not in prej and len(ctx.drift) < 5:
            n, kf, img, line, tag = metas[i]
            ctx.drift.append('index differs from RockRebuild.tla for %s: %s' % (line, describe(n, kf, img, cases[i]['out'])))


def model_check(ctx):
    """Design step: the machine over ALL images of the bounded domain (BFS over image prefixes)."""
    mod = os.path.join(SPEC, 'MC_RockRebuild.tla')
    if os.environ.get('VERIF_C57_SKIP_MC'):        # mutant runs: the design step does not depend on the tree
        ctx.notes.append('model checking of the specification skipped (VERIF_C57_SKIP_MC)')
        return
    # *_cur: the machine as the tree is now (anchored + size checks of e2d5c44/204d147, no leftovers check): C57 up to the
    # foreign-slot shape (F6c); *_fixed: with the leftovers check + undo as well: strict C57; *_old (thorough): before the repairs
    runs = [('MC_RockRebuild_q_cur.cfg', 900)]      # quick: the machine as it is; the fully repaired one is re-checked in the thorough tier
    if ctx.thorough:          # the t space (payload sizes {1,2}) contains the q space
        runs = [('MC_RockRebuild_t_cur.cfg', 3000), ('MC_RockRebuild_t_fixed.cfg', 3000),
                 ('MC_RockRebuild_c_cur.cfg', 3000), ('MC_RockRebuild_c_fixed.cfg', 3000), ('MC_RockRebuild_q_old.cfg', 3000)]
    for cfg, to in runs:
        res = vlib.tlc_must_pass(ctx, mod, os.path.join(SPEC, cfg), timeout=to, args=['-noGenerateSpecTE'])
        ctx.log('TLC %s: %d states, depth %d, %.0fs' % (cfg, res.distinct, res.depth, res.wall))
        ctx.add('mc_states', res.distinct)
    ctx.cov['mc_configs'] = [c for c, _ in runs]


def run(ctx):
    exe = build_driver(ctx)
    ctx.log('driver built')
    model_check(ctx)
    items = gen_images(ctx)
    lines = [case_line(i, n, kf, img) for i, (n, kf, img, tag) in enumerate(items)]
    ctx.log('%d images' % len(items))
    outs = run_driver_cases(ctx, exe, lines, 'img', procs=None)
    skipped = [i for i, o in enumerate(outs) if o.get('skipped')]
    if skipped:
        ctx.cov['images_skipped_after_repeated_crashes'] = len(skipped)
        keep = [i for i, o in enumerate(outs) if not o.get('skipped')]
        items, lines, outs = [items[i] for i in keep], [lines[i] for i in keep], [outs[i] for i in keep]
    # which repairs does this tree have? (selects the I-layer variant; the P-layer does not depend on it)
    fix = repairs_from([(tag[6:], o['out']) for (n, kf, img, tag), o in zip(items, outs) if tag.startswith('probe:')])
    ctx.cov['repairs_detected'] = fix
    cases = []
    for i, ((n, kf, img, tag), o) in enumerate(zip(items, outs)):
        cases.append({'id': i, 'n': n, 'kf': [k % n for k in kf], 'fix': fix, 'img': [slot_tla(v) for v in img], 'out': tla_out(o['out'])})
    prej, irej = ucheck.conformance(ctx, os.path.join(SPEC, 'Conf_RockRebuild.tla'), os.path.join(SPEC, 'Conf_RockRebuild.cfg'),
                                    cases, 'rock', chunk=8000)
    ctx.log('TLC evaluated %d indexes of crafted images: P-rejected %d, I-rejected %d' % (len(cases), len(prej), len(irej)))
    shapes = {}
    judge(ctx, cases, [(n, [k % n for k in kf], img, lines[i], tag) for i, (n, kf, img, tag) in enumerate(items)], prej, irej, shapes)
    # T3 (iii): images written by the real store, then mutated
    scases, sdescr, wl = stored_image_cases(ctx, exe, fix)
    sprej, sirej = ucheck.conformance(ctx, os.path.join(SPEC, 'Conf_RockRebuild.tla'), os.path.join(SPEC, 'Conf_RockRebuild.cfg'),
                                      scases, 'rockstored', chunk=8000)
    ctx.log('TLC evaluated %d indexes of stored+mutated images: P-rejected %d, I-rejected %d' % (len(scases), len(sprej), len(sirej)))
    judge(ctx, scases, [(c['n'], c['kf'], c['img'], d, 'stored') for c, d in zip(scases, sdescr)], sprej, sirej, shapes)
    ctx.cov['stored_images'] = len(scases)
    ctx.cov['stored_images_with_readable_entries'] = sum(1 for c in scases if c['out']['ent'])
    ctx.cov['stored_workload_writes'] = len(wl['writes'])
    if scases and len(scases[0]['out']['ent']) != 5:
        raise MachineryError('the unmutated stored image should index its 5 entries, got %r' % (scases[0]['out'],))
    prej = list(prej) + list(sprej)
    irej = list(irej) + list(sirej)
    cases_all = cases + scases
    # evidence
    ctx.cov['impl_distinct'] = sum(1 for c in cases_all if any(v['t'] == 'H' for v in c['img']))   # non-trivial: at least one sane slot header
    ctx.cov['images_total'] = len(cases_all)
    ctx.cov['images_by_family'] = {}
    for (_, _, _, tag) in items:
        t = tag.split(':')[0]
        ctx.cov['images_by_family'][t] = ctx.cov['images_by_family'].get(t, 0) + 1
    ctx.cov['images_with_readable_entries'] = sum(1 for c in cases if c['out']['ent'])
    ctx.cov['images_with_multi_slot_entry'] = sum(1 for c in cases if any(len(e['chain']) > 1 for e in c['out']['ent']))
    ctx.cov['images_with_two_entries'] = sum(1 for c in cases if len(c['out']['ent']) > 1)
    ctx.cov['driver_crashes'] = sum(1 for c in cases if not c['out']['done'])
    ctx.cov['p_rejected'] = len(prej)
    ctx.cov['p_rejected_by_shape'] = shapes
    ctx.cov['i_rejected'] = len(irej)
    for i in (0, 1, 2, 3, len(cases) // 2):
        ctx.sample({'line': lines[i], 'out': cases[i]['out']})
    ctx.cov['rule'] = ('image families: x2 = every 2-slot image over {E, G, H(key 1..2, first, next, pay, esz, inode metadata ok/bad)} for '
                       'two key->anchor maps; s3/s4/s4k3/s6k3 = seeded random images of 3/4/6 slots with 2/3 keys; x3 (thorough) = every second '
                       'image of the TLC quick space (parity = seed parity); directed = garbage kinds, truncation, metadata sizes/keys/flags, chain shapes; probes = the '
                       'finding witnesses; stored = a db written by the real Rock::SwapDir (5 entries of 1-3 slots, 63 slots) with 1-3 slot header fields '
                       'mutated. All images are distinct (de-duplicated by driver line); non-trivial = at least one sane slot header. TLC additionally '
                       'explores the machine over the complete bounded image space (mc_states).')
    ctx.assumptions += [
        'the index is observed through Ipc::StoreMap (openForReadingAt/readableSlice on a second attachment to the same segments) and by '
        'popping Rock::SwapDir free slots; rebuild runs in the foreground (opt_foreground_rebuild) in one process without -S',
        'driver link closure: ' + STUBS_USED,
        'an assertion/escaped exception/sanitizer report in the driver is reported as crash of that case (P: rebuild terminates without crashing)',
        'payload bytes beyond the inode metadata prefix are not part of the image model (the rebuild does not read them)']
