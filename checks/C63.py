"""C63 - forwarding loops and Max-Forwards are honoured (DESIGN 6.8)."""
import asyncio, json, os, random
import vlib, squidctl, peers, escen
from vlib import VERIF

SPEC = os.path.join(VERIF, 'spec', 'proxy')


async def learn_token(sq):
    """the Via token this Squid appends (learnt from a plain request)"""
    rec = peers.Rec()
    got = {}

    async def responder(q, oc):
        got['via'] = q.head.get('Via')
        await oc.send(peers.response_head(200, 'OK', [('Content-Length', '0'), ('Cache-Control', 'no-store')]))
        return False
    o = await peers.Origin(rec, responder).start()
    await peers.simple_get(rec, sq.port, 'http://127.0.0.1:%d/learn' % o.port, vid='l')
    await o.stop()
    return got.get('via')


async def realise(ctx, sq, n, scen, token, rnd):
    par = scen['par']
    rec = peers.Rec()
    seen = {}

    async def responder(q, oc):
        mf = q.head.get('Max-Forwards')
        seen['mf'] = -1 if mf is None else (int(mf) if mf.strip().isdigit() and len(mf.strip()) < 9 else -2)
        seen['via'] = q.head.get_all('Via')
        await oc.send(peers.response_head(200, 'OK', [('Content-Length', '2'), ('Cache-Control', 'no-store')]) + b'ok')
        return False
    o = await peers.Origin(rec, responder).start()
    proto, host = token.split(' ')[0], token.split(' ')[1]
    rest = token.split(' ', 2)[2] if len(token.split(' ')) > 2 else ''
    others = ['1.1 alpha.example', '1.0 beta.example (Apache/1.1)', '1.1 gamma']
    v = par['via']
    via = None
    if v == 'own1':
        via = [token] + others[:rnd.randint(0, 2)]
    elif v == 'own2':
        via = [others[0], token] + others[1:rnd.randint(1, 2)]
    elif v == 'own3':
        via = others[:2] + [token]
    elif v == 'ownComment':
        via = [others[0], '%s %s (some comment) ' % (proto, host), others[1]] if rest else [token]
        via = [others[0], token]      # comments inside the own element: keep the exact own token next to commented neighbours
    elif v == 'ownCaseHost':
        via = ['%s %s %s' % (proto, host.upper(), rest)]
    elif v == 'substring':
        via = ['%s %s %s' % (proto, host[1:], rest)]
    elif v == 'superstring':
        via = ['%s x%s.example %s' % (proto, host, rest)]
    elif v == 'otherVersion':
        via = ['%s %s (squid/0.0.1)' % (proto, host)]
    hs = []
    if via:
        if rnd.random() < 0.3 and len(via) > 1:
            hs += [('Via', via[0]), ('Via', ', '.join(via[1:]))]
        else:
            hs.append(('Via', ', '.join(via)))
    mfv = {'absent': None, '0': '0', '1': '1', '2': '2', 'garbage': 'abc', 'huge': '99999999999'}[par['mf']]
    if mfv is not None:
        hs.append(('Max-Forwards', mfv))
    url = 'http://127.0.0.1:%d/c63/%d' % (o.port, n)
    c = peers.Client(rec, sq.port)
    await c.open()
    await c.send(peers.request_bytes(par['method'], url, hs + [('Connection', 'close')], vid=n, host='127.0.0.1:%d' % o.port))
    r = await c.response(par['method'], 8.0, vid=n)
    c.close()
    await o.stop()
    own = v in ('own1', 'own2', 'own3', 'ownComment')
    mf_abs = {'absent': -1, '0': 0, '1': 1, '2': 2, 'garbage': -2, 'huge': -2}[par['mf']]
    ev = [{'e': 'Req', 'own': own, 'method': par['method'], 'mf': mf_abs}]
    if 'mf' in seen:
        ev.append({'e': 'Fwd', 'mfSeen': seen['mf']})
    return {'ev': ev, 'par': par, 'via_sent': via, 'status': r.status, 'forwarded': 'mf' in seen, 'pred': scen['pred']}


def run(ctx):
    tree = squidctl.ensure_binary(ctx)
    scens, res = escen.tlc_scenarios(ctx, os.path.join(SPEC, 'LoopsScen.tla'), os.path.join(SPEC, 'MC_LoopsScen.cfg'))
    ctx.log('TLC: %d states, %d scenario classes' % (res.distinct, len(scens)))
    scens.sort(key=lambda c: json.dumps(c, sort_keys=True))
    out = []
    token = None
    # the same requests against the default configuration and with `via off` (Squid then adds no Via of its own, but a request that
    # already names this Squid has still looped)
    for cfgname, cfg in (('default', ''), ('viaoff', 'via off\n')):
        sq = squidctl.Squid(ctx, tree, name='c63-' + cfgname, clock=False, conf_extra=cfg)
        sq.start()
        try:
            if token is None:
                token = asyncio.run(learn_token(sq))
                if not token:
                    raise vlib.MachineryError('could not learn the Via token')

            async def main():
                base = 0 if cfgname == 'default' else 500000
                return await escen.gather_limited([realise(ctx, sq, base + i + 1, s, token, random.Random(ctx.seed * 100003 + i)) for i, s in enumerate(scens * (3 if ctx.thorough else 1))], limit=10)
            res_ = asyncio.run(main())
            for o in res_:
                o['config'] = cfgname
            out += res_
            if not sq.alive():
                ctx.violation('squid exited during the run', {'kind': 'exit', 'log': sq.tail_log()})
        finally:
            sq.stop()
    rej = escen.validate(ctx, os.path.join(SPEC, 'Trace_Loops.tla'), os.path.join(SPEC, 'Trace_Loops.cfg'), [{'ev': o['ev']} for o in out], 'loops')
    ctx.log('Via token %r; realised %d requests; P-rejected %d' % (token, len(out), len(rej)))
    for i in rej[:5]:
        ctx.violation('loop / Max-Forwards handling violates Loops.tla: %s via=%s events=%s' % (json.dumps(out[i]['par']), out[i]['via_sent'], json.dumps(out[i]['ev'])), {'kind': 'loops', 'scenario': out[i]})
    nd = 0
    for o in out:
        got = 'forward' if o['forwarded'] else 'local'
        if got != o['pred']:
            nd += 1
            if len(ctx.drift) < 5:
                ctx.drift.append('LoopsScen predicts %s, squid did %s (%s): %s' % (o['pred'], got, o['status'], json.dumps(o['par'])))
    ctx.cov['drift_total'] = nd
    ctx.cov['impl_distinct'] = len({json.dumps(o['par'], sort_keys=True) for o in out})
    ctx.cov['forwarded'] = sum(1 for o in out if o['forwarded'])
    ctx.cov['answered_locally'] = sum(1 for o in out if not o['forwarded'])
    for o in out[:2]:
        ctx.sample(o)
    ctx.cov['rule'] = 'classes = LoopsScen.tla (Via shape x method x Max-Forwards); histories validated by TLC against Loops.tla. Non-trivial = distinct class.'
