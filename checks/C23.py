"""C23 - status-line parsing is correct and segmentation-independent (DESIGN 6.3).  Technique T3 with segmentation on
Http::One::ResponseParser, driven the way HttpStateData::processReplyHeader drives it.  StatusLine.tla holds the status-line grammar
(HTTP/1.x and ICY, strict and relaxed delimiters/line ends, three digits 100..599), the HTTP/0.9 rule and the code-shaped function
RespHead; TLC model-checks the prefix law and the grammar laws of the specification (MC_StatusLine) and evaluates Conf_StatusLine on
every case: CaseOk = the one-shot outcome obeys the grammar and every segmented run ends in the one-shot outcome after answering
"more" to every earlier call; ImplOk = one-shot outcome equals RespHead."""
import os
import random

import vlib
import h1parse_common as H

BASES = H.L('HTTP/1.1 200 OK\r\n\r\n', 'HTTP/1.0 404 Not Found\r\nA: b\r\n c\r\n\r\nbody', 'ICY 200 OK\r\nA: b\r\n\r\n', 'HTTP/1.1 200\r\n\r\n',
            'HTTP/1.1\t200\x0bOK\n x\n\n', 'hello world\r\n\r\n', 'HTTP/1.1 599 \x80\xff\r\n\r\n', 'HTTP/1.1 100 Continue\r\n\r\nHTTP/1.1 200 OK\r\n\r\n',
            'HTTP/1.1 200 OK\r\n\x0bfoo\r\nA: b\r\n\tc\r\n\r\n', 'HTTP/2.0 200 OK\r\n\r\n')


def gen(ctx):
    rnd = random.Random(ctx.seed)
    cs = H.Cases()
    modes = lambda n: (0, 1, -1) if n % 4 == 0 else (0, 1)
    k = 3 if ctx.thorough else 2
    sk = H.skeleton(H.RSP_SLOTS, k)
    for n, w in enumerate(sk):
        for r in modes(n):
            cs.add('rsp', w, r, 1024, 'all')
    for w in H.token_sequences(H.spec_tokens('MC_StatusLine'), 4 if ctx.thorough else 3):   # the bounded domain of MC_StatusLine
        for r in (0, 1):
            cs.add('rsp', w, r, 1024, 'all')
    n_skel = len(cs)
    # every status value 000..999 (three digits) and a few 1-, 2- and 4-digit ones, strict and relaxed
    for code in range(0, 1000):
        for r in (0, 1):
            cs.add('rsp', b'HTTP/1.1 %03d X\r\n\r\n' % code, r, 1024, 'all' if code % 50 in (0, 49) else '-')
    for txt in ('1', '20', '2000', '6000', '0200', '99', '100000'):
        for r in (0, 1):
            cs.add('rsp', ('HTTP/1.1 %s X\r\n\r\n' % txt).encode(), r, 1024, 'all')
    n_codes = len(cs) - n_skel
    # reply_header_max_size lattice
    for w in BASES[:5] if not ctx.thorough else BASES:
        for lim in range(1, len(w) + 16, 1 if ctx.thorough else 2):
            for r in (0, 1):
                cs.add('rsp', w, r, lim, 'all')
    n_lim = len(cs) - n_skel - n_codes
    for bi, base in enumerate(BASES):
        vals = range(256) if (ctx.thorough and bi < 2) else H.CLASS_BYTES
        for n, w in enumerate(H.mutations(base, vals, ('rep', 'ins', 'del') if (ctx.thorough or bi < 2) else ('rep', 'del'))):
            for r in modes(n):
                cs.add('rsp', w, r, 1024, 'all')
    n_mut = len(cs) - n_skel - n_codes - n_lim
    pool = BASES + rnd.sample(sk, min(len(sk), 300))
    for n in range(20000 if ctx.thorough else 3000):
        w = H.random_mutant(rnd, rnd.choice(pool))
        cs.add('rsp', w, rnd.choice((0, 1)), rnd.choice((1024, 1024, len(w), len(w) + 3, max(1, len(w) - 5))), 'all')
    for n in range(400 if ctx.thorough else 60):
        nf = rnd.choice((1, 5, 40, 120))
        hdr = b''.join(b'F%d: %s\r\n%s' % (i, b'v' * rnd.randint(0, 40), b' cont\r\n' if rnd.random() < 0.1 else b'') for i in range(nf))
        w = rnd.choice((b'HTTP/1.1 200 ', b'HTTP/1.0 302 ', b'ICY 200 ')) + b'R' * rnd.choice((0, 2, 300)) + b'\r\n' + hdr + b'\r\n' + b'B' * rnd.choice((0, 7))
        if rnd.random() < 0.3:
            w = H.random_mutant(rnd, w, 2)
        lim = rnd.choice((4096, 65536, len(w), len(w) + 1, len(w) - 1, 64))
        cs.add('rsp', w, rnd.choice((0, 1)), max(1, lim), H.random_cuts(rnd, len(w), 8))
    return cs, {'skeleton_and_mc_token_domain': n_skel, 'status_values': n_codes, 'limit_lattice': n_lim, 'byte_mutations': n_mut,
                'random_and_large': len(cs) - n_skel - n_codes - n_lim - n_mut, 'skeleton_k': k}


def classify(o):
    if o['ub']:
        return {'kind': 'undefined-behaviour'}, None
    r = H.bad_run(o)
    return {'kind': 'segmentation' if r else 'grammar', 'mode': 'strict' if o['relaxed'] == 0 else 'relaxed'}, r


def run(ctx):
    exe = H.build(ctx)
    ctx.log('driver built')
    mc = vlib.tlc_must_pass(ctx, os.path.join(H.SPEC, 'MC_StatusLine.tla'),
                            os.path.join(H.SPEC, 'MC_StatusLine_thorough.cfg' if ctx.thorough else 'MC_StatusLine.cfg'),
                            workers=vlib.NCPU, timeout=1500, label='mc-statusline')
    ctx.log('MC_StatusLine: %d states (prefix law and grammar laws of the specification)' % mc.distinct)
    cs, parts = gen(ctx)
    ctx.log('%d cases' % len(cs))
    outs = H.run_cases(ctx, exe, cs)
    nruns = sum(o['nruns'] for o in outs)
    ctx.log('driver made %d segmented runs' % nruns)
    prej, irej = H.conformance(ctx, 'Conf_StatusLine', outs, 'statusline')
    ctx.log('TLC evaluated %d cases: P-rejected %d, I-rejected %d' % (len(outs), len(prej), len(irej)))
    for i in prej:
        o = outs[i]
        cls, r = classify(o)
        T = o['tuples']
        if o['ub']:
            what = 'UBSan reported undefined behaviour while the response parser worked on %r (relaxed_header_parser=%d)' % (bytes(o['in'])[:100], o['relaxed'])
        elif r:
            what = 'response %r (relaxed_header_parser=%d, reply_header_max_size=%d) cut at %s: calls answered %s, one-shot parse answers %s' % (
                bytes(o['in'])[:100], o['relaxed'], o['limit'], r['cuts'][:12], [str(H.tuple_text(T[x]))[:200] for x in r['mid'][-2:] + [r['fin']]],
                str(H.tuple_text(T[o['one']]))[:300])
        else:
            what = 'response %r (relaxed_header_parser=%d): parser reported %s, which StatusLine.tla does not allow' % (
                bytes(o['in'])[:100], o['relaxed'], str(H.tuple_text(T[o['one']]))[:300])
        ctx.violation(what, {'class': cls, 'case': H.project(o), 'run': r, 'line': cs.lines[i][:600]})
        if len(ctx.violations) >= 5:
            break
    for i in irej:
        if i not in prej and len(ctx.drift) < 5:
            ctx.drift.append('one-shot outcome differs from RespHead (StatusLine.tla) on %r relaxed=%d limit=%d: %s' % (
                bytes(outs[i]['in'])[:80], outs[i]['relaxed'], outs[i]['limit'], H.tuple_text(outs[i]['tuples'][outs[i]['one']])))
    ctx.cov['impl_steps'] = nruns + len(outs)
    ctx.cov['segmented_runs'] = nruns
    ctx.cov['impl_distinct'] = sum(1 for o in outs if o['tuples'][o['one']]['o'] != 'more')
    ctx.cov['generated'] = parts
    ctx.cov['by_outcome'] = H.outcome_counts(outs)
    ctx.cov['http09_gateway'] = sum(1 for o in outs if o['tuples'][o['one']]['o'] == 'ok' and o['tuples'][o['one']]['consumed'] == 0)
    ctx.cov['ub_reports'] = sum(1 for o in outs if o['ub'])
    for o in (outs[0], outs[len(outs) // 3], outs[-1]):
        ctx.sample({'input': bytes(o['in'])[:100].decode('latin-1'), 'relaxed': o['relaxed'], 'limit': o['limit'], 'runs': o['nruns'],
                    'one_shot': H.tuple_text(o['tuples'][o['one']])})
    ctx.cov['rule'] = ('status-line skeleton (magic, minor, delimiter, status, delimiter, reason, line end, header block) with at most k deviating slots; every token sequence of the MC_StatusLine domain up to 3 (thorough: 4) tokens; '
                       'every status value 000..999; reply_header_max_size lattice; single-byte mutations of valid heads; seeded random mutants: each '
                       'delivered at every 2-way split point and one byte at a time; large heads at 8 random 2..5-way segmentations. '
                       'evaluations = parser runs (one-shot + segmented). non-trivial distinct case = distinct (input, mode, limit) whose one-shot outcome is a decision.')
    ctx.assumptions += [
        'a segmented run stops at the first call after which the parser no longer needs more data; premature EOF handling is outside the parser',
        '"HTTP/ICY prefix": inputs that start with "HTTP/" but not "HTTP/1." are left open by the P-layer (today: gatewayed as HTTP/0.9)',
        'driver linked like tests/testHttp1Parser (+SquidConfig.cc), compiled from the working tree with ASan/UBSan']
