"""C27 - integer parsing is exact and overflow-safe (DESIGN 6.3 C27). Technique T3: TLC evaluates IntParse.tla on every
result the real parsers returned (boundary lattice generated here, values travel as decimal digit arrays)."""
import os, random
import vlib, ucheck
from vlib import VERIF

SPEC = os.path.join(VERIF, 'spec', 'syntax')
DIG = '0123456789abcdefghijklmnopqrstuvwxyz'


def tobase(n, b):
    if n == 0:
        return '0'
    s = ''
    while n:
        s = DIG[n % b] + s
        n //= b
    return s


def hx(s):
    b = s if isinstance(s, bytes) else s.encode('latin-1')
    return b.hex() if b else '-'


def gen(ctx):
    rnd = random.Random(ctx.seed)
    lines = []
    seen = set()

    def add(l):
        if l not in seen:
            seen.add(l)
            lines.append(l)
    I64MAX, I64MIN = 2 ** 63 - 1, -2 ** 63
    for base in (8, 10, 16):
        vals = set()
        for d in (-2, -1, 0, 1, 2):
            vals |= {I64MAX + d, -I64MIN + d, 2 ** 64 + d, 2 ** 31 + d, 2 ** 32 + d, d + 2}
        k = 1
        while base ** k < 2 ** 66:
            for d in (-1, 0, 1):
                vals.add(base ** k + d)
            k += 1 if ctx.thorough else 3
        vals |= {(I64MAX // base) * base + c for c in range(base)} | {((-I64MIN) // base) * base + c for c in range(base)}
        for v in sorted(x for x in vals if x >= 0):
            body = tobase(v, base)
            for sgn in ('', '-', '+'):
                for pre in (('', '0x', '0X') if base == 16 else ('', '0') if base == 8 else ('',)):
                    for tail in ('', 'g', ' ', '9' if base == 8 else ''):
                        s = sgn + pre + body + tail
                        for bparam in ((base, 0) if (base != 16 or pre) else (base,)):
                            for allow in (1, 0):
                                lims = [-1, len(s), len(s) - 1] + ([0, 1, 2, 3, len(s) + 3] if (ctx.thorough or v in (I64MAX, -I64MIN)) else [])
                                for lim in lims:
                                    add('int64 %s %d %d %d' % (hx(s), bparam, allow, lim))
                if base == 10:
                    for lead in ('', ' ', '\t '):
                        for tail in ('', 'x', '-'):
                            add('offset %s' % hx(lead + sgn + body + tail))
                            add('int %s' % hx(lead + sgn + body + tail))
    # digits that follow the point of overflow: the value's prefix equals limit div base, the next digit decides (<=, > limit mod base),
    # and one or two more digits of every size follow - an overflow once detected must stay detected
    for base in (8, 10, 16):
        digs = '0123456789abcdef'[:base]
        for limit in (I64MAX, -I64MIN):
            prefix = tobase(limit // base, base)
            for d1 in digs:
                for d2 in digs:
                    tails = [d1 + d2] + ([d1 + d2 + d3 for d3 in (digs[0], digs[-1], rnd.choice(digs))] if (ctx.thorough or d2 in (digs[0], digs[-1])) else [])
                    for t in tails:
                        for sgn in ('', '-', '+'):
                            pre = rnd.choice(('0x', '0X')) if base == 16 else '0' if base == 8 else ''
                            add('int64 %s %d %d %d' % (hx(sgn + prefix + t), base, 1, -1))
                            if pre:
                                add('int64 %s %d %d %d' % (hx(sgn + pre + prefix + t), 0, 1, -1))
                            if base == 10 and sgn != '+':
                                add('offset %s' % hx(sgn + prefix + t))
    # corner shapes
    for s in ['', '-', '+', '0x', '0X', '0xg', '-0x', '0', '-0', '+0', '00', '08', '0x0', 'x1', ' 1', '1 ', '--1', '+-1', 'a', 'A', 'z', '0xz', '١']:
        for bparam in (0, 8, 10, 16):
            for allow in (1, 0):
                for lim in (-1, 0, 1, 2, 3):
                    add('int64 %s %d %d %d' % (hx(s.encode('utf-8')), bparam, allow, lim))
        add('offset %s' % hx(s.encode('utf-8')))
        add('int %s' % hx(s.encode('utf-8')))
    # seeded random strings over a digit-heavy alphabet, random lengths
    alpha = '0123456789abcdefxX+- gG'
    for _ in range(6000 if ctx.thorough else 1500):
        n = rnd.choice([1, 2, 3, 5, 8, 16, 19, 20, 21, 22, 25, 40])
        s = ''.join(rnd.choice(alpha if rnd.random() < 0.3 else '0123456789') for _ in range(n))
        if rnd.random() < 0.5:
            s = rnd.choice(['', '-', '+', '0x', '-0x', '0']) + s
        add('int64 %s %d %d %d' % (hx(s), rnd.choice([0, 8, 10, 16]), rnd.randint(0, 1), rnd.choice([-1, -1, n, rnd.randint(0, n + 2)])))
        if rnd.random() < 0.3:
            add('offset %s' % hx(s))
            add('int %s' % hx(s))
    return lines


def classify(case):
    """witness class used for known-finding matching"""
    s = bytes(case['s']).decode('latin-1')
    cls = {'fn': case['fn']}
    if case['fn'] == 'int64':
        cls['ub'] = bool(case['ub'])
        cls['input'] = 'INT64_MIN' if s.lstrip('+-').lstrip('0xX') and case['ub'] and s.startswith('-') else 'other'
    if case['fn'] == 'int':
        digs = s.strip().lstrip('+-')
        n = 0
        for ch in digs:
            if not ch.isdigit():
                break
            n = n * 10 + int(ch)
        cls['shape'] = 'value does not fit int' if n >= 2 ** 31 else 'other'
    return cls


def run(ctx):
    exe = ucheck.build_like_test(ctx, 'int', 'testHttpRange', ['u_int.cc', 'uhelp.cc'], add_libs=['src/parser/libparser.la'])
    lines = gen(ctx)
    ctx.log('driver built; %d cases' % len(lines))
    r = vlib.run_driver(exe, '\n'.join(lines) + '\n', timeout=900)
    import json
    outs = [json.loads(l) for l in r.stdout.splitlines() if l.startswith('{')]
    if len(outs) != len(lines):
        raise vlib.MachineryError('driver answered %d of %d (rc=%s) %s' % (len(outs), len(lines), r.returncode, r.stderr[-800:]))
    prej, irej = ucheck.conformance(ctx, os.path.join(SPEC, 'Conf_IntParse.tla'), os.path.join(SPEC, 'Conf_IntParse.cfg'), outs, 'intparse')
    ctx.log('TLC evaluated %d cases: P-rejected %d, I-rejected %d' % (len(outs), len(prej), len(irej)))
    for i in prej:
        c = outs[i]
        ctx.violation('result is not what IntParse.tla allows: fn=%s input=%r got ok=%s neg=%s mag=%s consumed=%s ub=%s' % (
            c['fn'], bytes(c['s']).decode('latin-1'), c['ok'], c['neg'], ''.join(map(str, reversed(c['mag']))) or '0', c['consumed'], c['ub']),
            {'class': classify(c), 'case': c, 'line': lines[i]})
        if len(ctx.violations) >= 5:
            break
    for i in irej:
        if i not in prej and len(ctx.drift) < 5:
            ctx.drift.append('I-layer mismatch on %r' % (lines[i],))
    ctx.cov['impl_distinct'] = len(outs)
    ctx.cov['by_function'] = {f: sum(1 for o in outs if o['fn'] == f) for f in ('int64', 'offset', 'int')}
    ctx.cov['ub_reports'] = sum(1 for o in outs if o['ub'])
    for o in outs[:1] + outs[len(outs) // 2:len(outs) // 2 + 1]:
        ctx.sample({k: (bytes(o['s']).decode('latin-1') if k == 's' else o[k]) for k in o})
    ctx.cov['rule'] = ('digit strings within +-2 of every power of the base, of INT64_MIN/MAX, 2^31, 2^32, 2^64 in bases 8/10/16 (and base 0 with '
                       'prefixes), all signs, trailing garbage, limits; corner shapes; seeded random strings. Every case is distinct (de-duplicated); '
                       'non-trivial = has at least one digit.')
    ctx.assumptions += ['UBSan (-fsanitize=undefined) makes undefined behaviour observable as the ub flag; absence of a report on explored inputs only',
                        'driver linked like tests/testHttpRange plus parser/libparser.la, all compiled from the working tree']
