"""C01 - response bodies are relayed byte-exactly with correct framing (DESIGN 6.6)."""
import asyncio, json, os, random
import vlib, squidctl, peers, escen
from vlib import VERIF

SPEC = os.path.join(VERIF, 'spec', 'proxy')


PARENT_TABLE = {}        # scenario number -> responder, for the scenarios that go through the two parents


async def parent_responder(q, oc):
    r = PARENT_TABLE.get(q.target.rstrip('/').rsplit('/', 1)[-1])
    if r is None:
        await oc.send(peers.response_head(404, 'NF', [('Content-Length', '0')]))
        return False
    return await r(q, oc)


def sizes_for(units, rnd, big):
    out = []
    for _ in range(units):
        lat = escen.LATTICE[1:] if big else escen.SMALL
        out.append(rnd.choice(lat))
    return out


async def realise(ctx, sq, rec_all, n, scen, rnd, big, retry502=False):
    par = scen['par']
    rec = peers.Rec()
    usizes = sizes_for(par['units'], rnd, big)
    total = sum(usizes)
    version = (n % 4000) + 1
    body = peers.body_bytes(version, total)
    status = par['status']
    reason = {200: 'OK', 404: 'Not Found', 500: 'Internal Server Error', 204: 'No Content', 304: 'Not Modified'}[status]
    seg = rnd.choice(['one', 'perbyte-head', 'units', 'random', 'firstk', 'firstk'])
    firstk = rnd.randint(1, 16)
    abort_at = par['abortAt']
    produced = {'len': 0, 'fin': 'none', 'attempts': 0}
    done = asyncio.Event()

    async def responder(q, oc):
        produced['attempts'] += 1
        if retry502 and produced['attempts'] == 1:
            # the first destination answers with a complete, re-forwardable error; Squid discards it and tries the next address
            await oc.send(peers.response_head(502, 'Bad Gateway', [('Content-Length', '9'), ('Date', peers.http_date()), ('X-Verif-First', '1')]) + b'not here\n')
            return False
        try:
            return await responder2(q, oc)
        finally:
            done.set()

    async def responder2(q, oc):
        hs = [('Date', peers.http_date()), ('X-Verif-Origin', str(n)),
              ('Cache-Control', 'max-age=3600' if par['cacheable'] else 'no-store')]
        if status == 304:
            hs.append(('ETag', '"x"'))
        fr = par['oframing']
        if status in (204, 304):
            pass
        elif fr == 'length':
            hs.append(('Content-Length', str(total)))
        elif fr == 'chunked':
            hs.append(('Transfer-Encoding', 'chunked'))
        else:
            hs.append(('Connection', 'close'))
        head = peers.response_head(status, reason, hs)
        if seg == 'perbyte-head':
            await oc.send_segments(head, range(1, len(head)), delay=0.0005)
        elif seg == 'firstk':
            await oc.send_segments(head, [firstk], delay=0.02)
        else:
            await oc.send(head)
        pos = 0
        for k, us in enumerate(usizes):
            if abort_at >= 0 and k >= abort_at:
                break
            part = body[pos:pos + us]
            wire = (b'%x\r\n' % len(part) + part + b'\r\n') if fr == 'chunked' else part
            pos += len(part)
            produced['len'] = pos
            if seg == 'random' and len(wire) > 2:
                cuts = sorted(rnd.sample(range(1, len(wire)), min(3, len(wire) - 1)))
                await oc.send_segments(wire, cuts, delay=0.001)
            elif seg == 'one':
                await oc.send(wire, drain=False)
            else:
                await oc.send(wire)
                await asyncio.sleep(0.002)
        if abort_at >= 0:
            # a Content-Length message whose declared bytes were all written is complete whatever happens to the connection next
            produced['fin'] = 'complete' if (fr == 'length' and pos == total) or status in (204, 304) else 'aborted'
            await asyncio.sleep(0.02)
            if fr == 'close':
                oc.reset()
            else:
                oc.close()
            return True
        if fr == 'chunked' and status not in (204, 304):
            await oc.send(b'0\r\n\r\n')
        produced['fin'] = 'complete'
        if fr == 'close' and status not in (204, 304):
            await asyncio.sleep(0.01)
            oc.close()
            return True
        return False

    o = await peers.Origin(rec, responder).start()
    o2 = None
    url = 'http://127.0.0.1:%d/c01/%d' % (o.port, n)
    if retry502:
        # two cache_peer parents (shared by all such scenarios, see run()) serve /c01r/<n>: whichever is asked first says 502
        PARENT_TABLE[str(n)] = responder
        url = 'http://127.0.0.1:%d/c01r/%d' % (o.port, n)
    ver = 'HTTP/1.1' if par['cver'] == 11 else 'HTTP/1.0'
    try:
        r = await peers.simple_get(rec, sq.port, url, vid=n, version=ver, timeout=15.0)
        try:
            await asyncio.wait_for(done.wait(), 5.0)
        except asyncio.TimeoutError:
            pass
    finally:
        await o.stop()
        PARENT_TABLE.pop(str(n), None)
    squid_err = r.head is None or r.head.has('X-Squid-Error')
    intact, bad = peers.project_body(r.body, version)
    ev = [{'e': 'Produce', 'status': status, 'framing': par['oframing'] if status not in (204, 304) else 'none',
           'full': total, 'len': produced['len'], 'fin': produced['fin'] if produced['fin'] != 'none' else 'aborted'},
          {'e': 'Consume', 'status': r.status if r.status is not None else 0, 'framing': r.framing or 'none',
           'declared': r.declared if r.declared is not None else -1, 'len': len(r.body), 'intact': bool(intact),
           'complete': bool(r.complete), 'squidError': bool(squid_err), 'cver': par['cver']}]
    return {'ev': ev, 'scen': par, 'sizes': usizes, 'seg': seg if seg != 'firstk' else 'firstk%d' % firstk, 'pred_cframing': scen['cframing'], 'first_bad': bad, 'n': n, 'retry502': bool(retry502), 'attempts': produced['attempts']}


async def main_async(ctx, sq, scens, rnd, parent_ports):
    out = []
    batch = []
    parents = [await peers.Origin(peers.Rec(), parent_responder, name='pa%d' % i).start(port=pt) for i, pt in enumerate(parent_ports)]
    n = 0
    for rep in range(10 if ctx.thorough else 1):
        for sc in scens:
            n += 1
            big = (rnd.random() < (0.25 if ctx.thorough else 0.04)) and sc['par']['units'] <= 2
            batch.append(realise(ctx, sq, None, n, sc, random.Random(ctx.seed * 100003 + n), big))
    # the same after a re-forwarded error: the first address of a two-address origin answers 502, the second plays the scenario
    cand = [sc for sc in scens if sc['par']['status'] == 200 and sc['par']['units'] >= 1]
    rnd.shuffle(cand)
    for j, sc in enumerate(cand[:(40 if ctx.thorough else 12)]):
        batch.append(realise(ctx, sq, None, 70000 + j, sc, random.Random(ctx.seed * 389 + j), False, retry502=True))
    res = await escen.gather_limited(batch, limit=10)
    for p in parents:
        await p.stop()
    return res


def run(ctx):
    tree = squidctl.ensure_binary(ctx)
    scens, res = escen.tlc_scenarios(ctx, os.path.join(SPEC, 'RelayImpl.tla'), os.path.join(SPEC, 'MC_RelayImpl.cfg'))
    ctx.log('TLC: %d distinct states, %d scenario classes' % (res.distinct, len(scens)))
    rnd = random.Random(ctx.seed)
    if not ctx.thorough:
        # quick: every (status, oframing, abort/no-abort, cver) combination at least once, units sampled
        rnd.shuffle(scens)
        keep, seen = [], {}
        for s in scens:
            p = s['par']
            k = (p['status'], p['oframing'], p['abortAt'] >= 0, p['cver'], p['cacheable'], min(p['units'], 2))
            if seen.get(k, 0) < 1:
                seen[k] = seen.get(k, 0) + 1
                keep.append(s)
        scens = keep
    pp = [squidctl.free_port(), squidctl.free_port()]
    sq = squidctl.Squid(ctx, tree, cache_mem='64 MB', conf_extra='maximum_object_size_in_memory 4 MB\nread_timeout 10 seconds\n' +
                        'cache_peer 127.0.0.1 parent %d 0 no-query no-digest no-netdb-exchange name=c01pa\ncache_peer 127.0.0.1 parent %d 0 no-query no-digest no-netdb-exchange name=c01pb\n' % tuple(pp) +
                        'acl c01r urlpath_regex ^/c01r/\ncache_peer_access c01pa allow c01r\ncache_peer_access c01pb allow c01r\nnever_direct allow c01r\nalways_direct allow !c01r\n')
    sq.start()
    try:
        hist = asyncio.run(main_async(ctx, sq, scens, rnd, pp))
        alive = sq.alive()
    finally:
        sq.stop()
    if not alive:
        ctx.violation('squid exited during the run', {'kind': 'exit', 'log': sq.tail_log()})
    rej = escen.validate(ctx, os.path.join(SPEC, 'Trace_Relay.tla'), os.path.join(SPEC, 'Trace_Relay.cfg'),
                         [{'ev': h['ev']} for h in hist], 'relay')
    ctx.log('realised %d scenarios; P-rejected %d' % (len(hist), len(rej)))
    for i in rej[:5]:
        ctx.violation('transaction is not a behaviour of Relay.tla: %s' % json.dumps(hist[i]['ev']), {'kind': 'relay', 'scenario': hist[i]})
    # drift: client-side framing differs from the I-layer's prediction (never alarms)
    for h in hist:
        c = h['ev'][1]
        if not c['squidError'] and c['framing'] != h['pred_cframing'] and not (h['pred_cframing'] == 'none' and c['len'] == 0):
            if len(ctx.drift) < 5:
                ctx.drift.append('client framing %s, RelayImpl predicts %s for %s' % (c['framing'], h['pred_cframing'], json.dumps(h['scen'])))
    ctx.cov['impl_distinct'] = len({json.dumps([h['scen'], h['sizes'], h['seg']], sort_keys=True) for h in hist})
    ctx.cov['scenario_classes'] = len(scens)
    ctx.cov['after_a_reforwarded_502'] = sum(1 for h in hist if h.get('retry502'))
    ctx.cov['after_a_reforwarded_502_second_attempt_made'] = sum(1 for h in hist if h.get('retry502') and h.get('attempts', 0) >= 2)
    ctx.cov['squid_errors'] = sum(1 for h in hist if h['ev'][1]['squidError'])
    ctx.cov['completed_bodies'] = sum(1 for h in hist if h['ev'][1]['complete'] and h['ev'][1]['len'] > 0)
    ctx.cov['bytes_relayed'] = sum(h['ev'][1]['len'] for h in hist)
    for h in hist[:2] + hist[-1:]:
        ctx.sample({'scenario': h['scen'], 'sizes': h['sizes'], 'segmentation': h['seg'], 'trace': h['ev']})
    ctx.cov['rule'] = ('scenario classes = terminal states of RelayImpl.tla (status x origin framing x body units x abort point x client version x '
                       'cacheable); each realised once over sockets against the rebuilt squid with unit sizes from the buffer-boundary lattice and a '
                       'seeded write segmentation; non-trivial = distinct (class, sizes, segmentation).')
    ctx.assumptions += ['body bytes are projected to (version, length, intact) by the driver (e2e/peers.py project_body); TLC decides on the projection',
                        'a close-delimited message to an HTTP/1.0 client has no in-band end marker; the abort-visibility clause is not applied to it (it is applied to HTTP/1.1 clients)',
                        'origin write timing is a scheduling choice of the single-process driver (seeded), not enumerated']
