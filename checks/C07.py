"""C07 - non-idempotent requests are not resent after reaching the origin (DESIGN 6.6)."""
import asyncio, json, os, random, re, socket, struct
import vlib, squidctl, peers, escen
from vlib import VERIF

SPEC = os.path.join(VERIF, 'spec', 'proxy')
HOSTS = {'one.test': ['127.0.0.1'], 'two.test': ['127.0.0.2', '127.0.0.1'], 'tworef.test': ['127.0.0.9', '127.0.0.1']}


async def realise(ctx, sq, n, scen, rnd):
    par = scen['par']
    arrivals = []          # ids in order of (connection, request) arrival
    first_failed = {'done': False}

    async def handle(reader, writer):
        sock = writer.get_extra_info('socket')
        try:
            while True:
                line = await asyncio.wait_for(reader.readuntil(b'\r\n'), 20.0)
                m = re.search(rb'/c07/(\w+)', line)
                rid = m.group(1).decode() if m else '?'
                arrivals.append(rid)
                is_test = rid == str(n)
                if is_test and not first_failed['done'] and par['fail'] != 'refuse':
                    first_failed['done'] = True
                    f = par['fail']
                    if f == 'close_early':
                        writer.close()
                        return
                    head = await asyncio.wait_for(reader.readuntil(b'\r\n\r\n'), 10.0)
                    if f == 'close_after_head':
                        writer.close()
                        return
                    h = peers.Head((line + head)[:-4])
                    await read_body(reader, h)
                    if f == 'close_after_request':
                        await asyncio.sleep(0.01)
                        writer.close()
                        return
                    writer.write(b'HTTP/1.1 200 OK\r\nContent-Length: 100\r\nX-Verif-Origin: 1\r\n\r\n0123456789')
                    await writer.drain()
                    await asyncio.sleep(0.02)
                    sock.setsockopt(socket.SOL_SOCKET, socket.SO_LINGER, struct.pack('ii', 1, 0))
                    writer.transport.abort()
                    return
                head = await asyncio.wait_for(reader.readuntil(b'\r\n\r\n'), 10.0)
                h = peers.Head((line + head)[:-4])
                await read_body(reader, h)
                writer.write(b'HTTP/1.1 200 OK\r\nContent-Length: 2\r\nCache-Control: no-store\r\nX-Verif-Origin: 1\r\n\r\nok')
                await writer.drain()
        except (asyncio.IncompleteReadError, asyncio.TimeoutError, ConnectionError, OSError, asyncio.LimitOverrunError, asyncio.CancelledError):
            pass
        finally:
            try:
                writer.close()
            except Exception:
                pass

    async def read_body(reader, h):
        te = (h.get('Transfer-Encoding') or '').lower()
        if 'chunked' in te:
            await peers.read_chunked(reader, 10.0)
        elif h.get('Content-Length'):
            await peers.read_exact(reader, int(h.get('Content-Length')), 10.0)

    name = 'one.test' if par['addrs'] == 1 else ('tworef.test' if par['fail'] == 'refuse' else 'two.test')
    servers = []
    port = None
    for attempt in range(20):
        try:
            s1 = await asyncio.start_server(handle, '127.0.0.1', 0 if port is None else port, limit=1 << 20)
            port = s1.sockets[0].getsockname()[1]
            servers = [s1]
            if name == 'two.test':
                servers.append(await asyncio.start_server(handle, '127.0.0.2', port, limit=1 << 20))
            break
        except OSError:
            for s in servers:
                s.close()
            servers, port = [], None
    if par['fail'] == 'refuse' and par['addrs'] == 1:
        for s in servers:
            s.close()            # nobody listens: every attempt is refused
        servers = []
    rec = peers.Rec()
    base = 'http://%s:%d/c07/' % (name, port)
    ev = [{'e': 'Req', 'id': str(n), 'method': par['method']}]
    c = peers.Client(rec, sq.port)
    await c.open()
    try:
        if par['reused']:
            await c.send(peers.request_bytes('GET', base + 'warm%d' % n, [], vid='w%d' % n, host='%s:%d' % (name, port)))
            await c.response('GET', 8.0)
            await asyncio.sleep(0.02)
        body = None
        hs = []
        if par['body'] == 'cl':
            body = peers.body_bytes(n % 4000 + 1, rnd.choice([5, 5000, 70000]))
        elif par['body'] == 'chunked':
            raw = peers.body_bytes(n % 4000 + 1, rnd.choice([5, 5000]))
            hs.append(('Transfer-Encoding', 'chunked'))
            body = peers.chunk_encode(raw, [1000])
        await c.send(peers.request_bytes(par['method'], base + str(n), hs, body=body, vid=n, host='%s:%d' % (name, port)))
        r = await c.response(par['method'], 12.0, vid=n)
    finally:
        c.close()
        await asyncio.sleep(0.05)
        for s in servers:
            s.close()
    for rid in arrivals:
        if rid == str(n):
            ev.append({'e': 'Arrive', 'id': rid})
    return {'ev': ev, 'par': par, 'status': r.status, 'arrivals': sum(1 for a in arrivals if a == str(n)), 'pred': scen['arrivals']}


def run(ctx):
    tree = squidctl.ensure_binary(ctx)
    scens, res = escen.tlc_scenarios(ctx, os.path.join(SPEC, 'ForwardImpl.tla'), os.path.join(SPEC, 'MC_ForwardImpl.cfg'))
    ctx.log('TLC: %d states, %d scenario classes' % (res.distinct, len(scens)))
    scens.sort(key=lambda c: json.dumps(c, sort_keys=True))
    rnd = random.Random(ctx.seed)
    if not ctx.thorough:
        nonid = [s for s in scens if s['par']['method'] in ('POST', 'PATCH', 'FOO')]
        idem = [s for s in scens if s['par']['method'] not in ('POST', 'PATCH', 'FOO')]
        rnd.shuffle(idem)
        scens = nonid + idem[:40]
    out = []
    for cfg, pc in [(c, pc) for c in (['forward_max_tries 25\n'] + (['retry_on_error on\nforward_max_tries 5\n'] if ctx.thorough else [])) for pc in (False, True)]:
        group = [(i, s) for i, s in enumerate(scens) if s['par']['pconnNonretriable'] == pc]
        # names with several addresses come from a DNS server of our own (one loopback address per squid instance): a name listed
        # on several lines of a hosts file keeps only its last address, i.e. a single destination
        dns_ip = '127.53.%d.%d' % (os.getpid() % 250 + 1, len(out) % 100 + 1 + (100 if pc else 0))
        sq = squidctl.Squid(ctx, tree, clock=False, dns=dns_ip, conf_extra='dns_timeout 3 seconds\npositive_dns_ttl 1 hours\n' + cfg + ('server_pconn_for_nonretriable allow all\n' if pc else '') + 'connect_timeout 3 seconds\nread_timeout 8 seconds\n')
        sq.start()
        try:
            async def main():
                dns = await peers.MiniDns(HOSTS).start(dns_ip)
                try:
                    return await escen.gather_limited([realise(ctx, sq, i + 1, s, random.Random(ctx.seed * 100003 + i)) for i, s in group], limit=8)
                finally:
                    ctx.add('dns_queries_answered', len(dns.queries))
                    dns.stop()
            out += asyncio.run(main())
            if not sq.alive():
                ctx.violation('squid exited during the run', {'kind': 'exit', 'log': sq.tail_log()})
        finally:
            sq.stop()
    rej = escen.validate(ctx, os.path.join(SPEC, 'Trace_Forward.tla'), os.path.join(SPEC, 'Trace_Forward.cfg'), [{'ev': o['ev']} for o in out], 'forward')
    ctx.log('realised %d scenarios; P-rejected %d' % (len(out), len(rej)))
    for i in rej[:5]:
        o = out[i]
        ctx.violation('non-idempotent request reached the origin %d times: %s' % (o['arrivals'], json.dumps(o['par'])), {'kind': 'retry', 'scenario': o})
    nd = 0
    for o in out:
        if o['par']['method'] in ('POST', 'PATCH', 'FOO') and o['arrivals'] != o['pred']:
            nd += 1
            if len(ctx.drift) < 5:
                ctx.drift.append('ForwardImpl predicts %d arrivals, observed %d: %s' % (o['pred'], o['arrivals'], json.dumps(o['par'])))
    ctx.cov['drift_total'] = nd
    ctx.cov['impl_distinct'] = len({json.dumps(o['par'], sort_keys=True) for o in out})
    ctx.cov['retried_idempotent_requests'] = sum(1 for o in out if o['arrivals'] > 1)
    ctx.cov['nonidempotent_scenarios'] = sum(1 for o in out if o['par']['method'] in ('POST', 'PATCH', 'FOO'))
    for o in out[:2]:
        ctx.sample({'par': o['par'], 'events': o['ev'], 'client_status': o['status']})
    ctx.cov['rule'] = ('classes = ForwardImpl.tla (method x body framing x failure point of the first upstream attempt x reused persistent connection x server_pconn_for_nonretriable x one/two origin '
                       'addresses, one refusing); origin stubs count on how many upstream connections the request arrived; histories validated by TLC against Forward.tla. '
                       'Non-trivial = distinct class.')
