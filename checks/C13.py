"""C13 - Vary: a stored variant is served only to matching requests (DESIGN 6.7)."""
import json, os, random
import vlib, squidctl, escen, cachesim
from vlib import VERIF

SPEC = os.path.join(VERIF, 'spec', 'proxy')
NAMES = {'h1': 'Accept-Language', 'h2': 'X-Verif-Sel'}
# abstract value id -> concrete field value pools (ids 0 = absent); values of different ids differ as byte strings even
# after whitespace normalisation; several spellings per id only differ in nothing (identical bytes) to stay on the safe side
POOLS = [
    {1: 'a', 2: 'b', 3: 'a, b'},
    {1: 'a","b', 2: 'a', 3: '%22'},
    {1: '', 2: 'x=y', 3: 'x'},
    {1: 'en', 2: 'en-US', 3: 'EN'},
    {1: 'a b', 2: 'a', 3: 'a=b'},
    # values that differ only in how a byte is spelled: raw, percent-encoded, percent-encoded twice / other hex case
    {1: 'en US', 2: 'en%20US', 3: 'en%2520US'},
    {1: '"q"', 2: '%22q%22', 3: '%2522q%2522'},
    {1: '{x}', 2: '%7Bx%7D', 3: '%7bx%7d'},
    {1: 'a^b', 2: 'a%5Eb', 3: 'a%5eb'},
    {1: 'caf\xe9', 2: 'caf%E9', 3: 'caf%e9'},
    {1: 'a\tb', 2: 'a%09b', 3: 'a b'},
]


def spell_name(rnd, n):
    r = rnd.random()
    return n.lower() if r < 0.3 else n.upper() if r < 0.5 else n


def scenario(c, rnd):
    p = c['par']
    pool = rnd.choice(POOLS)

    def hdrs(v1, v2):
        out = []
        if v1:
            out.append((NAMES['h1'], pool[v1]))
        if v2:
            out.append((NAMES['h2'], pool[v2]))
        rnd.shuffle(out)
        return out
    names = [NAMES[s] for s, on in (('h1', p['vary1']), ('h2', p['vary2'])) if on]
    rnd.shuffle(names)
    if names and rnd.random() < 0.25:
        names.append(names[0])      # repeated name
    names = [spell_name(rnd, n) for n in names]
    oh = [('Cache-Control', 'max-age=3600')]
    sp = p['starpos']
    if sp == 'only':
        oh.append(('Vary', '*'))
    elif sp == 'first':
        oh.append(('Vary', ', '.join(['*'] + names)))
    elif sp == 'last':
        oh.append(('Vary', ', '.join(names + ['*'])))
    elif sp == 'second-field':
        oh.append(('Vary', ', '.join(names)))
        oh.append(('Vary', '*'))
    elif names:
        oh.append(('Vary', ', '.join(names)))
    oabs = dict(vary1=bool(p['vary1']), vary2=bool(p['vary2']), star=bool(p['star']))
    origin = {'status': 200, 'hdrs': oh, 'blen': rnd.choice([10, 3000]), 'abs': oabs}
    A = dict(v1=p['a1'], v2=p['a2'])
    B = dict(v1=p['b1'], v2=p['b2'])
    steps = [{'op': 'req', 'id': 1, 'hdrs': hdrs(p['a1'], p['a2']), 'abs': A, 'origin': origin},
             {'op': 'req', 'id': 2, 'hdrs': hdrs(p['b1'], p['b2']), 'abs': B, 'origin': origin},
             {'op': 'req', 'id': 3, 'hdrs': hdrs(p['a1'], p['a2']), 'abs': A, 'origin': origin},
             {'op': 'req', 'id': 4, 'hdrs': hdrs(p['b1'], p['b2']), 'abs': B, 'origin': origin}]
    return {'steps': steps, 'par': p, 'pred': c['pred'], 'pool': pool}


def run(ctx):
    tree = squidctl.ensure_binary(ctx)
    classes, res = escen.tlc_scenarios(ctx, os.path.join(SPEC, 'VaryScen.tla'), os.path.join(SPEC, 'MC_VaryScen.cfg'))
    ctx.log('TLC: %d states, %d scenario classes' % (res.distinct, len(classes)))
    rnd = random.Random(ctx.seed)
    classes.sort(key=lambda c: json.dumps(c, sort_keys=True))
    if not ctx.thorough:
        rnd.shuffle(classes)
        classes = [c for c in classes if c['par']['star']][:150] + [c for c in classes if not c['par']['star']][:300]
    scens = [scenario(c, random.Random(ctx.seed * 7919 + i)) for i, c in enumerate(classes)]
    out = cachesim.run_scenarios_stores(ctx, tree, scens, 6, disk_sample=60, prefer=lambda sc: sc['par']['star'])   # Vary: * entries read back from a cache_dir
    hist = [{'ev': cachesim.strip_for_tlc(ev)} for _, ev in out]
    rej = escen.validate(ctx, os.path.join(SPEC, 'Trace_VaryCache.tla'), os.path.join(SPEC, 'Trace_VaryCache.cfg'), hist, 'vary')
    ctx.log('realised %d scenarios; P-rejected %d' % (len(out), len(rej)))
    for i in rej[:5]:
        s, ev = out[i]
        ctx.violation('variant served to a request whose nominated headers do not match (VaryCache.tla): %s pool=%s' % (json.dumps(s['par']), json.dumps(s['pool'])),
                      {'kind': 'vary', 'par': s['par'], 'pool': s['pool'], 'events': cachesim.strip_for_tlc(ev), 'steps': s['steps']})
    hits = 0
    nd = 0
    for s, ev in out:
        got = 'contact' if cachesim.contacted(ev, 2) else 'hit'
        hits += sum(1 for i in (2, 3, 4) if not cachesim.contacted(ev, i))
        if got != s['pred']:
            nd += 1
            if len(ctx.drift) < 5:
                ctx.drift.append('VaryScen predicts %s for the second request, squid did %s: %s' % (s['pred'], got, json.dumps(s['par'])))
    ctx.cov['drift_total'] = nd
    ctx.cov['impl_distinct'] = len({json.dumps([s['par'], s['pool']], sort_keys=True) for s, _ in out})
    ctx.cov['requests_served_from_cache'] = hits
    for s, ev in out[:2]:
        ctx.sample({'par': s['par'], 'pool': s['pool'], 'events': cachesim.strip_for_tlc(ev)})
    ctx.cov['rule'] = ('classes = VaryScen.tla tuples (Vary nominates h1/h2/both/none/*; abstract values of both headers in request A and B); '
                       'realised as A, B, A, B with value pools containing quotes, commas, %22, empty values, case variants and raw / percent-encoded / doubly encoded spellings of the same byte and random Vary '
                       'spellings; histories validated by TLC against VaryCache.tla. Non-trivial = distinct (class, value pool).')
