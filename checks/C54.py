"""C54 - shared read/write lock provides mutual exclusion (DESIGN 6.1)."""
import json, os
import vlib, scheck
from vlib import VERIF

SPEC = os.path.join(VERIF, 'spec', 'smp')
OPS = {'ls1': 'ls', 'le1': 'le', 'lh_ls1': 'lh', 'us1': 'us', 'usx1': 'usx', 'uh2': 'uh', 'ue1': 'ue', 'sx1': 'sx',
       'sa1': 'sa', 'sp1': 'sp'}
SHARED = ('readers', 'writing', 'appending', 'updating', 'readLevel', 'writeLevel')


def build(ctx):
    return scheck.build_sdriver(ctx, 'rwlock', ['ipc/ReadWriteLock.h', 'ipc/ReadWriteLock.cc'], 's_rwlock.cc',
                                extra_subst=[('private:', 'public:')], extra_srcs=['s_stubs.cc'])


def mover(procs):
    def f(s, t):
        ch = [p for p in procs if s['pc'][p] != t['pc'][p] or s['held'][p] != t['held'][p] or s['cont'][p] != t['cont'][p]]
        if len(ch) != 1:
            raise vlib.MachineryError('ambiguous mover %r -> %r' % (s, t))
        p = ch[0]
        i = procs.index(p)
        if s['pc'][p] == 'idle':
            return ('B', i, OPS[t['pc'][p]])
        return ('S', i)
    return f


def run(ctx):
    exe = build(ctx)
    ctx.log('driver built:', exe)
    # 1. design step: P-layer and I-layer model checks (must pass on the unchanged spec)
    vlib.tlc_must_pass(ctx, os.path.join(SPEC, 'MC_RWLock.tla'), os.path.join(SPEC, 'MC_RWLock.cfg'))
    cfgs = ['MC_RWLockImpl_2.cfg', 'MC_RWLockImpl_3q.cfg'] + (['MC_RWLockImpl_3.cfg'] if ctx.thorough else [])
    for c in cfgs:
        r = vlib.tlc_must_pass(ctx, os.path.join(SPEC, 'RWLockImpl.tla'), os.path.join(SPEC, c), heap='8g')
        ctx.log('TLC %s: %d distinct states' % (c, r.distinct))
    # 2. T1: every edge of the 2-process I-graph replayed on the real lock
    r = vlib.tlc(ctx, os.path.join(SPEC, 'RWLockImpl.tla'), os.path.join(SPEC, 'MC_RWLockImpl_2_edges.cfg'), workers=1,
                 record=False)
    edges = scheck.parse_edges(r.out)
    # drop the op counter (not part of the dumped state) -> unique edges
    n, mism = scheck.replay_edges(ctx, exe, edges, 2, mover(['p1', 'p2']), SHARED)
    ctx.log('edge replay: %d unique edges, %d mismatches' % (n, mism))
    # 3. exhaustive schedule exploration of the real code, P-monitor in the driver, histories to TLC
    cap = 200000 if ctx.thorough else 6000
    cmds = ['X 2 3 2000000 %d' % cap, 'X 3 1 2000000 %d' % cap, 'X 3 2 %d %d' % (3000000 if ctx.thorough else 100000, cap)]
    if ctx.thorough:
        cmds.append('X 3 3 6000000 %d' % cap)
        cmds.append('X 4 1 6000000 %d' % cap)
    cmds.append('W 4 5 %d %d 0' % (2000 if not ctx.thorough else 20000, ctx.seed + 1))
    stats, hists, viols = scheck.run_explorer(ctx, exe, cmds)
    for s in stats:
        ctx.log('explorer:', json.dumps(s))
        ctx.add('impl_states', s.get('states', 0))
        ctx.add('impl_steps', s.get('steps', 0))
        ctx.add('impl_transitions', s.get('transitions', 0))
        ctx.add('impl_histories_distinct', s.get('histories', 0))
    for v in viols[:3]:
        ctx.violation('driver P-monitor: ' + v['what'], {'kind': 'schedule', 'path': v.get('path'), 'events': v['ev']})
    lines = [scheck.hist_to_line(h) for h in hists]
    seen = set()
    ul = []
    for ln in lines:
        k = json.dumps(ln, sort_keys=True)
        if k not in seen:
            seen.add(k)
            ul.append(ln)
    rej = scheck.validate_histories(ctx, os.path.join(SPEC, 'Trace_RWLock.tla'), os.path.join(SPEC, 'Trace_RWLock.cfg'),
                                    ul, 'rwlock')
    ctx.log('TLC validated %d distinct call/return histories against the P-layer; rejected: %d' % (len(ul), len(rej)))
    for i in rej[:3]:
        ctx.violation('history is not a behaviour of RWLock.tla (P-layer)', {'kind': 'history', 'events': ul[i] if isinstance(i, int) else i})
    ctx.cov['impl_distinct'] = len(ul)
    for h in ul[:2] + ul[-1:]:
        ctx.sample({'history': [[e['e'], e['p'], e['op'], e['res']] for e in h['ev']]})
    ctx.cov['exhaustive'] = not any(s.get('truncated') for s in stats)
    ctx.cov['explorer_runs'] = [dict(cmd=c, **s) for c, s in zip(cmds, stats)]
    ctx.cov['rule'] = ('TLC BFS of RWLockImpl (2 procs x 3 ops, 3 procs x 2 ops%s); every unique edge of the 2-process graph '
                       'replayed on the real Ipc::ReadWriteLock; bounded exhaustive schedule exploration of the real code with '
                       'state de-duplication; distinct call/return histories validated by TLC against RWLock.tla. '
                       'Non-trivial = history with at least two processes overlapping.' % (', 3 x 3' if ctx.thorough else ''))
    ctx.assumptions += ['sequentially consistent atomics (the player serialises accesses; weak-memory reorderings are not explored)',
                        'assert() conditions are evaluated atomically and are not scheduling points',
                        'compare_exchange_weak never fails spuriously in the player']
